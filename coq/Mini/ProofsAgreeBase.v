(* Mini/ProofsAgreeBase.v — helper of Mini/ProofsAgree.v: the agreement lemmas.

   Two environments that are pointwise equal except at the identifiers of a list Dl (`agree`) give the same
   verdict on every phrase that does not mention an identifier of Dl.  The only question the checker asks of an
   environment at an identifier the phrase need not mention is `ops_visible G t` (at the declared name of the
   type value t): the relation therefore also says that the two environments answer it alike for all "good"
   type values (`all_named Q`), and that all type values found in the environment are good.  Proofs only. *)
From Coq Require Import List NArith Arith Bool Lia FunctionalExtensionality.
Import ListNotations.
From RH Require Import Mini.Syntax Mini.Sem Mini.Walk Mini.Faults Mini.Rewrites.
Open Scope N_scope.

(* ------------------------------------------------------------------------------------------ *)
(* error monad                                                                                  *)
(* ------------------------------------------------------------------------------------------ *)
Lemma bind_ok_inv {A B} (r : res A) (f : A -> res B) (b : B) :
  bind r f = Ok b -> exists a, r = Ok a /\ f a = Ok b.
Proof. destruct r as [a|n c]; cbn [bind]; intros H; [exists a; split; [reflexivity|exact H]|discriminate]. Qed.
Lemma guard_ok_inv (b : bool) n c (u : unit) : guard b n c = Ok u -> b = true.
Proof. destruct b; cbn [guard]; intros H; [reflexivity|discriminate]. Qed.
Lemma guard_true n c : guard true n c = Ok tt.
Proof. reflexivity. Qed.

Ltac minv H :=
  cbv beta in H;
  lazymatch type of H with
  | bind _ _ = Ok _ =>
      let a := fresh "a" in let H1 := fresh "E" in let H2 := fresh "E" in
      apply bind_ok_inv in H; destruct H as [a [H1 H2]];
      try (match type of a with unit => destruct a end);
      minv H1; minv H2
  | guard _ _ _ = Ok _ => apply guard_ok_inv in H
  | _ => idtac
  end.

(* both results are the same error, or both are Ok with related values *)
Inductive rrel {A} (R : A -> A -> Prop) : res A -> res A -> Prop :=
| rrel_ok a a' : R a a' -> rrel R (Ok a) (Ok a')
| rrel_bad n c : rrel R (Bad n c) (Bad n c).

Lemma rrel_bind {A B} (R : A -> A -> Prop) (S : B -> B -> Prop) r r' (k k' : A -> res B) :
  rrel R r r' -> (forall a a', R a a' -> rrel S (k a) (k' a')) -> rrel S (bind r k) (bind r' k').
Proof. intros H Hk. destruct H; cbn [bind]; [apply Hk; assumption|constructor]. Qed.
Lemma rrel_bind_eq {A B} (S : B -> B -> Prop) (r r' : res A) (k k' : A -> res B) :
  r = r' -> (forall a, r = Ok a -> rrel S (k a) (k' a)) -> rrel S (bind r k) (bind r' k').
Proof. intros <- Hk. destruct r; cbn [bind]; [apply Hk; reflexivity|constructor]. Qed.
Lemma rrel_guard {B} (S : B -> B -> Prop) b n c (k k' : unit -> res B) :
  (b = true -> rrel S (k tt) (k' tt)) -> rrel S (bind (guard b n c) k) (bind (guard b n c) k').
Proof. intros H. destruct b; cbn [guard bind]; [apply H; reflexivity|constructor]. Qed.
Lemma rrel_ok_l {A} (R : A -> A -> Prop) r r' a : rrel R r r' -> r = Ok a -> exists a', r' = Ok a' /\ R a a'.
Proof. intros H E. destruct H; [injection E as <-; eexists; split; [reflexivity|assumption]|discriminate]. Qed.
Lemma rrel_ok_r {A} (R : A -> A -> Prop) r r' a' : rrel R r r' -> r' = Ok a' -> exists a, r = Ok a /\ R a a'.
Proof. intros H E. destruct H; [injection E as <-; eexists; split; [reflexivity|assumption]|discriminate]. Qed.
Lemma rrel_impl {A} (R S : A -> A -> Prop) r r' : (forall a a', R a a' -> S a a') -> rrel R r r' -> rrel S r r'.
Proof. intros H [a a' Ha|n c]; constructor. apply H. exact Ha. Qed.
Lemma rrel_eq {A} (r r' : res A) : r = r' -> rrel eq r r'.
Proof. intros <-. destruct r; constructor. reflexivity. Qed.
Lemma rrel_eq_inv {A} (r r' : res A) : rrel eq r r' -> r = r'.
Proof. intros [a a' <-|n c]; reflexivity. Qed.

(* ------------------------------------------------------------------------------------------ *)
(* lists                                                                                        *)
(* ------------------------------------------------------------------------------------------ *)
Lemma existsb_ext_in {A} (f g : A -> bool) l : (forall a, In a l -> f a = g a) -> existsb f l = existsb g l.
Proof.
  induction l as [|x r IH]; cbn [existsb]; intros H; [reflexivity|].
  rewrite (H x (or_introl eq_refl)), IH; [reflexivity|]. intros a Ha. apply H. right. exact Ha.
Qed.
Lemma forallb_ext_in {A} (f g : A -> bool) l : (forall a, In a l -> f a = g a) -> forallb f l = forallb g l.
Proof.
  induction l as [|x r IH]; cbn [forallb]; intros H; [reflexivity|].
  rewrite (H x (or_introl eq_refl)), IH; [reflexivity|]. intros a Ha. apply H. right. exact Ha.
Qed.
Lemma check_list_ext {A} (f g : A -> res unit) l : (forall a, In a l -> f a = g a) -> check_list f l = check_list g l.
Proof.
  induction l as [|x r IH]; cbn [check_list]; intros H; [reflexivity|].
  rewrite (H x (or_introl eq_refl)), IH; [reflexivity|]. intros a Ha. apply H. right. exact Ha.
Qed.
Lemma memb_In x l : memb x l = true <-> In x l.
Proof.
  unfold memb. rewrite existsb_exists. split.
  - intros [y [Hy E]]. apply N.eqb_eq in E. subst y. exact Hy.
  - intros H. exists x. split; [exact H|apply N.eqb_refl].
Qed.
Lemma memb_false x l : memb x l = false <-> ~ In x l.
Proof.
  rewrite <- memb_In. destruct (memb x l); split; intros H.
  - discriminate.
  - exfalso. apply H. reflexivity.
  - intro. discriminate.
  - reflexivity.
Qed.
Lemma In_dec_N (x : N) l : {In x l} + {~ In x l}.
Proof. apply in_dec. apply N.eq_dec. Qed.

(* ------------------------------------------------------------------------------------------ *)
(* type values: a property of every (unit number, declared name) inside a type value            *)
(* ------------------------------------------------------------------------------------------ *)
Fixpoint all_named (Q : N -> ident -> Prop) (t : sty) : Prop :=
  match t with
  | SEnum u n _ | SIntT u n => Q u n
  | SRec u n fs =>
      Q u n /\ (fix go (l : list (ident * sty)) : Prop :=
                  match l with [] => True | f :: r => all_named Q (snd f) /\ go r end) fs
  | SArr u n _ el => Q u n /\ all_named Q el
  | _ => True
  end.
Lemma all_named_rec Q u n fs :
  all_named Q (SRec u n fs) <-> Q u n /\ Forall (fun f => all_named Q (snd f)) fs.
Proof.
  cbn [all_named]. split; intros [H1 H2]; (split; [exact H1|]).
  - induction fs as [|f r IH]; [constructor|]. destruct H2 as [Ha Hb]. constructor; [exact Ha|exact (IH Hb)].
  - induction fs as [|f r IH]; [exact I|]. inversion H2; subst. split; [assumption|apply IH; assumption].
Qed.

Section StyInd.
Variable P : sty -> Prop.
Hypothesis H1 : P SBool. Hypothesis H2 : P SInt. Hypothesis H3 : P SBit. Hypothesis H4 : P SChar.
Hypothesis H5 : P SUInt. Hypothesis H6 : P SErr.
Hypothesis HEnum : forall u n l, P (SEnum u n l).
Hypothesis HIntT : forall u n, P (SIntT u n).
Hypothesis HRec : forall u n fs, Forall (fun f => P (snd f)) fs -> P (SRec u n fs).
Hypothesis HArr : forall u n len el, P el -> P (SArr u n len el).
Fixpoint sty_ind2 (t : sty) : P t :=
  match t with
  | SBool => H1 | SInt => H2 | SBit => H3 | SChar => H4 | SUInt => H5 | SErr => H6
  | SEnum u n l => HEnum u n l
  | SIntT u n => HIntT u n
  | SRec u n fs =>
      HRec u n fs ((fix go (l : list (ident * sty)) : Forall (fun f => P (snd f)) l :=
                      match l with
                      | [] => Forall_nil _
                      | f :: r => Forall_cons f (sty_ind2 (snd f)) (go r)
                      end) fs)
  | SArr u n len el => HArr u n len el (sty_ind2 el)
  end.
End StyInd.

Lemma all_named_mono (Q Q' : N -> ident -> Prop) :
  (forall u n, Q u n -> Q' u n) -> forall t, all_named Q t -> all_named Q' t.
Proof.
  intros HQ t. induction t as [| | | | | |u n l|u n|u n fs IH|u n len el IH] using sty_ind2; try (cbn [all_named]; tauto).
  - cbn [all_named]. apply HQ.
  - cbn [all_named]. apply HQ.
  - rewrite !all_named_rec. intros [Hq Hf]. split; [apply HQ; exact Hq|].
    rewrite Forall_forall in *. intros f Hin. apply IH; [exact Hin|apply Hf; exact Hin].
  - cbn [all_named]. intros [Hq He]. split; [apply HQ; exact Hq|apply IH; exact He].
Qed.
Lemma all_named_true t : all_named (fun _ _ => True) t.
Proof.
  induction t as [| | | | | |u n l|u n|u n fs IH|u n len el IH] using sty_ind2; try (cbn [all_named]; tauto).
  rewrite all_named_rec. split; [exact I|]. exact IH.
Qed.

Definition sty_key (t : sty) : option (N * ident) :=
  match t with SEnum u n _ | SIntT u n | SRec u n _ | SArr u n _ _ => Some (u, n) | _ => None end.
Lemma all_named_key Q t u n : all_named Q t -> sty_key t = Some (u, n) -> Q u n.
Proof. destruct t; cbn [all_named sty_key]; intros H E; try discriminate; injection E as <- <-; tauto. Qed.
Lemma sty_eqb_key a b : sty_eqb a b = true -> sty_key a = sty_key b.
Proof.
  destruct a, b; cbn [sty_eqb sty_key]; intros H; try discriminate; try reflexivity;
    apply andb_true_iff in H; destruct H as [Hu Hn]; apply N.eqb_eq in Hu; apply N.eqb_eq in Hn; subst; reflexivity.
Qed.
Lemma sty_name_key t : sty_name t = match sty_key t with Some (_, n) => Some n | None => None end.
Proof. destruct t; reflexivity. Qed.

(* the types that can flow out of a binding into the types of expressions *)
Definition bk_types (k : bkind) : list sty :=
  match k with BObj _ _ t | BType t _ | BDeferred t | BLit t | BFun _ t => [t] | _ => [] end.
Definition bgoodQ (Q : N -> ident -> Prop) (b : binding) : Prop :=
  forall t, In t (bk_types (b_kind b)) -> all_named Q t.

(* "t is declared here as a type of its own" (ops_visible) *)
Definition ownb (t : sty) (bs : list binding) : bool :=
  existsb (fun b => match b_kind b with BType t' true => sty_eqb t t' | _ => false end) bs.
Lemma ops_visible_ownb G t :
  ops_visible G t = match sty_name t with
                    | None => match t with SErr => false | _ => true end
                    | Some n => ownb t (vis G n)
                    end.
Proof. reflexivity. Qed.
Lemma ownb_app t a b : ownb t (a ++ b) = ownb t a || ownb t b.
Proof. unfold ownb. apply existsb_app. Qed.
Lemma ownb_filter t (f : binding -> bool) bs :
  (forall b, (match b_kind b with BType _ true => true | _ => false end) = true -> f b = true) ->
  ownb t (filter f bs) = ownb t bs.
Proof.
  intros Hf. unfold ownb. induction bs as [|b r IH]; [reflexivity|].
  cbn [filter]. destruct (f b) eqn:E; cbn [existsb]; rewrite IH; [reflexivity|].
  destruct (b_kind b) as [| ? [|] | | | | |] eqn:Ek; try reflexivity.
  rewrite Hf in E; [discriminate|]. rewrite Ek. reflexivity.
Qed.
Lemma ownb_undefer t bs : ownb t (map undefer bs) = ownb t bs.
Proof.
  unfold ownb. induction bs as [|b r IH]; [reflexivity|]. cbn [map existsb]. rewrite IH. f_equal.
  unfold undefer. destruct (b_kind b) eqn:E; rewrite ?E; reflexivity.
Qed.

Lemma dedup_In t l : In t (dedup l) -> In t l.
Proof.
  induction l as [|x r IH]; cbn [dedup]; [tauto|].
  destruct (existsb (sty_eqb x) r); intros H; [right; apply IH; exact H|].
  destruct H as [H|H]; [left; exact H|right; apply IH; exact H].
Qed.
Lemma find_field_In fs f x : find_field fs f = Some x -> In x fs.
Proof.
  unfold find_field. destruct (o_id f =? id_undeclared); [discriminate|]. intros H. apply find_some in H. tauto.
Qed.
Lemma all_named_field Q u n fs f x : all_named Q (SRec u n fs) -> find_field fs f = Some x -> all_named Q (snd x).
Proof.
  rewrite all_named_rec. intros [_ Hf] E. apply find_field_In in E. rewrite Forall_forall in Hf. apply Hf. exact E.
Qed.

(* ------------------------------------------------------------------------------------------ *)
(* unfolding equations of the mutual fixpoints of Sem.v (cbn does not refold them)             *)
(* ------------------------------------------------------------------------------------------ *)
Section Unfold.
Variable md : mode.
Variable GE : genv.
Notation rootg G := (root_gen md (interp md GE G) (root_fields md GE G) (root_elems md GE G) (blame md GE G)).
Lemma interp_EInt G i v : interp md GE G (EInt i v) = Ok [SUInt]. Proof. reflexivity. Qed.
Lemma interp_EBit G i b : interp md GE G (EBit i b) = Ok [SBit; SChar]. Proof. reflexivity. Qed.
Lemma interp_ENam G n : interp md GE G (ENam n) = interp_name md GE G n. Proof. reflexivity. Qed.
Lemma interp_ECall G f a : interp md GE G (ECall f a) =
  (bs <- callee_bindings GE G f ;; al <- interp_args md GE G a ;;
   Ok (flat_map (fun c => repeat (snd c) (call_ways (fst c) al)) (funs_of bs))).
Proof. reflexivity. Qed.
Lemma interp_EBin G i op l r : interp md GE G (EBin i op l r) =
  (if is_aggregate r then
     if is_aggregate l then Ok [] else
     li <- interp md GE G l ;;
     match agg_type G op li with
     | Some t => rootg G t r ;;; Ok [op_result op t]
     | None => Ok []
     end
   else if is_aggregate l then
     ri <- interp md GE G r ;;
     match agg_type G op ri with
     | Some t => rootg G t l ;;; Ok [op_result op t]
     | None => Ok []
     end
   else li <- interp md GE G l ;; ri <- interp md GE G r ;; Ok (op_interps G op li ri)).
Proof. reflexivity. Qed.
Lemma interp_ENot G i e : interp md GE G (ENot i e) =
  (li <- interp md GE G e ;; Ok (filter (fun t => match t with SBool | SBit => true | _ => false end) li)).
Proof. reflexivity. Qed.
Lemma interp_EAgg G i els : interp md GE G (EAgg i els) = Ok []. Proof. reflexivity. Qed.
Lemma interp_EQual G t e : interp md GE G (EQual t e) =
  (ty <- resolve_tmark GE G t ;; rootg G ty e ;;; Ok [ty]).
Proof. reflexivity. Qed.
Lemma interp_name_NId G o : interp_name md GE G (NId o) =
  (bs <- vis_occ G o ;; guard (negb (existsb is_deferred bs)) (o_nid o) Other ;;; Ok (value_types bs)).
Proof. reflexivity. Qed.
Lemma interp_name_NSel G l p o : interp_name md GE G (NSel l p o) =
  (bs <- sel_item GE G l p o ;; guard (negb (existsb is_deferred bs)) (o_nid o) Other ;;; Ok (value_types bs)).
Proof. reflexivity. Qed.
Lemma interp_name_NFld G n' f : interp_name md GE G (NFld n' f) =
  (o <- obj_name md GE G n' ;;
   match snd o with
   | SRec _ _ fs => match find_field fs f with Some x => Ok [snd x] | None => Bad (o_nid f) UnknownField end
   | _ => Bad (o_nid f) Other
   end).
Proof. reflexivity. Qed.
Lemma interp_name_NIdx G n' e : interp_name md GE G (NIdx n' e) =
  (o <- obj_name md GE G n' ;;
   match snd o with
   | SArr _ _ _ el => rootg G SInt e ;;; Ok [el]
   | _ => Bad (root_nid_name n') Other
   end).
Proof. reflexivity. Qed.
Lemma obj_name_NId G o : obj_name md GE G (NId o) =
  (bs <- vis_occ G o ;; match obj_of_bindings bs with Some x => Ok x | None => Bad (o_nid o) Other end).
Proof. reflexivity. Qed.
Lemma obj_name_NSel G l p o : obj_name md GE G (NSel l p o) =
  (bs <- sel_item GE G l p o ;; match obj_of_bindings bs with Some x => Ok x | None => Bad (o_nid o) Other end).
Proof. reflexivity. Qed.
Lemma obj_name_NFld G n' f : obj_name md GE G (NFld n' f) =
  (o <- obj_name md GE G n' ;;
   match snd o with
   | SRec _ _ fs => match find_field fs f with Some x => Ok (fst o, snd x) | None => Bad (o_nid f) UnknownField end
   | _ => Bad (o_nid f) Other
   end).
Proof. reflexivity. Qed.
Lemma obj_name_NIdx G n' e : obj_name md GE G (NIdx n' e) =
  (o <- obj_name md GE G n' ;;
   match snd o with
   | SArr _ _ _ el => rootg G SInt e ;;; Ok (fst o, el)
   | _ => Bad (root_nid_name n') Other
   end).
Proof. reflexivity. Qed.
Lemma interp_args_ANil G : interp_args md GE G ANil = Ok []. Proof. reflexivity. Qed.
Lemma interp_args_ACons G c e r : interp_args md GE G (ACons c e r) =
  (x <- interp md GE G e ;; y <- interp_args md GE G r ;; Ok ((c, x) :: y)).
Proof. reflexivity. Qed.
Lemma root_fields_ANil G i all fs : root_fields md GE G i all fs ANil =
  guard (match fs with [] => true | _ => false end) i Other.
Proof. reflexivity. Qed.
Lemma root_fields_ACons G i all fs c e r : root_fields md GE G i all fs (ACons c e r) =
  match c with
  | ChPos => match fs with
             | ft :: fs' => rootg G (snd ft) e ;;; root_fields md GE G i all fs' r
             | [] => Bad (head_nid e) Other
             end
  | ChName f => match find_field all f with
                | Some x =>
                    guard (existsb (fun y => fst y =? o_id f) fs) (o_nid f) Other ;;;
                    guard (negb (args_has_pos r)) (o_nid f) Conservative ;;;
                    rootg G (snd x) e ;;;
                    root_fields md GE G i all (filter (fun y => negb (fst y =? o_id f)) fs) r
                | None => Bad (o_nid f) UnknownField
                end
  | ChOthers => match r with
                | ANil => match fs with
                          | ft :: fs' => guard (forallb (fun y => sty_eqb (snd y) (snd ft)) fs') (head_nid e) Other ;;;
                                         rootg G (snd ft) e
                          | [] => Bad (head_nid e) Other
                          end
                | _ => Bad (head_nid e) Conservative
                end
  end.
Proof. destruct c; try reflexivity; destruct r; reflexivity. Qed.
Lemma root_elems_ANil G i el n : root_elems md GE G i el n ANil =
  guard (match n with O => true | _ => false end) i Other.
Proof. reflexivity. Qed.
Lemma root_elems_ACons G i el n c e r : root_elems md GE G i el n (ACons c e r) =
  match c with
  | ChPos => match n with
             | S n' => rootg G el e ;;; root_elems md GE G i el n' r
             | O => Bad (head_nid e) Other
             end
  | ChOthers => match r with ANil => rootg G el e | _ => Bad (head_nid e) Conservative end
  | ChName _ => Bad (head_nid e) Conservative
  end.
Proof. destruct c; reflexivity. Qed.
Lemma blame_ECall G t f a : blame md GE G t (ECall f a) =
  match callee_bindings GE G f, interp_args md GE G a with
  | Ok bs, Ok al =>
      match filter (fun c => shape_ok (fst c) al) (funs_of bs) with
      | [c] => blame_args md GE G (map ps_ty (fst c)) a (o_nid (fname_occ f))
      | cs => match filter (fun c => negb (Nat.eqb (call_ways (fst c) al) 0)) cs with
              | [c] => (o_nid (fname_occ f), TypeMismatch)
              | _ => blame_leaf (ECall f a)
              end
      end
  | _, _ => blame_leaf (ECall f a)
  end.
Proof. reflexivity. Qed.
Lemma blame_ENam_NId G t o : blame md GE G t (ENam (NId o)) =
  if only_subprograms (vis G (o_id o)) then (o_nid o, NoOverload) else blame_leaf (ENam (NId o)).
Proof. reflexivity. Qed.
Lemma blame_ENam_NSel G t l p o : blame md GE G t (ENam (NSel l p o)) =
  match sel_item GE G l p o with
  | Ok bs => if only_subprograms bs then (o_nid o, NoOverload) else blame_leaf (ENam (NSel l p o))
  | Bad _ _ => blame_leaf (ENam (NSel l p o))
  end.
Proof. reflexivity. Qed.
Lemma blame_args_ACons G ts c e r d : blame_args md GE G ts (ACons c e r) d =
  match c, ts with
  | ChPos, t :: ts' =>
      match interp md GE G e with
      | Ok l => match count_fits t l with O => blame md GE G t e | _ => blame_args md GE G ts' r d end
      | Bad _ _ => (d, TypeMismatch)
      end
  | _, _ => (d, TypeMismatch)
  end.
Proof. destruct c; reflexivity. Qed.

Lemma check_stmt_SSig G i t e : check_stmt md GE G (SSig i t e) = (ty <- check_target md GE G KSig t ;; root md GE G ty e).
Proof. reflexivity. Qed.
Lemma check_stmt_SVar G i t e : check_stmt md GE G (SVar i t e) = (ty <- check_target md GE G KVar t ;; root md GE G ty e).
Proof. reflexivity. Qed.
Lemma check_stmt_SIf G i c th el : check_stmt md GE G (SIf i c th el) =
  (root md GE G SBool c ;;; check_stmts md GE G th ;;; check_stmts md GE G el).
Proof. reflexivity. Qed.
Lemma check_stmt_SCase G i sel alts oth : check_stmt md GE G (SCase i sel alts oth) =
  (o <- obj_name md GE G sel ;;
   guard (match snd o with SEnum _ _ _ | SInt | SIntT _ _ | SBool | SBit => true | _ => false end) (root_nid_name sel) Other ;;;
   guard (nodup_keys (map cchoice_key (calts_choices alts))) i Conservative ;;;
   check_calts md GE G (snd o) alts ;;;
   check_stmts md GE G oth).
Proof. reflexivity. Qed.
Lemma check_stmt_SFor G i v lo hi b : check_stmt md GE G (SFor i v lo hi b) =
  (G' <- declare (push G) v (BObj KConst MNone SInt) ;; check_stmts md GE G' b).
Proof. reflexivity. Qed.
Lemma check_stmt_SWhile G i c b : check_stmt md GE G (SWhile i c b) =
  (root md GE G SBool c ;;; check_stmts md GE G b).
Proof. reflexivity. Qed.
Lemma check_stmt_SCall G f a : check_stmt md GE G (SCall f a) =
  (bs <- callee_bindings GE G f ;;
   al <- interp_args md GE G a ;;
   match filter (fun ps => negb (Nat.eqb (call_ways ps al) 0)) (procs_of bs) with
   | [] => Bad (o_nid (fname_occ f)) NoOverload
   | [ps] =>
       guard (crit md (call_ways ps al)) (o_nid (fname_occ f)) Ambiguous ;;;
       match assoc (map ps_name ps) (args_list a) with
       | Some es => guard (forallb (fun pe => actual_obj_ok md GE G (fst pe) (snd pe)) (combine ps es))
                          (o_nid (fname_occ f)) Other
       | None => Bad (o_nid (fname_occ f)) Other
       end
   | ps :: _ => if crit md 2 then Ok tt else Bad (o_nid (fname_occ f)) Ambiguous
   end).
Proof. destruct f; reflexivity. Qed.
Lemma check_stmt_SRet G i e : check_stmt md GE G (SRet i e) =
  match e_ret G, e with
  | Some (Some t), Some e => root md GE G t e
  | Some None, None => Ok tt
  | _, _ => Bad i Other
  end.
Proof. reflexivity. Qed.
Lemma check_stmt_SNull G i : check_stmt md GE G (SNull i) = Ok tt. Proof. reflexivity. Qed.
Lemma check_stmts_SNil G : check_stmts md GE G SNil = Ok tt. Proof. reflexivity. Qed.
Lemma check_stmts_SCons G x r : check_stmts md GE G (SCons x r) = (check_stmt md GE G x ;;; check_stmts md GE G r).
Proof. reflexivity. Qed.
Lemma check_calts_CANil G t : check_calts md GE G t CANil = Ok tt. Proof. reflexivity. Qed.
Lemma check_calts_CACons G t cs b r : check_calts md GE G t (CACons cs b r) =
  (check_list (check_cchoice G t) cs ;;; check_stmts md GE G b ;;; check_calts md GE G t r).
Proof. reflexivity. Qed.

Lemma check_conc_CProc G lbl sens ls b : check_conc md GE G (CProc lbl sens ls b) =
  (check_list (check_sens md GE G) sens ;;; G' <- check_ldecls md GE (push G) ls ;; check_stmts md GE G' b).
Proof. reflexivity. Qed.
Lemma check_conc_CAssign G lbl t e : check_conc md GE G (CAssign lbl t e) =
  (ty <- check_target md GE G KSig t ;; root md GE G ty e).
Proof. reflexivity. Qed.
Lemma check_conc_CBlock G lbl ds b : check_conc md GE G (CBlock lbl ds b) =
  (G' <- check_decls md GE RArch [] (push G) ds ;; check_concs md GE G' b).
Proof. reflexivity. Qed.
Lemma check_conc_CInstE G lbl l e a gm pm : check_conc md GE G (CInstE lbl l e a gm pm) =
  (guard (negb (o_id l =? id_undeclared) && e_libs G (o_id l)) (o_nid l) Undeclared ;;;
   match find_unit GE (o_id l) (o_id e) with
   | Some (GEnt gs ps _) =>
       match a with
       | Some a => guard (negb (o_id a =? id_undeclared) && find_arch GE (o_id l) (o_id e) (o_id a)) (o_nid a) UnknownArch
       | None => Ok tt
       end ;;;
       check_amap (check_generic_actual md GE G) (o_nid e) gs gm ;;;
       check_amap (check_port_actual md GE G) (o_nid e) ps pm
   | _ => Bad (o_nid e) UnknownUnit
   end).
Proof. reflexivity. Qed.
Lemma check_conc_CInstC G lbl c gm pm : check_conc md GE G (CInstC lbl c gm pm) =
  (bs <- vis_occ G c ;;
   match bs with
   | [b] => match b_kind b with
            | BComp gs ps =>
                check_amap (check_generic_actual md GE G) (o_nid c) gs gm ;;;
                check_amap (check_port_actual md GE G) (o_nid c) ps pm
            | _ => Bad (o_nid c) Other
            end
   | _ => Bad (o_nid c) Other
   end).
Proof. reflexivity. Qed.
Lemma check_concs_CNil G : check_concs md GE G CNil = Ok tt. Proof. reflexivity. Qed.
Lemma check_concs_CCons G x r : check_concs md GE G (CCons x r) = (check_conc md GE G x ;;; check_concs md GE G r).
Proof. reflexivity. Qed.
End Unfold.

(* ------------------------------------------------------------------------------------------ *)
(* agreement                                                                                    *)
(* ------------------------------------------------------------------------------------------ *)
Section Agree.
Variable md : mode.
Variable GE : genv.
Variable Dl : list ident.
Variable Q : N -> ident -> Prop.
Hypothesis Qout : forall u n, ~ In n Dl -> Q u n.

Notation gd := (all_named Q).
Notation bgood := (bgoodQ Q).

Definition genv_good : Prop :=
  forall l n k ex y b, find_unit GE l n = Some k -> exports_of k = Some ex -> In b (ex y) -> bgood b.
Hypothesis GEgood : genv_good.

Record agree (G G' : env) : Prop := {
  ag_vis : forall y, ~ In y Dl -> e_vis G y = e_vis G' y;
  ag_cur : forall y, ~ In y Dl -> e_cur G y = e_cur G' y;
  ag_libs : e_libs G = e_libs G';
  ag_uid : e_uid G = e_uid G';
  ag_home : e_home G = e_home G';
  ag_ret : e_ret G = e_ret G';
  ag_ops : forall n t, In n Dl -> gd t -> sty_name t = Some n -> ownb t (e_vis G n) = ownb t (e_vis G' n);
  ag_good : forall y b, ~ In y Dl -> In b (e_vis G y) -> bgood b
}.

Definition freshl (l : list (nid * okind * ident)) : Prop := Forall (fun t => ~ In (snd t) Dl) l.
Lemma freshl_app a b : freshl (a ++ b) -> freshl a /\ freshl b.
Proof. apply Forall_app. Qed.
Lemma freshl_oc k o : freshl (oc k o) -> ~ In (o_id o) Dl.
Proof. intros H. inversion H; subst. assumption. Qed.
Lemma freshl_flat_map {A} (f : A -> list (nid * okind * ident)) l : freshl (flat_map f l) -> forall x, In x l -> freshl (f x).
Proof. intros H. apply Forall_flat_map in H. rewrite Forall_forall in H. exact H. Qed.
Lemma freshl_nil : freshl [].
Proof. constructor. Qed.
Lemma freshl_args k k' a : freshl (oc_args k a) -> freshl (oc_args k' a).
Proof.
  induction a as [|c e r IH]; cbn [oc_args]; intros H; [constructor|].
  apply freshl_app in H. destruct H as [H1 H2]. apply freshl_app in H2. destruct H2 as [H2 H3].
  apply Forall_app. split; [|apply Forall_app; split; [exact H2|apply IH; exact H3]].
  destruct c as [|o|]; [constructor| |constructor].
  unfold oc in *. inversion H1; subst. constructor; [assumption|constructor].
Qed.

Ltac frs :=
  repeat match goal with
  | H : freshl (_ ++ _) |- _ =>
      let A := fresh "Fr" in let B := fresh "Fr" in apply freshl_app in H; destruct H as [A B]
  | H : freshl (oc _ _) |- _ => apply freshl_oc in H
  end.

Ltac cbn_env := cbn [pure_view set_vis set_cur set_ret set_done set_home set_uid set_libs add_lib push complete_deferred bind_raw
                       e_vis e_cur e_libs e_uid e_home e_ret e_done].

Lemma bgood_kind k h h' : bgood (Bnd k h) -> bgood (Bnd k h').
Proof. intros H. exact H. Qed.

(* --- updates preserve agreement --- *)
Lemma agree_bind_raw G G' x b : agree G G' -> ~ In x Dl -> bgood b -> agree (bind_raw G x b) (bind_raw G' x b).
Proof.
  intros A Hx Hb. destruct A as [Av Ac Al Au Ah Ar Ao Ag]. constructor; cbn_env; try assumption.
  - intros y Hy. unfold fadd. rewrite (Av y Hy). reflexivity.
  - intros y Hy. unfold fadd. rewrite (Ac y Hy). reflexivity.
  - intros n t Hn Hg Hs. unfold fadd. destruct (n =? x) eqn:E; [apply N.eqb_eq in E; subst n; contradiction|]. apply Ao; assumption.
  - intros y b' Hy Hin. unfold fadd in Hin. destruct (y =? x); [destruct Hin as [<-|Hin]; [exact Hb|]|]; apply (Ag y); assumption.
Qed.
Lemma agree_push G G' : agree G G' -> agree (push G) (push G').
Proof.
  intros [Av Ac Al Au Ah Ar Ao Ag]. constructor; cbn_env; try assumption. reflexivity.
Qed.
Lemma agree_set_ret G G' r : agree G G' -> agree (set_ret G r) (set_ret G' r).
Proof.
  intros [Av Ac Al Au Ah Ar Ao Ag]. constructor; cbn_env; try assumption. reflexivity.
Qed.
Lemma agree_set_done G G' d d' : agree G G' -> agree (set_done G d) (set_done G' d').
Proof.
  intros [Av Ac Al Au Ah Ar Ao Ag]. constructor; cbn_env; assumption.
Qed.
Lemma agree_pure_view G G' : agree G G' -> agree (pure_view G) (pure_view G').
Proof.
  intros [Av Ac Al Au Ah Ar Ao Ag]. constructor; cbn_env; try assumption.
  - intros y Hy. rewrite (Av y Hy). reflexivity.
  - intros n t Hn Hg Hs. rewrite !ownb_filter; [apply Ao; assumption| |];
      intros b Hb; destruct (b_kind b); try discriminate; reflexivity.
  - intros y b Hy Hin. apply filter_In in Hin. apply (Ag y); tauto.
Qed.
Lemma agree_complete G G' x : agree G G' -> ~ In x Dl -> agree (complete_deferred G x) (complete_deferred G' x).
Proof.
  intros [Av Ac Al Au Ah Ar Ao Ag] Hx. constructor; cbn_env; try assumption.
  - intros y Hy. unfold fcomplete. rewrite (Av y Hy). reflexivity.
  - intros y Hy. unfold fcomplete. rewrite (Ac y Hy). reflexivity.
  - intros n t Hn Hg Hs. unfold fcomplete. destruct (n =? x) eqn:E; [apply N.eqb_eq in E; subst n; contradiction|]. apply Ao; assumption.
  - intros y b Hy Hin. unfold fcomplete in Hin. destruct (y =? x); [|apply (Ag y); assumption].
    apply in_map_iff in Hin. destruct Hin as [b0 [<- Hin]]. specialize (Ag y b0 Hy Hin).
    unfold undefer. destruct (b_kind b0) eqn:E; try exact Ag.
    intros t' Ht'. apply Ag. rewrite E. exact Ht'.
Qed.

Lemma declare_agree G G' o k :
  agree G G' -> ~ In (o_id o) Dl -> bgood (Bnd k None) -> rrel agree (declare G o k) (declare G' o k).
Proof.
  intros A Ho Hb. unfold declare.
  rewrite <- (ag_cur _ _ A _ Ho), <- (ag_vis _ _ A _ Ho), <- (ag_home _ _ A).
  apply rrel_guard. intros _. apply rrel_guard. intros _. apply rrel_guard. intros _.
  constructor. apply agree_bind_raw; assumption.
Qed.

(* --- lookups --- *)
Section Fixed.
Variables G G' : env.
Hypothesis AG : agree G G'.

Lemma vis_agree x : ~ In x Dl -> vis G x = vis G' x.
Proof. intros H. unfold vis. rewrite (ag_vis _ _ AG x H). reflexivity. Qed.
Lemma vis_occ_agree o : ~ In (o_id o) Dl -> vis_occ G o = vis_occ G' o.
Proof. intros H. unfold vis_occ. rewrite (vis_agree _ H). reflexivity. Qed.
Lemma vis_occ_good o bs : ~ In (o_id o) Dl -> vis_occ G o = Ok bs -> Forall bgood bs.
Proof.
  intros H. unfold vis_occ. destruct (vis G (o_id o)) as [|b r] eqn:E; [discriminate|].
  destruct (coherent (b :: r)); [|discriminate]. intros E'. injection E' as <-.
  apply Forall_forall. intros b' Hb'. apply (ag_good _ _ AG (o_id o)); [exact H|].
  unfold vis in E. destruct (o_id o =? id_undeclared); [discriminate|]. rewrite E. exact Hb'.
Qed.
Lemma sel_pkg_agree l p : sel_pkg GE G l p = sel_pkg GE G' l p.
Proof. unfold sel_pkg. rewrite (ag_libs _ _ AG). reflexivity. Qed.
Lemma sel_item_agree l p o : sel_item GE G l p o = sel_item GE G' l p o.
Proof. unfold sel_item. rewrite sel_pkg_agree. reflexivity. Qed.
Lemma sel_item_good l p o bs : sel_item GE G l p o = Ok bs -> Forall bgood bs.
Proof.
  unfold sel_item, sel_pkg. intros H. minv H.
  destruct (find_unit GE (o_id l) (o_id p)) as [k|] eqn:Ef; [|discriminate].
  destruct (exports_of k) as [ex|] eqn:Ee; [|discriminate]. injection E2 as <-.
  destruct (o_id o =? id_undeclared); [discriminate|].
  destruct (ex (o_id o)) as [|b r] eqn:Eb; [discriminate|]. injection E0 as <-.
  apply Forall_forall. intros b' Hb'. apply (GEgood _ _ _ _ (o_id o) b' Ef Ee). rewrite Eb. exact Hb'.
Qed.
Lemma callee_agree f : freshl (oc_fname f) -> callee_bindings GE G f = callee_bindings GE G' f.
Proof.
  destruct f as [o|l p o]; cbn [oc_fname callee_bindings]; intros Fr.
  - frs. apply vis_occ_agree. assumption.
  - apply sel_item_agree.
Qed.
Lemma callee_good f bs : freshl (oc_fname f) -> callee_bindings GE G f = Ok bs -> Forall bgood bs.
Proof.
  destruct f as [o|l p o]; cbn [oc_fname callee_bindings]; intros Fr.
  - frs. apply vis_occ_good. assumption.
  - apply sel_item_good.
Qed.
Lemma type_of_bindings_good bs t : Forall bgood bs -> type_of_bindings bs = Some t -> gd t.
Proof.
  intros Hb. unfold type_of_bindings. destruct bs as [|b [|? ?]]; try discriminate.
  destruct (b_kind b) eqn:E; try discriminate. intros E'. injection E' as <-.
  inversion Hb; subst. apply H1. rewrite E. left. reflexivity.
Qed.
Lemma resolve_tmark_agree t : freshl (oc_tmark t) -> resolve_tmark GE G t = resolve_tmark GE G' t.
Proof.
  destruct t as [| | |o|l p o]; cbn [oc_tmark resolve_tmark]; intros Fr; try reflexivity.
  - frs. rewrite vis_occ_agree; [reflexivity|assumption].
  - rewrite sel_item_agree. reflexivity.
Qed.
Lemma resolve_tmark_good t ty : freshl (oc_tmark t) -> resolve_tmark GE G t = Ok ty -> gd ty.
Proof.
  destruct t as [| | |o|l p o]; cbn [oc_tmark resolve_tmark]; intros Fr H; try (injection H as <-; exact I).
  - frs. minv H. destruct (type_of_bindings a) eqn:Et; [|discriminate]. injection E0 as <-.
    eapply type_of_bindings_good; [|exact Et]. eapply vis_occ_good; eassumption.
  - minv H. destruct (type_of_bindings a) eqn:Et; [|discriminate]. injection E0 as <-.
    eapply type_of_bindings_good; [|exact Et]. eapply sel_item_good; eassumption.
Qed.
Lemma tmark_ty_agree t : freshl (oc_tmark t) -> tmark_ty GE G t = tmark_ty GE G' t.
Proof. intros Fr. unfold tmark_ty. rewrite resolve_tmark_agree; [reflexivity|exact Fr]. Qed.
Lemma tmark_ty_good t : freshl (oc_tmark t) -> gd (tmark_ty GE G t).
Proof.
  intros Fr. unfold tmark_ty. destruct (resolve_tmark GE G t) eqn:E; [|exact I].
  eapply resolve_tmark_good; eassumption.
Qed.

Lemma ops_agree t : gd t -> ops_visible G t = ops_visible G' t.
Proof.
  intros Hg. rewrite !ops_visible_ownb. destruct (sty_name t) as [n|] eqn:E; [|reflexivity].
  unfold vis. destruct (n =? id_undeclared); [reflexivity|]. destruct (In_dec_N n Dl) as [Hi|Hi].
  - apply (ag_ops _ _ AG n t Hi Hg E).
  - rewrite (ag_vis _ _ AG n Hi). reflexivity.
Qed.
Lemma op_types_agree op li ri : Forall gd li -> Forall gd ri -> op_types G op li ri = op_types G' op li ri.
Proof.
  intros Hl Hr. unfold op_types. apply filter_ext_in. intros t Ht. apply dedup_In in Ht.
  rewrite ops_agree; [reflexivity|].
  assert (Hall : Forall gd (li ++ ri)) by (apply Forall_app; split; assumption).
  rewrite Forall_forall in Hall. apply Hall. exact Ht.
Qed.
Lemma op_interps_agree op li ri : Forall gd li -> Forall gd ri -> op_interps G op li ri = op_interps G' op li ri.
Proof. intros Hl Hr. unfold op_interps. rewrite op_types_agree; [reflexivity|assumption|assumption]. Qed.
Lemma agg_type_In H0 op li t : agg_type H0 op li = Some t -> In t li.
Proof.
  unfold agg_type. destruct (dedup (filter is_composite li)) as [|x [|? ?]] eqn:E; try discriminate.
  destruct (op_class_ok op x && ops_visible H0 x); [|discriminate]. intros H. injection H as <-.
  assert (Hx : In x (dedup (filter is_composite li))) by (rewrite E; left; reflexivity).
  apply dedup_In in Hx. apply filter_In in Hx. tauto.
Qed.
Lemma agg_type_agree op li : Forall gd li -> agg_type G op li = agg_type G' op li.
Proof.
  intros Hl. unfold agg_type. destruct (dedup (filter is_composite li)) as [|x [|? ?]] eqn:E; try reflexivity.
  rewrite ops_agree; [reflexivity|].
  assert (Hx : In x (dedup (filter is_composite li))) by (rewrite E; left; reflexivity).
  apply dedup_In in Hx. apply filter_In in Hx. rewrite Forall_forall in Hl. apply Hl. tauto.
Qed.
Lemma op_result_good op t : gd t -> gd (op_result op t).
Proof. intros H. destruct op; cbn [op_result]; try exact H; exact I. Qed.
Lemma op_interps_good op li ri : Forall gd li -> Forall gd ri -> Forall gd (op_interps G op li ri).
Proof.
  intros Hl Hr. unfold op_interps. apply Forall_flat_map. apply Forall_forall. intros t Ht.
  unfold op_types in Ht. apply filter_In in Ht. destruct Ht as [Ht _]. apply dedup_In in Ht.
  assert (Hall : Forall gd (li ++ ri)) by (apply Forall_app; split; assumption).
  rewrite Forall_forall in Hall. specialize (Hall t Ht).
  apply Forall_forall. intros t' Ht'. apply repeat_spec in Ht'. subst t'.
  destruct op; cbn [op_result]; try exact Hall; exact I.
Qed.
Lemma value_types_good bs : Forall bgood bs -> Forall gd (value_types bs).
Proof.
  intros H. unfold value_types. apply Forall_flat_map. eapply Forall_impl; [|exact H].
  intros b Hb. destruct (b_kind b) eqn:E; try constructor; try constructor; apply Hb; rewrite E; left; reflexivity.
Qed.
Lemma obj_of_bindings_good bs x : Forall bgood bs -> obj_of_bindings bs = Some x -> gd (snd x).
Proof.
  intros Hb. unfold obj_of_bindings. destruct bs as [|b [|? ?]]; try discriminate.
  destruct (b_kind b) eqn:E; try discriminate. intros E'. injection E' as <-.
  inversion Hb; subst. apply H1. rewrite E. left. reflexivity.
Qed.
Lemma funs_of_good bs c : Forall bgood bs -> In c (funs_of bs) -> gd (snd c).
Proof.
  intros Hb Hc. unfold funs_of in Hc. apply in_flat_map in Hc. destruct Hc as [b [Hin Hc]].
  rewrite Forall_forall in Hb. specialize (Hb b Hin).
  destruct (b_kind b) eqn:E; try contradiction. destruct Hc as [<-|[]]. apply Hb. rewrite E. left. reflexivity.
Qed.

Lemma root_from (e : expr) :
  interp md GE G e = interp md GE G' e ->
  (forall t, blame md GE G t e = blame md GE G' t e) ->
  (forall i els, e = EAgg i els ->
     (forall i all fs, root_fields md GE G i all fs els = root_fields md GE G' i all fs els) /\
     (forall i el n, root_elems md GE G i el n els = root_elems md GE G' i el n els)) ->
  forall t, root md GE G t e = root md GE G' t e.
Proof.
  intros Hi Hb Hagg t. unfold root, root_gen.
  destruct e; try (rewrite Hi; destruct (interp md GE G' _); cbn [bind]; [rewrite Hb|]; reflexivity).
  destruct (Hagg i els eq_refl) as [Hf He].
  destruct els as [|[|?|] e0 [|? ? ?]]; destruct t; try reflexivity; try apply Hf; try apply He.
Qed.

Definition P_expr (e : expr) : Prop :=
  freshl (oc_expr e) ->
  interp md GE G e = interp md GE G' e /\
  (forall l, interp md GE G e = Ok l -> Forall gd l) /\
  (forall t, blame md GE G t e = blame md GE G' t e) /\
  (forall t, root md GE G t e = root md GE G' t e).
Definition P_name (n : name) : Prop :=
  freshl (oc_name n) ->
  interp_name md GE G n = interp_name md GE G' n /\
  obj_name md GE G n = obj_name md GE G' n /\
  (forall l, interp_name md GE G n = Ok l -> Forall gd l) /\
  (forall o, obj_name md GE G n = Ok o -> gd (snd o)).
Definition P_args (a : args) : Prop :=
  freshl (oc_args OOther a) ->
  interp_args md GE G a = interp_args md GE G' a /\
  (forall i all fs, root_fields md GE G i all fs a = root_fields md GE G' i all fs a) /\
  (forall i el n, root_elems md GE G i el n a = root_elems md GE G' i el n a) /\
  (forall ts d, blame_args md GE G ts a d = blame_args md GE G' ts a d).

Ltac cbn_sem :=
  rewrite ?interp_EInt, ?interp_EBit, ?interp_ENam, ?interp_ECall, ?interp_EBin, ?interp_ENot, ?interp_EAgg, ?interp_EQual,
          ?interp_name_NId, ?interp_name_NSel, ?interp_name_NFld, ?interp_name_NIdx,
          ?obj_name_NId, ?obj_name_NSel, ?obj_name_NFld, ?obj_name_NIdx,
          ?interp_args_ANil, ?interp_args_ACons, ?root_fields_ANil, ?root_fields_ACons, ?root_elems_ANil, ?root_elems_ACons,
          ?blame_ECall, ?blame_args_ACons.

Lemma expr_agree_all : (forall e, P_expr e) /\ (forall n, P_name n) /\ (forall a, P_args a).
Proof.
  apply expr_name_args_ind.
  - (* EInt *) intros i v Fr.
    assert (Hi : interp md GE G (EInt i v) = interp md GE G' (EInt i v)) by reflexivity.
    assert (Hb : forall t, blame md GE G t (EInt i v) = blame md GE G' t (EInt i v)) by reflexivity.
    split; [exact Hi|]. split; [|split; [exact Hb|apply root_from; [exact Hi|exact Hb|discriminate]]].
    cbn_sem. intros l E. injection E as <-. repeat constructor.
  - (* EBit *) intros i b Fr.
    assert (Hi : interp md GE G (EBit i b) = interp md GE G' (EBit i b)) by reflexivity.
    assert (Hb : forall t, blame md GE G t (EBit i b) = blame md GE G' t (EBit i b)) by reflexivity.
    split; [exact Hi|]. split; [|split; [exact Hb|apply root_from; [exact Hi|exact Hb|discriminate]]].
    cbn_sem. intros l E. injection E as <-. repeat constructor.
  - (* ENam *) intros n IH Fr. cbn [oc_expr] in Fr. destruct (IH Fr) as [In1 [_ [In3 _]]].
    assert (Hi : interp md GE G (ENam n) = interp md GE G' (ENam n)) by (cbn_sem; exact In1).
    assert (Hb : forall t, blame md GE G t (ENam n) = blame md GE G' t (ENam n)).
    { intros t. destruct n as [o|l p o|n' f|n' e0]; try reflexivity.
      - rewrite !blame_ENam_NId. cbn [oc_name oc] in Fr. inversion Fr as [|? ? Hx _]. cbn [snd] in Hx.
        rewrite (vis_agree (o_id o) Hx). reflexivity.
      - rewrite !blame_ENam_NSel. rewrite sel_item_agree. reflexivity. }
    split; [exact Hi|]. split; [|split; [exact Hb|apply root_from; [exact Hi|exact Hb|discriminate]]].
    cbn_sem. exact In3.
  - (* ECall *) intros f a IH Fr. cbn [oc_expr] in Fr. frs. destruct (IH Fr1) as [Ia [_ [_ Iba]]].
    assert (Hc := callee_agree f Fr0).
    assert (Hi : interp md GE G (ECall f a) = interp md GE G' (ECall f a)).
    { cbn_sem. rewrite Hc, Ia. reflexivity. }
    assert (Hb : forall t, blame md GE G t (ECall f a) = blame md GE G' t (ECall f a)).
    { intros t. cbn_sem. rewrite Hc, Ia. destruct (callee_bindings GE G' f); [|reflexivity].
      destruct (interp_args md GE G' a); [|reflexivity].
      destruct (filter _ (funs_of a0)) as [|c [|c' r]]; try reflexivity. apply Iba. }
    split; [exact Hi|]. split; [|split; [exact Hb|apply root_from; [exact Hi|exact Hb|discriminate]]].
    cbn_sem. intros l E. minv E. injection E2 as <-.
    apply Forall_flat_map. apply Forall_forall. intros c Hc'. apply Forall_forall. intros t Ht.
    apply repeat_spec in Ht. subst t. eapply funs_of_good; [|exact Hc']. eapply callee_good; eassumption.
  - (* EBin *) intros i op l IHl r IHr Fr. cbn [oc_expr] in Fr. frs.
    destruct (IHl Fr0) as [Il [Gl [_ Rl]]]. destruct (IHr Fr1) as [Ir [Gr [_ Rr]]].
    assert (Rl' : forall t, root_gen md (interp md GE G) (root_fields md GE G) (root_elems md GE G) (blame md GE G) t l =
                            root_gen md (interp md GE G') (root_fields md GE G') (root_elems md GE G') (blame md GE G') t l)
      by exact Rl.
    assert (Rr' : forall t, root_gen md (interp md GE G) (root_fields md GE G) (root_elems md GE G) (blame md GE G) t r =
                            root_gen md (interp md GE G') (root_fields md GE G') (root_elems md GE G') (blame md GE G') t r)
      by exact Rr.
    assert (Hi : interp md GE G (EBin i op l r) = interp md GE G' (EBin i op l r)).
    { cbn_sem. destruct (is_aggregate r).
      - destruct (is_aggregate l); [reflexivity|]. rewrite <- Il.
        destruct (interp md GE G l) as [li|] eqn:El; [|reflexivity]. cbn [bind].
        rewrite <- (agg_type_agree op li (Gl _ eq_refl)). destruct (agg_type G op li); [|reflexivity].
        rewrite Rr'. reflexivity.
      - destruct (is_aggregate l).
        + rewrite <- Ir. destruct (interp md GE G r) as [ri|] eqn:Er; [|reflexivity]. cbn [bind].
          rewrite <- (agg_type_agree op ri (Gr _ eq_refl)). destruct (agg_type G op ri); [|reflexivity].
          rewrite Rl'. reflexivity.
        + rewrite <- Il, <- Ir. destruct (interp md GE G l) as [li|] eqn:El; [|reflexivity].
          destruct (interp md GE G r) as [ri|] eqn:Er; [|reflexivity]. cbn [bind]. f_equal.
          apply op_interps_agree; [apply Gl|apply Gr]; reflexivity. }
    assert (Hb : forall t, blame md GE G t (EBin i op l r) = blame md GE G' t (EBin i op l r)) by reflexivity.
    split; [exact Hi|]. split; [|split; [exact Hb|apply root_from; [exact Hi|exact Hb|discriminate]]].
    cbn_sem. intros l0 E. destruct (is_aggregate r).
    + destruct (is_aggregate l); [injection E as <-; constructor|].
      destruct (interp md GE G l) as [li|] eqn:El; cbn [bind] in E; [|discriminate E].
      destruct (agg_type G op li) as [t|] eqn:Et; [|injection E as <-; constructor].
      match type of E with bind ?x _ = _ => destruct x; cbn [bind] in E; [|discriminate E] end.
      injection E as <-. constructor; [|constructor]. apply op_result_good.
      specialize (Gl _ eq_refl). rewrite Forall_forall in Gl. apply Gl. eapply agg_type_In; exact Et.
    + destruct (is_aggregate l).
      * destruct (interp md GE G r) as [ri|] eqn:Er; cbn [bind] in E; [|discriminate E].
        destruct (agg_type G op ri) as [t|] eqn:Et; [|injection E as <-; constructor].
        match type of E with bind ?x _ = _ => destruct x; cbn [bind] in E; [|discriminate E] end.
        injection E as <-. constructor; [|constructor]. apply op_result_good.
        specialize (Gr _ eq_refl). rewrite Forall_forall in Gr. apply Gr. eapply agg_type_In; exact Et.
      * minv E. injection E2 as <-. apply op_interps_good; [apply Gl|apply Gr]; assumption.
  - (* ENot *) intros i e IH Fr. cbn [oc_expr] in Fr. destruct (IH Fr) as [Ie [Ge _]].
    assert (Hi : interp md GE G (ENot i e) = interp md GE G' (ENot i e)) by (cbn_sem; rewrite Ie; reflexivity).
    assert (Hb : forall t, blame md GE G t (ENot i e) = blame md GE G' t (ENot i e)) by reflexivity.
    split; [exact Hi|]. split; [|split; [exact Hb|apply root_from; [exact Hi|exact Hb|discriminate]]].
    cbn_sem. intros l0 E. minv E. injection E1 as <-. specialize (Ge _ E0).
    apply Forall_forall. intros t Ht. apply filter_In in Ht. rewrite Forall_forall in Ge. apply Ge. tauto.
  - (* EAgg *) intros i els IH Fr. cbn [oc_expr] in Fr. apply (freshl_args _ OOther) in Fr.
    destruct (IH Fr) as [_ [If [Ie _]]].
    assert (Hi : interp md GE G (EAgg i els) = interp md GE G' (EAgg i els)) by reflexivity.
    assert (Hb : forall t, blame md GE G t (EAgg i els) = blame md GE G' t (EAgg i els)) by reflexivity.
    split; [exact Hi|]. split; [|split; [exact Hb|apply root_from; [exact Hi|exact Hb|]]].
    + cbn_sem. intros l0 E. injection E as <-. constructor.
    + intros i0 els0 E. injection E as <- <-. split; assumption.
  - (* EQual *) intros t e IH Fr. cbn [oc_expr] in Fr. frs. destruct (IH Fr1) as [_ [_ [_ Ir]]].
    assert (Ht := resolve_tmark_agree t Fr0).
    assert (Hi : interp md GE G (EQual t e) = interp md GE G' (EQual t e)).
    { cbn_sem. rewrite Ht. destruct (resolve_tmark GE G' t); [|reflexivity]. cbn [bind].
      specialize (Ir a). unfold root in Ir. rewrite Ir. reflexivity. }
    assert (Hb : forall t0, blame md GE G t0 (EQual t e) = blame md GE G' t0 (EQual t e)) by reflexivity.
    split; [exact Hi|]. split; [|split; [exact Hb|apply root_from; [exact Hi|exact Hb|discriminate]]].
    cbn_sem. intros l0 E. minv E. injection E2 as <-. constructor; [|constructor].
    eapply resolve_tmark_good; eassumption.
  - (* NId *) intros o Fr. cbn [oc_name] in Fr. frs. unfold P_name. cbn_sem.
    rewrite (vis_occ_agree o Fr). split; [reflexivity|]. split; [reflexivity|]. rewrite <- (vis_occ_agree o Fr). split.
    + intros l E. minv E. injection E2 as <-. apply value_types_good. eapply vis_occ_good; eassumption.
    + intros x E. minv E. destruct (obj_of_bindings a) eqn:Eo; [|discriminate]. injection E1 as <-.
      eapply obj_of_bindings_good; [|exact Eo]. eapply vis_occ_good; eassumption.
  - (* NSel *) intros l p o Fr. unfold P_name. cbn_sem.
    rewrite (sel_item_agree l p o). split; [reflexivity|]. split; [reflexivity|]. rewrite <- (sel_item_agree l p o). split.
    + intros l0 E. minv E. injection E2 as <-. apply value_types_good. eapply sel_item_good; eassumption.
    + intros x E. minv E. destruct (obj_of_bindings a) eqn:Eo; [|discriminate]. injection E1 as <-.
      eapply obj_of_bindings_good; [|exact Eo]. eapply sel_item_good; eassumption.
  - (* NFld *) intros n IH f Fr. cbn [oc_name] in Fr. frs. destruct (IH Fr0) as [_ [Io [_ Go]]].
    unfold P_name. cbn_sem. rewrite <- Io. split; [reflexivity|]. split; [reflexivity|]. split.
    + intros l E. minv E. specialize (Go _ E0). destruct (snd a) eqn:Es; try discriminate.
      destruct (find_field fs f) eqn:Ef; [|discriminate]. injection E1 as <-. constructor; [|constructor].
      eapply all_named_field; eassumption.
    + intros x E. minv E. specialize (Go _ E0). destruct (snd a) eqn:Es; try discriminate.
      destruct (find_field fs f) eqn:Ef; [|discriminate]. injection E1 as <-. cbn [snd].
      eapply all_named_field; eassumption.
  - (* NIdx *) intros n IHn e IHe Fr. cbn [oc_name] in Fr. frs.
    destruct (IHn Fr0) as [_ [Io [_ Go]]]. destruct (IHe Fr1) as [_ [_ [_ Ir]]].
    specialize (Ir SInt). unfold root in Ir.
    unfold P_name. cbn_sem. rewrite <- Io, <- Ir. split; [reflexivity|]. split; [reflexivity|]. split.
    + intros l E. minv E. specialize (Go _ E0). destruct (snd a) eqn:Es; try discriminate.
      minv E1. injection E2 as <-. constructor; [|constructor]. cbn [all_named] in Go. tauto.
    + intros x E. minv E. specialize (Go _ E0). destruct (snd a) eqn:Es; try discriminate.
      minv E1. injection E2 as <-. cbn [snd]. cbn [all_named] in Go. tauto.
  - (* ANil *) intros Fr. unfold P_args. repeat split; reflexivity.
  - (* ACons *) intros c e IHe r IHr Fr. cbn [oc_args] in Fr. frs.
    destruct (IHe ltac:(assumption)) as [Ie [_ [Ibl Ir]]]. destruct (IHr ltac:(assumption)) as [Ia [If [Iel Iba]]].
    assert (Ir' : forall t, root_gen md (interp md GE G) (root_fields md GE G) (root_elems md GE G) (blame md GE G) t e =
                            root_gen md (interp md GE G') (root_fields md GE G') (root_elems md GE G') (blame md GE G') t e)
      by exact Ir.
    unfold P_args. split; [|split; [|split]].
    + cbn_sem. rewrite Ie, Ia. reflexivity.
    + intros i all fs. cbn_sem. destruct c as [|f|].
      * destruct fs as [|ft fs']; [reflexivity|]. rewrite Ir', If. reflexivity.
      * destruct (find_field all f); [|reflexivity]. rewrite Ir', If. reflexivity.
      * destruct r; [|reflexivity]. destruct fs as [|ft fs']; [reflexivity|]. rewrite Ir'. reflexivity.
    + intros i el n. cbn_sem. destruct c as [|f|].
      * destruct n as [|n']; [reflexivity|]. rewrite Ir', Iel. reflexivity.
      * reflexivity.
      * destruct r; [apply Ir'|reflexivity].
    + intros ts d. cbn_sem. destruct c as [|f|]; try reflexivity. destruct ts as [|t ts']; [reflexivity|].
      rewrite Ie. destruct (interp md GE G' e); [|reflexivity]. destruct (count_fits t a); [apply Ibl|apply Iba].
Qed.

Lemma interp_agree e : freshl (oc_expr e) -> interp md GE G e = interp md GE G' e.
Proof. intros Fr. apply (proj1 expr_agree_all e Fr). Qed.
Lemma root_agree t e : freshl (oc_expr e) -> root md GE G t e = root md GE G' t e.
Proof. intros Fr. apply (proj1 expr_agree_all e Fr). Qed.
Lemma obj_name_agree n : freshl (oc_name n) -> obj_name md GE G n = obj_name md GE G' n.
Proof. intros Fr. apply (proj1 (proj2 expr_agree_all) n Fr). Qed.
Lemma interp_args_agree a : freshl (oc_args OOther a) -> interp_args md GE G a = interp_args md GE G' a.
Proof. intros Fr. apply (proj2 (proj2 expr_agree_all) a Fr). Qed.
Lemma check_oinit_agree t e : freshl (oc_oexpr e) -> check_oinit md GE G t e = check_oinit md GE G' t e.
Proof. destruct e as [e|]; cbn [oc_oexpr check_oinit]; intros Fr; [apply root_agree; exact Fr|reflexivity]. Qed.

End Fixed.

Lemma rrel_bind_eq2 {A B} (R : A -> A -> Prop) (r r' : res A) (k k' : A -> res B) :
  rrel R r r' -> (forall a a', R a a' -> k a = k' a') -> bind r k = bind r' k'.
Proof. intros H Hk. destruct H; cbn [bind]; [apply Hk; assumption|reflexivity]. Qed.

(* --- statements --- *)
Lemma check_target_agree G G' want t :
  agree G G' -> freshl (oc_name t) -> check_target md GE G want t = check_target md GE G' want t.
Proof. intros A Fr. unfold check_target. rewrite (obj_name_agree G G' A t Fr). reflexivity. Qed.

Lemma split_pos_In {A} (al : list (choice * A)) p n :
  split_pos al = (p, n) -> (forall a, In a p -> In a (map snd al)) /\ (forall x, In x n -> In x al).
Proof.
  revert p n. induction al as [|[c a] r IH]; intros p n H.
  - cbn in H. injection H as <- <-. split; intros ? [].
  - cbn [split_pos] in H. destruct c.
    + destruct (split_pos r) as [p' n'] eqn:E. injection H as <- <-. destruct (IH p' n' eq_refl) as [H1 H2].
      split.
      * intros a0 [<-|Hin]; [left; reflexivity|right; apply H1; exact Hin].
      * intros x Hin. right. apply H2. exact Hin.
    + injection H as <- <-. split; [intros ? []|intros x Hx; exact Hx].
    + injection H as <- <-. split; [intros ? []|intros x Hx; exact Hx].
Qed.
Lemma named_for_In {A} x (n : list (choice * A)) a : In a (named_for x n) -> In a (map snd n).
Proof.
  unfold named_for. intros H. apply in_flat_map in H. destruct H as [y [Hy Ha]].
  destruct (fst y); try contradiction. destruct (o_id o =? x); [|contradiction].
  destruct Ha as [<-|[]]. apply in_map. exact Hy.
Qed.
Lemma assoc_In {A} fs (al : list (choice * A)) es a : assoc fs al = Some es -> In a es -> In a (map snd al).
Proof.
  unfold assoc. destruct (split_pos al) as [p n] eqn:E. destruct (split_pos_In al p n E) as [H1 H2].
  destruct (_ && _); [|discriminate]. intros H. injection H as <-. intros Hin.
  apply in_app_or in Hin. destruct Hin as [Hin|Hin]; [apply H1; exact Hin|].
  apply in_flat_map in Hin. destruct Hin as [x [_ Hx]]. apply named_for_In in Hx.
  apply in_map_iff in Hx. destruct Hx as [y [<- Hy]]. apply in_map. apply H2. exact Hy.
Qed.
Lemma freshl_args_list k a e : freshl (oc_args k a) -> In e (map snd (args_list a)) -> freshl (oc_expr e).
Proof.
  induction a as [|c e0 r IH]; cbn [oc_args args_list map]; intros Fr Hin; [contradiction|].
  frs. destruct Hin as [<-|Hin]; [assumption|apply IH; assumption].
Qed.
Lemma actual_obj_ok_agree G G' p e :
  agree G G' -> freshl (oc_expr e) -> actual_obj_ok md GE G p e = actual_obj_ok md GE G' p e.
Proof.
  intros A Fr. unfold actual_obj_ok. destruct e; try reflexivity. cbn [oc_expr] in Fr.
  rewrite (obj_name_agree G G' A n Fr). reflexivity.
Qed.
Lemma check_cchoice_agree G G' t c :
  agree G G' -> freshl (oc_cchoice c) -> check_cchoice G t c = check_cchoice G' t c.
Proof.
  intros A Fr. destruct c as [o|i v]; cbn [check_cchoice oc_cchoice] in *; [|reflexivity].
  frs. rewrite (vis_occ_agree G G' A o Fr). reflexivity.
Qed.

Definition P_stmt (s : stmt) : Prop :=
  forall G G', agree G G' -> freshl (oc_stmt s) -> check_stmt md GE G s = check_stmt md GE G' s.
Definition P_stmts (s : stmts) : Prop :=
  forall G G', agree G G' -> freshl (oc_stmts s) -> check_stmts md GE G s = check_stmts md GE G' s.
Definition P_calts (a : calts) : Prop :=
  forall G G' t, agree G G' -> freshl (oc_calts a) -> check_calts md GE G t a = check_calts md GE G' t a.

Lemma stmt_agree_all : (forall s, P_stmt s) /\ (forall s, P_stmts s) /\ (forall a, P_calts a).
Proof.
  apply stmt_stmts_calts_ind.
  - intros i t e G G' A Fr. cbn [oc_stmt] in Fr. frs. rewrite !check_stmt_SSig.
    rewrite (check_target_agree G G' KSig t A) by assumption.
    destruct (check_target md GE G' KSig t); cbn [bind]; [|reflexivity]. apply root_agree; assumption.
  - intros i t e G G' A Fr. cbn [oc_stmt] in Fr. frs. rewrite !check_stmt_SVar.
    rewrite (check_target_agree G G' KVar t A) by assumption.
    destruct (check_target md GE G' KVar t); cbn [bind]; [|reflexivity]. apply root_agree; assumption.
  - intros i c th IHt el IHe G G' A Fr. cbn [oc_stmt] in Fr. frs. rewrite !check_stmt_SIf.
    rewrite (root_agree G G' A SBool c), (IHt G G' A), (IHe G G' A) by assumption. reflexivity.
  - intros i sel alts IHa oth IHo G G' A Fr. cbn [oc_stmt] in Fr. frs. rewrite !check_stmt_SCase.
    rewrite (obj_name_agree G G' A sel) by assumption.
    destruct (obj_name md GE G' sel); cbn [bind]; [|reflexivity].
    rewrite (IHa G G' (snd a) A), (IHo G G' A) by assumption. reflexivity.
  - intros i v lo hi b IH G G' A Fr. cbn [oc_stmt] in Fr. frs. rewrite !check_stmt_SFor.
    eapply rrel_bind_eq2.
    + apply declare_agree; [apply agree_push; exact A|assumption|]. intros t [<-|[]]. exact I.
    + intros a a' Ha. apply IH; assumption.
  - intros i c b IH G G' A Fr. cbn [oc_stmt] in Fr. frs. rewrite !check_stmt_SWhile.
    rewrite (root_agree G G' A SBool c), (IH G G' A) by assumption. reflexivity.
  - intros f a G G' A Fr. cbn [oc_stmt] in Fr. frs. rewrite !check_stmt_SCall.
    rewrite (callee_agree G G' A f), (interp_args_agree G G' A a) by assumption.
    destruct (callee_bindings GE G' f) as [bs|]; cbn [bind]; [|reflexivity].
    destruct (interp_args md GE G' a) as [al|]; cbn [bind]; [|reflexivity].
    destruct (filter _ (procs_of bs)) as [|ps [|? ?]]; try reflexivity.
    destruct (guard _ _ _); cbn [bind]; [|reflexivity].
    destruct (assoc (map ps_name ps) (args_list a)) as [es|] eqn:Ea; [|reflexivity].
    f_equal. clear Ea0 || idtac.
    assert (Hes : forall e, In e es -> freshl (oc_expr e)).
    { intros e He. eapply freshl_args_list; [eassumption|]. eapply assoc_In; eassumption. }
    clear Ea. revert ps. induction es as [|e es IHes]; intros ps; destruct ps as [|p ps]; try reflexivity.
    cbn [combine forallb fst snd]. rewrite (actual_obj_ok_agree G G' p e A) by (apply Hes; left; reflexivity).
    rewrite IHes; [reflexivity|]. intros e' He'. apply Hes. right. exact He'.
  - intros i e G G' A Fr. rewrite !check_stmt_SRet. rewrite <- (ag_ret _ _ A).
    destruct (e_ret G) as [[t|]|]; destruct e as [e|]; try reflexivity.
    cbn [oc_stmt oc_oexpr] in Fr. apply root_agree; assumption.
  - intros i G G' A Fr. reflexivity.
  - intros G G' A Fr. reflexivity.
  - intros s IHs r IHr G G' A Fr. cbn [oc_stmts] in Fr. frs. rewrite !check_stmts_SCons.
    rewrite (IHs G G' A), (IHr G G' A) by assumption. reflexivity.
  - intros G G' t A Fr. reflexivity.
  - intros cs b IHb r IHr G G' t A Fr. cbn [oc_calts] in Fr. frs. rewrite !check_calts_CACons.
    rewrite (IHb G G' A), (IHr G G' t A) by assumption.
    rewrite (check_list_ext (check_cchoice G t) (check_cchoice G' t)); [reflexivity|].
    intros c Hc. apply check_cchoice_agree; [exact A|]. eapply freshl_flat_map; eassumption.
Qed.
Lemma check_stmts_agree G G' s : agree G G' -> freshl (oc_stmts s) -> check_stmts md GE G s = check_stmts md GE G' s.
Proof. apply (proj1 (proj2 stmt_agree_all)). Qed.

(* --- local declarations, parameters, interface lists --- *)
Lemma bgood_obj c m t h : gd t -> bgood (Bnd (BObj c m t) h).
Proof. intros H t' [<-|[]]. exact H. Qed.

Lemma check_ldecl_agree G G' d :
  agree G G' -> freshl (oc_ldecl d) -> rrel agree (check_ldecl md GE G d) (check_ldecl md GE G' d).
Proof.
  intros A Fr. destruct d as [o t i|o t i]; cbn [oc_ldecl check_ldecl] in *; frs.
  - apply rrel_bind_eq; [apply resolve_tmark_agree; assumption|]. intros ty Ety.
    apply rrel_bind_eq; [apply check_oinit_agree; assumption|]. intros _ _.
    apply declare_agree; [assumption|assumption|]. apply bgood_obj. eapply (resolve_tmark_good _ _ A); eassumption.
  - apply rrel_bind_eq; [apply resolve_tmark_agree; assumption|]. intros ty Ety.
    apply rrel_bind_eq; [apply root_agree; assumption|]. intros _ _.
    apply declare_agree; [assumption|assumption|]. apply bgood_obj. eapply (resolve_tmark_good _ _ A); eassumption.
Qed.
Lemma check_ldecls_agree ls : forall G G',
  agree G G' -> freshl (flat_map oc_ldecl ls) -> rrel agree (check_ldecls md GE G ls) (check_ldecls md GE G' ls).
Proof.
  induction ls as [|d r IH]; intros G G' A Fr; cbn [check_ldecls flat_map] in *; [constructor; exact A|].
  frs. eapply rrel_bind; [apply check_ldecl_agree; assumption|]. intros a a' Ha. apply IH; assumption.
Qed.
Lemma param_sig_agree G G' p : agree G G' -> freshl (oc_param p) -> param_sig GE G p = param_sig GE G' p.
Proof. intros A Fr. unfold oc_param in Fr. frs. unfold param_sig. rewrite (tmark_ty_agree G G' A) by assumption. reflexivity. Qed.
Lemma param_sigs_agree G G' ps :
  agree G G' -> freshl (flat_map oc_param ps) -> map (param_sig GE G) ps = map (param_sig GE G') ps.
Proof.
  intros A Fr. apply map_ext_in. intros p Hp. apply param_sig_agree; [exact A|]. eapply freshl_flat_map; eassumption.
Qed.
Lemma check_param_types_agree G G' ps :
  agree G G' -> freshl (flat_map oc_param ps) -> check_param_types GE G ps = check_param_types GE G' ps.
Proof.
  intros A Fr. unfold check_param_types. apply check_list_ext. intros p Hp.
  assert (Fp := freshl_flat_map _ _ Fr p Hp). unfold oc_param in Fp. frs.
  rewrite (resolve_tmark_agree G G' A) by assumption. reflexivity.
Qed.
Lemma declare_params_agree ps : forall G G',
  agree G G' -> freshl (flat_map oc_param ps) -> rrel agree (declare_params GE G ps) (declare_params GE G' ps).
Proof.
  induction ps as [|p r IH]; intros G G' A Fr; cbn [declare_params flat_map] in *; [constructor; exact A|].
  frs. unfold oc_param in Fr0. frs. eapply rrel_bind.
  - rewrite <- (tmark_ty_agree G G' A) by assumption. apply declare_agree; [assumption|assumption|].
    apply bgood_obj. apply (tmark_ty_good _ _ A); assumption.
  - intros a a' Ha. apply IH; assumption.
Qed.
Lemma iface_sig_agree G G' i : agree G G' -> freshl (oc_iface i) -> iface_sig GE G i = iface_sig GE G' i.
Proof. intros A Fr. unfold oc_iface in Fr. frs. unfold iface_sig. rewrite (tmark_ty_agree G G' A) by assumption. reflexivity. Qed.
Lemma iface_sigs_agree G G' l :
  agree G G' -> freshl (flat_map oc_iface l) -> map (iface_sig GE G) l = map (iface_sig GE G') l.
Proof.
  intros A Fr. apply map_ext_in. intros p Hp. apply iface_sig_agree; [exact A|]. eapply freshl_flat_map; eassumption.
Qed.
Lemma declare_ifaces_agree c l : forall G G',
  agree G G' -> freshl (flat_map oc_iface l) -> rrel agree (declare_ifaces md GE c G l) (declare_ifaces md GE c G' l).
Proof.
  induction l as [|i r IH]; intros G G' A Fr; cbn [declare_ifaces flat_map] in *; [constructor; exact A|].
  frs. unfold oc_iface in Fr0. frs.
  apply rrel_bind_eq; [apply resolve_tmark_agree; assumption|]. intros ty Ety.
  apply rrel_bind_eq; [apply check_oinit_agree; assumption|]. intros _ _.
  apply rrel_guard. intros _. eapply rrel_bind.
  - apply declare_agree; [assumption|assumption|]. apply bgood_obj. eapply (resolve_tmark_good _ _ A); eassumption.
  - intros a a' Ha. apply IH; assumption.
Qed.

Lemma check_sub_body_agree G G' ps ret ls b :
  agree G G' -> freshl (flat_map oc_param ps) -> freshl (flat_map oc_ldecl ls) -> freshl (oc_stmts b) ->
  check_sub_body md GE G ps ret ls b = check_sub_body md GE G' ps ret ls b.
Proof.
  intros A F1 F2 F3. unfold check_sub_body. eapply rrel_bind_eq2.
  - apply declare_params_agree; [|exact F1]. apply agree_set_ret. apply agree_push. apply agree_pure_view. exact A.
  - intros G1 G1' A1. eapply rrel_bind_eq2; [apply check_ldecls_agree; eassumption|].
    intros G2 G2' A2. apply check_stmts_agree; assumption.
Qed.

(* --- declarations --- *)
Lemma declare_inv G o k G1 :
  declare G o k = Ok G1 ->
  G1 = bind_raw G (o_id o) (Bnd k (e_home G)) /\ (o_id o =? id_undeclared) = false /\
  existsb (clash k) (e_cur G (o_id o)) = false /\ existsb (clash k) (e_vis G (o_id o)) = false.
Proof.
  unfold declare. destruct (o_id o =? id_undeclared); cbn [negb guard bind]; [discriminate|].
  destruct (existsb (clash k) (e_cur G (o_id o))); cbn [negb guard bind]; [discriminate|].
  destruct (existsb (clash k) (e_vis G (o_id o))); cbn [negb guard bind]; [discriminate|].
  intros H. injection H as <-. tauto.
Qed.
Lemma declare_done G o k G1 : declare G o k = Ok G1 -> e_done G1 = e_done G.
Proof. intros H. apply declare_inv in H. destruct H as [-> _]. reflexivity. Qed.

Definition no_done (obl : list obligation) (d : decl) : Prop := obl = [] \/ obl_related true d = false.
(* result environments agree; e_done is carried along unchanged *)
Definition drel' (G G' G1 G1' : env) : Prop := agree G1 G1' /\ e_done G1 = e_done G /\ e_done G1' = e_done G'.
Definition drel (G G' G1 G1' : env) : Prop := agree G1 G1' /\ (e_done G = e_done G' -> e_done G1 = e_done G1').
Lemma drel'_drel G G' G1 G1' : drel' G G' G1 G1' -> drel G G' G1 G1'.
Proof. intros [A [H1 H2]]. split; [exact A|]. intros H. rewrite H1, H2. exact H. Qed.
Lemma drel'_trans G G' G1 G1' G2 G2' : drel' G G' G1 G1' -> drel' G1 G1' G2 G2' -> drel' G G' G2 G2'.
Proof. intros [_ [H1 H2]] [A [H3 H4]]. split; [exact A|]. rewrite H3, H4. tauto. Qed.

Lemma declare_agree_d G G' o k :
  agree G G' -> ~ In (o_id o) Dl -> bgood (Bnd k None) -> rrel (drel' G G') (declare G o k) (declare G' o k).
Proof.
  intros A Ho Hb. assert (H := declare_agree G G' o k A Ho Hb).
  destruct (declare G o k) eqn:E1; destruct (declare G' o k) eqn:E2; inversion H; subst; constructor.
  split; [assumption|]. split; eapply declare_done; eassumption.
Qed.
Lemma bgood_lit t h : gd t -> bgood (Bnd (BLit t) h).
Proof. intros H t' [<-|[]]. exact H. Qed.
Lemma bgood_type t own h : gd t -> bgood (Bnd (BType t own) h).
Proof. intros H t' [<-|[]]. exact H. Qed.
Lemma declare_lits_agree t lits : forall G G',
  agree G G' -> freshl (flat_map (oc OOther) lits) -> gd t ->
  rrel (drel' G G') (declare_lits G t lits) (declare_lits G' t lits).
Proof.
  induction lits as [|l r IH]; intros G G' A Fr Ht; cbn [declare_lits flat_map] in *.
  - constructor. split; [exact A|]. split; reflexivity.
  - frs. eapply rrel_bind; [apply declare_agree_d; [exact A|assumption|apply bgood_lit; exact Ht]|].
    intros a a' Ha. eapply rrel_impl; [|apply IH; [apply Ha|assumption|exact Ht]].
    intros b b' Hb. eapply drel'_trans; eassumption.
Qed.

Lemma mk_tydef_agree G G' o td :
  agree G G' -> freshl (oc_tydef td) -> mk_tydef GE G o td = mk_tydef GE G' o td.
Proof.
  intros A Fr. destruct td as [lits|lo hi|fs|len el]; cbn [mk_tydef oc_tydef] in *; rewrite <- (ag_uid _ _ A); try reflexivity.
  - f_equal. apply map_ext_in. intros f Hf. assert (Ff := freshl_flat_map _ _ Fr f Hf). cbv beta in Ff. frs.
    rewrite (tmark_ty_agree G G' A) by assumption. reflexivity.
  - rewrite (tmark_ty_agree G G' A) by assumption. reflexivity.
Qed.
Lemma mk_tydef_good G G' o td :
  agree G G' -> ~ In (o_id o) Dl -> freshl (oc_tydef td) -> gd (mk_tydef GE G o td).
Proof.
  intros A Ho Fr. destruct td as [lits|lo hi|fs|len el]; cbn [mk_tydef oc_tydef] in *.
  - cbn [all_named]. apply Qout. exact Ho.
  - cbn [all_named]. apply Qout. exact Ho.
  - apply all_named_rec. split; [apply Qout; exact Ho|]. apply Forall_forall. intros f Hf.
    apply in_map_iff in Hf. destruct Hf as [f0 [<- Hf0]]. cbn [snd].
    assert (Ff := freshl_flat_map _ _ Fr f0 Hf0). cbv beta in Ff. frs. apply (tmark_ty_good _ _ A). assumption.
  - cbn [all_named]. split; [apply Qout; exact Ho|]. apply (tmark_ty_good _ _ A). assumption.
Qed.

Lemma ob_branch_agree G G' (ob : obligation) obl o k d :
  agree G G' -> ~ In (o_id o) Dl -> bgood (Bnd k None) ->
  (e_done G = e_done G' \/ no_done obl d) -> obl_related true d = true ->
  rrel (drel G G')
    (if existsb (ob_eqb ob) obl
     then guard (negb (existsb (ob_eqb ob) (e_done G))) (o_nid o) Duplicate ;;; Ok (set_done G (ob :: e_done G))
     else declare G o k)
    (if existsb (ob_eqb ob) obl
     then guard (negb (existsb (ob_eqb ob) (e_done G'))) (o_nid o) Duplicate ;;; Ok (set_done G' (ob :: e_done G'))
     else declare G' o k).
Proof.
  intros A Ho Hb Hd Hrel. destruct (existsb (ob_eqb ob) obl) eqn:E.
  - assert (Hdn : e_done G = e_done G').
    { destruct Hd as [H|[H|H]]; [exact H|subst obl; discriminate E|rewrite Hrel in H; discriminate H]. }
    rewrite <- Hdn. apply rrel_guard. intros _. constructor. split; [apply agree_set_done; exact A|].
    intros _. cbn_env. reflexivity.
  - eapply rrel_impl; [|apply declare_agree_d; assumption]. intros a a'. apply drel'_drel.
Qed.

Lemma check_decl_agree r obl G G' d :
  agree G G' -> freshl (oc_decl d) -> (e_done G = e_done G' \/ no_done obl d) ->
  rrel (drel G G') (check_decl md GE r obl G d) (check_decl md GE r obl G' d).
Proof.
  intros A Fr Hd.
  assert (Dcl : forall o k, ~ In (o_id o) Dl -> bgood (Bnd k None) -> rrel (drel G G') (declare G o k) (declare G' o k)).
  { intros o k Ho Hb. eapply rrel_impl; [|apply declare_agree_d; assumption]. intros a a'. apply drel'_drel. }
  destruct d as [o td|o t rng|o t [e|]|o t i|o ps rt|o ps|o ps rt ls b|o ps ls b|o gs ps];
    unfold check_decl; apply rrel_guard; intros _; cbn [oc_decl] in Fr; frs; cbv zeta.
  - (* DType *)
    rewrite <- (mk_tydef_agree G G' o td A) by assumption.
    assert (Hg : gd (mk_tydef GE G o td)) by (eapply mk_tydef_good; eassumption).
    destruct td as [lits|lo hi|fs|len el].
    + apply rrel_guard. intros _. eapply rrel_bind; [apply declare_agree_d; [exact A|assumption|apply bgood_type; exact Hg]|].
      intros a a' Ha. eapply rrel_impl; [|apply declare_lits_agree; [apply Ha|assumption|exact Hg]].
      intros b b' Hb. apply drel'_drel. eapply drel'_trans; eassumption.
    + apply rrel_guard. intros _. apply Dcl; [assumption|apply bgood_type; exact Hg].
    + apply rrel_guard. intros _. cbn [oc_tydef] in Fr1.
      apply rrel_bind_eq.
      { apply check_list_ext. intros f Hf. assert (Ff := freshl_flat_map _ _ Fr1 f Hf). cbv beta in Ff. frs.
        rewrite (resolve_tmark_agree G G' A) by assumption. reflexivity. }
      intros _ _. apply rrel_guard. intros _. apply Dcl; [assumption|apply bgood_type; exact Hg].
    + apply rrel_guard. intros _. cbn [oc_tydef] in Fr1.
      apply rrel_bind_eq; [apply resolve_tmark_agree; assumption|]. intros _ _.
      apply Dcl; [assumption|apply bgood_type; exact Hg].
  - (* DSubtype *)
    apply rrel_bind_eq; [apply resolve_tmark_agree; assumption|]. intros ty Ety.
    apply rrel_guard. intros _. apply Dcl; [assumption|]. apply bgood_type. eapply (resolve_tmark_good _ _ A); eassumption.
  - (* DConst Some *)
    cbn [oc_oexpr] in *.
    apply rrel_bind_eq; [apply resolve_tmark_agree; assumption|]. intros ty Ety.
    apply rrel_bind_eq; [apply root_agree; assumption|]. intros _ _.
    destruct (existsb (ob_eqb (o_id o, [], Some ty)) obl) eqn:E.
    + assert (Hdn : e_done G = e_done G').
      { destruct Hd as [H|[H|H]]; [exact H|subst obl; discriminate E|discriminate H]. }
      rewrite <- Hdn. apply rrel_guard. intros _. constructor. split.
      * apply agree_complete; [apply agree_set_done; exact A|assumption].
      * intros _. cbn_env. reflexivity.
    + apply Dcl; [assumption|]. apply bgood_obj. eapply (resolve_tmark_good _ _ A); eassumption.
  - (* DConst None *)
    apply rrel_bind_eq; [apply resolve_tmark_agree; assumption|]. intros ty Ety.
    apply Dcl; [assumption|]. intros t' [<-|[]]. eapply (resolve_tmark_good _ _ A); eassumption.
  - (* DSignal *)
    apply rrel_bind_eq; [apply resolve_tmark_agree; assumption|]. intros ty Ety.
    apply rrel_bind_eq; [apply check_oinit_agree; assumption|]. intros _ _.
    apply Dcl; [assumption|]. apply bgood_obj. eapply (resolve_tmark_good _ _ A); eassumption.
  - (* DFunDecl *)
    apply rrel_bind_eq; [apply check_param_types_agree; assumption|]. intros _ _.
    apply rrel_bind_eq; [apply resolve_tmark_agree; assumption|]. intros ty Ety.
    apply rrel_guard. intros _. rewrite <- (param_sigs_agree G G' ps A) by assumption.
    apply Dcl; [assumption|]. intros t' [<-|[]]. eapply (resolve_tmark_good _ _ A); eassumption.
  - (* DProcDecl *)
    apply rrel_bind_eq; [apply check_param_types_agree; assumption|]. intros _ _.
    apply rrel_guard. intros _. rewrite <- (param_sigs_agree G G' ps A) by assumption.
    apply Dcl; [assumption|]. intros t' [].
  - (* DFunBody *)
    apply rrel_bind_eq; [apply check_param_types_agree; assumption|]. intros _ _.
    apply rrel_bind_eq; [apply resolve_tmark_agree; assumption|]. intros ty Ety.
    apply rrel_guard. intros _. rewrite <- (param_sigs_agree G G' ps A) by assumption.
    eapply rrel_bind.
    + eapply ob_branch_agree with (d := DFunBody o ps rt ls b); [exact A|assumption| |exact Hd|reflexivity].
      intros t' [<-|[]]. eapply (resolve_tmark_good _ _ A); eassumption.
    + intros a a' [Ha Hdn]. rewrite (check_sub_body_agree a a' ps (Some ty) ls b Ha) by assumption.
      destruct (check_sub_body md GE a' ps (Some ty) ls b); cbn [bind]; constructor. split; assumption.
  - (* DProcBody *)
    apply rrel_bind_eq; [apply check_param_types_agree; assumption|]. intros _ _.
    apply rrel_guard. intros _. rewrite <- (param_sigs_agree G G' ps A) by assumption.
    eapply rrel_bind.
    + eapply ob_branch_agree with (d := DProcBody o ps ls b); [exact A|assumption| |exact Hd|reflexivity].
      intros t' [].
    + intros a a' [Ha Hdn]. rewrite (check_sub_body_agree a a' ps None ls b Ha) by assumption.
      destruct (check_sub_body md GE a' ps None ls b); cbn [bind]; constructor. split; assumption.
  - (* DComp *)
    eapply rrel_bind; [apply declare_ifaces_agree; [apply agree_push; exact A|assumption]|].
    intros Gg Gg' Ag. eapply rrel_bind; [apply declare_ifaces_agree; [exact Ag|assumption]|].
    intros Gp Gp' Ap. rewrite <- (iface_sigs_agree G G' gs A), <- (iface_sigs_agree G G' ps A) by assumption.
    apply Dcl; [assumption|]. intros t' [].
Qed.

Lemma check_decls_agree r obl ds : forall G G',
  agree G G' -> freshl (flat_map oc_decl ds) -> (e_done G = e_done G' \/ obl = []) ->
  rrel (drel G G') (check_decls md GE r obl G ds) (check_decls md GE r obl G' ds).
Proof.
  induction ds as [|d rest IH]; intros G G' A Fr Hd; cbn [check_decls flat_map] in *.
  - constructor. split; [exact A|tauto].
  - frs. eapply rrel_bind.
    + apply check_decl_agree; [exact A|assumption|]. destruct Hd as [H|H]; [left; exact H|right; left; exact H].
    + intros a a' [Ha Hdn]. eapply rrel_impl; [|apply IH; [exact Ha|assumption|]].
      * intros b b' [Hb Hdb]. split; [exact Hb|]. intros H. apply Hdb. apply Hdn. exact H.
      * destruct Hd as [H|H]; [left; apply Hdn; exact H|right; exact H].
Qed.

(* --- association lists, concurrent statements --- *)
Lemma actual_for_In m k x a : In a (actual_for m k x) -> In a (map snd m).
Proof.
  unfold actual_for. destruct (split_pos (assoc_formal_names m)) as [p n] eqn:E.
  destruct (split_pos_In _ p n E) as [H1 H2].
  assert (Hm : map snd (assoc_formal_names m) = map snd m).
  { unfold assoc_formal_names. rewrite map_map. reflexivity. }
  destruct (nth_error p k) as [a0|] eqn:En.
  - intros [<-|[]]. rewrite <- Hm. apply H1. eapply nth_error_In. exact En.
  - intros H. apply named_for_In in H. apply in_map_iff in H. destruct H as [y [<- Hy]].
    rewrite <- Hm. apply in_map. apply H2. exact Hy.
Qed.
Lemma check_formals_ext (chk chk' : isig -> actual -> res unit) un m fs :
  (forall f a, In a (map snd m) -> chk f a = chk' f a) ->
  forall k, check_formals chk un m k fs = check_formals chk' un m k fs.
Proof.
  intros H. induction fs as [|f r IH]; intros k; cbn [check_formals]; [reflexivity|].
  rewrite IH. destruct (actual_for m k (is_name f)) as [|a [|? ?]] eqn:E; try reflexivity.
  rewrite H; [reflexivity|]. apply (actual_for_In m k (is_name f)). rewrite E. left. reflexivity.
Qed.
Lemma check_amap_ext (chk chk' : isig -> actual -> res unit) un fs m :
  (forall f a, In a (map snd m) -> chk f a = chk' f a) -> check_amap chk un fs m = check_amap chk' un fs m.
Proof.
  intros H. unfold check_amap. destruct (first_unknown_formal _ m); [reflexivity|].
  rewrite (check_formals_ext chk chk' un m fs H). reflexivity.
Qed.
Lemma freshl_amap m a : freshl (flat_map oc_assoc m) -> In a (map snd m) -> freshl (oc_actual a).
Proof.
  intros Fr Ha. apply in_map_iff in Ha. destruct Ha as [x [<- Hx]].
  assert (Fx := freshl_flat_map _ _ Fr x Hx). unfold oc_assoc in Fx. frs. assumption.
Qed.
Lemma check_generic_actual_agree G G' f a :
  agree G G' -> freshl (oc_actual a) -> check_generic_actual md GE G f a = check_generic_actual md GE G' f a.
Proof.
  intros A Fr. destruct a as [e|i]; cbn [check_generic_actual oc_actual] in *; [|reflexivity]. apply root_agree; assumption.
Qed.
Lemma check_port_actual_agree G G' f a :
  agree G G' -> freshl (oc_actual a) -> check_port_actual md GE G f a = check_port_actual md GE G' f a.
Proof.
  intros A Fr. destruct a as [e|i]; [|reflexivity]. unfold check_port_actual. destruct e; try reflexivity.
  cbn [oc_actual oc_expr] in Fr. rewrite (obj_name_agree G G' A n Fr). reflexivity.
Qed.
Lemma check_sens_agree G G' n : agree G G' -> freshl (oc_name n) -> check_sens md GE G n = check_sens md GE G' n.
Proof. intros A Fr. unfold check_sens. rewrite (obj_name_agree G G' A n Fr). reflexivity. Qed.

Definition P_conc (c : conc) : Prop :=
  forall G G', agree G G' -> freshl (oc_conc c) -> check_conc md GE G c = check_conc md GE G' c.
Definition P_concs (c : concs) : Prop :=
  forall G G', agree G G' -> freshl (oc_concs c) -> check_concs md GE G c = check_concs md GE G' c.
Lemma conc_agree_all : (forall c, P_conc c) /\ (forall c, P_concs c).
Proof.
  apply conc_concs_ind.
  - intros lbl sens ls b G G' A Fr. cbn [oc_conc] in Fr. frs. rewrite !check_conc_CProc.
    rewrite (check_list_ext (check_sens md GE G) (check_sens md GE G')).
    2:{ intros n Hn. apply check_sens_agree; [exact A|]. eapply freshl_flat_map; eassumption. }
    destruct (check_list _ sens); cbn [bind]; [|reflexivity].
    eapply rrel_bind_eq2; [apply check_ldecls_agree; [apply agree_push; exact A|assumption]|].
    intros a0 a' Ha. apply check_stmts_agree; assumption.
  - intros lbl t e G G' A Fr. cbn [oc_conc] in Fr. frs. rewrite !check_conc_CAssign.
    rewrite (check_target_agree G G' KSig t A) by assumption.
    destruct (check_target md GE G' KSig t); cbn [bind]; [|reflexivity]. apply root_agree; assumption.
  - intros lbl ds b IH G G' A Fr. cbn [oc_conc] in Fr. frs. rewrite !check_conc_CBlock.
    eapply rrel_bind_eq2; [apply check_decls_agree; [apply agree_push; exact A|assumption|right; reflexivity]|].
    intros a a' [Ha _]. apply IH; assumption.
  - intros lbl l e a gm pm G G' A Fr. cbn [oc_conc] in Fr. frs. rewrite !check_conc_CInstE.
    rewrite <- (ag_libs _ _ A). destruct (guard _ _ _); cbn [bind]; [|reflexivity].
    destruct (find_unit GE (o_id l) (o_id e)) as [[| gs ps inner | | | | | |]|]; try reflexivity.
    rewrite (check_amap_ext (check_generic_actual md GE G) (check_generic_actual md GE G')).
    2:{ intros f x Hx. apply check_generic_actual_agree; [exact A|]. apply (freshl_amap gm); assumption. }
    rewrite (check_amap_ext (check_port_actual md GE G) (check_port_actual md GE G')).
    2:{ intros f x Hx. apply check_port_actual_agree; [exact A|]. apply (freshl_amap pm); assumption. }
    reflexivity.
  - intros lbl c gm pm G G' A Fr. cbn [oc_conc] in Fr. frs. rewrite !check_conc_CInstC.
    rewrite (vis_occ_agree G G' A c) by assumption.
    destruct (vis_occ G' c) as [[|b [|? ?]]|]; cbn [bind]; try reflexivity.
    destruct (b_kind b); try reflexivity.
    rewrite (check_amap_ext (check_generic_actual md GE G) (check_generic_actual md GE G')).
    2:{ intros f x Hx. apply check_generic_actual_agree; [exact A|]. apply (freshl_amap gm); assumption. }
    rewrite (check_amap_ext (check_port_actual md GE G) (check_port_actual md GE G')).
    2:{ intros f x Hx. apply check_port_actual_agree; [exact A|]. apply (freshl_amap pm); assumption. }
    reflexivity.
  - intros G G' A Fr. reflexivity.
  - intros c IHc r IHr G G' A Fr. cbn [oc_concs] in Fr. frs. rewrite !check_concs_CCons.
    rewrite (IHc G G' A), (IHr G G' A) by assumption. reflexivity.
Qed.
Lemma check_concs_agree G G' c : agree G G' -> freshl (oc_concs c) -> check_concs md GE G c = check_concs md GE G' c.
Proof. apply (proj2 conc_agree_all). Qed.
End Agree.

(* ------------------------------------------------------------------------------------------ *)
(* node ids are pairwise different                                                              *)
(* ------------------------------------------------------------------------------------------ *)
From Coq Require Import Permutation Sorting.Sorted.
Lemma adjacent_distinct_sorted_NoDup (l : list N) :
  StronglySorted (fun x y => is_true (x <=? y)) l -> adjacent_distinct l = true -> NoDup l.
Proof.
  induction l as [|a r IH]; intros Hs Ha; [constructor|].
  inversion Hs as [|? ? Hr Hall]; subst.
  destruct r as [|b r'].
  - constructor; [intros []|constructor].
  - cbn [adjacent_distinct] in Ha. apply andb_true_iff in Ha. destruct Ha as [Hab Hrest].
    apply negb_true_iff in Hab. apply N.eqb_neq in Hab.
    constructor; [|exact (IH Hr Hrest)].
    intros Hin. inversion Hall as [|? ? Hab' Hall']; subst.
    destruct Hin as [Hin|Hin]; [apply Hab; symmetry; exact Hin|].
    inversion Hr as [|? ? _ Hball]; subst.
    rewrite Forall_forall in Hball. specialize (Hball a Hin).
    unfold is_true in *. apply N.leb_le in Hab'. apply N.leb_le in Hball. apply Hab. lia.
Qed.
Lemma nodup_list_sound (l : list N) : nodup_list l = true -> NoDup l.
Proof.
  unfold nodup_list. intros H.
  apply (Permutation_NoDup (l := NSort.sort l)).
  - apply Permutation_sym. apply NSort.Permuted_sort.
  - apply adjacent_distinct_sorted_NoDup; [|exact H].
    apply NSort.StronglySorted_sort.
    intros x y z Hxy Hyz. unfold is_true in *. apply N.leb_le in Hxy. apply N.leb_le in Hyz. apply N.leb_le. lia.
Qed.
Lemma NoDup_app_inv {A} (a b : list A) :
  NoDup (a ++ b) -> NoDup a /\ NoDup b /\ (forall x, In x a -> In x b -> False).
Proof.
  induction a as [|x a IH]; cbn [app]; intros H.
  - split; [constructor|]. split; [exact H|]. intros x [].
  - inversion H as [|? ? Hx Hr]; subst. destruct (IH Hr) as [Ha [Hb Hd]].
    split.
    + constructor; [|exact Ha]. intro Hin. apply Hx. apply in_or_app. left. exact Hin.
    + split; [exact Hb|]. intros y [Hy|Hy] Hyb.
      * subst y. apply Hx. apply in_or_app. right. exact Hyb.
      * exact (Hd y Hy Hyb).
Qed.

(* ------------------------------------------------------------------------------------------ *)
(* the declaration sites of R1 / R5 and node ids                                                *)
(* ------------------------------------------------------------------------------------------ *)
Lemma decl_occ_nid d : In (o_nid (decl_occ d)) (nids_decl d).
Proof. destruct d; cbn [decl_occ nids_decl nids_occ app]; left; reflexivity. Qed.
Lemma sites_decls_nids s ds : In s (add_sites_decls ds) -> In s (flat_map nids_decl ds).
Proof.
  unfold add_sites_decls. intros H. apply in_map_iff in H. destruct H as [d [<- Hd]].
  apply in_flat_map. exists d. split; [exact Hd|apply decl_occ_nid].
Qed.
Lemma sites_concs_nids s :
  (forall c, In s (add_sites_conc c) -> In s (nids_conc c)) /\
  (forall c, In s (add_sites_concs c) -> In s (nids_concs c)).
Proof.
  apply conc_concs_ind; cbn [add_sites_conc add_sites_concs nids_conc nids_concs]; try (intros; contradiction).
  - intros lbl ds b IH H. apply in_or_app. right. apply in_or_app. apply in_app_or in H.
    destruct H as [H|H]; [left; apply sites_decls_nids; exact H|right; apply IH; exact H].
  - intros c IHc r IHr H. apply in_or_app. apply in_app_or in H. destruct H as [H|H]; [left; apply IHc|right; apply IHr]; exact H.
Qed.
Definition dsites_ubody (u : ubody) : list nid :=
  match u with
  | UPkg _ ds | UBody _ ds | UGen _ _ ds => add_sites_decls ds
  | UArch _ _ ds b => add_sites_decls ds ++ add_sites_concs b
  | _ => []
  end.
Lemma dsites_ubody_nids s u : In s (dsites_ubody u) -> In s (nids_ubody u).
Proof.
  destruct u; cbn [dsites_ubody nids_ubody]; try (intros []); intros H.
  - apply in_or_app. right. apply sites_decls_nids. exact H.
  - apply in_or_app. right. apply sites_decls_nids. exact H.
  - apply in_or_app. right. apply in_or_app. right. apply in_or_app. apply in_app_or in H.
    destruct H as [H|H]; [left; apply sites_decls_nids; exact H|right; apply (proj2 (sites_concs_nids s)); exact H].
  - apply in_or_app. right. apply in_or_app. right. apply sites_decls_nids. exact H.
Qed.
Lemma dsites_dunit_nids s u : In s (dsites_ubody (u_body u)) -> In s (nids_dunit u).
Proof. intros H. unfold nids_dunit. apply in_or_app. right. apply dsites_ubody_nids. exact H. Qed.

(* ------------------------------------------------------------------------------------------ *)
(* lifting a transformation of the one design unit that contains node s to the program         *)
(* ------------------------------------------------------------------------------------------ *)
Section Lift.
Variable md : mode.
Variable LIBS : list ident.
Variable s : nid.
Variable f : dunit -> dunit.
Variable hit : dunit -> bool.
Variable GInv : N -> genv -> Prop.
Variable U : dunit -> Prop.
Hypothesis f_id : forall u, ~ In s (nids_dunit u) -> f u = u.
Hypothesis hit_in : forall u, hit u = true -> In s (nids_dunit u).
Hypothesis f_hit : forall GE lib uid u g,
  GInv uid GE -> U u -> hit u = true -> NoDup (nids_dunit u) ->
  check_unit md GE LIBS lib uid u = Ok g -> check_unit md GE LIBS lib uid (f u) = Ok g.
Hypothesis inv_step : forall GE lib uid u g,
  GInv uid GE -> U u -> check_unit md GE LIBS lib uid u = Ok g -> GInv (uid + 1) (GE ++ [g]).

Lemma map_f_id us : ~ In s (flat_map nids_dunit us) -> map f us = us.
Proof.
  induction us as [|u r IH]; cbn [map flat_map]; intros H; [reflexivity|].
  rewrite f_id, IH; [reflexivity| |]; intro Hin; apply H; apply in_or_app; [right|left]; exact Hin.
Qed.
Lemma hit_units_in us : existsb hit us = true -> In s (flat_map nids_dunit us).
Proof.
  intros H. apply existsb_exists in H. destruct H as [u [Hu Hh]]. apply in_flat_map. exists u. split; [exact Hu|apply hit_in; exact Hh].
Qed.
Lemma inv_units us : forall GE lib uid x,
  GInv uid GE -> Forall U us -> check_units md GE LIBS lib uid us = Ok x -> GInv (snd x) (fst x).
Proof.
  induction us as [|u r IH]; intros GE lib uid x HG HU H; cbn [check_units] in H.
  - injection H as <-. exact HG.
  - minv H. inversion HU; subst. eapply IH; [|eassumption|exact E0]. eapply inv_step; eassumption.
Qed.
Lemma lift_units us : forall GE lib uid x,
  GInv uid GE -> Forall U us -> NoDup (flat_map nids_dunit us) -> existsb hit us = true ->
  check_units md GE LIBS lib uid us = Ok x -> check_units md GE LIBS lib uid (map f us) = Ok x.
Proof.
  induction us as [|u r IH]; intros GE lib uid x HG HU Nd Hh H; [discriminate Hh|].
  cbn [flat_map] in Nd. apply NoDup_app_inv in Nd. destruct Nd as [Nu [Nr Dj]]. inversion HU; subst.
  cbn [check_units map] in *. minv H. destruct (hit u) eqn:Eh.
  - rewrite (f_hit GE lib uid u a HG) by assumption. cbn [bind].
    rewrite map_f_id; [exact E0|]. intro Hin. exact (Dj s (hit_in u Eh) Hin).
  - cbn [existsb] in Hh. rewrite Eh in Hh. cbn [orb] in Hh.
    rewrite f_id; [|intro Hin; exact (Dj s Hin (hit_units_in r Hh))]. rewrite E. cbn [bind].
    apply IH; try assumption. eapply inv_step; eassumption.
Qed.
Definition map_lib (l : library) : library := Lib (l_name l) (map f (l_units l)).
Lemma map_lib_id ls : ~ In s (flat_map nids_library ls) -> map map_lib ls = ls.
Proof.
  induction ls as [|l r IH]; cbn [map flat_map]; intros H; [reflexivity|].
  rewrite IH; [|intro Hin; apply H; apply in_or_app; right; exact Hin].
  unfold map_lib. rewrite map_f_id; [destruct l; reflexivity|].
  intro Hin. apply H. apply in_or_app. left. exact Hin.
Qed.
Lemma lift_libs ls : forall GE uid GE',
  GInv uid GE -> Forall (fun l => Forall U (l_units l)) ls -> NoDup (flat_map nids_library ls) ->
  existsb (fun l => existsb hit (l_units l)) ls = true ->
  check_libs md GE LIBS uid ls = Ok GE' -> check_libs md GE LIBS uid (map map_lib ls) = Ok GE'.
Proof.
  induction ls as [|l r IH]; intros GE uid GE' HG HU Nd Hh H; [discriminate Hh|].
  cbn [flat_map] in Nd. apply NoDup_app_inv in Nd. destruct Nd as [Nu [Nr Dj]]. inversion HU; subst.
  cbn [check_libs map] in *. minv H. change (l_name (map_lib l)) with (l_name l). change (l_units (map_lib l)) with (map f (l_units l)).
  destruct (existsb hit (l_units l)) eqn:Eh.
  - rewrite (lift_units (l_units l) GE (l_name l) uid a HG) by assumption. cbn [bind].
    rewrite map_lib_id; [exact E0|]. intro Hin. exact (Dj s (hit_units_in _ Eh) Hin).
  - cbn [existsb] in Hh. rewrite Eh in Hh. cbn [orb] in Hh.
    assert (Hr : In s (flat_map nids_library r)).
    { apply existsb_exists in Hh. destruct Hh as [l' [Hl' Hh']]. apply in_flat_map. exists l'. split; [exact Hl'|].
      apply hit_units_in. exact Hh'. }
    rewrite map_f_id; [|intro Hin; exact (Dj s Hin Hr)]. rewrite E. cbn [bind].
    apply IH; try assumption. eapply inv_units; eassumption.
Qed.
End Lift.

Lemma map_units_names f p : map l_name (map_units f p) = map l_name p.
Proof. unfold map_units. rewrite map_map. reflexivity. Qed.
