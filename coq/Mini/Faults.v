(* Mini/Faults.v — the fault catalogue of C06 as program transformers (definitions only).

   `plant st p`: the program with one fault planted at site st;  `sites f p`: the eligible sites of class f;
   `expect f st p = (n, c)`: the node the reference must blame and with which class (`blame_program`).

   Three kinds of plant:
   - Zap s: the identifier of the occurrence with node id s becomes the never-declared identifier 0.  The class
     follows from the syntactic position of the occurrence (`occs_program`): a simple name / type mark / callee
     / component name / library prefix -> Undeclared; a record field -> UnknownField; the item of lib.pkg.x ->
     UnknownItem; `library l` -> UnknownLib; a primary unit name -> UnknownUnit; an architecture name ->
     UnknownArch; the formal of a port / generic association -> UnknownFormal.
   - Dup s: the declaration whose declared name has node id s is repeated right after itself (node ids of the
     copy shifted beyond all node ids of the program); blame: the name of the copy, Duplicate.
   - phrase replacements (Mini/Walk.v): the right-hand side of an assignment / return / initial value — or one
     element of it when it is an aggregate, positional or named, at any depth — replaced by a literal or an object
     of a type that does not fit, also inside an aggregate that is an operand of an operator; a choice of a case
     statement replaced by the name of an object or of an enumeration literal of another type (TypeMismatch at it); one actual of a call replaced
     so that no overload fits, or the name of a subprogram used without an actual list, or a procedure call
     without its actuals / with another subprogram as callee (NoOverload at the callee); an association element dropped (MissingAssoc at the
     instantiated unit's name); `<=` and `:=` exchanged (KindMismatch at the target).
   For phrase replacements eligibility is decided in the environment the reference records for the phrase
   of the ORIGINAL program (`walk_program`); that the whole planted program is then blamed at that node is
   the theorem (MiniProofs / Props/C06.v). *)
From Coq Require Import List NArith Arith Bool.
Import ListNotations.
From RH Require Import Mini.Syntax Mini.Sem Mini.Walk.
Open Scope N_scope.

(* ------------------------------------------------------------------------------------------ *)
(* mapping a function over every identifier occurrence                                          *)
(* ------------------------------------------------------------------------------------------ *)
Section OMap.
Variable f : occ -> occ.
Definition om_tmark (t : tmark) : tmark :=
  match t with TMName o => TMName (f o) | TMSel l p o => TMSel (f l) (f p) (f o) | _ => t end.
Definition om_fname (x : fname) : fname :=
  match x with FId o => FId (f o) | FSel l p o => FSel (f l) (f p) (f o) end.
Definition om_choice (c : choice) : choice := match c with ChName o => ChName (f o) | _ => c end.
Fixpoint om_expr (e : expr) : expr :=
  match e with
  | EInt _ _ | EBit _ _ => e
  | ENam n => ENam (om_name n)
  | ECall g a => ECall (om_fname g) (om_args a)
  | EBin i op l r => EBin i op (om_expr l) (om_expr r)
  | ENot i e => ENot i (om_expr e)
  | EAgg i els => EAgg i (om_args els)
  | EQual t e => EQual (om_tmark t) (om_expr e)
  end
with om_name (n : name) : name :=
  match n with
  | NId o => NId (f o)
  | NSel l p o => NSel (f l) (f p) (f o)
  | NFld n x => NFld (om_name n) (f x)
  | NIdx n e => NIdx (om_name n) (om_expr e)
  end
with om_args (a : args) : args :=
  match a with ANil => ANil | ACons c e r => ACons (om_choice c) (om_expr e) (om_args r) end.
Definition om_oexpr (e : option expr) : option expr := match e with Some e => Some (om_expr e) | None => None end.
Definition om_cchoice (c : cchoice) : cchoice := match c with CCLit o => CCLit (f o) | _ => c end.
Fixpoint om_stmt (s : stmt) : stmt :=
  match s with
  | SSig i t e => SSig i (om_name t) (om_expr e)
  | SVar i t e => SVar i (om_name t) (om_expr e)
  | SIf i c th el => SIf i (om_expr c) (om_stmts th) (om_stmts el)
  | SCase i sel alts oth => SCase i (om_name sel) (om_calts alts) (om_stmts oth)
  | SFor i v lo hi b => SFor i (f v) lo hi (om_stmts b)
  | SWhile i c b => SWhile i (om_expr c) (om_stmts b)
  | SCall g a => SCall (om_fname g) (om_args a)
  | SRet i e => SRet i (om_oexpr e)
  | SNull i => s
  end
with om_stmts (s : stmts) : stmts :=
  match s with SNil => SNil | SCons x r => SCons (om_stmt x) (om_stmts r) end
with om_calts (a : calts) : calts :=
  match a with CANil => CANil | CACons cs b r => CACons (map om_cchoice cs) (om_stmts b) (om_calts r) end.
Definition om_param (p : param) : param := Param (f (p_occ p)) (p_cls p) (p_mode p) (om_tmark (p_ty p)).
Definition om_iface (i : iface) : iface := IFace (f (i_occ i)) (i_mode i) (om_tmark (i_ty i)) (om_oexpr (i_def i)).
Definition om_tydef (d : tydef) : tydef :=
  match d with
  | TDEnum lits => TDEnum (map f lits)
  | TDInt _ _ => d
  | TDRec fs => TDRec (map (fun x => (f (fst x), om_tmark (snd x))) fs)
  | TDArr len t => TDArr len (om_tmark t)
  end.
Definition om_ldecl (d : ldecl) : ldecl :=
  match d with
  | LVar o t i => LVar (f o) (om_tmark t) (om_oexpr i)
  | LConst o t i => LConst (f o) (om_tmark t) (om_expr i)
  end.
Definition om_decl (d : decl) : decl :=
  match d with
  | DType o td => DType (f o) (om_tydef td)
  | DSubtype o t r => DSubtype (f o) (om_tmark t) r
  | DConst o t i => DConst (f o) (om_tmark t) (om_oexpr i)
  | DSignal o t i => DSignal (f o) (om_tmark t) (om_oexpr i)
  | DFunDecl o ps r => DFunDecl (f o) (map om_param ps) (om_tmark r)
  | DProcDecl o ps => DProcDecl (f o) (map om_param ps)
  | DFunBody o ps r ls b => DFunBody (f o) (map om_param ps) (om_tmark r) (map om_ldecl ls) (om_stmts b)
  | DProcBody o ps ls b => DProcBody (f o) (map om_param ps) (map om_ldecl ls) (om_stmts b)
  | DComp o gs ps => DComp (f o) (map om_iface gs) (map om_iface ps)
  end.
Definition om_actual (a : actual) : actual := match a with AExpr e => AExpr (om_expr e) | AOpen _ => a end.
Definition om_assoc (a : option occ * actual) : option occ * actual :=
  (match fst a with Some o => Some (f o) | None => None end, om_actual (snd a)).
Fixpoint om_conc (c : conc) : conc :=
  match c with
  | CProc l sens ls b => CProc (f l) (map om_name sens) (map om_ldecl ls) (om_stmts b)
  | CAssign l t e => CAssign (f l) (om_name t) (om_expr e)
  | CBlock l ds b => CBlock (f l) (map om_decl ds) (om_concs b)
  | CInstE l lb e a gm pm =>
      CInstE (f l) (f lb) (f e) (match a with Some a => Some (f a) | None => None end) (map om_assoc gm) (map om_assoc pm)
  | CInstC l c gm pm => CInstC (f l) (f c) (map om_assoc gm) (map om_assoc pm)
  end
with om_concs (c : concs) : concs :=
  match c with CNil => CNil | CCons x r => CCons (om_conc x) (om_concs r) end.
Definition om_ctx_item (x : ctx_item) : ctx_item :=
  match x with
  | XLib l => XLib (f l)
  | XUseAll l p => XUseAll (f l) (f p)
  | XUseItem l p x => XUseItem (f l) (f p) (f x)
  | XCtxRef l c => XCtxRef (f l) (f c)
  end.
Definition om_ubody (u : ubody) : ubody :=
  match u with
  | UPkg o ds => UPkg (f o) (map om_decl ds)
  | UBody o ds => UBody (f o) (map om_decl ds)
  | UEnt o gs ps => UEnt (f o) (map om_iface gs) (map om_iface ps)
  | UArch o e ds b => UArch (f o) (f e) (map om_decl ds) (om_concs b)
  | UCfg o e a => UCfg (f o) (f e) (f a)
  | UCtx o items => UCtx (f o) (map om_ctx_item items)
  | UGen o gs ds => UGen (f o) (map om_iface gs) (map om_decl ds)
  | UInst o l g gm => UInst (f o) (f l) (f g) (map om_assoc gm)
  end.
Definition om_dunit (u : dunit) : dunit := DUnit (map om_ctx_item (u_ctx u)) (om_ubody (u_body u)).
Definition om_program (p : program) : program := map (fun l => Lib (l_name l) (map om_dunit (l_units l))) p.
End OMap.

Definition zap_occ (s : nid) (o : occ) : occ := if o_nid o =? s then Occ s id_undeclared else o.
Definition zap (s : nid) (p : program) : program := om_program (zap_occ s) p.

(* ------------------------------------------------------------------------------------------ *)
(* classification of identifier occurrences by syntactic position                               *)
(* ------------------------------------------------------------------------------------------ *)
Inductive okind :=
| OUse            (* simple name of an object / literal / type / callee / component: zap -> Undeclared        *)
| OLibPrefix      (* library prefix of a selected name, use clause, instantiation:   zap -> Undeclared        *)
| OField          (* record field in n.f or in a record aggregate:                   zap -> UnknownField      *)
| OItem           (* x in lib.pkg.x:                                                 zap -> UnknownItem       *)
| OLibClause      (* l in `library l;`:                                              zap -> UnknownLib        *)
| OUnit           (* primary unit name being referred to:                            zap -> UnknownUnit       *)
| OArch           (* architecture name in an entity instantiation / configuration:  zap -> UnknownArch       *)
| OFormal         (* formal of a port / generic association:                         zap -> UnknownFormal     *)
| OOther.         (* declared names, labels, formals of subprogram calls: not plant sites *)

Definition oc (k : okind) (o : occ) : list (nid * okind * ident) := [(o_nid o, k, o_id o)].
Definition oc_sel (l p o : occ) : list (nid * okind * ident) := oc OLibPrefix l ++ oc OUnit p ++ oc OItem o.
Definition oc_tmark (t : tmark) : list (nid * okind * ident) :=
  match t with TMName o => oc OUse o | TMSel l p o => oc_sel l p o | _ => [] end.
Definition oc_fname (x : fname) : list (nid * okind * ident) :=
  match x with FId o => oc OUse o | FSel l p o => oc_sel l p o end.
(* kc: the kind of a named choice (OField in aggregates, OOther in calls) *)
Fixpoint oc_expr (e : expr) : list (nid * okind * ident) :=
  match e with
  | EInt _ _ | EBit _ _ => []
  | ENam n => oc_name n
  | ECall g a => oc_fname g ++ oc_args OOther a
  | EBin _ _ l r => oc_expr l ++ oc_expr r
  | ENot _ e => oc_expr e
  | EAgg _ els => oc_args OField els
  | EQual t e => oc_tmark t ++ oc_expr e
  end
with oc_name (n : name) : list (nid * okind * ident) :=
  match n with
  | NId o => oc OUse o
  | NSel l p o => oc_sel l p o
  | NFld n x => oc_name n ++ oc OField x
  | NIdx n e => oc_name n ++ oc_expr e
  end
with oc_args (kc : okind) (a : args) : list (nid * okind * ident) :=
  match a with
  | ANil => []
  | ACons c e r => (match c with ChName o => oc kc o | _ => [] end) ++ oc_expr e ++ oc_args kc r
  end.
Definition oc_oexpr (e : option expr) := match e with Some e => oc_expr e | None => [] end.
Definition oc_cchoice (c : cchoice) := match c with CCLit o => oc OUse o | _ => [] end.
Fixpoint oc_stmt (s : stmt) : list (nid * okind * ident) :=
  match s with
  | SSig _ t e | SVar _ t e => oc_name t ++ oc_expr e
  | SIf _ c th el => oc_expr c ++ oc_stmts th ++ oc_stmts el
  | SCase _ sel alts oth => oc_name sel ++ oc_calts alts ++ oc_stmts oth
  | SFor _ v _ _ b => oc OOther v ++ oc_stmts b
  | SWhile _ c b => oc_expr c ++ oc_stmts b
  | SCall g a => oc_fname g ++ oc_args OOther a
  | SRet _ e => oc_oexpr e
  | SNull _ => []
  end
with oc_stmts (s : stmts) : list (nid * okind * ident) :=
  match s with SNil => [] | SCons x r => oc_stmt x ++ oc_stmts r end
with oc_calts (a : calts) : list (nid * okind * ident) :=
  match a with CANil => [] | CACons cs b r => flat_map oc_cchoice cs ++ oc_stmts b ++ oc_calts r end.
Definition oc_param (p : param) := oc OOther (p_occ p) ++ oc_tmark (p_ty p).
Definition oc_iface (i : iface) := oc OOther (i_occ i) ++ oc_tmark (i_ty i) ++ oc_oexpr (i_def i).
Definition oc_tydef (d : tydef) :=
  match d with
  | TDEnum lits => flat_map (oc OOther) lits
  | TDInt _ _ => []
  | TDRec fs => flat_map (fun x => oc OOther (fst x) ++ oc_tmark (snd x)) fs
  | TDArr _ t => oc_tmark t
  end.
Definition oc_ldecl (d : ldecl) :=
  match d with
  | LVar o t i => oc OOther o ++ oc_tmark t ++ oc_oexpr i
  | LConst o t i => oc OOther o ++ oc_tmark t ++ oc_expr i
  end.
Definition oc_decl (d : decl) :=
  match d with
  | DType o td => oc OOther o ++ oc_tydef td
  | DSubtype o t _ => oc OOther o ++ oc_tmark t
  | DConst o t i | DSignal o t i => oc OOther o ++ oc_tmark t ++ oc_oexpr i
  | DFunDecl o ps r => oc OOther o ++ flat_map oc_param ps ++ oc_tmark r
  | DProcDecl o ps => oc OOther o ++ flat_map oc_param ps
  | DFunBody o ps r ls b => oc OOther o ++ flat_map oc_param ps ++ oc_tmark r ++ flat_map oc_ldecl ls ++ oc_stmts b
  | DProcBody o ps ls b => oc OOther o ++ flat_map oc_param ps ++ flat_map oc_ldecl ls ++ oc_stmts b
  | DComp o gs ps => oc OOther o ++ flat_map oc_iface gs ++ flat_map oc_iface ps
  end.
Definition oc_actual (a : actual) := match a with AExpr e => oc_expr e | AOpen _ => [] end.
Definition oc_assoc (a : option occ * actual) :=
  (match fst a with Some o => oc OFormal o | None => [] end) ++ oc_actual (snd a).
Fixpoint oc_conc (c : conc) : list (nid * okind * ident) :=
  match c with
  | CProc l sens ls b => oc OOther l ++ flat_map oc_name sens ++ flat_map oc_ldecl ls ++ oc_stmts b
  | CAssign l t e => oc OOther l ++ oc_name t ++ oc_expr e
  | CBlock l ds b => oc OOther l ++ flat_map oc_decl ds ++ oc_concs b
  | CInstE l lb e a gm pm =>
      oc OOther l ++ oc OLibPrefix lb ++ oc OUnit e ++ (match a with Some a => oc OArch a | None => [] end) ++
      flat_map oc_assoc gm ++ flat_map oc_assoc pm
  | CInstC l c gm pm => oc OOther l ++ oc OUse c ++ flat_map oc_assoc gm ++ flat_map oc_assoc pm
  end
with oc_concs (c : concs) : list (nid * okind * ident) :=
  match c with CNil => [] | CCons x r => oc_conc x ++ oc_concs r end.
Definition oc_ctx_item (x : ctx_item) :=
  match x with
  | XLib l => oc OLibClause l
  | XUseAll l p => oc OLibPrefix l ++ oc OUnit p
  | XUseItem l p x => oc_sel l p x
  | XCtxRef l c => oc OLibPrefix l ++ oc OUnit c
  end.
Definition oc_ubody (u : ubody) :=
  match u with
  | UPkg o ds => oc OOther o ++ flat_map oc_decl ds
  | UBody o ds => oc OUnit o ++ flat_map oc_decl ds
  | UEnt o gs ps => oc OOther o ++ flat_map oc_iface gs ++ flat_map oc_iface ps
  | UArch o e ds b => oc OOther o ++ oc OUnit e ++ flat_map oc_decl ds ++ oc_concs b
  | UCfg o e a => oc OOther o ++ oc OUnit e ++ oc OArch a
  | UCtx o items => oc OOther o ++ flat_map oc_ctx_item items
  | UGen o gs ds => oc OOther o ++ flat_map oc_iface gs ++ flat_map oc_decl ds
  | UInst o l g gm => oc OOther o ++ oc OLibPrefix l ++ oc OUnit g ++ flat_map oc_assoc gm
  end.
Definition oc_dunit (u : dunit) := flat_map oc_ctx_item (u_ctx u) ++ oc_ubody (u_body u).
Definition occs_program (p : program) : list (nid * okind * ident) :=
  flat_map (fun l => flat_map oc_dunit (l_units l)) p.

Definition okind_eqb (a b : okind) : bool :=
  match a, b with
  | OUse, OUse | OLibPrefix, OLibPrefix | OField, OField | OItem, OItem | OLibClause, OLibClause
  | OUnit, OUnit | OArch, OArch | OFormal, OFormal | OOther, OOther => true
  | _, _ => false
  end.
Definition occs_of_kind (k : okind) (p : program) : list nid :=
  flat_map (fun x => if okind_eqb (snd (fst x)) k then [fst (fst x)] else []) (occs_program p).

(* ------------------------------------------------------------------------------------------ *)
(* duplicate declaration                                                                        *)
(* ------------------------------------------------------------------------------------------ *)
(* shifting every node id of a declaration by m *)
Definition shift_occ (m : N) (o : occ) : occ := Occ (o_nid o + m) (o_id o).
Fixpoint sh_expr (m : N) (e : expr) : expr :=
  match e with
  | EInt i v => EInt (i + m) v
  | EBit i b => EBit (i + m) b
  | ENam n => ENam (sh_name m n)
  | ECall g a => ECall (om_fname (shift_occ m) g) (sh_args m a)
  | EBin i op l r => EBin (i + m) op (sh_expr m l) (sh_expr m r)
  | ENot i e => ENot (i + m) (sh_expr m e)
  | EAgg i els => EAgg (i + m) (sh_args m els)
  | EQual t e => EQual (om_tmark (shift_occ m) t) (sh_expr m e)
  end
with sh_name (m : N) (n : name) : name :=
  match n with
  | NId o => NId (shift_occ m o)
  | NSel l p o => NSel (shift_occ m l) (shift_occ m p) (shift_occ m o)
  | NFld n x => NFld (sh_name m n) (shift_occ m x)
  | NIdx n e => NIdx (sh_name m n) (sh_expr m e)
  end
with sh_args (m : N) (a : args) : args :=
  match a with ANil => ANil | ACons c e r => ACons (om_choice (shift_occ m) c) (sh_expr m e) (sh_args m r) end.
Definition sh_oexpr m (e : option expr) := match e with Some e => Some (sh_expr m e) | None => None end.
Definition sh_iface (m : N) (i : iface) : iface :=
  IFace (shift_occ m (i_occ i)) (i_mode i) (om_tmark (shift_occ m) (i_ty i)) (sh_oexpr m (i_def i)).
(* declarations without a region of their own are repeated literally (with shifted node ids); the copy of a
   subprogram body is a second body of the same subprogram with an empty declarative part and no statements (its
   statements are never looked at: the copy is rejected at its name, either because the first body completed the
   obligation of the package, or because it clashes with the first body's binding of the same profile); component
   declarations are not plant sites: a formal named like the component would be rejected first *)
Definition sh_decl (m : N) (d : decl) : option decl :=
  match d with
  | DType o td => Some (DType (shift_occ m o) (om_tydef (shift_occ m) td))
  | DSubtype o t r => Some (DSubtype (shift_occ m o) (om_tmark (shift_occ m) t) r)
  | DConst o t i => Some (DConst (shift_occ m o) (om_tmark (shift_occ m) t) (sh_oexpr m i))
  | DSignal o t i => Some (DSignal (shift_occ m o) (om_tmark (shift_occ m) t) (sh_oexpr m i))
  | DFunDecl o ps r => Some (DFunDecl (shift_occ m o) (map (om_param (shift_occ m)) ps) (om_tmark (shift_occ m) r))
  | DProcDecl o ps => Some (DProcDecl (shift_occ m o) (map (om_param (shift_occ m)) ps))
  | DFunBody o ps r ls b =>
      Some (DFunBody (shift_occ m o) (map (om_param (shift_occ m)) ps) (om_tmark (shift_occ m) r) [] SNil)
  | DProcBody o ps ls b => Some (DProcBody (shift_occ m o) (map (om_param (shift_occ m)) ps) [] SNil)
  | _ => None
  end.
Fixpoint dup_decls (s m : N) (ds : list decl) : list decl :=
  match ds with
  | [] => []
  | d :: r =>
      if o_nid (decl_occ d) =? s
      then match sh_decl m d with Some d' => d :: d' :: r | None => d :: r end
      else match d with
           | _ => d :: dup_decls s m r
           end
  end.
Fixpoint dup_conc (s m : N) (c : conc) : conc :=
  match c with
  | CBlock l ds b => CBlock l (dup_decls s m ds) (dup_concs s m b)
  | _ => c
  end
with dup_concs (s m : N) (c : concs) : concs :=
  match c with CNil => CNil | CCons x r => CCons (dup_conc s m x) (dup_concs s m r) end.
Definition dup_ubody (s m : N) (u : ubody) : ubody :=
  match u with
  | UPkg o ds => UPkg o (dup_decls s m ds)
  | UBody o ds => UBody o (dup_decls s m ds)
  | UArch o e ds b => UArch o e (dup_decls s m ds) (dup_concs s m b)
  | UGen o gs ds => UGen o gs (dup_decls s m ds)
  | _ => u
  end.
Definition dup (s : nid) (p : program) : program :=
  let m := max_nid p + 1 in
  map (fun l => Lib (l_name l) (map (fun u => DUnit (u_ctx u) (dup_ubody s m (u_body u))) (l_units l))) p.

Definition dup_sites_decls (ds : list decl) : list nid :=
  flat_map (fun d => match sh_decl 0 d with Some _ => [o_nid (decl_occ d)] | None => [] end) ds.
Fixpoint dup_sites_conc (c : conc) : list nid :=
  match c with
  | CBlock _ ds b => dup_sites_decls ds ++ dup_sites_concs b
  | _ => []
  end
with dup_sites_concs (c : concs) : list nid :=
  match c with CNil => [] | CCons x r => dup_sites_conc x ++ dup_sites_concs r end.
Definition dup_sites (p : program) : list nid :=
  flat_map (fun l => flat_map (fun u =>
    match u_body u with
    | UPkg _ ds | UBody _ ds | UGen _ _ ds => dup_sites_decls ds
    | UArch _ _ ds b => dup_sites_decls ds ++ dup_sites_concs b
    | _ => []
    end) (l_units l)) p.

(* ------------------------------------------------------------------------------------------ *)
(* phrase-level plants                                                                          *)
(* ------------------------------------------------------------------------------------------ *)
(* the complete-context expression of a phrase (right-hand side, returned value, initial value) *)
Definition phrase_root (ph : phrase) : option expr :=
  match ph with
  | PStmt (SSig _ _ e) | PStmt (SVar _ _ e) | PStmt (SRet _ (Some e)) => Some e
  | PStmt (SIf _ c _ _) | PStmt (SWhile _ c _) => Some c          (* the condition *)
  | PInit _ e => Some e
  | PConc (CAssign _ _ e) => Some e
  | _ => None
  end.
Definition set_root (e' : expr) (ph : phrase) : phrase :=
  match ph with
  | PStmt (SSig i t _) => PStmt (SSig i t e')
  | PStmt (SVar i t _) => PStmt (SVar i t e')
  | PStmt (SRet i (Some _)) => PStmt (SRet i (Some e'))
  | PStmt (SIf i _ th el) => PStmt (SIf i e' th el)
  | PStmt (SWhile i _ b) => PStmt (SWhile i e' b)
  | PInit ty _ => PInit ty e'
  | PConc (CAssign l t _) => PConc (CAssign l t e')
  | _ => ph
  end.
(* the type expected of the root expression, in the environment of the phrase *)
Definition root_type (i : pinfo) : option sty :=
  match pi_ph i with
  | PStmt (SSig _ t _) | PConc (CAssign _ t _) =>
      match check_target Exactly (pi_GE i) (pi_G i) KSig t with Ok ty => Some ty | Bad _ _ => None end
  | PStmt (SVar _ t _) =>
      match check_target Exactly (pi_GE i) (pi_G i) KVar t with Ok ty => Some ty | Bad _ _ => None end
  | PStmt (SRet _ (Some _)) => match e_ret (pi_G i) with Some (Some t) => Some t | _ => None end
  | PStmt (SIf _ _ _ _) | PStmt (SWhile _ _ _) => Some SBool
  | PInit ty _ => Some ty
  | _ => None
  end.

Fixpoint set_nth_arg (k : nat) (e' : expr) (a : args) : args :=
  match a with
  | ANil => ANil
  | ACons c e r => match k with O => ACons c e' r | S k' => ACons c e (set_nth_arg k' e' r) end
  end.
Definition drop_assoc (x : ident) (m : amap) : amap :=
  filter (fun a => match fst a with Some o => negb (o_id o =? x) | None => true end) m.

Inductive fsite :=
| SZap (s : nid)
| SDup (s : nid)
| SRoot (s : nid) (e : expr)               (* root expression of phrase s := e                        *)
| SArg (s : nid) (k : nat) (e : expr)      (* k-th actual of the call that is the root of phrase s    *)
| SDrop (s : nid) (port : bool) (x : ident)(* association of formal x dropped from instantiation s     *)
| SFlip (s : nid)                          (* signal assignment <-> variable assignment                *)
| SStmt (s : nid) (st : stmt) (n : nid)    (* statement s := st, to be blamed at node n (calls without
                                              actuals, wrong callee, wrong-typed name as case choice)   *)
| SRootAt (s : nid) (e : expr) (c : expr). (* root expression of phrase s := e, which is the old one with an
                                              element of an aggregate (at any depth) replaced by c      *)

Definition plant_phrase (st : fsite) (ph : phrase) : phrase :=
  match st with
  | SRoot _ e => set_root e ph
  | SArg _ k e =>
      match phrase_root ph with
      | Some (ECall g a) => set_root (ECall g (set_nth_arg k e a)) ph
      | _ => ph
      end
  | SDrop _ port x =>
      match ph with
      | PConc (CInstE l lb en a gm pm) =>
          PConc (if port then CInstE l lb en a gm (drop_assoc x pm) else CInstE l lb en a (drop_assoc x gm) pm)
      | PConc (CInstC l c gm pm) =>
          PConc (if port then CInstC l c gm (drop_assoc x pm) else CInstC l c (drop_assoc x gm) pm)
      | _ => ph
      end
  | SFlip _ =>
      match ph with
      | PStmt (SSig i t e) => PStmt (SVar i t e)
      | PStmt (SVar i t e) => PStmt (SSig i t e)
      | _ => ph
      end
  | SStmt _ st' _ => match ph with PStmt _ => PStmt st' | _ => ph end
  | SRootAt _ e _ => set_root e ph
  | _ => ph
  end.
Definition site_nid (st : fsite) : nid :=
  match st with SZap s | SDup s | SRoot s _ | SArg s _ _ | SDrop s _ _ | SFlip s | SStmt s _ _ | SRootAt s _ _ => s end.

Definition plant (st : fsite) (p : program) : program :=
  match st with
  | SZap s => zap s p
  | SDup s => dup s p
  | _ => sub_phrase (site_nid st) (plant_phrase st) p
  end.

(* ------------------------------------------------------------------------------------------ *)
(* the catalogue: classes, eligible sites, expected blame                                        *)
(* ------------------------------------------------------------------------------------------ *)
Inductive fclass :=
| FUndeclared | FDuplicate | FWrongLiteral | FWrongObject | FNoOverload | FUnknownField | FUnknownItem
| FUnknownLib | FUnknownUnit | FUnknownArch | FUnknownFormal | FMissingAssoc | FSigVar.
Definition all_fclasses : list fclass :=
  [FUndeclared; FDuplicate; FWrongLiteral; FWrongObject; FNoOverload; FUnknownField; FUnknownItem;
   FUnknownLib; FUnknownUnit; FUnknownArch; FUnknownFormal; FMissingAssoc; FSigVar].
Definition fclass_cls (f : fclass) : cls :=
  match f with
  | FUndeclared => Undeclared | FDuplicate => Duplicate | FWrongLiteral | FWrongObject => TypeMismatch
  | FNoOverload => NoOverload | FUnknownField => UnknownField | FUnknownItem => UnknownItem
  | FUnknownLib => UnknownLib | FUnknownUnit => UnknownUnit | FUnknownArch => UnknownArch
  | FUnknownFormal => UnknownFormal | FMissingAssoc => MissingAssoc | FSigVar => KindMismatch
  end.
Definition cls_eqb (a b : cls) : bool :=
  match a, b with
  | Undeclared, Undeclared | Duplicate, Duplicate | TypeMismatch, TypeMismatch | NoOverload, NoOverload
  | UnknownField, UnknownField | UnknownItem, UnknownItem | UnknownLib, UnknownLib | UnknownUnit, UnknownUnit
  | UnknownArch, UnknownArch | UnknownFormal, UnknownFormal | MissingAssoc, MissingAssoc
  | KindMismatch, KindMismatch | Ambiguous, Ambiguous | Conservative, Conservative | Other, Other => true
  | _, _ => false
  end.

(* the node the reference must blame; i: the phrase the plant is in (phrase plants), m: the largest node id of p *)
Definition expect_nid_at (st : fsite) (m : nid) (i : option pinfo) : nid :=
  match st with
  | SZap s => s
  | SDup s => s + (m + 1)
  | SRoot s e => head_nid e
  | SArg s k e =>
      match i with
      | Some i => match phrase_root (pi_ph i) with
                  | Some (ECall g _) => o_nid (fname_occ g)
                  | _ => 0 end
      | None => 0
      end
  | SDrop s _ _ =>
      match i with
      | Some i => match pi_ph i with
                  | PConc (CInstE _ _ e _ _ _) => o_nid e
                  | PConc (CInstC _ c _ _) => o_nid c
                  | _ => 0 end
      | None => 0
      end
  | SFlip s =>
      match i with
      | Some i => match pi_ph i with
                  | PStmt (SSig _ t _) | PStmt (SVar _ t _) => root_nid_name t
                  | _ => 0 end
      | None => 0
      end
  | SStmt _ _ n => n
  | SRootAt _ _ c => head_nid c
  end.
Definition expect_nid (st : fsite) (p : program) : nid :=
  expect_nid_at st (max_nid p) (find_phrase p (site_nid st)).

(* a phrase plant is eligible when the planted phrase, checked in the environment recorded for the ORIGINAL
   phrase, is rejected at the expected node with the class of the fault *)
Definition local_blame (i : pinfo) (ph' : phrase) : option (nid * cls) :=
  match check_phrase Exactly (pi_GE i) (pi_G i) ph' with Ok _ => None | Bad n c => Some (n, c) end.
(* VHDL-2008 9.3.3.3: an element of an ARRAY aggregate may also be of the type of the aggregate itself, which the
   reference does not accept; an array-typed object planted as an aggregate element is therefore no fault site *)
Definition not_array_valued (i : pinfo) (st : fsite) : bool :=
  match st with
  | SRootAt _ _ c =>
      match interp Exactly (pi_GE i) (pi_G i) c with
      | Ok l => negb (existsb (fun t => match t with SArr _ _ _ _ => true | _ => false end) l)
      | Bad _ _ => true
      end
  | _ => true
  end.
Definition eligible_at (f : fclass) (st : fsite) (m : nid) (i : pinfo) : bool :=
  not_array_valued i st &&
  match local_blame i (plant_phrase st (pi_ph i)) with
  | Some (n, c) => (n =? expect_nid_at st m (Some i)) && cls_eqb c (fclass_cls f)
  | None => false
  end.
Definition eligible_phrase (f : fclass) (st : fsite) (p : program) : bool :=
  match find_phrase p (site_nid st) with
  | Some i => eligible_at f st (max_nid p) i
  | None => false
  end.

(* candidate replacements: literals with a node id beyond the program, and every object name of the program *)
Definition fresh_nid (p : program) : nid := max_nid p + 1.
Definition lit_candidates (p : program) : list expr :=
  let m := fresh_nid p in [EInt m 0; EBit m false; ENam (NId (Occ m id_true))].
Definition decl_obj_idents (ds : list decl) : list ident :=
  flat_map (fun d => match d with DConst o _ _ | DSignal o _ _ => [o_id o] | _ => [] end) ds.
Fixpoint conc_obj_idents (c : conc) : list ident :=
  match c with
  | CBlock _ ds b => decl_obj_idents ds ++ concs_obj_idents b
  | CProc _ _ ls _ => map (fun d => match d with LVar o _ _ | LConst o _ _ => o_id o end) ls
  | _ => []
  end
with concs_obj_idents (c : concs) : list ident :=
  match c with CNil => [] | CCons x r => conc_obj_idents x ++ concs_obj_idents r end.
Definition obj_idents (p : program) : list ident :=
  flat_map (fun l => flat_map (fun u =>
    match u_body u with
    | UPkg _ ds | UBody _ ds => decl_obj_idents ds
    | UGen _ gs ds => map (fun i => o_id (i_occ i)) gs ++ decl_obj_idents ds
    | UEnt _ gs ps => map (fun i => o_id (i_occ i)) (gs ++ ps)
    | UArch _ _ ds b => decl_obj_idents ds ++ concs_obj_idents b
    | _ => []
    end) (l_units l)) p.
Definition obj_candidates (p : program) : list expr :=
  map (fun x => ENam (NId (Occ (fresh_nid p) x))) (obj_idents p).

(* names of subprograms: used without an actual list where a value is expected, or as the callee of a procedure call *)
Definition decl_sub_idents (ds : list decl) : list ident :=
  flat_map (fun d => match d with
                     | DFunDecl o _ _ | DProcDecl o _ | DFunBody o _ _ _ _ | DProcBody o _ _ _ => [o_id o]
                     | _ => [] end) ds.
Fixpoint conc_sub_idents (c : conc) : list ident :=
  match c with CBlock _ ds b => decl_sub_idents ds ++ concs_sub_idents b | _ => [] end
with concs_sub_idents (c : concs) : list ident :=
  match c with CNil => [] | CCons x r => conc_sub_idents x ++ concs_sub_idents r end.
Definition sub_idents (p : program) : list ident :=
  flat_map (fun l => flat_map (fun u =>
    match u_body u with
    | UPkg _ ds | UBody _ ds | UGen _ _ ds => decl_sub_idents ds
    | UArch _ _ ds b => decl_sub_idents ds ++ concs_sub_idents b
    | _ => []
    end) (l_units l)) p.
(* names of functions only *)
Definition decl_fun_idents (ds : list decl) : list ident :=
  flat_map (fun d => match d with DFunDecl o _ _ | DFunBody o _ _ _ _ => [o_id o] | _ => [] end) ds.
Fixpoint conc_fun_idents (c : conc) : list ident :=
  match c with CBlock _ ds b => decl_fun_idents ds ++ concs_fun_idents b | _ => [] end
with concs_fun_idents (c : concs) : list ident :=
  match c with CNil => [] | CCons x r => conc_fun_idents x ++ concs_fun_idents r end.
Definition fun_idents (p : program) : list ident :=
  flat_map (fun l => flat_map (fun u =>
    match u_body u with
    | UPkg _ ds | UBody _ ds | UGen _ _ ds => decl_fun_idents ds
    | UArch _ _ ds b => decl_fun_idents ds ++ concs_fun_idents b
    | _ => []
    end) (l_units l)) p.
Definition sub_candidates (p : program) : list expr :=
  map (fun x => ENam (NId (Occ (fresh_nid p) x))) (sub_idents p).
(* a procedure call without its actuals / with a function as callee (node id of the callee kept) *)
Definition call_candidates (p : program) (i : pinfo) : list fsite :=
  match pi_ph i with
  | PStmt (SCall g a) =>
      (match a with ANil => [] | _ => [SStmt (pi_id i) (SCall g ANil) (o_nid (fname_occ g))] end) ++
      map (fun x => SStmt (pi_id i) (SCall (FId (Occ (o_nid (fname_occ g)) x)) a) (o_nid (fname_occ g))) (fun_idents p)
  | _ => []
  end.
(* all ways to replace one element of an aggregate (a complete context or an operand of an operator), at any depth, by c *)
Fixpoint agg_variants (c : expr) (e : expr) {struct e} : list expr :=
  match e with
  | EAgg i els => map (EAgg i) (args_variants c els)
  (* an aggregate that is an operand of an operator *)
  | EBin i op l r => map (fun l' => EBin i op l' r) (agg_variants c l) ++ map (EBin i op l) (agg_variants c r)
  | ENot i x => map (ENot i) (agg_variants c x)
  | _ => []
  end
with args_variants (c : expr) (a : args) {struct a} : list args :=
  match a with
  | ANil => []
  | ACons ch x r =>
      ACons ch c r :: map (fun x' => ACons ch x' r) (agg_variants c x) ++ map (ACons ch x) (args_variants c r)
  end.
Definition agg_candidates (cands : list expr) (i : pinfo) : list fsite :=
  match phrase_root (pi_ph i) with
  | Some e => flat_map (fun c => map (fun e' => SRootAt (pi_id i) e' c) (agg_variants c e)) cands
  | None => []
  end.
(* a case choice replaced by the name x (an object, or an enumeration literal of another type) *)
Fixpoint choice_variants (c : cchoice) (cs : list cchoice) : list (list cchoice) :=
  match cs with
  | [] => []
  | x :: r => (c :: r) :: map (cons x) (choice_variants c r)
  end.
Fixpoint calts_variants (c : cchoice) (a : calts) : list calts :=
  match a with
  | CANil => []
  | CACons cs b r => map (fun cs' => CACons cs' b r) (choice_variants c cs) ++ map (CACons cs b) (calts_variants c r)
  end.
Definition choice_candidates (m : nid) (xs : list ident) (i : pinfo) : list fsite :=
  match pi_ph i with
  | PStmt (SCase k sel alts oth) =>
      flat_map (fun x => map (fun alts' => SStmt (pi_id i) (SCase k sel alts' oth) m)
                             (calts_variants (CCLit (Occ m x)) alts)) xs
  | _ => []
  end.
Definition decl_lit_ids (ds : list decl) : list ident :=
  flat_map (fun d => match d with DType _ (TDEnum lits) => map o_id lits | _ => [] end) ds.
Fixpoint conc_lit_ids (c : conc) : list ident :=
  match c with CBlock _ ds b => decl_lit_ids ds ++ concs_lit_ids b | _ => [] end
with concs_lit_ids (c : concs) : list ident :=
  match c with CNil => [] | CCons z r => conc_lit_ids z ++ concs_lit_ids r end.
Definition lit_ids (p : program) : list ident :=
  flat_map (fun l => flat_map (fun u =>
    match u_body u with
    | UPkg _ ds | UBody _ ds => decl_lit_ids ds
    | UArch _ _ ds b => decl_lit_ids ds ++ concs_lit_ids b
    | _ => []
    end) (l_units l)) p.
Definition root_phrases (p : program) : list pinfo :=
  filter (fun i => match phrase_root (pi_ph i) with Some _ => true | None => false end) (walk_program p).
(* without the conditions of if / while: a condition of the wrong type is a different kind of error (no implicit
   conversion to boolean); plants inside an aggregate of a condition are ordinary *)
Definition is_condition (i : pinfo) : bool :=
  match pi_ph i with PStmt (SIf _ _ _ _) | PStmt (SWhile _ _ _) => true | _ => false end.
Definition value_root_phrases (p : program) : list pinfo := filter (fun i => negb (is_condition i)) (root_phrases p).
Fixpoint seq_nat (n : nat) : list nat := match n with O => [] | S k => seq_nat k ++ [k] end.
Fixpoint args_len (a : args) : nat := match a with ANil => O | ACons _ _ r => S (args_len r) end.

Definition amap_formals (m : amap) : list ident :=
  flat_map (fun a => match fst a with Some o => [o_id o] | None => [] end) m.

(* candidates (syntactic) and eligibility; sites = eligible candidates *)
Definition site_candidates (f : fclass) (p : program) : list fsite :=
  match f with
  | FUndeclared => map SZap (occs_of_kind OUse p ++ occs_of_kind OLibPrefix p)
  | FUnknownField => map SZap (occs_of_kind OField p)
  | FUnknownItem => map SZap (occs_of_kind OItem p)
  | FUnknownLib => map SZap (occs_of_kind OLibClause p)
  | FUnknownUnit => map SZap (occs_of_kind OUnit p)
  | FUnknownArch => map SZap (occs_of_kind OArch p)
  | FUnknownFormal => map SZap (occs_of_kind OFormal p)
  | FDuplicate => map SDup (dup_sites p)
  | FWrongLiteral => flat_map (fun i => map (SRoot (pi_id i)) (lit_candidates p)) (value_root_phrases p) ++
                     flat_map (agg_candidates (lit_candidates p)) (root_phrases p) ++
                     flat_map (choice_candidates (fresh_nid p) (lit_ids p)) (walk_program p)
  | FWrongObject => flat_map (fun i => map (SRoot (pi_id i)) (obj_candidates p)) (value_root_phrases p) ++
                    flat_map (agg_candidates (obj_candidates p)) (root_phrases p) ++
                    flat_map (choice_candidates (fresh_nid p) (obj_idents p)) (walk_program p)
  | FNoOverload =>
      flat_map (fun i =>
        match phrase_root (pi_ph i) with
        | Some (ECall g a) =>
            flat_map (fun k => map (SArg (pi_id i) k) (lit_candidates p ++ obj_candidates p)) (seq_nat (args_len a))
        | _ => []
        end) (root_phrases p) ++
      flat_map (fun i => map (SRoot (pi_id i)) (sub_candidates p)) (value_root_phrases p) ++
      flat_map (call_candidates p) (walk_program p)
  | FMissingAssoc =>
      flat_map (fun i =>
        match pi_ph i with
        | PConc (CInstE _ _ _ _ gm pm) | PConc (CInstC _ _ gm pm) =>
            map (SDrop (pi_id i) false) (amap_formals gm) ++ map (SDrop (pi_id i) true) (amap_formals pm)
        | _ => []
        end) (walk_program p)
  | FSigVar =>
      flat_map (fun i => match pi_ph i with
                         | PStmt (SSig _ _ _) | PStmt (SVar _ _ _) => [SFlip (pi_id i)]
                         | _ => [] end) (walk_program p)
  end.
Definition eligible (f : fclass) (st : fsite) (p : program) : bool :=
  match f with
  | FWrongLiteral | FWrongObject | FNoOverload | FMissingAssoc | FSigVar => eligible_phrase f st p
  | _ => true
  end.
Definition sites (f : fclass) (p : program) : list fsite :=
  filter (fun st => eligible f st p) (site_candidates f p).
Definition expect (f : fclass) (st : fsite) (p : program) : nid * cls := (expect_nid st p, fclass_cls f).

(* ------------------------------------------------------------------------------------------ *)
(* dependencies between design units (for "independent units receive no error")                *)
(* ------------------------------------------------------------------------------------------ *)
(* keys of design units: (library, primary unit name, sub) with sub = 0 for the primary unit, 1 for a package
   body, a for the architecture named a (identifiers of the program are >= first_user_ident) *)
Definition ukey := (ident * ident * N)%type.
Definition unit_key (lib : ident) (u : dunit) : ukey :=
  match u_body u with
  | UBody o _ => (lib, o_id o, 1)
  | UArch o e _ _ => (lib, o_id e, o_id o)
  | b => (lib, o_id (ubody_occ b), 0)
  end.
(* the units a unit refers to, read off the occurrence list: `l.p` -> (l, p, 0); a unit name without library
   prefix (entity of an architecture / configuration, package of a body) -> (lib, p, 0); an architecture name
   after it -> (.., .., a) *)
Fixpoint refs_scan (lib : ident) (cur : option ident) (last : option (ident * ident)) (l : list (nid * okind * ident)) : list ukey :=
  match l with
  | [] => []
  | (_, OLibPrefix, x) :: r => refs_scan lib (Some x) None r
  | (_, OUnit, x) :: r =>
      let lb := match cur with Some c => c | None => lib end in
      (lb, x, 0) :: refs_scan lib None (Some (lb, x)) r
  | (_, OArch, a) :: r =>
      match last with Some (lb, x) => (lb, x, a) :: refs_scan lib None None r | None => refs_scan lib None None r end
  | _ :: r => refs_scan lib None None r
  end.
Definition unit_deps (lib : ident) (u : dunit) : list ukey :=
  refs_scan lib None None (oc_dunit u) ++
  match u_body u with
  | UPkg o _ | UGen o _ _ => [(lib, o_id o, 1)]      (* a package needs its body *)
  | UInst _ l g _ => [(o_id l, o_id g, 1)]
  | _ => []
  end.

(* the class the reference assigns to a zapped occurrence, by position *)
Definition cls_of_okind (k : okind) : option cls :=
  match k with
  | OUse | OLibPrefix => Some Undeclared
  | OField => Some UnknownField
  | OItem => Some UnknownItem
  | OLibClause => Some UnknownLib
  | OUnit => Some UnknownUnit
  | OArch => Some UnknownArch
  | OFormal => Some UnknownFormal
  | OOther => None
  end.

(* the design units of a program in elaboration order, and the program cut after its first k units *)
Definition flat_units (p : program) : list (ident * dunit) :=
  flat_map (fun l => map (fun u => (l_name l, u)) (l_units l)) p.
Fixpoint truncate (k : nat) (p : program) : program :=
  match p with
  | [] => []
  | l :: r => Lib (l_name l) (firstn k (l_units l)) :: truncate (k - length (l_units l)) r
  end.
(* the first k units are accepted (the completeness of package bodies is a whole-program condition and not part of it) *)
Definition prefix_ok (p : program) (k : nat) : Prop :=
  exists GE, check_libs Exactly [] (map l_name p) 0 (truncate k p) = Ok GE.
