(* Mini/ProofsAgreeAdd.v — helper of Mini/ProofsAgree.v: inserting an unused declaration of a fresh identifier (R5)
   preserves the verdict of the enclosing design unit.  Proofs only.

   Contents: the invariant that an identifier z that is never declared in the program (no occurrence of kind
   OOther) is bound nowhere except by the predefined environment (`prist`, `gprist`); the inserted declaration is
   accepted in such an environment; everything after it is checked in an environment that differs only at the
   fresh identifier (agreement lemmas of Mini/ProofsAgreeBase.v); lifting to blocks and design units. *)
From Coq Require Import List NArith Arith Bool Lia FunctionalExtensionality.
Import ListNotations.
From RH Require Import Mini.Syntax Mini.Sem Mini.Walk Mini.Faults Mini.Rewrites Mini.ProofsAgreeBase Mini.ProofsAgreeSwap.
Open Scope N_scope.

(* ------------------------------------------------------------------------------------------ *)
(* identifiers that are never declared                                                          *)
(* ------------------------------------------------------------------------------------------ *)
Definition ndl (z : ident) (l : list (nid * okind * ident)) : Prop := forall n, ~ In (n, OOther, z) l.
Lemma ndl_app z a b : ndl z (a ++ b) -> ndl z a /\ ndl z b.
Proof. intros H. split; intros n Hn; apply (H n); apply in_or_app; [left|right]; exact Hn. Qed.
Lemma ndl_oc z o : ndl z (oc OOther o) -> o_id o <> z.
Proof. intros H E. apply (H (o_nid o)). left. rewrite E. reflexivity. Qed.
Lemma ndl_flat_map {A} z (f : A -> list (nid * okind * ident)) l : ndl z (flat_map f l) -> forall a, In a l -> ndl z (f a).
Proof. intros H a Ha n Hn. apply (H n). apply in_flat_map. exists a. split; assumption. Qed.
Ltac nds :=
  repeat match goal with
  | H : ndl _ (_ ++ _) |- _ => let A := fresh "Nd" in let B := fresh "Nd" in apply ndl_app in H; destruct H as [A B]
  | H : ndl _ (oc OOther _) |- _ => apply ndl_oc in H
  end.

Definition vis0 (z : ident) : list binding := e_vis (env0 0) z.
Definition prist (z : ident) (G : env) : Prop := e_vis G z = vis0 z /\ e_cur G z = [].
Lemma prist_same z G G1 : e_vis G1 = e_vis G -> e_cur G1 = e_cur G -> prist z G -> prist z G1.
Proof. intros Ev Ec [H1 H2]. split; [rewrite Ev|rewrite Ec]; assumption. Qed.
Lemma prist_upd z S G G1 : upd S G G1 -> ~ In z S -> prist z G -> prist z G1.
Proof. intros [Hf _] Hz [H1 H2]. destruct (Hf z Hz) as [Ev Ec]. split; [rewrite Ev|rewrite Ec]; assumption. Qed.
Lemma prist_env0 z uid : prist z (env0 uid).
Proof. split; reflexivity. Qed.

Lemma declared_OOther d y : In y (declared_idents d) -> exists n, In (n, OOther, y) (oc_decl d).
Proof.
  assert (Hhead : forall o rest, exists n, In (n, OOther, o_id o) (oc OOther o ++ rest)) by (intros o rest; exists (o_nid o); left; reflexivity).
  destruct d as [o td|o t rng|o t i|o t i|o ps rt|o ps|o ps rt ls b|o ps ls b|o gs ps];
    try (cbn [declared_idents decl_occ oc_decl]; intros [<-|[]]; apply Hhead).
  destruct td as [lits|lo hi|fs|len el]; try (cbn [declared_idents decl_occ oc_decl]; intros [<-|[]]; apply Hhead).
  cbn [declared_idents oc_decl oc_tydef]. intros [<-|H]; [apply Hhead|].
  apply in_map_iff in H. destruct H as [l [<- Hl]]. exists (o_nid l). apply in_or_app. right.
  apply in_flat_map. exists l. split; [exact Hl|left; reflexivity].
Qed.
Lemma ndl_declared z d : ndl z (oc_decl d) -> ~ In z (declared_idents d).
Proof. intros H Hin. apply declared_OOther in Hin. destruct Hin as [n Hn]. exact (H n Hn). Qed.
Lemma decl_occ_OOther d : In (o_nid (decl_occ d), OOther, o_id (decl_occ d)) (oc_decl d).
Proof. destruct d; cbn [decl_occ oc_decl]; left; reflexivity. Qed.

Definition obl_names_ne (z : ident) (obl : list obligation) : Prop := forall ob, In ob obl -> fst (fst ob) <> z.
Definition kprist (z : ident) (k : gkind) : Prop :=
  match k with
  | GPkg ex inner obl => ex z = [] /\ prist z inner /\ obl_names_ne z obl
  | GGen _ ex inner obl => ex z = [] /\ prist z inner /\ obl_names_ne z obl
  | GInst ex => ex z = []
  | GEnt _ _ inner => prist z inner
  | _ => True
  end.
Definition gprist (z : ident) (GE : genv) : Prop := forall g, In g GE -> kprist z (g_kind g).

Section Prist.
Variable md : mode.
Variable GE : genv.
Variable z : ident.
Hypothesis GP : gprist z GE.

Lemma find_unit_prist l n k : find_unit GE l n = Some k -> kprist z k.
Proof.
  unfold find_unit. destruct (n =? id_undeclared); [discriminate|]. intros E.
  apply find_unit__In in E. destruct E as [g [Hin <-]]. apply GP. exact Hin.
Qed.
Lemma check_decl_prist r obl G d G1 :
  check_decl md GE r obl G d = Ok G1 -> ndl z (oc_decl d) -> prist z G -> prist z G1.
Proof.
  intros H Hn P. apply check_decl_shape in H. eapply prist_upd; [eapply shape_upd; exact H|apply ndl_declared; exact Hn|exact P].
Qed.
Lemma check_decls_prist r obl ds : forall G G1,
  check_decls md GE r obl G ds = Ok G1 -> ndl z (flat_map oc_decl ds) -> prist z G -> prist z G1.
Proof.
  induction ds as [|d rest IH]; intros G G1 H Hn P; cbn [check_decls flat_map] in *.
  - injection H as <-. exact P.
  - bdes H Ga Ha. nds. eapply IH; [exact H|assumption|]. eapply check_decl_prist; eassumption.
Qed.
Lemma declare_ifaces_upd c l : forall G G1,
  declare_ifaces md GE c G l = Ok G1 -> upd (map (fun i => o_id (i_occ i)) l) G G1.
Proof.
  induction l as [|i r IH]; intros G G1 H; cbn [declare_ifaces map] in *.
  - injection H as <-. apply upd_refl.
  - bdes H ty Hty. bdes H x0 H0. bdes H x1 H1. bdes H Ga Ha.
    eapply upd_trans; [eapply declare_upd; exact Ha|eapply IH; exact H| |].
    + intros y [<-|[]]. left. reflexivity.
    + intros y Hy. right. exact Hy.
Qed.
Lemma declare_ifaces_prist c l G G1 :
  declare_ifaces md GE c G l = Ok G1 -> ndl z (flat_map oc_iface l) -> prist z G -> prist z G1.
Proof.
  intros H Hn P. eapply prist_upd; [eapply declare_ifaces_upd; exact H| |exact P].
  intros Hin. apply in_map_iff in Hin. destruct Hin as [i [E Hi]].
  assert (Hi' := ndl_flat_map z oc_iface l Hn i Hi). unfold oc_iface in Hi'. nds. contradiction.
Qed.

Lemma sel_pkg_prist G l p ex : sel_pkg GE G l p = Ok ex -> ex z = [].
Proof.
  unfold sel_pkg. intros H. bdes H x0 H0. destruct (find_unit GE (o_id l) (o_id p)) as [k|] eqn:Ef; [|discriminate].
  apply find_unit_prist in Ef. destruct k; cbn [exports_of] in H; try discriminate; injection H as <-; cbn [kprist] in Ef; tauto.
Qed.
Lemma check_ctx_basic_prist LIBS G x G1 : check_ctx_basic GE LIBS G x = Ok G1 -> prist z G -> prist z G1.
Proof.
  intros H [P1 P2]. destruct x as [l|l p|l p x|l c]; cbn [check_ctx_basic] in H.
  - bdes H x0 H0. injection H as <-. split; assumption.
  - bdes H exs Hex. injection H as <-. apply sel_pkg_prist in Hex. split; [|exact P2].
    cbn_env. unfold import_all. rewrite Hex. exact P1.
  - bdes H exs Hex. bdes H x0 H0. injection H as <-. apply sel_pkg_prist in Hex. split; [|exact P2].
    cbn_env. unfold import_item. destruct (z =? o_id x) eqn:E.
    + apply N.eqb_eq in E. rewrite <- E, Hex. exact P1.
    + destruct (existsb _ _); [rewrite Hex|]; exact P1.
  - discriminate H.
Qed.
Lemma check_ctx_basics_prist LIBS xs : forall G G1, check_ctx_basics GE LIBS G xs = Ok G1 -> prist z G -> prist z G1.
Proof.
  induction xs as [|x r IH]; intros G G1 H P; cbn [check_ctx_basics] in H.
  - injection H as <-. exact P.
  - bdes H Ga Ha. eapply IH; [exact H|]. eapply check_ctx_basic_prist; eassumption.
Qed.
Lemma check_ctx_item_prist LIBS G x G1 : check_ctx_item GE LIBS G x = Ok G1 -> prist z G -> prist z G1.
Proof.
  intros H P. destruct x as [l|l p|l p x|l c].
  1-3: exact (check_ctx_basic_prist LIBS G _ G1 H P).
  cbn [check_ctx_item] in H. bdes H x0 H0. destruct (find_unit GE (o_id l) (o_id c)) as [[]|]; try discriminate.
  destruct (check_ctx_basics GE LIBS G items) eqn:Eb; [|discriminate]. injection H as <-.
  eapply check_ctx_basics_prist; eassumption.
Qed.
Lemma check_ctx_prist LIBS xs : forall G G1, check_ctx GE LIBS G xs = Ok G1 -> prist z G -> prist z G1.
Proof.
  induction xs as [|x r IH]; intros G G1 H P; cbn [check_ctx] in H.
  - injection H as <-. exact P.
  - bdes H Ga Ha. eapply IH; [exact H|]. eapply check_ctx_item_prist; eassumption.
Qed.

Lemma obligations_ne G1 ds : ndl z (flat_map oc_decl ds) -> obl_names_ne z (flat_map (decl_obligation GE G1) ds).
Proof.
  intros Hn ob Hob. apply in_flat_map in Hob. destruct Hob as [d [Hd Hob]].
  assert (Hd' := ndl_flat_map z oc_decl ds Hn d Hd).
  assert (Hne : o_id (decl_occ d) <> z).
  { intro E. apply (Hd' (o_nid (decl_occ d))). rewrite <- E. apply decl_occ_OOther. }
  destruct d as [| |o t [e|]| |o ps rt|o ps| | |]; cbn [decl_obligation] in Hob; try contradiction;
    destruct Hob as [<-|[]]; exact Hne.
Qed.

Lemma check_unit_kprist LIBS lib uid u g :
  ndl z (oc_dunit u) -> check_unit md GE LIBS lib uid u = Ok g -> kprist z (g_kind g).
Proof.
  intros Hn H. unfold check_unit in H. unfold oc_dunit in Hn. apply ndl_app in Hn. destruct Hn as [_ Hn].
  assert (P0 : prist z (env0 uid)) by apply prist_env0.
  destruct (u_body u) as [o ds|o ds|o gs ps|o e ds body|o e a|o items|o gs ds|o l g0 gm]; cbn [oc_ubody] in Hn; nds.
  - bdes H x0 H0. bdes H G0 HG0. bdes H G1 HG1. injection H as <-. cbn [g_kind kprist].
    assert (PG0 := check_ctx_prist LIBS _ _ _ HG0 P0).
    assert (PG1 : prist z G1).
    { eapply check_decls_prist; [exact HG1|assumption|]. eapply prist_same; [| |exact PG0]; reflexivity. }
    split; [|split; [exact PG1|apply obligations_ne; assumption]].
    unfold undefer_all. rewrite (proj2 PG1). reflexivity.
  - destruct (if o_id o =? id_undeclared then None else find_unit GE lib (o_id o)) as [[]|]; try discriminate.
    + bdes H x0 H0. bdes H G0 HG0. bdes H G1 HG1. bdes H x1 H1. injection H as <-. exact I.
    + bdes H x0 H0. bdes H G0 HG0. bdes H G1 HG1. bdes H x1 H1. injection H as <-. exact I.
  - bdes H x0 H0. bdes H G0 HG0. bdes H Gg HGg. bdes H Gp HGp. injection H as <-. cbn [g_kind kprist].
    assert (PG0 := check_ctx_prist LIBS _ _ _ HG0 P0).
    eapply declare_ifaces_prist; [exact HGp|assumption|]. eapply declare_ifaces_prist; [exact HGg|assumption|exact PG0].
  - destruct (if o_id e =? id_undeclared then None else find_unit GE lib (o_id e)) as [[]|]; try discriminate.
    bdes H x0 H0. bdes H x1 H1. bdes H G0 HG0. bdes H G1 HG1. bdes H x2 H2. bdes H x3 H3. injection H as <-. exact I.
  - bdes H x0 H0. bdes H x1 H1.
    destruct (if o_id e =? id_undeclared then None else find_unit GE lib (o_id e)) as [[]|]; try discriminate.
    bdes H x2 H2. injection H as <-. exact I.
  - bdes H x0 H0. bdes H x1 H1. bdes H x2 H2. injection H as <-. exact I.
  - bdes H x0 H0. bdes H G0 HG0. bdes H Gg HGg. bdes H G1 HG1. injection H as <-. cbn [g_kind kprist].
    assert (PG0 := check_ctx_prist LIBS _ _ _ HG0 P0).
    assert (PGg : prist z Gg).
    { eapply declare_ifaces_prist; [exact HGg|assumption|]. eapply prist_same; [| |exact PG0]; reflexivity. }
    assert (PG1 : prist z G1) by (eapply check_decls_prist; [exact HG1|assumption|exact PGg]).
    split; [|split; [exact PG1|apply obligations_ne; assumption]].
    destruct (existsb _ gs); [reflexivity|]. unfold undefer_all. rewrite (proj2 PG1). reflexivity.
  - bdes H x0 H0. bdes H G0 HG0. bdes H x1 H1.
    destruct (if o_id g0 =? id_undeclared then None else find_unit GE (o_id l) (o_id g0)) as [[]|] eqn:Ef; try discriminate.
    bdes H x2 H2. bdes H x3 H3. injection H as <-. cbn [g_kind kprist].
    destruct (o_id g0 =? id_undeclared); [discriminate|]. apply find_unit_prist in Ef. cbn [kprist] in Ef.
    unfold rehome. rewrite (proj1 Ef). reflexivity.
Qed.
End Prist.

Lemma check_unit_gprist md GE z LIBS lib uid u g :
  gprist z GE -> ndl z (oc_dunit u) -> check_unit md GE LIBS lib uid u = Ok g -> gprist z (GE ++ [g]).
Proof.
  intros GP Hn H g' Hg'. apply in_app_or in Hg'. destruct Hg' as [Hg'|[<-|[]]].
  - apply GP. exact Hg'.
  - eapply check_unit_kprist; eassumption.
Qed.

(* ------------------------------------------------------------------------------------------ *)
(* the inserted declaration                                                                     *)
(* ------------------------------------------------------------------------------------------ *)
Definition Qt : N -> ident -> Prop := fun _ _ => True.
Lemma genv_good_true GE : genv_good GE Qt.
Proof. intros l n k ex y b _ _ _ t _. apply all_named_true. Qed.
Lemma Qt_out (x : ident) : forall (u : N) (n : ident), ~ In n [x] -> Qt u n.
Proof. intros. exact I. Qed.

Definition ext (x : ident) (G G' : env) : Prop := agree [x] Qt G G' /\ e_done G = e_done G'.

Lemma ext_bind_raw x G kb h : is_own kb = false -> ext x G (bind_raw G x (Bnd kb h)).
Proof.
  intros Hk. split; [|reflexivity]. constructor; cbn_env; try reflexivity.
  - intros y Hy. unfold fadd. destruct (y =? x) eqn:E; [|reflexivity]. apply N.eqb_eq in E. exfalso. apply Hy. left. symmetry. exact E.
  - intros y Hy. unfold fadd. destruct (y =? x) eqn:E; [|reflexivity]. apply N.eqb_eq in E. exfalso. apply Hy. left. symmetry. exact E.
  - intros n t [<-|[]] _ _. rewrite ownb_fadd. rewrite N.eqb_refl. cbn [b_kind].
    destruct kb as [| ? [|] | | | | |]; try reflexivity. discriminate Hk.
  - intros y b _ _ t _. apply all_named_true.
Qed.

Lemma declare_fresh G n x kb :
  prist x G -> vis0 x = [] -> x <> id_undeclared -> declare G (Occ n x) kb = Ok (bind_raw G x (Bnd kb (e_home G))).
Proof.
  intros [P1 P2] Hv Hx. unfold declare. cbn [o_id o_nid]. rewrite P2, P1, Hv. cbn [existsb negb].
  apply N.eqb_neq in Hx. rewrite Hx. reflexivity.
Qed.
Lemma ob_eqb_name x ps r ob : ob_eqb (x, ps, r) ob = true -> fst (fst ob) = x.
Proof.
  destruct ob as [[x' ps'] r']. cbn [ob_eqb fst]. intros H.
  apply andb_true_iff in H. destruct H as [H _]. apply andb_true_iff in H. destruct H as [H _].
  apply andb_true_iff in H. destruct H as [H _]. apply N.eqb_eq in H. symmetry. exact H.
Qed.
Lemma obl_no_match x ps r obl : obl_names_ne x obl -> existsb (ob_eqb (x, ps, r)) obl = false.
Proof.
  intros Hn. destruct (existsb (ob_eqb (x, ps, r)) obl) eqn:E; [|reflexivity].
  apply existsb_exists in E. destruct E as [ob [Hin Hob]]. apply ob_eqb_name in Hob. exfalso. exact (Hn ob Hin Hob).
Qed.
Lemma vis0_true : vis0 id_true = [Bnd (BLit SBool) None].
Proof. reflexivity. Qed.
Lemma vis0_other x : x <> id_true -> x <> id_false -> vis0 x = [].
Proof.
  intros H1 H2. unfold vis0, env0. cbn [e_vis]. unfold fadd, fempty.
  apply N.eqb_neq in H1. apply N.eqb_neq in H2. rewrite H1, H2. reflexivity.
Qed.

Lemma new_decl_ok md GE r obl in_body G m x k :
  ((in_body = true /\ r = RBody) \/ (in_body = false /\ r = RArch)) ->
  prist x G -> x <> id_undeclared -> vis0 x = [] -> obl_names_ne x obl ->
  (k = 0 \/ k = 2 \/ prist id_true G) ->
  exists kb, is_own kb = false /\
             check_decl md GE r obl G (new_decl m x k in_body) = Ok (bind_raw G x (Bnd kb (e_home G))).
Proof.
  intros Hreg P Hx Hv Hob Hk.
  assert (Hal : forall d, (match d with DConst _ _ (Some _) | DSubtype _ _ _ => True | DSignal _ _ _ => in_body = false | _ => False end) ->
                          allowed r d = true).
  { intros d Hd. destruct Hreg as [[-> ->]|[-> ->]]; destruct d as [| |? ? [?|]| | | | | |]; try contradiction; try reflexivity. discriminate Hd. }
  assert (Hconst : forall t ty e, resolve_tmark GE G t = Ok ty -> root md GE G ty e = Ok tt ->
            check_decl md GE r obl G (DConst (Occ m x) t (Some e)) = Ok (bind_raw G x (Bnd (BObj KConst MNone ty) (e_home G)))).
  { intros t ty e Ht He. unfold check_decl. rewrite Hal by exact I. cbn [guard bind]. rewrite Ht. cbn [bind]. rewrite He. cbn [bind o_id].
    rewrite obl_no_match by exact Hob. apply declare_fresh; assumption. }
  assert (Htrue : prist id_true G -> root md GE G SBool (ENam (NId (Occ (m + 1) id_true))) = Ok tt).
  { intros [Pt _]. unfold root, root_gen. rewrite interp_ENam, interp_name_NId. unfold vis_occ, vis. cbn [o_id o_nid].
    change (id_true =? id_undeclared) with false. cbv iota. rewrite Pt, vis0_true. reflexivity. }
  unfold new_decl. destruct (k =? 0) eqn:E0.
  - exists (BObj KConst MNone SInt). split; [reflexivity|]. apply Hconst; reflexivity.
  - destruct ((k =? 1) && negb in_body) eqn:E1.
    + exists (BObj KSig MNone SBit). split; [reflexivity|]. apply andb_true_iff in E1. destruct E1 as [_ E1]. apply negb_true_iff in E1.
      unfold check_decl. rewrite Hal by exact E1. cbn [guard bind resolve_tmark check_oinit o_id]. apply declare_fresh; assumption.
    + destruct (k =? 2) eqn:E2.
      * exists (BType SInt false). split; [reflexivity|].
        unfold check_decl. rewrite Hal by exact I. cbn [guard bind resolve_tmark is_int andb]. change (0 <=? 3) with true. cbn [guard bind].
        apply declare_fresh; assumption.
      * exists (BObj KConst MNone SBool). split; [reflexivity|]. apply Hconst; [reflexivity|]. apply Htrue.
        destruct Hk as [->|[->|Hk]]; [discriminate E0|discriminate E2|exact Hk].
Qed.

(* ------------------------------------------------------------------------------------------ *)
(* syntactic facts about add_decls                                                              *)
(* ------------------------------------------------------------------------------------------ *)
Lemma add_decls_id s m x k ib ds : ~ In s (add_sites_decls ds) -> add_decls s m x k ib ds = ds.
Proof.
  induction ds as [|d r IH]; [reflexivity|]. cbn [add_decls add_sites_decls map]. intros H.
  destruct (o_nid (decl_occ d) =? s) eqn:E.
  - exfalso. apply H. left. apply N.eqb_eq. exact E.
  - rewrite IH; [reflexivity|]. intro Hin. apply H. right. exact Hin.
Qed.
Lemma add_concs_id s m x k :
  (forall c, ~ In s (add_sites_conc c) -> add_conc s m x k c = c) /\
  (forall c, ~ In s (add_sites_concs c) -> add_concs s m x k c = c).
Proof.
  apply conc_concs_ind; cbn [add_sites_conc add_sites_concs add_conc add_concs]; try reflexivity.
  - intros lbl ds b IH H. rewrite add_decls_id, IH; [reflexivity| |]; intro Hin; apply H; apply in_or_app; [right|left]; exact Hin.
  - intros c IHc r IHr H. rewrite IHc, IHr; [reflexivity| |]; intro Hin; apply H; apply in_or_app; [right|left]; exact Hin.
Qed.
Lemma labels_add s m x k :
  (forall c, labels_conc (add_conc s m x k c) = labels_conc c) /\ (forall c, labels_concs (add_concs s m x k c) = labels_concs c).
Proof.
  apply conc_concs_ind; cbn [labels_conc labels_concs add_conc add_concs]; try reflexivity.
  - intros lbl ds b IH. rewrite IH. reflexivity.
  - intros c IHc r IHr. rewrite IHc, IHr. reflexivity.
Qed.

Lemma freshl_ndl x l : freshl [x] l -> ndl x l.
Proof.
  intros H n Hn. unfold freshl in H. rewrite Forall_forall in H. apply (H _ Hn). left. reflexivity.
Qed.
Ltac frs :=
  repeat match goal with
  | H : freshl _ (_ ++ _) |- _ =>
      let A := fresh "Fr" in let B := fresh "Fr" in apply freshl_app in H; destruct H as [A B]
  end.

(* ------------------------------------------------------------------------------------------ *)
(* lifting to declaration lists, blocks, design units                                           *)
(* ------------------------------------------------------------------------------------------ *)
Section AddLift.
Variable md : mode.
Variable GE : genv.
Variables (s m : nid) (x : ident) (k : N).
Hypothesis Hx0 : x <> id_undeclared.
Hypothesis Hxv : vis0 x = [].

(* the condition under which the inserted declaration may use `true` *)
Definition tcond (G : env) (l : list (nid * okind * ident)) : Prop :=
  k = 0 \/ k = 2 \/ (prist id_true G /\ ndl id_true l).
Lemma tcond_app_l G a b : tcond G (a ++ b) -> tcond G a.
Proof. intros [H|[H|[P H]]]; [left; exact H|right; left; exact H|right; right; split; [exact P|apply (ndl_app _ _ _ H)]]. Qed.
Lemma tcond_app_r G a b : tcond G (a ++ b) -> tcond G b.
Proof. intros [H|[H|[P H]]]; [left; exact H|right; left; exact H|right; right; split; [exact P|apply (ndl_app _ _ _ H)]]. Qed.

Lemma add_decls_ok r obl in_body ds : forall G Gn,
  ((in_body = true /\ r = RBody) \/ (in_body = false /\ r = RArch /\ obl = [])) ->
  obl_names_ne x obl -> In s (add_sites_decls ds) -> freshl [x] (flat_map oc_decl ds) -> prist x G ->
  tcond G (flat_map oc_decl ds) ->
  check_decls md GE r obl G ds = Ok Gn ->
  exists Gn', check_decls md GE r obl G (add_decls s m x k in_body ds) = Ok Gn' /\ ext x Gn Gn'.
Proof.
  induction ds as [|d rest IH]; intros G Gn Hreg Hob Hs Fr P Tc H; [destruct Hs|].
  cbn [add_decls check_decls flat_map] in *. frs. bdes H G1 H1.
  assert (P1 : prist x G1) by (eapply check_decl_prist; [exact H1|apply freshl_ndl; assumption|exact P]).
  assert (Tc1 : tcond G1 (flat_map oc_decl rest)).
  { destruct Tc as [Tc|[Tc|[Pt Nt]]]; [left; exact Tc|right; left; exact Tc|]. right. right.
    apply ndl_app in Nt. destruct Nt as [Nd Nr]. split; [|exact Nr]. eapply check_decl_prist; [exact H1|exact Nd|exact Pt]. }
  destruct (o_nid (decl_occ d) =? s) eqn:E.
  - cbn [check_decls]. rewrite H1. cbn [bind].
    destruct (new_decl_ok md GE r obl in_body G1 m x k) as [kb [Hkb Hnew]]; try assumption.
    { destruct Hreg as [[? ?]|[? [? ?]]]; [left|right]; tauto. }
    { destruct Tc1 as [Tq|[Tq|[Pt _]]]; tauto. }
    rewrite Hnew. cbn [bind].
    assert (X := ext_bind_raw x G1 kb (e_home G1) Hkb). destruct X as [A Hd].
    assert (R := check_decls_agree md GE [x] Qt (Qt_out x) (genv_good_true GE) r obl rest G1 _ A Fr1 (or_introl Hd)).
    destruct (rrel_ok_l _ _ _ _ R H) as [Gn' [Hn' [An Hdn]]].
    exists Gn'. split; [exact Hn'|]. split; [exact An|apply Hdn; exact Hd].
  - cbn [check_decls]. rewrite H1. cbn [bind]. apply IH; try assumption.
    destruct Hs as [Hs|Hs]; [|exact Hs]. apply N.eqb_neq in E. contradiction.
Qed.

Lemma tcond_push G l : tcond G l -> tcond (push G) l.
Proof.
  intros [H|[H|[P H]]]; [left; exact H|right; left; exact H|]. right. right. split; [|exact H]. split; [apply P|reflexivity].
Qed.
Lemma tcond_decls r obl ds G G' rest :
  tcond G (flat_map oc_decl ds ++ rest) -> check_decls md GE r obl G ds = Ok G' -> tcond G' rest.
Proof.
  intros [H|[H|[P H]]] Hc; [left; exact H|right; left; exact H|]. right. right.
  apply ndl_app in H. destruct H as [Hd Hr]. split; [|exact Hr]. eapply check_decls_prist; eassumption.
Qed.

Lemma add_concs_ok :
  (forall c G, In s (add_sites_conc c) -> NoDup (nids_conc c) -> freshl [x] (oc_conc c) -> prist x G ->
     tcond G (oc_conc c) -> check_conc md GE G c = Ok tt -> check_conc md GE G (add_conc s m x k c) = Ok tt) /\
  (forall c G, In s (add_sites_concs c) -> NoDup (nids_concs c) -> freshl [x] (oc_concs c) -> prist x G ->
     tcond G (oc_concs c) -> check_concs md GE G c = Ok tt -> check_concs md GE G (add_concs s m x k c) = Ok tt).
Proof.
  apply conc_concs_ind; cbn [add_sites_conc add_sites_concs]; try (intros; contradiction).
  - intros lbl ds b IH G Hs Nd Fr P Tc H. cbn [add_conc nids_conc oc_conc] in *. rewrite check_conc_CBlock in *.
    apply NoDup_app_inv in Nd. destruct Nd as [_ [Nd _]]. apply NoDup_app_inv in Nd. destruct Nd as [Nds [Nb Dj]].
    frs. apply tcond_app_r in Tc. apply tcond_push in Tc. bdes H G' HG'.
    assert (Pp : prist x (push G)) by (split; [apply P|reflexivity]).
    assert (Tcb := tcond_decls _ _ _ _ _ _ Tc HG'). apply tcond_app_l in Tc.
    destruct (In_dec_N s (add_sites_decls ds)) as [Hds|Hds].
    + destruct (add_decls_ok RArch [] false ds (push G) G') as [G'' [HG'' [A _]]]; try assumption.
      { right. tauto. } { intros ob []. }
      rewrite HG''. cbn [bind]. rewrite (proj2 (add_concs_id s m x k)).
      2:{ intro Hin. apply (Dj s); [apply sites_decls_nids; exact Hds|apply (proj2 (sites_concs_nids s)); exact Hin]. }
      rewrite <- (check_concs_agree md GE [x] Qt (Qt_out x) (genv_good_true GE) G' G'' b A) by assumption. exact H.
    + rewrite add_decls_id by exact Hds. rewrite HG'. cbn [bind].
      apply in_app_or in Hs. destruct Hs as [Hs|Hs]; [contradiction|].
      apply IH; try assumption.
      eapply check_decls_prist; [exact HG'|apply freshl_ndl; assumption|exact Pp].
  - intros c IHc r IHr G Hs Nd Fr P Tc H. cbn [add_concs nids_concs oc_concs] in *. rewrite check_concs_CCons in *.
    apply NoDup_app_inv in Nd. destruct Nd as [Nc [Nr Dj]]. frs. bdes H u0 Hc. destruct u0.
    destruct (In_dec_N s (add_sites_conc c)) as [Hsc|Hsc].
    + rewrite (IHc G) by (try assumption; eapply tcond_app_l; exact Tc). cbn [bind].
      rewrite (proj2 (add_concs_id s m x k)); [exact H|].
      intro Hin. apply (Dj s); [apply (proj1 (sites_concs_nids s)); exact Hsc|apply (proj2 (sites_concs_nids s)); exact Hin].
    + rewrite (proj1 (add_concs_id s m x k)) by exact Hsc. rewrite Hc. cbn [bind].
      apply in_app_or in Hs. destruct Hs as [Hs|Hs]; [contradiction|].
      apply IHr; try assumption. eapply tcond_app_r; exact Tc.
Qed.
End AddLift.

Definition asites_ubody (u : ubody) : list nid :=
  match u with
  | UBody _ ds => add_sites_decls ds
  | UArch _ _ ds b => add_sites_decls ds ++ add_sites_concs b
  | _ => []
  end.
Lemma asites_dsites s u : In s (asites_ubody u) -> In s (dsites_ubody u).
Proof. destruct u; cbn [asites_ubody dsites_ubody]; intros H; try contradiction; exact H. Qed.
Lemma add_ubody_id s m x k b : ~ In s (dsites_ubody b) -> add_ubody s m x k b = b.
Proof.
  destruct b; cbn [dsites_ubody add_ubody]; intros H; try reflexivity.
  - rewrite add_decls_id; [reflexivity|exact H].
  - rewrite add_decls_id, (proj2 (add_concs_id s m x k)); [reflexivity| |]; intro Hin; apply H; apply in_or_app; [right|left]; exact Hin.
Qed.

Lemma add_unit_ok md GE LIBS lib uid s m x k u g :
  x <> id_undeclared -> vis0 x = [] ->
  gprist x GE -> (k = 0 \/ k = 2 \/ (gprist id_true GE /\ ndl id_true (oc_dunit u))) ->
  freshl [x] (oc_dunit u) -> In s (asites_ubody (u_body u)) -> NoDup (nids_dunit u) ->
  check_unit md GE LIBS lib uid u = Ok g ->
  check_unit md GE LIBS lib uid (DUnit (u_ctx u) (add_ubody s m x k (u_body u))) = Ok g.
Proof.
  intros Hx0 Hxv GP Tk Fr Hs Nd H. unfold check_unit in *. cbn [u_body u_ctx].
  unfold nids_dunit in Nd. apply NoDup_app_inv in Nd. destruct Nd as [_ [Nd _]].
  unfold oc_dunit in Fr. apply freshl_app in Fr. destruct Fr as [_ Fr].
  assert (Tk' : k = 0 \/ k = 2 \/ (gprist id_true GE /\ ndl id_true (oc_ubody (u_body u)))).
  { destruct Tk as [Tk|[Tk|[Gt Nt]]]; [left; exact Tk|right; left; exact Tk|]. right. right. split; [exact Gt|].
    unfold oc_dunit in Nt. apply (ndl_app _ _ _ Nt). }
  clear Tk.
  destruct (u_body u) as [o ds|o ds|o gs ps|o e ds body|o e a|o items|o gs ds|o l g0 gm];
    cbn [asites_ubody add_ubody oc_ubody nids_ubody] in *; try contradiction.
  - (* package body *)
    assert (Hbody : forall inner obl,
      kprist x (GPkg (fun _ => []) inner obl) -> (k = 0 \/ k = 2 \/ (prist id_true inner /\ gprist id_true GE /\ ndl id_true (flat_map oc_decl ds))) ->
      (guard (negb (has_body GE lib (o_id o))) (o_nid o) Duplicate;;;
       G0 <- check_ctx GE LIBS (set_done (set_home (set_uid inner uid) None) []) (u_ctx u);;
       G1 <- check_decls md GE RBody obl G0 ds;;
       guard (forallb (fun ob => existsb (ob_eqb ob) (e_done G1)) obl) (o_nid o) Other;;;
       Ok {| g_lib := lib; g_name := o_id o; g_kind := GBody |}) = Ok g ->
      (guard (negb (has_body GE lib (o_id o))) (o_nid o) Duplicate;;;
       G0 <- check_ctx GE LIBS (set_done (set_home (set_uid inner uid) None) []) (u_ctx u);;
       G1 <- check_decls md GE RBody obl G0 (add_decls s m x k true ds);;
       guard (forallb (fun ob => existsb (ob_eqb ob) (e_done G1)) obl) (o_nid o) Other;;;
       Ok {| g_lib := lib; g_name := o_id o; g_kind := GBody |}) = Ok g).
    { intros inner obl [_ [Pi Hob]] Tk H'. bdes H' x0 H0. bdes H' G0 HG0. bdes H' G1 HG1. rewrite H0, HG0. cbn [bind].
      assert (P0 : prist x G0).
      { eapply (check_ctx_prist GE x GP); [exact HG0|]. eapply prist_same; [| |exact Pi]; reflexivity. }
      apply freshl_app in Fr. destruct Fr as [_ Fr].
      destruct (add_decls_ok md GE s m x k Hx0 Hxv RBody obl true ds G0 G1) as [G1' [HG1' [_ Hd]]]; try assumption.
      { left. tauto. }
      { destruct Tk as [Tk|[Tk|[Pt [Gt Nt]]]]; [left; exact Tk|right; left; exact Tk|]. right. right. split; [|exact Nt].
        eapply (check_ctx_prist GE id_true Gt); [exact HG0|]. eapply prist_same; [| |exact Pt]; reflexivity. }
      rewrite HG1'. cbn [bind]. rewrite <- Hd. exact H'. }
    destruct (if o_id o =? id_undeclared then None else find_unit GE lib (o_id o)) as [[ex inner obl| | | | |gens ex inner obl| |]|] eqn:Ef;
      try discriminate; destruct (o_id o =? id_undeclared); try discriminate.
    + apply Hbody; [|  |exact H].
      * apply (find_unit_prist GE x GP) in Ef. cbn [kprist] in *. tauto.
      * destruct Tk' as [Tk|[Tk|[Gt Nt]]]; [left; exact Tk|right; left; exact Tk|]. right. right.
        apply (find_unit_prist GE id_true Gt) in Ef. cbn [kprist] in Ef. split; [tauto|]. split; [exact Gt|apply (ndl_app _ _ _ Nt)].
    + apply Hbody; [|  |exact H].
      * apply (find_unit_prist GE x GP) in Ef. cbn [kprist] in *. tauto.
      * destruct Tk' as [Tk|[Tk|[Gt Nt]]]; [left; exact Tk|right; left; exact Tk|]. right. right.
        apply (find_unit_prist GE id_true Gt) in Ef. cbn [kprist] in Ef. split; [tauto|]. split; [exact Gt|apply (ndl_app _ _ _ Nt)].
  - (* architecture *)
    destruct (if o_id e =? id_undeclared then None else find_unit GE lib (o_id e)) as [[| gens ports inner | | | | | |]|] eqn:Ef;
      try discriminate.
    destruct (o_id e =? id_undeclared); [discriminate|].
    bdes H x0 H0. bdes H x1 H1. bdes H G0 HG0. bdes H G1 HG1. bdes H x2 H2. bdes H x3 H3. destruct x3.
    rewrite H0, H1, HG0. cbn [bind].
    assert (P0 : prist x G0).
    { eapply (check_ctx_prist GE x GP); [exact HG0|]. apply (find_unit_prist GE x GP) in Ef. cbn [kprist] in Ef.
      eapply prist_same; [| |exact Ef]; reflexivity. }
    apply freshl_app in Fr. destruct Fr as [_ Fr]. apply freshl_app in Fr. destruct Fr as [_ Fr].
    apply freshl_app in Fr. destruct Fr as [Frd Frb].
    apply NoDup_app_inv in Nd. destruct Nd as [_ [Nd _]].
    apply NoDup_app_inv in Nd. destruct Nd as [_ [Nd _]]. apply NoDup_app_inv in Nd. destruct Nd as [Nds [Nb Dj]].
    assert (Tc0 : tcond k G0 (flat_map oc_decl ds ++ oc_concs body)).
    { destruct Tk' as [Tk|[Tk|[Gt Nt]]]; [left; exact Tk|right; left; exact Tk|]. right. right. split.
      - eapply (check_ctx_prist GE id_true Gt); [exact HG0|]. apply (find_unit_prist GE id_true Gt) in Ef. cbn [kprist] in Ef.
        eapply prist_same; [| |exact Ef]; reflexivity.
      - apply ndl_app in Nt. destruct Nt as [_ Nt]. apply ndl_app in Nt. destruct Nt as [_ Nt]. exact Nt. }
    rewrite (proj2 (labels_add s m x k)).
    destruct (In_dec_N s (add_sites_decls ds)) as [Hds|Hds].
    + destruct (add_decls_ok md GE s m x k Hx0 Hxv RArch [] false ds G0 G1) as [G1' [HG1' [A _]]]; try assumption.
      { right. tauto. } { intros ob []. } { eapply tcond_app_l. exact Tc0. }
      rewrite HG1'. cbn [bind]. rewrite H2. cbn [bind]. rewrite (proj2 (add_concs_id s m x k)).
      2:{ intro Hin. apply (Dj s); [apply sites_decls_nids; exact Hds|apply (proj2 (sites_concs_nids s)); exact Hin]. }
      rewrite <- (check_concs_agree md GE [x] Qt (Qt_out x) (genv_good_true GE) G1 G1' body A) by assumption.
      rewrite H3. exact H.
    + rewrite add_decls_id by exact Hds. rewrite HG1. cbn [bind]. rewrite H2. cbn [bind].
      apply in_app_or in Hs. destruct Hs as [Hs|Hs]; [contradiction|].
      assert (P1 : prist x G1) by (eapply check_decls_prist; [exact HG1|apply freshl_ndl; assumption|exact P0]).
      assert (Tc1 : tcond k G1 (oc_concs body)) by (eapply tcond_decls; eassumption).
      rewrite (proj2 (add_concs_ok md GE s m x k Hx0 Hxv) body G1 Hs Nb Frb P1 Tc1 H3). exact H.
Qed.
