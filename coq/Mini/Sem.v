(* Mini/Sem.v — the REFERENCE static semantics of MiniVHDL (definitions only).

   A declarative-by-counting semantics: `interp` computes, bottom-up, the multiset of result types of all
   well-typed interpretations of an expression (LRM 12.5: overload resolution from the complete context); a
   complete context (`root`: the right-hand side of an assignment, an initial value, a condition, an actual
   of a port/generic map, an index, a return value, an aggregate element) is legal iff exactly one
   interpretation fits the expected type.  The checker walks a program in elaboration order and stops at the
   first position at which no rule applies, returning that node id and an error class (`blame`).

   Two deliberate restrictions make `Valid` a SUFFICIENT condition for LRM validity (they are reported with
   class `Conservative`/`Other`, never with a class of the fault catalogue):
   - no hiding: a declaration whose name is already visible from an enclosing region or a use clause is
     rejected; so is an overloadable declaration with the profile of a visible one;
   - units are analysed in program order: a unit may only refer to units that precede it.

   Environments are functions from identifiers to the visible bindings; everything the checker asks of an
   environment is pointwise, so two environments that agree on the identifiers a phrase mentions give the
   same verdict (Mini/MiniProofs.v, the agreement lemmas behind the rewrites). *)
From Coq Require Import List NArith Arith Bool.
Import ListNotations.
From RH Require Import Mini.Syntax.
Open Scope N_scope.

(* ------------------------------------------------------------------------------------------ *)
(* results                                                                                      *)
(* ------------------------------------------------------------------------------------------ *)
Inductive cls :=
| Undeclared          (* simple name without visible declaration                      -> Unresolved        *)
| Duplicate           (* second declaration of a name / profile in one region         -> Duplicate         *)
| TypeMismatch        (* literal / object / call result of the wrong type             -> TypeMismatch      *)
| NoOverload          (* call or operator for which no visible candidate fits         -> AmbiguousCall ... *)
| UnknownField        (* selected element that is no field of the record type         -> Unresolved        *)
| UnknownItem         (* lib.pkg.x / use lib.pkg.x without such declaration           -> Unresolved        *)
| UnknownLib          (* library clause naming no library                              -> Unresolved        *)
| UnknownUnit         (* no such primary unit in the library                           -> Unresolved        *)
| UnknownArch         (* no such architecture of the entity                            -> Unresolved        *)
| UnknownFormal       (* named association with a formal the unit does not have        -> Unresolved        *)
| MissingAssoc        (* formal without default left unassociated                      -> Unassociated      *)
| KindMismatch        (* signal assigned with := / variable assigned with <=           -> MismatchedKinds   *)
| Ambiguous           (* more than one interpretation                                                       *)
| Conservative        (* outside the fragment the reference accepts (hiding, ...)                           *)
| Other.              (* any other violation (assignment to a constant, missing body ...)                   *)

Inductive res (A : Type) := Ok (a : A) | Bad (n : nid) (c : cls).
Arguments Ok {A} a.
Arguments Bad {A} n c.

Definition bind {A B} (r : res A) (f : A -> res B) : res B :=
  match r with Ok a => f a | Bad n c => Bad n c end.
Notation "x <- r ;; k" := (bind r (fun x => k)) (at level 61, r at next level, right associativity).
Notation "r ;;; k" := (bind r (fun _ => k)) (at level 61, right associativity).
Definition guard (b : bool) (n : nid) (c : cls) : res unit := if b then Ok tt else Bad n c.

(* root criterion: Exactly = the LRM rule (one interpretation); AtLeast = well-typedness only (used to
   state erasure of typed syntax separately from unambiguity). *)
Inductive mode := Exactly | AtLeast.

(* ------------------------------------------------------------------------------------------ *)
(* semantic types, bindings                                                                     *)
(* ------------------------------------------------------------------------------------------ *)
Inductive sty :=
| SBool | SInt | SBit
| SChar                                        (* std.standard.character: '0' and '1' are also literals of it *)
| SUInt                                        (* universal_integer *)
| SErr                                         (* type mark that did not resolve *)
| SEnum (u : N) (n : ident) (lits : list ident) (* u: number of the declaring design unit *)
| SIntT (u : N) (n : ident)
| SRec (u : N) (n : ident) (fs : list (ident * sty))
| SArr (u : N) (n : ident) (len : N) (elem : sty).

Definition sty_eqb (a b : sty) : bool :=
  match a, b with
  | SBool, SBool | SInt, SInt | SBit, SBit | SChar, SChar | SUInt, SUInt | SErr, SErr => true
  | SEnum u n _, SEnum u' n' _ | SIntT u n, SIntT u' n'
  | SRec u n _, SRec u' n' _ | SArr u n _ _, SArr u' n' _ _ => (u =? u') && (n =? n')
  | _, _ => false
  end.
Definition is_int (t : sty) : bool :=
  match t with SInt | SUInt | SIntT _ _ => true | _ => false end.
Definition is_composite (t : sty) : bool :=
  match t with SRec _ _ _ | SArr _ _ _ _ => true | _ => false end.
(* an interpretation of type a is acceptable where type t is expected *)
Definition fits (t a : sty) : bool :=
  sty_eqb a t || (match a with SUInt => is_int t | _ => false end).
Definition count_fits (t : sty) (l : list sty) : nat := length (filter (fits t) l).

Record psig := PSig { ps_name : ident; ps_cls : ocls; ps_mode : omode; ps_ty : sty }.
Record isig := ISig { is_name : ident; is_mode : omode; is_ty : sty; is_def : bool }.

Inductive bkind :=
| BObj (c : ocls) (m : omode) (t : sty)
| BType (t : sty) (own : bool)     (* type (own = true) or subtype; t is the base type *)
| BDeferred (t : sty)              (* deferred constant before its full declaration: not yet usable *)
| BLit (t : sty)                   (* enumeration literal *)
| BFun (ps : list psig) (ret : sty)
| BProc (ps : list psig)
| BComp (gs ps : list isig).

(* home: the (library, package) a binding is exported from; None for declarations that are not package items *)
Record binding := Bnd { b_kind : bkind; b_home : option (ident * ident) }.

Definition ocls_eqb (a b : ocls) : bool :=
  match a, b with KConst, KConst | KSig, KSig | KVar, KVar => true | _, _ => false end.
Definition omode_eqb (a b : omode) : bool :=
  match a, b with MIn, MIn | MOut, MOut | MInOut, MInOut | MNone, MNone => true | _, _ => false end.
Definition profile_eqb (a b : list psig) : bool :=
  (length a =? length b)%nat && forallb (fun xy => sty_eqb (ps_ty (fst xy)) (ps_ty (snd xy))) (combine a b).
Definition overloadable (k : bkind) : bool :=
  match k with BLit _ | BFun _ _ | BProc _ => true | _ => false end.
(* same designator + same parameter and result type profile (LRM 4.5.1) *)
Definition same_profile (a b : bkind) : bool :=
  match a, b with
  | BLit t, BLit t' => sty_eqb t t'
  | BFun ps r, BFun ps' r' => profile_eqb ps ps' && sty_eqb r r'
  | BLit t, BFun ps r | BFun ps r, BLit t => match ps with [] => sty_eqb t r | _ => false end
  | BProc ps, BProc ps' => profile_eqb ps ps'
  | _, _ => false
  end.
Definition home_eqb (a b : option (ident * ident)) : bool :=
  match a, b with
  | None, None => true
  | Some (l, p), Some (l', p') => (l =? l') && (p =? p')
  | _, _ => false
  end.
(* the same declaration reached along two import paths *)
Definition same_decl (a b : binding) : bool :=
  home_eqb (b_home a) (b_home b) &&
  match b_kind a, b_kind b with
  | BObj _ _ _, BObj _ _ _ | BType _ _, BType _ _ | BComp _ _, BComp _ _ | BDeferred _, BDeferred _ => true
  | x, y => same_profile x y
  end.

(* ------------------------------------------------------------------------------------------ *)
(* environments                                                                                 *)
(* ------------------------------------------------------------------------------------------ *)
Definition fmap := ident -> list binding.
Definition fempty : fmap := fun _ => [].
Definition fadd (x : ident) (b : binding) (m : fmap) : fmap :=
  fun y => if y =? x then b :: m y else m y.
(* import: skip a declaration that is already visible *)
Definition fimport (x : ident) (b : binding) (m : fmap) : fmap :=
  fun y => if y =? x then (if existsb (same_decl b) (m y) then m y else b :: m y) else m y.
Fixpoint fimports (x : ident) (bs : list binding) (m : fmap) : fmap :=
  match bs with [] => m | b :: r => fimport x b (fimports x r m) end.

Record env := Env {
  e_vis : fmap;                       (* visible by simple name (all regions and use clauses)       *)
  e_cur : fmap;                       (* declared in the innermost declarative region                *)
  e_libs : ident -> bool;             (* library names made visible by library clauses               *)
  e_uid : N;                          (* number of the current design unit                           *)
  e_home : option (ident * ident);    (* Some (lib, pkg) while inside a package declaration          *)
  e_ret : option (option sty);        (* inside a function: Some (Some t); procedure: Some None      *)
  e_done : list (ident * list sty * option sty)   (* obligations of the package completed so far    *)
}.

Definition env0 (uid : N) : env :=
  Env (fadd id_true (Bnd (BLit SBool) None) (fadd id_false (Bnd (BLit SBool) None) fempty))
      fempty (fun _ => false) uid None None [].
Definition set_vis (G : env) v := Env v (e_cur G) (e_libs G) (e_uid G) (e_home G) (e_ret G) (e_done G).
Definition set_cur (G : env) c := Env (e_vis G) c (e_libs G) (e_uid G) (e_home G) (e_ret G) (e_done G).
Definition set_libs (G : env) l := Env (e_vis G) (e_cur G) l (e_uid G) (e_home G) (e_ret G) (e_done G).
Definition set_uid (G : env) u := Env (e_vis G) (e_cur G) (e_libs G) u (e_home G) (e_ret G) (e_done G).
Definition set_home (G : env) h := Env (e_vis G) (e_cur G) (e_libs G) (e_uid G) h (e_ret G) (e_done G).
Definition set_ret (G : env) r := Env (e_vis G) (e_cur G) (e_libs G) (e_uid G) (e_home G) r (e_done G).
Definition set_done (G : env) d := Env (e_vis G) (e_cur G) (e_libs G) (e_uid G) (e_home G) (e_ret G) d.
Definition push (G : env) : env := set_cur G fempty.
Definition add_lib (G : env) (l : ident) : env := set_libs G (fun y => (y =? l) || e_libs G y).
Definition bind_raw (G : env) (x : ident) (b : binding) : env :=
  Env (fadd x b (e_vis G)) (fadd x b (e_cur G)) (e_libs G) (e_uid G) (e_home G) (e_ret G) (e_done G).

(* declaration of x with kind k at node o: the duplicate rule of a region, and the no-hiding restriction *)
Definition clash (k : bkind) (b : binding) : bool :=
  negb (overloadable k && overloadable (b_kind b)) || same_profile k (b_kind b).
Definition declare (G : env) (o : occ) (k : bkind) : res env :=
  let x := o_id o in
  guard (negb (x =? id_undeclared)) (o_nid o) Conservative ;;;
  guard (negb (existsb (clash k) (e_cur G x))) (o_nid o) Duplicate ;;;
  guard (negb (existsb (clash k) (e_vis G x))) (o_nid o) Conservative ;;;
  Ok (bind_raw G x (Bnd k (e_home G))).
(* a deferred constant becomes an ordinary constant at its full declaration (and for the users of the package) *)
Definition undefer (b : binding) : binding :=
  match b_kind b with BDeferred t => Bnd (BObj KConst MNone t) (b_home b) | _ => b end.
Definition fcomplete (x : ident) (m : fmap) : fmap := fun y => if y =? x then map undefer (m y) else m y.
Definition complete_deferred (G : env) (x : ident) : env :=
  Env (fcomplete x (e_vis G)) (fcomplete x (e_cur G)) (e_libs G) (e_uid G) (e_home G) (e_ret G) (e_done G).
Definition undefer_all (m : fmap) : fmap := fun y => map undefer (m y).
(* the environment a declaration produces when the verdict is not of interest *)
Definition declare_env (G : env) (o : occ) (k : bkind) : env := bind_raw G (o_id o) (Bnd k (e_home G)).

(* ------------------------------------------------------------------------------------------ *)
(* the global environment: design units analysed so far                                         *)
(* ------------------------------------------------------------------------------------------ *)
Definition obligation := (ident * list sty * option sty)%type.  (* subprogram (name, parameter types, result); deferred constant (name, [], Some t) *)
Definition ob_eqb (a b : obligation) : bool :=
  match a, b with
  | (x, ps, r), (x', ps', r') =>
      (x =? x') && (length ps =? length ps')%nat && forallb (fun p => sty_eqb (fst p) (snd p)) (combine ps ps') &&
      match r, r' with Some t, Some t' => sty_eqb t t' | None, None => true | _, _ => false end
  end.

Inductive gkind :=
| GPkg (exports : fmap) (inner : env) (obl : list obligation)
| GEnt (gens ports : list isig) (inner : env)
| GArch (ent : ident)
| GCfg
| GCtx (items : list ctx_item)
| GGen (gens : list isig) (exports : fmap) (inner : env) (obl : list obligation)
| GInst (exports : fmap)
| GBody.
Record gentry := GEntry { g_lib : ident; g_name : ident; g_kind : gkind }.
Definition genv := list gentry.

Definition is_arch (k : gkind) : bool := match k with GArch _ | GBody => true | _ => false end.
(* primary units (and package instances) of a library share one name space *)
Fixpoint find_unit_ (G : genv) (l n : ident) : option gkind :=
  match G with
  | [] => None
  | g :: r => if (g_lib g =? l) && (g_name g =? n) && negb (is_arch (g_kind g)) then Some (g_kind g)
              else find_unit_ r l n
  end.
Definition find_unit (G : genv) (l n : ident) : option gkind :=
  if n =? id_undeclared then None else find_unit_ G l n.
Fixpoint find_arch_ (G : genv) (l e a : ident) : bool :=
  match G with
  | [] => false
  | g :: r => ((g_lib g =? l) && (g_name g =? a) &&
               match g_kind g with GArch e' => e' =? e | _ => false end) || find_arch_ r l e a
  end.
Definition find_arch (G : genv) (l e a : ident) : bool :=
  negb (a =? id_undeclared) && find_arch_ G l e a.
Definition exports_of (k : gkind) : option fmap :=
  match k with GPkg ex _ _ => Some ex | GInst ex => Some ex | _ => None end.

(* ------------------------------------------------------------------------------------------ *)
(* names, type marks                                                                            *)
(* ------------------------------------------------------------------------------------------ *)
Section WithGlobals.
Variable md : mode.
Variable GE : genv.

(* lib.pkg : the exported declarations of a package (or package instance) reached by a selected name *)
Definition sel_pkg (G : env) (l p : occ) : res fmap :=
  guard (negb (o_id l =? id_undeclared) && e_libs G (o_id l)) (o_nid l) Undeclared ;;;
  match find_unit GE (o_id l) (o_id p) with
  | Some k => match exports_of k with Some ex => Ok ex | None => Bad (o_nid p) UnknownUnit end
  | None => Bad (o_nid p) UnknownUnit
  end.
Definition sel_item (G : env) (l p o : occ) : res (list binding) :=
  ex <- sel_pkg G l p ;;
  match (if o_id o =? id_undeclared then [] else ex (o_id o)) with
  | [] => Bad (o_nid o) UnknownItem
  | bs => Ok bs
  end.
Definition vis (G : env) (x : ident) : list binding :=
  if x =? id_undeclared then [] else e_vis G x.
(* use clauses are not checked for conflicts when they are met: a name whose visible declarations conflict
   (LRM 12.4: they hide each other) is rejected where it is used *)
Fixpoint coherent (bs : list binding) : bool :=
  match bs with
  | [] => true
  | b :: r => negb (existsb (clash (b_kind b)) r) && coherent r
  end.
Definition vis_occ (G : env) (o : occ) : res (list binding) :=
  match vis G (o_id o) with
  | [] => Bad (o_nid o) Undeclared
  | bs => if coherent bs then Ok bs else Bad (o_nid o) Conservative
  end.

Definition type_of_bindings (bs : list binding) : option sty :=
  match bs with
  | [b] => match b_kind b with BType t _ => Some t | _ => None end
  | _ => None
  end.
Definition resolve_tmark (G : env) (t : tmark) : res sty :=
  match t with
  | TMBool => Ok SBool
  | TMInt => Ok SInt
  | TMBit => Ok SBit
  | TMName o => bs <- vis_occ G o ;;
                match type_of_bindings bs with Some t => Ok t | None => Bad (o_nid o) Other end
  | TMSel l p o => bs <- sel_item G l p o ;;
                   match type_of_bindings bs with Some t => Ok t | None => Bad (o_nid o) Other end
  end.
Definition tmark_ty (G : env) (t : tmark) : sty :=
  match resolve_tmark G t with Ok t => t | Bad _ _ => SErr end.

(* the predefined operators of a user-defined type are visible where its declaration is *)
Definition sty_name (t : sty) : option ident :=
  match t with SEnum _ n _ | SIntT _ n | SRec _ n _ | SArr _ n _ _ => Some n | _ => None end.
Definition ops_visible (G : env) (t : sty) : bool :=
  match sty_name t with
  | None => match t with SErr => false | _ => true end   (* predefined types *)
  | Some n => existsb (fun b => match b_kind b with BType t' true => sty_eqb t t' | _ => false end) (vis G n)
  end.

(* ------------------------------------------------------------------------------------------ *)
(* expressions                                                                                  *)
(* ------------------------------------------------------------------------------------------ *)
Definition head_nid_name (n : name) : nid :=
  match n with NId o => o_nid o | NSel _ _ o => o_nid o | NFld _ f => o_nid f | NIdx _ _ => 0 end.
Fixpoint root_nid_name (n : name) : nid :=
  match n with
  | NId o => o_nid o
  | NSel _ _ o => o_nid o
  | NFld n _ => root_nid_name n
  | NIdx n _ => root_nid_name n
  end.
Definition fname_occ (f : fname) : occ := match f with FId o => o | FSel _ _ o => o end.
Definition head_nid (e : expr) : nid :=
  match e with
  | EInt i _ | EBit i _ | EBin i _ _ _ | ENot i _ | EAgg i _ => i
  | ENam n => root_nid_name n
  | ECall f _ => o_nid (fname_occ f)
  | EQual t _ => match t with TMName o => o_nid o | TMSel _ _ o => o_nid o | _ => 0 end
  end.

(* a deferred constant must not be used before its full declaration (LRM 6.4.2.2) *)
Definition is_deferred (b : binding) : bool := match b_kind b with BDeferred _ => true | _ => false end.
Definition value_types (bs : list binding) : list sty :=
  flat_map (fun b => match b_kind b with BObj _ _ t => [t] | BLit t => [t] | _ => [] end) bs.
Definition obj_of_bindings (bs : list binding) : option (ocls * omode * sty) :=
  match bs with
  | [b] => match b_kind b with BObj c m t => Some (c, m, t) | _ => None end
  | _ => None
  end.
Definition funs_of (bs : list binding) : list (list psig * sty) :=
  flat_map (fun b => match b_kind b with BFun ps r => [(ps, r)] | _ => [] end) bs.
Definition procs_of (bs : list binding) : list (list psig) :=
  flat_map (fun b => match b_kind b with BProc ps => [ps] | _ => [] end) bs.

(* association of actuals with formals: positional actuals first, then named ones; every formal exactly once.
   `assoc_types fs al` = the list, in formal order, of the interpretations of the actual of each formal. *)
Definition is_pos {A} (a : choice * A) : bool := match fst a with ChPos => true | _ => false end.
Definition named_for {A} (x : ident) (al : list (choice * A)) : list A :=
  flat_map (fun a => match fst a with ChName o => if o_id o =? x then [snd a] else [] | _ => [] end) al.
Fixpoint split_pos {A} (al : list (choice * A)) : list A * list (choice * A) :=
  match al with
  | (ChPos, a) :: r => let (p, n) := split_pos r in (a :: p, n)
  | _ => ([], al)
  end.
(* named part: no positional, no `others`, formal names belong to the remaining formals, each once *)
Definition named_ok {A} (rest : list ident) (nl : list (choice * A)) : bool :=
  forallb (fun a => match fst a with
                    | ChName o => existsb (N.eqb (o_id o)) rest
                    | _ => false end) nl &&
  forallb (fun x => (length (named_for x nl) =? 1)%nat) rest &&
  (length nl =? length rest)%nat.
Definition assoc {A} (fs : list ident) (al : list (choice * A)) : option (list A) :=
  let (p, n) := split_pos al in
  if (length p <=? length fs)%nat && named_ok (skipn (length p) fs) n
  then Some (p ++ flat_map (fun x => named_for x n) (skipn (length p) fs))
  else None.

(* number of ways the actuals (given by the interpretations of each) fit the parameter types *)
Fixpoint ways (ts : list sty) (ais : list (list sty)) : nat :=
  match ts, ais with
  | [], [] => 1%nat
  | t :: ts', ai :: ais' => (count_fits t ai * ways ts' ais')%nat
  | _, _ => 0%nat
  end.
Definition call_ways (ps : list psig) (al : list (choice * list sty)) : nat :=
  match assoc (map ps_name ps) al with
  | Some ais => ways (map ps_ty ps) ais
  | None => 0%nat
  end.
Definition shape_ok (ps : list psig) (al : list (choice * list sty)) : bool :=
  match assoc (map ps_name ps) al with Some _ => true | None => false end.

(* operator candidates: the operand types that occur, restricted to types whose operators are visible *)
Fixpoint dedup (l : list sty) : list sty :=
  match l with
  | [] => []
  | t :: r => if existsb (sty_eqb t) r then dedup r else t :: dedup r
  end.
Definition is_discrete (t : sty) : bool :=
  is_int t || match t with SEnum _ _ _ | SBool | SBit | SChar => true | _ => false end.
Definition op_class_ok (op : binop) (t : sty) : bool :=
  match op with
  | OAnd | OOr => match t with SBool | SBit => true | _ => false end
  | OAdd | OSub | OMul => is_int t
  | OEq | ONe => match t with SErr => false | _ => true end
  (* ordering: scalar types and one-dimensional arrays of discrete elements (LRM 9.2.3) *)
  | OLt => is_discrete t || match t with SArr _ _ _ el => is_discrete el | _ => false end
  end.
Definition op_result (op : binop) (t : sty) : sty :=
  match op with OEq | ONe | OLt => SBool | _ => t end.
Definition op_types (G : env) (op : binop) (li ri : list sty) : list sty :=
  filter (fun t => op_class_ok op t && ops_visible G t &&
                   (* universal_integer only when both operands can be universal *)
                   match t with SUInt => existsb (sty_eqb SUInt) li && existsb (sty_eqb SUInt) ri | _ => true end)
         (dedup (li ++ ri)).
Definition op_interps (G : env) (op : binop) (li ri : list sty) : list sty :=
  flat_map (fun t => repeat (op_result op t) (count_fits t li * count_fits t ri)) (op_types G op li ri).

(* an aggregate as operand of an operator takes its type from the other operand, which must have exactly one
   composite type for which the operator is defined and visible (LRM 9.3.3.1: the type of an aggregate is
   determined from the context alone) *)
Definition is_aggregate (e : expr) : bool := match e with EAgg _ _ => true | _ => false end.
Definition agg_type (G : env) (op : binop) (li : list sty) : option sty :=
  match dedup (filter is_composite li) with
  | [t] => if op_class_ok op t && ops_visible G t then Some t else None
  | _ => None
  end.

Definition crit (n : nat) : bool :=
  match md with Exactly => (n =? 1)%nat | AtLeast => (1 <=? n)%nat end.

(* where and what to blame when no interpretation of e has the expected type: the callee / operator of a call
   that matches no overload, otherwise the literal or name itself *)
Definition blame_leaf (e : expr) : nid * cls :=
  match e with
  | EBin i _ _ _ => (i, NoOverload)
  | ECall f _ => (o_nid (fname_occ f), NoOverload)
  | _ => (head_nid e, TypeMismatch)
  end.

Fixpoint args_has_pos (a : args) : bool :=
  match a with ANil => false | ACons ChPos _ _ => true | ACons _ _ r => args_has_pos r end.
Definition only_subprograms (bs : list binding) : bool :=
  match bs with
  | [] => false
  | _ => forallb (fun b => match b_kind b with BFun _ _ | BProc _ => true | _ => false end) bs
  end.
Definition find_field (fs : list (ident * sty)) (f : occ) : option (ident * sty) :=
  find (fun x => fst x =? o_id f) (if o_id f =? id_undeclared then [] else fs).

(* complete context: e where type t is expected.  Parameterised by the functions of the recursive knot below
   (so that it can be used on sub-expressions inside it). *)
Definition root_gen
    (interp_ : expr -> res (list sty))
    (fields_ : nid -> list (ident * sty) -> list (ident * sty) -> args -> res unit)
    (elems_ : nid -> sty -> nat -> args -> res unit)
    (blame_ : sty -> expr -> nid * cls)
    (t : sty) (e : expr) : res unit :=
  match e with
  | EAgg i (ACons ChPos _ ANil) => Bad i Conservative     (* `(e)` is a parenthesised expression, not an aggregate *)
  | EAgg i els =>
      match t with
      | SRec _ _ fs => fields_ i fs fs els
      | SArr _ _ len el => elems_ i el (N.to_nat len) els
      | _ => Bad i TypeMismatch
      end
  | _ =>
      l <- interp_ e ;;
      match count_fits t l with
      | O => let (n, c) := blame_ t e in Bad n c
      | S O => Ok tt
      | _ => if crit 2 then Ok tt else Bad (head_nid e) Ambiguous
      end
  end.

Definition callee_bindings (G : env) (f : fname) : res (list binding) :=
  match f with
  | FId o => vis_occ G o
  | FSel l p o => sel_item G l p o
  end.

Fixpoint interp (G : env) (e : expr) {struct e} : res (list sty) :=
  match e with
  | EInt _ _ => Ok [SUInt]
  | EBit _ _ => Ok [SBit; SChar]
  | ENam n => interp_name G n
  | ECall f a =>
      bs <- callee_bindings G f ;;
      al <- interp_args G a ;;
      Ok (flat_map (fun c => repeat (snd c) (call_ways (fst c) al)) (funs_of bs))
  | EBin i op l r =>
      if is_aggregate r then
        if is_aggregate l then Ok [] else
        li <- interp G l ;;
        match agg_type G op li with
        | Some t => root_gen (interp G) (root_fields G) (root_elems G) (blame G) t r ;;; Ok [op_result op t]
        | None => Ok []
        end
      else if is_aggregate l then
        ri <- interp G r ;;
        match agg_type G op ri with
        | Some t => root_gen (interp G) (root_fields G) (root_elems G) (blame G) t l ;;; Ok [op_result op t]
        | None => Ok []
        end
      else
        li <- interp G l ;;
        ri <- interp G r ;;
        Ok (op_interps G op li ri)
  | ENot i e =>
      li <- interp G e ;;
      Ok (filter (fun t => match t with SBool | SBit => true | _ => false end) li)
  | EAgg i els => Ok []                      (* an aggregate is only legal as a complete context (see root) or as
                                                an operand of an operator (see EBin) *)
  | EQual t e =>
      ty <- resolve_tmark G t ;;
      root_gen (interp G) (root_fields G) (root_elems G) (blame G) ty e ;;;
      Ok [ty]
  end
with interp_name (G : env) (n : name) {struct n} : res (list sty) :=
  match n with
  | NId o => bs <- vis_occ G o ;; guard (negb (existsb is_deferred bs)) (o_nid o) Other ;;; Ok (value_types bs)
  | NSel l p o => bs <- sel_item G l p o ;; guard (negb (existsb is_deferred bs)) (o_nid o) Other ;;; Ok (value_types bs)
  | NFld n' f =>
      o <- obj_name G n' ;;
      match snd o with
      | SRec _ _ fs =>
          match find_field fs f with
          | Some x => Ok [snd x]
          | None => Bad (o_nid f) UnknownField
          end
      | _ => Bad (o_nid f) Other
      end
  | NIdx n' e =>
      o <- obj_name G n' ;;
      match snd o with
      | SArr _ _ _ el =>
          root_gen (interp G) (root_fields G) (root_elems G) (blame G) SInt e ;;; Ok [el]
      | _ => Bad (root_nid_name n') Other
      end
  end
(* a name that denotes (a part of) an object: class, mode, type *)
with obj_name (G : env) (n : name) {struct n} : res (ocls * omode * sty) :=
  match n with
  | NId o => bs <- vis_occ G o ;;
             match obj_of_bindings bs with Some x => Ok x | None => Bad (o_nid o) Other end
  | NSel l p o => bs <- sel_item G l p o ;;
                  match obj_of_bindings bs with Some x => Ok x | None => Bad (o_nid o) Other end
  | NFld n' f =>
      o <- obj_name G n' ;;
      match snd o with
      | SRec _ _ fs =>
          match find_field fs f with
          | Some x => Ok (fst o, snd x)
          | None => Bad (o_nid f) UnknownField
          end
      | _ => Bad (o_nid f) Other
      end
  | NIdx n' e =>
      o <- obj_name G n' ;;
      match snd o with
      | SArr _ _ _ el =>
          root_gen (interp G) (root_fields G) (root_elems G) (blame G) SInt e ;;; Ok (fst o, el)
      | _ => Bad (root_nid_name n') Other
      end
  end
with interp_args (G : env) (a : args) {struct a} : res (list (choice * list sty)) :=
  match a with
  | ANil => Ok []
  | ACons c e r =>
      x <- interp G e ;;
      y <- interp_args G r ;;
      Ok ((c, x) :: y)
  end
(* record aggregate: positional elements (in field order), then named ones (any order), then possibly `others`;
   every field exactly once *)
with root_fields (G : env) (i : nid) (all fs : list (ident * sty)) (els : args) {struct els} : res unit :=
  match els with
  | ANil => guard (match fs with [] => true | _ => false end) i Other
  | ACons ChPos e r =>
      match fs with
      | ft :: fs' =>
          root_gen (interp G) (root_fields G) (root_elems G) (blame G) (snd ft) e ;;;
          root_fields G i all fs' r
      | [] => Bad (head_nid e) Other
      end
  | ACons (ChName f) e r =>
      match find_field all f with
      | Some x =>
          guard (existsb (fun y => fst y =? o_id f) fs) (o_nid f) Other ;;;
          guard (negb (args_has_pos r)) (o_nid f) Conservative ;;;      (* no positional element after a named one *)
          root_gen (interp G) (root_fields G) (root_elems G) (blame G) (snd x) e ;;;
          root_fields G i all (filter (fun y => negb (fst y =? o_id f)) fs) r
      | None => Bad (o_nid f) UnknownField
      end
  (* `others` last: the remaining elements (at least one), which must all be of one type *)
  | ACons ChOthers e ANil =>
      match fs with
      | ft :: fs' =>
          guard (forallb (fun y => sty_eqb (snd y) (snd ft)) fs') (head_nid e) Other ;;;
          root_gen (interp G) (root_fields G) (root_elems G) (blame G) (snd ft) e
      | [] => Bad (head_nid e) Other
      end
  | ACons ChOthers e _ => Bad (head_nid e) Conservative
  end
(* array aggregate: exactly len positional elements, or a single `others => e` *)
with root_elems (G : env) (i : nid) (el : sty) (n : nat) (els : args) {struct els} : res unit :=
  match els with
  | ANil => guard (match n with O => true | _ => false end) i Other
  | ACons ChPos e r =>
      match n with
      | S n' =>
          root_gen (interp G) (root_fields G) (root_elems G) (blame G) el e ;;;
          root_elems G i el n' r
      | O => Bad (head_nid e) Other
      end
  | ACons ChOthers e ANil => root_gen (interp G) (root_fields G) (root_elems G) (blame G) el e
  | ACons _ e _ => Bad (head_nid e) Conservative
  end
(* For a call with exactly one candidate of fitting shape the (positional) actual that does not fit is blamed,
   recursively; if all fit, the call (its result type is wrong); with several candidates of which the actuals
   single one out, the call (result type); otherwise the callee: no overload matches. *)
with blame (G : env) (t : sty) (e : expr) {struct e} : nid * cls :=
  match e with
  | ECall f a =>
      match callee_bindings G f, interp_args G a with
      | Ok bs, Ok al =>
          match filter (fun c => shape_ok (fst c) al) (funs_of bs) with
          | [c] => blame_args G (map ps_ty (fst c)) a (o_nid (fname_occ f))
          | cs =>
              (* several candidates of fitting shape: if the actuals single one out, its result type is wrong *)
              match filter (fun c => negb (Nat.eqb (call_ways (fst c) al) 0)) cs with
              | [c] => (o_nid (fname_occ f), TypeMismatch)
              | _ => blame_leaf e
              end
          end
      | _, _ => blame_leaf e
      end
  (* a name that denotes only subprograms, used without an actual list: a call that matches no overload *)
  | ENam (NId o) => if only_subprograms (vis G (o_id o)) then (o_nid o, NoOverload) else blame_leaf e
  | ENam (NSel l p o) =>
      match sel_item G l p o with
      | Ok bs => if only_subprograms bs then (o_nid o, NoOverload) else blame_leaf e
      | Bad _ _ => blame_leaf e
      end
  | _ => blame_leaf e
  end
with blame_args (G : env) (ts : list sty) (a : args) (dflt : nid) {struct a} : nid * cls :=
  match a, ts with
  | ACons ChPos e r, t :: ts' =>
      match interp G e with
      | Ok l => match count_fits t l with
                | O => blame G t e
                | _ => blame_args G ts' r dflt
                end
      | Bad _ _ => (dflt, TypeMismatch)
      end
  | _, _ => (dflt, TypeMismatch)
  end.

Definition root (G : env) (t : sty) (e : expr) : res unit :=
  root_gen (interp G) (root_fields G) (root_elems G) (blame G) t e.

(* ------------------------------------------------------------------------------------------ *)
(* sequential statements                                                                        *)
(* ------------------------------------------------------------------------------------------ *)
Definition writable (m : omode) : bool := match m with MIn => false | _ => true end.

Definition check_target (G : env) (want : ocls) (t : name) : res sty :=
  o <- obj_name G t ;;
  match o with
  | (c, m, ty) =>
      guard (ocls_eqb c want || ocls_eqb c KConst) (root_nid_name t) KindMismatch ;;;
      guard (ocls_eqb c want && writable m) (root_nid_name t) Other ;;;
      Ok ty
  end.

(* actual of a procedure parameter / port of class signal or variable with mode out/inout: a writable object name *)
Definition actual_obj_ok (G : env) (p : psig) (e : expr) : bool :=
  match ps_cls p, ps_mode p with
  | KConst, _ => true
  | c, m =>
      match e with
      | ENam n => match obj_name G n with
                  | Ok (c', m', _) => ocls_eqb c c' && (match m with MIn => true | _ => writable m' end)
                  | Bad _ _ => false
                  end
      | _ => false
      end
  end.

Definition cchoice_key (c : cchoice) : N * N :=
  match c with CCLit o => (0, o_id o) | CCInt _ v => (1, v) end.
Definition key_eqb (a b : N * N) : bool := (fst a =? fst b) && (snd a =? snd b).
Fixpoint nodup_keys (l : list (N * N)) : bool :=
  match l with [] => true | k :: r => negb (existsb (key_eqb k) r) && nodup_keys r end.
Definition check_cchoice (G : env) (t : sty) (c : cchoice) : res unit :=
  match c with
  | CCLit o =>
      bs <- vis_occ G o ;;
      (* a choice must be a literal of the selector's type; an object of that type (a constant) is no type error
         but outside the fragment *)
      if existsb (fun b => match b_kind b with BLit t' => sty_eqb t t' | _ => false end) bs then Ok tt
      else if existsb (fits t) (value_types bs) then Bad (o_nid o) Conservative
      else if existsb is_deferred bs then Bad (o_nid o) Other       (* deferred constant before its full declaration *)
      else Bad (o_nid o) TypeMismatch
  | CCInt i _ => guard (is_int t) i TypeMismatch
  end.
Fixpoint check_list {A} (f : A -> res unit) (l : list A) : res unit :=
  match l with [] => Ok tt | x :: r => f x ;;; check_list f r end.

Fixpoint calts_choices (a : calts) : list cchoice :=
  match a with CANil => [] | CACons cs _ r => cs ++ calts_choices r end.

Fixpoint check_stmt (G : env) (s : stmt) {struct s} : res unit :=
  match s with
  | SSig i t e => ty <- check_target G KSig t ;; root G ty e
  | SVar i t e => ty <- check_target G KVar t ;; root G ty e
  | SIf i c th el => root G SBool c ;;; check_stmts G th ;;; check_stmts G el
  | SCase i sel alts oth =>
      o <- obj_name G sel ;;
      guard (match snd o with SEnum _ _ _ | SInt | SIntT _ _ | SBool | SBit => true | _ => false end) (root_nid_name sel) Other ;;;
      guard (nodup_keys (map cchoice_key (calts_choices alts))) i Conservative ;;;
      check_calts G (snd o) alts ;;;
      check_stmts G oth
  | SFor i v lo hi b =>
      G' <- declare (push G) v (BObj KConst MNone SInt) ;;
      check_stmts G' b
  | SWhile i c b => root G SBool c ;;; check_stmts G b
  | SCall f a =>
      bs <- match f with
            | FId o => vis_occ G o
            | FSel l p o => sel_item G l p o
            end ;;
      al <- interp_args G a ;;
      match filter (fun ps => negb (Nat.eqb (call_ways ps al) 0)) (procs_of bs) with
      | [] => Bad (o_nid (fname_occ f)) NoOverload
      | [ps] =>
          guard (crit (call_ways ps al)) (o_nid (fname_occ f)) Ambiguous ;;;
          match assoc (map ps_name ps) (args_list a) with
          | Some es => guard (forallb (fun pe => actual_obj_ok G (fst pe) (snd pe)) (combine ps es))
                             (o_nid (fname_occ f)) Other
          | None => Bad (o_nid (fname_occ f)) Other
          end
      | ps :: _ => if crit 2 then Ok tt else Bad (o_nid (fname_occ f)) Ambiguous
      end
  | SRet i e =>
      match e_ret G, e with
      | Some (Some t), Some e => root G t e
      | Some None, None => Ok tt
      | _, _ => Bad i Other
      end
  | SNull _ => Ok tt
  end
with check_stmts (G : env) (s : stmts) {struct s} : res unit :=
  match s with
  | SNil => Ok tt
  | SCons x r => check_stmt G x ;;; check_stmts G r
  end
with check_calts (G : env) (t : sty) (a : calts) {struct a} : res unit :=
  match a with
  | CANil => Ok tt
  | CACons cs b r =>
      check_list (check_cchoice G t) cs ;;;
      check_stmts G b ;;;
      check_calts G t r
  end.

(* ------------------------------------------------------------------------------------------ *)
(* declarations                                                                                 *)
(* ------------------------------------------------------------------------------------------ *)
Inductive region := RPkg | RBody | RArch | RGen.

Definition check_oinit (G : env) (t : sty) (e : option expr) : res unit :=
  match e with Some e => root G t e | None => Ok tt end.

Definition check_ldecl (G : env) (d : ldecl) : res env :=
  match d with
  | LVar o t i => ty <- resolve_tmark G t ;; check_oinit G ty i ;;; declare G o (BObj KVar MNone ty)
  | LConst o t i => ty <- resolve_tmark G t ;; root G ty i ;;; declare G o (BObj KConst MNone ty)
  end.
Fixpoint check_ldecls (G : env) (ds : list ldecl) : res env :=
  match ds with [] => Ok G | d :: r => G' <- check_ldecl G d ;; check_ldecls G' r end.

Definition param_sig (G : env) (p : param) : psig :=
  PSig (o_id (p_occ p)) (p_cls p) (p_mode p) (tmark_ty G (p_ty p)).
Definition check_param_types (G : env) (ps : list param) : res unit :=
  check_list (fun p => resolve_tmark G (p_ty p) ;;; Ok tt) ps.
(* functions: constants of mode in; procedures: constants in, variables/signals out or inout *)
Definition param_ok (isfun : bool) (p : param) : bool :=
  match p_cls p, p_mode p with
  | KConst, MIn => true
  | KVar, MOut | KVar, MInOut | KSig, MOut | KSig, MInOut => negb isfun
  | _, _ => false
  end.
Fixpoint declare_params (G : env) (ps : list param) : res env :=
  match ps with
  | [] => Ok G
  | p :: r => G' <- declare G (p_occ p) (BObj (p_cls p) (p_mode p) (tmark_ty G (p_ty p))) ;; declare_params G' r
  end.

Definition iface_sig (G : env) (i : iface) : isig :=
  ISig (o_id (i_occ i)) (i_mode i) (tmark_ty G (i_ty i)) (match i_def i with Some _ => true | None => false end).
(* interface list of an entity / component / generic package: declared in order into G *)
Fixpoint declare_ifaces (c : ocls) (G : env) (l : list iface) : res env :=
  match l with
  | [] => Ok G
  | i :: r =>
      ty <- resolve_tmark G (i_ty i) ;;
      check_oinit G ty (i_def i) ;;;
      guard (match c, i_mode i with KConst, MIn | KSig, MIn | KSig, MOut | KSig, MInOut => true | _, _ => false end)
            (o_nid (i_occ i)) Other ;;;
      G' <- declare G (i_occ i) (BObj c (i_mode i) ty) ;;
      declare_ifaces c G' r
  end.

Definition mk_tydef (G : env) (o : occ) (d : tydef) : sty :=
  match d with
  | TDEnum lits => SEnum (e_uid G) (o_id o) (map o_id lits)
  | TDInt _ _ => SIntT (e_uid G) (o_id o)
  | TDRec fs => SRec (e_uid G) (o_id o) (map (fun f => (o_id (fst f), tmark_ty G (snd f))) fs)
  | TDArr len t => SArr (e_uid G) (o_id o) len (tmark_ty G t)
  end.
Fixpoint declare_lits (G : env) (t : sty) (lits : list occ) : res env :=
  match lits with
  | [] => Ok G
  | l :: r => G' <- declare G l (BLit t) ;; declare_lits G' t r
  end.
Fixpoint nodup_idents (l : list ident) : bool :=
  match l with [] => true | x :: r => negb (existsb (N.eqb x) r) && nodup_idents r end.

Definition ob_of_sub (x : ident) (ps : list psig) (r : option sty) : obligation := (x, map ps_ty ps, r).

Definition allowed (r : region) (d : decl) : bool :=
  match d, r with
  | DType _ _, RGen | DSubtype _ _ _, RGen | DComp _ _ _, RGen | DSignal _ _ _, RGen => false
  | DSignal _ _ _, RBody => false
  | DConst _ _ None, RPkg | DConst _ _ None, RGen => true
  | DConst _ _ None, _ => false
  | DFunDecl _ _ _, RPkg | DFunDecl _ _ _, RGen | DProcDecl _ _, RPkg | DProcDecl _ _, RGen => true
  | DFunDecl _ _ _, _ | DProcDecl _ _, _ => false
  | DFunBody _ _ _ _ _, RPkg | DFunBody _ _ _ _ _, RGen | DProcBody _ _ _ _, RPkg | DProcBody _ _ _ _, RGen => false
  | _, _ => true
  end.
Definition decl_occ (d : decl) : occ :=
  match d with
  | DType o _ | DSubtype o _ _ | DConst o _ _ | DSignal o _ _ | DFunDecl o _ _ | DProcDecl o _
  | DFunBody o _ _ _ _ | DProcBody o _ _ _ | DComp o _ _ => o
  end.

(* body of a subprogram: parameters and locals in a new region *)
(* inside a subprogram body the signals and variables declared outside it are not referred to (LRM 4.3: pure
   functions; procedures outside processes must not assign other signals): they are simply not visible *)
Definition pure_view (G : env) : env :=
  set_vis G (fun x => filter (fun b => match b_kind b with BObj KSig _ _ | BObj KVar _ _ => false | _ => true end) (e_vis G x)).
Definition check_sub_body (G : env) (ps : list param) (ret : option sty) (ls : list ldecl) (b : stmts) : res unit :=
  G1 <- declare_params (set_ret (push (pure_view G)) (Some ret)) ps ;;
  G2 <- check_ldecls G1 ls ;;
  check_stmts G2 b.

(* `obl`: the obligations of the package whose body is being analysed ([] elsewhere) *)
Definition check_decl (r : region) (obl : list obligation) (G : env) (d : decl) : res env :=
  guard (allowed r d) (o_nid (decl_occ d)) Conservative ;;;
  match d with
  | DType o td =>
      let t := mk_tydef G o td in
      match td with
      | TDEnum lits =>
          guard (match lits with [] => false | _ => true end) (o_nid o) Other ;;;
          G' <- declare G o (BType t true) ;; declare_lits G' t lits
      | TDInt lo hi => guard (lo <=? hi) (o_nid o) Other ;;; declare G o (BType t true)
      | TDRec fs =>
          guard (match fs with [] => false | _ => true end) (o_nid o) Other ;;;
          check_list (fun f => resolve_tmark G (snd f) ;;;
                               guard (negb (o_id (fst f) =? id_undeclared)) (o_nid (fst f)) Conservative) fs ;;;
          guard (nodup_idents (map (fun f => o_id (fst f)) fs)) (o_nid o) Duplicate ;;;
          declare G o (BType t true)
      | TDArr len el =>
          guard (1 <=? len) (o_nid o) Other ;;;
          resolve_tmark G el ;;; declare G o (BType t true)
      end
  | DSubtype o t rng =>
      ty <- resolve_tmark G t ;;
      guard (match rng with Some (lo, hi) => is_int ty && (lo <=? hi) | None => true end) (o_nid o) Other ;;;
      declare G o (BType ty false)
  | DConst o t (Some e) =>
      ty <- resolve_tmark G t ;;
      root G ty e ;;;
      if existsb (ob_eqb (o_id o, [], Some ty)) obl
      then guard (negb (existsb (ob_eqb (o_id o, [], Some ty)) (e_done G))) (o_nid o) Duplicate ;;;
           Ok (complete_deferred (set_done G ((o_id o, [], Some ty) :: e_done G)) (o_id o))
      else declare G o (BObj KConst MNone ty)
  | DConst o t None =>
      ty <- resolve_tmark G t ;; declare G o (BDeferred ty)
  | DSignal o t i =>
      ty <- resolve_tmark G t ;; check_oinit G ty i ;;; declare G o (BObj KSig MNone ty)
  | DFunDecl o ps rt =>
      check_param_types G ps ;;;
      ty <- resolve_tmark G rt ;;
      guard (forallb (param_ok true) ps && match ps with [] => false | _ => true end) (o_nid o) Conservative ;;;
      declare G o (BFun (map (param_sig G) ps) ty)
  | DProcDecl o ps =>
      check_param_types G ps ;;;
      guard (forallb (param_ok false) ps) (o_nid o) Conservative ;;;
      declare G o (BProc (map (param_sig G) ps))
  | DFunBody o ps rt ls b =>
      check_param_types G ps ;;;
      ty <- resolve_tmark G rt ;;
      guard (forallb (param_ok true) ps && match ps with [] => false | _ => true end) (o_nid o) Conservative ;;;
      let sg := map (param_sig G) ps in
      let ob := ob_of_sub (o_id o) sg (Some ty) in
      G' <- (if existsb (ob_eqb ob) obl
             then guard (negb (existsb (ob_eqb ob) (e_done G))) (o_nid o) Duplicate ;;;
                  Ok (set_done G (ob :: e_done G))
             else declare G o (BFun sg ty)) ;;
      check_sub_body G' ps (Some ty) ls b ;;;
      Ok G'
  | DProcBody o ps ls b =>
      check_param_types G ps ;;;
      guard (forallb (param_ok false) ps) (o_nid o) Conservative ;;;
      let sg := map (param_sig G) ps in
      let ob := ob_of_sub (o_id o) sg None in
      G' <- (if existsb (ob_eqb ob) obl
             then guard (negb (existsb (ob_eqb ob) (e_done G))) (o_nid o) Duplicate ;;;
                  Ok (set_done G (ob :: e_done G))
             else declare G o (BProc sg)) ;;
      check_sub_body G' ps None ls b ;;;
      Ok G'
  | DComp o gs ps =>
      (* the interface lists are declared in a region of their own; only their signature is kept *)
      Gg <- declare_ifaces KConst (push G) gs ;;
      Gp <- declare_ifaces KSig Gg ps ;;
      declare G o (BComp (map (iface_sig G) gs) (map (iface_sig G) ps))
  end.
Fixpoint check_decls (r : region) (obl : list obligation) (G : env) (ds : list decl) : res env :=
  match ds with [] => Ok G | d :: rest => G' <- check_decl r obl G d ;; check_decls r obl G' rest end.

(* obligations a package declaration creates *)
Definition decl_obligation (G : env) (d : decl) : list obligation :=
  match d with
  | DConst o t None => [(o_id o, [], Some (tmark_ty G t))]
  | DFunDecl o ps rt => [ob_of_sub (o_id o) (map (param_sig G) ps) (Some (tmark_ty G rt))]
  | DProcDecl o ps => [ob_of_sub (o_id o) (map (param_sig G) ps) None]
  | _ => []
  end.

(* ------------------------------------------------------------------------------------------ *)
(* concurrent statements                                                                        *)
(* ------------------------------------------------------------------------------------------ *)
(* association list of an instantiation.  unit_nid: the node blamed for a missing association. *)
Definition assoc_formal_names (m : amap) : list (choice * actual) :=
  map (fun a => (match fst a with Some o => ChName o | None => ChPos end, snd a)) m.
Fixpoint first_unknown_formal (fs : list ident) (m : amap) : option nid :=
  match m with
  | [] => None
  | (Some o, _) :: r =>
      if negb (o_id o =? id_undeclared) && existsb (N.eqb (o_id o)) fs then first_unknown_formal fs r else Some (o_nid o)
  | (None, _) :: r => first_unknown_formal fs r
  end.
(* the actual associated with formal number k named x: positional k-th if the positional prefix reaches it *)
Definition actual_for (m : amap) (k : nat) (x : ident) : list actual :=
  let (p, n) := split_pos (assoc_formal_names m) in
  match nth_error p k with
  | Some a => [a]
  | None => named_for x n
  end.
Definition check_port_actual (G : env) (f : isig) (a : actual) : res unit :=
  match a with
  | AOpen i => guard (match is_mode f with MIn => is_def f | _ => true end) i Other
  | AExpr (ENam n) =>
      o <- obj_name G n ;;
      match o with
      | (c, m, t) =>
          guard (ocls_eqb c KSig) (root_nid_name n) Other ;;;
          guard (sty_eqb t (is_ty f)) (root_nid_name n) TypeMismatch ;;;
          guard (match is_mode f with MIn => true | _ => writable m end) (root_nid_name n) Other
      end
  | AExpr e => Bad (head_nid e) Conservative
  end.
Definition check_generic_actual (G : env) (f : isig) (a : actual) : res unit :=
  match a with
  | AOpen i => guard (is_def f) i Other
  | AExpr e => root G (is_ty f) e
  end.
Fixpoint check_formals (chk : isig -> actual -> res unit) (unit_nid : nid) (m : amap) (k : nat) (fs : list isig) : res unit :=
  match fs with
  | [] => Ok tt
  | f :: r =>
      match actual_for m k (is_name f) with
      | [a] => chk f a
      | [] => guard (is_def f || match is_mode f with MOut | MInOut => true | _ => false end) unit_nid MissingAssoc
      | _ => Bad unit_nid Other
      end ;;;
      check_formals chk unit_nid m (S k) r
  end.
Definition positional_count (m : amap) : nat := length (fst (split_pos (assoc_formal_names m))).
Definition check_amap (chk : isig -> actual -> res unit) (unit_nid : nid) (fs : list isig) (m : amap) : res unit :=
  match first_unknown_formal (map is_name fs) m with
  | Some n => Bad n UnknownFormal
  | None =>
      (* positional after named, or more positional actuals than formals *)
      guard (forallb (fun a => match fst a with Some _ => true | None => false end) (skipn (positional_count m) m)
             && (positional_count m <=? length fs)%nat
             (* no formal associated both positionally and by name *)
             && forallb (fun a => match fst a with
                                  | Some o => negb (existsb (N.eqb (o_id o)) (firstn (positional_count m) (map is_name fs)))
                                  | None => true end) m) unit_nid Other ;;;
      check_formals chk unit_nid m 0 fs
  end.

Fixpoint labels_conc (c : conc) : list ident :=
  match c with
  | CProc l _ _ _ | CAssign l _ _ | CInstE l _ _ _ _ _ | CInstC l _ _ _ => [o_id l]
  | CBlock l _ b => o_id l :: labels_concs b
  end
with labels_concs (c : concs) : list ident :=
  match c with CNil => [] | CCons x r => labels_conc x ++ labels_concs r end.

Definition check_sens (G : env) (n : name) : res unit :=
  o <- obj_name G n ;;
  guard (ocls_eqb (fst (fst o)) KSig) (root_nid_name n) Other.

Fixpoint check_conc (G : env) (c : conc) {struct c} : res unit :=
  match c with
  | CProc lbl sens ls b =>
      check_list (check_sens G) sens ;;;
      G' <- check_ldecls (push G) ls ;;
      check_stmts G' b
  | CAssign lbl t e => ty <- check_target G KSig t ;; root G ty e
  | CBlock lbl ds b =>
      G' <- check_decls RArch [] (push G) ds ;;
      check_concs G' b
  | CInstE lbl l e a gm pm =>
      guard (negb (o_id l =? id_undeclared) && e_libs G (o_id l)) (o_nid l) Undeclared ;;;
      match find_unit GE (o_id l) (o_id e) with
      | Some (GEnt gs ps _) =>
          match a with
          | Some a => guard (negb (o_id a =? id_undeclared) && find_arch GE (o_id l) (o_id e) (o_id a)) (o_nid a) UnknownArch
          | None => Ok tt
          end ;;;
          check_amap (check_generic_actual G) (o_nid e) gs gm ;;;
          check_amap (check_port_actual G) (o_nid e) ps pm
      | _ => Bad (o_nid e) UnknownUnit
      end
  | CInstC lbl c gm pm =>
      bs <- vis_occ G c ;;
      match bs with
      | [b] => match b_kind b with
               | BComp gs ps =>
                   check_amap (check_generic_actual G) (o_nid c) gs gm ;;;
                   check_amap (check_port_actual G) (o_nid c) ps pm
               | _ => Bad (o_nid c) Other
               end
      | _ => Bad (o_nid c) Other
      end
  end
with check_concs (G : env) (c : concs) {struct c} : res unit :=
  match c with
  | CNil => Ok tt
  | CCons x r => check_conc G x ;;; check_concs G r
  end.

End WithGlobals.

(* ------------------------------------------------------------------------------------------ *)
(* context clauses                                                                              *)
(* ------------------------------------------------------------------------------------------ *)
Definition import_all (ex : fmap) (m : fmap) : fmap := fun y => fimports y (ex y) m y.
Definition only_lits (bs : list binding) : list binding :=
  filter (fun b => match b_kind b with BLit _ => true | _ => false end) bs.
Definition lits_of_bindings (bs : list binding) : list ident :=
  flat_map (fun b => match b_kind b with BType (SEnum _ _ lits) true => lits | _ => [] end) bs.
(* `use l.p.x`: the declarations named x and, for an enumeration type, its literals (VHDL-2008 12.4; the
   predefined operators follow the type, see ops_visible) *)
Definition import_item (ex : fmap) (x : ident) (m : fmap) : fmap :=
  let lits := lits_of_bindings (ex x) in
  fun y => if y =? x then fimports x (ex x) m y
           else if existsb (N.eqb y) lits then fimports y (only_lits (ex y)) m y
           else m y.

Definition check_ctx_basic (GE : genv) (LIBS : list ident) (G : env) (x : ctx_item) : res env :=
  match x with
  | XLib l =>
      guard (negb (o_id l =? id_undeclared) && existsb (N.eqb (o_id l)) LIBS) (o_nid l) UnknownLib ;;;
      Ok (add_lib G (o_id l))
  | XUseAll l p => ex <- sel_pkg GE G l p ;; Ok (set_vis G (import_all ex (e_vis G)))
  | XUseItem l p x =>
      ex <- sel_pkg GE G l p ;;
      sel_item GE G l p x ;;;
      Ok (set_vis G (import_item ex (o_id x) (e_vis G)))
  | XCtxRef l c => Bad (o_nid c) Conservative
  end.
Fixpoint check_ctx_basics (GE : genv) (LIBS : list ident) (G : env) (xs : list ctx_item) : res env :=
  match xs with [] => Ok G | x :: r => G' <- check_ctx_basic GE LIBS G x ;; check_ctx_basics GE LIBS G' r end.
Definition check_ctx_item (GE : genv) (LIBS : list ident) (G : env) (x : ctx_item) : res env :=
  match x with
  | XCtxRef l c =>
      guard (negb (o_id l =? id_undeclared) && e_libs G (o_id l)) (o_nid l) Undeclared ;;;
      match find_unit GE (o_id l) (o_id c) with
      | Some (GCtx items) =>
          match check_ctx_basics GE LIBS G items with
          | Ok G' => Ok G'
          | Bad _ _ => Bad (o_nid c) Other
          end
      | _ => Bad (o_nid c) UnknownUnit
      end
  | _ => check_ctx_basic GE LIBS G x
  end.
Fixpoint check_ctx (GE : genv) (LIBS : list ident) (G : env) (xs : list ctx_item) : res env :=
  match xs with [] => Ok G | x :: r => G' <- check_ctx_item GE LIBS G x ;; check_ctx GE LIBS G' r end.

(* ------------------------------------------------------------------------------------------ *)
(* design units                                                                                 *)
(* ------------------------------------------------------------------------------------------ *)
Definition rehome (h : ident * ident) (ex : fmap) : fmap :=
  fun y => map (fun b => Bnd (b_kind b) (Some h)) (ex y).
Fixpoint has_body (G : genv) (l n : ident) : bool :=
  match G with
  | [] => false
  | g :: r => ((g_lib g =? l) && (g_name g =? n) && match g_kind g with GBody => true | _ => false end) || has_body r l n
  end.
Definition fresh_unit (GE : genv) (lib : ident) (o : occ) : res unit :=
  guard (negb (o_id o =? id_undeclared)) (o_nid o) Conservative ;;;
  guard (match find_unit GE lib (o_id o) with None => true | Some _ => false end) (o_nid o) Duplicate.

(* analysis of one design unit of library `lib`, number `uid`: the entry it adds to the global environment *)
Definition check_unit (md : mode) (GE : genv) (LIBS : list ident) (lib : ident) (uid : N) (u : dunit) : res gentry :=
  match u_body u with
  | UPkg o ds =>
      fresh_unit GE lib o ;;;
      G0 <- check_ctx GE LIBS (env0 uid) (u_ctx u) ;;
      G1 <- check_decls md GE RPkg [] (set_home G0 (Some (lib, o_id o))) ds ;;
      Ok (GEntry lib (o_id o) (GPkg (undefer_all (e_cur G1)) G1 (flat_map (decl_obligation GE G1) ds)))
  | UGen o gs ds =>
      fresh_unit GE lib o ;;;
      G0 <- check_ctx GE LIBS (env0 uid) (u_ctx u) ;;
      Gg <- declare_ifaces md GE KConst (set_home G0 (Some (lib, o_id o))) gs ;;
      G1 <- check_decls md GE RGen [] Gg ds ;;
      (* the generics are not among the declarations an instance exports *)
      Ok (GEntry lib (o_id o) (GGen (map (iface_sig GE Gg) gs)
                                    (fun y => if existsb (fun i => o_id (i_occ i) =? y) gs then [] else undefer_all (e_cur G1) y)
                                    G1 (flat_map (decl_obligation GE G1) ds)))
  | UBody o ds =>
      match (if o_id o =? id_undeclared then None else find_unit GE lib (o_id o)) with
      | Some (GPkg _ inner obl) | Some (GGen _ _ inner obl) =>
          guard (negb (has_body GE lib (o_id o))) (o_nid o) Duplicate ;;;
          G0 <- check_ctx GE LIBS (set_done (set_home (set_uid inner uid) None) []) (u_ctx u) ;;
          G1 <- check_decls md GE RBody obl G0 ds ;;
          guard (forallb (fun ob => existsb (ob_eqb ob) (e_done G1)) obl) (o_nid o) Other ;;;
          Ok (GEntry lib (o_id o) GBody)
      | _ => Bad (o_nid o) UnknownUnit
      end
  | UEnt o gs ps =>
      fresh_unit GE lib o ;;;
      G0 <- check_ctx GE LIBS (env0 uid) (u_ctx u) ;;
      Gg <- declare_ifaces md GE KConst G0 gs ;;
      Gp <- declare_ifaces md GE KSig Gg ps ;;
      Ok (GEntry lib (o_id o) (GEnt (map (iface_sig GE Gp) gs) (map (iface_sig GE Gp) ps) Gp))
  | UArch o e ds body =>
      match (if o_id e =? id_undeclared then None else find_unit GE lib (o_id e)) with
      | Some (GEnt _ _ inner) =>
          guard (negb (o_id o =? id_undeclared)) (o_nid o) Conservative ;;;
          guard (negb (find_arch GE lib (o_id e) (o_id o))) (o_nid o) Duplicate ;;;
          G0 <- check_ctx GE LIBS (set_uid inner uid) (u_ctx u) ;;
          G1 <- check_decls md GE RArch [] G0 ds ;;
          guard (nodup_idents (labels_concs body)) (o_nid o) Conservative ;;;
          check_concs md GE G1 body ;;;
          Ok (GEntry lib (o_id o) (GArch (o_id e)))
      | _ => Bad (o_nid e) UnknownUnit
      end
  | UCfg o e a =>
      fresh_unit GE lib o ;;;
      check_ctx GE LIBS (env0 uid) (u_ctx u) ;;;
      match (if o_id e =? id_undeclared then None else find_unit GE lib (o_id e)) with
      | Some (GEnt _ _ _) =>
          guard (negb (o_id a =? id_undeclared) && find_arch GE lib (o_id e) (o_id a)) (o_nid a) UnknownArch ;;;
          Ok (GEntry lib (o_id o) GCfg)
      | _ => Bad (o_nid e) UnknownUnit
      end
  | UCtx o items =>
      fresh_unit GE lib o ;;;
      guard (match u_ctx u with [] => true | _ => false end) (o_nid o) Conservative ;;;
      check_ctx_basics GE LIBS (env0 uid) items ;;;
      Ok (GEntry lib (o_id o) (GCtx items))
  | UInst o l g gm =>
      fresh_unit GE lib o ;;;
      G0 <- check_ctx GE LIBS (env0 uid) (u_ctx u) ;;
      guard (negb (o_id l =? id_undeclared) && e_libs G0 (o_id l)) (o_nid l) Undeclared ;;;
      match (if o_id g =? id_undeclared then None else find_unit GE (o_id l) (o_id g)) with
      | Some (GGen gs ex _ obl) =>
          guard (match obl with [] => true | _ => has_body GE (o_id l) (o_id g) end) (o_nid g) Other ;;;
          check_amap (check_generic_actual md GE G0) (o_nid g) gs gm ;;;
          Ok (GEntry lib (o_id o) (GInst (rehome (lib, o_id o) ex)))
      | _ => Bad (o_nid g) UnknownUnit
      end
  end.

Fixpoint check_units (md : mode) (GE : genv) (LIBS : list ident) (lib : ident) (uid : N) (us : list dunit) : res (genv * N) :=
  match us with
  | [] => Ok (GE, uid)
  | u :: r =>
      g <- check_unit md GE LIBS lib uid u ;;
      check_units md (GE ++ [g]) LIBS lib (uid + 1) r
  end.
Fixpoint check_libs (md : mode) (GE : genv) (LIBS : list ident) (uid : N) (ls : list library) : res genv :=
  match ls with
  | [] => Ok GE
  | l :: r =>
      x <- check_units md GE LIBS (l_name l) uid (l_units l) ;;
      check_libs md (fst x) LIBS (snd x) r
  end.
(* every package (declaration) with obligations has a body *)
Definition complete (GE : genv) : bool :=
  forallb (fun g => match g_kind g with
                    | GPkg _ _ (_ :: _) | GGen _ _ _ (_ :: _) => has_body GE (g_lib g) (g_name g)
                    | _ => true end) GE.
Definition check_program_md (md : mode) (p : program) : res unit :=
  let LIBS := map l_name p in
  guard (nodup_idents LIBS && negb (existsb (N.eqb id_undeclared) LIBS)) 0 Other ;;;
  GE <- check_libs md [] LIBS 0 p ;;
  guard (complete GE) 0 Other.

Definition check_program := check_program_md Exactly.
Definition Valid (p : program) : Prop := check_program p = Ok tt.
Definition WT (p : program) : Prop := check_program_md AtLeast p = Ok tt.
Definition valid_b (p : program) : bool := match check_program p with Ok _ => true | Bad _ _ => false end.
Definition blame_program (p : program) : option (nid * cls) :=
  match check_program p with Ok _ => None | Bad n c => Some (n, c) end.
