(* Mini/ProofsAgreeSwap.v — helper of Mini/ProofsAgree.v: exchanging two adjacent independent declarations (R1)
   preserves the verdict of the enclosing design unit.  Proofs only.

   Contents: the shape of the environment a declaration produces (`check_decl_shape`) and its frame properties;
   the invariant that every type value of the current design unit found in an environment is declared in it as a
   type of its own (`tinv`, needed because `ops_visible` looks types up by their declared name); the exchange
   lemma for two declarations; its lifting to declaration lists, blocks and design units. *)
From Coq Require Import List NArith Arith Bool Lia FunctionalExtensionality.
Import ListNotations.
From RH Require Import Mini.Syntax Mini.Sem Mini.Walk Mini.Faults Mini.Rewrites Mini.ProofsAgreeBase.
Open Scope N_scope.

Tactic Notation "cbn_env" :=
  cbn [pure_view set_vis set_cur set_ret set_done set_home set_uid set_libs add_lib push complete_deferred bind_raw
       e_vis e_cur e_libs e_uid e_home e_ret e_done].
Tactic Notation "cbn_env" "in" hyp(H) :=
  cbn [pure_view set_vis set_cur set_ret set_done set_home set_uid set_libs add_lib push complete_deferred bind_raw
       e_vis e_cur e_libs e_uid e_home e_ret e_done] in H.
Tactic Notation "cbn_env" "in" "*" :=
  cbn [pure_view set_vis set_cur set_ret set_done set_home set_uid set_libs add_lib push complete_deferred bind_raw
       e_vis e_cur e_libs e_uid e_home e_ret e_done] in *.

Definition is_own (k : bkind) : bool := match k with BType _ true => true | _ => false end.

Section Shape.
Variable md : mode.
Variable GE : genv.

Inductive shape (r : region) (obl : list obligation) (G : env) (d : decl) (G1 : env) : Prop :=
| sh_decl k :
    declare G (decl_occ d) k = Ok G1 -> declared_idents d = [o_id (decl_occ d)] ->
    (forall t, In t (bk_types k) ->
       (exists o td, d = DType o td /\ t = mk_tydef GE G o td) \/ (exists tm, resolve_tmark GE G tm = Ok t)) ->
    (is_own k = true -> exists o td, d = DType o td /\ k = BType (mk_tydef GE G o td) true) ->
    (forall o td, d = DType o td -> k = BType (mk_tydef GE G o td) true) ->
    shape r obl G d G1
| sh_enum o lits G0 :
    d = DType o (TDEnum lits) ->
    declare G o (BType (mk_tydef GE G o (TDEnum lits)) true) = Ok G0 ->
    declare_lits G0 (mk_tydef GE G o (TDEnum lits)) lits = Ok G1 ->
    shape r obl G d G1
| sh_done ob :
    existsb (ob_eqb ob) obl = true -> obl_related true d = true -> declared_idents d = [o_id (decl_occ d)] ->
    (G1 = set_done G (ob :: e_done G) \/ G1 = complete_deferred (set_done G (ob :: e_done G)) (o_id (decl_occ d))) ->
    shape r obl G d G1.

Lemma check_decl_shape r obl G d G1 : check_decl md GE r obl G d = Ok G1 -> shape r obl G d G1.
Proof.
  intros H. unfold check_decl in H. apply bind_ok_inv in H. destruct H as [[] [_ H]].
  destruct d as [o td|o t rng|o t [e|]|o t i|o ps rt|o ps|o ps rt ls b|o ps ls b|o gs ps]; cbv zeta in H.
  - destruct td as [lits|lo hi|fs|len el].
    + minv H. eapply sh_enum; [reflexivity|eassumption|eassumption].
    + minv H. eapply sh_decl; [exact E0|reflexivity| | |].
      * intros t [<-|[]]. left. eauto.
      * intros _. eauto.
      * intros o' td' E'. injection E' as <- <-. reflexivity.
    + minv H. eapply sh_decl; [eassumption|reflexivity| | |].
      * intros t [<-|[]]. left. eauto.
      * intros _. eauto.
      * intros o' td' E'. injection E' as <- <-. reflexivity.
    + minv H. eapply sh_decl; [eassumption|reflexivity| | |].
      * intros t [<-|[]]. left. eauto.
      * intros _. eauto.
      * intros o' td' E'. injection E' as <- <-. reflexivity.
  - minv H. eapply sh_decl; [eassumption|reflexivity| | |].
    + intros t' [<-|[]]. right. eauto.
    + intros Ho. discriminate Ho.
    + intros o' td' E'. discriminate E'.
  - minv H. destruct (existsb (ob_eqb (o_id o, [], Some a)) obl) eqn:Eo.
    + minv E2. injection E3 as <-. eapply sh_done; [exact Eo|reflexivity|reflexivity|]. right. reflexivity.
    + eapply sh_decl; [eassumption|reflexivity| | |].
      * intros t' [<-|[]]. right. eauto.
      * intros Ho. discriminate Ho.
      * intros o' td' E'. discriminate E'.
  - minv H. eapply sh_decl; [eassumption|reflexivity| | |].
    + intros t' [<-|[]]. right. eauto.
    + intros Ho. discriminate Ho.
    + intros o' td' E'. discriminate E'.
  - minv H. eapply sh_decl; [eassumption|reflexivity| | |].
    + intros t' [<-|[]]. right. eauto.
    + intros Ho. discriminate Ho.
    + intros o' td' E'. discriminate E'.
  - minv H. eapply sh_decl; [eassumption|reflexivity| | |].
    + intros t' [<-|[]]. right. eauto.
    + intros Ho. discriminate Ho.
    + intros o' td' E'. discriminate E'.
  - minv H. eapply sh_decl; [eassumption|reflexivity| | |].
    + intros t' [].
    + intros Ho. discriminate Ho.
    + intros o' td' E'. discriminate E'.
  - minv H. match goal with Hx : Ok _ = Ok G1 |- _ => injection Hx as <- end.
    match goal with Hx : (if existsb ?f obl then _ else _) = Ok _ |- _ => destruct (existsb f obl) eqn:Eo; [minv Hx|] end.
    + match goal with Hx : Ok _ = Ok _ |- _ => injection Hx as <- end.
      eapply sh_done; [exact Eo|reflexivity|reflexivity|]. left. reflexivity.
    + eapply sh_decl; [eassumption|reflexivity| | |].
      * intros t' [<-|[]]. right. eauto.
      * intros Ho. discriminate Ho.
      * intros o' td' E'. discriminate E'.
  - minv H. match goal with Hx : Ok _ = Ok G1 |- _ => injection Hx as <- end.
    match goal with Hx : (if existsb ?f obl then _ else _) = Ok _ |- _ => destruct (existsb f obl) eqn:Eo; [minv Hx|] end.
    + match goal with Hx : Ok _ = Ok _ |- _ => injection Hx as <- end.
      eapply sh_done; [exact Eo|reflexivity|reflexivity|]. left. reflexivity.
    + eapply sh_decl; [eassumption|reflexivity| | |].
      * intros t' [].
      * intros Ho. discriminate Ho.
      * intros o' td' E'. discriminate E'.
  - minv H. eapply sh_decl; [eassumption|reflexivity| | |].
    + intros t' [].
    + intros Ho. discriminate Ho.
    + intros o' td' E'. discriminate E'.
Qed.
End Shape.

(* ------------------------------------------------------------------------------------------ *)
(* frame properties                                                                             *)
(* ------------------------------------------------------------------------------------------ *)
Definition upd (S : list ident) (G G1 : env) : Prop :=
  (forall y, ~ In y S -> e_vis G1 y = e_vis G y /\ e_cur G1 y = e_cur G y) /\
  e_libs G1 = e_libs G /\ e_uid G1 = e_uid G /\ e_home G1 = e_home G /\ e_ret G1 = e_ret G.
Lemma upd_refl S G : upd S G G.
Proof. unfold upd. repeat split; reflexivity. Qed.
Lemma upd_trans S1 S2 S G G1 G2 : upd S1 G G1 -> upd S2 G1 G2 -> incl S1 S -> incl S2 S -> upd S G G2.
Proof.
  intros [A1 [A2 [A3 [A4 A5]]]] [B1 [B2 [B3 [B4 B5]]]] I1 I2. unfold upd.
  split; [|repeat split; congruence].
  intros y Hy. destruct (A1 y) as [Av Ac]; [intro; apply Hy; apply I1; assumption|].
  destruct (B1 y) as [Bv Bc]; [intro; apply Hy; apply I2; assumption|]. split; congruence.
Qed.
Lemma upd_bind_raw G x b : upd [x] G (bind_raw G x b).
Proof.
  unfold upd. cbn_env. split; [|repeat split; reflexivity].
  intros y Hy. unfold fadd. destruct (y =? x) eqn:E; [apply N.eqb_eq in E; subst y; exfalso; apply Hy; left; reflexivity|].
  split; reflexivity.
Qed.
Lemma declare_upd G o k G1 : declare G o k = Ok G1 -> upd [o_id o] G G1.
Proof. intros H. apply declare_inv in H. destruct H as [-> _]. apply upd_bind_raw. Qed.
Lemma declare_lits_upd t lits : forall G G1, declare_lits G t lits = Ok G1 -> upd (map o_id lits) G G1.
Proof.
  induction lits as [|l r IH]; intros G G1 H; cbn [declare_lits map] in *.
  - injection H as <-. apply upd_refl.
  - minv H. eapply upd_trans; [eapply declare_upd; eassumption|eapply IH; eassumption| |].
    + intros y [<-|[]]. left. reflexivity.
    + intros y Hy. right. exact Hy.
Qed.
Lemma declare_lits_done t lits : forall G G1, declare_lits G t lits = Ok G1 -> e_done G1 = e_done G.
Proof.
  induction lits as [|l r IH]; intros G G1 H; cbn [declare_lits] in *.
  - injection H as <-. reflexivity.
  - minv H. rewrite (IH _ _ E0). eapply declare_done; eassumption.
Qed.
Lemma ownb_fadd t x b m n :
  ownb t (fadd x b m n) =
  if n =? x then (match b_kind b with BType t' true => sty_eqb t t' | _ => false end) || ownb t (m n) else ownb t (m n).
Proof. unfold fadd. destruct (n =? x); reflexivity. Qed.
Lemma declare_own G o k G1 t :
  declare G o k = Ok G1 -> (match k with BType t' true => sty_eqb t t' | _ => false end) = false ->
  forall n, ownb t (e_vis G1 n) = ownb t (e_vis G n).
Proof.
  intros H Hk n. apply declare_inv in H. destruct H as [-> _]. cbn_env. rewrite ownb_fadd. cbn [b_kind].
  rewrite Hk. destruct (n =? o_id o); reflexivity.
Qed.
Lemma declare_lits_own t0 lits t : forall G G1,
  declare_lits G t0 lits = Ok G1 -> forall n, ownb t (e_vis G1 n) = ownb t (e_vis G n).
Proof.
  induction lits as [|l r IH]; intros G G1 H n; cbn [declare_lits] in *.
  - injection H as <-. reflexivity.
  - minv H. rewrite (IH _ _ E0 n). eapply declare_own; [eassumption|reflexivity].
Qed.

Section ShapeFacts.
Variable md : mode.
Variable GE : genv.
Variables (r : region) (obl : list obligation) (G : env) (d : decl) (G1 : env).
Hypothesis SH : shape GE r obl G d G1.

Lemma shape_upd : upd (declared_idents d) G G1.
Proof.
  destruct SH as [k Hd Hdi _ _ _|o lits G0 -> Hd Hl|ob _ _ Hdi [->| ->]].
  - rewrite Hdi. eapply declare_upd; eassumption.
  - cbn [declared_idents]. eapply upd_trans; [eapply declare_upd; eassumption|eapply declare_lits_upd; eassumption| |].
    + intros y [<-|[]]. left. reflexivity.
    + intros y Hy. right. exact Hy.
  - unfold upd. cbn_env. repeat split; reflexivity.
  - rewrite Hdi. unfold upd. cbn_env. split; [|repeat split; reflexivity].
    intros y Hy. unfold fcomplete. destruct (y =? o_id (decl_occ d)) eqn:E; [|split; reflexivity].
    apply N.eqb_eq in E. exfalso. apply Hy. left. symmetry. exact E.
Qed.
Lemma shape_done : no_done obl d -> e_done G1 = e_done G.
Proof.
  intros Hn. destruct SH as [k Hd _ _ _ _|o lits G0 -> Hd Hl|ob Hob Hrel _ _].
  - eapply declare_done; eassumption.
  - rewrite (declare_lits_done _ _ _ _ Hl). eapply declare_done; eassumption.
  - destruct Hn as [->|Hn]; [discriminate Hob|rewrite Hrel in Hn; discriminate Hn].
Qed.
Lemma shape_own t :
  (forall o td, d = DType o td -> sty_eqb t (mk_tydef GE G o td) = false) ->
  forall n, ownb t (e_vis G1 n) = ownb t (e_vis G n).
Proof.
  intros Ht n. destruct SH as [k Hd _ _ Hown _|o lits G0 -> Hd Hl|ob _ _ _ [->| ->]].
  - eapply declare_own; [eassumption|]. destruct k as [| t' [|] | | | | |]; try reflexivity.
    destruct (Hown eq_refl) as [o [td [-> E]]]. injection E as ->. apply Ht. reflexivity.
  - rewrite (declare_lits_own _ _ t _ _ Hl n). eapply declare_own; [eassumption|]. apply Ht. reflexivity.
  - reflexivity.
  - cbn_env. unfold fcomplete. destruct (n =? _); [apply ownb_undefer|reflexivity].
Qed.
End ShapeFacts.

Lemma existsb_true_nil {A} (l : list A) : existsb (fun _ => true) l = false -> l = [].
Proof. destruct l; [reflexivity|discriminate]. Qed.
Lemma shape_type_fresh GE r obl G o td G1 : shape GE r obl G (DType o td) G1 -> e_vis G (o_id o) = [].
Proof.
  intros SH.
  assert (Hd : exists t G0, declare G o (BType t true) = Ok G0).
  { destruct SH as [k Hd _ _ _ Hk|o' lits G0 E Hd Hl|ob _ Hrel _ _].
    - cbn [decl_occ] in Hd. rewrite (Hk o td eq_refl) in Hd. eauto.
    - injection E as -> ->. eauto.
    - discriminate Hrel. }
  destruct Hd as [t [G0 Hd]]. apply declare_inv in Hd. destruct Hd as [_ [_ [_ Hv]]].
  apply existsb_true_nil. rewrite <- Hv. apply existsb_ext_in. intros b _. reflexivity.
Qed.

(* ------------------------------------------------------------------------------------------ *)
(* the type invariant                                                                           *)
(* ------------------------------------------------------------------------------------------ *)
Definition owns (G : env) (u : N) (n : ident) : Prop :=
  exists b t', In b (e_vis G n) /\ b_kind b = BType t' true /\ sty_key t' = Some (u, n).
Definition Qenv (G : env) (u : N) (n : ident) : Prop := u < e_uid G \/ (u = e_uid G /\ owns G u n).
Definition Qlt (N0 : N) (u : N) (n : ident) : Prop := u < N0.
Definition allb (G : env) (y : ident) (b : binding) : Prop := In b (e_vis G y) \/ In b (e_cur G y).
Definition tinv (G : env) : Prop := forall y b, allb G y b -> bgoodQ (Qenv G) b.
Definition envlt (N0 : N) (G : env) : Prop := forall y b, allb G y b -> bgoodQ (Qlt N0) b.
Definition exlt (N0 : N) (ex : fmap) : Prop := forall y b, In b (ex y) -> bgoodQ (Qlt N0) b.
Definition kinv (N0 : N) (k : gkind) : Prop :=
  match k with
  | GPkg ex inner _ => exlt N0 ex /\ envlt N0 inner
  | GGen _ ex inner _ => exlt N0 ex /\ envlt N0 inner
  | GInst ex => exlt N0 ex
  | GEnt _ _ inner => envlt N0 inner
  | _ => True
  end.
Definition ginv (N0 : N) (GE : genv) : Prop := forall g, In g GE -> kinv N0 (g_kind g).
Definition mono (G G1 : env) : Prop := e_uid G1 = e_uid G /\ forall u n, owns G u n -> owns G1 u n.

Lemma mono_refl G : mono G G.
Proof. split; [reflexivity|tauto]. Qed.
Lemma mono_trans G G1 G2 : mono G G1 -> mono G1 G2 -> mono G G2.
Proof. intros [A1 A2] [B1 B2]. split; [congruence|]. intros u n H. apply B2. apply A2. exact H. Qed.
Lemma Qenv_mono G G1 u n : mono G G1 -> Qenv G u n -> Qenv G1 u n.
Proof. intros [A1 A2] [H|[H1 H2]]; unfold Qenv; rewrite A1; [left; exact H|right; split; [exact H1|apply A2; exact H2]]. Qed.
Lemma all_named_Qenv_mono G G1 t : mono G G1 -> all_named (Qenv G) t -> all_named (Qenv G1) t.
Proof. intros M. apply all_named_mono. intros u n. apply Qenv_mono. exact M. Qed.
Lemma bgood_mono G G1 b : mono G G1 -> bgoodQ (Qenv G) b -> bgoodQ (Qenv G1) b.
Proof. intros M H t Ht. eapply all_named_Qenv_mono; [exact M|]. apply H. exact Ht. Qed.
Lemma bgood_types Q b b0 : bk_types (b_kind b) = bk_types (b_kind b0) -> bgoodQ Q b0 -> bgoodQ Q b.
Proof. intros E H t Ht. apply H. rewrite <- E. exact Ht. Qed.
Lemma Qlt_Qenv N0 G u n : N0 <= e_uid G -> Qlt N0 u n -> Qenv G u n.
Proof. unfold Qlt, Qenv. intros H1 H2. left. lia. Qed.
Lemma bgood_lt_env N0 G b : N0 <= e_uid G -> bgoodQ (Qlt N0) b -> bgoodQ (Qenv G) b.
Proof. intros Hle H t Ht. eapply all_named_mono; [|apply H; exact Ht]. intros u n. apply Qlt_Qenv. exact Hle. Qed.
Lemma Qenv_le G u n : Qenv G u n -> Qlt (e_uid G + 1) u n.
Proof. unfold Qlt, Qenv. intros [H|[H _]]; lia. Qed.
Lemma bgood_env_lt G b : bgoodQ (Qenv G) b -> bgoodQ (Qlt (e_uid G + 1)) b.
Proof. intros H t Ht. eapply all_named_mono; [|apply H; exact Ht]. intros u n. apply Qenv_le. Qed.
Lemma bgood_lt_mono N0 N1 b : N0 <= N1 -> bgoodQ (Qlt N0) b -> bgoodQ (Qlt N1) b.
Proof. intros Hle H t Ht. eapply all_named_mono; [|apply H; exact Ht]. intros u n. unfold Qlt. lia. Qed.

Lemma tinv_step G G1 :
  tinv G -> mono G G1 ->
  (forall y b, allb G1 y b ->
     (exists y0 b0, allb G y0 b0 /\ bk_types (b_kind b) = bk_types (b_kind b0)) \/ bgoodQ (Qenv G1) b) ->
  tinv G1.
Proof.
  intros T M H y b Hb. destruct (H y b Hb) as [[y0 [b0 [H0 E]]]|Hg]; [|exact Hg].
  eapply bgood_types; [exact E|]. eapply bgood_mono; [exact M|]. eapply T. exact H0.
Qed.

Lemma mono_bind_raw G x b : mono G (bind_raw G x b).
Proof.
  split; [reflexivity|]. intros u n [b0 [t' [Hin Hk]]]. exists b0, t'. split; [|exact Hk].
  cbn_env. unfold fadd. destruct (n =? x); [right|]; exact Hin.
Qed.
Lemma allb_bind_raw G x b y b' : allb (bind_raw G x b) y b' -> b' = b \/ allb G y b'.
Proof.
  unfold allb. cbn_env. unfold fadd. destruct (y =? x); [|tauto].
  intros [[H|H]|[H|H]]; auto.
Qed.
Lemma tinv_bind_raw G x b : tinv G -> bgoodQ (Qenv (bind_raw G x b)) b -> tinv (bind_raw G x b).
Proof.
  intros T Hb. eapply tinv_step; [exact T|apply mono_bind_raw|].
  intros y b' H. apply allb_bind_raw in H. destruct H as [->|H]; [right; exact Hb|left; exists y, b'; split; [exact H|reflexivity]].
Qed.
Lemma tinv_declare G o k G1 :
  tinv G -> declare G o k = Ok G1 -> bgoodQ (Qenv G1) (Bnd k None) -> tinv G1 /\ mono G G1.
Proof.
  intros T H Hb. apply declare_inv in H. destruct H as [-> _]. split; [|apply mono_bind_raw].
  apply tinv_bind_raw; [exact T|exact Hb].
Qed.
Lemma tinv_declare' G o k G1 :
  tinv G -> declare G o k = Ok G1 -> bgoodQ (Qenv G) (Bnd k None) -> tinv G1 /\ mono G G1.
Proof.
  intros T H Hb. eapply tinv_declare; [exact T|exact H|]. eapply (bgood_mono G G1 (Bnd k None)); [|exact Hb].
  apply declare_inv in H. destruct H as [-> _]. apply mono_bind_raw.
Qed.
Lemma tinv_declare_lits t lits : forall G G1,
  tinv G -> all_named (Qenv G) t -> declare_lits G t lits = Ok G1 -> tinv G1 /\ mono G G1.
Proof.
  induction lits as [|l r IH]; intros G G1 T Ht H; cbn [declare_lits] in H.
  - injection H as <-. split; [exact T|apply mono_refl].
  - minv H. destruct (tinv_declare' G l (BLit t) a T E) as [Ta Ma].
    { intros t' [<-|[]]. exact Ht. }
    destruct (IH a G1 Ta (all_named_Qenv_mono _ _ _ Ma Ht) E0) as [T1 M1].
    split; [exact T1|eapply mono_trans; [|exact M1]; eassumption].
Qed.
Lemma tinv_same G G1 :
  e_vis G1 = e_vis G -> e_cur G1 = e_cur G -> e_uid G1 = e_uid G -> tinv G -> tinv G1 /\ mono G G1.
Proof.
  intros Ev Ec Eu T.
  assert (M : mono G G1).
  { split; [exact Eu|]. intros u n [b [t' [Hin Hk]]]. exists b, t'. rewrite Ev. tauto. }
  split; [|exact M]. eapply tinv_step; [exact T|exact M|].
  intros y b Hb. left. exists y, b. split; [|reflexivity]. unfold allb in *. rewrite Ev, Ec in Hb. exact Hb.
Qed.
Lemma tinv_push G : tinv G -> tinv (push G) /\ mono G (push G).
Proof.
  intros T. assert (M : mono G (push G)).
  { split; [reflexivity|]. intros u n H. exact H. }
  split; [|exact M]. eapply tinv_step; [exact T|exact M|].
  intros y b [Hb|Hb]; [|destruct Hb]. left. exists y, b. split; [left; exact Hb|reflexivity].
Qed.
Lemma undefer_types b : bk_types (b_kind (undefer b)) = bk_types (b_kind b).
Proof. unfold undefer. destruct (b_kind b) eqn:E; rewrite ?E; reflexivity. Qed.
Lemma undefer_own b t' : b_kind b = BType t' true -> undefer b = b.
Proof. intros E. unfold undefer. rewrite E. reflexivity. Qed.
Lemma tinv_complete G x : tinv G -> tinv (complete_deferred G x) /\ mono G (complete_deferred G x).
Proof.
  intros T. assert (M : mono G (complete_deferred G x)).
  { split; [reflexivity|]. intros u n [b [t' [Hin [Hk Hs]]]]. exists b, t'. split; [|tauto].
    cbn_env. unfold fcomplete. destruct (n =? x); [|exact Hin].
    apply in_map_iff. exists b. split; [eapply undefer_own; exact Hk|exact Hin]. }
  split; [|exact M]. eapply tinv_step; [exact T|exact M|].
  intros y b Hb. left. unfold allb in Hb. cbn [complete_deferred e_vis e_cur] in Hb. unfold fcomplete in Hb. destruct (y =? x).
  - destruct Hb as [Hb|Hb]; apply in_map_iff in Hb; destruct Hb as [b0 [<- Hb0]]; exists y, b0;
      (split; [|apply undefer_types]); [left|right]; exact Hb0.
  - exists y, b. split; [exact Hb|reflexivity].
Qed.

Section TInv.
Variable md : mode.
Variable GE : genv.
Variable N0 : N.
Hypothesis GI : ginv N0 GE.

Lemma find_unit__In G0 l n k : find_unit_ G0 l n = Some k -> exists g, In g G0 /\ g_kind g = k.
Proof.
  induction G0 as [|g r IH]; cbn [find_unit_]; [discriminate|].
  destruct (_ && _ && _).
  - intros E. injection E as <-. exists g. split; [left; reflexivity|reflexivity].
  - intros E. destruct (IH E) as [g' [Hin Hk]]. exists g'. split; [right; exact Hin|exact Hk].
Qed.
Lemma find_unit_inv l n k : find_unit GE l n = Some k -> kinv N0 k.
Proof.
  unfold find_unit. destruct (n =? id_undeclared); [discriminate|]. intros E.
  apply find_unit__In in E. destruct E as [g [Hin <-]]. apply GI. exact Hin.
Qed.
Lemma sel_pkg_lt G l p ex : sel_pkg GE G l p = Ok ex -> exlt N0 ex.
Proof.
  unfold sel_pkg. intros H. minv H. destruct (find_unit GE (o_id l) (o_id p)) as [k|] eqn:Ef; [|discriminate].
  apply find_unit_inv in Ef. destruct k; cbn [exports_of] in E0; try discriminate; injection E0 as <-; cbn [kinv] in Ef; tauto.
Qed.
Lemma sel_item_lt G l p o bs : sel_item GE G l p o = Ok bs -> Forall (bgoodQ (Qlt N0)) bs.
Proof.
  unfold sel_item. intros H. minv H. apply sel_pkg_lt in E.
  destruct (o_id o =? id_undeclared); [discriminate|]. destruct (a (o_id o)) as [|b r] eqn:Eb; [discriminate|].
  injection E0 as <-. apply Forall_forall. intros b' Hb'. apply (E (o_id o)). rewrite Eb. exact Hb'.
Qed.
Lemma vis_occ_tinv G o bs : tinv G -> vis_occ G o = Ok bs -> Forall (bgoodQ (Qenv G)) bs.
Proof.
  intros T. unfold vis_occ. destruct (vis G (o_id o)) as [|b r] eqn:E; [discriminate|].
  destruct (coherent (b :: r)); [|discriminate]. intros E'. injection E' as <-.
  apply Forall_forall. intros b' Hb'. apply (T (o_id o)). left.
  unfold vis in E. destruct (o_id o =? id_undeclared); [discriminate|]. rewrite E. exact Hb'.
Qed.
Lemma type_of_bindings_Q Q bs t : Forall (bgoodQ Q) bs -> type_of_bindings bs = Some t -> all_named Q t.
Proof.
  intros Hb. unfold type_of_bindings. destruct bs as [|b [|? ?]]; try discriminate.
  destruct (b_kind b) eqn:E; try discriminate. intros E'. injection E' as <-.
  inversion Hb; subst. apply H1. rewrite E. left. reflexivity.
Qed.
Lemma resolve_tmark_tinv G t ty :
  tinv G -> N0 <= e_uid G -> resolve_tmark GE G t = Ok ty -> all_named (Qenv G) ty.
Proof.
  intros T Hle. destruct t as [| | |o|l p o]; cbn [resolve_tmark]; intros H; try (injection H as <-; exact I).
  - minv H. destruct (type_of_bindings a) eqn:Et; [|discriminate]. injection E0 as <-.
    eapply type_of_bindings_Q; [|exact Et]. eapply vis_occ_tinv; eassumption.
  - minv H. destruct (type_of_bindings a) eqn:Et; [|discriminate]. injection E0 as <-.
    eapply type_of_bindings_Q; [|exact Et]. apply sel_item_lt in E.
    eapply Forall_impl; [|exact E]. intros b. apply bgood_lt_env. exact Hle.
Qed.
Lemma tmark_ty_tinv G t : tinv G -> N0 <= e_uid G -> all_named (Qenv G) (tmark_ty GE G t).
Proof.
  intros T Hle. unfold tmark_ty. destruct (resolve_tmark GE G t) eqn:E; [|exact I].
  eapply resolve_tmark_tinv; eassumption.
Qed.
Lemma mk_tydef_tinv G o td G1 :
  tinv G -> N0 <= e_uid G -> mono G G1 -> owns G1 (e_uid G) (o_id o) -> all_named (Qenv G1) (mk_tydef GE G o td).
Proof.
  intros T Hle M Ho.
  assert (Hq : Qenv G1 (e_uid G) (o_id o)).
  { right. split; [symmetry; apply M|exact Ho]. }
  destruct td as [lits|lo hi|fs|len el]; cbn [mk_tydef].
  - exact Hq.
  - exact Hq.
  - apply all_named_rec. split; [exact Hq|]. apply Forall_forall. intros f Hf.
    apply in_map_iff in Hf. destruct Hf as [f0 [<- _]]. cbn [snd].
    eapply all_named_Qenv_mono; [exact M|]. apply tmark_ty_tinv; assumption.
  - cbn [all_named]. split; [exact Hq|]. eapply all_named_Qenv_mono; [exact M|]. apply tmark_ty_tinv; assumption.
Qed.
Lemma mk_tydef_key G o td : sty_key (mk_tydef GE G o td) = Some (e_uid G, o_id o).
Proof. destruct td; reflexivity. Qed.
Lemma owns_declared_type G o t G1 :
  declare G o (BType t true) = Ok G1 -> sty_key t = Some (e_uid G, o_id o) -> owns G1 (e_uid G) (o_id o).
Proof.
  intros H Hk. apply declare_inv in H. destruct H as [-> _].
  exists (Bnd (BType t true) (e_home G)), t. split; [|split; [reflexivity|exact Hk]].
  cbn_env. unfold fadd. rewrite N.eqb_refl. left. reflexivity.
Qed.

Lemma shape_tinv r obl G d G1 :
  shape GE r obl G d G1 -> tinv G -> N0 <= e_uid G -> tinv G1 /\ mono G G1.
Proof.
  intros SH T Hle. destruct SH as [k Hd _ Hty _ Hk|o lits G0 -> Hd Hl|ob _ _ _ [->| ->]].
  - eapply tinv_declare; [exact T|exact Hd|].
    assert (M : mono G G1) by (apply declare_inv in Hd; destruct Hd as [-> _]; apply mono_bind_raw).
    intros t Ht. cbn [b_kind] in Ht. destruct (Hty t Ht) as [[o [td [-> ->]]]|[tm Htm]].
    + apply mk_tydef_tinv; [exact T|exact Hle|exact M|].
      cbn [decl_occ] in Hd. rewrite (Hk o td eq_refl) in Hd. eapply owns_declared_type; [exact Hd|apply mk_tydef_key].
    + eapply all_named_Qenv_mono; [exact M|]. eapply resolve_tmark_tinv; eassumption.
  - assert (M0 : mono G G0) by (apply declare_inv in Hd; destruct Hd as [-> _]; apply mono_bind_raw).
    assert (Hg : all_named (Qenv G0) (mk_tydef GE G o (TDEnum lits))).
    { apply mk_tydef_tinv; [exact T|exact Hle|exact M0|]. eapply owns_declared_type; [exact Hd|apply mk_tydef_key]. }
    destruct (tinv_declare G o _ G0 T Hd) as [T0 _].
    { intros t [<-|[]]. exact Hg. }
    destruct (tinv_declare_lits _ lits G0 G1 T0 Hg Hl) as [T1 M1].
    split; [exact T1|eapply mono_trans; [|exact M1]; eassumption].
  - apply tinv_same; try reflexivity. exact T.
  - destruct (tinv_same G (set_done G (ob :: e_done G)) eq_refl eq_refl eq_refl T) as [T1 M1].
    destruct (tinv_complete _ (o_id (decl_occ d)) T1) as [T2 M2].
    split; [exact T2|exact (mono_trans _ _ _ M1 M2)].
Qed.
Lemma check_decl_tinv r obl G d G1 :
  check_decl md GE r obl G d = Ok G1 -> tinv G -> N0 <= e_uid G -> tinv G1 /\ mono G G1.
Proof. intros H. apply check_decl_shape in H. eapply shape_tinv. exact H. Qed.
Lemma check_decls_tinv r obl ds : forall G G1,
  check_decls md GE r obl G ds = Ok G1 -> tinv G -> N0 <= e_uid G -> tinv G1 /\ mono G G1.
Proof.
  induction ds as [|d rest IH]; intros G G1 H T Hle; cbn [check_decls] in H.
  - injection H as <-. split; [exact T|apply mono_refl].
  - minv H. destruct (check_decl_tinv _ _ _ _ _ E T Hle) as [Ta Ma].
    destruct (IH a G1 E0 Ta) as [T1 M1]; [rewrite (proj1 Ma); exact Hle|].
    split; [exact T1|eapply mono_trans; [|exact M1]; eassumption].
Qed.
Lemma declare_ifaces_tinv c l : forall G G1,
  declare_ifaces md GE c G l = Ok G1 -> tinv G -> N0 <= e_uid G -> tinv G1 /\ mono G G1.
Proof.
  induction l as [|i r IH]; intros G G1 H T Hle; cbn [declare_ifaces] in H.
  - injection H as <-. split; [exact T|apply mono_refl].
  - minv H. destruct (tinv_declare' G (i_occ i) _ a0 T E2) as [Ta Ma].
    { intros t [<-|[]]. eapply resolve_tmark_tinv; eassumption. }
    destruct (IH a0 G1 E4 Ta) as [T1 M1]; [rewrite (proj1 Ma); exact Hle|].
    split; [exact T1|eapply mono_trans; [|exact M1]; eassumption].
Qed.

(* --- context clauses --- *)
Lemma fimports_In x bs m y b : In b (fimports x bs m y) -> In b bs \/ In b (m y).
Proof.
  induction bs as [|b0 r IH]; cbn [fimports]; [tauto|]. unfold fimport at 1.
  destruct (y =? x); [|intros H; destruct (IH H); [left; right|right]; assumption].
  destruct (existsb _ _); [intros H; destruct (IH H); [left; right|right]; assumption|].
  intros [<-|H]; [left; left; reflexivity|destruct (IH H); [left; right|right]; assumption].
Qed.
Lemma fimports_keep x bs m y b : In b (m y) -> In b (fimports x bs m y).
Proof.
  intros H. induction bs as [|b0 r IH]; cbn [fimports]; [exact H|]. unfold fimport at 1.
  destruct (y =? x); [|exact IH]. destruct (existsb _ _); [exact IH|right; exact IH].
Qed.
Lemma tinv_set_vis G v :
  tinv G -> N0 <= e_uid G -> (forall y b, In b (e_vis G y) -> In b (v y)) ->
  (forall y b, In b (v y) -> In b (e_vis G y) \/ bgoodQ (Qlt N0) b) ->
  tinv (set_vis G v) /\ mono G (set_vis G v).
Proof.
  intros T Hle Hk Hn. assert (M : mono G (set_vis G v)).
  { split; [reflexivity|]. intros u n [b [t' [Hin Hb]]]. exists b, t'. split; [|exact Hb]. cbn_env. apply Hk. exact Hin. }
  split; [|exact M]. eapply tinv_step; [exact T|exact M|].
  intros y b [Hb|Hb]; cbn_env in *.
  - destruct (Hn y b Hb) as [H|H]; [left; exists y, b; split; [left; exact H|reflexivity]|].
    right. apply (bgood_lt_env N0); [exact Hle|exact H].
  - left. exists y, b. split; [right; exact Hb|reflexivity].
Qed.
Lemma check_ctx_basic_tinv LIBS G x G1 :
  check_ctx_basic GE LIBS G x = Ok G1 -> tinv G -> N0 <= e_uid G -> tinv G1 /\ mono G G1.
Proof.
  intros H T Hle. destruct x as [l|l p|l p x|l c]; cbn [check_ctx_basic] in H.
  - minv H. injection E0 as <-. apply tinv_same; try reflexivity. exact T.
  - minv H. injection E0 as <-. apply sel_pkg_lt in E. apply tinv_set_vis; [exact T|exact Hle| |].
    + intros y b Hb. unfold import_all. apply fimports_keep. exact Hb.
    + intros y b Hb. unfold import_all in Hb. apply fimports_In in Hb. destruct Hb as [Hb|Hb]; [right; eapply E; exact Hb|left; exact Hb].
  - minv H. injection E2 as <-. apply sel_pkg_lt in E. apply tinv_set_vis; [exact T|exact Hle| |].
    + intros y b Hb. unfold import_item. destruct (y =? o_id x); [apply fimports_keep; exact Hb|].
      destruct (existsb _ _); [apply fimports_keep; exact Hb|exact Hb].
    + intros y b Hb. unfold import_item in Hb. destruct (y =? o_id x) eqn:Ey.
      * apply fimports_In in Hb. destruct Hb as [Hb|Hb]; [right; eapply E; exact Hb|left; exact Hb].
      * destruct (existsb _ _); [|left; exact Hb]. apply fimports_In in Hb.
        destruct Hb as [Hb|Hb]; [right|left; exact Hb]. unfold only_lits in Hb. apply filter_In in Hb. eapply E. apply Hb.
  - discriminate H.
Qed.
Lemma check_ctx_basics_tinv LIBS xs : forall G G1,
  check_ctx_basics GE LIBS G xs = Ok G1 -> tinv G -> N0 <= e_uid G -> tinv G1 /\ mono G G1.
Proof.
  induction xs as [|x r IH]; intros G G1 H T Hle; cbn [check_ctx_basics] in H.
  - injection H as <-. split; [exact T|apply mono_refl].
  - minv H. destruct (check_ctx_basic_tinv _ _ _ _ E T Hle) as [Ta Ma].
    destruct (IH a G1 E0 Ta) as [T1 M1]; [rewrite (proj1 Ma); exact Hle|].
    split; [exact T1|exact (mono_trans _ _ _ Ma M1)].
Qed.
Lemma check_ctx_item_tinv LIBS G x G1 :
  check_ctx_item GE LIBS G x = Ok G1 -> tinv G -> N0 <= e_uid G -> tinv G1 /\ mono G G1.
Proof.
  intros H T Hle. destruct x as [l|l p|l p x|l c].
  1-3: exact (check_ctx_basic_tinv LIBS G _ G1 H T Hle).
  cbn [check_ctx_item] in H. minv H. destruct (find_unit GE (o_id l) (o_id c)) as [[]|]; try discriminate.
  destruct (check_ctx_basics GE LIBS G items) eqn:Eb; [|discriminate]. injection E0 as <-.
  eapply check_ctx_basics_tinv; eassumption.
Qed.
Lemma check_ctx_tinv LIBS xs : forall G G1,
  check_ctx GE LIBS G xs = Ok G1 -> tinv G -> N0 <= e_uid G -> tinv G1 /\ mono G G1.
Proof.
  induction xs as [|x r IH]; intros G G1 H T Hle; cbn [check_ctx] in H.
  - injection H as <-. split; [exact T|apply mono_refl].
  - minv H. destruct (check_ctx_item_tinv _ _ _ _ E T Hle) as [Ta Ma].
    destruct (IH a G1 E0 Ta) as [T1 M1]; [rewrite (proj1 Ma); exact Hle|].
    split; [exact T1|exact (mono_trans _ _ _ Ma M1)].
Qed.
End TInv.

(* --- design units --- *)
Lemma tinv_env0 uid : tinv (env0 uid).
Proof.
  intros y b [Hb|Hb]; [|destruct Hb]. unfold env0 in Hb. cbn [e_vis] in Hb. unfold fadd, fempty in Hb.
  destruct (y =? id_true); [destruct Hb as [<-|Hb]|]; [intros t [<-|[]]; exact I| |];
    (destruct (y =? id_false); [destruct Hb as [<-|[]]; intros t [<-|[]]; exact I|destruct Hb]).
Qed.
Lemma tinv_envlt G : tinv G -> envlt (e_uid G + 1) G.
Proof. intros T y b Hb. apply bgood_env_lt. apply (T y). exact Hb. Qed.
Lemma envlt_tinv N1 G uid : envlt N1 G -> N1 <= uid -> tinv (set_uid G uid).
Proof.
  intros L Hle y b Hb. assert (Hb' : allb G y b) by exact Hb.
  apply (bgood_lt_env N1); [cbn_env; exact Hle|]. apply (L y). exact Hb'.
Qed.
Lemma exlt_undefer N1 G : envlt N1 G -> exlt N1 (undefer_all (e_cur G)).
Proof.
  intros L y b Hb. unfold undefer_all in Hb. apply in_map_iff in Hb. destruct Hb as [b0 [<- Hb0]].
  eapply bgood_types; [apply undefer_types|]. apply (L y). right. exact Hb0.
Qed.
Lemma ginv_mono N0 N1 GE : N0 <= N1 -> ginv N0 GE -> ginv N1 GE.
Proof.
  intros Hle GI g Hg. specialize (GI g Hg).
  assert (He : forall G, envlt N0 G -> envlt N1 G).
  { intros G L y b Hb. eapply bgood_lt_mono; [exact Hle|]. apply (L y). exact Hb. }
  assert (Hx : forall ex, exlt N0 ex -> exlt N1 ex).
  { intros ex L y b Hb. eapply bgood_lt_mono; [exact Hle|]. apply (L y). exact Hb. }
  destruct (g_kind g); cbn [kinv] in *; try exact I; try (destruct GI; split); auto.
Qed.

Lemma tinv_set_home G h : tinv G -> tinv (set_home G h).
Proof. intros T. apply (proj1 (tinv_same G (set_home G h) eq_refl eq_refl eq_refl T)). Qed.
Lemma tinv_set_done G d : tinv G -> tinv (set_done G d).
Proof. intros T. apply (proj1 (tinv_same G (set_done G d) eq_refl eq_refl eq_refl T)). Qed.

Ltac bdes H x Hx := apply bind_ok_inv in H; destruct H as [x [Hx H]].

Lemma check_unit_kinv md GE LIBS lib uid u g :
  ginv uid GE -> check_unit md GE LIBS lib uid u = Ok g -> kinv (uid + 1) (g_kind g).
Proof.
  intros GI H. unfold check_unit in H.
  assert (T0 : tinv (env0 uid)) by apply tinv_env0.
  assert (L0 : uid <= e_uid (env0 uid)) by (cbn [env0 e_uid]; lia).
  destruct (u_body u) as [o ds|o ds|o gs ps|o e ds body|o e a|o items|o gs ds|o l g0 gm].
  - bdes H x0 H0. bdes H G0 HG0. bdes H G1 HG1. injection H as <-. cbn [g_kind kinv].
    destruct (check_ctx_tinv GE uid GI LIBS _ _ _ HG0 T0 L0) as [TG0 MG0].
    assert (Th : tinv (set_home G0 (Some (lib, o_id o)))) by (apply tinv_set_home; exact TG0).
    destruct (check_decls_tinv md GE uid GI _ _ _ _ _ HG1 Th) as [TG1 MG1]; [cbn_env; rewrite (proj1 MG0); exact L0|].
    assert (Eu : e_uid G1 = uid) by (rewrite (proj1 MG1); cbn_env; rewrite (proj1 MG0); reflexivity).
    assert (LG1 : envlt (uid + 1) G1) by (rewrite <- Eu; apply tinv_envlt; exact TG1).
    split; [apply exlt_undefer; exact LG1|exact LG1].
  - destruct (if o_id o =? id_undeclared then None else find_unit GE lib (o_id o)) as [[]|]; try discriminate.
    + bdes H x0 H0. bdes H G0 HG0. bdes H G1 HG1. bdes H x1 H1. injection H as <-. exact I.
    + bdes H x0 H0. bdes H G0 HG0. bdes H G1 HG1. bdes H x1 H1. injection H as <-. exact I.
  - bdes H x0 H0. bdes H G0 HG0. bdes H Gg HGg. bdes H Gp HGp. injection H as <-. cbn [g_kind kinv].
    destruct (check_ctx_tinv GE uid GI LIBS _ _ _ HG0 T0 L0) as [TG0 MG0].
    destruct (declare_ifaces_tinv md GE uid GI _ _ _ _ HGg TG0) as [TGg MGg]; [rewrite (proj1 MG0); exact L0|].
    destruct (declare_ifaces_tinv md GE uid GI _ _ _ _ HGp TGg) as [TGp MGp]; [rewrite (proj1 MGg), (proj1 MG0); exact L0|].
    assert (Eu : e_uid Gp = uid) by (rewrite (proj1 MGp), (proj1 MGg), (proj1 MG0); reflexivity).
    rewrite <- Eu. apply tinv_envlt. exact TGp.
  - destruct (if o_id e =? id_undeclared then None else find_unit GE lib (o_id e)) as [[]|]; try discriminate.
    bdes H x0 H0. bdes H x1 H1. bdes H G0 HG0. bdes H G1 HG1. bdes H x2 H2. bdes H x3 H3. injection H as <-. exact I.
  - bdes H x0 H0. bdes H x1 H1.
    destruct (if o_id e =? id_undeclared then None else find_unit GE lib (o_id e)) as [[]|]; try discriminate.
    bdes H x2 H2. injection H as <-. exact I.
  - bdes H x0 H0. bdes H x1 H1. bdes H x2 H2. injection H as <-. exact I.
  - bdes H x0 H0. bdes H G0 HG0. bdes H Gg HGg. bdes H G1 HG1. injection H as <-. cbn [g_kind kinv].
    destruct (check_ctx_tinv GE uid GI LIBS _ _ _ HG0 T0 L0) as [TG0 MG0].
    assert (Th : tinv (set_home G0 (Some (lib, o_id o)))) by (apply tinv_set_home; exact TG0).
    destruct (declare_ifaces_tinv md GE uid GI _ _ _ _ HGg Th) as [TGg MGg]; [cbn_env; rewrite (proj1 MG0); exact L0|].
    assert (Eg : e_uid Gg = uid) by (rewrite (proj1 MGg); cbn_env; rewrite (proj1 MG0); reflexivity).
    destruct (check_decls_tinv md GE uid GI _ _ _ _ _ HG1 TGg) as [TG1 MG1]; [rewrite Eg; lia|].
    assert (Eu : e_uid G1 = uid) by (rewrite (proj1 MG1); exact Eg).
    assert (LG1 : envlt (uid + 1) G1) by (rewrite <- Eu; apply tinv_envlt; exact TG1).
    split; [|exact LG1]. intros y b Hb. destruct (existsb _ gs); [destruct Hb|]. eapply exlt_undefer; eassumption.
  - bdes H x0 H0. bdes H G0 HG0. bdes H x1 H1.
    destruct (if o_id g0 =? id_undeclared then None else find_unit GE (o_id l) (o_id g0)) as [[]|] eqn:Ef; try discriminate.
    bdes H x2 H2. bdes H x3 H3. injection H as <-. cbn [g_kind kinv].
    destruct (o_id g0 =? id_undeclared); [discriminate|]. apply (find_unit_inv GE uid GI) in Ef. cbn [kinv] in Ef.
    destruct Ef as [Ex _]. intros y b Hb. unfold rehome in Hb. apply in_map_iff in Hb. destruct Hb as [b0 [<- Hb0]].
    eapply bgood_lt_mono; [|eapply bgood_types; [|apply (Ex y b0 Hb0)]]; [lia|reflexivity].
Qed.
Lemma check_unit_ginv md GE LIBS lib uid u g :
  ginv uid GE -> check_unit md GE LIBS lib uid u = Ok g -> ginv (uid + 1) (GE ++ [g]).
Proof.
  intros GI H g' Hg'. apply in_app_or in Hg'. destruct Hg' as [Hg'|[<-|[]]].
  - apply (ginv_mono uid (uid + 1) GE); [lia|exact GI|exact Hg'].
  - eapply check_unit_kinv; eassumption.
Qed.

(* ------------------------------------------------------------------------------------------ *)
(* exchanging two independent declarations                                                      *)
(* ------------------------------------------------------------------------------------------ *)
Lemma env_eq (A B : env) :
  e_vis A = e_vis B -> e_cur A = e_cur B -> e_libs A = e_libs B -> e_uid A = e_uid B -> e_home A = e_home B ->
  e_ret A = e_ret B -> e_done A = e_done B -> A = B.
Proof. destruct A, B; simpl; intros; subst; reflexivity. Qed.
Lemma disjoint_spec a b : disjoint a b = true -> forall x, In x a -> ~ In x b.
Proof.
  unfold disjoint. rewrite forallb_forall. intros H x Hx. specialize (H x Hx). apply negb_true_iff in H.
  apply memb_false. exact H.
Qed.
Lemma declared_in_idents d x : In x (declared_idents d) -> In x (idents_decl d).
Proof.
  unfold idents_decl, idents_of.
  assert (Hhead : forall o rest, In (o_id o) (map snd (oc OOther o ++ rest))) by (intros; left; reflexivity).
  destruct d as [o td|o t rng|o t i|o t i|o ps rt|o ps|o ps rt ls b|o ps ls b|o gs ps];
    try (cbn [declared_idents decl_occ oc_decl]; intros [<-|[]]; apply Hhead).
  destruct td as [lits|lo hi|fs|len el]; try (cbn [declared_idents decl_occ oc_decl]; intros [<-|[]]; apply Hhead).
  cbn [declared_idents oc_decl oc_tydef]. intros [<-|H]; [apply Hhead|].
  rewrite map_app. apply in_or_app. right. apply in_map_iff in H. destruct H as [l [<- Hl]].
  apply in_map_iff. exists (o_nid l, OOther, o_id l). split; [reflexivity|]. apply in_flat_map. exists l. split; [exact Hl|left; reflexivity].
Qed.
Definition tyname (d : decl) : list ident := match d with DType o _ => [o_id o] | _ => [] end.
Definition Qd (uid : N) (d : decl) (u : N) (n : ident) : Prop := ~ (u = uid /\ In n (tyname d)).
Lemma tyname_declared d n : In n (tyname d) -> In n (declared_idents d).
Proof.
  intros H. destruct d as [o td| | | | | | | |]; cbn [tyname] in H; try contradiction.
  destruct H as [<-|[]]. destruct td; left; reflexivity.
Qed.
Lemma Qd_out uid d u n : ~ In n (declared_idents d) -> Qd uid d u n.
Proof. intros H [_ Hn]. apply H. apply tyname_declared. exact Hn. Qed.

Section Swap2.
Variable md : mode.
Variable GE : genv.
Variable N0 : N.
Hypothesis GI : ginv N0 GE.

Lemma genv_good_Qd uid d : N0 <= uid -> genv_good GE (Qd uid d).
Proof.
  intros Hle l n k ex y b Hf He Hb. apply (find_unit_inv GE N0 GI) in Hf.
  assert (Hx : exlt N0 ex) by (destruct k; cbn [exports_of] in He; try discriminate; injection He as <-; cbn [kinv] in Hf; tauto).
  intros t Ht. eapply all_named_mono; [|apply (Hx y b Hb t Ht)]. intros u n0 Hu [-> _]. unfold Qlt in Hu. lia.
Qed.
Lemma agree_after r obl G d G1 :
  check_decl md GE r obl G d = Ok G1 -> tinv G -> N0 <= e_uid G ->
  agree (declared_idents d) (Qd (e_uid G) d) G G1.
Proof.
  intros H T Hle. assert (SH := check_decl_shape md GE r obl G d G1 H).
  destruct (shape_upd GE r obl G d G1 SH) as [Hf [El [Eu [Eh Er]]]].
  constructor; try (symmetry; assumption).
  - intros y Hy. symmetry. apply Hf. exact Hy.
  - intros y Hy. symmetry. apply Hf. exact Hy.
  - intros n t Hn Hg Hs. symmetry. apply (shape_own GE r obl G d G1 SH).
    intros o td ->. destruct (sty_eqb t (mk_tydef GE G o td)) eqn:E; [|reflexivity]. exfalso.
    apply sty_eqb_key in E. rewrite mk_tydef_key in E. apply (all_named_key _ _ _ _ Hg) in E. apply E.
    split; [reflexivity|left; reflexivity].
  - intros y b Hy Hb t Ht. eapply all_named_mono; [|apply (T y b (or_introl Hb) t Ht)].
    intros u n Hq [-> Hn]. destruct d as [o td| | | | | | | |]; cbn [tyname] in Hn; try contradiction. destruct Hn as [<-|[]].
    destruct Hq as [Hq|[_ [b0 [t' [Hin _]]]]]; [lia|]. rewrite (shape_type_fresh _ _ _ _ _ _ _ SH) in Hin. destruct Hin.
Qed.

Lemma freshl_disjoint D l : (forall x, In x D -> ~ In x (idents_of l)) -> freshl D l.
Proof.
  intros H. apply Forall_forall. intros t Ht Hin. apply (H _ Hin). unfold idents_of. apply in_map. exact Ht.
Qed.

Lemma swap_two r obl in_body G d1 d2 G1 G2 :
  (in_body = false -> obl = []) ->
  independent in_body d1 d2 = true ->
  tinv G -> N0 <= e_uid G ->
  check_decl md GE r obl G d1 = Ok G1 -> check_decl md GE r obl G1 d2 = Ok G2 ->
  exists G2', check_decl md GE r obl G d2 = Ok G2' /\ check_decl md GE r obl G2' d1 = Ok G2.
Proof.
  intros Hob Hind T Hle H1 H2.
  unfold independent in Hind. apply andb_true_iff in Hind. destruct Hind as [Hind Hrel].
  apply andb_true_iff in Hind. destruct Hind as [D12 D21]. apply negb_true_iff in Hrel.
  assert (Fr2 : freshl (declared_idents d1) (oc_decl d2)) by (apply freshl_disjoint; apply disjoint_spec; exact D12).
  assert (Fr1 : freshl (declared_idents d2) (oc_decl d1)) by (apply freshl_disjoint; apply disjoint_spec; exact D21).
  assert (Dj : forall y, In y (declared_idents d1) -> ~ In y (declared_idents d2)).
  { intros y Hy1 Hy2. apply (disjoint_spec _ _ D12 y Hy1). apply declared_in_idents. exact Hy2. }
  assert (Hcases : no_done obl d1 \/ no_done obl d2).
  { destruct in_body.
    - apply andb_false_iff in Hrel. destruct Hrel as [Hr|Hr]; [left|right]; right; exact Hr.
    - left. left. apply Hob. reflexivity. }
  assert (SH1 := check_decl_shape md GE r obl G d1 G1 H1).
  assert (SH2 := check_decl_shape md GE r obl G1 d2 G2 H2).
  assert (U1 := shape_upd GE r obl G d1 G1 SH1). assert (U2 := shape_upd GE r obl G1 d2 G2 SH2).
  assert (A1 := agree_after r obl G d1 G1 H1 T Hle).
  assert (Hdn2 : e_done G = e_done G1 \/ no_done obl d2).
  { destruct Hcases as [Hc|Hc]; [left; symmetry; apply (shape_done GE r obl G d1 G1 SH1 Hc)|right; exact Hc]. }
  assert (R2 := check_decl_agree md GE (declared_idents d1) (Qd (e_uid G) d1) (Qd_out (e_uid G) d1)
                  (genv_good_Qd (e_uid G) d1 Hle) r obl G G1 d2 A1 Fr2 Hdn2).
  destruct (rrel_ok_r _ _ _ _ R2 H2) as [G2' [H2' [A12 Hd12]]].
  exists G2'. split; [exact H2'|].
  assert (SH2' := check_decl_shape md GE r obl G d2 G2' H2').
  assert (U2' := shape_upd GE r obl G d2 G2' SH2').
  assert (A2 := agree_after r obl G d2 G2' H2' T Hle).
  assert (Hdn1 : e_done G = e_done G2' \/ no_done obl d1).
  { destruct Hcases as [Hc|Hc]; [right; exact Hc|left; symmetry; apply (shape_done GE r obl G d2 G2' SH2' Hc)]. }
  assert (R1 := check_decl_agree md GE (declared_idents d2) (Qd (e_uid G) d2) (Qd_out (e_uid G) d2)
                  (genv_good_Qd (e_uid G) d2 Hle) r obl G G2' d1 A2 Fr1 Hdn1).
  destruct (rrel_ok_l _ _ _ _ R1 H1) as [G12 [H12 [A21 Hd21]]].
  rewrite H12. f_equal.
  assert (SH12 := check_decl_shape md GE r obl G2' d1 G12 H12).
  assert (U12 := shape_upd GE r obl G2' d1 G12 SH12).
  destruct U1 as [V1 [L1 [I1 [O1 E1]]]]. destruct U2 as [V2 [L2 [I2 [O2 E2]]]].
  destruct U2' as [V2' [L2' [I2' [O2' E2']]]]. destruct U12 as [V12 [L12 [I12 [O12 E12]]]].
  apply env_eq; try congruence.
  - apply functional_extensionality. intros y. destruct (In_dec_N y (declared_idents d1)) as [Hy|Hy].
    + rewrite <- (ag_vis _ _ _ _ A21 y (Dj y Hy)). symmetry. apply (V2 y (Dj y Hy)).
    + rewrite (proj1 (V12 y Hy)). apply (ag_vis _ _ _ _ A12 y Hy).
  - apply functional_extensionality. intros y. destruct (In_dec_N y (declared_idents d1)) as [Hy|Hy].
    + rewrite <- (ag_cur _ _ _ _ A21 y (Dj y Hy)). symmetry. apply (V2 y (Dj y Hy)).
    + rewrite (proj2 (V12 y Hy)). apply (ag_cur _ _ _ _ A12 y Hy).
  - destruct Hcases as [Hc|Hc].
    + rewrite (shape_done GE r obl G2' d1 G12 SH12 Hc). apply Hd12. symmetry. apply (shape_done GE r obl G d1 G1 SH1 Hc).
    + rewrite (shape_done GE r obl G1 d2 G2 SH2 Hc). symmetry. apply Hd21. symmetry. apply (shape_done GE r obl G d2 G2' SH2' Hc).
Qed.
End Swap2.

(* ------------------------------------------------------------------------------------------ *)
(* syntactic facts about swap_decls                                                             *)
(* ------------------------------------------------------------------------------------------ *)
Lemma swap_decls_cons2 s d1 d2 r :
  swap_decls s (d1 :: d2 :: r) = if o_nid (decl_occ d1) =? s then d2 :: d1 :: r else d1 :: swap_decls s (d2 :: r).
Proof. reflexivity. Qed.
Lemma swap_ok_cons2 ib s d1 d2 r :
  swap_ok ib s (d1 :: d2 :: r) = if o_nid (decl_occ d1) =? s then independent ib d1 d2 else swap_ok ib s (d2 :: r).
Proof. reflexivity. Qed.
Lemma swap_ok_site ib s ds : swap_ok ib s ds = true -> In s (add_sites_decls ds).
Proof.
  induction ds as [|d1 tl IH]; [discriminate|]. destruct tl as [|d2 r]; [discriminate|].
  rewrite swap_ok_cons2. destruct (o_nid (decl_occ d1) =? s) eqn:E.
  - intros _. left. apply N.eqb_eq. exact E.
  - intros H. right. apply IH. exact H.
Qed.
Lemma swap_decls_id s ds : ~ In s (add_sites_decls ds) -> swap_decls s ds = ds.
Proof.
  induction ds as [|d1 tl IH]; [reflexivity|]. destruct tl as [|d2 r]; [reflexivity|].
  rewrite swap_decls_cons2. intros H. destruct (o_nid (decl_occ d1) =? s) eqn:E.
  - exfalso. apply H. left. apply N.eqb_eq. exact E.
  - rewrite IH; [reflexivity|]. intro Hin. apply H. right. exact Hin.
Qed.
Lemma swap_concs_id s :
  (forall c, ~ In s (add_sites_conc c) -> swap_conc s c = c) /\
  (forall c, ~ In s (add_sites_concs c) -> swap_concs s c = c).
Proof.
  apply conc_concs_ind; cbn [add_sites_conc add_sites_concs swap_conc swap_concs]; try reflexivity.
  - intros lbl ds b IH H. rewrite swap_decls_id, IH; [reflexivity| |]; intro Hin; apply H; apply in_or_app; [right|left]; exact Hin.
  - intros c IHc r IHr H. rewrite IHc, IHr; [reflexivity| |]; intro Hin; apply H; apply in_or_app; [right|left]; exact Hin.
Qed.
Lemma swap_ok_concs_site s :
  (forall c, swap_ok_conc s c = true -> In s (add_sites_conc c)) /\
  (forall c, swap_ok_concs s c = true -> In s (add_sites_concs c)).
Proof.
  apply conc_concs_ind; cbn [add_sites_conc add_sites_concs swap_ok_conc swap_ok_concs]; try discriminate.
  - intros lbl ds b IH H. apply orb_true_iff in H. apply in_or_app.
    destruct H as [H|H]; [left; eapply swap_ok_site; exact H|right; apply IH; exact H].
  - intros c IHc r IHr H. apply orb_true_iff in H. apply in_or_app. destruct H as [H|H]; [left; apply IHc|right; apply IHr]; exact H.
Qed.
Lemma labels_swap s :
  (forall c, labels_conc (swap_conc s c) = labels_conc c) /\ (forall c, labels_concs (swap_concs s c) = labels_concs c).
Proof.
  apply conc_concs_ind; cbn [labels_conc labels_concs swap_conc swap_concs]; try reflexivity.
  - intros lbl ds b IH. rewrite IH. reflexivity.
  - intros c IHc r IHr. rewrite IHc, IHr. reflexivity.
Qed.
Lemma swap_flat_map {A} (f : decl -> list A) s ds :
  swap_ok false s ds = true -> (forall d, obl_related false d = false -> f d = []) ->
  flat_map f (swap_decls s ds) = flat_map f ds.
Proof.
  intros H Hf. induction ds as [|d1 tl IH]; [reflexivity|]. destruct tl as [|d2 r]; [reflexivity|].
  rewrite swap_ok_cons2 in H. rewrite swap_decls_cons2. destruct (o_nid (decl_occ d1) =? s).
  - unfold independent in H. apply andb_true_iff in H. destruct H as [_ H]. apply negb_true_iff in H.
    cbn [flat_map]. apply andb_false_iff in H. destruct H as [H|H]; rewrite (Hf _ H); cbn [app]; rewrite ?app_nil_r; reflexivity.
  - cbn [flat_map]. f_equal. apply IH. exact H.
Qed.
Lemma decl_obligation_related GE G d : obl_related false d = false -> decl_obligation GE G d = [].
Proof. destruct d as [| |o t [e|]| | | | | |]; cbn [obl_related decl_obligation]; try discriminate; reflexivity. Qed.

(* ------------------------------------------------------------------------------------------ *)
(* lifting to declaration lists, blocks, design units                                           *)
(* ------------------------------------------------------------------------------------------ *)
Section SwapLift.
Variable md : mode.
Variable GE : genv.
Variable N0 : N.
Hypothesis GI : ginv N0 GE.
Variable s : nid.

Lemma swap_decls_ok r obl in_body ds : forall G Gn,
  (in_body = false -> obl = []) -> swap_ok in_body s ds = true -> tinv G -> N0 <= e_uid G ->
  check_decls md GE r obl G ds = Ok Gn -> check_decls md GE r obl G (swap_decls s ds) = Ok Gn.
Proof.
  induction ds as [|d1 tl IH]; intros G Gn Hob Hok T Hle H; [discriminate|]. destruct tl as [|d2 r']; [discriminate|].
  rewrite swap_ok_cons2 in Hok. rewrite swap_decls_cons2. destruct (o_nid (decl_occ d1) =? s).
  - cbn [check_decls] in *. bdes H G1 H1. bdes H G2 H2.
    destruct (swap_two md GE N0 GI r obl in_body G d1 d2 G1 G2 Hob Hok T Hle H1 H2) as [G2' [Ha Hb]].
    rewrite Ha. cbn [bind]. rewrite Hb. cbn [bind]. exact H.
  - change (check_decls md GE r obl G (d1 :: d2 :: r')) with
      (G' <- check_decl md GE r obl G d1 ;; check_decls md GE r obl G' (d2 :: r')) in H.
    change (check_decls md GE r obl G (d1 :: swap_decls s (d2 :: r'))) with
      (G' <- check_decl md GE r obl G d1 ;; check_decls md GE r obl G' (swap_decls s (d2 :: r'))).
    bdes H G1 H1. rewrite H1. cbn [bind].
    destruct (check_decl_tinv md GE N0 GI _ _ _ _ _ H1 T Hle) as [T1 M1].
    apply IH; try assumption. rewrite (proj1 M1). exact Hle.
Qed.

Lemma swap_concs_ok :
  (forall c G, swap_ok_conc s c = true -> NoDup (nids_conc c) -> tinv G -> N0 <= e_uid G ->
     check_conc md GE G c = Ok tt -> check_conc md GE G (swap_conc s c) = Ok tt) /\
  (forall c G, swap_ok_concs s c = true -> NoDup (nids_concs c) -> tinv G -> N0 <= e_uid G ->
     check_concs md GE G c = Ok tt -> check_concs md GE G (swap_concs s c) = Ok tt).
Proof.
  apply conc_concs_ind; cbn [swap_ok_conc swap_ok_concs]; try discriminate.
  - intros lbl ds b IH G Hok Nd T Hle H. cbn [swap_conc nids_conc] in *. rewrite check_conc_CBlock in *.
    apply NoDup_app_inv in Nd. destruct Nd as [_ [Nd _]]. apply NoDup_app_inv in Nd. destruct Nd as [Nds [Nb Dj]].
    bdes H G' HG'. destruct (tinv_push G T) as [Tp Mp].
    destruct (swap_ok false s ds) eqn:Eds.
    + rewrite (swap_decls_ok RArch [] false ds (push G) G') by (try assumption; try reflexivity).
      cbn [bind]. rewrite (proj2 (swap_concs_id s)); [exact H|].
      intro Hin. apply (Dj s); [apply sites_decls_nids; eapply swap_ok_site; exact Eds|apply (proj2 (sites_concs_nids s)); exact Hin].
    + cbn [orb] in Hok. rewrite swap_decls_id.
      2:{ intro Hin. apply (Dj s); [apply sites_decls_nids; exact Hin|].
          apply (proj2 (sites_concs_nids s)). apply (proj2 (swap_ok_concs_site s)). exact Hok. }
      rewrite HG'. cbn [bind]. destruct (check_decls_tinv md GE N0 GI _ _ _ _ _ HG' Tp) as [T' M']; [exact Hle|].
      apply IH; try assumption. rewrite (proj1 M'). exact Hle.
  - intros c IHc r IHr G Hok Nd T Hle H. cbn [swap_concs nids_concs] in *. rewrite check_concs_CCons in *.
    apply NoDup_app_inv in Nd. destruct Nd as [Nc [Nr Dj]].
    bdes H x Hx. destruct x. destruct (swap_ok_conc s c) eqn:Ec.
    + rewrite (IHc G) by assumption. cbn [bind]. rewrite (proj2 (swap_concs_id s)); [exact H|].
      intro Hin. apply (Dj s); [apply (proj1 (sites_concs_nids s)); apply (proj1 (swap_ok_concs_site s)); exact Ec|
                                apply (proj2 (sites_concs_nids s)); exact Hin].
    + cbn [orb] in Hok. rewrite (proj1 (swap_concs_id s)).
      2:{ intro Hin. apply (Dj s); [apply (proj1 (sites_concs_nids s)); exact Hin|].
          apply (proj2 (sites_concs_nids s)). apply (proj2 (swap_ok_concs_site s)). exact Hok. }
      rewrite Hx. cbn [bind]. apply IHr; assumption.
Qed.
End SwapLift.

Lemma swap_unit_ok md GE LIBS lib uid s u g :
  ginv uid GE -> swap_ok_ubody s (u_body u) = true -> NoDup (nids_dunit u) ->
  check_unit md GE LIBS lib uid u = Ok g ->
  check_unit md GE LIBS lib uid (DUnit (u_ctx u) (swap_ubody s (u_body u))) = Ok g.
Proof.
  intros GI Hok Nd H. unfold check_unit in *. cbn [u_body u_ctx].
  assert (T0 : tinv (env0 uid)) by apply tinv_env0.
  assert (L0 : uid <= e_uid (env0 uid)) by (cbn [env0 e_uid]; lia).
  unfold nids_dunit in Nd. apply NoDup_app_inv in Nd. destruct Nd as [_ [Nd _]].
  destruct (u_body u) as [o ds|o ds|o gs ps|o e ds body|o e a|o items|o gs ds|o l g0 gm];
    cbn [swap_ok_ubody swap_ubody] in *; try discriminate Hok.
  - bdes H x0 H0. bdes H G0 HG0. bdes H G1 HG1. rewrite H0, HG0. cbn [bind].
    destruct (check_ctx_tinv GE uid GI LIBS _ _ _ HG0 T0 L0) as [TG0 MG0].
    rewrite (swap_decls_ok md GE uid GI s RPkg [] false ds _ G1 (fun _ => eq_refl) Hok (tinv_set_home _ _ TG0));
      [|cbn_env; rewrite (proj1 MG0); exact L0|exact HG1].
    cbn [bind]. rewrite swap_flat_map; [exact H|exact Hok|]. intros d. apply decl_obligation_related.
  - destruct (if o_id o =? id_undeclared then None else find_unit GE lib (o_id o)) as [[ex inner obl| | | | |gens ex inner obl| |]|] eqn:Ef;
      try discriminate.
    + destruct (o_id o =? id_undeclared); [discriminate|]. apply (find_unit_inv GE uid GI) in Ef. cbn [kinv] in Ef. destruct Ef as [_ Li].
      bdes H x0 H0. bdes H G0 HG0. bdes H G1 HG1. rewrite H0, HG0. cbn [bind].
      assert (Ti : tinv (set_done (set_home (set_uid inner uid) None) [])).
      { apply tinv_set_done. apply tinv_set_home. eapply envlt_tinv; [exact Li|lia]. }
      destruct (check_ctx_tinv GE uid GI LIBS _ _ _ HG0 Ti) as [TG0 MG0]; [cbn_env; lia|].
      rewrite (swap_decls_ok md GE uid GI s RBody obl true ds _ G1 (fun E => False_ind _ (Bool.diff_true_false E)) Hok TG0);
        [|rewrite (proj1 MG0); cbn_env; lia|exact HG1].
      cbn [bind]. exact H.
    + destruct (o_id o =? id_undeclared); [discriminate|]. apply (find_unit_inv GE uid GI) in Ef. cbn [kinv] in Ef. destruct Ef as [_ Li].
      bdes H x0 H0. bdes H G0 HG0. bdes H G1 HG1. rewrite H0, HG0. cbn [bind].
      assert (Ti : tinv (set_done (set_home (set_uid inner uid) None) [])).
      { apply tinv_set_done. apply tinv_set_home. eapply envlt_tinv; [exact Li|lia]. }
      destruct (check_ctx_tinv GE uid GI LIBS _ _ _ HG0 Ti) as [TG0 MG0]; [cbn_env; lia|].
      rewrite (swap_decls_ok md GE uid GI s RBody obl true ds _ G1 (fun E => False_ind _ (Bool.diff_true_false E)) Hok TG0);
        [|rewrite (proj1 MG0); cbn_env; lia|exact HG1].
      cbn [bind]. exact H.
  - destruct (if o_id e =? id_undeclared then None else find_unit GE lib (o_id e)) as [[| gens ports inner | | | | | |]|] eqn:Ef;
      try discriminate.
    destruct (o_id e =? id_undeclared); [discriminate|]. apply (find_unit_inv GE uid GI) in Ef. cbn [kinv] in Ef.
    bdes H x0 H0. bdes H x1 H1. bdes H G0 HG0. bdes H G1 HG1. bdes H x2 H2. bdes H x3 H3.
    rewrite H0, H1, HG0. cbn [bind].
    assert (Ti : tinv (set_uid inner uid)) by (eapply envlt_tinv; [exact Ef|lia]).
    destruct (check_ctx_tinv GE uid GI LIBS _ _ _ HG0 Ti) as [TG0 MG0]; [cbn_env; lia|].
    assert (L1 : uid <= e_uid G0) by (rewrite (proj1 MG0); cbn_env; lia).
    cbn [nids_ubody] in Nd. apply NoDup_app_inv in Nd. destruct Nd as [_ [Nd _]].
    apply NoDup_app_inv in Nd. destruct Nd as [_ [Nd _]]. apply NoDup_app_inv in Nd. destruct Nd as [Nds [Nb Dj]].
    rewrite (proj2 (labels_swap s)). destruct x3.
    destruct (swap_ok false s ds) eqn:Eds.
    + rewrite (swap_decls_ok md GE uid GI s RArch [] false ds G0 G1 (fun _ => eq_refl) Eds TG0 L1 HG1).
      cbn [bind]. rewrite H2. cbn [bind]. rewrite (proj2 (swap_concs_id s)); [rewrite H3; exact H|].
      intro Hin. apply (Dj s); [apply sites_decls_nids; eapply swap_ok_site; exact Eds|apply (proj2 (sites_concs_nids s)); exact Hin].
    + cbn [orb] in Hok. rewrite swap_decls_id.
      2:{ intro Hin. apply (Dj s); [apply sites_decls_nids; exact Hin|].
          apply (proj2 (sites_concs_nids s)). apply (proj2 (swap_ok_concs_site s)). exact Hok. }
      rewrite HG1. cbn [bind]. rewrite H2. cbn [bind].
      destruct (check_decls_tinv md GE uid GI _ _ _ _ _ HG1 TG0 L1) as [T1 M1].
      assert (L2 : uid <= e_uid G1) by (rewrite (proj1 M1); exact L1).
      rewrite (proj2 (swap_concs_ok md GE uid GI s) body G1 Hok Nb T1 L2 H3). exact H.
  - bdes H x0 H0. bdes H G0 HG0. bdes H Gg HGg. bdes H G1 HG1. rewrite H0, HG0. cbn [bind]. rewrite HGg. cbn [bind].
    destruct (check_ctx_tinv GE uid GI LIBS _ _ _ HG0 T0 L0) as [TG0 MG0].
    destruct (declare_ifaces_tinv md GE uid GI _ _ _ _ HGg (tinv_set_home _ _ TG0)) as [TGg MGg]; [cbn_env; rewrite (proj1 MG0); exact L0|].
    assert (Eg : e_uid Gg = uid) by (rewrite (proj1 MGg); cbn_env; rewrite (proj1 MG0); reflexivity).
    rewrite (swap_decls_ok md GE uid GI s RGen [] false ds Gg G1 (fun _ => eq_refl) Hok TGg); [|rewrite Eg; lia|exact HG1].
    cbn [bind]. rewrite swap_flat_map; [exact H|exact Hok|]. intros d. apply decl_obligation_related.
Qed.
