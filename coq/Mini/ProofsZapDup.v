(* Mini/ProofsZapDup.v — a declaration repeated right after itself is rejected as a duplicate at the name of the copy:
   the checks of the copy that precede its declaration succeed as they did for the original (type marks resolve to
   the same types, initial values have the same interpretations), then the copy's name clashes.  The copy of a
   subprogram body is a second (empty) body: it is rejected at its name before its declarative part and statements
   are looked at, because the first body completed the obligation of the package (e_done) or bound the same
   profile in the current region.  Proofs (used by Mini/ProofsZap.v). *)
From Coq Require Import List NArith Arith Bool Lia.
Import ListNotations.
From RH Require Import Mini.Syntax Mini.Sem Mini.Walk Mini.Faults Mini.ProofsZapSyn Mini.ProofsZapEq Mini.ProofsZapSem
  Mini.ProofsZapAgree.
Open Scope N_scope.

(* ------------------------------------------------------------------------------------------ *)
(* declare                                                                                      *)
(* ------------------------------------------------------------------------------------------ *)
Lemma declare_inv : forall G o k G1, declare G o k = Ok G1 ->
  (o_id o =? id_undeclared) = false /\ existsb (clash k) (e_cur G (o_id o)) = false /\
  existsb (clash k) (e_vis G (o_id o)) = false /\ G1 = bind_raw G (o_id o) (Bnd k (e_home G)).
Proof.
  intros G o k G1 H. unfold declare in H.
  apply bind_ok in H. destruct H as (u1 & E1 & H). apply guard_ok in E1. apply negb_true_iff in E1.
  apply bind_ok in H. destruct H as (u2 & E2 & H). apply guard_ok in E2. apply negb_true_iff in E2.
  apply bind_ok in H. destruct H as (u3 & E3 & H). apply guard_ok in E3. apply negb_true_iff in E3.
  injection H as H. auto.
Qed.
Lemma clash_nonover : forall k b, overloadable k = false -> clash k b = true.
Proof. intros k b H. unfold clash. rewrite H. reflexivity. Qed.
Lemma clash_type : forall k b t own, b_kind b = BType t own -> clash k b = true.
Proof. intros k b t own H. unfold clash. rewrite H. cbn [overloadable]. rewrite andb_false_r. reflexivity. Qed.

Lemma declare_cur : forall G o k G1, declare G o k = Ok G1 -> In (Bnd k (e_home G)) (e_cur G1 (o_id o)).
Proof.
  intros G o k G1 H. apply declare_inv in H. destruct H as (_ & _ & _ & ->).
  cbn [bind_raw e_cur]. unfold fadd. rewrite N.eqb_refl. left; reflexivity.
Qed.
Lemma declare_cur_mono : forall G o k G1 y b, declare G o k = Ok G1 -> In b (e_cur G y) -> In b (e_cur G1 y).
Proof.
  intros G o k G1 y b H Hb. apply declare_inv in H. destruct H as (_ & _ & _ & ->).
  cbn [bind_raw e_cur]. unfold fadd. destruct (y =? o_id o); [right|]; exact Hb.
Qed.
Lemma declare_lits_cur_mono : forall t lits G G1 y b, declare_lits G t lits = Ok G1 -> In b (e_cur G y) -> In b (e_cur G1 y).
Proof.
  intros t. induction lits as [|l r IH]; intros G G1 y b H Hb; cbn [declare_lits] in H.
  - injection H as H; subst; exact Hb.
  - apply bind_ok in H. destruct H as (G' & E & K). eapply IH; [exact K|]. eapply declare_cur_mono; eassumption.
Qed.

Section Dup.
Variable md : mode.
Variable GE : genv.
Variable m : N.
Notation sh := (shift_occ m).

Lemma declare_dup : forall G1 o k b,
  (o_id o =? id_undeclared) = false -> In b (e_cur G1 (o_id o)) -> clash k b = true ->
  declare G1 (sh o) k = Bad (o_nid o + m) Duplicate.
Proof.
  intros G1 o k b H0 Hb Hc. unfold declare. cbn [shift_occ o_id o_nid]. rewrite H0. cbn [negb guard bind].
  assert (E : existsb (clash k) (e_cur G1 (o_id o)) = true) by (apply existsb_exists; exists b; auto).
  rewrite E. reflexivity.
Qed.

(* ------------------------------------------------------------------------------------------ *)
(* type marks resolve as before                                                                 *)
(* ------------------------------------------------------------------------------------------ *)
Definition tystable (G G1 : env) : Prop :=
  e_libs G1 = e_libs G /\ forall y b t own, e_vis G y = [b] -> b_kind b = BType t own -> e_vis G1 y = [b].

Lemma tystable_trans : forall G G1 G2, tystable G G1 -> tystable G1 G2 -> tystable G G2.
Proof.
  intros G G1 G2 (L1 & V1) (L2 & V2). split; [congruence|]. intros y b t own Hy Hb. eapply V2; [|exact Hb]. eapply V1; eassumption.
Qed.
Lemma declare_tystable : forall G o k G1, declare G o k = Ok G1 -> tystable G G1.
Proof.
  intros G o k G1 H. apply declare_inv in H. destruct H as (_ & _ & Hv & ->). split; [reflexivity|].
  intros y b t own Hy Hb. cbn [bind_raw e_vis]. unfold fadd. destruct (N.eqb_spec y (o_id o)) as [E|E]; [|exact Hy].
  subst y. rewrite Hy in Hv. cbn [existsb] in Hv. rewrite (clash_type k b t own Hb) in Hv. discriminate Hv.
Qed.
Lemma declare_lits_tystable : forall t lits G G1, declare_lits G t lits = Ok G1 -> tystable G G1.
Proof.
  intros t. induction lits as [|l r IH]; intros G G1 H; cbn [declare_lits] in H.
  - injection H as H; subst. split; [reflexivity|auto].
  - apply bind_ok in H. destruct H as (G' & E & K). eapply tystable_trans; [eapply declare_tystable; exact E|eapply IH; exact K].
Qed.
Lemma complete_tystable : forall G d x, tystable G (complete_deferred (set_done G d) x).
Proof.
  intros G d x. split; [reflexivity|]. intros y b t own Hy Hb. cbn [complete_deferred set_done e_vis]. unfold fcomplete.
  destruct (y =? x); [|exact Hy]. rewrite Hy. cbn [map]. f_equal. unfold undefer. rewrite Hb. reflexivity.
Qed.

Lemma resolve_stable : forall G G1 t ty,
  tystable G G1 -> resolve_tmark GE G t = Ok ty -> resolve_tmark GE G1 (om_tmark sh t) = Ok ty.
Proof.
  intros G G1 t ty (HL & HVt) H. destruct t as [| | |o|l p o]; cbn [resolve_tmark om_tmark] in *; try exact H.
  - apply bind_ok in H. destruct H as (bs & E & K).
    destruct (type_of_bindings bs) as [t|] eqn:Et; [|discriminate K].
    unfold vis_occ, vis in *. cbn [shift_occ o_id o_nid].
    destruct (o_id o =? id_undeclared); [discriminate E|].
    destruct (e_vis G (o_id o)) as [|b l] eqn:Ev; [discriminate E|].
    destruct (coherent (b :: l)); [|discriminate E]. injection E as E. subst bs.
    destruct l as [|b' l']; [|discriminate Et]. cbn [type_of_bindings] in Et.
    destruct (b_kind b) as [| t' own | | | | |] eqn:Eb; try discriminate Et.
    injection Et as Et. subst t'.
    rewrite (HVt _ _ _ _ Ev Eb). cbn [coherent existsb negb andb bind type_of_bindings]. rewrite Eb. exact K.
  - apply bind_ok in H. destruct H as (bs & E & K).
    rewrite (sel_item_libs GE _ _ _ _ _ HL). rewrite (sel_item_sh GE m _ _ _ _ _ E). cbn [bind].
    destruct (type_of_bindings bs); [exact K|discriminate K].
Qed.
Lemma tmark_ty_stable : forall G G1 t ty,
  tystable G G1 -> resolve_tmark GE G t = Ok ty -> tmark_ty GE G1 (om_tmark sh t) = tmark_ty GE G t.
Proof. intros G G1 t ty Hs H. unfold tmark_ty. rewrite (resolve_stable _ _ _ _ Hs H), H. reflexivity. Qed.

Lemma param_types_copy : forall G G1 ps v,
  tystable G G1 -> check_param_types GE G ps = Ok v ->
  check_param_types GE G1 (map (om_param sh) ps) = Ok tt /\
  map ps_ty (map (param_sig GE G1) (map (om_param sh) ps)) = map ps_ty (map (param_sig GE G) ps).
Proof.
  intros G G1 ps v Hs. unfold check_param_types. revert v.
  induction ps as [|[po pc pm pt] r IH]; intros v H; cbn [map check_list] in *; [split; reflexivity|].
  apply bind_ok in H. destruct H as (u & E & K). apply bind_ok in E. destruct E as (ty & E & _).
  cbn [om_param p_ty p_occ p_cls p_mode] in *. rewrite (resolve_stable _ _ _ _ Hs E). cbn [bind].
  destruct (IH _ K) as (I1 & I2). rewrite I1. split; [reflexivity|]. f_equal; [|exact I2].
  unfold param_sig. cbn [ps_ty p_ty]. eapply tmark_ty_stable; eassumption.
Qed.
Lemma profile_eqb_same : forall a b, map ps_ty a = map ps_ty b -> profile_eqb a b = true.
Proof.
  unfold profile_eqb. induction a as [|x a IH]; intros [|y b] H; try discriminate H; [reflexivity|].
  cbn [map] in H. injection H as H1 H2. specialize (IH _ H2). apply andb_prop in IH. destruct IH as (I1 & I2).
  cbn [length combine forallb fst snd]. apply Nat.eqb_eq in I1. rewrite I1, Nat.eqb_refl. cbn [andb].
  rewrite H1, sty_eqb_refl, I2. reflexivity.
Qed.
Lemma param_ok_sh : forall b ps, forallb (param_ok b) (map (om_param sh) ps) = forallb (param_ok b) ps.
Proof. intros b ps. rewrite forallb_map_c. apply forallb_ext_c. intros [po pc pm pt]. reflexivity. Qed.

Lemma fields_copy : forall G G1 (fs : list (occ * tmark)) v,
  tystable G G1 ->
  check_list (fun f => resolve_tmark GE G (snd f) ;;;
                       guard (negb (o_id (fst f) =? id_undeclared)) (o_nid (fst f)) Conservative) fs = Ok v ->
  check_list (fun f => resolve_tmark GE G1 (snd f) ;;;
                       guard (negb (o_id (fst f) =? id_undeclared)) (o_nid (fst f)) Conservative)
             (map (fun x => (sh (fst x), om_tmark sh (snd x))) fs) = Ok tt.
Proof.
  intros G G1 fs v Hs. revert v. induction fs as [|[o t] r IH]; intros v H; cbn [map check_list fst snd] in *; [reflexivity|].
  apply bind_ok in H. destruct H as (u & E & K). apply bind_ok in E. destruct E as (ty & E & Eg). apply guard_ok in Eg.
  rewrite (resolve_stable _ _ _ _ Hs E). cbn [bind shift_occ o_id o_nid]. rewrite Eg. cbn [guard bind]. eapply IH; exact K.
Qed.

(* ------------------------------------------------------------------------------------------ *)
(* initial values are accepted as before                                                        *)
(* ------------------------------------------------------------------------------------------ *)
Lemma root_copy_declare : forall G o c0 m0 t0 G1 ty e v,
  declare G o (BObj c0 m0 t0) = Ok G1 -> root md GE G ty e = Ok v -> root md GE G1 ty (sh_expr m e) = Ok v.
Proof.
  intros G o c0 m0 t0 G1 ty e v H. apply declare_inv in H. destruct H as (_ & _ & Hv & ->).
  assert (Hnil : e_vis G (o_id o) = []).
  { destruct (e_vis G (o_id o)) as [|b l]; [reflexivity|]. cbn [existsb] in Hv.
    rewrite (clash_nonover _ b (eq_refl : overloadable (BObj c0 m0 t0) = false)) in Hv. discriminate Hv. }
  apply root_copy.
  - reflexivity.
  - intros y Hy. left. unfold vis in *. cbn [bind_raw e_vis]. unfold fadd.
    destruct (y =? id_undeclared); [reflexivity|]. destruct (N.eqb_spec y (o_id o)) as [E|E]; [|reflexivity].
    subst y. rewrite Hnil in Hy. contradiction.
  - intros t. unfold ops_visible. destruct (sty_name t) as [n|]; [|reflexivity]. unfold vis. cbn [bind_raw e_vis].
    unfold fadd. destruct (n =? id_undeclared); [reflexivity|]. destruct (n =? o_id o); [|reflexivity].
    cbn [existsb b_kind]. reflexivity.
Qed.
Lemma root_copy_complete : forall G d x ty e v,
  root md GE G ty e = Ok v -> root md GE (complete_deferred (set_done G d) x) ty (sh_expr m e) = Ok v.
Proof.
  intros G d x ty e v. apply root_copy.
  - reflexivity.
  - intros y Hy. unfold vis in *. cbn [complete_deferred set_done e_vis]. unfold fcomplete.
    destruct (y =? id_undeclared); [contradiction|]. destruct (y =? x); [|left; reflexivity].
    destruct (existsb is_deferred (e_vis G y)) eqn:Ed; [right; auto|left; apply undefer_no_deferred; exact Ed].
  - intros t. unfold ops_visible. destruct (sty_name t) as [n|]; [|reflexivity]. unfold vis.
    cbn [complete_deferred set_done e_vis]. unfold fcomplete.
    destruct (n =? id_undeclared); [reflexivity|]. destruct (n =? x); [|reflexivity].
    induction (e_vis G n) as [|b r IH]; [reflexivity|]. cbn [map existsb]. rewrite IH. f_equal.
    destruct (undefer_kind_cases b) as [E|(E & t' & E')]; [rewrite E; reflexivity|].
    rewrite E'. unfold is_deferred in E. destruct (b_kind b); try discriminate E. reflexivity.
Qed.

(* ------------------------------------------------------------------------------------------ *)
(* the copy of a declaration is a duplicate                                                     *)
(* ------------------------------------------------------------------------------------------ *)
Lemma ob_eqb_refl : forall x t, ob_eqb (x, [], Some t) (x, [], Some t) = true.
Proof. intros x t. unfold ob_eqb. rewrite N.eqb_refl, sty_eqb_refl. reflexivity. Qed.

Lemma ob_eqb_refl_gen : forall ob, ob_eqb ob ob = true.
Proof.
  intros [[x ps] rt]. unfold ob_eqb. rewrite N.eqb_refl, Nat.eqb_refl. cbn [andb].
  assert (E : forallb (fun p => sty_eqb (fst p) (snd p)) (combine ps ps) = true).
  { induction ps as [|t l IH]; [reflexivity|]. cbn [combine forallb fst snd]. rewrite sty_eqb_refl, IH. reflexivity. }
  rewrite E. cbn [andb]. destruct rt as [t|]; [apply sty_eqb_refl|reflexivity].
Qed.
Lemma set_done_tystable : forall G d, tystable G (set_done G d).
Proof. intros G d. split; [reflexivity|]. intros y b t own Hy _. exact Hy. Qed.

Lemma check_decl_copy : forall r obl G d d' G1,
  check_decl md GE r obl G d = Ok G1 -> sh_decl m d = Some d' ->
  check_decl md GE r obl G1 d' = Bad (o_nid (decl_occ d) + m) Duplicate.
Proof.
  intros r obl G d d' G1 H Hs. unfold check_decl in H. apply bind_ok in H. destruct H as (u & Ea & H). apply guard_ok in Ea.
  destruct d as [o td|o t rg|o t i|o t i|o ps rt|o ps|o ps rt ls b|o ps ls b|o gs ps]; cbn [sh_decl] in Hs;
    try discriminate Hs; injection Hs as Hs; subst d'; unfold check_decl; cbn [decl_occ].
  - (* DType *)
    replace (allowed r (DType (sh o) (om_tydef sh td))) with (allowed r (DType o td)) by reflexivity.
    rewrite Ea. cbn [guard bind].
    destruct td as [lits|lo hi|fs|len el]; cbn [om_tydef] in *.
    + apply bind_ok in H. destruct H as (u1 & E1 & H). apply guard_ok in E1.
      apply bind_ok in H. destruct H as (G' & E2 & H).
      rewrite nonempty_map, E1. cbn [guard bind].
      pose proof (declare_inv _ _ _ _ E2) as (H0 & _).
      pose proof (declare_lits_cur_mono _ _ _ _ _ _ H (declare_cur _ _ _ _ E2)) as Hb.
      erewrite declare_dup; [reflexivity | exact H0 | exact Hb | eapply clash_type; reflexivity].
    + apply bind_ok in H. destruct H as (u1 & E1 & H). apply guard_ok in E1. rewrite E1. cbn [guard bind].
      pose proof (declare_inv _ _ _ _ H) as (H0 & _).
      erewrite declare_dup; [reflexivity | exact H0 | eapply declare_cur; exact H | eapply clash_type; reflexivity].
    + apply bind_ok in H. destruct H as (u1 & E1 & H). apply guard_ok in E1.
      apply bind_ok in H. destruct H as (u2 & E2 & H).
      apply bind_ok in H. destruct H as (u3 & E3 & H). apply guard_ok in E3.
      rewrite nonempty_map, E1. cbn [guard bind].
      rewrite (fields_copy _ _ _ _ (declare_tystable _ _ _ _ H) E2). cbn [bind].
      rewrite map_map. cbn [fst shift_occ o_id]. rewrite E3. cbn [guard bind].
      pose proof (declare_inv _ _ _ _ H) as (H0 & _).
      erewrite declare_dup; [reflexivity | exact H0 | eapply declare_cur; exact H | eapply clash_type; reflexivity].
    + apply bind_ok in H. destruct H as (u1 & E1 & H). apply guard_ok in E1.
      apply bind_ok in H. destruct H as (ty & E2 & H).
      rewrite E1. cbn [guard bind]. rewrite (resolve_stable _ _ _ _ (declare_tystable _ _ _ _ H) E2). cbn [bind].
      pose proof (declare_inv _ _ _ _ H) as (H0 & _).
      erewrite declare_dup; [reflexivity | exact H0 | eapply declare_cur; exact H | eapply clash_type; reflexivity].
  - (* DSubtype *)
    replace (allowed r (DSubtype (sh o) (om_tmark sh t) rg)) with (allowed r (DSubtype o t rg)) by reflexivity.
    rewrite Ea. cbn [guard bind].
    apply bind_ok in H. destruct H as (ty & E1 & H). apply bind_ok in H. destruct H as (u2 & E2 & H). apply guard_ok in E2.
    rewrite (resolve_stable _ _ _ _ (declare_tystable _ _ _ _ H) E1). cbn [bind]. rewrite E2. cbn [guard bind].
    pose proof (declare_inv _ _ _ _ H) as (H0 & _).
    erewrite declare_dup; [reflexivity | exact H0 | eapply declare_cur; exact H | eapply clash_type; reflexivity].
  - (* DConst *)
    destruct i as [e|]; cbn [sh_oexpr].
    + replace (allowed r (DConst (sh o) (om_tmark sh t) (Some (sh_expr m e)))) with (allowed r (DConst o t (Some e))) by reflexivity.
      rewrite Ea. cbn [guard bind].
      apply bind_ok in H. destruct H as (ty & E1 & H). apply bind_ok in H. destruct H as (u2 & E2 & H).
      cbn [shift_occ o_id o_nid].
      destruct (existsb (ob_eqb (o_id o, [], Some ty)) obl) eqn:Eo.
      * apply bind_ok in H. destruct H as (u3 & E3 & H). injection H as H. subst G1.
        rewrite (resolve_stable _ _ _ _ (complete_tystable _ _ _) E1). cbn [bind].
        rewrite (root_copy_complete _ _ _ _ _ _ E2). cbn [bind]. rewrite Eo.
        cbn [complete_deferred set_done e_done existsb]. rewrite ob_eqb_refl. reflexivity.
      * rewrite (resolve_stable _ _ _ _ (declare_tystable _ _ _ _ H) E1). cbn [bind].
        rewrite (root_copy_declare _ _ _ _ _ _ _ _ _ H E2). cbn [bind]. rewrite Eo.
        pose proof (declare_inv _ _ _ _ H) as (H0 & _).
        erewrite declare_dup; [reflexivity | exact H0 | eapply declare_cur; exact H | apply clash_nonover; reflexivity].
    + replace (allowed r (DConst (sh o) (om_tmark sh t) None)) with (allowed r (DConst o t None)) by reflexivity.
      rewrite Ea. cbn [guard bind].
      apply bind_ok in H. destruct H as (ty & E1 & H).
      rewrite (resolve_stable _ _ _ _ (declare_tystable _ _ _ _ H) E1). cbn [bind].
      pose proof (declare_inv _ _ _ _ H) as (H0 & _).
      erewrite declare_dup; [reflexivity | exact H0 | eapply declare_cur; exact H | apply clash_nonover; reflexivity].
  - (* DSignal *)
    replace (allowed r (DSignal (sh o) (om_tmark sh t) (sh_oexpr m i))) with (allowed r (DSignal o t i)) by reflexivity.
    rewrite Ea. cbn [guard bind].
    apply bind_ok in H. destruct H as (ty & E1 & H). apply bind_ok in H. destruct H as (u2 & E2 & H).
    rewrite (resolve_stable _ _ _ _ (declare_tystable _ _ _ _ H) E1). cbn [bind].
    assert (Ei : check_oinit md GE G1 ty (sh_oexpr m i) = Ok u2).
    { destruct i as [e|]; cbn [sh_oexpr check_oinit] in *; [|exact E2]. eapply root_copy_declare; eassumption. }
    rewrite Ei. cbn [bind].
    pose proof (declare_inv _ _ _ _ H) as (H0 & _).
    erewrite declare_dup; [reflexivity | exact H0 | eapply declare_cur; exact H | apply clash_nonover; reflexivity].
  - (* DFunDecl *)
    replace (allowed r (DFunDecl (sh o) (map (om_param sh) ps) (om_tmark sh rt))) with (allowed r (DFunDecl o ps rt)) by reflexivity.
    rewrite Ea. cbn [guard bind].
    apply bind_ok in H. destruct H as (u1 & E1 & H). apply bind_ok in H. destruct H as (ty & E2 & H).
    apply bind_ok in H. destruct H as (u3 & E3 & H). apply guard_ok in E3.
    pose proof (declare_tystable _ _ _ _ H) as Hst.
    destruct (param_types_copy _ _ _ _ Hst E1) as (P1 & P2). rewrite P1. cbn [bind].
    rewrite (resolve_stable _ _ _ _ Hst E2). cbn [bind].
    rewrite param_ok_sh, nonempty_map, E3. cbn [guard bind].
    pose proof (declare_inv _ _ _ _ H) as (H0 & _).
    erewrite declare_dup; [reflexivity | exact H0 | eapply declare_cur; exact H |].
    unfold clash. cbn [b_kind overloadable andb negb orb same_profile].
    rewrite (profile_eqb_same _ _ P2), sty_eqb_refl. reflexivity.
  - (* DProcDecl *)
    replace (allowed r (DProcDecl (sh o) (map (om_param sh) ps))) with (allowed r (DProcDecl o ps)) by reflexivity.
    rewrite Ea. cbn [guard bind].
    apply bind_ok in H. destruct H as (u1 & E1 & H).
    apply bind_ok in H. destruct H as (u3 & E3 & H). apply guard_ok in E3.
    pose proof (declare_tystable _ _ _ _ H) as Hst.
    destruct (param_types_copy _ _ _ _ Hst E1) as (P1 & P2). rewrite P1. cbn [bind].
    rewrite param_ok_sh, E3. cbn [guard bind].
    pose proof (declare_inv _ _ _ _ H) as (H0 & _).
    erewrite declare_dup; [reflexivity | exact H0 | eapply declare_cur; exact H |].
    unfold clash. cbn [b_kind overloadable andb negb orb same_profile].
    rewrite (profile_eqb_same _ _ P2). reflexivity.
  - (* DFunBody: the copy is a second, empty body *)
    replace (allowed r (DFunBody (sh o) (map (om_param sh) ps) (om_tmark sh rt) [] SNil))
      with (allowed r (DFunBody o ps rt ls b)) by reflexivity.
    rewrite Ea. cbn [guard bind].
    apply bind_ok in H. destruct H as (u1 & E1 & H). apply bind_ok in H. destruct H as (ty & E2 & H).
    apply bind_ok in H. destruct H as (u3 & E3 & H). apply guard_ok in E3.
    cbv zeta in H. apply bind_ok in H. destruct H as (G' & E4 & H).
    apply bind_ok in H. destruct H as (u5 & _ & H). injection H as H. subst G'.
    assert (Hst : tystable G G1).
    { destruct (existsb (ob_eqb (ob_of_sub (o_id o) (map (param_sig GE G) ps) (Some ty))) obl).
      - apply bind_ok in E4. destruct E4 as (u6 & _ & E4). injection E4 as E4. subst G1. apply set_done_tystable.
      - eapply declare_tystable; exact E4. }
    destruct (param_types_copy _ _ _ _ Hst E1) as (P1 & P2). rewrite P1. cbn [bind].
    rewrite (resolve_stable _ _ _ _ Hst E2). cbn [bind].
    rewrite param_ok_sh, nonempty_map, E3. cbn [guard bind]. cbv zeta.
    unfold ob_of_sub in *. rewrite P2. cbn [shift_occ o_id o_nid].
    destruct (existsb (ob_eqb (o_id o, map ps_ty (map (param_sig GE G) ps), Some ty)) obl) eqn:Eo.
    + apply bind_ok in E4. destruct E4 as (u6 & _ & E4). injection E4 as E4. subst G1.
      cbn [set_done e_done existsb]. rewrite ob_eqb_refl_gen. reflexivity.
    + pose proof (declare_inv _ _ _ _ E4) as (H0 & _).
      erewrite declare_dup; [reflexivity | exact H0 | eapply declare_cur; exact E4 |].
      unfold clash. cbn [b_kind overloadable andb negb orb same_profile].
      rewrite (profile_eqb_same _ _ P2), sty_eqb_refl. reflexivity.
  - (* DProcBody *)
    replace (allowed r (DProcBody (sh o) (map (om_param sh) ps) [] SNil)) with (allowed r (DProcBody o ps ls b)) by reflexivity.
    rewrite Ea. cbn [guard bind].
    apply bind_ok in H. destruct H as (u1 & E1 & H).
    apply bind_ok in H. destruct H as (u3 & E3 & H). apply guard_ok in E3.
    cbv zeta in H. apply bind_ok in H. destruct H as (G' & E4 & H).
    apply bind_ok in H. destruct H as (u5 & _ & H). injection H as H. subst G'.
    assert (Hst : tystable G G1).
    { destruct (existsb (ob_eqb (ob_of_sub (o_id o) (map (param_sig GE G) ps) None)) obl).
      - apply bind_ok in E4. destruct E4 as (u6 & _ & E4). injection E4 as E4. subst G1. apply set_done_tystable.
      - eapply declare_tystable; exact E4. }
    destruct (param_types_copy _ _ _ _ Hst E1) as (P1 & P2). rewrite P1. cbn [bind].
    rewrite param_ok_sh, E3. cbn [guard bind]. cbv zeta.
    unfold ob_of_sub in *. rewrite P2. cbn [shift_occ o_id o_nid].
    destruct (existsb (ob_eqb (o_id o, map ps_ty (map (param_sig GE G) ps), None)) obl) eqn:Eo.
    + apply bind_ok in E4. destruct E4 as (u6 & _ & E4). injection E4 as E4. subst G1.
      cbn [set_done e_done existsb]. rewrite ob_eqb_refl_gen. reflexivity.
    + pose proof (declare_inv _ _ _ _ E4) as (H0 & _).
      erewrite declare_dup; [reflexivity | exact H0 | eapply declare_cur; exact E4 |].
      unfold clash. cbn [b_kind overloadable andb negb orb same_profile].
      rewrite (profile_eqb_same _ _ P2). reflexivity.
Qed.
End Dup.

(* ------------------------------------------------------------------------------------------ *)
(* down to the declaration list that contains the site                                          *)
(* ------------------------------------------------------------------------------------------ *)
Section DupWalk.
Variable md : mode.
Variable s m : N.

Lemma sh_decl_some : forall d, sh_decl 0 d <> None -> exists d', sh_decl m d = Some d'.
Proof. destruct d; cbn [sh_decl]; intro H; try (exfalso; apply H; reflexivity); eexists; reflexivity. Qed.

Lemma dup_site_head : forall d, In s (match sh_decl 0 d with Some _ => [o_nid (decl_occ d)] | None => [] end) ->
  o_nid (decl_occ d) = s /\ sh_decl 0 d <> None.
Proof. intros d H. destruct (sh_decl 0 d); [|destruct H]. destruct H as [H|[]]. split; [exact H|discriminate]. Qed.
Lemma dup_sites_decls_in : forall ds, In s (dup_sites_decls ds) -> In s (flat_map nids_decl ds).
Proof.
  intros ds H. unfold dup_sites_decls in H. apply in_flat_map in H. destruct H as (d & Hd & H).
  apply dup_site_head in H. destruct H as (H & _). apply in_flat_map. exists d. split; [exact Hd|].
  rewrite <- H. apply decl_occ_in.
Qed.

Lemma check_decls_dup : forall GE r obl ds G G',
  NoDup (flat_map nids_decl ds) -> In s (dup_sites_decls ds) -> check_decls md GE r obl G ds = Ok G' ->
  check_decls md GE r obl G (dup_decls s m ds) = Bad (s + m) Duplicate.
Proof.
  intros GE r obl. induction ds as [|d rest IH]; intros G G' Hnd Hin H; [destruct Hin|].
  change (dup_sites_decls (d :: rest))
    with ((match sh_decl 0 d with Some _ => [o_nid (decl_occ d)] | None => [] end) ++ dup_sites_decls rest) in Hin.
  cbn [flat_map check_decls dup_decls] in *. nd. apply bind_ok in H. destruct H as (G1 & E & K).
  apply in_app_or in Hin. destruct (N.eqb_spec (o_nid (decl_occ d)) s) as [En|En].
  - assert (Hs : sh_decl 0 d <> None).
    { destruct Hin as [Hin|Hin]; [apply dup_site_head in Hin; apply Hin|]. exfalso.
      apply dup_sites_decls_in in Hin. apply (DJ s); [rewrite <- En; apply decl_occ_in | exact Hin]. }
    destruct (sh_decl_some d Hs) as (d' & Ed). rewrite Ed. cbn [check_decls]. rewrite E. cbn [bind].
    rewrite (check_decl_copy md GE m _ _ _ _ _ _ E Ed). rewrite En. reflexivity.
  - destruct Hin as [Hin|Hin]; [apply dup_site_head in Hin; destruct Hin as (Hin & _); contradiction|].
    cbn [check_decls]. rewrite E. cbn [bind]. eapply IH; eassumption.
Qed.

Lemma dup_sites_conc_concs_in :
  (forall x, In s (dup_sites_conc x) -> In s (nids_conc x)) /\
  (forall x, In s (dup_sites_concs x) -> In s (nids_concs x)).
Proof.
  apply conc_concs_ind; intros; cbn [dup_sites_conc dup_sites_concs nids_conc nids_concs] in *;
    try match goal with H : In _ [] |- _ => destruct H end.
  - apply in_app_or in H0. rewrite !in_app_iff. destruct H0 as [H0|H0]; [right; left; apply dup_sites_decls_in; exact H0|auto].
  - apply in_app_or in H1. rewrite in_app_iff. destruct H1; auto.
Qed.
Lemma labels_dup :
  (forall x, labels_conc (dup_conc s m x) = labels_conc x) /\
  (forall x, labels_concs (dup_concs s m x) = labels_concs x).
Proof.
  apply conc_concs_ind; intros; cbn [dup_conc dup_concs labels_conc labels_concs]; try reflexivity.
  - rewrite H. reflexivity.
  - rewrite H, H0. reflexivity.
Qed.

Lemma check_conc_concs_dup : forall GE,
  (forall x G v, NoDup (nids_conc x) -> In s (dup_sites_conc x) -> check_conc md GE G x = Ok v ->
     check_conc md GE G (dup_conc s m x) = Bad (s + m) Duplicate) /\
  (forall x G v, NoDup (nids_concs x) -> In s (dup_sites_concs x) -> check_concs md GE G x = Ok v ->
     check_concs md GE G (dup_concs s m x) = Bad (s + m) Duplicate).
Proof.
  intros GE. apply conc_concs_ind; intros; cbn [dup_sites_conc dup_sites_concs nids_conc nids_concs dup_conc dup_concs] in *;
    try match goal with H : In _ [] |- _ => destruct H end.
  - (* CBlock *) rename H into IHb, H0 into Hnd, H1 into Hin, H2 into Hc.
    autorewrite with chkeq in *. nd. apply bind_ok in Hc. destruct Hc as (G' & E & K).
    apply in_app_or in Hin. destruct Hin as [Hin|Hin].
    + erewrite check_decls_dup; [reflexivity | eassumption ..].
    + pose proof (proj2 dup_sites_conc_concs_in _ Hin) as Hi.
      rewrite dup_decls_id by notin. rewrite E. cbn [bind]. eapply IHb; eassumption.
  - (* CCons *) rename H into IHx, H0 into IHr, H1 into Hnd, H2 into Hin, H3 into Hc.
    autorewrite with chkeq in *. nd. apply bind_ok in Hc. destruct Hc as (u & E & K).
    apply in_app_or in Hin. destruct Hin as [Hin|Hin].
    + erewrite IHx; [reflexivity | eassumption ..].
    + pose proof (proj2 dup_sites_conc_concs_in _ Hin) as Hi.
      rewrite (proj1 (dup_conc_concs_id s m)) by notin. rewrite E. cbn [bind]. eapply IHr; eassumption.
Qed.

Definition unit_sites (u : dunit) : list nid :=
  match u_body u with
  | UPkg _ ds | UBody _ ds | UGen _ _ ds => dup_sites_decls ds
  | UArch _ _ ds b => dup_sites_decls ds ++ dup_sites_concs b
  | _ => []
  end.
Definition dupu (u : dunit) : dunit := DUnit (u_ctx u) (dup_ubody s m (u_body u)).

Lemma unit_sites_in : forall u, In s (unit_sites u) -> In s (nids_dunit u).
Proof.
  intros [cx b] H. unfold unit_sites, nids_dunit in *. cbn [u_ctx u_body] in *. apply in_or_app. right.
  destruct b; cbn [nids_ubody]; try destruct H; rewrite ?in_app_iff.
  - right. apply dup_sites_decls_in; exact H.
  - right. apply dup_sites_decls_in; exact H.
  - apply in_app_or in H. destruct H as [H|H]; [right; right; left; apply dup_sites_decls_in; exact H|].
    right; right; right. apply (proj2 dup_sites_conc_concs_in); exact H.
  - right; right. apply dup_sites_decls_in; exact H.
Qed.

Lemma check_unit_dup : forall GE LIBS lib uid u g,
  NoDup (nids_dunit u) -> In s (unit_sites u) -> check_unit md GE LIBS lib uid u = Ok g ->
  check_unit md GE LIBS lib uid (dupu u) = Bad (s + m) Duplicate.
Proof.
  intros GE LIBS lib uid [cx b] g Hnd Hin H. unfold nids_dunit, unit_sites, dupu, check_unit in *.
  cbn [u_ctx u_body] in *.
  destruct b as [o ds|o ds|o gs ps|o e ds body|o e a|o items|o gs ds|o l g0 gm];
    cbn [dup_ubody nids_ubody] in *; try destruct Hin; nd.
  - minv H. okrw. erewrite check_decls_dup; [reflexivity | eassumption ..].
  - destruct (if o_id o =? id_undeclared then None else find_unit GE lib (o_id o))
      as [[ex inner obl| | | | |gs ex inner obl| |]|] eqn:Ek; try discriminate H; minv H; okrw;
      (erewrite check_decls_dup; [reflexivity | eassumption ..]).
  - destruct (if o_id e =? id_undeclared then None else find_unit GE lib (o_id e))
      as [[| gs ps inner | | | | | |]|] eqn:Ek; try discriminate H. minv H. okrw.
    apply in_app_or in Hin. destruct Hin as [Hin|Hin].
    + erewrite check_decls_dup; [reflexivity | eassumption ..].
    + pose proof (proj2 dup_sites_conc_concs_in _ Hin) as Hi.
      rewrite dup_decls_id by notin. okrw. rewrite (proj2 labels_dup). okrw.
      erewrite (proj2 (check_conc_concs_dup GE)); [reflexivity | eassumption ..].
  - minv H. okrw. erewrite check_decls_dup; [reflexivity | eassumption ..].
Qed.

Lemma dupu_id : forall u, ~ In s (nids_dunit u) -> dupu u = u.
Proof. intros u H. unfold dupu, nids_dunit in *. rewrite dup_ubody_id by ni. apply dunit_eta. Qed.

Lemma check_units_dup : forall LIBS lib us GE uid x,
  NoDup (flat_map nids_dunit us) -> In s (flat_map unit_sites us) ->
  check_units md GE LIBS lib uid us = Ok x ->
  check_units md GE LIBS lib uid (map dupu us) = Bad (s + m) Duplicate.
Proof.
  intros LIBS lib. induction us as [|u r IH]; intros GE uid x Hnd Hin H; [destruct Hin|].
  cbn [flat_map map check_units] in *. nd. apply bind_ok in H. destruct H as (g & E & K).
  apply in_app_or in Hin. destruct Hin as [Hin|Hin].
  - erewrite check_unit_dup; [reflexivity | eassumption ..].
  - assert (Hi : In s (flat_map nids_dunit r)).
    { apply in_flat_map in Hin. destruct Hin as (u' & Hu & Hs). apply in_flat_map. exists u'.
      split; [exact Hu | apply unit_sites_in; exact Hs]. }
    rewrite dupu_id by notin. rewrite E. cbn [bind]. eapply IH; eassumption.
Qed.

Lemma check_libs_dup : forall LIBS p GE uid GE',
  NoDup (nids_program p) -> In s (dup_sites p) ->
  check_libs md GE LIBS uid p = Ok GE' ->
  check_libs md GE LIBS uid (map (fun l => Lib (l_name l) (map dupu (l_units l))) p) = Bad (s + m) Duplicate.
Proof.
  intros LIBS. unfold nids_program.
  induction p as [|l r IH]; intros GE uid GE' Hnd Hin H; [destruct Hin|].
  change (dup_sites (l :: r)) with (flat_map unit_sites (l_units l) ++ dup_sites r) in Hin.
  cbn [flat_map map check_libs l_name l_units] in *. unfold nids_library in Hnd at 1. nd.
  apply bind_ok in H. destruct H as (x & E & K).
  apply in_app_or in Hin. destruct Hin as [Hin|Hin].
  - erewrite check_units_dup; [reflexivity | eassumption ..].
  - assert (Hi : In s (flat_map nids_library r)).
    { change (dup_sites r) with (flat_map (fun l => flat_map unit_sites (l_units l)) r) in Hin.
      apply in_flat_map in Hin. destruct Hin as (l' & Hl & Hs). apply in_flat_map. exists l'. split; [exact Hl|].
      unfold nids_library. apply in_flat_map in Hs. destruct Hs as (u' & Hu & Hs). apply in_flat_map. exists u'.
      split; [exact Hu | apply unit_sites_in; exact Hs]. }
    assert (Hid : map dupu (l_units l) = l_units l).
    { apply (map_om_id nids_dunit dupu s); [apply dupu_id|]. notin. }
    rewrite Hid, E. cbn [bind]. eapply IH; eassumption.
Qed.
End DupWalk.
