(* Mini/ProofsPhraseRepl.v — the phrase replacement theorem for Mini/Walk.v (helper of Mini/ProofsPhrase.v).

   `replace_general`: in a valid program with pairwise different node ids, replacing the phrase with id s
   (found by `find_phrase`) gives a program whose verdict is the verdict of the new phrase, checked in the
   environment the walk recorded for the old one.  Proofs only. *)
From Coq Require Import List NArith Arith Bool Lia Permutation Sorting.Sorted Sorting.Mergesort Setoid.
Import ListNotations.
From RH Require Import Mini.Syntax Mini.Sem Mini.Walk.
Open Scope N_scope.

(* ------------------------------------------------------------------------------------------ *)
(* lists                                                                                        *)
(* ------------------------------------------------------------------------------------------ *)
Lemma NoDup_app_inv {A} (a b : list A) :
  NoDup (a ++ b) -> NoDup a /\ NoDup b /\ (forall x, In x a -> In x b -> False).
Proof.
  induction a as [|x a IH]; cbn [app]; intros H.
  - split; [constructor|]. split; [exact H|]. intros x [].
  - inversion H as [|? ? Hx Hr]; subst. destruct (IH Hr) as [Ha [Hb Hd]].
    split.
    + constructor; [|exact Ha]. intro Hin. apply Hx. apply in_or_app. left. exact Hin.
    + split; [exact Hb|]. intros y [Hy|Hy] Hyb.
      * subst y. apply Hx. apply in_or_app. right. exact Hyb.
      * exact (Hd y Hy Hyb).
Qed.
Lemma NoDup_app_intro {A} (a b : list A) :
  NoDup a -> NoDup b -> (forall x, In x a -> In x b -> False) -> NoDup (a ++ b).
Proof.
  induction a as [|x a IH]; cbn [app]; intros Ha Hb Hd.
  - exact Hb.
  - inversion Ha as [|? ? Hx Hr]; subst. constructor.
    + intro Hin. apply in_app_or in Hin. destruct Hin as [Hin|Hin]; [exact (Hx Hin)|].
      exact (Hd x (or_introl eq_refl) Hin).
    + apply IH; [exact Hr|exact Hb|]. intros y Hy Hyb. exact (Hd y (or_intror Hy) Hyb).
Qed.
Lemma NoDup_cons_inv {A} (x : A) (a : list A) : NoDup (x :: a) -> ~ In x a /\ NoDup a.
Proof. intros H. inversion H; subst. split; assumption. Qed.

Lemma find_app {A} (f : A -> bool) (a b : list A) :
  find f (a ++ b) = match find f a with Some x => Some x | None => find f b end.
Proof. induction a as [|x a IH]; cbn [app find]; [reflexivity|]. destruct (f x); [reflexivity|exact IH]. Qed.
Lemma find_app_cases {A} (f : A -> bool) (a b : list A) (i : A) :
  find f (a ++ b) = Some i -> find f a = Some i \/ (find f a = None /\ find f b = Some i).
Proof. rewrite find_app. destruct (find f a); intros H; [left; exact H|right; split; [reflexivity|exact H]]. Qed.

(* ------------------------------------------------------------------------------------------ *)
(* nodup_list                                                                                   *)
(* ------------------------------------------------------------------------------------------ *)
Lemma adjacent_distinct_sorted_NoDup (l : list N) :
  StronglySorted (fun x y => is_true (x <=? y)) l -> adjacent_distinct l = true -> NoDup l.
Proof.
  induction l as [|a r IH]; intros Hs Ha; [constructor|].
  inversion Hs as [|? ? Hr Hall]; subst.
  destruct r as [|b r'].
  - constructor; [intros []|constructor].
  - cbn [adjacent_distinct] in Ha. apply andb_true_iff in Ha. destruct Ha as [Hab Hrest].
    apply negb_true_iff in Hab. apply N.eqb_neq in Hab.
    constructor; [|exact (IH Hr Hrest)].
    intros Hin. inversion Hall as [|? ? Hab' Hall']; subst.
    destruct Hin as [Hin|Hin]; [apply Hab; symmetry; exact Hin|].
    inversion Hr as [|? ? _ Hball]; subst.
    rewrite Forall_forall in Hball. specialize (Hball a Hin).
    apply N.leb_le in Hab'. apply N.leb_le in Hball. apply Hab. lia.
Qed.
Lemma nodup_list_sound (l : list N) : nodup_list l = true -> NoDup l.
Proof.
  unfold nodup_list. intros H.
  apply (Permutation_NoDup (l := NSort.sort l)).
  - apply Permutation_sym. apply NSort.Permuted_sort.
  - apply adjacent_distinct_sorted_NoDup; [|exact H].
    apply NSort.StronglySorted_sort.
    intros x y z Hxy Hyz. unfold is_true in *. apply N.leb_le in Hxy. apply N.leb_le in Hyz. apply N.leb_le. lia.
Qed.

Lemma nodup_idents_NoDup (l : list ident) : nodup_idents l = true <-> NoDup l.
Proof.
  induction l as [|x r IH]; cbn [nodup_idents].
  - split; [constructor|reflexivity].
  - rewrite andb_true_iff, negb_true_iff, IH. split.
    + intros [Hx Hr]. constructor; [|exact Hr]. intro Hin.
      assert (E : existsb (N.eqb x) r = true) by (apply existsb_exists; exists x; split; [exact Hin|apply N.eqb_refl]).
      rewrite E in Hx. discriminate.
    + intros H. inversion H as [|? ? Hx Hr]; subst. split; [|exact Hr].
      destruct (existsb (N.eqb x) r) eqn:E; [|reflexivity].
      apply existsb_exists in E. destruct E as [y [Hy Hxy]]. apply N.eqb_eq in Hxy. subst y. contradiction.
Qed.

(* ------------------------------------------------------------------------------------------ *)
(* error monad                                                                                  *)
(* ------------------------------------------------------------------------------------------ *)
Lemma bind_ok_inv {A B} (r : res A) (f : A -> res B) (b : B) :
  bind r f = Ok b -> exists a, r = Ok a /\ f a = Ok b.
Proof. destruct r as [a|n c]; cbn [bind]; intros H; [exists a; split; [reflexivity|exact H]|discriminate]. Qed.
Lemma guard_ok_inv (b : bool) n c (u : unit) : guard b n c = Ok u -> b = true.
Proof. destruct b; cbn [guard]; intros H; [reflexivity|discriminate]. Qed.
Lemma bind_unit_r (r : res unit) : (r ;;; Ok tt) = r.
Proof. destruct r as [[]|n c]; reflexivity. Qed.
Lemma res_unit_eta (r : res unit) : match r with Ok _ => Ok tt | Bad n c => Bad n c end = r.
Proof. destruct r as [[]|n c]; reflexivity. Qed.

Ltac minv H :=
  cbv beta zeta in H;
  lazymatch type of H with
  | bind _ _ = Ok _ =>
      let a := fresh "a" in let H1 := fresh "E" in let H2 := fresh "E" in
      apply bind_ok_inv in H; destruct H as [a [H1 H2]];
      try (match type of a with unit => destruct a end);
      minv H1; minv H2
  | guard _ _ _ = Ok _ => apply guard_ok_inv in H
  | Ok ?x = Ok _ => first [is_var x; injection H as H; subst x | idtac]
  | _ => idtac
  end.

(* decomposition of NoDup hypotheses; `notin s` proves False / ~ In from the disjointness facts *)
Ltac nd_split :=
  repeat match goal with
  | H : NoDup (_ ++ _) |- _ =>
      let Ha := fresh "Nd" in let Hb := fresh "Nd" in let Hd := fresh "Dj" in
      apply NoDup_app_inv in H; destruct H as [Ha [Hb Hd]]
  | H : NoDup (_ :: _) |- _ =>
      let Ha := fresh "Nh" in let Hb := fresh "Nd" in
      apply NoDup_cons_inv in H; destruct H as [Ha Hb]
  end.
Ltac in_norm :=
  repeat (cbn [In] in *;
          match goal with
          | H : context [In _ (_ ++ _)] |- _ => rewrite in_app_iff in H
          | |- context [In _ (_ ++ _)] => rewrite in_app_iff
          end);
  cbn [In] in *.
Ltac notin s :=
  repeat match goal with Hd : forall x, In x _ -> In x _ -> False |- _ => specialize (Hd s) end;
  in_norm; tauto.
Ltac in_tac := in_norm; tauto.

Lemma flat_map_cons {A B} (f : A -> list B) x l : flat_map f (x :: l) = f x ++ flat_map f l.
Proof. reflexivity. Qed.

Section Repl.
Variable s : nid.
Variable fs : stmt -> stmt.
Variable fc : conc -> conc.
Variable fe : expr -> expr.

Definition is_s (i : pinfo) : bool := pi_id i =? s.

Lemma find_is_s_in l i : find is_s l = Some i -> In i l /\ pi_id i = s.
Proof. intros H. apply find_some in H. destruct H as [H1 H2]. split; [exact H1|]. apply N.eqb_eq. exact H2. Qed.

(* ------------------------------------------------------------------------------------------ *)
(* (C) sub_X x = x when s is no node id of x                                                    *)
(* ------------------------------------------------------------------------------------------ *)
Lemma map_id_flat {A} (f : A -> A) (ids : A -> list nid) (l : list A) :
  (forall x, ~ In s (ids x) -> f x = x) -> ~ In s (flat_map ids l) -> map f l = l.
Proof.
  intros Hf. induction l as [|x r IH]; intros Hn; [reflexivity|].
  rewrite flat_map_cons in Hn. cbn [map]. rewrite Hf, IH; [reflexivity| |]; in_tac.
Qed.

Lemma stmt_nid_in x : In (stmt_nid x) (nids_stmt x).
Proof.
  destruct x; cbn [stmt_nid nids_stmt]; try (left; reflexivity).
  apply in_or_app. left. destruct f; cbn; tauto.
Qed.
Lemma stmt_nid_neq x : ~ In s (nids_stmt x) -> (stmt_nid x =? s) = false.
Proof. intros H. apply N.eqb_neq. intro Hc. apply H. rewrite <- Hc. apply stmt_nid_in. Qed.
Lemma sub_stmt_unfold x : sub_stmt s fs x =
  if stmt_nid x =? s then fs x else
  match x with
  | SIf i c th el => SIf i c (sub_stmts s fs th) (sub_stmts s fs el)
  | SCase i sel alts oth => SCase i sel (sub_calts s fs alts) (sub_stmts s fs oth)
  | SFor i v lo hi b => SFor i v lo hi (sub_stmts s fs b)
  | SWhile i c b => SWhile i c (sub_stmts s fs b)
  | _ => x
  end.
Proof. destruct x; reflexivity. Qed.

Lemma sub_stmts_cons x r : sub_stmts s fs (SCons x r) = SCons (sub_stmt s fs x) (sub_stmts s fs r).
Proof. reflexivity. Qed.
Lemma sub_calts_cons cs b r : sub_calts s fs (CACons cs b r) = CACons cs (sub_stmts s fs b) (sub_calts s fs r).
Proof. reflexivity. Qed.

Lemma sub_stmt_id :
  (forall x, ~ In s (nids_stmt x) -> sub_stmt s fs x = x) /\
  (forall x, ~ In s (nids_stmts x) -> sub_stmts s fs x = x) /\
  (forall x, ~ In s (nids_calts x) -> sub_calts s fs x = x).
Proof.
  apply stmt_stmts_calts_ind.
  - intros i t e Hn. rewrite sub_stmt_unfold, (stmt_nid_neq _ Hn). reflexivity.
  - intros i t e Hn. rewrite sub_stmt_unfold, (stmt_nid_neq _ Hn). reflexivity.
  - intros i c th IHth el IHel Hn. rewrite sub_stmt_unfold, (stmt_nid_neq _ Hn).
    cbn [nids_stmt] in Hn. rewrite IHth, IHel; [reflexivity| |]; in_tac.
  - intros i sel alts IHa oth IHo Hn. rewrite sub_stmt_unfold, (stmt_nid_neq _ Hn).
    cbn [nids_stmt] in Hn. rewrite IHa, IHo; [reflexivity| |]; in_tac.
  - intros i v lo hi b IHb Hn. rewrite sub_stmt_unfold, (stmt_nid_neq _ Hn).
    cbn [nids_stmt] in Hn. rewrite IHb; [reflexivity|]; in_tac.
  - intros i c b IHb Hn. rewrite sub_stmt_unfold, (stmt_nid_neq _ Hn).
    cbn [nids_stmt] in Hn. rewrite IHb; [reflexivity|]; in_tac.
  - intros f a Hn. rewrite sub_stmt_unfold, (stmt_nid_neq _ Hn). reflexivity.
  - intros i e Hn. rewrite sub_stmt_unfold, (stmt_nid_neq _ Hn). reflexivity.
  - intros i Hn. rewrite sub_stmt_unfold, (stmt_nid_neq _ Hn). reflexivity.
  - intros _. reflexivity.
  - intros x IHx r IHr Hn. cbn [nids_stmts] in Hn. rewrite sub_stmts_cons, IHx, IHr; [reflexivity| |]; in_tac.
  - intros _. reflexivity.
  - intros cs b IHb r IHr Hn. cbn [nids_calts] in Hn. rewrite sub_calts_cons, IHb, IHr; [reflexivity| |]; in_tac.
Qed.
Definition sub_stmts_id := proj1 (proj2 sub_stmt_id).

Lemma sub_oinit_id o e : o_nid o <> s -> sub_oinit s fe o e = e.
Proof. intros H. apply N.eqb_neq in H. unfold sub_oinit. rewrite H. destruct e; reflexivity. Qed.
Lemma sub_ldecl_id d : ~ In s (nids_ldecl d) -> sub_ldecl s fe d = d.
Proof.
  destruct d as [o t i|o t i]; cbn [nids_ldecl nids_occ sub_ldecl]; intros Hn.
  - rewrite sub_oinit_id; [reflexivity|]. intro Hc. apply Hn. left. exact Hc.
  - assert (E : (o_nid o =? s) = false) by (apply N.eqb_neq; intro Hc; apply Hn; left; exact Hc).
    rewrite E. reflexivity.
Qed.
Lemma sub_ldecls_id ls : ~ In s (flat_map nids_ldecl ls) -> map (sub_ldecl s fe) ls = ls.
Proof. apply map_id_flat. exact sub_ldecl_id. Qed.
Lemma sub_iface_id i : ~ In s (nids_iface i) -> sub_iface s fe i = i.
Proof.
  destruct i as [o m t d]; unfold sub_iface, nids_iface; cbn [i_occ i_mode i_ty i_def nids_occ]; intros Hn.
  rewrite sub_oinit_id; [reflexivity|]. intro Hc. apply Hn. left. exact Hc.
Qed.
Lemma sub_ifaces_id l : ~ In s (flat_map nids_iface l) -> map (sub_iface s fe) l = l.
Proof. apply map_id_flat. exact sub_iface_id. Qed.
Lemma sub_decl_id d : ~ In s (nids_decl d) -> sub_decl s fs fe d = d.
Proof.
  destruct d; cbn [nids_decl nids_occ sub_decl]; intros Hn; try reflexivity.
  - rewrite sub_oinit_id; [reflexivity|]. intro Hc. apply Hn. left. exact Hc.
  - rewrite sub_oinit_id; [reflexivity|]. intro Hc. apply Hn. left. exact Hc.
  - rewrite sub_ldecls_id, sub_stmts_id; [reflexivity| |]; in_tac.
  - rewrite sub_ldecls_id, sub_stmts_id; [reflexivity| |]; in_tac.
  - rewrite !sub_ifaces_id; [reflexivity| |]; in_tac.
Qed.
Lemma sub_decls_id ds : ~ In s (flat_map nids_decl ds) -> map (sub_decl s fs fe) ds = ds.
Proof. apply map_id_flat. exact sub_decl_id. Qed.

Lemma conc_nid_in c : In (conc_nid c) (nids_conc c).
Proof. destruct c; cbn [conc_nid nids_conc nids_occ app]; left; reflexivity. Qed.
Lemma conc_nid_neq c : ~ In s (nids_conc c) -> (conc_nid c =? s) = false.
Proof. intros H. apply N.eqb_neq. intro Hc. apply H. rewrite <- Hc. apply conc_nid_in. Qed.
Lemma sub_conc_unfold c : sub_conc s fs fc fe c =
  if conc_nid c =? s then fc c else
  match c with
  | CProc l sens ls b => CProc l sens (map (sub_ldecl s fe) ls) (sub_stmts s fs b)
  | CBlock l ds b => CBlock l (map (sub_decl s fs fe) ds) (sub_concs s fs fc fe b)
  | _ => c
  end.
Proof. destruct c; reflexivity. Qed.
Lemma sub_concs_cons x r : sub_concs s fs fc fe (CCons x r) = CCons (sub_conc s fs fc fe x) (sub_concs s fs fc fe r).
Proof. reflexivity. Qed.
Lemma sub_conc_id :
  (forall c, ~ In s (nids_conc c) -> sub_conc s fs fc fe c = c) /\
  (forall c, ~ In s (nids_concs c) -> sub_concs s fs fc fe c = c).
Proof.
  apply conc_concs_ind.
  - intros l sens ls b Hn. rewrite sub_conc_unfold, (conc_nid_neq _ Hn). cbn [nids_conc] in Hn.
    rewrite sub_ldecls_id, sub_stmts_id; [reflexivity| |]; in_tac.
  - intros l t e Hn. rewrite sub_conc_unfold, (conc_nid_neq _ Hn). reflexivity.
  - intros l ds b IHb Hn. rewrite sub_conc_unfold, (conc_nid_neq _ Hn). cbn [nids_conc] in Hn.
    rewrite sub_decls_id, IHb; [reflexivity| |]; in_tac.
  - intros l lb e a gm pm Hn. rewrite sub_conc_unfold, (conc_nid_neq _ Hn). reflexivity.
  - intros l c gm pm Hn. rewrite sub_conc_unfold, (conc_nid_neq _ Hn). reflexivity.
  - intros _. reflexivity.
  - intros x IHx r IHr Hn. cbn [nids_concs] in Hn. rewrite sub_concs_cons, IHx, IHr; [reflexivity| |]; in_tac.
Qed.
Definition sub_concs_id := proj2 sub_conc_id.

Lemma sub_dunit_id u : ~ In s (nids_dunit u) -> sub_dunit s fs fc fe u = u.
Proof.
  destruct u as [ctx b]. unfold sub_dunit, nids_dunit. cbn [u_ctx u_body]. intros Hn. f_equal.
  destruct b; cbn [nids_ubody sub_ubody] in *; try reflexivity.
  - rewrite sub_decls_id; [reflexivity|]; in_tac.
  - rewrite sub_decls_id; [reflexivity|]; in_tac.
  - rewrite !sub_ifaces_id; [reflexivity| |]; in_tac.
  - rewrite sub_decls_id, sub_concs_id; [reflexivity| |]; in_tac.
  - rewrite sub_ifaces_id, sub_decls_id; [reflexivity| |]; in_tac.
Qed.
Lemma sub_dunits_id us : ~ In s (flat_map nids_dunit us) -> map (sub_dunit s fs fc fe) us = us.
Proof. apply map_id_flat. exact sub_dunit_id. Qed.
Lemma sub_library_id l : ~ In s (nids_library l) -> Lib (l_name l) (map (sub_dunit s fs fc fe) (l_units l)) = l.
Proof. destruct l as [n us]. unfold nids_library. cbn [l_name l_units]. intros Hn. rewrite sub_dunits_id; [reflexivity|exact Hn]. Qed.
Lemma sub_program_id p : ~ In s (nids_program p) -> sub_program s fs fc fe p = p.
Proof. unfold sub_program, nids_program. apply (map_id_flat (fun l => Lib (l_name l) (map (sub_dunit s fs fc fe) (l_units l)))). exact sub_library_id. Qed.

(* ------------------------------------------------------------------------------------------ *)
(* (I) the ids of the phrases of x are node ids of x                                            *)
(* ------------------------------------------------------------------------------------------ *)
Section WithGE.
Variable md : mode.
Variable GE : genv.

Definition stmt_inner (G : env) (x : stmt) : list pinfo :=
  match x with
  | SIf _ _ th el => walk_stmts GE G th ++ walk_stmts GE G el
  | SCase _ _ alts oth => walk_calts GE G alts ++ walk_stmts GE G oth
  | SFor _ v _ _ b => ok_env (declare (push G) v (BObj KConst MNone SInt)) (fun G' => walk_stmts GE G' b)
  | SWhile _ _ b => walk_stmts GE G b
  | _ => []
  end.
Lemma walk_stmt_unfold G x : walk_stmt GE G x = PInfo (stmt_nid x) GE G (PStmt x) :: stmt_inner G x.
Proof. destruct x; reflexivity. Qed.
Lemma walk_stmts_cons G x r : walk_stmts GE G (SCons x r) = walk_stmt GE G x ++ walk_stmts GE G r.
Proof. reflexivity. Qed.
Lemma walk_calts_cons G cs b r : walk_calts GE G (CACons cs b r) = walk_stmts GE G b ++ walk_calts GE G r.
Proof. reflexivity. Qed.

Ltac stmt_head H j :=
  rewrite walk_stmt_unfold in H; destruct H as [H|H]; [subst j; apply stmt_nid_in|]; cbn [stmt_inner] in H.

Lemma walk_stmt_ids :
  (forall x G i, In i (walk_stmt GE G x) -> In (pi_id i) (nids_stmt x)) /\
  (forall x G i, In i (walk_stmts GE G x) -> In (pi_id i) (nids_stmts x)) /\
  (forall x G i, In i (walk_calts GE G x) -> In (pi_id i) (nids_calts x)).
Proof.
  apply stmt_stmts_calts_ind.
  - intros i t e G j H. stmt_head H j. destruct H.
  - intros i t e G j H. stmt_head H j. destruct H.
  - intros i c th IHth el IHel G j H. stmt_head H j.
    apply in_app_or in H. destruct H as [H|H]; [apply IHth in H|apply IHel in H]; cbn [nids_stmt]; in_tac.
  - intros i sel alts IHa oth IHo G j H. stmt_head H j.
    apply in_app_or in H. destruct H as [H|H]; [apply IHa in H|apply IHo in H]; cbn [nids_stmt]; in_tac.
  - intros i v lo hi b IHb G j H. stmt_head H j.
    destruct (declare (push G) v (BObj KConst MNone SInt)) as [G'|n c]; cbn [ok_env] in H; [|destruct H].
    apply IHb in H. cbn [nids_stmt]. in_tac.
  - intros i c b IHb G j H. stmt_head H j. apply IHb in H. cbn [nids_stmt]. in_tac.
  - intros f a G j H. stmt_head H j. destruct H.
  - intros i e G j H. stmt_head H j. destruct H.
  - intros i G j H. stmt_head H j. destruct H.
  - intros G j H. destruct H.
  - intros x IHx r IHr G j H. rewrite walk_stmts_cons in H.
    apply in_app_or in H. destruct H as [H|H]; [apply IHx in H|apply IHr in H]; cbn [nids_stmts]; in_tac.
  - intros G j H. destruct H.
  - intros cs b IHb r IHr G j H. rewrite walk_calts_cons in H.
    apply in_app_or in H. destruct H as [H|H]; [apply IHb in H|apply IHr in H]; cbn [nids_calts]; in_tac.
Qed.
Definition walk_stmts_ids := proj1 (proj2 walk_stmt_ids).

Lemma init_info_in G o t e i : In i (init_info GE G o t e) -> pi_id i = o_nid o.
Proof. destruct e; cbn [init_info In]; intros H; [|destruct H]. destruct H as [H|[]]. subst i. reflexivity. Qed.
Lemma walk_ldecl_ids G d i : In i (walk_ldecl GE G d) -> In (pi_id i) (nids_ldecl d).
Proof.
  destruct d; cbn [walk_ldecl nids_ldecl nids_occ]; intros H; apply init_info_in in H; rewrite H; left; reflexivity.
Qed.
Lemma walk_ldecls_ids ds : forall G k i,
  In i (walk_ldecls md GE G ds k) -> In (pi_id i) (flat_map nids_ldecl ds) \/ exists G', In i (k G').
Proof.
  induction ds as [|d r IH]; intros G k i H; cbn [walk_ldecls] in H.
  - right. exists G. exact H.
  - rewrite flat_map_cons. apply in_app_or in H. destruct H as [H|H].
    + apply walk_ldecl_ids in H. left. in_tac.
    + destruct (check_ldecl md GE G d) as [G1|n c]; cbn [ok_env] in H; [|destruct H].
      apply IH in H. destruct H as [H|H]; [left; in_tac|right; exact H].
Qed.
Lemma walk_ifaces_ids c l : forall G k i,
  In i (walk_ifaces md GE c G l k) -> In (pi_id i) (flat_map nids_iface l) \/ exists G', In i (k G').
Proof.
  induction l as [|d r IH]; intros G k i H; cbn [walk_ifaces] in H.
  - right. exists G. exact H.
  - rewrite flat_map_cons. apply in_app_or in H. destruct H as [H|H].
    + apply init_info_in in H. left. unfold nids_iface, nids_occ. rewrite H. in_tac.
    + destruct (declare_ifaces md GE c G [d]) as [G1|n c0]; cbn [ok_env] in H; [|destruct H].
      apply IH in H. destruct H as [H|H]; [left; in_tac|right; exact H].
Qed.
Lemma walk_sub_body_ids G ps ret ls b i :
  In i (walk_sub_body md GE G ps ret ls b) -> In (pi_id i) (flat_map nids_ldecl ls ++ nids_stmts b).
Proof.
  unfold walk_sub_body. destruct (declare_params GE _ ps) as [G1|n c]; cbn [ok_env]; intros H; [|destruct H].
  apply walk_ldecls_ids in H. destruct H as [H|[G' H]]; [|apply walk_stmts_ids in H]; in_tac.
Qed.
Lemma walk_decl_ids G G' d i : In i (walk_decl md GE G G' d) -> In (pi_id i) (nids_decl d).
Proof.
  destruct d; cbn [walk_decl nids_decl nids_occ]; intros H; try (destruct H; fail).
  - apply init_info_in in H. rewrite H. left. reflexivity.
  - apply init_info_in in H. rewrite H. left. reflexivity.
  - apply walk_sub_body_ids in H. in_tac.
  - apply walk_sub_body_ids in H. in_tac.
  - apply walk_ifaces_ids in H. destruct H as [H|[Gg H]]; [in_tac|].
    apply walk_ifaces_ids in H. destruct H as [H|[Gp H]]; [in_tac|destruct H].
Qed.
Lemma walk_decls_ids rg obl ds : forall G k i,
  In i (walk_decls md GE rg obl G ds k) -> In (pi_id i) (flat_map nids_decl ds) \/ exists G', In i (k G').
Proof.
  induction ds as [|d r IH]; intros G k i H; cbn [walk_decls] in H.
  - right. exists G. exact H.
  - rewrite flat_map_cons.
    destruct (check_decl md GE rg obl G d) as [G1|n c]; cbn [ok_env] in H; [|destruct H].
    apply in_app_or in H. destruct H as [H|H].
    + apply walk_decl_ids in H. left. in_tac.
    + apply IH in H. destruct H as [H|H]; [left; in_tac|right; exact H].
Qed.

Definition conc_inner (G : env) (c : conc) : list pinfo :=
  match c with
  | CProc _ _ ls b => walk_ldecls md GE (push G) ls (fun G' => walk_stmts GE G' b)
  | CBlock _ ds b => walk_decls md GE RArch [] (push G) ds (fun G' => walk_concs md GE G' b)
  | _ => []
  end.
Lemma walk_conc_unfold G c : walk_conc md GE G c = PInfo (conc_nid c) GE G (PConc c) :: conc_inner G c.
Proof. destruct c; reflexivity. Qed.
Lemma walk_concs_cons G x r : walk_concs md GE G (CCons x r) = walk_conc md GE G x ++ walk_concs md GE G r.
Proof. reflexivity. Qed.

Ltac conc_head H j :=
  rewrite walk_conc_unfold in H; destruct H as [H|H]; [subst j; apply conc_nid_in|]; cbn [conc_inner] in H.
Lemma walk_conc_ids :
  (forall c G i, In i (walk_conc md GE G c) -> In (pi_id i) (nids_conc c)) /\
  (forall c G i, In i (walk_concs md GE G c) -> In (pi_id i) (nids_concs c)).
Proof.
  apply conc_concs_ind.
  - intros l sens ls b G j H. conc_head H j. cbn [nids_conc].
    apply walk_ldecls_ids in H. destruct H as [H|[G' H]]; [|apply walk_stmts_ids in H]; in_tac.
  - intros l t e G j H. conc_head H j. destruct H.
  - intros l ds b IHb G j H. conc_head H j. cbn [nids_conc].
    apply walk_decls_ids in H. destruct H as [H|[G' H]]; [|apply IHb in H]; in_tac.
  - intros l lb e a gm pm G j H. conc_head H j. destruct H.
  - intros l c gm pm G j H. conc_head H j. destruct H.
  - intros G j H. destruct H.
  - intros x IHx r IHr G j H. rewrite walk_concs_cons in H.
    apply in_app_or in H. destruct H as [H|H]; [apply IHx in H|apply IHr in H]; cbn [nids_concs]; in_tac.
Qed.
Definition walk_concs_ids := proj2 walk_conc_ids.

End WithGE.

Lemma walk_unit_ids md GE LIBS lib uid u i :
  In i (walk_unit md GE LIBS lib uid u) -> In (pi_id i) (nids_dunit u).
Proof.
  unfold walk_unit, nids_dunit. destruct u as [ctx b]. cbn [u_ctx u_body].
  destruct b; cbn [nids_ubody]; intros H; try (destruct H; fail).
  - destruct (check_ctx GE LIBS (env0 uid) ctx) as [G0|n c]; cbn [ok_env] in H; [|destruct H].
    apply walk_decls_ids in H. destruct H as [H|[G' H]]; [in_tac|destruct H].
  - destruct (find_unit GE lib (o_id o)) as [[ex inner obl|? ? ?|?| |?|gs ex inner obl|?| ]|]; try (destruct H; fail).
    + destruct (check_ctx GE LIBS _ ctx) as [G0|n c]; cbn [ok_env] in H; [|destruct H].
      apply walk_decls_ids in H. destruct H as [H|[G' H]]; [in_tac|destruct H].
    + destruct (check_ctx GE LIBS _ ctx) as [G0|n c]; cbn [ok_env] in H; [|destruct H].
      apply walk_decls_ids in H. destruct H as [H|[G' H]]; [in_tac|destruct H].
  - destruct (check_ctx GE LIBS (env0 uid) ctx) as [G0|n c]; cbn [ok_env] in H; [|destruct H].
    apply walk_ifaces_ids in H. destruct H as [H|[Gg H]]; [in_tac|].
    apply walk_ifaces_ids in H. destruct H as [H|[Gp H]]; [in_tac|destruct H].
  - destruct (find_unit GE lib (o_id ent)) as [[| ? ? inner | | | | | | ]|]; try (destruct H; fail).
    destruct (check_ctx GE LIBS _ ctx) as [G0|n c]; cbn [ok_env] in H; [|destruct H].
    apply walk_decls_ids in H. destruct H as [H|[G' H]]; [in_tac|].
    apply walk_concs_ids in H. in_tac.
  - destruct (check_ctx GE LIBS (env0 uid) ctx) as [G0|n c]; cbn [ok_env] in H; [|destruct H].
    apply walk_ifaces_ids in H. destruct H as [H|[Gg H]]; [in_tac|].
    apply walk_decls_ids in H. destruct H as [H|[G' H]]; [in_tac|destruct H].
Qed.
Lemma walk_units_ids md LIBS lib us : forall GE uid k i,
  In i (walk_units md GE LIBS lib uid us k) ->
  In (pi_id i) (flat_map nids_dunit us) \/ exists GE' uid', In i (k GE' uid').
Proof.
  induction us as [|u r IH]; intros GE uid k i H; cbn [walk_units] in H.
  - right. exists GE, uid. exact H.
  - rewrite flat_map_cons. apply in_app_or in H. destruct H as [H|H].
    + apply walk_unit_ids in H. left. in_tac.
    + destruct (check_unit md GE LIBS lib uid u) as [g|n c]; [|destruct H].
      apply IH in H. destruct H as [H|H]; [left; in_tac|right; exact H].
Qed.
Lemma walk_libs_ids md LIBS ls : forall GE uid i,
  In i (walk_libs md GE LIBS uid ls) -> In (pi_id i) (flat_map nids_library ls).
Proof.
  induction ls as [|l r IH]; intros GE uid i H; cbn [walk_libs] in H; [destruct H|].
  rewrite flat_map_cons. apply walk_units_ids in H. destruct H as [H|[GE' [uid' H]]].
  - unfold nids_library at 1. in_tac.
  - apply IH in H. in_tac.
Qed.

(* ------------------------------------------------------------------------------------------ *)
(* (B) the verdict after replacing the phrase with id s                                         *)
(* ------------------------------------------------------------------------------------------ *)
Definition app_ph (ph : phrase) : phrase :=
  match ph with
  | PStmt x => PStmt (fs x)
  | PConc c => PConc (fc c)
  | PInit ty e => PInit ty (fe e)
  end.

Ltac fin :=
  repeat first
    [ progress cbn [bind guard]
    | match goal with H : ?X = Ok _ |- context [?X] => rewrite H end
    | match goal with H : ?X = true |- context [?X] => rewrite H end ].

Section WithGE2.
Variable md : mode.
Variable GE : genv.

Definition Vf (i : pinfo) : res unit := check_phrase md (pi_GE i) (pi_G i) (app_ph (pi_ph i)).

Ltac fin_v j := fin; generalize (Vf j); intros [[]|? ?]; fin; reflexivity.

Lemma find_walk_stmt G x :
  find is_s (walk_stmt GE G x) =
  if stmt_nid x =? s then Some (PInfo (stmt_nid x) GE G (PStmt x)) else find is_s (stmt_inner GE G x).
Proof. rewrite walk_stmt_unfold. reflexivity. Qed.
Lemma stmt_headB G x j :
  (stmt_nid x =? s) = true -> find is_s (walk_stmt GE G x) = Some j -> check_stmt md GE G (fs x) = Vf j.
Proof. intros E H. rewrite find_walk_stmt, E in H. injection H as H. subst j. reflexivity. Qed.

Lemma find_stmt_in G x j : find is_s (walk_stmt GE G x) = Some j -> In s (nids_stmt x).
Proof. intros H. apply find_is_s_in in H. destruct H as [H1 H2]. rewrite <- H2. exact (proj1 (walk_stmt_ids GE) x G j H1). Qed.
Lemma find_stmts_in G x j : find is_s (walk_stmts GE G x) = Some j -> In s (nids_stmts x).
Proof. intros H. apply find_is_s_in in H. destruct H as [H1 H2]. rewrite <- H2. exact (walk_stmts_ids GE x G j H1). Qed.
Lemma find_calts_in G x j : find is_s (walk_calts GE G x) = Some j -> In s (nids_calts x).
Proof. intros H. apply find_is_s_in in H. destruct H as [H1 H2]. rewrite <- H2. exact (proj2 (proj2 (walk_stmt_ids GE)) x G j H1). Qed.

Lemma check_stmt_SIf G i c th el :
  check_stmt md GE G (SIf i c th el) = (root md GE G SBool c ;;; check_stmts md GE G th ;;; check_stmts md GE G el).
Proof. reflexivity. Qed.
Lemma check_stmt_SCase G i sel alts oth :
  check_stmt md GE G (SCase i sel alts oth) =
  (o <- obj_name md GE G sel ;;
   guard (match snd o with SEnum _ _ _ | SInt | SIntT _ _ | SBool | SBit => true | _ => false end) (root_nid_name sel) Other ;;;
   guard (nodup_keys (map cchoice_key (calts_choices alts))) i Conservative ;;;
   check_calts md GE G (snd o) alts ;;;
   check_stmts md GE G oth).
Proof. reflexivity. Qed.
Lemma check_stmt_SFor G i v lo hi b :
  check_stmt md GE G (SFor i v lo hi b) =
  (G' <- declare (push G) v (BObj KConst MNone SInt) ;; check_stmts md GE G' b).
Proof. reflexivity. Qed.
Lemma check_stmt_SWhile G i c b :
  check_stmt md GE G (SWhile i c b) = (root md GE G SBool c ;;; check_stmts md GE G b).
Proof. reflexivity. Qed.
Lemma check_stmts_cons G x r :
  check_stmts md GE G (SCons x r) = (check_stmt md GE G x ;;; check_stmts md GE G r).
Proof. reflexivity. Qed.
Lemma check_calts_cons G t cs b r :
  check_calts md GE G t (CACons cs b r) =
  (check_list (check_cchoice G t) cs ;;; check_stmts md GE G b ;;; check_calts md GE G t r).
Proof. reflexivity. Qed.
Lemma calts_choices_sub a : calts_choices (sub_calts s fs a) = calts_choices a.
Proof. induction a as [|cs b r IH]; [reflexivity|]. rewrite sub_calts_cons. cbn [calts_choices]. rewrite IH. reflexivity. Qed.

Ltac stmt_leaf :=
  intros; rewrite sub_stmt_unfold; destruct (stmt_nid _ =? s) eqn:E;
  [eapply stmt_headB; eassumption
  |match goal with Hf : find _ _ = Some _ |- _ =>
     rewrite find_walk_stmt, E in Hf; cbn [stmt_inner find] in Hf; discriminate Hf end].
Ltac stmt_start Hf :=
  rewrite sub_stmt_unfold; destruct (stmt_nid _ =? s) eqn:E; [eapply stmt_headB; eassumption|];
  rewrite find_walk_stmt, E in Hf; cbn [stmt_inner] in Hf.

Lemma sub_stmt_B :
  (forall x G j, check_stmt md GE G x = Ok tt -> NoDup (nids_stmt x) ->
     find is_s (walk_stmt GE G x) = Some j -> check_stmt md GE G (sub_stmt s fs x) = Vf j) /\
  (forall x G j, check_stmts md GE G x = Ok tt -> NoDup (nids_stmts x) ->
     find is_s (walk_stmts GE G x) = Some j -> check_stmts md GE G (sub_stmts s fs x) = Vf j) /\
  (forall x G t j, check_calts md GE G t x = Ok tt -> NoDup (nids_calts x) ->
     find is_s (walk_calts GE G x) = Some j -> check_calts md GE G t (sub_calts s fs x) = Vf j).
Proof.
  apply stmt_stmts_calts_ind.
  - stmt_leaf.
  - stmt_leaf.
  - intros i c th IHth el IHel G j Hc Hn Hf. stmt_start Hf.
    rewrite check_stmt_SIf in Hc |- *. minv Hc. cbn [nids_stmt] in Hn. nd_split.
    apply find_app_cases in Hf. destruct Hf as [Hf|[_ Hf]]; pose proof (find_stmts_in _ _ _ Hf) as Hin.
    + rewrite (sub_stmts_id el) by notin s. rewrite (IHth G j) by assumption. fin_v j.
    + rewrite (sub_stmts_id th) by notin s. rewrite (IHel G j) by assumption. fin_v j.
  - intros i sel alts IHa oth IHo G j Hc Hn Hf. stmt_start Hf.
    rewrite check_stmt_SCase in Hc |- *. minv Hc. cbn [nids_stmt] in Hn. nd_split.
    rewrite calts_choices_sub.
    apply find_app_cases in Hf. destruct Hf as [Hf|[_ Hf]].
    + pose proof (find_calts_in _ _ _ Hf) as Hin.
      rewrite (sub_stmts_id oth) by notin s. fin. rewrite (IHa G _ j) by assumption. fin_v j.
    + pose proof (find_stmts_in _ _ _ Hf) as Hin.
      rewrite (proj2 (proj2 sub_stmt_id) alts) by notin s. fin. rewrite (IHo G j) by assumption. fin_v j.
  - intros i v lo hi b IHb G j Hc Hn Hf. stmt_start Hf.
    rewrite check_stmt_SFor in Hc |- *. minv Hc. cbn [nids_stmt] in Hn. nd_split.
    match goal with H : declare _ _ _ = Ok _ |- _ => rewrite H in Hf |- * end. cbn [ok_env] in Hf. cbn [bind].
    apply IHb; assumption.
  - intros i c b IHb G j Hc Hn Hf. stmt_start Hf.
    rewrite check_stmt_SWhile in Hc |- *. minv Hc. cbn [nids_stmt] in Hn. nd_split.
    rewrite (IHb G j) by assumption. fin_v j.
  - stmt_leaf.
  - stmt_leaf.
  - stmt_leaf.
  - intros G j _ _ Hf. discriminate Hf.
  - intros x IHx r IHr G j Hc Hn Hf. rewrite walk_stmts_cons in Hf. rewrite sub_stmts_cons.
    rewrite check_stmts_cons in Hc |- *. minv Hc. cbn [nids_stmts] in Hn. nd_split.
    apply find_app_cases in Hf. destruct Hf as [Hf|[_ Hf]].
    + pose proof (find_stmt_in _ _ _ Hf) as Hin.
      rewrite (sub_stmts_id r) by notin s. rewrite (IHx G j) by assumption. fin_v j.
    + pose proof (find_stmts_in _ _ _ Hf) as Hin.
      rewrite (proj1 sub_stmt_id x) by notin s. rewrite (IHr G j) by assumption. fin_v j.
  - intros G t j _ _ Hf. discriminate Hf.
  - intros cs b IHb r IHr G t j Hc Hn Hf. rewrite walk_calts_cons in Hf. rewrite sub_calts_cons.
    rewrite check_calts_cons in Hc |- *. minv Hc. cbn [nids_calts] in Hn. nd_split.
    apply find_app_cases in Hf. destruct Hf as [Hf|[_ Hf]].
    + pose proof (find_stmts_in _ _ _ Hf) as Hin.
      rewrite (proj2 (proj2 sub_stmt_id) r) by notin s. rewrite (IHb G j) by assumption. fin_v j.
    + pose proof (find_calts_in _ _ _ Hf) as Hin.
      rewrite (sub_stmts_id b) by notin s. rewrite (IHr G t j) by assumption. fin_v j.
Qed.
Definition sub_stmts_B := proj1 (proj2 sub_stmt_B).

(* initial values *)
Lemma init_found G o t e j :
  find is_s (init_info GE G o t e) = Some j ->
  exists e0, e = Some e0 /\ (o_nid o =? s) = true /\ j = PInfo (o_nid o) GE G (PInit (tmark_ty GE G t) e0).
Proof.
  destruct e as [e0|]; cbn [init_info find]; [|discriminate]. unfold is_s. cbn [pi_id].
  destruct (o_nid o =? s); [|discriminate]. intros H. injection H as H. exists e0. auto.
Qed.
Lemma tmark_ty_ok G t ty : resolve_tmark GE G t = Ok ty -> tmark_ty GE G t = ty.
Proof. intros H. unfold tmark_ty. rewrite H. reflexivity. Qed.
Lemma Vf_init G o t e0 :
  Vf (PInfo (o_nid o) GE G (PInit (tmark_ty GE G t) e0)) = root md GE G (tmark_ty GE G t) (fe e0).
Proof. reflexivity. Qed.

Ltac fin_r :=
  fin; match goal with |- context [root ?a ?b ?c ?d ?e] => destruct (root a b c d e) as [[]|? ?] end; fin; reflexivity.

Lemma sub_ldecl_B G G' d j :
  check_ldecl md GE G d = Ok G' -> find is_s (walk_ldecl GE G d) = Some j ->
  check_ldecl md GE G (sub_ldecl s fe d) = (Vf j ;;; Ok G').
Proof.
  destruct d as [o t i|o t i]; cbn [walk_ldecl sub_ldecl]; intros Hc Hf;
    apply init_found in Hf; destruct Hf as [e0 [Hi [E Hj]]]; subst j; rewrite Vf_init.
  - subst i. cbn [sub_oinit]. rewrite E. unfold check_ldecl in Hc |- *. minv Hc.
    cbn [check_oinit] in *. rewrite (tmark_ty_ok _ _ _ E0). fin_r.
  - injection Hi as Hi. subst i. rewrite E. unfold check_ldecl in Hc |- *. minv Hc.
    rewrite (tmark_ty_ok _ _ _ E0). fin_r.
Qed.

Lemma walk_ldecls_app ls : forall G G' k,
  check_ldecls md GE G ls = Ok G' ->
  walk_ldecls md GE G ls k = walk_ldecls md GE G ls (fun _ => []) ++ k G'.
Proof.
  induction ls as [|d r IH]; intros G G' k Hc; cbn [check_ldecls walk_ldecls] in *.
  - injection Hc as Hc. subst G'. reflexivity.
  - minv Hc. rewrite E. cbn [ok_env]. rewrite (IH _ _ k E0). rewrite app_assoc. reflexivity.
Qed.
Lemma find_ldecls_in G ls j :
  find is_s (walk_ldecls md GE G ls (fun _ => [])) = Some j -> In s (flat_map nids_ldecl ls).
Proof.
  intros H. apply find_is_s_in in H. destruct H as [H1 H2]. rewrite <- H2.
  apply walk_ldecls_ids in H1. destruct H1 as [H1|[G' []]]. exact H1.
Qed.
Lemma find_ldecl_in G d j : find is_s (walk_ldecl GE G d) = Some j -> In s (nids_ldecl d).
Proof. intros H. apply find_is_s_in in H. destruct H as [H1 H2]. rewrite <- H2. exact (walk_ldecl_ids GE G d j H1). Qed.

Lemma sub_ldecls_B ls : forall G G' j,
  check_ldecls md GE G ls = Ok G' -> NoDup (flat_map nids_ldecl ls) ->
  find is_s (walk_ldecls md GE G ls (fun _ => [])) = Some j ->
  check_ldecls md GE G (map (sub_ldecl s fe) ls) = (Vf j ;;; Ok G').
Proof.
  induction ls as [|d r IH]; intros G G' j Hc Hn Hf; cbn [check_ldecls walk_ldecls map] in *; [discriminate Hf|].
  minv Hc. rewrite E in Hf. cbn [ok_env] in Hf. rewrite flat_map_cons in Hn. nd_split.
  apply find_app_cases in Hf. destruct Hf as [Hf|[_ Hf]].
  - pose proof (find_ldecl_in _ _ _ Hf) as Hin.
    rewrite (sub_ldecls_id r) by notin s. rewrite (sub_ldecl_B _ _ _ _ E Hf). fin_v j.
  - pose proof (find_ldecls_in _ _ _ Hf) as Hin.
    rewrite (sub_ldecl_id d) by notin s. fin. apply IH; assumption.
Qed.

(* interface lists *)
Lemma declare_ifaces_cons c G i r :
  declare_ifaces md GE c G (i :: r) = (G1 <- declare_ifaces md GE c G [i] ;; declare_ifaces md GE c G1 r).
Proof.
  cbn [declare_ifaces].
  destruct (resolve_tmark GE G (i_ty i)) as [ty|? ?]; cbn [bind]; [|reflexivity].
  destruct (check_oinit md GE G ty (i_def i)) as [?|? ?]; cbn [bind]; [|reflexivity].
  destruct (guard _ (o_nid (i_occ i)) Other) as [?|? ?]; cbn [bind]; [|reflexivity].
  destruct (declare G (i_occ i) (BObj c (i_mode i) ty)) as [?|? ?]; reflexivity.
Qed.
Lemma walk_ifaces_app c l : forall G G' k,
  declare_ifaces md GE c G l = Ok G' ->
  walk_ifaces md GE c G l k = walk_ifaces md GE c G l (fun _ => []) ++ k G'.
Proof.
  induction l as [|i r IH]; intros G G' k Hc.
  - cbn [declare_ifaces walk_ifaces] in *. injection Hc as Hc. subst G'. reflexivity.
  - rewrite declare_ifaces_cons in Hc. minv Hc. cbn [walk_ifaces]. rewrite E. cbn [ok_env].
    rewrite (IH _ _ k E0). rewrite app_assoc. reflexivity.
Qed.
Lemma find_ifaces_in c G l j :
  find is_s (walk_ifaces md GE c G l (fun _ => [])) = Some j -> In s (flat_map nids_iface l).
Proof.
  intros H. apply find_is_s_in in H. destruct H as [H1 H2]. rewrite <- H2.
  apply walk_ifaces_ids in H1. destruct H1 as [H1|[G' []]]. exact H1.
Qed.
Lemma sub_ifaces_B c l : forall G G' j,
  declare_ifaces md GE c G l = Ok G' -> NoDup (flat_map nids_iface l) ->
  find is_s (walk_ifaces md GE c G l (fun _ => [])) = Some j ->
  declare_ifaces md GE c G (map (sub_iface s fe) l) = (Vf j ;;; Ok G').
Proof.
  induction l as [|i r IH]; intros G G' j Hc Hn Hf; [discriminate Hf|].
  rewrite declare_ifaces_cons in Hc. minv Hc. cbn [walk_ifaces] in Hf. rewrite E in Hf. cbn [ok_env] in Hf.
  rewrite flat_map_cons in Hn. nd_split. cbn [map].
  apply find_app_cases in Hf. destruct Hf as [Hf|[_ Hf]].
  - apply init_found in Hf. destruct Hf as [e0 [Hi [Es Hj]]]. subst j. rewrite Vf_init.
    assert (Hin : In s (nids_iface i)) by (unfold nids_iface, nids_occ; apply N.eqb_eq in Es; rewrite Es; left; reflexivity).
    rewrite (sub_ifaces_id r) by notin s.
    rewrite declare_ifaces_cons.
    unfold sub_iface. rewrite Hi. cbn [sub_oinit]. rewrite Es.
    cbn [declare_ifaces i_occ i_mode i_ty i_def] in E |- *. rewrite Hi in E. minv E.
    cbn [check_oinit] in *. rewrite (tmark_ty_ok _ _ _ E1). fin_r.
  - pose proof (find_ifaces_in _ _ _ _ Hf) as Hin.
    rewrite (sub_iface_id i) by notin s. rewrite declare_ifaces_cons. fin. apply IH; assumption.
Qed.
Lemma iface_sig_sub G i : iface_sig GE G (sub_iface s fe i) = iface_sig GE G i.
Proof. destruct i as [o m t [e|]]; reflexivity. Qed.
Lemma iface_sigs_sub G l : map (iface_sig GE G) (map (sub_iface s fe) l) = map (iface_sig GE G) l.
Proof. rewrite map_map. apply map_ext. intros i. apply iface_sig_sub. Qed.

(* subprogram bodies *)
Lemma sub_body_B G ps ret ls b j :
  check_sub_body md GE G ps ret ls b = Ok tt -> NoDup (flat_map nids_ldecl ls ++ nids_stmts b) ->
  find is_s (walk_sub_body md GE G ps ret ls b) = Some j ->
  check_sub_body md GE G ps ret (map (sub_ldecl s fe) ls) (sub_stmts s fs b) = Vf j.
Proof.
  unfold check_sub_body, walk_sub_body. intros Hc Hn Hf. minv Hc. rewrite E in Hf |- *. cbn [ok_env] in Hf. cbn [bind].
  rewrite (walk_ldecls_app _ _ _ _ E1) in Hf. nd_split.
  apply find_app_cases in Hf. destruct Hf as [Hf|[_ Hf]].
  - pose proof (find_ldecls_in _ _ _ Hf) as Hin.
    rewrite (sub_stmts_id b) by notin s. rewrite (sub_ldecls_B _ _ _ _ E1 Nd Hf). fin_v j.
  - pose proof (find_stmts_in _ _ _ Hf) as Hin.
    rewrite (sub_ldecls_id ls) by notin s. fin. apply sub_stmts_B; assumption.
Qed.

(* declarations *)
Lemma decl_obligation_sub G d : decl_obligation GE G (sub_decl s fs fe d) = decl_obligation GE G d.
Proof. destruct d as [| |o t [e|]| | | | | |]; reflexivity. Qed.
Lemma decl_obligations_sub G ds :
  flat_map (decl_obligation GE G) (map (sub_decl s fs fe) ds) = flat_map (decl_obligation GE G) ds.
Proof. induction ds as [|d r IH]; cbn [map flat_map]; [reflexivity|]. rewrite decl_obligation_sub, IH. reflexivity. Qed.

Lemma sub_decl_B rg obl G G' d j :
  check_decl md GE rg obl G d = Ok G' -> NoDup (nids_decl d) ->
  find is_s (walk_decl md GE G G' d) = Some j ->
  check_decl md GE rg obl G (sub_decl s fs fe d) = (Vf j ;;; Ok G').
Proof.
  intros Hc Hn Hf.
  destruct d as [o td|o t rng|o t init|o t init|o ps rt|o ps|o ps rt ls b|o ps ls b|o gs ps];
    cbn [walk_decl] in Hf; try discriminate Hf.
  - (* DConst *)
    apply init_found in Hf. destruct Hf as [e0 [Hi [Es Hj]]]. subst j init. rewrite Vf_init.
    cbn [sub_decl sub_oinit]. rewrite Es.
    unfold check_decl in Hc |- *.
    change (allowed rg (DConst o t (Some (fe e0)))) with (allowed rg (DConst o t (Some e0))).
    cbn [decl_occ] in *. minv Hc.
    match goal with H : resolve_tmark _ _ _ = Ok _ |- _ => rewrite (tmark_ty_ok _ _ _ H) end.
    fin_r.
  - (* DSignal *)
    apply init_found in Hf. destruct Hf as [e0 [Hi [Es Hj]]]. subst j init. rewrite Vf_init.
    cbn [sub_decl sub_oinit]. rewrite Es.
    unfold check_decl in Hc |- *.
    change (allowed rg (DSignal o t (Some (fe e0)))) with (allowed rg (DSignal o t (Some e0))).
    cbn [decl_occ check_oinit] in *. minv Hc.
    match goal with H : resolve_tmark _ _ _ = Ok _ |- _ => rewrite (tmark_ty_ok _ _ _ H) end.
    fin_r.
  - (* DFunBody *)
    cbn [sub_decl]. unfold check_decl in Hc |- *.
    change (allowed rg (DFunBody o ps rt (map (sub_ldecl s fe) ls) (sub_stmts s fs b))) with (allowed rg (DFunBody o ps rt ls b)).
    cbn [decl_occ] in *. cbv beta zeta. minv Hc.
    match goal with H : resolve_tmark _ _ _ = Ok _ |- _ => rewrite (tmark_ty_ok _ _ _ H) in Hf end.
    cbn [nids_decl] in Hn. do 3 (apply NoDup_app_inv in Hn; destruct Hn as [_ [Hn _]]).
    fin. match goal with H : check_sub_body _ _ _ _ _ _ _ = Ok tt |- _ => rewrite (sub_body_B _ _ _ _ _ _ H Hn Hf) end.
    reflexivity.
  - (* DProcBody *)
    cbn [sub_decl]. unfold check_decl in Hc |- *.
    change (allowed rg (DProcBody o ps (map (sub_ldecl s fe) ls) (sub_stmts s fs b))) with (allowed rg (DProcBody o ps ls b)).
    cbn [decl_occ] in *. cbv beta zeta. minv Hc.
    cbn [nids_decl] in Hn. do 2 (apply NoDup_app_inv in Hn; destruct Hn as [_ [Hn _]]).
    fin. match goal with H : check_sub_body _ _ _ _ _ _ _ = Ok tt |- _ => rewrite (sub_body_B _ _ _ _ _ _ H Hn Hf) end.
    reflexivity.
  - (* DComp *)
    cbn [sub_decl]. unfold check_decl in Hc |- *.
    change (allowed rg (DComp o (map (sub_iface s fe) gs) (map (sub_iface s fe) ps))) with (allowed rg (DComp o gs ps)).
    cbn [decl_occ] in *. minv Hc. rewrite !iface_sigs_sub.
    cbn [nids_decl] in Hn. nd_split.
    match goal with H : declare_ifaces _ _ KConst _ gs = Ok _ |- _ => rewrite (walk_ifaces_app _ _ _ _ _ H) in Hf end.
    apply find_app_cases in Hf. destruct Hf as [Hf|[_ Hf]]; pose proof (find_ifaces_in _ _ _ _ Hf) as Hin.
    + rewrite (sub_ifaces_id ps) by notin s.
      erewrite sub_ifaces_B by eassumption.
      fin_v j.
    + rewrite (sub_ifaces_id gs) by notin s. fin.
      erewrite sub_ifaces_B by eassumption.
      fin_v j.
Qed.

Lemma walk_decls_app rg obl ds : forall G G' k,
  check_decls md GE rg obl G ds = Ok G' ->
  walk_decls md GE rg obl G ds k = walk_decls md GE rg obl G ds (fun _ => []) ++ k G'.
Proof.
  induction ds as [|d r IH]; intros G G' k Hc; cbn [check_decls walk_decls] in *.
  - injection Hc as Hc. subst G'. reflexivity.
  - minv Hc. rewrite E. cbn [ok_env]. rewrite (IH _ _ k E0). rewrite app_assoc. reflexivity.
Qed.
Lemma find_decls_in rg obl G ds j :
  find is_s (walk_decls md GE rg obl G ds (fun _ => [])) = Some j -> In s (flat_map nids_decl ds).
Proof.
  intros H. apply find_is_s_in in H. destruct H as [H1 H2]. rewrite <- H2.
  apply walk_decls_ids in H1. destruct H1 as [H1|[G' []]]. exact H1.
Qed.
Lemma find_decl_in G G' d j : find is_s (walk_decl md GE G G' d) = Some j -> In s (nids_decl d).
Proof. intros H. apply find_is_s_in in H. destruct H as [H1 H2]. rewrite <- H2. exact (walk_decl_ids md GE G G' d j H1). Qed.

Lemma sub_decls_B rg obl ds : forall G G' j,
  check_decls md GE rg obl G ds = Ok G' -> NoDup (flat_map nids_decl ds) ->
  find is_s (walk_decls md GE rg obl G ds (fun _ => [])) = Some j ->
  check_decls md GE rg obl G (map (sub_decl s fs fe) ds) = (Vf j ;;; Ok G').
Proof.
  induction ds as [|d r IH]; intros G G' j Hc Hn Hf; cbn [check_decls walk_decls map] in *; [discriminate Hf|].
  minv Hc. rewrite E in Hf. cbn [ok_env] in Hf. rewrite flat_map_cons in Hn. nd_split.
  apply find_app_cases in Hf. destruct Hf as [Hf|[_ Hf]].
  - pose proof (find_decl_in _ _ _ _ Hf) as Hin.
    rewrite (sub_decls_id r) by notin s. rewrite (sub_decl_B _ _ _ _ _ _ E Nd Hf). fin_v j.
  - pose proof (find_decls_in _ _ _ _ _ Hf) as Hin.
    rewrite (sub_decl_id d) by notin s. fin. apply IH; assumption.
Qed.

(* concurrent statements; lab_rel: what happens to the labels *)
Definition lab_rel (j : pinfo) (L L' : list ident) : Prop :=
  L' = L \/
  exists c0 l1 l2, pi_ph j = PConc c0 /\ L = l1 ++ labels_conc c0 ++ l2 /\ L' = l1 ++ labels_conc (fc c0) ++ l2.
Lemma lab_rel_ctx j a b L L' : lab_rel j L L' -> lab_rel j (a ++ L ++ b) (a ++ L' ++ b).
Proof.
  intros [H|[c0 [l1 [l2 [H1 [H2 H3]]]]]]; [left; subst; reflexivity|].
  right. exists c0, (a ++ l1), (l2 ++ b). subst. split; [exact H1|].
  split; repeat rewrite <- app_assoc; reflexivity.
Qed.
Lemma lab_rel_app_l j b L L' : lab_rel j L L' -> lab_rel j (L ++ b) (L' ++ b).
Proof. intros H. exact (lab_rel_ctx j [] b L L' H). Qed.
Lemma lab_rel_app_r j a L L' : lab_rel j L L' -> lab_rel j (a ++ L) (a ++ L').
Proof. intros H. pose proof (lab_rel_ctx j a [] L L' H) as H'. rewrite !app_nil_r in H'. exact H'. Qed.
Lemma lab_rel_cons j x L L' : lab_rel j L L' -> lab_rel j (x :: L) (x :: L').
Proof. intros H. exact (lab_rel_app_r j [x] L L' H). Qed.

Lemma find_walk_conc G c :
  find is_s (walk_conc md GE G c) =
  if conc_nid c =? s then Some (PInfo (conc_nid c) GE G (PConc c)) else find is_s (conc_inner md GE G c).
Proof. rewrite walk_conc_unfold. reflexivity. Qed.
Lemma conc_headB G c j :
  (conc_nid c =? s) = true -> find is_s (walk_conc md GE G c) = Some j ->
  check_conc md GE G (fc c) = Vf j /\ lab_rel j (labels_conc c) (labels_conc (fc c)).
Proof.
  intros E H. rewrite find_walk_conc, E in H. injection H as H. subst j. split; [reflexivity|].
  right. exists c, [], []. cbn [pi_ph app]. rewrite !app_nil_r. auto.
Qed.
Lemma find_conc_in G c j : find is_s (walk_conc md GE G c) = Some j -> In s (nids_conc c).
Proof. intros H. apply find_is_s_in in H. destruct H as [H1 H2]. rewrite <- H2. exact (proj1 (walk_conc_ids md GE) c G j H1). Qed.
Lemma find_concs_in G c j : find is_s (walk_concs md GE G c) = Some j -> In s (nids_concs c).
Proof. intros H. apply find_is_s_in in H. destruct H as [H1 H2]. rewrite <- H2. exact (walk_concs_ids md GE c G j H1). Qed.

Lemma check_conc_CProc G l sens ls b :
  check_conc md GE G (CProc l sens ls b) =
  (check_list (check_sens md GE G) sens ;;; G' <- check_ldecls md GE (push G) ls ;; check_stmts md GE G' b).
Proof. reflexivity. Qed.
Lemma check_conc_CBlock G l ds b :
  check_conc md GE G (CBlock l ds b) =
  (G' <- check_decls md GE RArch [] (push G) ds ;; check_concs md GE G' b).
Proof. reflexivity. Qed.
Lemma check_concs_cons G x r :
  check_concs md GE G (CCons x r) = (check_conc md GE G x ;;; check_concs md GE G r).
Proof. reflexivity. Qed.
Lemma labels_conc_CBlock l ds b : labels_conc (CBlock l ds b) = o_id l :: labels_concs b.
Proof. reflexivity. Qed.
Lemma labels_concs_cons x r : labels_concs (CCons x r) = labels_conc x ++ labels_concs r.
Proof. reflexivity. Qed.

Ltac conc_leaf :=
  intros; rewrite sub_conc_unfold; destruct (conc_nid _ =? s) eqn:E;
  [eapply conc_headB; eassumption
  |match goal with Hf : find _ _ = Some _ |- _ =>
     rewrite find_walk_conc, E in Hf; cbn [conc_inner find] in Hf; discriminate Hf end].
Ltac conc_start Hf :=
  rewrite sub_conc_unfold; destruct (conc_nid _ =? s) eqn:E; [eapply conc_headB; eassumption|];
  rewrite find_walk_conc, E in Hf; cbn [conc_inner] in Hf.

Lemma sub_conc_B :
  (forall c G j, check_conc md GE G c = Ok tt -> NoDup (nids_conc c) ->
     find is_s (walk_conc md GE G c) = Some j ->
     check_conc md GE G (sub_conc s fs fc fe c) = Vf j /\
     lab_rel j (labels_conc c) (labels_conc (sub_conc s fs fc fe c))) /\
  (forall c G j, check_concs md GE G c = Ok tt -> NoDup (nids_concs c) ->
     find is_s (walk_concs md GE G c) = Some j ->
     check_concs md GE G (sub_concs s fs fc fe c) = Vf j /\
     lab_rel j (labels_concs c) (labels_concs (sub_concs s fs fc fe c))).
Proof.
  apply conc_concs_ind.
  - intros l sens ls b G j Hc Hn Hf. conc_start Hf. split; [|left; reflexivity].
    rewrite check_conc_CProc in Hc |- *. minv Hc. cbn [nids_conc] in Hn. nd_split.
    match goal with H : check_ldecls _ _ _ ls = Ok _ |- _ => rewrite (walk_ldecls_app _ _ _ _ H) in Hf end.
    apply find_app_cases in Hf. destruct Hf as [Hf|[_ Hf]].
    + pose proof (find_ldecls_in _ _ _ Hf) as Hin.
      rewrite (sub_stmts_id b) by notin s.
      erewrite sub_ldecls_B by eassumption.
      fin_v j.
    + pose proof (find_stmts_in _ _ _ Hf) as Hin.
      rewrite (sub_ldecls_id ls) by notin s. fin. apply sub_stmts_B; assumption.
  - conc_leaf.
  - intros l ds b IHb G j Hc Hn Hf. conc_start Hf.
    rewrite check_conc_CBlock in Hc |- *. minv Hc. cbn [nids_conc] in Hn. nd_split.
    match goal with H : check_decls _ _ _ _ _ ds = Ok _ |- _ => rewrite (walk_decls_app _ _ _ _ _ _ H) in Hf end.
    apply find_app_cases in Hf. destruct Hf as [Hf|[_ Hf]].
    + pose proof (find_decls_in _ _ _ _ _ Hf) as Hin.
      rewrite (sub_concs_id b) by notin s. split; [|left; reflexivity].
      erewrite sub_decls_B by eassumption.
      fin_v j.
    + pose proof (find_concs_in _ _ _ Hf) as Hin.
      rewrite (sub_decls_id ds) by notin s.
      match goal with H : check_concs _ _ ?a b = Ok tt |- _ => destruct (IHb a j H ltac:(assumption) Hf) as [H1 H2] end.
      split; [fin; exact H1|]. rewrite !labels_conc_CBlock. apply lab_rel_cons. exact H2.
  - conc_leaf.
  - conc_leaf.
  - intros G j _ _ Hf. discriminate Hf.
  - intros x IHx r IHr G j Hc Hn Hf. rewrite walk_concs_cons in Hf. rewrite sub_concs_cons.
    rewrite check_concs_cons in Hc |- *. minv Hc. cbn [nids_concs] in Hn. nd_split.
    rewrite !labels_concs_cons.
    apply find_app_cases in Hf. destruct Hf as [Hf|[_ Hf]].
    + pose proof (find_conc_in _ _ _ Hf) as Hin.
      rewrite (sub_concs_id r) by notin s. destruct (IHx G j ltac:(assumption) ltac:(assumption) Hf) as [H1 H2].
      split; [rewrite H1; fin_v j|apply lab_rel_app_l; exact H2].
    + pose proof (find_concs_in _ _ _ Hf) as Hin.
      rewrite (proj1 sub_conc_id x) by notin s. destruct (IHr G j ltac:(assumption) ltac:(assumption) Hf) as [H1 H2].
      split; [fin; exact H1|apply lab_rel_app_r; exact H2].
Qed.
Definition sub_concs_B := proj2 sub_conc_B.

End WithGE2.

(* ------------------------------------------------------------------------------------------ *)
(* design units, libraries, program                                                             *)
(* ------------------------------------------------------------------------------------------ *)
Definition unit_labels (u : dunit) : list ident :=
  match u_body u with UArch _ _ _ b => labels_concs b | _ => [] end.
Definition prog_labels (p : program) : list ident :=
  flat_map (fun l => flat_map unit_labels (l_units l)) p.
(* the labels of the new concurrent statement: those of the old one and some new ones that occur nowhere in L *)
Definition lab_ok (j : pinfo) (L : list ident) : Prop :=
  forall c0, pi_ph j = PConc c0 ->
  exists pre, labels_conc (fc c0) = pre ++ labels_conc c0 /\ NoDup pre /\ forall x, In x pre -> ~ In x L.
Lemma lab_ok_mono j L L' : (forall x, In x L' -> In x L) -> lab_ok j L -> lab_ok j L'.
Proof.
  intros Hsub H c0 Hc0. destruct (H c0 Hc0) as [pre [H1 [H2 H3]]]. exists pre. split; [exact H1|]. split; [exact H2|].
  intros x Hx Hin. exact (H3 x Hx (Hsub x Hin)).
Qed.
Lemma lab_rel_nodup j L L' : lab_rel j L L' -> lab_ok j L -> nodup_idents L = true -> nodup_idents L' = true.
Proof.
  intros [H|[c0 [l1 [l2 [H1 [H2 H3]]]]]] Hok Hnd; [subst; exact Hnd|].
  destruct (Hok c0 H1) as [pre [Hp [Hpn Hpd]]].
  rewrite nodup_idents_NoDup in *. subst L'. rewrite Hp.
  apply (Permutation_NoDup (l := pre ++ L)).
  - subst L. repeat rewrite <- app_assoc. apply Permutation_app_swap_app.
  - apply NoDup_app_intro; [exact Hpn|exact Hnd|]. intros x Hx Hin. exact (Hpd x Hx Hin).
Qed.

Lemma find_unit_guard GE l n : (if n =? id_undeclared then None else find_unit GE l n) = find_unit GE l n.
Proof. unfold find_unit. destruct (n =? id_undeclared); reflexivity. Qed.

Lemma existsb_sub_iface gs :
  (fun y => existsb (fun i => o_id (i_occ i) =? y) (map (sub_iface s fe) gs)) =
  (fun y => existsb (fun i => o_id (i_occ i) =? y) gs).
Proof.
  induction gs as [|a r IH]; [reflexivity|]. cbn [map existsb].
  exact (f_equal (fun K : ident -> bool => fun y : ident => (o_id (i_occ a) =? y) || K y) IH).
Qed.
Lemma gen_exports_sub gs (m : fmap) :
  (fun y => if existsb (fun i => o_id (i_occ i) =? y) (map (sub_iface s fe) gs) then [] else m y) =
  (fun y => if existsb (fun i => o_id (i_occ i) =? y) gs then [] else m y).
Proof.
  exact (f_equal (fun K : ident -> bool => fun y : ident => if K y then @nil binding else m y) (existsb_sub_iface gs)).
Qed.

Ltac fin_vm md j := fin; generalize (Vf md j); intros [[]|? ?]; fin; try reflexivity.

Lemma sub_unit_B md GE LIBS lib uid u g j :
  check_unit md GE LIBS lib uid u = Ok g -> NoDup (nids_dunit u) ->
  find is_s (walk_unit md GE LIBS lib uid u) = Some j -> lab_ok j (unit_labels u) ->
  check_unit md GE LIBS lib uid (sub_dunit s fs fc fe u) = (Vf md j ;;; Ok g).
Proof.
  destruct u as [ctx b]. unfold check_unit, walk_unit, sub_dunit, nids_dunit, unit_labels. cbn [u_ctx u_body].
  intros Hc Hn Hf Hlab. apply NoDup_app_inv in Hn. destruct Hn as [_ [Hn _]].
  destruct b as [o ds|o ds|o gs ps|o e ds body|o e a|o items|o gs ds|o l g0 gm];
    cbn [sub_ubody nids_ubody] in *; try discriminate Hf.
  - (* UPkg *)
    minv Hc. nd_split.
    match goal with H : check_ctx _ _ _ _ = Ok _ |- _ => rewrite H in Hf end. cbn [ok_env] in Hf.
    fin. erewrite sub_decls_B by eassumption. fin_vm md j.
    rewrite decl_obligations_sub. assumption.
  - (* UBody *)
    rewrite find_unit_guard in Hc |- *.
    destruct (find_unit GE lib (o_id o)) as [[ex inner obl|? ? ?|?| |?|gs ex inner obl|?| ]|]; try discriminate Hf.
    + minv Hc. nd_split.
      match goal with H : check_ctx _ _ _ _ = Ok _ |- _ => rewrite H in Hf end. cbn [ok_env] in Hf.
      fin. erewrite sub_decls_B by eassumption. fin_vm md j; try assumption.
    + minv Hc. nd_split.
      match goal with H : check_ctx _ _ _ _ = Ok _ |- _ => rewrite H in Hf end. cbn [ok_env] in Hf.
      fin. erewrite sub_decls_B by eassumption. fin_vm md j; try assumption.
  - (* UEnt *)
    minv Hc. nd_split.
    match goal with H : check_ctx _ _ _ _ = Ok _ |- _ => rewrite H in Hf end. cbn [ok_env] in Hf.
    match goal with H : declare_ifaces _ _ KConst _ gs = Ok _ |- _ => rewrite (walk_ifaces_app _ _ _ _ _ _ _ H) in Hf end.
    apply find_app_cases in Hf. destruct Hf as [Hf|[_ Hf]]; pose proof (find_ifaces_in _ _ _ _ _ _ Hf) as Hin.
    + rewrite (sub_ifaces_id ps) by notin s. fin. erewrite sub_ifaces_B by eassumption. fin_vm md j.
      rewrite !iface_sigs_sub. assumption.
    + rewrite (sub_ifaces_id gs) by notin s. fin. erewrite sub_ifaces_B by eassumption. fin_vm md j.
      rewrite !iface_sigs_sub. assumption.
  - (* UArch *)
    rewrite find_unit_guard in Hc |- *.
    destruct (find_unit GE lib (o_id e)) as [[| ? ? inner | | | | | | ]|]; try discriminate Hf.
    minv Hc. nd_split.
    match goal with H : check_ctx _ _ _ _ = Ok _ |- _ => rewrite H in Hf end. cbn [ok_env] in Hf.
    match goal with H : check_decls _ _ _ _ _ ds = Ok _ |- _ => rewrite (walk_decls_app _ _ _ _ _ _ _ _ H) in Hf end.
    apply find_app_cases in Hf. destruct Hf as [Hf|[_ Hf]].
    + pose proof (find_decls_in _ _ _ _ _ _ _ Hf) as Hin.
      rewrite (sub_concs_id body) by notin s. fin. erewrite sub_decls_B by eassumption. fin_vm md j; try assumption.
    + pose proof (find_concs_in _ _ _ _ _ Hf) as Hin.
      rewrite (sub_decls_id ds) by notin s.
      match goal with H : check_concs _ _ ?a body = Ok tt |- _ =>
        destruct (sub_concs_B md GE body a j H ltac:(assumption) Hf) as [H1 H2] end.
      match goal with H : nodup_idents (labels_concs body) = true |- _ =>
        pose proof (lab_rel_nodup _ _ _ H2 Hlab H) as H3 end.
      fin. rewrite H1. fin_vm md j; try assumption.
  - (* UGen *)
    minv Hc. nd_split.
    match goal with H : check_ctx _ _ _ _ = Ok _ |- _ => rewrite H in Hf end. cbn [ok_env] in Hf.
    match goal with H : declare_ifaces _ _ KConst _ gs = Ok _ |- _ => rewrite (walk_ifaces_app _ _ _ _ _ _ _ H) in Hf end.
    apply find_app_cases in Hf. destruct Hf as [Hf|[_ Hf]].
    + pose proof (find_ifaces_in _ _ _ _ _ _ Hf) as Hin.
      rewrite (sub_decls_id ds) by notin s. fin. erewrite sub_ifaces_B by eassumption. fin_vm md j.
      rewrite iface_sigs_sub, gen_exports_sub. assumption.
    + pose proof (find_decls_in _ _ _ _ _ _ _ Hf) as Hin.
      rewrite (sub_ifaces_id gs) by notin s. fin. erewrite sub_decls_B by eassumption. fin_vm md j.
      rewrite decl_obligations_sub. assumption.
Qed.

Lemma walk_units_app md LIBS lib us : forall GE uid x k,
  check_units md GE LIBS lib uid us = Ok x ->
  walk_units md GE LIBS lib uid us k = walk_units md GE LIBS lib uid us (fun _ _ => []) ++ k (fst x) (snd x).
Proof.
  induction us as [|u r IH]; intros GE uid x k Hc; cbn [check_units walk_units] in *.
  - injection Hc as Hc. subst x. reflexivity.
  - minv Hc. rewrite E. rewrite (IH _ _ _ k E0). rewrite app_assoc. reflexivity.
Qed.
Lemma find_units_in md GE LIBS lib uid us j :
  find is_s (walk_units md GE LIBS lib uid us (fun _ _ => [])) = Some j -> In s (flat_map nids_dunit us).
Proof.
  intros H. apply find_is_s_in in H. destruct H as [H1 H2]. rewrite <- H2.
  apply walk_units_ids in H1. destruct H1 as [H1|[GE' [uid' []]]]. exact H1.
Qed.
Lemma find_unit_in md GE LIBS lib uid u j :
  find is_s (walk_unit md GE LIBS lib uid u) = Some j -> In s (nids_dunit u).
Proof. intros H. apply find_is_s_in in H. destruct H as [H1 H2]. rewrite <- H2. exact (walk_unit_ids _ _ _ _ _ _ _ H1). Qed.
Lemma find_libs_in md GE LIBS uid ls j :
  find is_s (walk_libs md GE LIBS uid ls) = Some j -> In s (flat_map nids_library ls).
Proof. intros H. apply find_is_s_in in H. destruct H as [H1 H2]. rewrite <- H2. exact (walk_libs_ids _ _ _ _ _ _ H1). Qed.

Lemma sub_units_B md LIBS lib us : forall GE uid x j,
  check_units md GE LIBS lib uid us = Ok x -> NoDup (flat_map nids_dunit us) ->
  find is_s (walk_units md GE LIBS lib uid us (fun _ _ => [])) = Some j ->
  Forall (fun u => lab_ok j (unit_labels u)) us ->
  check_units md GE LIBS lib uid (map (sub_dunit s fs fc fe) us) = (Vf md j ;;; Ok x).
Proof.
  induction us as [|u r IH]; intros GE uid x j Hc Hn Hf Hlab; cbn [check_units walk_units map] in *; [discriminate Hf|].
  minv Hc. rewrite E in Hf. rewrite flat_map_cons in Hn. nd_split.
  inversion Hlab as [|? ? Hl1 Hl2]; subst.
  apply find_app_cases in Hf. destruct Hf as [Hf|[_ Hf]].
  - pose proof (find_unit_in _ _ _ _ _ _ _ Hf) as Hin.
    rewrite (sub_dunits_id r) by notin s. rewrite (sub_unit_B _ _ _ _ _ _ _ _ E Nd Hf Hl1). fin_vm md j.
  - pose proof (find_units_in _ _ _ _ _ _ _ Hf) as Hin.
    rewrite (sub_dunit_id u) by notin s. fin. apply IH; assumption.
Qed.

Lemma sub_program_cons l r :
  sub_program s fs fc fe (l :: r) = Lib (l_name l) (map (sub_dunit s fs fc fe) (l_units l)) :: sub_program s fs fc fe r.
Proof. reflexivity. Qed.
Lemma sub_libs_B md LIBS ls : forall GE uid GE' j,
  check_libs md GE LIBS uid ls = Ok GE' -> NoDup (flat_map nids_library ls) ->
  find is_s (walk_libs md GE LIBS uid ls) = Some j ->
  Forall (fun l => Forall (fun u => lab_ok j (unit_labels u)) (l_units l)) ls ->
  check_libs md GE LIBS uid (sub_program s fs fc fe ls) = (Vf md j ;;; Ok GE').
Proof.
  induction ls as [|l r IH]; intros GE uid GE' j Hc Hn Hf Hlab; [discriminate Hf|].
  rewrite sub_program_cons. cbn [check_libs walk_libs l_name l_units] in *.
  minv Hc. rewrite flat_map_cons in Hn. unfold nids_library at 1 in Hn. nd_split.
  inversion Hlab as [|? ? Hl1 Hl2]; subst.
  rewrite (walk_units_app _ _ _ _ _ _ _ _ E) in Hf.
  apply find_app_cases in Hf. destruct Hf as [Hf|[_ Hf]].
  - pose proof (find_units_in _ _ _ _ _ _ _ Hf) as Hin.
    rewrite (sub_program_id r) by (unfold nids_program; notin s).
    rewrite (sub_units_B _ _ _ _ _ _ _ _ E Nd Hf Hl1). fin_vm md j.
  - pose proof (find_libs_in _ _ _ _ _ _ Hf) as Hin.
    rewrite (sub_dunits_id (l_units l)) by notin s. fin. apply IH; assumption.
Qed.

Lemma sub_program_names p : map l_name (sub_program s fs fc fe p) = map l_name p.
Proof. unfold sub_program. rewrite map_map. reflexivity. Qed.

Theorem replace_general_md md p j :
  check_program_md md p = Ok tt -> NoDup (nids_program p) ->
  find is_s (walk_libs md [] (map l_name p) 0 p) = Some j ->
  lab_ok j (prog_labels p) ->
  check_program_md md (sub_program s fs fc fe p) = Vf md j.
Proof.
  intros Hc Hn Hf Hlab. unfold check_program_md in Hc |- *. cbv zeta in Hc |- *. rewrite sub_program_names.
  minv Hc.
  assert (HL : Forall (fun l => Forall (fun u => lab_ok j (unit_labels u)) (l_units l)) p).
  { apply Forall_forall. intros l Hl. apply Forall_forall. intros u Hu.
    apply (lab_ok_mono j (prog_labels p)); [|exact Hlab].
    intros x Hx. unfold prog_labels. apply in_flat_map. exists l. split; [exact Hl|].
    apply in_flat_map. exists u. split; [exact Hu|exact Hx]. }
  fin. rewrite (sub_libs_B _ _ _ _ _ _ _ E1 Hn Hf HL). fin_vm md j.
Qed.

Theorem replace_general p j :
  Valid p -> NoDup (nids_program p) -> find_phrase p s = Some j -> lab_ok j (prog_labels p) ->
  check_program (sub_program s fs fc fe p) = Vf Exactly j.
Proof. intros Hv Hn Hf Hlab. exact (replace_general_md Exactly p j Hv Hn Hf Hlab). Qed.

End Repl.
