(* Mini/ProofsPhraseRepl.v — the phrase replacement theorem for Mini/Walk.v (helper of Mini/ProofsPhrase.v).

   `replace_general`: in a valid program with pairwise different node ids, replacing the phrase with id s
   (found by `find_phrase`) gives a program whose verdict is the verdict of the new phrase, checked in the
   environment the walk recorded for the old one.  Proofs only. *)
From Coq Require Import List NArith Arith Bool Lia Permutation Sorting.Sorted Sorting.Mergesort Setoid.
Import ListNotations.
From RH Require Import Mini.Syntax Mini.Sem Mini.Walk.
Open Scope N_scope.

(* ------------------------------------------------------------------------------------------ *)
(* lists                                                                                        *)
(* ------------------------------------------------------------------------------------------ *)
Lemma NoDup_app_inv {A} (a b : list A) :
  NoDup (a ++ b) -> NoDup a /\ NoDup b /\ (forall x, In x a -> In x b -> False).
Proof.
  induction a as [|x a IH]; cbn [app]; intros H.
  - split; [constructor|]. split; [exact H|]. intros x [].
  - inversion H as [|? ? Hx Hr]; subst. destruct (IH Hr) as [Ha [Hb Hd]].
    split.
    + constructor; [|exact Ha]. intro Hin. apply Hx. apply in_or_app. left. exact Hin.
    + split; [exact Hb|]. intros y [Hy|Hy] Hyb.
      * subst y. apply Hx. apply in_or_app. right. exact Hyb.
      * exact (Hd y Hy Hyb).
Qed.
Lemma NoDup_app_intro {A} (a b : list A) :
  NoDup a -> NoDup b -> (forall x, In x a -> In x b -> False) -> NoDup (a ++ b).
Proof.
  induction a as [|x a IH]; cbn [app]; intros Ha Hb Hd.
  - exact Hb.
  - inversion Ha as [|? ? Hx Hr]; subst. constructor.
    + intro Hin. apply in_app_or in Hin. destruct Hin as [Hin|Hin]; [exact (Hx Hin)|].
      exact (Hd x (or_introl eq_refl) Hin).
    + apply IH; [exact Hr|exact Hb|]. intros y Hy Hyb. exact (Hd y (or_intror Hy) Hyb).
Qed.
Lemma NoDup_cons_inv {A} (x : A) (a : list A) : NoDup (x :: a) -> ~ In x a /\ NoDup a.
Proof. intros H. inversion H; subst. split; assumption. Qed.

Lemma find_app {A} (f : A -> bool) (a b : list A) :
  find f (a ++ b) = match find f a with Some x => Some x | None => find f b end.
Proof. induction a as [|x a IH]; cbn [app find]; [reflexivity|]. destruct (f x); [reflexivity|exact IH]. Qed.
Lemma find_app_cases {A} (f : A -> bool) (a b : list A) (i : A) :
  find f (a ++ b) = Some i -> find f a = Some i \/ (find f a = None /\ find f b = Some i).
Proof. rewrite find_app. destruct (find f a); intros H; [left; exact H|right; split; [reflexivity|exact H]]. Qed.

(* ------------------------------------------------------------------------------------------ *)
(* nodup_list                                                                                   *)
(* ------------------------------------------------------------------------------------------ *)
Lemma adjacent_distinct_sorted_NoDup (l : list N) :
  StronglySorted (fun x y => is_true (x <=? y)) l -> adjacent_distinct l = true -> NoDup l.
Proof.
  induction l as [|a r IH]; intros Hs Ha; [constructor|].
  inversion Hs as [|? ? Hr Hall]; subst.
  destruct r as [|b r'].
  - constructor; [intros []|constructor].
  - cbn [adjacent_distinct] in Ha. apply andb_true_iff in Ha. destruct Ha as [Hab Hrest].
    apply negb_true_iff in Hab. apply N.eqb_neq in Hab.
    constructor; [|exact (IH Hr Hrest)].
    intros Hin. inversion Hall as [|? ? Hab' Hall']; subst.
    destruct Hin as [Hin|Hin]; [apply Hab; symmetry; exact Hin|].
    inversion Hr as [|? ? _ Hball]; subst.
    rewrite Forall_forall in Hball. specialize (Hball a Hin).
    apply N.leb_le in Hab'. apply N.leb_le in Hball. apply Hab. lia.
Qed.
Lemma nodup_list_sound (l : list N) : nodup_list l = true -> NoDup l.
Proof.
  unfold nodup_list. intros H.
  apply (Permutation_NoDup (l := NSort.sort l)).
  - apply Permutation_sym. apply NSort.Permuted_sort.
  - apply adjacent_distinct_sorted_NoDup; [|exact H].
    apply NSort.StronglySorted_sort.
    intros x y z Hxy Hyz. unfold is_true in *. apply N.leb_le in Hxy. apply N.leb_le in Hyz. apply N.leb_le. lia.
Qed.

Lemma nodup_idents_NoDup (l : list ident) : nodup_idents l = true <-> NoDup l.
Proof.
  induction l as [|x r IH]; cbn [nodup_idents].
  - split; [constructor|reflexivity].
  - rewrite andb_true_iff, negb_true_iff, IH. split.
    + intros [Hx Hr]. constructor; [|exact Hr]. intro Hin.
      assert (E : existsb (N.eqb x) r = true) by (apply existsb_exists; exists x; split; [exact Hin|apply N.eqb_refl]).
      rewrite E in Hx. discriminate.
    + intros H. inversion H as [|? ? Hx Hr]; subst. split; [|exact Hr].
      destruct (existsb (N.eqb x) r) eqn:E; [|reflexivity].
      apply existsb_exists in E. destruct E as [y [Hy Hxy]]. apply N.eqb_eq in Hxy. subst y. contradiction.
Qed.

(* ------------------------------------------------------------------------------------------ *)
(* error monad                                                                                  *)
(* ------------------------------------------------------------------------------------------ *)
Lemma bind_ok_inv {A B} (r : res A) (f : A -> res B) (b : B) :
  bind r f = Ok b -> exists a, r = Ok a /\ f a = Ok b.
Proof. destruct r as [a|n c]; cbn [bind]; intros H; [exists a; split; [reflexivity|exact H]|discriminate]. Qed.
Lemma guard_ok_inv (b : bool) n c (u : unit) : guard b n c = Ok u -> b = true.
Proof. destruct b; cbn [guard]; intros H; [reflexivity|discriminate]. Qed.
Lemma bind_unit_r (r : res unit) : (r ;;; Ok tt) = r.
Proof. destruct r as [[]|n c]; reflexivity. Qed.
Lemma res_unit_eta (r : res unit) : match r with Ok _ => Ok tt | Bad n c => Bad n c end = r.
Proof. destruct r as [[]|n c]; reflexivity. Qed.

Ltac minv H :=
  cbv beta in H;
  lazymatch type of H with
  | bind _ _ = Ok _ =>
      let a := fresh "a" in let H1 := fresh "E" in let H2 := fresh "E" in
      apply bind_ok_inv in H; destruct H as [a [H1 H2]];
      try (match type of a with unit => destruct a end);
      minv H1; minv H2
  | guard _ _ _ = Ok _ => apply guard_ok_inv in H
  | _ => idtac
  end.

(* decomposition of NoDup hypotheses; `notin s` proves False / ~ In from the disjointness facts *)
Ltac nd_split :=
  repeat match goal with
  | H : NoDup (_ ++ _) |- _ =>
      let Ha := fresh "Nd" in let Hb := fresh "Nd" in let Hd := fresh "Dj" in
      apply NoDup_app_inv in H; destruct H as [Ha [Hb Hd]]
  | H : NoDup (_ :: _) |- _ =>
      let Ha := fresh "Nh" in let Hb := fresh "Nd" in
      apply NoDup_cons_inv in H; destruct H as [Ha Hb]
  end.
Ltac notin s :=
  repeat match goal with Hd : forall x, In x _ -> In x _ -> False |- _ => specialize (Hd s) end;
  repeat match goal with
  | H : context [In _ (_ ++ _)] |- _ => rewrite in_app_iff in H
  | |- context [In _ (_ ++ _)] => rewrite in_app_iff
  end;
  cbn [In] in *; tauto.
