(* Mini/ProofsPhraseRepl.v — the phrase replacement theorem for Mini/Walk.v (helper of Mini/ProofsPhrase.v).

   `replace_general`: in a valid program with pairwise different node ids, replacing the phrase with id s
   (found by `find_phrase`) gives a program whose verdict is the verdict of the new phrase, checked in the
   environment the walk recorded for the old one.  Proofs only. *)
From Coq Require Import List NArith Arith Bool Lia Permutation Sorting.Sorted Sorting.Mergesort Setoid.
Import ListNotations.
From RH Require Import Mini.Syntax Mini.Sem Mini.Walk.
Open Scope N_scope.

(* ------------------------------------------------------------------------------------------ *)
(* lists                                                                                        *)
(* ------------------------------------------------------------------------------------------ *)
Lemma NoDup_app_inv {A} (a b : list A) :
  NoDup (a ++ b) -> NoDup a /\ NoDup b /\ (forall x, In x a -> In x b -> False).
Proof.
  induction a as [|x a IH]; cbn [app]; intros H.
  - split; [constructor|]. split; [exact H|]. intros x [].
  - inversion H as [|? ? Hx Hr]; subst. destruct (IH Hr) as [Ha [Hb Hd]].
    split.
    + constructor; [|exact Ha]. intro Hin. apply Hx. apply in_or_app. left. exact Hin.
    + split; [exact Hb|]. intros y [Hy|Hy] Hyb.
      * subst y. apply Hx. apply in_or_app. right. exact Hyb.
      * exact (Hd y Hy Hyb).
Qed.
Lemma NoDup_app_intro {A} (a b : list A) :
  NoDup a -> NoDup b -> (forall x, In x a -> In x b -> False) -> NoDup (a ++ b).
Proof.
  induction a as [|x a IH]; cbn [app]; intros Ha Hb Hd.
  - exact Hb.
  - inversion Ha as [|? ? Hx Hr]; subst. constructor.
    + intro Hin. apply in_app_or in Hin. destruct Hin as [Hin|Hin]; [exact (Hx Hin)|].
      exact (Hd x (or_introl eq_refl) Hin).
    + apply IH; [exact Hr|exact Hb|]. intros y Hy Hyb. exact (Hd y (or_intror Hy) Hyb).
Qed.
Lemma NoDup_cons_inv {A} (x : A) (a : list A) : NoDup (x :: a) -> ~ In x a /\ NoDup a.
Proof. intros H. inversion H; subst. split; assumption. Qed.

Lemma find_app {A} (f : A -> bool) (a b : list A) :
  find f (a ++ b) = match find f a with Some x => Some x | None => find f b end.
Proof. induction a as [|x a IH]; cbn [app find]; [reflexivity|]. destruct (f x); [reflexivity|exact IH]. Qed.
Lemma find_app_cases {A} (f : A -> bool) (a b : list A) (i : A) :
  find f (a ++ b) = Some i -> find f a = Some i \/ (find f a = None /\ find f b = Some i).
Proof. rewrite find_app. destruct (find f a); intros H; [left; exact H|right; split; [reflexivity|exact H]]. Qed.

(* ------------------------------------------------------------------------------------------ *)
(* nodup_list                                                                                   *)
(* ------------------------------------------------------------------------------------------ *)
Lemma adjacent_distinct_sorted_NoDup (l : list N) :
  StronglySorted (fun x y => is_true (x <=? y)) l -> adjacent_distinct l = true -> NoDup l.
Proof.
  induction l as [|a r IH]; intros Hs Ha; [constructor|].
  inversion Hs as [|? ? Hr Hall]; subst.
  destruct r as [|b r'].
  - constructor; [intros []|constructor].
  - cbn [adjacent_distinct] in Ha. apply andb_true_iff in Ha. destruct Ha as [Hab Hrest].
    apply negb_true_iff in Hab. apply N.eqb_neq in Hab.
    constructor; [|exact (IH Hr Hrest)].
    intros Hin. inversion Hall as [|? ? Hab' Hall']; subst.
    destruct Hin as [Hin|Hin]; [apply Hab; symmetry; exact Hin|].
    inversion Hr as [|? ? _ Hball]; subst.
    rewrite Forall_forall in Hball. specialize (Hball a Hin).
    apply N.leb_le in Hab'. apply N.leb_le in Hball. apply Hab. lia.
Qed.
Lemma nodup_list_sound (l : list N) : nodup_list l = true -> NoDup l.
Proof.
  unfold nodup_list. intros H.
  apply (Permutation_NoDup (l := NSort.sort l)).
  - apply Permutation_sym. apply NSort.Permuted_sort.
  - apply adjacent_distinct_sorted_NoDup; [|exact H].
    apply NSort.StronglySorted_sort.
    intros x y z Hxy Hyz. unfold is_true in *. apply N.leb_le in Hxy. apply N.leb_le in Hyz. apply N.leb_le. lia.
Qed.

Lemma nodup_idents_NoDup (l : list ident) : nodup_idents l = true <-> NoDup l.
Proof.
  induction l as [|x r IH]; cbn [nodup_idents].
  - split; [constructor|reflexivity].
  - rewrite andb_true_iff, negb_true_iff, IH. split.
    + intros [Hx Hr]. constructor; [|exact Hr]. intro Hin.
      assert (E : existsb (N.eqb x) r = true) by (apply existsb_exists; exists x; split; [exact Hin|apply N.eqb_refl]).
      rewrite E in Hx. discriminate.
    + intros H. inversion H as [|? ? Hx Hr]; subst. split; [|exact Hr].
      destruct (existsb (N.eqb x) r) eqn:E; [|reflexivity].
      apply existsb_exists in E. destruct E as [y [Hy Hxy]]. apply N.eqb_eq in Hxy. subst y. contradiction.
Qed.

(* ------------------------------------------------------------------------------------------ *)
(* error monad                                                                                  *)
(* ------------------------------------------------------------------------------------------ *)
Lemma bind_ok_inv {A B} (r : res A) (f : A -> res B) (b : B) :
  bind r f = Ok b -> exists a, r = Ok a /\ f a = Ok b.
Proof. destruct r as [a|n c]; cbn [bind]; intros H; [exists a; split; [reflexivity|exact H]|discriminate]. Qed.
Lemma guard_ok_inv (b : bool) n c (u : unit) : guard b n c = Ok u -> b = true.
Proof. destruct b; cbn [guard]; intros H; [reflexivity|discriminate]. Qed.
Lemma bind_unit_r (r : res unit) : (r ;;; Ok tt) = r.
Proof. destruct r as [[]|n c]; reflexivity. Qed.
Lemma res_unit_eta (r : res unit) : match r with Ok _ => Ok tt | Bad n c => Bad n c end = r.
Proof. destruct r as [[]|n c]; reflexivity. Qed.

Ltac minv H :=
  cbv beta in H;
  lazymatch type of H with
  | bind _ _ = Ok _ =>
      let a := fresh "a" in let H1 := fresh "E" in let H2 := fresh "E" in
      apply bind_ok_inv in H; destruct H as [a [H1 H2]];
      try (match type of a with unit => destruct a end);
      minv H1; minv H2
  | guard _ _ _ = Ok _ => apply guard_ok_inv in H
  | _ => idtac
  end.

(* decomposition of NoDup hypotheses; `notin s` proves False / ~ In from the disjointness facts *)
Ltac nd_split :=
  repeat match goal with
  | H : NoDup (_ ++ _) |- _ =>
      let Ha := fresh "Nd" in let Hb := fresh "Nd" in let Hd := fresh "Dj" in
      apply NoDup_app_inv in H; destruct H as [Ha [Hb Hd]]
  | H : NoDup (_ :: _) |- _ =>
      let Ha := fresh "Nh" in let Hb := fresh "Nd" in
      apply NoDup_cons_inv in H; destruct H as [Ha Hb]
  end.
Ltac in_norm :=
  repeat (cbn [In] in *;
          match goal with
          | H : context [In _ (_ ++ _)] |- _ => rewrite in_app_iff in H
          | |- context [In _ (_ ++ _)] => rewrite in_app_iff
          end);
  cbn [In] in *.
Ltac notin s :=
  repeat match goal with Hd : forall x, In x _ -> In x _ -> False |- _ => specialize (Hd s) end;
  in_norm; tauto.
Ltac in_tac := in_norm; tauto.

Lemma flat_map_cons {A B} (f : A -> list B) x l : flat_map f (x :: l) = f x ++ flat_map f l.
Proof. reflexivity. Qed.

Section Repl.
Variable s : nid.
Variable fs : stmt -> stmt.
Variable fc : conc -> conc.
Variable fe : expr -> expr.

Definition is_s (i : pinfo) : bool := pi_id i =? s.

Lemma find_is_s_in l i : find is_s l = Some i -> In i l /\ pi_id i = s.
Proof. intros H. apply find_some in H. destruct H as [H1 H2]. split; [exact H1|]. apply N.eqb_eq. exact H2. Qed.

(* ------------------------------------------------------------------------------------------ *)
(* (C) sub_X x = x when s is no node id of x                                                    *)
(* ------------------------------------------------------------------------------------------ *)
Lemma map_id_flat {A} (f : A -> A) (ids : A -> list nid) (l : list A) :
  (forall x, ~ In s (ids x) -> f x = x) -> ~ In s (flat_map ids l) -> map f l = l.
Proof.
  intros Hf. induction l as [|x r IH]; intros Hn; [reflexivity|].
  rewrite flat_map_cons in Hn. cbn [map]. rewrite Hf, IH; [reflexivity| |]; in_tac.
Qed.

Lemma stmt_nid_in x : In (stmt_nid x) (nids_stmt x).
Proof.
  destruct x; cbn [stmt_nid nids_stmt]; try (left; reflexivity).
  apply in_or_app. left. destruct f; cbn; tauto.
Qed.
Lemma stmt_nid_neq x : ~ In s (nids_stmt x) -> (stmt_nid x =? s) = false.
Proof. intros H. apply N.eqb_neq. intro Hc. apply H. rewrite <- Hc. apply stmt_nid_in. Qed.
Lemma sub_stmt_unfold x : sub_stmt s fs x =
  if stmt_nid x =? s then fs x else
  match x with
  | SIf i c th el => SIf i c (sub_stmts s fs th) (sub_stmts s fs el)
  | SCase i sel alts oth => SCase i sel (sub_calts s fs alts) (sub_stmts s fs oth)
  | SFor i v lo hi b => SFor i v lo hi (sub_stmts s fs b)
  | SWhile i c b => SWhile i c (sub_stmts s fs b)
  | _ => x
  end.
Proof. destruct x; reflexivity. Qed.

Lemma sub_stmts_cons x r : sub_stmts s fs (SCons x r) = SCons (sub_stmt s fs x) (sub_stmts s fs r).
Proof. reflexivity. Qed.
Lemma sub_calts_cons cs b r : sub_calts s fs (CACons cs b r) = CACons cs (sub_stmts s fs b) (sub_calts s fs r).
Proof. reflexivity. Qed.

Lemma sub_stmt_id :
  (forall x, ~ In s (nids_stmt x) -> sub_stmt s fs x = x) /\
  (forall x, ~ In s (nids_stmts x) -> sub_stmts s fs x = x) /\
  (forall x, ~ In s (nids_calts x) -> sub_calts s fs x = x).
Proof.
  apply stmt_stmts_calts_ind.
  - intros i t e Hn. rewrite sub_stmt_unfold, (stmt_nid_neq _ Hn). reflexivity.
  - intros i t e Hn. rewrite sub_stmt_unfold, (stmt_nid_neq _ Hn). reflexivity.
  - intros i c th IHth el IHel Hn. rewrite sub_stmt_unfold, (stmt_nid_neq _ Hn).
    cbn [nids_stmt] in Hn. rewrite IHth, IHel; [reflexivity| |]; in_tac.
  - intros i sel alts IHa oth IHo Hn. rewrite sub_stmt_unfold, (stmt_nid_neq _ Hn).
    cbn [nids_stmt] in Hn. rewrite IHa, IHo; [reflexivity| |]; in_tac.
  - intros i v lo hi b IHb Hn. rewrite sub_stmt_unfold, (stmt_nid_neq _ Hn).
    cbn [nids_stmt] in Hn. rewrite IHb; [reflexivity|]; in_tac.
  - intros i c b IHb Hn. rewrite sub_stmt_unfold, (stmt_nid_neq _ Hn).
    cbn [nids_stmt] in Hn. rewrite IHb; [reflexivity|]; in_tac.
  - intros f a Hn. rewrite sub_stmt_unfold, (stmt_nid_neq _ Hn). reflexivity.
  - intros i e Hn. rewrite sub_stmt_unfold, (stmt_nid_neq _ Hn). reflexivity.
  - intros i Hn. rewrite sub_stmt_unfold, (stmt_nid_neq _ Hn). reflexivity.
  - intros _. reflexivity.
  - intros x IHx r IHr Hn. cbn [nids_stmts] in Hn. rewrite sub_stmts_cons, IHx, IHr; [reflexivity| |]; in_tac.
  - intros _. reflexivity.
  - intros cs b IHb r IHr Hn. cbn [nids_calts] in Hn. rewrite sub_calts_cons, IHb, IHr; [reflexivity| |]; in_tac.
Qed.
Definition sub_stmts_id := proj1 (proj2 sub_stmt_id).

Lemma sub_oinit_id o e : o_nid o <> s -> sub_oinit s fe o e = e.
Proof. intros H. apply N.eqb_neq in H. unfold sub_oinit. rewrite H. destruct e; reflexivity. Qed.
Lemma sub_ldecl_id d : ~ In s (nids_ldecl d) -> sub_ldecl s fe d = d.
Proof.
  destruct d as [o t i|o t i]; cbn [nids_ldecl nids_occ sub_ldecl]; intros Hn.
  - rewrite sub_oinit_id; [reflexivity|]. intro Hc. apply Hn. left. exact Hc.
  - assert (E : (o_nid o =? s) = false) by (apply N.eqb_neq; intro Hc; apply Hn; left; exact Hc).
    rewrite E. reflexivity.
Qed.
Lemma sub_ldecls_id ls : ~ In s (flat_map nids_ldecl ls) -> map (sub_ldecl s fe) ls = ls.
Proof. apply map_id_flat. exact sub_ldecl_id. Qed.
Lemma sub_iface_id i : ~ In s (nids_iface i) -> sub_iface s fe i = i.
Proof.
  destruct i as [o m t d]; unfold sub_iface, nids_iface; cbn [i_occ i_mode i_ty i_def nids_occ]; intros Hn.
  rewrite sub_oinit_id; [reflexivity|]. intro Hc. apply Hn. left. exact Hc.
Qed.
Lemma sub_ifaces_id l : ~ In s (flat_map nids_iface l) -> map (sub_iface s fe) l = l.
Proof. apply map_id_flat. exact sub_iface_id. Qed.
Lemma sub_decl_id d : ~ In s (nids_decl d) -> sub_decl s fs fe d = d.
Proof.
  destruct d; cbn [nids_decl nids_occ sub_decl]; intros Hn; try reflexivity.
  - rewrite sub_oinit_id; [reflexivity|]. intro Hc. apply Hn. left. exact Hc.
  - rewrite sub_oinit_id; [reflexivity|]. intro Hc. apply Hn. left. exact Hc.
  - rewrite sub_ldecls_id, sub_stmts_id; [reflexivity| |]; in_tac.
  - rewrite sub_ldecls_id, sub_stmts_id; [reflexivity| |]; in_tac.
  - rewrite !sub_ifaces_id; [reflexivity| |]; in_tac.
Qed.
Lemma sub_decls_id ds : ~ In s (flat_map nids_decl ds) -> map (sub_decl s fs fe) ds = ds.
Proof. apply map_id_flat. exact sub_decl_id. Qed.

Lemma conc_nid_in c : In (conc_nid c) (nids_conc c).
Proof. destruct c; cbn [conc_nid nids_conc nids_occ app]; left; reflexivity. Qed.
Lemma conc_nid_neq c : ~ In s (nids_conc c) -> (conc_nid c =? s) = false.
Proof. intros H. apply N.eqb_neq. intro Hc. apply H. rewrite <- Hc. apply conc_nid_in. Qed.
Lemma sub_conc_unfold c : sub_conc s fs fc fe c =
  if conc_nid c =? s then fc c else
  match c with
  | CProc l sens ls b => CProc l sens (map (sub_ldecl s fe) ls) (sub_stmts s fs b)
  | CBlock l ds b => CBlock l (map (sub_decl s fs fe) ds) (sub_concs s fs fc fe b)
  | _ => c
  end.
Proof. destruct c; reflexivity. Qed.
Lemma sub_concs_cons x r : sub_concs s fs fc fe (CCons x r) = CCons (sub_conc s fs fc fe x) (sub_concs s fs fc fe r).
Proof. reflexivity. Qed.
Lemma sub_conc_id :
  (forall c, ~ In s (nids_conc c) -> sub_conc s fs fc fe c = c) /\
  (forall c, ~ In s (nids_concs c) -> sub_concs s fs fc fe c = c).
Proof.
  apply conc_concs_ind.
  - intros l sens ls b Hn. rewrite sub_conc_unfold, (conc_nid_neq _ Hn). cbn [nids_conc] in Hn.
    rewrite sub_ldecls_id, sub_stmts_id; [reflexivity| |]; in_tac.
  - intros l t e Hn. rewrite sub_conc_unfold, (conc_nid_neq _ Hn). reflexivity.
  - intros l ds b IHb Hn. rewrite sub_conc_unfold, (conc_nid_neq _ Hn). cbn [nids_conc] in Hn.
    rewrite sub_decls_id, IHb; [reflexivity| |]; in_tac.
  - intros l lb e a gm pm Hn. rewrite sub_conc_unfold, (conc_nid_neq _ Hn). reflexivity.
  - intros l c gm pm Hn. rewrite sub_conc_unfold, (conc_nid_neq _ Hn). reflexivity.
  - intros _. reflexivity.
  - intros x IHx r IHr Hn. cbn [nids_concs] in Hn. rewrite sub_concs_cons, IHx, IHr; [reflexivity| |]; in_tac.
Qed.
Definition sub_concs_id := proj2 sub_conc_id.

Lemma sub_dunit_id u : ~ In s (nids_dunit u) -> sub_dunit s fs fc fe u = u.
Proof.
  destruct u as [ctx b]. unfold sub_dunit, nids_dunit. cbn [u_ctx u_body]. intros Hn. f_equal.
  destruct b; cbn [nids_ubody sub_ubody] in *; try reflexivity.
  - rewrite sub_decls_id; [reflexivity|]; in_tac.
  - rewrite sub_decls_id; [reflexivity|]; in_tac.
  - rewrite !sub_ifaces_id; [reflexivity| |]; in_tac.
  - rewrite sub_decls_id, sub_concs_id; [reflexivity| |]; in_tac.
  - rewrite sub_ifaces_id, sub_decls_id; [reflexivity| |]; in_tac.
Qed.
Lemma sub_dunits_id us : ~ In s (flat_map nids_dunit us) -> map (sub_dunit s fs fc fe) us = us.
Proof. apply map_id_flat. exact sub_dunit_id. Qed.
Lemma sub_library_id l : ~ In s (nids_library l) -> Lib (l_name l) (map (sub_dunit s fs fc fe) (l_units l)) = l.
Proof. destruct l as [n us]. unfold nids_library. cbn [l_name l_units]. intros Hn. rewrite sub_dunits_id; [reflexivity|exact Hn]. Qed.
Lemma sub_program_id p : ~ In s (nids_program p) -> sub_program s fs fc fe p = p.
Proof. unfold sub_program, nids_program. apply (map_id_flat (fun l => Lib (l_name l) (map (sub_dunit s fs fc fe) (l_units l)))). exact sub_library_id. Qed.

(* ------------------------------------------------------------------------------------------ *)
(* (I) the ids of the phrases of x are node ids of x                                            *)
(* ------------------------------------------------------------------------------------------ *)
Section WithGE.
Variable md : mode.
Variable GE : genv.

Definition stmt_inner (G : env) (x : stmt) : list pinfo :=
  match x with
  | SIf _ _ th el => walk_stmts GE G th ++ walk_stmts GE G el
  | SCase _ _ alts oth => walk_calts GE G alts ++ walk_stmts GE G oth
  | SFor _ v _ _ b => ok_env (declare (push G) v (BObj KConst MNone SInt)) (fun G' => walk_stmts GE G' b)
  | SWhile _ _ b => walk_stmts GE G b
  | _ => []
  end.
Lemma walk_stmt_unfold G x : walk_stmt GE G x = PInfo (stmt_nid x) GE G (PStmt x) :: stmt_inner G x.
Proof. destruct x; reflexivity. Qed.
Lemma walk_stmts_cons G x r : walk_stmts GE G (SCons x r) = walk_stmt GE G x ++ walk_stmts GE G r.
Proof. reflexivity. Qed.
Lemma walk_calts_cons G cs b r : walk_calts GE G (CACons cs b r) = walk_stmts GE G b ++ walk_calts GE G r.
Proof. reflexivity. Qed.

Ltac stmt_head H j :=
  rewrite walk_stmt_unfold in H; destruct H as [H|H]; [subst j; apply stmt_nid_in|]; cbn [stmt_inner] in H.

Lemma walk_stmt_ids :
  (forall x G i, In i (walk_stmt GE G x) -> In (pi_id i) (nids_stmt x)) /\
  (forall x G i, In i (walk_stmts GE G x) -> In (pi_id i) (nids_stmts x)) /\
  (forall x G i, In i (walk_calts GE G x) -> In (pi_id i) (nids_calts x)).
Proof.
  apply stmt_stmts_calts_ind.
  - intros i t e G j H. stmt_head H j. destruct H.
  - intros i t e G j H. stmt_head H j. destruct H.
  - intros i c th IHth el IHel G j H. stmt_head H j.
    apply in_app_or in H. destruct H as [H|H]; [apply IHth in H|apply IHel in H]; cbn [nids_stmt]; in_tac.
  - intros i sel alts IHa oth IHo G j H. stmt_head H j.
    apply in_app_or in H. destruct H as [H|H]; [apply IHa in H|apply IHo in H]; cbn [nids_stmt]; in_tac.
  - intros i v lo hi b IHb G j H. stmt_head H j.
    destruct (declare (push G) v (BObj KConst MNone SInt)) as [G'|n c]; cbn [ok_env] in H; [|destruct H].
    apply IHb in H. cbn [nids_stmt]. in_tac.
  - intros i c b IHb G j H. stmt_head H j. apply IHb in H. cbn [nids_stmt]. in_tac.
  - intros f a G j H. stmt_head H j. destruct H.
  - intros i e G j H. stmt_head H j. destruct H.
  - intros i G j H. stmt_head H j. destruct H.
  - intros G j H. destruct H.
  - intros x IHx r IHr G j H. rewrite walk_stmts_cons in H.
    apply in_app_or in H. destruct H as [H|H]; [apply IHx in H|apply IHr in H]; cbn [nids_stmts]; in_tac.
  - intros G j H. destruct H.
  - intros cs b IHb r IHr G j H. rewrite walk_calts_cons in H.
    apply in_app_or in H. destruct H as [H|H]; [apply IHb in H|apply IHr in H]; cbn [nids_calts]; in_tac.
Qed.
Definition walk_stmts_ids := proj1 (proj2 walk_stmt_ids).

Lemma init_info_in G o t e i : In i (init_info GE G o t e) -> pi_id i = o_nid o.
Proof. destruct e; cbn [init_info In]; intros H; [|destruct H]. destruct H as [H|[]]. subst i. reflexivity. Qed.
Lemma walk_ldecl_ids G d i : In i (walk_ldecl GE G d) -> In (pi_id i) (nids_ldecl d).
Proof.
  destruct d; cbn [walk_ldecl nids_ldecl nids_occ]; intros H; apply init_info_in in H; rewrite H; left; reflexivity.
Qed.
Lemma walk_ldecls_ids ds : forall G k i,
  In i (walk_ldecls md GE G ds k) -> In (pi_id i) (flat_map nids_ldecl ds) \/ exists G', In i (k G').
Proof.
  induction ds as [|d r IH]; intros G k i H; cbn [walk_ldecls] in H.
  - right. exists G. exact H.
  - rewrite flat_map_cons. apply in_app_or in H. destruct H as [H|H].
    + apply walk_ldecl_ids in H. left. in_tac.
    + destruct (check_ldecl md GE G d) as [G1|n c]; cbn [ok_env] in H; [|destruct H].
      apply IH in H. destruct H as [H|H]; [left; in_tac|right; exact H].
Qed.
Lemma walk_ifaces_ids c l : forall G k i,
  In i (walk_ifaces md GE c G l k) -> In (pi_id i) (flat_map nids_iface l) \/ exists G', In i (k G').
Proof.
  induction l as [|d r IH]; intros G k i H; cbn [walk_ifaces] in H.
  - right. exists G. exact H.
  - rewrite flat_map_cons. apply in_app_or in H. destruct H as [H|H].
    + apply init_info_in in H. left. unfold nids_iface, nids_occ. rewrite H. in_tac.
    + destruct (declare_ifaces md GE c G [d]) as [G1|n c0]; cbn [ok_env] in H; [|destruct H].
      apply IH in H. destruct H as [H|H]; [left; in_tac|right; exact H].
Qed.
Lemma walk_sub_body_ids G ps ret ls b i :
  In i (walk_sub_body md GE G ps ret ls b) -> In (pi_id i) (flat_map nids_ldecl ls ++ nids_stmts b).
Proof.
  unfold walk_sub_body. destruct (declare_params GE _ ps) as [G1|n c]; cbn [ok_env]; intros H; [|destruct H].
  apply walk_ldecls_ids in H. destruct H as [H|[G' H]]; [|apply walk_stmts_ids in H]; in_tac.
Qed.
Lemma walk_decl_ids G G' d i : In i (walk_decl md GE G G' d) -> In (pi_id i) (nids_decl d).
Proof.
  destruct d; cbn [walk_decl nids_decl nids_occ]; intros H; try (destruct H; fail).
  - apply init_info_in in H. rewrite H. left. reflexivity.
  - apply init_info_in in H. rewrite H. left. reflexivity.
  - apply walk_sub_body_ids in H. in_tac.
  - apply walk_sub_body_ids in H. in_tac.
  - apply walk_ifaces_ids in H. destruct H as [H|[Gg H]]; [in_tac|].
    apply walk_ifaces_ids in H. destruct H as [H|[Gp H]]; [in_tac|destruct H].
Qed.
Lemma walk_decls_ids rg obl ds : forall G k i,
  In i (walk_decls md GE rg obl G ds k) -> In (pi_id i) (flat_map nids_decl ds) \/ exists G', In i (k G').
Proof.
  induction ds as [|d r IH]; intros G k i H; cbn [walk_decls] in H.
  - right. exists G. exact H.
  - rewrite flat_map_cons.
    destruct (check_decl md GE rg obl G d) as [G1|n c]; cbn [ok_env] in H; [|destruct H].
    apply in_app_or in H. destruct H as [H|H].
    + apply walk_decl_ids in H. left. in_tac.
    + apply IH in H. destruct H as [H|H]; [left; in_tac|right; exact H].
Qed.

Definition conc_inner (G : env) (c : conc) : list pinfo :=
  match c with
  | CProc _ _ ls b => walk_ldecls md GE (push G) ls (fun G' => walk_stmts GE G' b)
  | CBlock _ ds b => walk_decls md GE RArch [] (push G) ds (fun G' => walk_concs md GE G' b)
  | _ => []
  end.
Lemma walk_conc_unfold G c : walk_conc md GE G c = PInfo (conc_nid c) GE G (PConc c) :: conc_inner G c.
Proof. destruct c; reflexivity. Qed.
Lemma walk_concs_cons G x r : walk_concs md GE G (CCons x r) = walk_conc md GE G x ++ walk_concs md GE G r.
Proof. reflexivity. Qed.

Ltac conc_head H j :=
  rewrite walk_conc_unfold in H; destruct H as [H|H]; [subst j; apply conc_nid_in|]; cbn [conc_inner] in H.
Lemma walk_conc_ids :
  (forall c G i, In i (walk_conc md GE G c) -> In (pi_id i) (nids_conc c)) /\
  (forall c G i, In i (walk_concs md GE G c) -> In (pi_id i) (nids_concs c)).
Proof.
  apply conc_concs_ind.
  - intros l sens ls b G j H. conc_head H j. cbn [nids_conc].
    apply walk_ldecls_ids in H. destruct H as [H|[G' H]]; [|apply walk_stmts_ids in H]; in_tac.
  - intros l t e G j H. conc_head H j. destruct H.
  - intros l ds b IHb G j H. conc_head H j. cbn [nids_conc].
    apply walk_decls_ids in H. destruct H as [H|[G' H]]; [|apply IHb in H]; in_tac.
  - intros l lb e a gm pm G j H. conc_head H j. destruct H.
  - intros l c gm pm G j H. conc_head H j. destruct H.
  - intros G j H. destruct H.
  - intros x IHx r IHr G j H. rewrite walk_concs_cons in H.
    apply in_app_or in H. destruct H as [H|H]; [apply IHx in H|apply IHr in H]; cbn [nids_concs]; in_tac.
Qed.
Definition walk_concs_ids := proj2 walk_conc_ids.

End WithGE.

Lemma walk_unit_ids md GE LIBS lib uid u i :
  In i (walk_unit md GE LIBS lib uid u) -> In (pi_id i) (nids_dunit u).
Proof.
  unfold walk_unit, nids_dunit. destruct u as [ctx b]. cbn [u_ctx u_body].
  destruct b; cbn [nids_ubody]; intros H; try (destruct H; fail).
  - destruct (check_ctx GE LIBS (env0 uid) ctx) as [G0|n c]; cbn [ok_env] in H; [|destruct H].
    apply walk_decls_ids in H. destruct H as [H|[G' H]]; [in_tac|destruct H].
  - destruct (find_unit GE lib (o_id o)) as [[ex inner obl|? ? ?|?| |?|gs ex inner obl|?| ]|]; try (destruct H; fail).
    + destruct (check_ctx GE LIBS _ ctx) as [G0|n c]; cbn [ok_env] in H; [|destruct H].
      apply walk_decls_ids in H. destruct H as [H|[G' H]]; [in_tac|destruct H].
    + destruct (check_ctx GE LIBS _ ctx) as [G0|n c]; cbn [ok_env] in H; [|destruct H].
      apply walk_decls_ids in H. destruct H as [H|[G' H]]; [in_tac|destruct H].
  - destruct (check_ctx GE LIBS (env0 uid) ctx) as [G0|n c]; cbn [ok_env] in H; [|destruct H].
    apply walk_ifaces_ids in H. destruct H as [H|[Gg H]]; [in_tac|].
    apply walk_ifaces_ids in H. destruct H as [H|[Gp H]]; [in_tac|destruct H].
  - destruct (find_unit GE lib (o_id ent)) as [[| ? ? inner | | | | | | ]|]; try (destruct H; fail).
    destruct (check_ctx GE LIBS _ ctx) as [G0|n c]; cbn [ok_env] in H; [|destruct H].
    apply walk_decls_ids in H. destruct H as [H|[G' H]]; [in_tac|].
    apply walk_concs_ids in H. in_tac.
  - destruct (check_ctx GE LIBS (env0 uid) ctx) as [G0|n c]; cbn [ok_env] in H; [|destruct H].
    apply walk_ifaces_ids in H. destruct H as [H|[Gg H]]; [in_tac|].
    apply walk_decls_ids in H. destruct H as [H|[G' H]]; [in_tac|destruct H].
Qed.
Lemma walk_units_ids md LIBS lib us : forall GE uid k i,
  In i (walk_units md GE LIBS lib uid us k) ->
  In (pi_id i) (flat_map nids_dunit us) \/ exists GE' uid', In i (k GE' uid').
Proof.
  induction us as [|u r IH]; intros GE uid k i H; cbn [walk_units] in H.
  - right. exists GE, uid. exact H.
  - rewrite flat_map_cons. apply in_app_or in H. destruct H as [H|H].
    + apply walk_unit_ids in H. left. in_tac.
    + destruct (check_unit md GE LIBS lib uid u) as [g|n c]; [|destruct H].
      apply IH in H. destruct H as [H|H]; [left; in_tac|right; exact H].
Qed.
Lemma walk_libs_ids md LIBS ls : forall GE uid i,
  In i (walk_libs md GE LIBS uid ls) -> In (pi_id i) (flat_map nids_library ls).
Proof.
  induction ls as [|l r IH]; intros GE uid i H; cbn [walk_libs] in H; [destruct H|].
  rewrite flat_map_cons. apply walk_units_ids in H. destruct H as [H|[GE' [uid' H]]].
  - unfold nids_library at 1. in_tac.
  - apply IH in H. in_tac.
Qed.

End Repl.
