(* Mini/MiniProofs.v — the theorems of the MiniVHDL development put together (proofs).
   Typing soundness: Mini/ProofsTyping.v; phrase replacement (phrase-level faults and rewrites): Mini/ProofsPhrase.v
   (+ ProofsPhraseRepl.v); syntactic faults, duplicate declarations, unit independence: Mini/ProofsZap.v (+ helpers);
   agreement lemmas, declaration swap, added declaration: Mini/ProofsAgree.v (+ helpers). *)
From Coq Require Import List NArith Arith Bool.
Import ListNotations.
From RH Require Import Mini.Syntax Mini.Sem Mini.Typing Mini.Gen Mini.Walk Mini.Faults Mini.Rewrites.
From RH Require Export Mini.ProofsTyping Mini.ProofsPhrase Mini.ProofsZap Mini.ProofsAgree.
Open Scope N_scope.

Lemma valid_b_Valid : forall p, valid_b p = true <-> Valid p.
Proof.
  intros p. unfold valid_b, Valid. destruct (check_program p) as [[]|n c]; split; intro H; try reflexivity; try discriminate.
Qed.

Lemma fallback_valid : Valid fallback.
Proof. vm_compute. reflexivity. Qed.

(* every program the generator returns is Valid *)
Theorem gen_valid : forall choices, Valid (gen_program choices).
Proof.
  intros choices. unfold gen_program.
  destruct (valid_b (gen_raw choices)) eqn:E.
  - apply valid_b_Valid. exact E.
  - exact fallback_valid.
Qed.

(* ------------------------------------------------------------------------------------------ *)
(* C05: every rewrite preserves validity; closed under composition                              *)
(* ------------------------------------------------------------------------------------------ *)
Theorem rewrite_valid : forall r p, Valid p -> applicable r p = true -> Valid (apply_rewrite r p).
Proof.
  intros r p HV HA. destruct r as [s|s|s|s x|s|s lbl|s x k|s x k y].
  - exact (swap_valid p s HV HA).
  - exact (rewrite_phrase_valid p (RNamed s) HV I HA).
  - exact (rewrite_phrase_valid p (RPositional s) HV I HA).
  - exact (rewrite_phrase_valid p (RSelected s x) HV I HA).
  - (* RUseItems: `applicable` re-runs the reference on the result *)
    unfold applicable in HA. apply andb_true_iff in HA. destruct HA as [_ HA].
    apply valid_b_Valid. exact HA.
  - exact (rewrite_phrase_valid p (RWrap s lbl) HV I HA).
  - exact (adddecl_valid p s x k HV HA).
  - (* RAddLocal: the added declaration overloads an outer designator; `applicable` re-runs the reference *)
    unfold applicable in HA. apply andb_true_iff in HA. destruct HA as [_ HA].
    apply andb_true_iff in HA. destruct HA as [_ HA].
    apply valid_b_Valid. exact HA.
Qed.

Theorem rewrites_valid : forall rs p, Valid p -> applicable_all rs p = true -> Valid (apply_rewrites rs p).
Proof.
  induction rs as [|r rs IH]; intros p HV HA.
  - exact HV.
  - cbn [applicable_all] in HA. apply andb_true_iff in HA. destruct HA as [H1 H2].
    cbn [apply_rewrites]. apply IH; [apply rewrite_valid; assumption|exact H2].
Qed.

(* ------------------------------------------------------------------------------------------ *)
(* C06: every fault of the catalogue is blamed where `expect` says                              *)
(* ------------------------------------------------------------------------------------------ *)
Lemma occs_of_kind_In : forall k p s, In s (occs_of_kind k p) -> exists x, In (s, k, x) (occs_program p).
Proof.
  intros k p s H. unfold occs_of_kind in H. apply in_flat_map in H. destruct H as [[[n k'] x] [Hin H]].
  cbn [fst snd] in H. destruct (okind_eqb k' k) eqn:E; [|destruct H].
  destruct H as [H|[]]. subst n. exists x.
  assert (k' = k) by (destruct k', k; try discriminate; reflexivity). subst k'. exact Hin.
Qed.

Lemma sites_candidates : forall f p st, In st (sites f p) -> In st (site_candidates f p) /\ eligible f st p = true.
Proof. intros f p st H. unfold sites in H. apply filter_In in H. exact H. Qed.

Lemma zap_site_blame : forall p k s c,
  Valid p -> NoDup (nids_program p) -> In s (occs_of_kind k p) -> cls_of_okind k = Some c ->
  blame_program (plant (SZap s) p) = Some (s, c).
Proof.
  intros p k s c HV Hnd Hin Hc. destruct (occs_of_kind_In k p s Hin) as [x Hx].
  cbn [plant]. exact (zap_blame p s k x c HV Hnd Hx Hc).
Qed.

Theorem planted_blame : forall p f st,
  Valid p -> NoDup (nids_program p) -> In st (sites f p) ->
  blame_program (plant st p) = Some (expect f st p).
Proof.
  intros p f st HV Hnd Hin.
  destruct f;
    try (apply plant_phrase_blame; try assumption; unfold phrase_class; tauto);
    destruct (sites_candidates _ p st Hin) as [Hc _]; cbn [site_candidates] in Hc.
  - (* FUndeclared *)
    apply in_map_iff in Hc. destruct Hc as [s [E Hs]]. subst st. apply in_app_or in Hs. destruct Hs as [Hs|Hs].
    + exact (zap_site_blame p OUse s Undeclared HV Hnd Hs eq_refl).
    + exact (zap_site_blame p OLibPrefix s Undeclared HV Hnd Hs eq_refl).
  - (* FDuplicate *)
    apply in_map_iff in Hc. destruct Hc as [s [E Hs]]. subst st. cbn [plant]. exact (dup_blame p s HV Hnd Hs).
  - apply in_map_iff in Hc. destruct Hc as [s [E Hs]]. subst st. exact (zap_site_blame p OField s UnknownField HV Hnd Hs eq_refl).
  - apply in_map_iff in Hc. destruct Hc as [s [E Hs]]. subst st. exact (zap_site_blame p OItem s UnknownItem HV Hnd Hs eq_refl).
  - apply in_map_iff in Hc. destruct Hc as [s [E Hs]]. subst st. exact (zap_site_blame p OLibClause s UnknownLib HV Hnd Hs eq_refl).
  - apply in_map_iff in Hc. destruct Hc as [s [E Hs]]. subst st. exact (zap_site_blame p OUnit s UnknownUnit HV Hnd Hs eq_refl).
  - apply in_map_iff in Hc. destruct Hc as [s [E Hs]]. subst st. exact (zap_site_blame p OArch s UnknownArch HV Hnd Hs eq_refl).
  - apply in_map_iff in Hc. destruct Hc as [s [E Hs]]. subst st. exact (zap_site_blame p OFormal s UnknownFormal HV Hnd Hs eq_refl).
Qed.

Theorem planted_invalid : forall p f st,
  Valid p -> NoDup (nids_program p) -> In st (sites f p) -> ~ Valid (plant st p).
Proof.
  intros p f st HV Hnd Hin HV'. pose proof (planted_blame p f st HV Hnd Hin) as Hb.
  unfold blame_program in Hb. unfold Valid in HV'. rewrite HV' in Hb. discriminate Hb.
Qed.

(* the generated programs satisfy the hypotheses whenever the decidable checks say so *)
Lemma gen_hyps : forall choices, nodup_nids (gen_program choices) = true ->
  Valid (gen_program choices) /\ NoDup (nids_program (gen_program choices)).
Proof. intros choices H. split; [apply gen_valid|apply nodup_nids_sound; exact H]. Qed.

(* ------------------------------------------------------------------------------------------ *)
(* the example program: two libraries, overloaded subprograms, a site for every fault class     *)
(* ------------------------------------------------------------------------------------------ *)
Definition example_choices : list N := map (fun k => (N.of_nat k * 181 + 13) mod 1000) (seq 0 2500).
Definition example_program : program := gen_program example_choices.
(* names declared by more than one subprogram declaration of one package *)
Definition sub_names (ds : list decl) : list ident :=
  flat_map (fun d => match d with DFunDecl o _ _ | DProcDecl o _ => [o_id o] | _ => [] end) ds.
Fixpoint has_dup (l : list ident) : bool :=
  match l with [] => false | x :: r => existsb (N.eqb x) r || has_dup r end.
Definition has_overloads (p : program) : bool :=
  existsb (fun l => existsb (fun u => match u_body u with UPkg _ ds | UGen _ _ ds => has_dup (sub_names ds) | _ => false end)
                            (l_units l)) p.

Lemma example_C05 :
  let p := example_program in
  map (fun l => Nat.ltb 0 (length (l_units l))) p = [true; true] /\
  has_overloads p = true /\ valid_b p = true /\ nodup_nids p = true /\ gen_fell_back example_choices = false /\
  exists rs, length rs = 3%nat /\ applicable_all rs p = true /\
             Nat.eqb (length (nids_program (apply_rewrites rs p))) (length (nids_program p)) = false.
Proof.
  cbv zeta.
  split; [vm_compute; reflexivity|].
  split; [vm_compute; reflexivity|].
  split; [vm_compute; reflexivity|].
  split; [vm_compute; reflexivity|].
  split; [vm_compute; reflexivity|].
  (* a concurrent statement wrapped into two nested blocks, an integer type (implicit operators) added to the inner one *)
  exists [RWrap 262 88; RWrap 262 89; RAddLocal 291 90 1 0].
  split; [reflexivity|].
  split; [vm_compute; reflexivity|vm_compute; reflexivity].
Qed.

Lemma example_C06 :
  let p := example_program in
  valid_b p = true /\ nodup_nids p = true /\
  forallb (fun f => negb (Nat.eqb (length (sites f p)) 0)) all_fclasses = true.
Proof.
  cbv zeta.
  split; [vm_compute; reflexivity|].
  split; [vm_compute; reflexivity|].
  vm_compute; reflexivity.
Qed.
