(* Mini/MiniProofs.v — the theorems of the MiniVHDL development put together (proofs).
   Typing soundness: Mini/ProofsTyping.v; phrase replacement (phrase-level faults and rewrites): Mini/ProofsPhrase.v;
   syntactic faults and unit independence: Mini/ProofsZap.v; agreement lemmas, declaration swap, added
   declaration: Mini/ProofsAgree.v. *)
From Coq Require Import List NArith Arith Bool.
Import ListNotations.
From RH Require Import Mini.Syntax Mini.Sem Mini.Typing Mini.Gen Mini.Walk Mini.Faults Mini.Rewrites.
From RH Require Export Mini.ProofsTyping.
Open Scope N_scope.

Lemma valid_b_Valid : forall p, valid_b p = true <-> Valid p.
Proof.
  intros p. unfold valid_b, Valid. destruct (check_program p) as [[]|n c]; split; intro H; try reflexivity; try discriminate.
Qed.

Lemma fallback_valid : Valid fallback.
Proof. vm_compute. reflexivity. Qed.

(* every program the generator returns is Valid *)
Theorem gen_valid : forall choices, Valid (gen_program choices).
Proof.
  intros choices. unfold gen_program.
  destruct (valid_b (gen_raw choices)) eqn:E.
  - apply valid_b_Valid. exact E.
  - exact fallback_valid.
Qed.

(* Valid implies well-typed (mode AtLeast) is not needed by the properties; the two modes differ only in `crit` *)
