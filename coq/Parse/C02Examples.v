(* Parse/C02Examples.v — concrete evaluations used by Props/C02.v: a sample production oracle
   that satisfies the progress hypothesis, whole-input runs of lexer + loop, cursor programs,
   and the crash witnesses of the cursor algebra. *)
From Coq Require Import List NArith Arith Bool Lia.
Import ListNotations.
From RH Require Import Text.Contents Text.Reader Lex.LangLexer Lex.LangLexerProofs
  Parse.Stream Parse.DesignFileLoop Parse.ParseProofs.
Open Scope N_scope.
#[local] Arguments N.add : simpl never.
#[local] Arguments N.sub : simpl never.

(* A sample oracle: every production consumes up to and including the next ';' (or to the end
   of the token vector); `use` clauses fail, `context` is a reference, everything else is Ok. *)
Fixpoint find_semi (l : list token) (i : N) : N :=
  match l with
  | [] => i
  | t :: r => if is_semicolon (t_kind t) then i + 1 else find_semi r (i + 1)
  end.
Definition step_semi (toks : list token) (p : prod) (st : sstate) : outcome :=
  let i' := find_semi (skipn (N.to_nat (s_idx st)) toks) (s_idx st) in
  match p with PUse => OFail i' | PContext => OOk false i' | _ => OOk true i' end.

Lemma find_semi_bounds : forall l i, l <> [] ->
  i < find_semi l i /\ find_semi l i <= i + N.of_nat (length l).
Proof.
  induction l as [|t r IH]; intros i H; [congruence|]. cbn [find_semi length].
  destruct (is_semicolon (t_kind t)); [lia|].
  destruct r as [|t' r']; [cbn [find_semi length]; lia|].
  specialize (IH (i + 1)). destruct IH as [A B]; [discriminate|]. cbn [length] in *. lia.
Qed.

Lemma step_semi_progress : forall toks, H_progress toks (step_semi toks).
Proof.
  intros toks p st H. unfold slen in *.
  assert (L : length (skipn (N.to_nat (s_idx st)) toks) = (length toks - N.to_nat (s_idx st))%nat)
    by apply skipn_length.
  assert (NE : skipn (N.to_nat (s_idx st)) toks <> []).
  { intros E. rewrite E in L. cbn [length] in L. lia. }
  pose proof (find_semi_bounds _ (s_idx st) NE) as [A B]. rewrite L in B.
  unfold step_semi. destruct p; cbn [outcome_idx]; lia.
Qed.

(*  library l; use w;<LF>entity e; package body b; package p is new q; package r;<LF>context c; architecture a;  *)
Definition example_text : list char := [108;105;98;114;97;114;121;32;108;59;32;117;115;101;32;119;59;10;101;110;116;105;116;121;32;101;59;32;112;97;99;107;97;103;101;32;98;111;100;121;32;98;59;32;112;97;99;107;97;103;101;32;112;32;105;115;32;110;101;119;32;113;59;32;112;97;99;107;97;103;101;32;114;59;10;99;111;110;116;101;120;116;32;99;59;32;97;114;99;104;105;116;101;99;116;117;114;101;32;97;59].
(*  entity e; 1 entity f;  *)
Definition example_text_no_unit : list char := [101;110;116;105;116;121;32;101;59;32;49;32;101;110;116;105;116;121;32;102;59].
(*  entity e is<LF>end<LF>entity  *)
Definition example_text_lines : list char := [101;110;116;105;116;121;32;101;32;105;115;10;101;110;100;10;101;110;116;105;116;121].

(* lexer + loop on the example: 28 tokens, five units whose vectors have 9, 4, 6, 3 and 6 tokens
   (the entity owns the library clause and the failed use clause, the architecture the context
   reference); the final cursor is at the end, token_offset after the last unit *)
Lemma example_parses :
  exists toks us fin,
    parse_source step_semi example_text = Some (LDone us fin, []) /\
    lex_all example_text = Done toks [] /\ length toks = 28%nat /\
    map (fun u => (fst u, N.of_nat (length (snd u)))) us =
      [(UEntity, 9); (UPackageBody, 4); (UPackageInstance, 6); (UPackage, 3); (UArchitecture, 6)] /\
    concat (map snd us) = toks /\ fin = {| s_idx := 28; s_off := 28 |}.
Proof.
  eexists. eexists. eexists. split; [vm_compute; reflexivity|].
  split; [vm_compute; reflexivity|]. split; [reflexivity|]. split; [reflexivity|].
  split; reflexivity.
Qed.

(* the Err return: `1` starts no unit; the entity parsed before it is dropped and the design
   file is empty *)
Lemma example_no_unit :
  exists toks us r,
    lex_all example_text_no_unit = Done toks [] /\
    parse_source step_semi example_text_no_unit = Some (r, []) /\
    r = LNoUnit 3 us /\ length us = 1%nat /\ design_units r = Some [].
Proof.
  eexists. eexists. eexists. split; [vm_compute; reflexivity|].
  split; [vm_compute; reflexivity|]. split; [reflexivity|]. split; reflexivity.
Qed.

(* an oracle that does not consume (a recovery path without progress): the loop never ends *)
Definition step_stuck (toks : list token) (p : prod) (st : sstate) : outcome := OFail (s_idx st).
Lemma example_no_progress_hangs :
  exists toks, lex_all example_text_no_unit = Done toks [] /\
    parse_design_file toks (step_stuck toks) = LAbort OutOfFuel.
Proof. eexists. split; vm_compute; reflexivity. Qed.

(* a production that leaves the cursor beyond the end (skip at EOF): slice_tokens panics *)
Definition step_beyond (toks : list token) (p : prod) (st : sstate) : outcome := OOk true (slen toks + 1).
Lemma example_beyond_crashes :
  exists toks, lex_all example_text_no_unit = Done toks [] /\
    parse_design_file toks (step_beyond toks) = LAbort Crash.
Proof. eexists. split; vm_compute; reflexivity. Qed.

(* a cursor program: the head of parse_entity_declaration and its tail on `entity e ;`
   (tokens 0..2 of example_text_no_unit): ids 0, 1 and the ';' id 2, then the slice of length 3 *)
Definition example_toks : list token :=
  match lex_all example_text_no_unit with Done toks _ => toks | Aborted _ => [] end.
Definition example_doc : list (list char) := split_lines example_text_no_unit.
Definition example_ops : list op :=
  [OpExpectKind K_ENTITY; OpExpectKind KIdentifier; OpPopIfKind K_IS; OpExpectSemiOrLast].
Lemma example_ops_run :
  forallb forward example_ops = true /\
  run_ops example_doc example_toks example_ops sstart =
    ([POk (BId 0); POk (BId 1); POk BNone; POk (BDiags (BId 2) [])], {| s_idx := 3; s_off := 0 |}) /\
  fst (run_op example_doc example_toks OpSlice {| s_idx := 3; s_off := 0 |}) = POk (BLen 3).
Proof. split; [reflexivity|]. split; vm_compute; reflexivity. Qed.

(* the same program started right after that slice, where the next token `1` is no ';':
   expect_kind fails with the range of `1`, and expect_semicolon_or_last — called before any
   token is consumed — underflows in get_last_token_id *)
Lemma example_last_id_crash :
  run_ops example_doc example_toks [OpExpectKind K_ENTITY; OpExpectSemiOrLast] {| s_idx := 3; s_off := 3 |} =
    ([POk (BErr ((0, 10), (0, 11))); PAb Crash], {| s_idx := 3; s_off := 3 |}) /\
  get_last_token_id sstart = PAb Crash /\
  get_last_token_id {| s_idx := 4; s_off := 3 |} = POk 0.
Proof. split; [vm_compute; reflexivity|]. split; reflexivity. Qed.

(* pos_before: `entity` on line 2 after `end` on line 1 -> the point after `end`;
   eof_error: the document has three lines, the last is `entity` without terminator *)
Lemma example_pos_before :
  exists toks t, lex_all example_text_lines = Done toks [] /\ tok_at toks 4 = Some t /\
    pos_before toks 4 t = ((1, 3), (1, 3)) /\
    eof_range (split_lines example_text_lines) = ((2, 6), (2, 7)) /\
    fst (expect_kind (split_lines example_text_lines) toks K_IS {| s_idx := 4; s_off := 0 |}) = PErr ((1, 3), (1, 3)) /\
    fst (expect_kind (split_lines example_text_lines) toks K_IS {| s_idx := 5; s_off := 0 |}) = PErr ((2, 6), (2, 7)).
Proof.
  eexists. eexists. split; [vm_compute; reflexivity|]. split; [reflexivity|].
  split; [vm_compute; reflexivity|]. split; [vm_compute; reflexivity|]. split; vm_compute; reflexivity.
Qed.

Lemma span_new_examples : span_new 2 5 = POk (2, 5) /\ span_new 3 3 = POk (3, 3) /\ span_new 3 2 = PAb Crash.
Proof. repeat split. Qed.

(* slice_tokens off by one (hypothetical variant): the unit would own the first token of the
   next unit and the vectors would overlap *)
Definition slice_tokens_off_by_one (toks : list token) (st : sstate) : list token * sstate :=
  (slice toks (s_off st) (s_idx st + 1), {| s_idx := s_idx st; s_off := s_idx st |}).
Lemma slice_off_by_one_refuted :
  let v1 := fst (slice_tokens_off_by_one example_toks {| s_idx := 3; s_off := 0 |}) in
  let v2 := fst (slice_tokens_off_by_one example_toks {| s_idx := 4; s_off := 3 |}) in
  length v1 = 4%nat /\ length v2 = 2%nat /\ nth_error v1 3 = nth_error v2 0 /\ nth_error v2 0 <> None.
Proof. vm_compute. repeat split. discriminate. Qed.
