(* Parse/ParseProofs.v — proofs about Parse/Stream.v and Parse/DesignFileLoop.v.
   A. list slices            B. the design-file loop under the progress hypothesis
   C. token ids of cursor programs lie in the next slice; get_last_token_id
   D. ranges of eof_error / pos_before / every Err of the cursor algebra
   E. the front end as a whole: lexer (Lex/LangLexerProofs.v) followed by the loop. *)
From Coq Require Import List NArith Arith Bool Lia.
Import ListNotations.
From RH Require Import Text.Contents Text.Reader Text.ReaderProofs Text.ReaderInv
  Lex.LangLexer Lex.LangLexerProofs Lex.LangLexerSlices Lex.LangLexerNoCrash
  Parse.Stream Parse.DesignFileLoop.
Open Scope N_scope.
#[local] Arguments N.add : simpl never.
#[local] Arguments N.sub : simpl never.
#[local] Arguments N.mul : simpl never.
#[local] Arguments N.eqb : simpl never.
#[local] Arguments N.ltb : simpl never.
#[local] Arguments N.leb : simpl never.

(* ------------------------------------------------------------------------------------ *)
(* A. slices of a list                                                                    *)
(* ------------------------------------------------------------------------------------ *)
Lemma firstn_plus : forall (A : Type) (n m : nat) (l : list A),
  firstn (n + m) l = firstn n l ++ firstn m (skipn n l).
Proof.
  intros A n. induction n as [|n IH]; intros m l; [reflexivity|].
  destruct l as [|x l]; cbn [plus firstn skipn app].
  - destruct m; reflexivity.
  - rewrite IH. reflexivity.
Qed.

Lemma skipn_plus : forall (A : Type) (n m : nat) (l : list A),
  skipn (n + m) l = skipn m (skipn n l).
Proof.
  intros A n. induction n as [|n IH]; intros m l; [reflexivity|].
  destruct l as [|x l]; cbn [plus skipn].
  - destruct m; reflexivity.
  - apply IH.
Qed.

Lemma nth_error_firstn_lt : forall (A : Type) (n i : nat) (l : list A),
  (i < n)%nat -> nth_error (firstn n l) i = nth_error l i.
Proof.
  intros A n. induction n as [|n IH]; intros i l Hi; [lia|].
  destruct l as [|x l]; [destruct i; reflexivity|].
  destruct i as [|i]; [reflexivity|]. cbn [firstn nth_error]. apply IH. lia.
Qed.

Lemma nth_error_skipn_plus : forall (A : Type) (n i : nat) (l : list A),
  nth_error (skipn n l) i = nth_error l (n + i).
Proof.
  intros A n. induction n as [|n IH]; intros i l; [reflexivity|].
  destruct l as [|x l]; [destruct i; reflexivity|]. cbn [skipn plus nth_error]. apply IH.
Qed.

Section Slices.
  Variable toks : list token.
  Notation len := (slen toks).
  Notation slice := (slice toks).

  Lemma slice_length : forall a b, a <= b -> b <= len ->
    length (slice a b) = N.to_nat (b - a).
  Proof.
    intros a b Hab Hb. unfold Stream.slice. rewrite firstn_length, skipn_length.
    unfold slen in Hb. lia.
  Qed.

  Lemma slice_app : forall a b c, a <= b -> b <= c ->
    slice a b ++ slice b c = slice a c.
  Proof.
    intros a b c Hab Hbc. unfold Stream.slice.
    replace (N.to_nat (c - a)) with (N.to_nat (b - a) + N.to_nat (c - b))%nat by lia.
    rewrite firstn_plus. f_equal. f_equal.
    replace (N.to_nat b) with (N.to_nat a + N.to_nat (b - a))%nat by lia.
    apply skipn_plus.
  Qed.

  Lemma slice_nil : forall a, slice a a = [].
  Proof. intros a. unfold Stream.slice. rewrite N.sub_diag. reflexivity. Qed.

  Lemma slice_prefix : forall b, slice 0 b = firstn (N.to_nat b) toks.
  Proof. intros b. unfold Stream.slice. rewrite N.sub_0_r. reflexivity. Qed.

  (* the i-th token of a slice is the (a+i)-th token of the file *)
  Lemma slice_nth : forall a b i, (i < N.to_nat (b - a))%nat ->
    nth_error (slice a b) i = nth_error toks (N.to_nat a + i).
  Proof.
    intros a b i Hi. unfold Stream.slice.
    rewrite nth_error_firstn_lt by exact Hi.
    apply nth_error_skipn_plus.
  Qed.
End Slices.

(* ------------------------------------------------------------------------------------ *)
(* B. the design-file loop                                                                *)
(* ------------------------------------------------------------------------------------ *)
Section LoopProofs.
  Variable toks : list token.
  Variable step : prod -> sstate -> outcome.
  Notation len := (slen toks).

  (* the progress hypothesis about the productions: started on a token (idx < len) a production
     leaves the cursor strictly further and not beyond the end of the token vector *)
  Definition H_progress : Prop :=
    forall p st, s_idx st < len ->
      s_idx st < outcome_idx (step p st) /\ outcome_idx (step p st) <= len.

  Lemma tok_at_some : forall i t, tok_at toks i = Some t -> i < len.
  Proof.
    intros i t H. unfold tok_at in H. assert (Hn : nth_error toks (N.to_nat i) <> None) by congruence.
    apply nth_error_Some in Hn. unfold slen. lia.
  Qed.
  Lemma tok_at_none : forall i, tok_at toks i = None -> len <= i.
  Proof.
    intros i H. unfold tok_at in H. apply nth_error_None in H. unfold slen. lia.
  Qed.
  Lemma tok_at_lt : forall i, i < len -> exists t, tok_at toks i = Some t.
  Proof.
    intros i H. destruct (tok_at toks i) as [t|] eqn:E; [eauto|].
    apply tok_at_none in E. lia.
  Qed.

  (* strictly increasing slice boundaries after `a`, none beyond the end *)
  Fixpoint chain (a : N) (bs : list N) : Prop :=
    match bs with
    | [] => True
    | b :: r => a < b /\ b <= len /\ chain b r
    end.
  (* consecutive slices [a,b1) [b1,b2) ... *)
  Fixpoint slices_of (a : N) (bs : list N) : list (list token) :=
    match bs with
    | [] => []
    | b :: r => slice toks a b :: slices_of b r
    end.

  Lemma last_cons_indep : forall (c : N) r x y, last (c :: r) x = last (c :: r) y.
  Proof.
    intros c r. revert c. induction r as [|e r IH]; intros c x y; [reflexivity|].
    change (last (c :: e :: r) x) with (last (e :: r) x).
    change (last (c :: e :: r) y) with (last (e :: r) y). apply IH.
  Qed.

  Lemma chain_last_le : forall bs a, chain a bs -> a <= last bs a /\ last bs a <= N.max a len.
  Proof.
    induction bs as [|b r IH]; intros a H.
    - cbn [last]. lia.
    - cbn [chain] in H. destruct H as [H1 [H2 H3]]. specialize (IH b H3).
      destruct r as [|c r'].
      + cbn [last]. lia.
      + change (last (b :: c :: r') a) with (last (c :: r') a).
        rewrite (last_cons_indep c r' a b). lia.
  Qed.

  Lemma concat_slices : forall bs a, chain a bs ->
    concat (slices_of a bs) = slice toks a (last bs a).
  Proof.
    induction bs as [|b r IH]; intros a H.
    - cbn [slices_of concat last]. symmetry. apply slice_nil.
    - cbn [chain] in H. destruct H as [H1 [H2 H3]]. cbn [slices_of concat].
      rewrite (IH b H3). pose proof (chain_last_le r b H3) as [L1 L2].
      rewrite slice_app by lia. f_equal.
      destruct r as [|c r']; [reflexivity|].
      change (last (b :: c :: r') a) with (last (c :: r') a). apply last_cons_indep.
  Qed.

  Lemma slices_nonempty : forall bs a, chain a bs -> Forall (fun v => v <> []) (slices_of a bs).
  Proof.
    induction bs as [|b r IH]; intros a H; cbn [slices_of]; [constructor|].
    cbn [chain] in H. destruct H as [H1 [H2 H3]]. constructor; [|apply IH; exact H3].
    intros E. pose proof (slice_length toks a b) as L. rewrite E in L. cbn [length] in L. lia.
  Qed.

  (* What the loop returns from a state that satisfies off <= idx <= len, with enough fuel. *)
  Definition loop_post (st : sstate) (acc : list (ukind * list token)) (r : lres) : Prop :=
    exists bs news,
      chain (s_off st) bs /\ map snd news = slices_of (s_off st) bs /\
      ((exists fin, r = LDone (rev acc ++ news) fin /\
                    s_off fin = last bs (s_off st) /\ s_idx fin = len) \/
       (exists i, r = LNoUnit i (rev acc ++ news) /\ last bs (s_off st) <= i /\ i < len)).

  Lemma loop_spec : H_progress -> forall fuel st acc,
    s_off st <= s_idx st -> s_idx st <= len -> (N.to_nat (len - s_idx st) < fuel)%nat ->
    loop_post st acc (loop toks step fuel st acc).
  Proof.
    intros HP. induction fuel as [|f IH]; intros st acc Hoi Hil Hf; [lia|].
    cbn [loop]. destruct (peek toks st) as [t|] eqn:Pk.
    - pose proof (tok_at_some _ _ Pk) as Hlt.
      destruct (dispatch toks st t) as [p|] eqn:Dp.
      + destruct (HP p st Hlt) as [P1 P2].
        assert (Hgen : forall i', s_idx st < i' -> i' <= len ->
                  loop_post st acc (loop toks step f (with_idx st i') acc)).
        { intros i' Q1 Q2.
          specialize (IH (with_idx st i') acc). cbn [with_idx s_off s_idx] in IH.
          assert (G : loop_post (with_idx st i') acc (loop toks step f (with_idx st i') acc)).
          { apply IH; lia. }
          exact G. }
        destruct (step p st) as [u i'|i'] eqn:St; cbn [outcome_idx] in P1, P2.
        * destruct (unit_of p u) as [uk|] eqn:Un; [|apply Hgen; assumption].
          unfold slice_tokens. cbn [with_idx s_off s_idx].
          replace ((s_off st <=? i') && (i' <=? len)) with true
            by (symmetry; apply andb_true_intro; split; apply N.leb_le; lia).
          specialize (IH {| s_idx := i'; s_off := i' |} ((uk, slice toks (s_off st) i') :: acc)).
          cbn [s_off s_idx] in IH.
          destruct IH as [bs [news [C [M R]]]]; [lia|lia|lia|].
          exists (i' :: bs), ((uk, slice toks (s_off st) i') :: news).
          split; [cbn [chain]; split; [lia|split; [lia|exact C]]|].
          split; [cbn [map snd slices_of]; f_equal; exact M|].
          assert (EL : last (i' :: bs) (s_off st) = last bs i').
          { destruct bs as [|c r]; [reflexivity|].
            change (last (i' :: c :: r) (s_off st)) with (last (c :: r) (s_off st)).
            apply last_cons_indep. }
          rewrite EL. cbn [rev] in R. rewrite <- app_assoc in R. cbn [app] in R.
          exact R.
        * apply Hgen; assumption.
      + exists [], []. split; [exact I|]. split; [reflexivity|]. right.
        exists (s_idx st). rewrite app_nil_r. split; [reflexivity|]. cbn [last]. split; assumption.
    - apply tok_at_none in Pk. exists [], []. split; [exact I|]. split; [reflexivity|]. left.
      exists st. rewrite app_nil_r. split; [reflexivity|]. cbn [last]. split; [reflexivity|lia].
  Qed.

  (* loop_total: under the progress hypothesis the loop ends within `length toks` iterations
     (plus the final test) and neither runs out of fuel nor crashes *)
  Theorem loop_total : H_progress ->
    (exists us fin, parse_design_file toks step = LDone us fin) \/
    (exists i us, parse_design_file toks step = LNoUnit i us).
  Proof.
    intros HP. unfold parse_design_file, loop_fuel.
    destruct (loop_spec HP (S (length toks)) sstart []) as [bs [news [_ [_ R]]]];
      cbn [sstart s_off s_idx]; unfold slen; try lia.
    destruct R as [[fin [R _]]|[i [R _]]]; [left|right]; eauto.
  Qed.

  Theorem loop_no_abort : H_progress -> forall a, parse_design_file toks step <> LAbort a.
  Proof.
    intros HP a E. destruct (loop_total HP) as [[us [fin R]]|[i [us R]]]; congruence.
  Qed.

  (* slices_partition: the token vectors of the returned units are consecutive, disjoint,
     in-order, non-empty slices [0,b1) [b1,b2) ... of the file's tokens; their concatenation is
     the prefix of length `token_offset` (the last boundary) of the file's tokens *)
  Theorem slices_partition : H_progress -> forall us fin,
    parse_design_file toks step = LDone us fin ->
    exists bs, chain 0 bs /\ map snd us = slices_of 0 bs /\
               Forall (fun v => v <> []) (map snd us) /\
               concat (map snd us) = firstn (N.to_nat (last bs 0)) toks /\
               s_off fin = last bs 0 /\ s_idx fin = len /\ last bs 0 <= len.
  Proof.
    intros HP us fin E. unfold parse_design_file, loop_fuel in E.
    destruct (loop_spec HP (S (length toks)) sstart []) as [bs [news [C [M R]]]];
      cbn [sstart s_off s_idx] in *; unfold slen; try lia.
    destruct R as [[fin' [R [F1 F2]]]|[i [R _]]]; [|congruence].
    rewrite R in E. cbn [rev app] in E. injection E as -> ->.
    exists bs. split; [exact C|]. split; [exact M|].
    split; [rewrite M; apply slices_nonempty; exact C|].
    split; [rewrite M, concat_slices by exact C; apply slice_prefix|].
    split; [exact F1|]. split; [exact F2|].
    pose proof (chain_last_le bs 0 C) as [_ L]. rewrite N.max_r in L by lia. exact L.
  Qed.

  (* the Err return: units parsed so far are dropped, the result is the empty design file *)
  Theorem no_unit_empty : forall i us,
    parse_design_file toks step = LNoUnit i us ->
    design_units (parse_design_file toks step) = Some [].
  Proof. intros i us E. rewrite E. reflexivity. Qed.
End LoopProofs.

(* ------------------------------------------------------------------------------------ *)
(* C. token ids computed by the cursor algebra                                            *)
(* ------------------------------------------------------------------------------------ *)
Section IdProofs.
  Variable d : list (list char).
  Variable toks : list token.
  Notation len := (slen toks).

  (* get_current_token_id: the id is the distance from token_offset (no wrap); crash iff the
     cursor is below token_offset *)
  Lemma cur_id_spec : forall st,
    (s_off st <= s_idx st -> get_current_token_id st = POk (s_idx st - s_off st)) /\
    (s_idx st < s_off st -> get_current_token_id st = PAb Crash).
  Proof.
    intros st. unfold get_current_token_id. split; intros H.
    - replace (s_idx st <? s_off st) with false by (symmetry; apply N.ltb_ge; lia). reflexivity.
    - replace (s_idx st <? s_off st) with true by (symmetry; apply N.ltb_lt; lia). reflexivity.
  Qed.

  (* get_last_token_id never underflows provided one token was consumed since the last slice
     (idx > token_offset), and it does underflow otherwise *)
  Lemma last_id_spec : forall st,
    (s_off st < s_idx st -> get_last_token_id st = POk (s_idx st - 1 - s_off st)) /\
    (s_idx st <= s_off st -> get_last_token_id st = PAb Crash).
  Proof.
    intros st. unfold get_last_token_id. split; intros H.
    - replace (s_idx st =? 0) with false by (symmetry; apply N.eqb_neq; lia).
      replace (s_idx st - 1 <? s_off st) with false by (symmetry; apply N.ltb_ge; lia). reflexivity.
    - destruct (s_idx st =? 0) eqn:E; [reflexivity|]. apply N.eqb_neq in E.
      replace (s_idx st - 1 <? s_off st) with true by (symmetry; apply N.ltb_lt; lia). reflexivity.
  Qed.

  Lemma last_id_ok : forall st id, get_last_token_id st = POk id ->
    s_off st < s_idx st /\ s_off st + id + 1 = s_idx st.
  Proof.
    intros st id H. destruct (N.lt_ge_cases (s_off st) (s_idx st)) as [L|L].
    - rewrite (proj1 (last_id_spec st) L) in H. injection H as <-. lia.
    - rewrite (proj2 (last_id_spec st) L) in H. discriminate.
  Qed.
  Lemma cur_id_ok : forall st id, get_current_token_id st = POk id ->
    s_off st <= s_idx st /\ s_off st + id = s_idx st.
  Proof.
    intros st id H. destruct (N.le_gt_cases (s_off st) (s_idx st)) as [L|L].
    - rewrite (proj1 (cur_id_spec st) L) in H. injection H as <-. lia.
    - rewrite (proj2 (cur_id_spec st) L) in H. discriminate.
  Qed.
  Lemma last_id_not_err : forall st e, get_last_token_id st <> PErr e.
  Proof. intros st e. unfold get_last_token_id. repeat destruct (_ : bool); discriminate. Qed.
  Lemma cur_id_not_err : forall st e, get_current_token_id st <> PErr e.
  Proof. intros st e. unfold get_current_token_id. destruct (_ : bool); discriminate. Qed.

  (* which observations carry the id of a token that the operation has consumed or that lies
     before the cursor *)
  Definition consuming_id (o : op) (b : obs) : option N :=
    match o, b with
    | OpExpectKind _, BId i => Some i
    | OpPopIfKind _, BId i => Some i
    | OpLastId, BId i => Some i
    | OpExpectSemiOrLast, BDiags (BId i) _ => Some i
    | _, _ => None
    end.
  (* operations that never move the cursor backwards and do not slice *)
  Definition forward (o : op) : bool :=
    match o with OpBack | OpSetState _ | OpSlice => false | _ => true end.

  Lemma skip_until_mono : forall fuel cond st r st',
    skip_until d toks fuel cond st = (r, st') -> s_off st' = s_off st /\ s_idx st <= s_idx st'.
  Proof.
    induction fuel as [|f IH]; intros cond st r st' H; cbn [skip_until] in H.
    - injection H as _ <-. split; [reflexivity|lia].
    - destruct (peek toks st) as [t|].
      + destruct (cond (t_kind t)).
        * injection H as _ <-. split; [reflexivity|lia].
        * apply IH in H. unfold skip, with_idx in H. cbn [s_off s_idx] in H. split; [tauto|lia].
      + injection H as _ <-. split; [reflexivity|lia].
  Qed.

  Lemma expect_kind_spec : forall k st r st', s_off st <= s_idx st ->
    expect_kind d toks k st = (r, st') ->
    s_off st' = s_off st /\ s_idx st <= s_idx st' /\
    (forall id, r = POk id -> s_off st + id < s_idx st') /\ (forall a, r <> PAb a).
  Proof.
    intros k st r st' Hoi H. unfold expect_kind in H.
    destruct (peek toks st) as [t|].
    - destruct (kind_eqb (t_kind t) k).
      + rewrite (proj1 (cur_id_spec st) Hoi) in H. injection H as <- <-.
        unfold skip, with_idx. cbn [s_off s_idx].
        split; [reflexivity|]. split; [lia|]. split; [|discriminate].
        intros id E. injection E as <-. lia.
      + injection H as <- <-. split; [reflexivity|]. split; [lia|]. split; discriminate.
    - injection H as <- <-. split; [reflexivity|]. split; [lia|]. split; discriminate.
  Qed.

  Lemma pop_if_kind_spec : forall k st r st', s_off st <= s_idx st ->
    pop_if_kind toks k st = (r, st') ->
    s_off st' = s_off st /\ s_idx st <= s_idx st' /\
    (forall id, r = POk (Some id) -> s_off st + id < s_idx st') /\ (forall a, r <> PAb a).
  Proof.
    intros k st r st' Hoi H. unfold pop_if_kind in H.
    destruct (peek toks st) as [t|].
    - destruct (kind_eqb (t_kind t) k).
      + rewrite (proj1 (cur_id_spec st) Hoi) in H. injection H as <- <-.
        unfold skip, with_idx. cbn [s_off s_idx].
        split; [reflexivity|]. split; [lia|]. split; [|discriminate].
        intros id E. injection E as <-. lia.
      + injection H as <- <-. split; [reflexivity|]. split; [lia|]. split; discriminate.
    - injection H as <- <-. split; [reflexivity|]. split; [lia|]. split; discriminate.
  Qed.

  Lemma expect_semicolon_spec : forall st r st' ds, s_off st <= s_idx st ->
    expect_semicolon d toks st = (r, st', ds) ->
    s_off st' = s_off st /\ s_idx st <= s_idx st' /\
    (forall id, r = POk (Some id) -> s_off st + id < s_idx st') /\ (forall a, r <> PAb a).
  Proof.
    intros st r st' ds Hoi H. unfold expect_semicolon in H.
    destruct (peek toks st) as [t|].
    - assert (L : get_last_token_id (skip st) = POk (s_idx st - s_off st)).
      { rewrite (proj1 (last_id_spec (skip st))); unfold skip, with_idx; cbn [s_off s_idx]; [|lia].
        f_equal. lia. }
      destruct (is_semicolon (t_kind t)); [|destruct (is_colon (t_kind t))].
      + rewrite L in H. injection H as <- <- _. unfold skip, with_idx. cbn [s_off s_idx].
        split; [reflexivity|]. split; [lia|]. split; [|discriminate].
        intros id E. injection E as <-. lia.
      + rewrite L in H. injection H as <- <- _. unfold skip, with_idx. cbn [s_off s_idx].
        split; [reflexivity|]. split; [lia|]. split; [|discriminate].
        intros id E. injection E as <-. lia.
      + injection H as <- <- _. split; [reflexivity|]. split; [lia|]. split; discriminate.
    - injection H as <- <- _. split; [reflexivity|]. split; [lia|]. split; discriminate.
  Qed.

  (* expect_semicolon_or_last crashes exactly when nothing was consumed since the last slice
     and the next token is neither ';' nor ':' *)
  Lemma expect_semicolon_or_last_spec : forall st r st' ds, s_off st <= s_idx st ->
    expect_semicolon_or_last d toks st = (r, st', ds) ->
    s_off st' = s_off st /\ s_idx st <= s_idx st' /\
    (forall id, r = POk id -> s_off st + id < s_idx st') /\
    (forall a, r = PAb a -> a = Crash /\ s_idx st' = s_off st).
  Proof.
    intros st r st' ds Hoi H. unfold expect_semicolon_or_last in H.
    destruct (expect_semicolon d toks st) as [[r0 st0] ds0] eqn:E.
    destruct (expect_semicolon_spec st r0 st0 ds0 Hoi E) as [S1 [S2 [S3 S4]]].
    destruct r0 as [[id|]|e|a].
    - injection H as <- <- _. split; [exact S1|]. split; [exact S2|]. split; [|discriminate].
      intros id' E'. injection E' as <-. apply S3. reflexivity.
    - injection H as <- <- _. split; [exact S1|]. split; [exact S2|]. split.
      + intros id E'. apply last_id_ok in E'. lia.
      + intros a E'. destruct (N.lt_ge_cases (s_off st0) (s_idx st0)) as [L|L].
        * rewrite (proj1 (last_id_spec st0) L) in E'. discriminate.
        * rewrite (proj2 (last_id_spec st0) L) in E'. injection E' as <-. split; [reflexivity|lia].
    - injection H as <- <- _. split; [exact S1|]. split; [exact S2|]. split; discriminate.
    - exfalso. eapply S4. reflexivity.
  Qed.

  Lemma run_op_forward : forall o st r st', forward o = true -> s_off st <= s_idx st ->
    run_op d toks o st = (r, st') ->
    s_off st' = s_off st /\ s_idx st <= s_idx st' /\
    (forall b i, r = POk b -> consuming_id o b = Some i -> s_off st + i < s_idx st').
  Proof.
    intros o st r st' Hf Hoi H.
    destruct o; cbn [forward] in Hf; try discriminate; cbn [run_op] in H.
    - (* OpSkip *) injection H as <- <-. unfold skip, with_idx. cbn [s_off s_idx].
      split; [reflexivity|]. split; [lia|]. intros b i E; injection E as <-; discriminate.
    - (* OpPeek *) injection H as <- <-. split; [reflexivity|]. split; [lia|].
      intros b i E; injection E as <-. cbn [consuming_id]. discriminate.
    - (* OpCurId *) injection H as <- <-. split; [reflexivity|]. split; [lia|].
      intros b i E. cbn [consuming_id]. discriminate.
    - (* OpLastId *) injection H as <- <-. split; [reflexivity|]. split; [lia|].
      intros b i E C. destruct (get_last_token_id st) as [id|e|a] eqn:L; cbn [lift] in E; try discriminate.
      + injection E as <-. cbn [consuming_id] in C. injection C as <-. apply last_id_ok in L. lia.
      + injection E as <-. discriminate.
    - (* OpExpectKind *) destruct (expect_kind d toks k st) as [r0 st0] eqn:E0. injection H as <- <-.
      destruct (expect_kind_spec k st r0 st0 Hoi E0) as [S1 [S2 [S3 _]]].
      split; [exact S1|]. split; [exact S2|]. intros b i E C.
      destruct r0 as [id|e|a]; cbn [lift] in E; try discriminate; injection E as <-; cbn [consuming_id] in C;
        [injection C as <-; apply S3; reflexivity|discriminate].
    - (* OpPopIfKind *) destruct (pop_if_kind toks k st) as [r0 st0] eqn:E0. injection H as <- <-.
      destruct (pop_if_kind_spec k st r0 st0 Hoi E0) as [S1 [S2 [S3 _]]].
      split; [exact S1|]. split; [exact S2|]. intros b i E C.
      destruct r0 as [[id|]|e|a]; cbn [lift obs_opt_id] in E; try discriminate; injection E as <-;
        cbn [consuming_id] in C; [injection C as <-; apply S3; reflexivity|discriminate|discriminate].
    - (* OpPeekExpect *) injection H as <- <-. split; [reflexivity|]. split; [lia|].
      intros b i E C. destruct b; cbn [consuming_id] in C; discriminate.
    - (* OpNextKindsAre *) injection H as <- <-. split; [reflexivity|]. split; [lia|].
      intros b i E; injection E as <-; discriminate.
    - (* OpSkipUntil *)
      destruct (skip_until d toks (skip_fuel toks st) (kind_in ks) st) as [r0 st0] eqn:E0.
      injection H as <- <-. apply skip_until_mono in E0. split; [tauto|]. split; [tauto|].
      intros b i E C. destruct b; cbn [consuming_id] in C; discriminate.
    - (* OpRecoverUntil *)
      destruct (peek toks st) as [t|].
      + unfold recover_until in H.
        destruct (skip_until d toks (skip_fuel toks st) (kind_in ks) st) as [r0 st0] eqn:E0.
        apply skip_until_mono in E0.
        destruct r0 as [u|e|a]; injection H as <- <-; (split; [tauto|]); (split; [tauto|]);
          intros b i E C; destruct b; cbn [consuming_id] in C; discriminate.
      + injection H as <- <-. split; [reflexivity|]. split; [lia|].
        intros b i E; injection E as <-; discriminate.
    - (* OpPosBefore *) destruct (peek toks st) as [t|]; injection H as <- <-;
        (split; [reflexivity|]); (split; [lia|]); intros b i E; injection E as <-; discriminate.
    - (* OpExpectSemiOrLast *)
      destruct (expect_semicolon_or_last d toks st) as [[r0 st0] ds0] eqn:E0. injection H as <- <-.
      destruct (expect_semicolon_or_last_spec st r0 st0 ds0 Hoi E0) as [S1 [S2 [S3 _]]].
      split; [exact S1|]. split; [exact S2|]. intros b i E C.
      destruct r0 as [id|e|a]; cbn [lift] in E; try discriminate; injection E as <-; cbn [consuming_id] in C;
        [injection C as <-; apply S3; reflexivity|discriminate].
    - (* OpGetToken *) injection H as <- <-. split; [reflexivity|]. split; [lia|].
      intros b i E C. destruct b; cbn [consuming_id] in C; discriminate.
    - (* OpIndex *) injection H as <- <-. split; [reflexivity|]. split; [lia|].
      intros b i E C. destruct b; cbn [consuming_id] in C; discriminate.
    - (* OpGetSpan *) injection H as <- <-. split; [reflexivity|]. split; [lia|].
      intros ob i E C. destruct ob; cbn [consuming_id] in C; discriminate.
  Qed.

  Lemma run_ops_forward : forall ops st outs st1,
    forallb forward ops = true -> s_off st <= s_idx st -> run_ops d toks ops st = (outs, st1) ->
    s_off st1 = s_off st /\ s_idx st <= s_idx st1 /\
    (forall k o b i, nth_error ops k = Some o -> nth_error outs k = Some (POk b) ->
                     consuming_id o b = Some i -> s_off st + i < s_idx st1).
  Proof.
    induction ops as [|o r IH]; intros st outs st1 Hf Hoi H.
    - cbn [run_ops] in H. injection H as <- <-. split; [reflexivity|]. split; [lia|].
      intros k o b i E. destruct k; discriminate.
    - cbn [forallb] in Hf. apply andb_prop in Hf. destruct Hf as [Hf1 Hf2].
      cbn [run_ops] in H. destruct (run_op d toks o st) as [x st'] eqn:E1.
      destruct (run_op_forward o st x st' Hf1 Hoi E1) as [S1 [S2 S3]].
      assert (Hoi' : s_off st' <= s_idx st') by lia.
      destruct x as [b0|e0|a0].
      + destruct (run_ops d toks r st') as [xs st''] eqn:E2. injection H as <- <-.
        destruct (IH st' xs st'' Hf2 Hoi' E2) as [T1 [T2 T3]].
        split; [congruence|]. split; [lia|].
        intros k o' b i Ho Hb C. destruct k as [|k]; cbn [nth_error] in Ho, Hb.
        * injection Ho as <-. injection Hb as Eb. rewrite <- Eb in C. specialize (S3 b0 i eq_refl C). lia.
        * specialize (T3 k o' b i Ho Hb C). lia.
      + destruct (run_ops d toks r st') as [xs st''] eqn:E2. injection H as <- <-.
        destruct (IH st' xs st'' Hf2 Hoi' E2) as [T1 [T2 T3]].
        split; [congruence|]. split; [lia|].
        intros k o' b i Ho Hb C. destruct k as [|k]; cbn [nth_error] in Ho, Hb.
        * discriminate.
        * specialize (T3 k o' b i Ho Hb C). lia.
      + injection H as <- <-. split; [exact S1|]. split; [exact S2|].
        intros k o' b i Ho Hb C. destruct k as [|k]; cbn [nth_error] in Hb; [discriminate|].
        destruct k; discriminate.
  Qed.

  (* ids_in_slice: a production is a forward cursor program started with off <= idx.  If it
     leaves the cursor inside the token vector, the following slice_tokens returns the vector
     toks[off..idx), and every token id the program obtained from expect_kind, pop_if_kind,
     get_last_token_id or expect_semicolon_or_last is smaller than the length of that vector and
     denotes in it the very token of the file it was computed for. *)
  Theorem ids_in_slice : forall ops st outs st1,
    forallb forward ops = true -> s_off st <= s_idx st -> run_ops d toks ops st = (outs, st1) ->
    s_idx st1 <= len ->
    exists v, slice_tokens toks st1 = (POk v, {| s_idx := s_idx st1; s_off := s_idx st1 |}) /\
      v = slice toks (s_off st) (s_idx st1) /\
      N.of_nat (length v) = s_idx st1 - s_off st /\
      forall k o b i, nth_error ops k = Some o -> nth_error outs k = Some (POk b) ->
        consuming_id o b = Some i ->
        i < N.of_nat (length v) /\
        nth_error v (N.to_nat i) = tok_at toks (s_off st + i).
  Proof.
    intros ops st outs st1 Hf Hoi H Hlen.
    destruct (run_ops_forward ops st outs st1 Hf Hoi H) as [S1 [S2 S3]].
    exists (slice toks (s_off st) (s_idx st1)).
    assert (L : length (slice toks (s_off st) (s_idx st1)) = N.to_nat (s_idx st1 - s_off st))
      by (apply slice_length; lia).
    split.
    - unfold slice_tokens. rewrite S1.
      replace ((s_off st <=? s_idx st1) && (s_idx st1 <=? len)) with true
        by (symmetry; apply andb_true_intro; split; apply N.leb_le; lia).
      reflexivity.
    - split; [reflexivity|]. split; [rewrite L; lia|].
      intros k o b i Ho Hb C. specialize (S3 k o b i Ho Hb C). split; [rewrite L; lia|].
      rewrite slice_nth by lia. unfold tok_at. f_equal. lia.
  Qed.
End IdProofs.

(* ------------------------------------------------------------------------------------ *)
(* D. ranges of syntax diagnostics produced by the cursor algebra                         *)
(* ------------------------------------------------------------------------------------ *)
Lemma nth_error_last : forall (A : Type) (l : list A) (x : A),
  l <> [] -> nth_error l (length l - 1) = Some (last l x).
Proof.
  intros A l x. induction l as [|a r IH]; intros H; [congruence|].
  destruct r as [|b r']; [reflexivity|].
  change (last (a :: b :: r') x) with (last (b :: r') x).
  rewrite <- IH by discriminate. cbn [length]. 
  replace (S (S (length r')) - 1)%nat with (S (S (length r') - 1)) by lia. reflexivity.
Qed.

Section RangeProofs.
  Variable d : list (list char).
  Variable toks : list token.

  (* the EOF marker [end, end+1) starts at the end of the last stored line of the document
     (the line's terminator included), or at 0:0 in the empty document *)
  Lemma contents_end_in_last_line : d <> [] ->
    nth_error d (N.to_nat (fst (contents_end d))) = Some (last d []) /\
    snd (contents_end d) = len16s (last d []).
  Proof.
    intros H. unfold contents_end. cbn [fst snd]. rewrite Nat2N.id. split; [|reflexivity].
    apply nth_error_last. exact H.
  Qed.
  Lemma contents_end_empty : contents_end [] = (0, 0).
  Proof. reflexivity. Qed.
  Lemma eof_range_spec : eof_range d = (contents_end d, next_char (contents_end d)) /\
    fst (snd (eof_range d)) = fst (fst (eof_range d)) /\
    snd (snd (eof_range d)) = snd (fst (eof_range d)) + 1.
  Proof. unfold eof_range, next_char. cbn [fst snd]. auto. Qed.

  (* a position that is the start or the end of a token of the file *)
  Definition tok_endpoint (p : position) : Prop :=
    exists t, In t toks /\ (p = t_s t \/ p = t_e t).
  (* the range of a syntax diagnostic of the cursor algebra: the EOF marker, or an ordered
     range between two endpoints of tokens of the file *)
  Definition range_ok (r : drange) : Prop :=
    r = eof_range d \/
    (ple (fst r) (snd r) = true /\ tok_endpoint (fst r) /\ tok_endpoint (snd r)).

  Lemma ranges_sorted_in : forall ts lo t, ranges_sorted lo ts -> In t ts ->
    plt (t_s t) (t_e t) = true.
  Proof.
    induction ts as [|x r IH]; intros lo t H Hin; [destruct Hin|].
    cbn [ranges_sorted] in H. destruct H as [_ [H2 H3]]. destruct Hin as [<-|Hin]; [exact H2|].
    eapply IH; eassumption.
  Qed.

  Lemma tok_at_in : forall i t, tok_at toks i = Some t -> In t toks.
  Proof. intros i t H. unfold tok_at in H. eapply nth_error_In. exact H. Qed.

  Hypothesis Hsorted : exists lo, ranges_sorted lo toks.

  Lemma pos_before_ordered : forall i t, tok_at toks i = Some t ->
    let r := pos_before toks i t in
    ple (fst r) (snd r) = true /\ tok_endpoint (fst r) /\ tok_endpoint (snd r).
  Proof.
    intros i t H. destruct Hsorted as [lo HS].
    pose proof (tok_at_in i t H) as Hin.
    assert (Own : ple (fst (trange t)) (snd (trange t)) = true /\
                  tok_endpoint (fst (trange t)) /\ tok_endpoint (snd (trange t))).
    { unfold trange. cbn [fst snd]. split; [apply plt_ple; eapply ranges_sorted_in; eassumption|].
      split; exists t; auto. }
    unfold pos_before. destruct (token_before toks i) as [p|] eqn:B; [|exact Own].
    destruct (fst (t_e p) =? fst (t_s t)); [exact Own|].
    unfold token_before in B. destruct (i =? 0); [discriminate|].
    apply tok_at_in in B. cbn [fst snd]. split; [apply ple_refl|]. split; exists p; auto.
  Qed.
  Lemma pos_before_ok : forall i t, tok_at toks i = Some t -> range_ok (pos_before toks i t).
  Proof. intros i t H. right. apply pos_before_ordered. exact H. Qed.

  Lemma peek_expect_err_ok : forall st e, peek_expect d toks st = PErr e -> e = eof_range d.
  Proof. intros st e H. unfold peek_expect in H. destruct (peek toks st); congruence. Qed.

  Lemma expect_kind_err_ok : forall k st e st', expect_kind d toks k st = (PErr e, st') -> range_ok e.
  Proof.
    intros k st e st' H. unfold expect_kind in H. destruct (peek toks st) as [t|] eqn:P.
    - destruct (kind_eqb (t_kind t) k).
      + destruct (get_current_token_id st) eqn:C; try discriminate.
        exfalso. eapply cur_id_not_err. injection H as -> _. exact C.
      + injection H as <- _. apply pos_before_ok. exact P.
    - injection H as <- _. left. reflexivity.
  Qed.

  Lemma skip_until_err_ok : forall fuel cond st e st',
    skip_until d toks fuel cond st = (PErr e, st') -> e = eof_range d.
  Proof.
    induction fuel as [|f IH]; intros cond st e st' H; cbn [skip_until] in H; [discriminate|].
    destruct (peek toks st) as [t|].
    - destruct (cond (t_kind t)); [discriminate|]. eapply IH. exact H.
    - congruence.
  Qed.

  (* enough fuel: skip_until started inside the vector never runs out of fuel *)
  Lemma skip_until_fuel : forall fuel cond st r st',
    (N.to_nat (slen toks - s_idx st) < fuel)%nat ->
    skip_until d toks fuel cond st = (r, st') -> r <> PAb OutOfFuel.
  Proof.
    induction fuel as [|f IH]; intros cond st r st' Hf H; [lia|]. cbn [skip_until] in H.
    destruct (peek toks st) as [t|] eqn:P.
    - destruct (cond (t_kind t)); [congruence|].
      apply tok_at_some in P. eapply IH; [|exact H]. unfold skip, with_idx. cbn [s_idx]. lia.
    - congruence.
  Qed.

  Lemma expect_semicolon_diags_ok : forall st r st' ds,
    expect_semicolon d toks st = (r, st', ds) -> Forall range_ok ds.
  Proof.
    intros st r st' ds H. unfold expect_semicolon in H. destruct (peek toks st) as [t|] eqn:P.
    - assert (Own : range_ok (trange t)).
      { right. destruct Hsorted as [lo HS]. pose proof (tok_at_in _ t P) as Hin. unfold trange. cbn [fst snd].
        split; [apply plt_ple; eapply ranges_sorted_in; eassumption|]. split; exists t; auto. }
      destruct (is_semicolon (t_kind t)); [|destruct (is_colon (t_kind t))].
      + destruct (get_last_token_id (skip st)); injection H as _ _ <-; constructor.
      + destruct (get_last_token_id (skip st)); injection H as _ _ <-; (constructor; [exact Own|constructor]).
      + injection H as _ _ <-. constructor; [|constructor]. apply pos_before_ok. exact P.
    - injection H as _ _ <-. constructor; [|constructor]. left. reflexivity.
  Qed.
End RangeProofs.

(* ------------------------------------------------------------------------------------ *)
(* E. lexer + loop                                                                        *)
(* ------------------------------------------------------------------------------------ *)
(* every input text: the tokenizer yields a token vector and diagnostics; under the progress
   hypothesis on the productions the design-file loop terminates with a design file (possibly
   the empty one of the Err return) *)
Theorem parse_source_total : forall step,
  (forall toks, H_progress toks (step toks)) ->
  forall s, exists toks diags r,
    lex_all s = Done toks diags /\ parse_source step s = Some (r, diags) /\
    ((exists us fin, r = LDone us fin) \/ (exists i us, r = LNoUnit i us)).
Proof.
  intros step HP s. destruct (lex_all_done s) as [toks [diags E]].
  exists toks, diags, (parse_design_file toks (step toks)).
  split; [exact E|]. split; [unfold parse_source; rewrite E; reflexivity|].
  apply loop_total. apply HP.
Qed.

(* positions of syntax diagnostics lie in the document: both ends of pos_before's range are
   character boundaries of the text (reader states that satisfy the reader invariant) *)
Theorem pos_before_in_document : forall s toks diags, lex_all s = Done toks diags ->
  forall i t, tok_at toks i = Some t ->
    let r := pos_before toks i t in
    ple (fst r) (snd r) = true /\
    exists r1 r2, RInv (split_lines s) r1 /\ RInv (split_lines s) r2 /\
                  fst r = r_pos r1 /\ snd r = r_pos r2.
Proof.
  intros s toks diags E i t H r.
  pose proof (token_ranges_ordered s toks diags E) as HS.
  pose proof (token_slices_consumed s toks diags E) as HT.
  rewrite Forall_forall in HT.
  assert (EP : forall p, tok_endpoint toks p -> exists r0, RInv (split_lines s) r0 /\ p = r_pos r0).
  { intros p [t0 [Hin Hp]]. destruct (HT t0 Hin) as [r1 [r2 [l [I1 [I2 [_ [_ [E1 [E2 _]]]]]]]]].
    destruct Hp as [->| ->]; [exists r1|exists r2]; auto. }
  destruct (pos_before_ordered toks (ex_intro _ (0, 0) HS) i t H) as [O [P1 P2]].
  split; [exact O|]. destruct (EP _ P1) as [r1 [I1 Q1]]. destruct (EP _ P2) as [r2 [I2 Q2]].
  exists r1, r2. auto.
Qed.
