(* Parse/DesignFileLoop.v — executable model of `parse_design_file`
   (vhdl_lang/src/syntax/design_unit.rs l.154-267) and of `VHDLParser::parse_design_source`
   (syntax/parser.rs l.57-79) over the cursor algebra of Parse/Stream.v.

   The loop is `while let Some(token) = ctx.stream.peek() { try_init_token_kind!(token, ...) }`:
   the kind of the token under the cursor selects a production
       library -> parse_library_clause     use -> parse_use_clause      context -> parse_context
       entity -> parse_entity_declaration  architecture -> parse_architecture_body
       configuration -> parse_configuration_declaration
       package -> parse_package_body          when next_kinds_are [package, body]
                  parse_package_instantiation when next_kinds_are [package, identifier, is, new]
                  parse_package_declaration   otherwise
   and ANY OTHER KIND makes the macro `return Err(..)` FROM THE WHOLE FUNCTION: every unit parsed
   so far is dropped and `parse_design_source` answers with `DesignFile::default()` (no units) plus
   that one diagnostic.

   A production is NOT modelled: it is the oracle `step : prod -> sstate -> outcome` (a Section
   variable; ~80 functions of vhdl_lang/src/syntax/*.rs stand behind it).  All the loop sees of
   a production is where it leaves the cursor and whether it answered
       Ok with a design unit   -> `slice_tokens()` is called, the unit owns the returned vector
       Ok with a context item  -> pushed to the pending context clause, no slice
       Err(diagnostic)         -> pushed to the diagnostics, no slice, no recovery at this level.
   `slice_tokens` is called nowhere else in vhdl_lang/src (checked by the harness build: grep),
   so `token_offset` is constant while a production runs.
   No proofs in this file. *)
From Coq Require Import List NArith Arith Bool.
Import ListNotations.
From RH Require Import Text.Contents Text.Reader Lex.LangLexer Parse.Stream.
Open Scope N_scope.

Inductive prod :=
| PLibrary | PUse | PContext | PEntity | PArchitecture | PConfiguration
| PPackageBody | PPackageInstance | PPackageDeclaration.

(* the variant of AnyDesignUnit a production yields *)
Inductive ukind := UContext | UEntity | UArchitecture | UConfiguration | UPackageBody | UPackageInstance | UPackage.

Inductive outcome :=
| OOk (is_unit : bool) (idx' : N)   (* Ok(..); `is_unit` only matters for parse_context:
                                        Declaration (true) or Reference (false) *)
| OFail (idx' : N).                 (* Err(diagnostic) *)

Definition kw (name : list N) : kind := KKw name.
Definition K_LIBRARY := kw [108;105;98;114;97;114;121].
Definition K_USE := kw [117;115;101].
Definition K_CONTEXT := kw [99;111;110;116;101;120;116].
Definition K_ENTITY := kw [101;110;116;105;116;121].
Definition K_ARCHITECTURE := kw [97;114;99;104;105;116;101;99;116;117;114;101].
Definition K_CONFIGURATION := kw [99;111;110;102;105;103;117;114;97;116;105;111;110].
Definition K_PACKAGE := kw [112;97;99;107;97;103;101].
Definition K_BODY := kw [98;111;100;121].
Definition K_IS := kw [105;115].
Definition K_NEW := kw [110;101;119].

(* which design unit a successful production gives; None = a context item *)
Definition unit_of (p : prod) (is_unit : bool) : option ukind :=
  match p with
  | PLibrary | PUse => None
  | PContext => if is_unit then Some UContext else None
  | PEntity => Some UEntity
  | PArchitecture => Some UArchitecture
  | PConfiguration => Some UConfiguration
  | PPackageBody => Some UPackageBody
  | PPackageInstance => Some UPackageInstance
  | PPackageDeclaration => Some UPackage
  end.

Inductive lres :=
| LDone (units : list (ukind * list token)) (final : sstate)   (* Ok(DesignFile { design_units }) *)
| LNoUnit (at_idx : N) (dropped : list (ukind * list token))   (* Err(token.kinds_error(..)) *)
| LAbort (a : abort).

Section Loop.
  Variable toks : list token.
  Variable step : prod -> sstate -> outcome.

  (* try_init_token_kind! + the lookahead of the Package arm *)
  Definition dispatch (st : sstate) (t : token) : option prod :=
    let k := t_kind t in
    if kind_eqb k K_LIBRARY then Some PLibrary
    else if kind_eqb k K_USE then Some PUse
    else if kind_eqb k K_CONTEXT then Some PContext
    else if kind_eqb k K_ENTITY then Some PEntity
    else if kind_eqb k K_ARCHITECTURE then Some PArchitecture
    else if kind_eqb k K_CONFIGURATION then Some PConfiguration
    else if kind_eqb k K_PACKAGE then
      if next_kinds_are toks [K_PACKAGE; K_BODY] st then Some PPackageBody
      else if next_kinds_are toks [K_PACKAGE; KIdentifier; K_IS; K_NEW] st then Some PPackageInstance
      else Some PPackageDeclaration
    else None.

  Fixpoint loop (fuel : nat) (st : sstate) (acc : list (ukind * list token)) : lres :=
    match fuel with
    | O => LAbort OutOfFuel
    | S f =>
        match peek toks st with
        | None => LDone (rev acc) st
        | Some t =>
            match dispatch st t with
            | None => LNoUnit (s_idx st) (rev acc)
            | Some p =>
                match step p st with
                | OFail i' => loop f (with_idx st i') acc
                | OOk u i' =>
                    match unit_of p u with
                    | None => loop f (with_idx st i') acc
                    | Some uk =>
                        match slice_tokens toks (with_idx st i') with
                        | (POk v, st') => loop f st' ((uk, v) :: acc)
                        | (PErr _, _) => LAbort Crash        (* slice_tokens has no Err *)
                        | (PAb a, _) => LAbort a
                        end
                    end
                end
            end
        end
    end.

  (* one iteration for every token is enough when every iteration consumes (H_progress) *)
  Definition loop_fuel : nat := S (length toks).
  Definition parse_design_file : lres := loop loop_fuel sstart [].

  (* parse_design_source: Err -> DesignFile::default() *)
  Definition design_units (r : lres) : option (list (ukind * list token)) :=
    match r with
    | LDone us _ => Some us
    | LNoUnit _ _ => Some []
    | LAbort _ => None
    end.

  (* ---------- the progress hypothesis, as a decidable check on one iteration ---------- *)
  Definition outcome_idx (o : outcome) : N := match o with OOk _ i => i | OFail i => i end.
  Definition progress_ok (st : sstate) (o : outcome) : bool :=
    (s_idx st <? outcome_idx o) && (outcome_idx o <=? slen toks).
End Loop.

(* ---------- replaying recorded iterations (hook H3) ----------
   A record is (idx_before, sliced, idx_after): the cursor at the top of an iteration, whether
   `token_offset` moved to the new cursor before the next iteration, and the cursor at the top of
   the next iteration (or after the loop).  The oracle instantiated from the records answers by
   looking the state's idx up; an iteration that is not in the records leaves the cursor where it
   is (no progress), which the replay reports as OutOfFuel. *)
Definition record := (N * bool * N)%type.
Fixpoint lookup (recs : list record) (i : N) : option (bool * N) :=
  match recs with
  | [] => None
  | (b, s, a) :: r => if b =? i then Some (s, a) else lookup r i
  end.
Definition step_of_records (recs : list record) (p : prod) (st : sstate) : outcome :=
  match lookup recs (s_idx st) with
  | Some (true, a) => OOk true a
  | Some (false, a) => OFail a
  | None => OFail (s_idx st)
  end.
(* all recorded iterations satisfy the progress hypothesis *)
Definition records_progress (toks : list token) (recs : list record) : bool :=
  let n := slen toks in
  forallb (fun r => match r with (b, _, a) => (b <? a) && (a <=? n) end) recs.
Definition replay (toks : list token) (recs : list record) : lres :=
  parse_design_file toks (step_of_records recs).

(* ---------- the front end as a whole: TokenStream::new, then the loop ----------
   `step` (the productions) may depend on the token vector.  None = the lexer aborted (which
   Lex/LangLexerProofs.v and Lex/LangLexerNoCrash.v exclude). *)
Definition parse_source (step : list token -> prod -> sstate -> outcome) (s : list char)
  : option (lres * list terr) :=
  match lex_all s with
  | Done toks diags => Some (parse_design_file toks (step toks), diags)
  | Aborted _ => None
  end.
