(* Parse/Stream.v — executable model of `TokenStream`'s cursor algebra
   (vhdl_lang/src/syntax/tokens/tokenstream.rs l.85-310: state, set_state, skip, back, peek,
   get_current_token_id, get_last_token_id, eof_error, idx_of/token_before, pos_before,
   expect_kind, peek_expect, nth_kind_is, next_kinds_are, pop_if_kind, skip_until, slice_tokens,
   the `TokenAccess` implementation over `tokens[token_offset..]`, `Recover::or_recover_until`),
   of `expect_semicolon` / `expect_semicolon_or_last` (syntax/recover.rs) and of the ordering
   assertion of `TokenSpan::new` (tokenizer.rs l.571), over the token vector produced by the
   shared lexer model (Lex/LangLexer.v: `token`, `kind`, positions of Text/Reader.v).

   Conventions
   * The token vector `toks` is immutable after `TokenStream::new`; the mutable part of the
     stream is the pair of `Cell<usize>`s `(idx, token_offset)` = `sstate`.
   * `usize` values are unbounded N; every subtraction of the Rust code is written with its
     underflow test and yields `PAb Crash` (the harness builds vhdl_lang with overflow checks and
     debug assertions on; without them the value wraps to 2^64-1-.. and the next indexing with
     it panics).  Slice/array indexing out of range is `PAb Crash` as well.
   * A Rust `Err(Diagnostic)` is `PErr (s, e)` — only the range of a diagnostic is modelled,
     not its message.  Diagnostics pushed to the handler are returned as a list.
   * `skip_until` is the only loop: Fixpoint on fuel, exhaustion is `PAb OutOfFuel`.
   No proofs in this file. *)
From Coq Require Import List NArith Arith Bool.
Import ListNotations.
From RH Require Import Text.Contents Text.Reader Lex.LangLexer.
Open Scope N_scope.

(* ---------- results ---------- *)
Definition drange := (position * position)%type.          (* range of a diagnostic / SrcPos *)
Inductive pres (A : Type) := POk (a : A) | PErr (d : drange) | PAb (a : abort).
Arguments POk {A}. Arguments PErr {A}. Arguments PAb {A}.

Record sstate := { s_idx : N; s_off : N }.
Definition sstart : sstate := {| s_idx := 0; s_off := 0 |}.
Definition with_idx (st : sstate) (i : N) : sstate := {| s_idx := i; s_off := s_off st |}.

(* kinds are compared with `==` in Rust; the model's `kind` has the keyword name as payload *)
Definition kind_eqb (a b : kind) : bool := leqb (kind_code a) (kind_code b).

(* Contents::end: (number of lines - 1 saturating, UTF-16 length of the last stored line,
   its line terminator included) *)
Definition contents_end (d : list (list char)) : position :=
  (N.of_nat (length d - 1), len16s (last d [])).

(* TokenSpan::new(start, end): debug_assert!(start <= end) *)
Definition span_new (s e : N) : pres (N * N) := if s <=? e then POk (s, e) else PAb Crash.
(* the same value without the assertion (release profile of a plain build) *)
Definition span_new_unchecked (s e : N) : N * N := (s, e).

Section Stream.
  Variable d : list (list char).       (* the document's line buffer (for eof_error only) *)
  Variable toks : list token.          (* TokenStream.tokens *)

  Definition slen : N := N.of_nat (length toks).
  Definition tok_at (i : N) : option token := nth_error toks (N.to_nat i).
  Definition trange (t : token) : drange := (t_s t, t_e t).

  (* ---------- cursor ---------- *)
  Definition state (st : sstate) : N := s_idx st.
  Definition set_state (n : N) (st : sstate) : sstate := with_idx st n.
  Definition skip (st : sstate) : sstate := with_idx st (s_idx st + 1).
  (* back: idx - 1 *)
  Definition back (st : sstate) : pres sstate :=
    if s_idx st =? 0 then PAb Crash else POk (with_idx st (s_idx st - 1)).
  Definition peek (st : sstate) : option token := tok_at (s_idx st).

  (* TokenId::new(idx - token_offset) *)
  Definition get_current_token_id (st : sstate) : pres N :=
    if s_idx st <? s_off st then PAb Crash else POk (s_idx st - s_off st).
  (* TokenId::new(idx - 1 - token_offset): two subtractions, each may underflow *)
  Definition get_last_token_id (st : sstate) : pres N :=
    if s_idx st =? 0 then PAb Crash
    else if s_idx st - 1 <? s_off st then PAb Crash
    else POk (s_idx st - 1 - s_off st).

  (* eof_error: range [end, end.next_char()) of the document *)
  Definition eof_range : drange := (contents_end d, next_char (contents_end d)).

  (* token_before(token) for the token stored at index i: tokens.get(i.wrapping_sub(1)) *)
  Definition token_before (i : N) : option token := if i =? 0 then None else tok_at (i - 1).
  (* pos_before(&tokens[i]) *)
  Definition pos_before (i : N) (t : token) : drange :=
    match token_before i with
    | Some p => if fst (t_e p) =? fst (t_s t) then trange t else (t_e p, t_e p)
    | None => trange t
    end.

  (* expect_kind *)
  Definition expect_kind (k : kind) (st : sstate) : pres N * sstate :=
    match peek st with
    | Some t =>
        if kind_eqb (t_kind t) k then
          match get_current_token_id st with
          | POk id => (POk id, skip st)
          | PErr e => (PErr e, st)
          | PAb a => (PAb a, st)
          end
        else (PErr (pos_before (s_idx st) t), st)
    | None => (PErr eof_range, st)
    end.

  (* peek_expect: the index of the token under the cursor *)
  Definition peek_expect (st : sstate) : pres token :=
    match peek st with Some t => POk t | None => PErr eof_range end.

  Definition nth_kind_is (n : N) (k : kind) (st : sstate) : bool :=
    match tok_at (s_idx st + n) with Some t => kind_eqb (t_kind t) k | None => false end.
  Fixpoint next_kinds_from (n : N) (ks : list kind) (st : sstate) : bool :=
    match ks with
    | [] => true
    | k :: r => nth_kind_is n k st && next_kinds_from (n + 1) r st
    end.
  Definition next_kinds_are (ks : list kind) (st : sstate) : bool := next_kinds_from 0 ks st.

  (* pop_if_kind *)
  Definition pop_if_kind (k : kind) (st : sstate) : pres (option N) * sstate :=
    match peek st with
    | Some t =>
        if kind_eqb (t_kind t) k then
          match get_current_token_id st with
          | POk id => (POk (Some id), skip st)
          | PErr e => (PErr e, st)
          | PAb a => (PAb a, st)
          end
        else (POk None, st)
    | None => (POk None, st)
    end.

  (* skip_until(cond) *)
  Fixpoint skip_until (fuel : nat) (cond : kind -> bool) (st : sstate) : pres unit * sstate :=
    match fuel with
    | O => (PAb OutOfFuel, st)
    | S f =>
        match peek st with
        | None => (PErr eof_range, st)
        | Some t => if cond (t_kind t) then (POk tt, st) else skip_until f cond (skip st)
        end
    end.
  (* enough for every state with idx <= len *)
  Definition skip_fuel (st : sstate) : nat := S (N.to_nat (slen - s_idx st)).

  (* or_recover_until applied to an `Err(e)`; returns the final result and the pushed diagnostics *)
  Definition recover_until (fuel : nat) (e : drange) (cond : kind -> bool) (st : sstate)
    : pres unit * sstate * list drange :=
    match skip_until fuel cond st with
    | (POk _, st') => (PErr e, st', [])
    | (PErr e', st') => (PErr e', st', [e])
    | (PAb a, st') => (PAb a, st', [])
    end.

  (* slice_tokens: Vec::from(&tokens[token_offset..idx]); token_offset := idx *)
  Definition slice (a b : N) : list token := firstn (N.to_nat (b - a)) (skipn (N.to_nat a) toks).
  Definition slice_tokens (st : sstate) : pres (list token) * sstate :=
    if (s_off st <=? s_idx st) && (s_idx st <=? slen)
    then (POk (slice (s_off st) (s_idx st)), {| s_idx := s_idx st; s_off := s_idx st |})
    else (PAb Crash, st).

  (* TokenAccess for TokenStream: tokens[token_offset..] then get / index / [a..b+1] *)
  Definition get_token (id : N) (st : sstate) : pres (option token) :=
    if s_off st <=? slen then POk (tok_at (s_off st + id)) else PAb Crash.
  Definition index (id : N) (st : sstate) : pres token :=
    if s_off st <=? slen then
      match tok_at (s_off st + id) with Some t => POk t | None => PAb Crash end
    else PAb Crash.
  (* get_span(start, end) = get_pos(start).combine(get_pos(end)): min of starts, max of ends *)
  Definition pmin (p q : position) : position := if ple p q then p else q.
  Definition pmax (p q : position) : position := if ple p q then q else p.
  Definition get_span (a b : N) (st : sstate) : pres drange :=
    match index a st, index b st with
    | POk ta, POk tb => POk (pmin (t_s ta) (t_s tb), pmax (t_e ta) (t_e tb))
    | PAb x, _ => PAb x
    | _, PAb x => PAb x
    | PErr e, _ => PErr e
    | _, PErr e => PErr e
    end.

  (* ---------- recover.rs ---------- *)
  Definition is_semicolon (k : kind) : bool := match k with KSemiColon => true | _ => false end.
  Definition is_colon (k : kind) : bool := match k with KColon => true | _ => false end.

  (* expect_semicolon: (Some id | None, state, pushed diagnostics) *)
  Definition expect_semicolon (st : sstate) : pres (option N) * sstate * list drange :=
    match peek st with
    | None => (POk None, st, [eof_range])
    | Some t =>
        if is_semicolon (t_kind t) then
          let st' := skip st in
          match get_last_token_id st' with
          | POk id => (POk (Some id), st', [])
          | PErr e => (PErr e, st', [])
          | PAb a => (PAb a, st', [])
          end
        else if is_colon (t_kind t) then
          let st' := skip st in
          match get_last_token_id st' with
          | POk id => (POk (Some id), st', [trange t])
          | PErr e => (PErr e, st', [trange t])
          | PAb a => (PAb a, st', [trange t])
          end
        else (POk None, st, [pos_before (s_idx st) t])
    end.

  (* expect_semicolon_or_last *)
  Definition expect_semicolon_or_last (st : sstate) : pres N * sstate * list drange :=
    match expect_semicolon st with
    | (POk (Some id), st', ds) => (POk id, st', ds)
    | (POk None, st', ds) => (get_last_token_id st', st', ds)
    | (PErr e, st', ds) => (PErr e, st', ds)
    | (PAb a, st', ds) => (PAb a, st', ds)
    end.

  (* ---------- cursor programs ----------
     What a production does to the stream between two `slice_tokens` calls, as a list of
     operations.  `run_ops` returns the final state and the observations, one per operation
     (this is what the harness replays on the real TokenStream). *)
  Inductive op :=
  | OpSkip | OpBack | OpSetState (n : N)
  | OpPeek | OpCurId | OpLastId
  | OpExpectKind (k : kind) | OpPopIfKind (k : kind) | OpPeekExpect
  | OpNextKindsAre (ks : list kind)
  | OpSkipUntil (ks : list kind)          (* cond = membership in ks *)
  | OpRecoverUntil (ks : list kind)       (* Err(current token's range).or_recover_until(ks) *)
  | OpPosBefore                           (* pos_before(peeked token), if any *)
  | OpExpectSemiOrLast
  | OpSlice
  | OpGetToken (id : N) | OpIndex (id : N) | OpGetSpan (a b : N).

  Inductive obs :=
  | BUnit                                 (* no value *)
  | BNone                                 (* Option::None *)
  | BId (id : N)                          (* a TokenId *)
  | BTok (k : kind) (r : drange)          (* a token: kind and range *)
  | BBool (b : bool)
  | BRange (r : drange)
  | BErr (r : drange)                     (* Err(diagnostic) *)
  | BLen (n : N)                          (* length of the vector slice_tokens returned *)
  | BDiags (o : obs) (ds : list drange).  (* a result plus the diagnostics it pushed *)

  Definition kind_in (ks : list kind) (k : kind) : bool := existsb (kind_eqb k) ks.

  Definition obs_tok (t : token) : obs := BTok (t_kind t) (trange t).
  Definition lift {A} (f : A -> obs) (r : pres A) : pres obs :=
    match r with POk a => POk (f a) | PErr e => POk (BErr e) | PAb a => PAb a end.
  Definition obs_opt_id (o : option N) : obs := match o with Some i => BId i | None => BNone end.
  Definition obs_opt_tok (o : option token) : obs := match o with Some t => obs_tok t | None => BNone end.

  Definition run_op (o : op) (st : sstate) : pres obs * sstate :=
    match o with
    | OpSkip => (POk BUnit, skip st)
    | OpBack => match back st with
                | POk st' => (POk BUnit, st') | PErr e => (PErr e, st) | PAb a => (PAb a, st) end
    | OpSetState n => (POk BUnit, set_state n st)
    | OpPeek => (POk (obs_opt_tok (peek st)), st)
    | OpCurId => (lift BId (get_current_token_id st), st)
    | OpLastId => (lift BId (get_last_token_id st), st)
    | OpExpectKind k => let '(r, st') := expect_kind k st in (lift BId r, st')
    | OpPopIfKind k => let '(r, st') := pop_if_kind k st in (lift obs_opt_id r, st')
    | OpPeekExpect => (lift obs_tok (peek_expect st), st)
    | OpNextKindsAre ks => (POk (BBool (next_kinds_are ks st)), st)
    | OpSkipUntil ks =>
        let '(r, st') := skip_until (skip_fuel st) (kind_in ks) st in (lift (fun _ => BUnit) r, st')
    | OpRecoverUntil ks =>
        match peek st with
        | None => (POk BNone, st)
        | Some t =>
            let '(r, st', ds) := recover_until (skip_fuel st) (trange t) (kind_in ks) st in
            (lift (fun o => BDiags o ds) (lift (fun _ => BUnit) r), st')
        end
    | OpPosBefore =>
        match peek st with
        | None => (POk BNone, st)
        | Some t => (POk (BRange (pos_before (s_idx st) t)), st)
        end
    | OpExpectSemiOrLast =>
        let '(r, st', ds) := expect_semicolon_or_last st in
        (lift (fun o => BDiags o ds) (lift BId r), st')
    | OpSlice => let '(r, st') := slice_tokens st in (lift (fun v => BLen (N.of_nat (length v))) r, st')
    | OpGetToken id => (lift obs_opt_tok (get_token id st), st)
    | OpIndex id => (lift obs_tok (index id st), st)
    | OpGetSpan a b => (lift BRange (get_span a b st), st)
    end.

  (* stops at the first abort (the Rust program panicked) *)
  Fixpoint run_ops (ops : list op) (st : sstate) : list (pres obs) * sstate :=
    match ops with
    | [] => ([], st)
    | o :: r =>
        match run_op o st with
        | (PAb a, st') => ([PAb a], st')
        | (x, st') => let '(xs, st'') := run_ops r st' in (x :: xs, st'')
        end
    end.
End Stream.
