(* Kernel/Inv.v — specification vocabulary for the proofs about Reset.v / Incr.v
   (definitions only, no proofs): reachability in `users_of`, the read order of a world,
   registration of reads, and the invariant `good` of the analysis state. *)
From Coq Require Import List NArith Arith Bool.
Import ListNotations.
From RH Require Import Kernel.World Kernel.Reset Kernel.Incr.
Open Scope N_scope.

(* x is `init` or a transitive user of a unit of `init`: what get_all_affected computes *)
Inductive reach (E : list (uid * uid)) (init : list uid) : uid -> Prop :=
| reach_init : forall x, In x init -> reach E init x
| reach_step : forall v x, reach E init v -> In (v, x) E -> reach E init x.

(* a is read (transitively) below b: whenever b has a reference result with some fuel,
   a has one with strictly less *)
Definition sub (W : world) (a b : uid) : Prop :=
  forall g, den g W b <> None -> exists g', (g' < g)%nat /\ den g' W a <> None.

(* the read `ev` of unit x is recorded in the dependency maps *)
Definition reg_event (M : maps) (x : uid) (ev : event) : Prop :=
  (forall v, In v (answer_units (snd ev)) -> In (v, x) (users_of M)) /\
  match ev with
  | (QUnit s, AMissing) => In (s, x) (missing M)
  | (QLibAll l, AAll _) => In (l, x) (users_all M)
  | _ => True
  end.

(* the invariant of the analysis state w.r.t. the current world W:
   - every memoised result is the reference result of the unit in W;
   - every edge of users_of is a read that the reference run of its user performs
     ("no edge whose user has since been re-analysed without performing that read");
   - the maps contain every read of every memoised unit. *)
Record good (W : world) (A : ast) : Prop := mkGood {
  g_memo : forall x e, memo_get (a_memo A) x = Some e -> exists g, den g W x = Some e;
  g_edges : forall a b, In (a, b) (users_of (a_maps A)) ->
            exists g e, den g W b = Some e /\ In a (trace_units (snd e));
  g_reg : forall x e, memo_get (a_memo A) x = Some e -> Forall (reg_event (a_maps A) x) (snd e)
}.

(* the analysis state only grows during an analysis *)
Record ext (A A' : ast) : Prop := mkExt {
  x_memo : forall x e, memo_get (a_memo A) x = Some e -> memo_get (a_memo A') x = Some e;
  x_users : incl (users_of (a_maps A)) (users_of (a_maps A'));
  x_all : incl (users_all (a_maps A)) (users_all (a_maps A'));
  x_missing : incl (missing (a_maps A)) (missing (a_maps A'))
}.

(* every unit of the world is analysed *)
Definition total (W : world) (A : ast) : Prop :=
  forall x, In x (unit_ids W) -> memo_get (a_memo A) x <> None.

(* the lint function yields nothing for a family without primary unit (an architecture whose
   entity is missing / a body whose package is missing is not analysed beyond the failing
   lookup of its primary unit, so it declares nothing) *)
Definition lint_ok (lintf : list (uid * entry) -> lintval) : Prop :=
  forall f, (forall x, In x f -> is_primary (fst x) = false) -> lintf f = [].

(* the lint cache holds, for every key, the diagnostics of the current family *)
Definition lint_good (lintf : list (uid * entry) -> lintval) (W : world) (m : list (uid * entry))
           (C : list (lkey * lintval)) : Prop :=
  forall k, lint_get C k = lintf (family W m k).

(* all worlds of a history are clean *)
Fixpoint worlds_clean (W : world) (h : list batch) : Prop :=
  match h with
  | [] => True
  | b :: h' => clean (world_after W b) /\ worlds_clean (world_after W b) h'
  end.
