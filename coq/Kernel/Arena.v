(* Kernel/Arena.v — model of vhdl_lang/src/named_entity/arena.rs and of the arena bookkeeping of
   DesignRoot (vhdl_lang/src/analysis/root.rs: LockedUnit::new, Library::new, analyze_unit,
   analyze_standard_package, AnalyzeContext::get_analysis/get_library/standard_package_region,
   DesignRoot::analyze's "Rebuild declaration arenas of named entities").

   Definitions only; proofs are in Kernel/ArenaProofs.v.

   What is modelled (faithfully, including the panics):
     ArenaId            a u32 taken from the global counter ACOUNTER (starts at 1; 0 is reserved for std.standard)
     LocalArena         id + the vector of entities; one *allocation* of a LocalArena (an `Arc<LocalArena>`)
                        is identified by a version stamp `la_ver` (the model's stand-in for pointer identity)
     EntityId           (arena id, local index)
     FinalArena         `refs : FnvHashMap<u32, Arc<LocalArena>>` as an association list (lookup = first match)
     FinalArena::get    `self.refs[&arena_id].get(local_id)`: panics (None) on an unknown arena id and
                        (panic_on_missing) on an index beyond the arena
     FinalArena::link   `for (id, arena) in referenced { self.refs.entry(id).or_insert(arena) }`  (first wins)
     Arena::finalize    `refs.insert(local.id, local)`  (own arena overwrites)
     DesignRoot         slots = libraries (their one-entity arena) and design units (LockedUnit: arena id fixed at
                        parse time and RE-USED by every re-analysis; result = FinalArena of the last analysis),
                        the cached `standard_arena`, the root arena `arenas`, the two counters
   What is abstract: the entities themselves (payload `ent := N`), which units an analysis links (a schedule
   given as data), which units are reset (a set given as data, see `uses_closed`). *)
From Coq Require Import List NArith Bool.
Import ListNotations.
Open Scope N_scope.

Definition arena_id := N.
Definition version := N.
Definition ent := N.

Record local_arena := mkLA { la_id : arena_id; la_ver : version; la_items : list ent }.

(* EntityId = (arena_id << 32) | local index *)
Definition entity_id := (arena_id * N)%type.

Definition final_arena := list (arena_id * local_arena).

Fixpoint fa_find (f : final_arena) (a : arena_id) : option local_arena :=
  match f with
  | [] => None
  | (b, la) :: t => if b =? a then Some la else fa_find t a
  end.

Fixpoint nth_N {A} (l : list A) (n : N) : option A :=
  match l with
  | [] => None
  | x :: t => if n =? 0 then Some x else nth_N t (n - 1)
  end.

(* LocalArena::get: panic_on_missing when the index is not below items.len() *)
Definition la_get (la : local_arena) (i : N) : option ent := nth_N (la_items la) i.

(* FinalArena::get; None = panic *)
Definition fa_get (f : final_arena) (e : entity_id) : option ent :=
  match fa_find f (fst e) with
  | None => None
  | Some la => la_get la (snd e)
  end.

(* FinalArena::is_valid_id (total) *)
Definition fa_is_valid (f : final_arena) (e : entity_id) : bool :=
  match fa_find f (fst e) with
  | None => false
  | Some la => snd e <? N.of_nat (length (la_items la))
  end.

(* FinalArena::link — `referenced` is traversed in its (hash) order; every key already present is kept *)
Fixpoint link (self referenced : final_arena) : final_arena :=
  match referenced with
  | [] => self
  | (a, la) :: r =>
      link (match fa_find self a with Some _ => self | None => self ++ [(a, la)] end) r
  end.

Fixpoint fa_remove (f : final_arena) (a : arena_id) : final_arena :=
  match f with
  | [] => []
  | (b, la) :: t => if b =? a then fa_remove t a else (b, la) :: fa_remove t a
  end.

(* HashMap::insert: replaces *)
Definition fa_insert (f : final_arena) (la : local_arena) : final_arena :=
  (la_id la, la) :: fa_remove f (la_id la).

(* Arena::finalize *)
Definition finalize (refs : final_arena) (local : local_arena) : final_arena := fa_insert refs local.

(* Arena::get during an analysis: local first, then the linked arenas *)
Definition arena_get (local : local_arena) (refs : final_arena) (e : entity_id) : option ent :=
  if fst e =? la_id local then la_get local (snd e) else fa_get refs e.

(* LocalArena::alloc: index = items.len(); `assert!(idx <= u32::MAX)` *)
Definition la_alloc (la : local_arena) (x : ent) : option (local_arena * entity_id) :=
  let idx := N.of_nat (length (la_items la)) in
  if idx <=? 4294967295
  then Some (mkLA (la_id la) (la_ver la) (la_items la ++ [x]), (la_id la, idx))
  else None.

(* the sequence of links of `DesignRoot::analyze`: arenas.clear(); link(..); link(..); ... *)
Definition link_all (fs : list final_arena) : final_arena := fold_left link fs [].

(* Two final arenas agree when no arena id maps to two different local arenas *)
Definition agree (f g : final_arena) : Prop :=
  forall a x y, fa_find f a = Some x -> fa_find g a = Some y -> x = y.

Definition all_agree (fs : list final_arena) : Prop :=
  forall f g, In f fs -> In g fs -> agree f g.

(* ---------------------------------------------------------------------------------------------- *)
(* The design root                                                                                *)
(* ---------------------------------------------------------------------------------------------- *)
Inductive owner :=
| OLib (l : N)            (* the library entity of library l (Library::arena) *)
| OUnit (l k : N).        (* design unit k of library l (a LockedUnit) *)

Definition owner_eqb (a b : owner) : bool :=
  match a, b with
  | OLib x, OLib y => x =? y
  | OUnit l k, OUnit l' k' => (l =? l') && (k =? k')
  | _, _ => false
  end.

(* library std = 0, primary unit standard = 0 *)
Definition std_lib : N := 0.
Definition std_unit : owner := OUnit 0 0.

Record slot := mkSlot {
  s_owner : owner;
  s_aid : arena_id;                 (* LockedUnit::arena_id / the library arena's id: allocated once *)
  s_res : option final_arena        (* AnalysisData::arena of the last analysis; None = not analysed (reset) *)
}.

Record root := mkRoot {
  r_slots : list slot;
  r_std : option final_arena;       (* DesignRoot::standard_arena (a cached clone) *)
  r_arenas : final_arena;           (* DesignRoot::arenas *)
  r_next_id : N;                    (* ACOUNTER *)
  r_next_ver : N                    (* allocation stamp of the next LocalArena *)
}.

(* analyze_standard_package uses Arena::new_std() = ArenaId(0) whatever LockedUnit::arena_id is *)
Definition own_id (s : slot) : arena_id :=
  if owner_eqb (s_owner s) std_unit then 0 else s_aid s.

Definition own_arena (s : slot) : option local_arena :=
  match s_res s with
  | Some f => fa_find f (own_id s)
  | None => None
  end.

(* the local arena that is CURRENTLY the arena `a` of the design: the one its owner produced last *)
Fixpoint current_in (ss : list slot) (a : arena_id) : option local_arena :=
  match ss with
  | [] => None
  | s :: t => if own_id s =? a then own_arena s else current_in t a
  end.
Definition current (r : root) (a : arena_id) : option local_arena := current_in (r_slots r) a.

Fixpoint find_slot (ss : list slot) (o : owner) : option slot :=
  match ss with
  | [] => None
  | s :: t => if owner_eqb (s_owner s) o then Some s else find_slot t o
  end.

Fixpoint remove_slot (ss : list slot) (o : owner) : list slot :=
  match ss with
  | [] => []
  | s :: t => if owner_eqb (s_owner s) o then remove_slot t o else s :: remove_slot t o
  end.

Definition mem_owner (o : owner) (os : list owner) : bool := existsb (owner_eqb o) os.

(* DesignRoot::ensure_library -> Library::new: a fresh arena with the one library entity, finalised at once *)
Definition ensure_library (r : root) (l : N) (x : ent) : root :=
  match find_slot (r_slots r) (OLib l) with
  | Some _ => r
  | None =>
      let la := mkLA (r_next_id r) (r_next_ver r) [x] in
      mkRoot (r_slots r ++ [mkSlot (OLib l) (r_next_id r) (Some (finalize [] la))])
             (r_std r) (r_arenas r) (r_next_id r + 1) (r_next_ver r + 1)
  end.

(* Library::add_design_unit -> LockedUnit::new: `arena_id: ArenaId::default()`; a unit of the same key is replaced
   (remove_source removed it before) *)
Definition add_unit (r : root) (o : owner) : root :=
  mkRoot (remove_slot (r_slots r) o ++ [mkSlot o (r_next_id r) None])
         (r_std r) (r_arenas r) (r_next_id r + 1) (r_next_ver r).

Definition remove_unit (r : root) (o : owner) : root :=
  mkRoot (remove_slot (r_slots r) o) (r_std r) (r_arenas r) (r_next_id r) (r_next_ver r).

(* DesignRoot::reset_affected: `unit.unit.reset()` for every unit of the set (libraries are never reset) *)
Definition reset_slot (d : list owner) (s : slot) : slot :=
  match s_owner s with
  | OLib _ => s
  | OUnit _ _ => if mem_owner (s_owner s) d then mkSlot (s_owner s) (s_aid s) None else s
  end.
Definition reset (r : root) (d : list owner) : root :=
  mkRoot (map (reset_slot d) (r_slots r)) (r_std r) (r_arenas r) (r_next_id r) (r_next_ver r).

Fixpoint set_res (ss : list slot) (o : owner) (f : final_arena) : list slot :=
  match ss with
  | [] => []
  | s :: t => if owner_eqb (s_owner s) o then mkSlot (s_owner s) (s_aid s) (Some f) :: t
              else s :: set_res t o f
  end.

(* what an analysis links, in the order it does so *)
Inductive src :=
| SStd                     (* standard_package_region: link(root.standard_arena) when standard_pkg_id is Some *)
| SOwner (o : owner).      (* get_library: link(library.arena); get_analysis: link(data.result().arena) *)

Definition src_arena (r : root) (s : src) : option final_arena :=
  match s with
  | SStd => Some (match r_std r with Some f => f | None => [] end)
  | SOwner o => match find_slot (r_slots r) o with
                | Some sl => s_res sl          (* None: the unit has no result (not analysed yet) *)
                | None => None
                end
  end.

Fixpoint link_srcs (r : root) (acc : final_arena) (ss : list src) : option final_arena :=
  match ss with
  | [] => Some acc
  | s :: t => match src_arena r s with
              | Some f => link_srcs r (link acc f) t
              | None => None
              end
  end.

(* DesignRoot::analyze_unit for a unit other than std.standard: Arena::new(locked_unit.arena_id) — the id of the
   LockedUnit is re-used —, links, finalize, unit.finish(result).  None = the schedule is impossible (unknown or
   analysed unit, dependency without a result). *)
Definition analyze_unit (r : root) (o : owner) (srcs : list src) (items : list ent) : option root :=
  match find_slot (r_slots r) o with
  | Some sl =>
      match s_res sl, owner_eqb o std_unit with
      | None, false =>
          match link_srcs r [] srcs with
          | Some refs =>
              let la := mkLA (s_aid sl) (r_next_ver r) items in
              Some (mkRoot (set_res (r_slots r) o (finalize refs la)) (r_std r) (r_arenas r)
                           (r_next_id r) (r_next_ver r + 1))
          | None => None
          end
      | _, _ => None
      end
  | None => None
  end.

(* DesignRoot::analyze_standard_package: nothing happens (and the cached standard_arena STAYS) when library std or
   the unit `standard` does not exist or the unit is already analysed; otherwise Arena::new_std(), link(library arena
   of std), finalize; standard_arena := Some(clone). *)
Definition analyze_standard (r : root) (items : list ent) : root :=
  match find_slot (r_slots r) (OLib std_lib), find_slot (r_slots r) std_unit with
  | Some lib, Some sl =>
      match s_res sl, s_res lib with
      | None, Some libf =>
          let la := mkLA 0 (r_next_ver r) items in
          let f := finalize (link [] libf) la in
          mkRoot (set_res (r_slots r) std_unit f) (Some f) (r_arenas r) (r_next_id r) (r_next_ver r + 1)
      | _, _ => r
      end
  | _, _ => r
  end.

Fixpoint results (ss : list slot) : list final_arena :=
  match ss with
  | [] => []
  | s :: t => match s_res s with Some f => f :: results t | None => results t end
  end.

(* "Rebuild declaration arenas of named entities": arenas.clear(); link(std_arena); [link(std_logic_1164)];
   for library { link(library.arena); for unit { link(result.arena) } } — libraries and units in hash order.
   `rebuild_sources` fixes one order; `rebuild_with` takes any list (see C03_arena_closed: any order, repetitions allowed). *)
Definition rebuild_sources (r : root) : list final_arena :=
  (match r_std r with Some f => [f] | None => [] end) ++ results (r_slots r).

Definition rebuild_with (r : root) (fs : list final_arena) : root :=
  mkRoot (r_slots r) (r_std r) (link_all fs) (r_next_id r) (r_next_ver r).

Definition rebuild (r : root) : root := rebuild_with r (rebuild_sources r).

(* one unit analysis of the (parallel) analysis phase: unit, what it links in order, the entities it allocates *)
Definition astep := (owner * list src * list ent)%type.

Definition run_step (r : root) (a : astep) : option root :=
  match a with (o, srcs, items) => analyze_unit r o srcs items end.

Fixpoint run_steps (r : root) (l : list astep) : option root :=
  match l with
  | [] => Some r
  | a :: t => match run_step r a with Some r' => run_steps r' t | None => None end
  end.

(* The edits between two analyses (Project::update_source ... Project::analyse: remove_source, add_design_file) *)
Definition apply_edits (r : root) (removed added : list owner) : root :=
  fold_left add_unit added (fold_left remove_unit removed r).

(* DesignRoot::analyze: reset(closure); analyze_standard_package (always first, sequentially); analysis of the
   non-analysed units; rebuild of the root arena.  None = the schedule given as data is impossible. *)
Definition analyze (r : root) (removed added d : list owner) (std_items : list ent) (sched : list astep)
  : option root :=
  match run_steps (analyze_standard (reset (apply_edits r removed added) d) std_items) sched with
  | Some r' => Some (rebuild r')
  | None => None
  end.

(* ---------------------------------------------------------------------------------------------- *)
(* Invariant and the closure hypothesis                                                           *)
(* ---------------------------------------------------------------------------------------------- *)
Definition ids_unique (r : root) : Prop :=
  NoDup (map own_id (r_slots r)) /\
  (forall s, In s (r_slots r) -> own_id s < r_next_id r) /\
  (forall s, In s (r_slots r) -> s_aid s < r_next_id r) /\
  (forall s, In s (r_slots r) -> owner_eqb (s_owner s) std_unit = false -> 0 < s_aid s) /\
  0 < r_next_id r.

Definition owners_unique (r : root) : Prop :=
  forall s t, In s (r_slots r) -> In t (r_slots r) -> owner_eqb (s_owner s) (s_owner t) = true -> s = t.

(* every arena reachable from a result is the CURRENT arena of its id *)
Definition results_current (r : root) : Prop :=
  forall s f, In s (r_slots r) -> s_res s = Some f ->
    (exists la, fa_find f (own_id s) = Some la /\ la_id la = own_id s) /\
    (forall a la, fa_find f a = Some la -> current r a = Some la).

(* the cached standard arena is the result of the existing standard unit *)
Definition std_cache_current (r : root) : Prop :=
  match r_std r with
  | None => True
  | Some f => exists s, In s (r_slots r) /\ s_owner s = std_unit /\ s_res s = Some f
  end.

(* every design unit lives in a library, and a library's arena is finalised when the library is created *)
Definition libs_present (r : root) : Prop :=
  (forall s l k, In s (r_slots r) -> s_owner s = OUnit l k -> exists t, In t (r_slots r) /\ s_owner t = OLib l) /\
  (forall s l, In s (r_slots r) -> s_owner s = OLib l -> s_res s <> None).

Definition coherent (r : root) : Prop :=
  ids_unique r /\ owners_unique r /\ results_current r /\ std_cache_current r /\ libs_present r.

Definition is_unit (o : owner) : bool := match o with OUnit _ _ => true | OLib _ => false end.

(* the edits of one round are well formed: only design units are removed/added/reset, and the library of every added
   unit exists (DesignRoot::add_design_file calls ensure_library first) *)
Definition edits_wf (r : root) (removed added d : list owner) : Prop :=
  forallb is_unit removed = true /\ forallb is_unit added = true /\ forallb is_unit d = true /\
  (forall l k, In (OUnit l k) added -> find_slot (r_slots r) (OLib l) <> None).

(* The closure hypothesis on the reset set d (C01's invariant: `users_of` has an edge for every link):
   a slot outside d that keeps its result mentions no arena id whose owner is in d. *)
Definition mentions (f : final_arena) (a : arena_id) : bool :=
  match fa_find f a with Some _ => true | None => false end.

Definition uses_closed (r : root) (d : list owner) : Prop :=
  forall s f t, In s (r_slots r) -> s_res s = Some f -> mem_owner (s_owner s) d = false ->
    In t (r_slots r) -> mentions f (own_id t) = true -> mem_owner (s_owner t) d = false.

(* executable closure over the link relation: who mentions an arena of a member of d? *)
Definition users_step (r : root) (d : list owner) : list owner :=
  d ++ map s_owner
        (filter (fun s => negb (mem_owner (s_owner s) d) &&
                          match s_res s with
                          | Some f => existsb (fun t => mem_owner (s_owner t) d && mentions f (own_id t)) (r_slots r)
                          | None => false
                          end) (r_slots r)).

Fixpoint users_closure (fuel : nat) (r : root) (d : list owner) : option (list owner) :=
  match fuel with
  | O => None
  | S n => let d' := users_step r d in
           if Nat.eqb (length d') (length d) then Some d else users_closure n r d'
  end.

(* the std unit must not vanish while its arena stays cached (finding F29 when it does) *)
Definition std_kept (r : root) (removed added : list owner) : Prop :=
  r_std r = None \/ mem_owner std_unit removed = false \/ mem_owner std_unit added = true.

Definition empty_root : root := mkRoot [] None [] 1 0.
