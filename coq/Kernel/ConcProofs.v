(* Kernel/ConcProofs.v — the theorems about the lock-protocol model Kernel/Conc.v that
   Props/C04.v states.  The bulk of the proofs lives in
     ConcBase.v     list/update lemmas, succs <-> Step, structural invariant `base_inv`
     ConcClosure.v  the cycle test computes reachability in users_of
     ConcDeadlock.v deadlock freedom, lock ownership, exactly-once
     ConcMeasure.v  termination measure
     ConcConfl.v    results are a function of the static request graph
     ConcSweep.v    soundness of the finite-domain checker
   This file composes them and proves the refutation witnesses. *)
From Coq Require Import List Arith Bool Lia Relations.
Import ListNotations.
From RH Require Import Kernel.Conc Kernel.ConcBase Kernel.ConcClosure Kernel.ConcDeadlock
  Kernel.ConcMeasure Kernel.ConcConfl Kernel.ConcSweep Kernel.ConcGraphs.

(* every run of the repaired protocol can be completed, and (step_measure) cannot be continued
   for ever: all maximal runs end in a final state *)
Theorem eventually_final : forall deps T td s, wf_deps deps -> todo_ok (length deps) td -> 1 <= T ->
  reach deps false (init_todo (length deps) T td) s ->
  exists s', reach deps false s s' /\ final s' = true.
Proof.
  intros deps T td s Hwf Htd HT Hr.
  apply (eventually_final_from_progress deps false (init_todo (length deps) T td)); [ | | exact Hr].
  - intros s1 s2 Hr1 Hin. exact (step_measure deps false T td s1 s2 Hwf Htd Hr1 Hin).
  - intros s1 Hr1 Hf. exact (deadlock_free deps T td s1 Hwf Htd HT Hr1 Hf).
Qed.

(* a state in which no worker can step is final *)
Theorem no_successor_is_final : forall deps T td s, wf_deps deps -> todo_ok (length deps) td -> 1 <= T ->
  reach deps false (init_todo (length deps) T td) s -> succs deps false s = [] -> final s = true.
Proof.
  intros deps T td s Hwf Htd HT Hr Hs.
  destruct (final s) eqn:Hf; [reflexivity | ].
  exfalso. exact (deadlock_free deps T td s Hwf Htd HT Hr Hf Hs).
Qed.

Lemma lock_vector_eq : forall (l1 l2 : list lockst) n, length l1 = n -> length l2 = n ->
  (forall u, u < n -> nth u l1 Vacant = nth u l2 Vacant) -> l1 = l2.
Proof.
  intros l1 l2 n H1 H2 H.
  apply (nth_ext l1 l2 Vacant Vacant); [congruence | ].
  intros u Hu. apply H. lia.
Qed.

(* final lock vector = the specification, pointwise *)
Theorem final_result_spec : forall deps T td s u, wf_deps deps -> todo_ok (length deps) td ->
  swallow_safe deps -> reach deps false (init_todo (length deps) T td) s -> final s = true ->
  u < length deps -> exists c, lock_of s u = Done c /\ circ_spec deps u c.
Proof.
  intros deps T td s u Hwf Htd Hsafe Hr Hf Hu.
  destruct (final_all_done deps false T td s Hwf Htd Hr Hf u Hu) as [c Hc].
  exists c. split; [exact Hc | ].
  exact (done_circ_spec deps T td s u c Hwf Htd Hsafe Hr Hu Hc).
Qed.

(* schedule independence: any two complete runs — whatever the numbers of workers, the
   interleavings and the orders of the work list — end with the same result vector *)
Theorem confluent_cyclic : forall deps T1 td1 T2 td2 s1 s2, wf_deps deps -> swallow_safe deps ->
  todo_ok (length deps) td1 -> todo_ok (length deps) td2 ->
  reach deps false (init_todo (length deps) T1 td1) s1 ->
  reach deps false (init_todo (length deps) T2 td2) s2 ->
  final s1 = true -> final s2 = true -> locks s1 = locks s2.
Proof.
  intros deps T1 td1 T2 td2 s1 s2 Hwf Hsafe Htd1 Htd2 Hr1 Hr2 Hf1 Hf2.
  pose proof (base_inv_reach deps false T1 td1 s1 Hwf Htd1 Hr1) as B1.
  pose proof (base_inv_reach deps false T2 td2 s2 Hwf Htd2 Hr2) as B2.
  apply (lock_vector_eq (locks s1) (locks s2) (length deps)); [exact (bi_locks _ _ _ B1) | exact (bi_locks _ _ _ B2) | ].
  intros u Hu.
  destruct (final_result_spec deps T1 td1 s1 u Hwf Htd1 Hsafe Hr1 Hf1 Hu) as [c1 [Hc1 Hs1]].
  destruct (final_result_spec deps T2 td2 s2 u Hwf Htd2 Hsafe Hr2 Hf2 Hu) as [c2 [Hc2 Hs2]].
  unfold lock_of in Hc1, Hc2. rewrite Hc1, Hc2.
  f_equal. exact (circ_spec_unique deps u c1 c2 Hs1 Hs2).
Qed.

Lemma nth_repeat_in : forall A (x d : A) n u, u < n -> nth u (repeat x n) d = x.
Proof.
  intros A x d n. induction n as [ | n IH]; intros u Hu; [lia | ].
  destruct u as [ | u]; cbn; [reflexivity | apply IH; lia].
Qed.

Lemma no_swallow_safe : forall deps, no_swallow deps -> swallow_safe deps.
Proof.
  intros deps H u v Hin. specialize (H u v true Hin). discriminate.
Qed.

(* when no request discards a circular error the result is schedule independent *)
Theorem confluent_no_discard : forall deps T1 td1 T2 td2 s1 s2, wf_deps deps -> no_swallow deps ->
  todo_ok (length deps) td1 -> todo_ok (length deps) td2 ->
  reach deps false (init_todo (length deps) T1 td1) s1 ->
  reach deps false (init_todo (length deps) T2 td2) s2 ->
  final s1 = true -> final s2 = true -> locks s1 = locks s2.
Proof.
  intros deps T1 td1 T2 td2 s1 s2 Hwf Hns. apply confluent_cyclic; [exact Hwf | apply no_swallow_safe; exact Hns].
Qed.

(* acyclic request graphs: every unit ends without circular error *)
Theorem confluent_acyclic : forall deps T td s, wf_deps deps -> acyclic_deps deps ->
  todo_ok (length deps) td -> reach deps false (init_todo (length deps) T td) s -> final s = true ->
  locks s = repeat (Done None) (length deps).
Proof.
  intros deps T td s Hwf Hac Htd Hr Hf.
  pose proof (base_inv_reach deps false T td s Hwf Htd Hr) as B.
  apply (lock_vector_eq (locks s) (repeat (Done None) (length deps)) (length deps));
    [exact (bi_locks _ _ _ B) | apply repeat_length | ].
  intros u Hu.
  destruct (final_all_done deps false T td s Hwf Htd Hr Hf u Hu) as [c Hc].
  pose proof (done_acyclic deps T td s u c Hwf Htd Hac Hr Hu Hc) as Hn. subst c.
  unfold lock_of in Hc. rewrite Hc.
  symmetry. apply nth_repeat_in. exact Hu.
Qed.

(* ------------------------------------------------------------------------------------ *)
(* witnesses *)

(* F4: a = [use b (error discarded); use b], b = [use a] *)
Definition depsF4 : list (list req) := [[(1, true); (1, false)]; [(0, false)]].
(* F16: a = [use b (error discarded)], b = [use a] *)
Definition depsF16 : list (list req) := [[(1, true)]; [(0, false)]].

Lemma wf_depsb_sound : forall deps, wf_depsb deps = true -> wf_deps deps.
Proof.
  intros deps H u v sw Hin.
  unfold wf_depsb in H. rewrite forallb_forall in H.
  destruct (Nat.lt_ge_cases u (length deps)) as [Hu | Hu].
  - assert (Hn : In (nth u deps []) deps) by (apply nth_In; exact Hu).
    specialize (H _ Hn). rewrite forallb_forall in H. specialize (H _ Hin).
    cbn in H. apply Nat.ltb_lt in H. exact H.
  - rewrite nth_overflow in Hin by exact Hu. destruct Hin.
Qed.

(* the code before commit 6e7f4e9: one worker, takes b first, ends blocked on its own frame *)
Theorem deadlock_old_refuted :
  exists s, reach depsF4 true (init 2 1) s /\ stuck depsF4 true s = true /\ self_blocked s 0 = true.
Proof.
  destruct (follow depsF4 true (init 2 1) [1; 0; 0; 0; 0; 0; 0; 0]) as [s | ] eqn:E; [ | vm_compute in E; discriminate].
  exists s. split; [ | split].
  - eapply follow_reach; [apply reach_refl | exact E].
  - vm_compute in E. injection E as E. subst s. vm_compute. reflexivity.
  - vm_compute in E. injection E as E. subst s. vm_compute. reflexivity.
Qed.

(* the same with two workers *)
Theorem deadlock_old_refuted_2 :
  exists s, reach depsF4 true (init 2 2) s /\ stuck depsF4 true s = true.
Proof.
  destruct (follow depsF4 true (init 2 2) [0; 0; 0; 1; 1; 1; 1; 0; 0]) as [s | ] eqn:E; [ | vm_compute in E; discriminate].
  exists s. split.
  - eapply follow_reach; [apply reach_refl | exact E].
  - vm_compute in E. injection E as E. subst s. vm_compute. reflexivity.
Qed.

(* the repaired code on the same graph: all interleavings, 1..3 workers: never stuck, one result *)
Theorem F4_repaired : forall T, In T [1; 2; 3] ->
  forall s, reach depsF4 false (init 2 T) s ->
    stuck depsF4 false s = false /\ (final s = true -> locks s = [Done (Some 1); Done (Some 0)]).
Proof.
  intros T HT s Hr.
  assert (H : forallb (fun T => confluent_graph 5000 T depsF4) [1; 2; 3] = true) by (vm_compute; reflexivity).
  rewrite forallb_forall in H. specialize (H T HT).
  pose proof (confluent_graph_sound 5000 T depsF4 H s Hr) as [H1 H2].
  split; [exact H1 | ].
  intro Hf. rewrite (H2 Hf). vm_compute. reflexivity.
Qed.

(* F16: a discarded circular error on a cycle makes the result depend on the order in which one
   worker takes the units: a first gives (None, Some 0), b first gives (None, None) *)
Theorem order_dependent_refuted :
  exists s1 s2, reach depsF16 false (init 2 1) s1 /\ reach depsF16 false (init 2 1) s2 /\
                final s1 = true /\ final s2 = true /\
                locks s1 = [Done None; Done (Some 0)] /\ locks s2 = [Done None; Done None].
Proof.
  destruct (follow depsF16 false (init 2 1) [0;0;0;0;0;0;0;0;0;0;0;0]) as [s1 | ] eqn:E1; [ | vm_compute in E1; discriminate].
  destruct (follow depsF16 false (init 2 1) [1;0;0;0;0;0;0;0;0;0;0;0;0]) as [s2 | ] eqn:E2; [ | vm_compute in E2; discriminate].
  exists s1, s2.
  split; [eapply follow_reach; [apply reach_refl | exact E1] | ].
  split; [eapply follow_reach; [apply reach_refl | exact E2] | ].
  vm_compute in E1. injection E1 as E1. subst s1.
  vm_compute in E2. injection E2 as E2. subst s2.
  vm_compute. repeat split; reflexivity.
Qed.

Lemma depsF16_not_swallow_safe : ~ swallow_safe depsF16.
Proof.
  intro H. apply (H 0 1); [cbn; left; reflexivity | ].
  exists 1. split; [apply rt_refl | ].
  apply t_trans with 0; apply t_step.
  - exists false. cbn. left. reflexivity.
  - exists true. cbn. left. reflexivity.
Qed.

(* ------------------------------------------------------------------------------------ *)
(* helpers for the examples of Props/C04.v *)
Lemma todo_ok_seq : forall n, todo_ok n (seq 0 n).
Proof. intros n u. rewrite in_seq. lia. Qed.

Lemma todo_ok_rev_seq : forall n, todo_ok n (rev (seq 0 n)).
Proof. intros n u. rewrite <- in_rev, in_seq. lia. Qed.

(* a request graph whose edges all go to larger unit numbers is acyclic *)
Lemma increasing_acyclic : forall deps, (forall u v, dep_edge deps u v -> u < v) -> acyclic_deps deps.
Proof.
  intros deps H u Hc.
  assert (Hlt : forall a b, clos_trans nat (dep_edge deps) a b -> a < b).
  { intros a b Hab. induction Hab as [a b Hab | a b c _ IH1 _ IH2]; [apply H; exact Hab | lia]. }
  specialize (Hlt u u Hc). lia.
Qed.

Definition deps_dag : list (list req) := [[(1, false); (2, true)]; [(2, false)]; []].
Lemma deps_dag_acyclic : acyclic_deps deps_dag.
Proof.
  apply increasing_acyclic. intros u v [sw Hin].
  destruct u as [ | [ | [ | u]]]; cbn in Hin.
  - destruct Hin as [E | [E | []]]; inversion E; lia.
  - destruct Hin as [E | []]; inversion E; lia.
  - destruct Hin.
  - destruct u; destruct Hin.
Qed.

(* a two-cycle with a tail: c -> a <-> b; no discarded errors *)
Definition deps_cyc : list (list req) := [[(1, false)]; [(0, false)]; [(2, false); (0, false)]].
Lemma deps_cyc_swallow_safe : swallow_safe deps_cyc.
Proof.
  intros u v Hin.
  destruct u as [ | [ | [ | u]]]; cbn in Hin.
  - destruct Hin as [E | []]; inversion E.
  - destruct Hin as [E | []]; inversion E.
  - destruct Hin as [E | [E | []]]; inversion E.
  - destruct u; destruct Hin.
Qed.
Lemma deps_cyc_not_acyclic : ~ acyclic_deps deps_cyc.
Proof.
  intro H. apply (H 0). apply t_trans with 1; apply t_step; exists false; cbn; left; reflexivity.
Qed.

Lemma run_first_reach : forall deps cbo fuel s0 s, reach deps cbo s0 s -> reach deps cbo s0 (run_first deps cbo fuel s).
Proof.
  intros deps cbo fuel s0. induction fuel as [ | fuel IH]; intros s Hr; cbn [run_first]; [exact Hr | ].
  destruct (succs deps cbo s) as [ | s' rest] eqn:E; [exact Hr | ].
  apply IH. apply reach_step with s; [exact Hr | rewrite E; left; reflexivity].
Qed.

(* ------------------------------------------------------------------------------------ *)
(* finite-domain theorem: every interleaving of every small graph, by computation *)
Lemma sweep_sound : forall fuel T n k deps, sweep fuel T (graphs n k) = true -> small_graph n k deps ->
  forall s, reach deps false (init (length deps) T) s ->
    stuck deps false s = false /\ (final s = true -> locks s = seq_result deps false fuel).
Proof.
  intros fuel T n k deps Hsw Hsmall s Hr.
  unfold sweep in Hsw. rewrite forallb_forall in Hsw.
  apply (confluent_graph_sound fuel T deps); [ | exact Hr].
  apply Hsw. apply graphs_complete. exact Hsmall.
Qed.

Definition quick_bounds : list (nat * nat * nat) :=
  [(3, 1, 1); (3, 1, 2); (3, 1, 3); (2, 2, 1); (2, 2, 2); (2, 2, 3); (2, 3, 2)].

Lemma quick_sweeps : forallb (fun b => match b with (n, k, T) => sweep 200000 T (graphs n k) end) quick_bounds = true.
Proof. vm_compute. reflexivity. Qed.

Theorem finite_sweep_quick : forall n k T deps, In (n, k, T) quick_bounds -> small_graph n k deps ->
  forall s, reach deps false (init (length deps) T) s ->
    stuck deps false s = false /\ (final s = true -> locks s = seq_result deps false 200000).
Proof.
  intros n k T deps Hin Hsmall s Hr.
  pose proof quick_sweeps as H. rewrite forallb_forall in H. specialize (H _ Hin). cbn beta iota in H.
  exact (sweep_sound 200000 T n k deps H Hsmall s Hr).
Qed.
