(* Kernel/RefProofs.v — facts about the reference semantics `ref` of arbitrary worlds:
   the fuel `length W` suffices for `den`, good units are unflagged and read only good units,
   bad units carry the flag, registered reads of good units respect the read order. *)
From Coq Require Import List NArith Arith Bool Lia.
Import ListNotations.
From RH Require Import Kernel.World Kernel.Reset Kernel.Incr Kernel.Inv Kernel.Ref
  Kernel.ClosureProofs Kernel.DenProofs Kernel.SimProofs Kernel.ResetProofs.
Open Scope N_scope.

Definition noerr (ev : event) : Prop := err_answer (snd ev) = false.
Definition unflagged (gd : uid -> option result) : Prop := forall v r, gd v = Some r -> r_circ r = false.

(* ---------------------------------------------------------------------------------- *)
(* answers of a run with an unflagged callback are no errors; propagating programs then end unflagged *)
Lemma den_answer_unflagged : forall W gd u q a, unflagged gd -> den_answer W gd u q = Some a -> err_answer a = false.
Proof.
  intros W gd u q a Hu H; destruct q as [s|l|]; cbn [den_answer] in H.
  - destruct (get_slot W s) as [[v p]|]; [|inversion H; reflexivity].
    destruct (gd v) as [rv|] eqn:Hg; [|discriminate]. rewrite (Hu _ _ Hg) in H; inversion H; reflexivity.
  - destruct (l =? u_lib u); [inversion H; reflexivity|].
    destruct (den_all gd (primaries W l) []) as [[vs b]|] eqn:Hd; [|discriminate].
    rewrite (den_all_clean_true _ _ _ _ _ Hu Hd) in H; inversion H; reflexivity.
  - inversion H; reflexivity.
Qed.

Lemma den_run_unflagged : forall W gd u, unflagged gd -> forall p tr e, propagating p ->
  den_run W gd u p tr = Some e -> Forall noerr tr -> r_circ (fst e) = false /\ Forall noerr (snd e).
Proof.
  intros W gd u Hu; induction p as [c t|q k IH]; intros tr e Hp H Htr; cbn [den_run propagating] in *.
  - inversion H; subst; cbn [fst snd r_circ]. split; [first [assumption | reflexivity] | apply Forall_rev; assumption].
  - destruct (den_answer W gd u q) as [a|] eqn:Ha; [|discriminate].
    pose proof (den_answer_unflagged _ _ _ _ _ Hu Ha) as Hne.
    specialize (Hp a); rewrite Hne in Hp.
    apply (IH a _ _ Hp H). constructor; [exact Hne | assumption].
Qed.

Lemma good_unflagged : forall W, prop_world W -> forall g u e, den g W u = Some e ->
  r_circ (fst e) = false /\ Forall noerr (snd e).
Proof.
  intros W HW; induction g as [|g IH]; intros u e H; [discriminate|].
  rewrite den_S in H.
  destruct (get_slot W (u_slot u)) as [[u' p]|] eqn:Hs; [|discriminate].
  destruct (uid_eqb u' u) eqn:He; [|discriminate]. apply uid_eqb_true in He; subst u'.
  destruct (get_slot_In _ _ _ _ Hs) as [Hin _].
  eapply den_run_unflagged; [| exact (HW _ _ Hin) | exact H | constructor].
  intros v r Hv; unfold getd_of in Hv. destruct (den g W v) as [ev|] eqn:Hd; [|discriminate].
  inversion Hv; subst; apply (IH v ev Hd).
Qed.

(* ---------------------------------------------------------------------------------- *)
(* the events of a run are the answers of the callback *)
Lemma den_run_events : forall W gd u p tr e, den_run W gd u p tr = Some e ->
  Forall (fun ev => den_answer W gd u (fst ev) = Some (snd ev)) tr ->
  Forall (fun ev => den_answer W gd u (fst ev) = Some (snd ev)) (snd e).
Proof.
  intros W gd u; induction p as [c t|q k IH]; intros tr e H Htr; cbn [den_run] in H.
  - inversion H; subst; cbn [snd]; apply Forall_rev; assumption.
  - destruct (den_answer W gd u q) as [a|] eqn:Ha; [|discriminate].
    apply (IH a _ _ H). constructor; [exact Ha | assumption].
Qed.

Lemma den_events : forall g W u e, den (S g) W u = Some e ->
  Forall (fun ev => den_answer W (getd_of g W) u (fst ev) = Some (snd ev)) (snd e).
Proof.
  intros g W u e H; rewrite den_S in H.
  destruct (get_slot W (u_slot u)) as [[u' p]|]; [|discriminate].
  destruct (uid_eqb u' u); [|discriminate].
  eapply den_run_events; [exact H | constructor].
Qed.

(* for an answer that is no error the registered reads are the units named in the answer *)
Lemma ev_reads_noerr : forall W gd u q a, den_answer W gd u q = Some a -> err_answer a = false ->
  ev_reads W (q, a) = answer_units a.
Proof.
  intros W gd u q a H Hne; destruct q as [s|l|]; cbn [den_answer] in H; cbn [ev_reads].
  - destruct (get_slot W s) as [[v p]|]; [|inversion H; reflexivity].
    destruct (gd v) as [rv|]; [|discriminate]. destruct (r_circ rv); inversion H; subst; [discriminate Hne | reflexivity].
  - destruct (l =? u_lib u); [inversion H; reflexivity|].
    destruct (den_all gd (primaries W l) []) as [[vs b]|]; [|discriminate].
    destruct b; inversion H; subst; [reflexivity | discriminate Hne].
  - inversion H; reflexivity.
Qed.

Lemma good_trace_reads : forall W, prop_world W -> forall g u e, den g W u = Some e ->
  forall a, In a (trace_reads W (snd e)) -> In a (trace_units (snd e)).
Proof.
  intros W HW g u e H a Ha. destruct g as [|g]; [discriminate|].
  pose proof (den_events _ _ _ _ H) as Hev. destruct (good_unflagged W HW _ _ _ H) as [_ Hne].
  unfold trace_reads in Ha; apply in_flat_map in Ha; destruct Ha as [[q an] [Hin Hr]].
  rewrite Forall_forall in Hev, Hne. specialize (Hev _ Hin); specialize (Hne _ Hin); cbn [fst snd] in *.
  unfold noerr in Hne; cbn [snd] in Hne.
  rewrite (ev_reads_noerr _ _ _ _ _ Hev Hne) in Hr.
  unfold trace_units; apply in_flat_map; exists (q, an); auto.
Qed.

(* ---------------------------------------------------------------------------------- *)
(* runs that agree on the units they name *)
Lemma den_run_agree : forall W gd1 gd2 u p tr e, den_run W gd1 u p tr = Some e ->
  Forall noerr (snd e) -> (forall v, In v (trace_units (snd e)) -> gd2 v = gd1 v) ->
  den_run W gd2 u p tr = Some e.
Proof.
  intros W gd1 gd2 u; induction p as [c t|q k IH]; intros tr e H Hne Hag; cbn [den_run] in *; [assumption|].
  destruct (den_answer W gd1 u q) as [a|] eqn:Ha; [|discriminate].
  assert (Hin : In (q, a) (snd e)).
  { destruct (den_run_prefix _ _ _ _ _ _ H) as [rest Hr]. rewrite Hr.
    apply in_or_app; left; cbn [rev]; apply in_or_app; right; left; reflexivity. }
  assert (Hna : err_answer a = false) by (rewrite Forall_forall in Hne; exact (Hne _ Hin)).
  assert (Hu : forall v, In v (answer_units a) -> gd2 v = gd1 v).
  { intros v Hv; apply Hag; unfold trace_units; apply in_flat_map; exists (q, a); auto. }
  assert (Ha2 : den_answer W gd2 u q = Some a).
  { destruct q as [s|l|]; cbn [den_answer] in *.
    - destruct (get_slot W s) as [[v p]|]; [|assumption].
      destruct (gd1 v) as [rv|] eqn:Hg; [|discriminate].
      destruct (r_circ rv) eqn:Hc; inversion Ha; subst a; [discriminate Hna|].
      rewrite (Hu v (or_introl eq_refl)), Hg, Hc; reflexivity.
    - destruct (l =? u_lib u); [assumption|].
      destruct (den_all gd1 (primaries W l) []) as [[vs b]|] eqn:Hd; [|discriminate].
      destruct b; inversion Ha; subst a; [|discriminate Hna].
      destruct (den_all_complete _ _ _ _ Hd) as [Hvs _]. cbn [rev app] in Hvs.
      assert (Hfst : map fst vs = primaries W l) by (rewrite Hvs, map_map; cbn [fst]; apply map_id).
      rewrite (den_all_ext_on gd2 gd1 (primaries W l) []), Hd; [reflexivity|].
      intros v Hv; apply Hu; cbn [answer_units]; rewrite Hfst; assumption.
    - assumption. }
  rewrite Ha2. apply IH; assumption.
Qed.

(* ---------------------------------------------------------------------------------- *)
(* the fuel `length W` suffices *)
Definition exact (W : world) (k : nat) (u : uid) : Prop := den (S k) W u <> None /\ den k W u = None.

Lemma den_least : forall W g u e, den g W u = Some e -> exists k, (k < g)%nat /\ exact W k u.
Proof.
  intros W; induction g as [|g IH]; intros u e H; [discriminate|].
  destruct (den g W u) as [e'|] eqn:Hd.
  - destruct (IH u e' Hd) as [k [Hk He]]; exists k; split; [lia | assumption].
  - exists g; split; [lia|]. split; [rewrite H; discriminate | assumption].
Qed.

Lemma exact_unique : forall W j k u, exact W j u -> exact W k u -> j = k.
Proof.
  intros W j k u [H1 H2] [H3 H4].
  destruct (Nat.lt_trichotomy j k) as [Hlt|[Heq|Hgt]]; [|assumption|]; exfalso.
  - apply H1. apply (den_None_mono (S j) k); [lia | assumption].
  - apply H3. apply (den_None_mono (S k) j); [lia | assumption].
Qed.

Lemma exact_step : forall W, prop_world W -> forall k u, exact W (S k) u -> exists y, exact W k y.
Proof.
  intros W HW k u [H1 H2].
  destruct (den (S (S k)) W u) as [e|] eqn:Hd; [|exfalso; apply H1; reflexivity].
  destruct (existsb (fun y => match den k W y with Some _ => false | None => true end) (trace_units (snd e))) eqn:Hex.
  - apply existsb_exists in Hex; destruct Hex as [y [Hy Hn]].
    exists y; split.
    + eapply den_reads_fuel; eassumption.
    + destruct (den k W y); [discriminate | reflexivity].
  - exfalso. destruct (good_unflagged W HW _ _ _ Hd) as [_ Hne].
    pose proof Hd as Hd'. rewrite den_S in Hd'.
    destruct (get_slot W (u_slot u)) as [[u' p]|] eqn:Hs; [|discriminate].
    destruct (uid_eqb u' u) eqn:He; [|discriminate].
    assert (Hrun : den_run W (getd_of k W) u p [] = Some e).
    { eapply den_run_agree; [exact Hd' | exact Hne|].
      intros v Hv. unfold getd_of.
      assert (Hk : den k W v <> None).
      { intros Hc. assert (Ht : existsb (fun y => match den k W y with Some _ => false | None => true end) (trace_units (snd e)) = true).
        { apply existsb_exists; exists v; split; [assumption | rewrite Hc; reflexivity]. }
        congruence. }
      destruct (den k W v) as [ev|] eqn:Hdk; [|congruence].
      rewrite (den_mono_S _ _ _ _ Hdk); reflexivity. }
    assert (Hc : den (S k) W u = Some e) by (rewrite den_S, Hs, He; exact Hrun).
    congruence.
Qed.

Lemma exact_chain : forall W, prop_world W -> forall k u, exact W k u ->
  exists l, length l = S k /\ NoDup l /\ forall x, In x l -> In x (unit_ids W) /\ exists j, (j <= k)%nat /\ exact W j x.
Proof.
  intros W HW; induction k as [|k IH]; intros u Hu.
  - exists [u]; split; [reflexivity|]. split; [constructor; [intros []|constructor]|].
    intros x [<-|[]]. split; [|exists 0%nat; split; [lia | assumption]].
    destruct Hu as [H1 _]. destruct (den 1 W u) as [e|] eqn:Hd; [|congruence].
    destruct (den_present _ _ _ _ Hd) as [p [_ Hin]]. apply unit_ids_In; eauto.
  - destruct (exact_step W HW k u Hu) as [y Hy]. destruct (IH y Hy) as [l [Hl [Hnd Hall]]].
    exists (u :: l); split; [cbn [length]; lia|]. split.
    + constructor; [|assumption]. intros Hin. destruct (Hall u Hin) as [_ [j [Hj Hej]]].
      pose proof (exact_unique _ _ _ _ Hej Hu). lia.
    + intros x [<-|Hx].
      * split; [|exists (S k); split; [lia | assumption]].
        destruct Hu as [H1 _]. destruct (den (S (S k)) W u) as [e|] eqn:Hd; [|congruence].
        destruct (den_present _ _ _ _ Hd) as [p [_ Hin]]. apply unit_ids_In; eauto.
      * destruct (Hall x Hx) as [Hi [j [Hj Hej]]]. split; [assumption | exists j; split; [lia | assumption]].
Qed.

Theorem den_bound : forall W, prop_world W -> forall g u e, den g W u = Some e -> den (length W) W u = Some e.
Proof.
  intros W HW g u e H. destruct (den_least _ _ _ _ H) as [k [Hk Hex]].
  destruct (exact_chain W HW k u Hex) as [l [Hl [Hnd Hall]]].
  assert (Hle : (length l <= length (unit_ids W))%nat).
  { apply NoDup_incl_length; [assumption | intros x Hx; apply (Hall x Hx)]. }
  unfold unit_ids in Hle; rewrite map_length in Hle.
  destruct Hex as [H1 _]. destruct (den (S k) W u) as [e'|] eqn:Hd; [|congruence].
  assert (e' = e) by (eapply den_det; eassumption). subst e'.
  apply (den_mono (S k)); [lia | assumption].
Qed.

(* ---------------------------------------------------------------------------------- *)
(* oracle and ref *)
Lemma oracle_total : forall W v, exists r, oracle W v = Some r.
Proof. intros W v; unfold oracle; destruct (den (length W) W v); eauto. Qed.

Lemma getd_le_oracle : forall W, prop_world W -> forall g, getd_le (getd_of g W) (oracle W).
Proof.
  intros W HW g v r H; unfold getd_of in H. destruct (den g W v) as [e|] eqn:Hd; [|discriminate].
  inversion H; subst. unfold oracle. rewrite (den_bound W HW _ _ _ Hd); reflexivity.
Qed.

Lemma oracle_good : forall W v e, den (length W) W v = Some e -> oracle W v = Some (fst e).
Proof. intros W v e H; unfold oracle; rewrite H; reflexivity. Qed.

Lemma oracle_bad : forall W v, den (length W) W v = None -> oracle W v = Some (Res true 0).
Proof. intros W v H; unfold oracle; rewrite H; reflexivity. Qed.

Lemma good_ref : forall W, prop_world W -> forall g u e, den g W u = Some e -> ref W u = Some e.
Proof.
  intros W HW g u e H. destruct g as [|g]; [discriminate|]. rewrite den_S in H. unfold ref.
  destruct (get_slot W (u_slot u)) as [[u' p]|]; [|discriminate].
  destruct (uid_eqb u' u); [|discriminate].
  eapply den_run_le; [apply getd_le_oracle; assumption | exact H].
Qed.

Lemma den_answer_total : forall W gd u q, (forall v, exists r, gd v = Some r) -> exists a, den_answer W gd u q = Some a.
Proof.
  intros W gd u q Ht; destruct q as [s|l|]; cbn [den_answer]; eauto.
  - destruct (get_slot W s) as [[v p]|]; eauto. destruct (Ht v) as [r Hr]; rewrite Hr; eauto.
  - destruct (l =? u_lib u); eauto.
    assert (H : forall vs acc, exists r, den_all gd vs acc = Some r).
    { induction vs as [|v vs IH]; intros acc; cbn [den_all]; eauto.
      destruct (Ht v) as [r Hr]; rewrite Hr. destruct (r_circ r); eauto. }
    destruct (H (primaries W l) []) as [[vs b] Hr]; rewrite Hr; destruct b; eauto.
Qed.

Lemma den_run_total : forall W gd u, (forall v, exists r, gd v = Some r) -> forall p tr, exists e, den_run W gd u p tr = Some e.
Proof.
  intros W gd u Ht; induction p as [c t|q k IH]; intros tr; cbn [den_run]; eauto.
  destruct (den_answer_total W gd u q Ht) as [a Ha]; rewrite Ha; apply IH.
Qed.

Lemma ref_total : forall W u p, get_slot W (u_slot u) = Some (u, p) -> exists e, ref W u = Some e.
Proof.
  intros W u p H; unfold ref; rewrite H, uid_eqb_refl. apply den_run_total; apply oracle_total.
Qed.

Lemma ref_present : forall W u e, ref W u = Some e -> exists p, get_slot W (u_slot u) = Some (u, p) /\ In (u, p) W.
Proof.
  intros W u e H; unfold ref in H.
  destruct (get_slot W (u_slot u)) as [[u' p]|] eqn:Hs; [|discriminate].
  destruct (uid_eqb u' u) eqn:He; [|discriminate]. apply uid_eqb_true in He; subst u'.
  exists p; split; [reflexivity | apply (get_slot_In _ _ _ _ Hs)].
Qed.

(* a run against the oracle that ends unflagged has seen good units only *)
Lemma oracle_run_unflagged : forall W, prop_world W -> forall u p tr e, propagating p ->
  den_run W (oracle W) u p tr = Some e -> r_circ (fst e) = false ->
  den_run W (getd_of (length W) W) u p tr = Some e.
Proof.
  intros W HW u; induction p as [c t|q k IH]; intros tr e Hp H Hc; cbn [den_run propagating] in *; [assumption|].
  destruct (den_answer W (oracle W) u q) as [a|] eqn:Ha; [|discriminate].
  specialize (Hp a). destruct (err_answer a) eqn:Hea.
  - destruct Hp as [t Ht]. rewrite Ht in H; cbn [den_run] in H; inversion H; subst; discriminate Hc.
  - assert (Ha2 : den_answer W (getd_of (length W) W) u q = Some a).
    { assert (Hor : forall v r, oracle W v = Some r -> r_circ r = false -> getd_of (length W) W v = Some r).
      { intros v r Hv Hr; unfold oracle in Hv; unfold getd_of.
        destruct (den (length W) W v) as [ev|]; [assumption | inversion Hv; subst; discriminate Hr]. }
      destruct q as [s|l|]; cbn [den_answer] in *.
      - destruct (get_slot W s) as [[v pv]|]; [|assumption].
        destruct (oracle W v) as [rv|] eqn:Hg; [|discriminate].
        destruct (r_circ rv) eqn:Hcv; inversion Ha; subst a; [discriminate Hea|].
        rewrite (Hor v rv Hg Hcv), Hcv; reflexivity.
      - destruct (l =? u_lib u); [assumption|].
        destruct (den_all (oracle W) (primaries W l) []) as [[vs b]|] eqn:Hd; [|discriminate].
        destruct b; inversion Ha; subst a; [|discriminate Hea].
        destruct (den_all_complete _ _ _ _ Hd) as [_ Hall].
        rewrite (den_all_ext_on (getd_of (length W) W) (oracle W) (primaries W l) []), Hd; [reflexivity|].
        intros v Hv. destruct (Hall v Hv) as [rv [Hrv Hcv]]. rewrite Hrv. apply Hor; assumption.
      - assumption. }
    rewrite Ha2. apply IH; assumption.
Qed.

Lemma bad_flagged : forall W, prop_world W -> forall u e, ref W u = Some e ->
  den (length W) W u = None -> r_circ (fst e) = true.
Proof.
  intros W HW u e H Hbad. destruct (r_circ (fst e)) eqn:Hc; [reflexivity|]. exfalso.
  unfold ref in H.
  destruct (get_slot W (u_slot u)) as [[u' p]|] eqn:Hs; [|discriminate].
  destruct (uid_eqb u' u) eqn:He; [|discriminate].
  pose proof He as He'. apply uid_eqb_true in He'; subst u'.
  destruct (get_slot_In _ _ _ _ Hs) as [Hin _].
  pose proof (oracle_run_unflagged W HW u p [] e (HW _ _ Hin) H Hc) as Hrun.
  assert (Hd : den (S (length W)) W u = Some e) by (rewrite den_S, Hs, He; exact Hrun).
  rewrite (den_bound W HW _ _ _ Hd) in Hbad; discriminate.
Qed.

(* what the reader of unit v sees (oracle) is what the result of v says *)
Lemma oracle_ref : forall W, prop_world W -> forall v ev r, ref W v = Some ev -> oracle W v = Some r ->
  r_circ r = r_circ (fst ev) /\ (r_circ r = false -> r = fst ev).
Proof.
  intros W HW v ev r Hr Ho. unfold oracle in Ho. destruct (den (length W) W v) as [e|] eqn:Hd.
  - inversion Ho; subst r. rewrite (good_ref W HW _ _ _ Hd) in Hr; inversion Hr; subst; auto.
  - inversion Ho; subst r; cbn [r_circ]. rewrite (bad_flagged W HW v ev Hr Hd). split; [reflexivity | discriminate].
Qed.

(* ---------------------------------------------------------------------------------- *)
(* registered reads and the read order *)
Definition real_edge (W : world) (a b : uid) : Prop :=
  exists e, ref W b = Some e /\ In a (trace_reads W (snd e)).

Lemma real_edge_good : forall W, prop_world W -> forall a b g e, real_edge W a b -> den g W b = Some e ->
  sub W a b /\ den (length W) W a <> None.
Proof.
  intros W HW a b g e [e' [Hr Hin]] Hd.
  rewrite (good_ref W HW _ _ _ Hd) in Hr; inversion Hr; subst e'.
  pose proof (good_trace_reads W HW _ _ _ Hd a Hin) as Hu.
  split; [eapply den_reads_sub; eassumption|].
  destruct g as [|g]; [discriminate|].
  pose proof (den_reads_fuel _ _ _ _ _ Hd Hu) as Hg.
  destruct (den g W a) as [ea|] eqn:Hda; [|congruence].
  rewrite (den_bound W HW _ _ _ Hda); discriminate.
Qed.

Lemma reach_good : forall W E u x, prop_world W ->
  (forall a b, In (a, b) E -> real_edge W a b) -> reach E [u] x ->
  den (length W) W x <> None -> den (length W) W u <> None /\ (x = u \/ sub W u x).
Proof.
  intros W E u x HW HE Hr; induction Hr as [x Hx | v x Hr IH He]; intros Hgx.
  - destruct Hx as [<-|[]]; auto.
  - destruct (den (length W) W x) as [ex|] eqn:Hdx; [|congruence].
    destruct (real_edge_good W HW v x _ ex (HE _ _ He) Hdx) as [Hs Hgv].
    destruct (IH Hgv) as [Hgu [->|Hsu]]; split; auto. right; eapply sub_trans; eassumption.
Qed.
