(* Kernel/IncrSweepBig.v — the larger small-scope sweep of "incremental = fresh" (thorough tier
   only): every 7th of the 1620 worlds x all 25 x 25 two-step histories, and 6 worlds x all
   25^3 three-step histories; cyclic worlds included. *)
From Coq Require Import List NArith Arith Bool.
Import ListNotations.
From RH Require Import Kernel.World Kernel.Reset Kernel.Incr Kernel.Inv Kernel.IncrSweep.
Open Scope N_scope.

Lemma big_scope_size :
  (length (every 7 small_worlds) = 231 /\ length (every 269 small_worlds) = 6 /\
   length (edits 7) = 25 /\ length (edits 8) = 25 /\ length (edits 9) = 25)%nat.
Proof. vm_compute. repeat split. Qed.

Lemma sweep_two_steps_big :
  forallb (fun W => forallb (fun b1 => forallb (fun b2 =>
     agrees_with_fresh analyse all_uids all_keys W [b1; b2]) (edits 8)) (edits 7)) (every 7 small_worlds) = true.
Proof. vm_cast_no_check (eq_refl true). Qed.

Lemma sweep_three_steps :
  forallb (fun W => forallb (fun b1 => forallb (fun b2 => forallb (fun b3 =>
     agrees_with_fresh analyse all_uids all_keys W [b1; b2; b3]) (edits 9)) (edits 8)) (edits 7))
     (every 269 small_worlds) = true.
Proof. vm_cast_no_check (eq_refl true). Qed.
