From Coq Require Import List NArith Bool Lia Permutation.
Import ListNotations.
From RH Require Import Kernel.Arena.
Open Scope N_scope.

(* Kernel/ArenaProofs.v — proofs about Kernel/Arena.v (the entity arenas of the design root).
   Layer 0: algebra of FinalArena (link = first wins, finalize = overwrite).
   Layer 1: the invariant `coherent` is established by empty_root, preserved by ensure_library and by a whole
            DesignRoot::analyze round under the closure hypothesis `uses_closed`; consequences (`arena_closed`). *)

#[local] Arguments N.add : simpl never.
#[local] Arguments N.sub : simpl never.
#[local] Arguments N.mul : simpl never.
#[local] Arguments N.eqb : simpl never.
#[local] Arguments N.ltb : simpl never.
#[local] Arguments N.leb : simpl never.

(* ---------------------------------------------------------------------------------------------- *)
(* Generic list helpers                                                                           *)
(* ---------------------------------------------------------------------------------------------- *)
Lemma fold_left_inv {A B} (P : A -> Prop) (f : A -> B -> A) :
  (forall a b, P a -> P (f a b)) -> forall l a, P a -> P (fold_left f l a).
Proof.
  intros Hf l; induction l as [|b t IH]; intros a Ha; cbn [fold_left]; [exact Ha | apply IH, Hf, Ha].
Qed.

Lemma NoDup_snoc {A} (l : list A) x : NoDup l -> ~ In x l -> NoDup (l ++ [x]).
Proof.
  intros ND Hn. apply (Permutation_NoDup (l := x :: l)).
  - apply Permutation_cons_append.
  - constructor; assumption.
Qed.

Lemma NoDup_map_inj {A B} (g : A -> B) l :
  NoDup (map g l) -> forall x y, In x l -> In y l -> g x = g y -> x = y.
Proof.
  induction l as [|h t IH]; intros ND x y Hx Hy E; [destruct Hx|].
  cbn [map] in ND. inversion ND as [|? ? Hn ND']; subst.
  destruct Hx as [Hx|Hx], Hy as [Hy|Hy].
  - congruence.
  - subst x. exfalso. apply Hn. rewrite E. apply in_map; exact Hy.
  - subst y. exfalso. apply Hn. rewrite <- E. apply in_map; exact Hx.
  - apply IH; assumption.
Qed.

Lemma filter_nil {A} (p : A -> bool) l : filter p l = [] -> forall x, In x l -> p x = false.
Proof.
  induction l as [|h t IH]; intros E x Hx; [destruct Hx|].
  cbn [filter] in E. destruct (p h) eqn:Eh; [discriminate|].
  destruct Hx as [Hx|Hx]; [subst; exact Eh | apply IH; assumption].
Qed.

(* ---------------------------------------------------------------------------------------------- *)
(* Layer 0: FinalArena algebra                                                                    *)
(* ---------------------------------------------------------------------------------------------- *)
Fixpoint first_find (fs : list final_arena) (a : arena_id) : option local_arena :=
  match fs with
  | [] => None
  | f :: t => match fa_find f a with Some x => Some x | None => first_find t a end
  end.

Lemma fa_find_app : forall f g a,
  fa_find (f ++ g) a = match fa_find f a with Some x => Some x | None => fa_find g a end.
Proof.
  induction f as [|[b la] t IH]; intros g a; cbn [fa_find app].
  - reflexivity.
  - destruct (b =? a); [reflexivity | apply IH].
Qed.

Lemma fa_find_link : forall self ref a,
  fa_find (link self ref) a = match fa_find self a with Some x => Some x | None => fa_find ref a end.
Proof.
  intros self ref; revert self.
  induction ref as [|[b la] r IH]; intros self a; cbn [link fa_find].
  - destruct (fa_find self a); reflexivity.
  - rewrite IH. destruct (fa_find self b) eqn:Eb.
    + destruct (fa_find self a) eqn:Ea; [reflexivity|].
      destruct (b =? a) eqn:Eba; [|reflexivity].
      apply N.eqb_eq in Eba; subst. congruence.
    + rewrite fa_find_app. cbn [fa_find].
      destruct (fa_find self a); [reflexivity|]. destruct (b =? a); reflexivity.
Qed.

Lemma fa_find_fold_link : forall fs acc a,
  fa_find (fold_left link fs acc) a = match fa_find acc a with Some x => Some x | None => first_find fs a end.
Proof.
  induction fs as [|f t IH]; intros acc a; cbn [fold_left first_find].
  - destruct (fa_find acc a); reflexivity.
  - rewrite IH, fa_find_link. destruct (fa_find acc a); [reflexivity|].
    destruct (fa_find f a); reflexivity.
Qed.

Lemma fa_find_link_all : forall fs a, fa_find (link_all fs) a = first_find fs a.
Proof. intros fs a. unfold link_all. rewrite fa_find_fold_link. reflexivity. Qed.

Lemma fa_find_In : forall r a x, fa_find r a = Some x -> In (a, x) r.
Proof.
  induction r as [|[b la] t IH]; intros a x H; cbn [fa_find] in H; [discriminate|].
  destruct (b =? a) eqn:E.
  - apply N.eqb_eq in E. inversion H; subst. left; reflexivity.
  - right. apply IH, H.
Qed.

Lemma In_fa_find : forall r a x, NoDup (map fst r) -> In (a, x) r -> fa_find r a = Some x.
Proof.
  induction r as [|[b la] t IH]; intros a x ND H; [destruct H|].
  cbn [map fst] in ND. inversion ND as [|? ? Hn ND']; subst.
  cbn [fa_find]. destruct H as [H|H].
  - inversion H; subst. rewrite N.eqb_refl. reflexivity.
  - destruct (b =? a) eqn:E.
    + apply N.eqb_eq in E; subst. exfalso. apply Hn.
      change a with (fst (a, x)). apply in_map, H.
    + apply IH; assumption.
Qed.

Lemma fa_find_perm : forall r1 r2 a,
  NoDup (map fst r1) -> Permutation r1 r2 -> fa_find r1 a = fa_find r2 a.
Proof.
  intros r1 r2 a ND P.
  assert (ND2 : NoDup (map fst r2)).
  { eapply Permutation_NoDup; [apply Permutation_map, P | exact ND]. }
  destruct (fa_find r1 a) as [x|] eqn:E1.
  - symmetry. apply In_fa_find; [exact ND2|].
    eapply Permutation_in; [exact P | apply fa_find_In, E1].
  - destruct (fa_find r2 a) as [y|] eqn:E2; [|reflexivity].
    apply fa_find_In in E2. apply (Permutation_in _ (Permutation_sym P)) in E2.
    apply (In_fa_find _ _ _ ND) in E2. congruence.
Qed.

(* the hash-map iteration order of `referenced` is irrelevant *)
Lemma link_order_irrelevant : forall self r1 r2 a,
  NoDup (map fst r1) -> Permutation r1 r2 -> fa_find (link self r1) a = fa_find (link self r2) a.
Proof.
  intros self r1 r2 a ND P. rewrite !fa_find_link.
  rewrite (fa_find_perm r1 r2 a ND P). reflexivity.
Qed.

Lemma fa_find_remove : forall f b a,
  fa_find (fa_remove f b) a = if b =? a then None else fa_find f a.
Proof.
  induction f as [|[c la] t IH]; intros b a; cbn [fa_remove fa_find].
  - destruct (b =? a); reflexivity.
  - destruct (c =? b) eqn:Ecb.
    + apply N.eqb_eq in Ecb; subst c. rewrite IH. destruct (b =? a); reflexivity.
    + cbn [fa_find]. rewrite IH. destruct (c =? a) eqn:Eca; [|reflexivity].
      apply N.eqb_eq in Eca; subst c. rewrite N.eqb_sym, Ecb. reflexivity.
Qed.

Lemma fa_find_insert : forall f la a,
  fa_find (fa_insert f la) a = if la_id la =? a then Some la else fa_find f a.
Proof.
  intros f la a. unfold fa_insert. cbn [fa_find]. rewrite fa_find_remove.
  destruct (la_id la =? a); reflexivity.
Qed.

Lemma nth_N_some : forall {A} (l : list A) i, nth_N l i <> None <-> i < N.of_nat (length l).
Proof.
  intros A; induction l as [|h t IH]; intros i; cbn [nth_N length].
  - change (N.of_nat 0) with 0. split; [congruence | lia].
  - rewrite Nat2N.inj_succ. destruct (i =? 0) eqn:E.
    + apply N.eqb_eq in E. split; [intros _; lia | congruence].
    + apply N.eqb_neq in E. rewrite IH. lia.
Qed.

Lemma fa_is_valid_get : forall f e, fa_is_valid f e = true <-> fa_get f e <> None.
Proof.
  intros f e. unfold fa_is_valid, fa_get. destruct (fa_find f (fst e)) as [la|].
  - rewrite N.ltb_lt. unfold la_get. symmetry. apply nth_N_some.
  - split; [discriminate | congruence].
Qed.

Lemma first_find_sound : forall fs a x, first_find fs a = Some x -> exists f, In f fs /\ fa_find f a = Some x.
Proof.
  induction fs as [|f t IH]; intros a x H; cbn [first_find] in H; [discriminate|].
  destruct (fa_find f a) as [y|] eqn:E.
  - inversion H; subst. exists f. split; [left; reflexivity | exact E].
  - destruct (IH a x H) as (g & Hg & Eg). exists g. split; [right; exact Hg | exact Eg].
Qed.

Lemma first_find_none : forall fs a, first_find fs a = None -> forall f, In f fs -> fa_find f a = None.
Proof.
  induction fs as [|g t IH]; intros a H f Hf; [destruct Hf|].
  cbn [first_find] in H. destruct (fa_find g a) as [y|] eqn:E; [discriminate|].
  destruct Hf as [Hf|Hf]; [subst; exact E | apply IH; assumption].
Qed.

Lemma link_all_sound : forall fs a x, fa_find (link_all fs) a = Some x -> exists f, In f fs /\ fa_find f a = Some x.
Proof. intros fs a x H. rewrite fa_find_link_all in H. apply first_find_sound, H. Qed.

(* first-wins picks the right arena PROVIDED no two linked arenas hold different local arenas under one id *)
Lemma link_all_agree : forall fs f a x,
  all_agree fs -> In f fs -> fa_find f a = Some x -> fa_find (link_all fs) a = Some x.
Proof.
  intros fs f a x AG Hf E. rewrite fa_find_link_all.
  destruct (first_find fs a) as [y|] eqn:Ey.
  - destruct (first_find_sound _ _ _ Ey) as (g & Hg & Eg).
    f_equal. exact (AG g f Hg Hf a y x Eg E).
  - rewrite (first_find_none _ _ Ey f Hf) in E. discriminate.
Qed.

Lemma link_all_get : forall fs f e x,
  all_agree fs -> In f fs -> fa_get f e = Some x -> fa_get (link_all fs) e = Some x.
Proof.
  intros fs f e x AG Hf H. unfold fa_get in *.
  destruct (fa_find f (fst e)) as [la|] eqn:E; [|discriminate].
  rewrite (link_all_agree fs f (fst e) la AG Hf E). exact H.
Qed.

(* during an analysis: Arena::get on the own arena + links agrees with the finalised arena *)
Lemma arena_get_finalize : forall local refs e,
  arena_get local refs e = fa_get (finalize refs local) e.
Proof.
  intros local refs e. unfold arena_get, finalize, fa_get. rewrite fa_find_insert.
  rewrite (N.eqb_sym (la_id local)). destruct (fst e =? la_id local); reflexivity.
Qed.

(* ---------------------------------------------------------------------------------------------- *)
(* Layer 1: owners, slots                                                                         *)
(* ---------------------------------------------------------------------------------------------- *)
Lemma owner_eqb_eq : forall a b, owner_eqb a b = true <-> a = b.
Proof.
  intros [x|l k] [y|l' k']; cbn [owner_eqb].
  - rewrite N.eqb_eq. split; congruence.
  - split; discriminate.
  - split; discriminate.
  - rewrite andb_true_iff, !N.eqb_eq. split; [intros [? ?]; congruence | intros H; inversion H; auto].
Qed.

Lemma owner_eqb_refl : forall a, owner_eqb a a = true.
Proof. intros a. apply owner_eqb_eq. reflexivity. Qed.

Lemma owner_eqb_neq : forall a b, owner_eqb a b = false <-> a <> b.
Proof.
  intros a b. split.
  - intros H E. apply owner_eqb_eq in E. congruence.
  - intros H. destruct (owner_eqb a b) eqn:E; [|reflexivity]. apply owner_eqb_eq in E. contradiction.
Qed.

Lemma owner_eq_dec : forall a b : owner, {a = b} + {a <> b}.
Proof. decide equality; apply N.eq_dec. Qed.

Lemma mem_owner_In : forall o os, mem_owner o os = true <-> In o os.
Proof.
  intros o os. unfold mem_owner. rewrite existsb_exists. split.
  - intros (x & Hx & E). apply owner_eqb_eq in E. subst. exact Hx.
  - intros H. exists o. split; [exact H | apply owner_eqb_refl].
Qed.

Lemma mem_owner_nIn : forall o os, mem_owner o os = false <-> ~ In o os.
Proof.
  intros o os. rewrite <- mem_owner_In. destruct (mem_owner o os); split; congruence.
Qed.

Lemma forallb_is_unit : forall os o, forallb is_unit os = true -> In o os -> is_unit o = true.
Proof. intros os o H Ho. rewrite forallb_forall in H. apply H, Ho. Qed.

Lemma own_id_ext : forall s t, s_owner s = s_owner t -> s_aid s = s_aid t -> own_id s = own_id t.
Proof. intros s t Ho Ha. unfold own_id. rewrite Ho, Ha. reflexivity. Qed.

Lemma own_id_std : forall s, s_owner s = std_unit -> own_id s = 0.
Proof. intros s H. unfold own_id. rewrite H, owner_eqb_refl. reflexivity. Qed.

Lemma own_id_nonstd : forall s, s_owner s <> std_unit -> own_id s = s_aid s.
Proof. intros s H. unfold own_id. apply owner_eqb_neq in H. rewrite H. reflexivity. Qed.

Lemma find_slot_In : forall ss o s, find_slot ss o = Some s -> In s ss /\ s_owner s = o.
Proof.
  induction ss as [|h t IH]; intros o s H; cbn [find_slot] in H; [discriminate|].
  destruct (owner_eqb (s_owner h) o) eqn:E.
  - inversion H; subst. apply owner_eqb_eq in E. split; [left; reflexivity | exact E].
  - destruct (IH o s H) as [H1 H2]. split; [right; exact H1 | exact H2].
Qed.

Lemma find_slot_None : forall ss o, find_slot ss o = None -> forall s, In s ss -> s_owner s <> o.
Proof.
  induction ss as [|h t IH]; intros o H s Hs; [destruct Hs|].
  cbn [find_slot] in H. destruct (owner_eqb (s_owner h) o) eqn:E; [discriminate|].
  destruct Hs as [Hs|Hs]; [subst; apply owner_eqb_neq, E | apply IH; assumption].
Qed.

Lemma find_slot_unique : forall ss o s,
  NoDup (map s_owner ss) -> In s ss -> s_owner s = o -> find_slot ss o = Some s.
Proof.
  intros ss o s ND Hs Ho. destruct (find_slot ss o) as [s'|] eqn:E.
  - destruct (find_slot_In _ _ _ E) as [H1 H2]. f_equal.
    apply (NoDup_map_inj s_owner ss ND); [exact H1 | exact Hs | congruence].
  - exfalso. exact (find_slot_None _ _ E s Hs Ho).
Qed.

(* ---------------------------------------------------------------------------------------------- *)
(* `current` through membership                                                                   *)
(* ---------------------------------------------------------------------------------------------- *)
Definition cur (ss : list slot) (a : arena_id) (la : local_arena) : Prop :=
  exists t, In t ss /\ own_id t = a /\ own_arena t = Some la.

Lemma current_in_cur : forall ss a la, current_in ss a = Some la -> cur ss a la.
Proof.
  induction ss as [|h t IH]; intros a la H; cbn [current_in] in H; [discriminate|].
  destruct (own_id h =? a) eqn:E.
  - apply N.eqb_eq in E. exists h. split; [left; reflexivity | split; assumption].
  - destruct (IH a la H) as (u & Hu & H1 & H2). exists u. split; [right; exact Hu | split; assumption].
Qed.

Lemma cur_current_in : forall ss a la, NoDup (map own_id ss) -> cur ss a la -> current_in ss a = Some la.
Proof.
  induction ss as [|h t IH]; intros a la ND (u & Hu & H1 & H2); [destruct Hu|].
  cbn [map] in ND. inversion ND as [|? ? Hn ND']; subst.
  cbn [current_in]. destruct (own_id h =? own_id u) eqn:E.
  - apply N.eqb_eq in E. destruct Hu as [Hu|Hu]; [subst; exact H2|].
    exfalso. apply Hn. rewrite E. apply in_map, Hu.
  - destruct Hu as [Hu|Hu]; [subst; rewrite N.eqb_refl in E; discriminate|].
    apply IH; [exact ND'|]. exists u. split; [exact Hu | split; [reflexivity | exact H2]].
Qed.

Lemma cur_fun : forall ss a x y, NoDup (map own_id ss) -> cur ss a x -> cur ss a y -> x = y.
Proof.
  intros ss a x y ND Hx Hy.
  apply (cur_current_in _ _ _ ND) in Hx. apply (cur_current_in _ _ _ ND) in Hy. congruence.
Qed.

(* ---------------------------------------------------------------------------------------------- *)
(* The invariant on the components                                                                *)
(* ---------------------------------------------------------------------------------------------- *)
Definition bounds (ss : list slot) (n : N) : Prop :=
  (forall s, In s ss -> own_id s < n) /\
  (forall s, In s ss -> s_aid s < n) /\
  (forall s, In s ss -> owner_eqb (s_owner s) std_unit = false -> 0 < s_aid s) /\
  0 < n.

Definition res_cur (ss : list slot) : Prop :=
  forall s f, In s ss -> s_res s = Some f ->
    (exists la, fa_find f (own_id s) = Some la /\ la_id la = own_id s) /\
    (forall a la, fa_find f a = Some la -> cur ss a la).

Definition std_ok (ss : list slot) (std : option final_arena) : Prop :=
  match std with
  | None => True
  | Some f => exists s, In s ss /\ s_owner s = std_unit /\ s_res s = Some f
  end.

Definition libs_ok (ss : list slot) : Prop :=
  (forall s l k, In s ss -> s_owner s = OUnit l k -> exists t, In t ss /\ s_owner t = OLib l) /\
  (forall s l, In s ss -> s_owner s = OLib l -> s_res s <> None).

Definition coh (ss : list slot) (n : N) (std : option final_arena) : Prop :=
  NoDup (map own_id ss) /\ bounds ss n /\ NoDup (map s_owner ss) /\ res_cur ss /\ std_ok ss std /\ libs_ok ss.

Lemma owners_unique_NoDup : forall r,
  NoDup (map own_id (r_slots r)) -> owners_unique r -> NoDup (map s_owner (r_slots r)).
Proof.
  intros r. unfold owners_unique. generalize (r_slots r) as ss.
  induction ss as [|h t IH]; intros ND OU; cbn [map]; [constructor|].
  cbn [map] in ND. inversion ND as [|? ? Hn ND']; subst.
  constructor.
  - intros Hin. apply in_map_iff in Hin. destruct Hin as (u & E & Hu).
    assert (h = u) as ->.
    { apply OU; [left; reflexivity | right; exact Hu |]. apply owner_eqb_eq. congruence. }
    apply Hn. apply in_map, Hu.
  - apply IH; [exact ND'|]. intros s u Hs Hu E. apply OU; [right; exact Hs | right; exact Hu | exact E].
Qed.

Lemma coherent_coh : forall r, coherent r <-> coh (r_slots r) (r_next_id r) (r_std r).
Proof.
  intros r. unfold coherent, coh, ids_unique, bounds. split.
  - intros ((ND & B1 & B2 & B3 & B4) & OU & RC & SC & LP).
    split; [exact ND|]. split; [repeat split; assumption|].
    split; [apply owners_unique_NoDup; assumption|].
    split; [|split; [exact SC | exact LP]].
    intros s f Hs Hf. destruct (RC s f Hs Hf) as [H1 H2]. split; [exact H1|].
    intros a la Ha. apply current_in_cur. apply H2, Ha.
  - intros (ND & (B1 & B2 & B3 & B4) & NO & RC & SC & LP).
    split; [repeat split; assumption|].
    split; [|split; [|split; [exact SC | exact LP]]].
    + intros s t Hs Ht E. apply owner_eqb_eq in E.
      exact (NoDup_map_inj s_owner _ NO s t Hs Ht E).
    + intros s f Hs Hf. destruct (RC s f Hs Hf) as [H1 H2]. split; [exact H1|].
      intros a la Ha. unfold current. apply cur_current_in; [exact ND | apply H2, Ha].
Qed.

Lemma coherent_empty : coherent empty_root.
Proof.
  apply coherent_coh. cbn. unfold coh, bounds, res_cur, std_ok, libs_ok. cbn.
  split; [constructor|]. split; [repeat split; try (intros s []); lia|].
  split; [constructor|]. split; [intros s f []|]. split; [exact I|].
  split; [intros s l k [] | intros s l []].
Qed.

Lemma cur_incl : forall ss ss' a la, (forall s, In s ss -> In s ss') -> cur ss a la -> cur ss' a la.
Proof. intros ss ss' a la H (t & Ht & H1 & H2). exists t. split; [apply H, Ht | split; assumption]. Qed.

Lemma coherent_ensure_library : forall r l x, coherent r -> coherent (ensure_library r l x).
Proof.
  intros r l x C. unfold ensure_library.
  destruct (find_slot (r_slots r) (OLib l)) as [s0|] eqn:EF; [exact C|].
  apply coherent_coh in C. apply coherent_coh. cbn [r_slots r_next_id r_std].
  destruct C as (ND & (B1 & B2 & B3 & B4) & NO & RC & SC & (LP1 & LP2)).
  set (la := mkLA (r_next_id r) (r_next_ver r) [x]).
  set (new := mkSlot (OLib l) (r_next_id r) (Some (finalize [] la))).
  assert (Hown : own_id new = r_next_id r) by reflexivity.
  assert (Hincl : forall s, In s (r_slots r) -> In s (r_slots r ++ [new])).
  { intros s Hs. apply in_or_app. left; exact Hs. }
  split; [|split; [|split; [|split; [|split]]]].
  - rewrite map_app. cbn [map]. apply NoDup_snoc; [exact ND|].
    intros Hin. apply in_map_iff in Hin. destruct Hin as (u & E & Hu).
    specialize (B1 u Hu). rewrite Hown in E. lia.
  - unfold bounds. split; [|split; [|split]].
    + intros s Hs. apply in_app_or in Hs. destruct Hs as [Hs|[Hs|[]]].
      * specialize (B1 s Hs). lia.
      * subst s. rewrite Hown. lia.
    + intros s Hs. apply in_app_or in Hs. destruct Hs as [Hs|[Hs|[]]].
      * specialize (B2 s Hs). lia.
      * subst s. cbn [s_aid new]. lia.
    + intros s Hs Hn. apply in_app_or in Hs. destruct Hs as [Hs|[Hs|[]]].
      * apply B3; assumption.
      * subst s. cbn [s_aid new]. lia.
    + lia.
  - rewrite map_app. cbn [map]. apply NoDup_snoc; [exact NO|].
    intros Hin. apply in_map_iff in Hin. destruct Hin as (u & E & Hu).
    exact (find_slot_None _ _ EF u Hu E).
  - intros s f Hs Hf. apply in_app_or in Hs. destruct Hs as [Hs|[Hs|[]]].
    + destruct (RC s f Hs Hf) as [H1 H2]. split; [exact H1|].
      intros a la0 Ha. apply (cur_incl (r_slots r)); [exact Hincl | apply H2, Ha].
    + subst s. cbn [s_res new] in Hf. inversion Hf; subst f. rewrite Hown.
      unfold finalize. split.
      * exists la. rewrite fa_find_insert. cbn [la_id la]. rewrite N.eqb_refl. split; reflexivity.
      * intros a la0 Ha. rewrite fa_find_insert in Ha. cbn [la_id la fa_find] in Ha.
        destruct (r_next_id r =? a) eqn:E; [|discriminate].
        apply N.eqb_eq in E. inversion Ha; subst.
        exists new. split; [apply in_or_app; right; left; reflexivity|].
        split; [exact Hown|]. unfold own_arena. cbn [s_res new]. rewrite Hown.
        unfold finalize. rewrite fa_find_insert. cbn [la_id la]. rewrite N.eqb_refl. reflexivity.
  - unfold std_ok in *. destruct (r_std r) as [f|]; [|exact I].
    destruct SC as (s & Hs & H1 & H2). exists s. split; [apply Hincl, Hs | split; assumption].
  - split.
    + intros s l0 k Hs Ho. apply in_app_or in Hs. destruct Hs as [Hs|[Hs|[]]].
      * destruct (LP1 s l0 k Hs Ho) as (t & Ht & Hto). exists t. split; [apply Hincl, Ht | exact Hto].
      * subst s. cbn [s_owner new] in Ho. discriminate.
    + intros s l0 Hs Ho. apply in_app_or in Hs. destruct Hs as [Hs|[Hs|[]]].
      * exact (LP2 s l0 Hs Ho).
      * subst s. cbn [s_res new]. discriminate.
Qed.

(* ---------------------------------------------------------------------------------------------- *)
(* set_res                                                                                        *)
(* ---------------------------------------------------------------------------------------------- *)
Lemma set_res_owner : forall ss o f, map s_owner (set_res ss o f) = map s_owner ss.
Proof.
  induction ss as [|h t IH]; intros o f; cbn [set_res map]; [reflexivity|].
  destruct (owner_eqb (s_owner h) o); cbn [map s_owner]; [reflexivity | rewrite IH; reflexivity].
Qed.

Lemma set_res_own_id : forall ss o f, map own_id (set_res ss o f) = map own_id ss.
Proof.
  induction ss as [|h t IH]; intros o f; cbn [set_res map]; [reflexivity|].
  destruct (owner_eqb (s_owner h) o); cbn [map]; [reflexivity | rewrite IH; reflexivity].
Qed.

Lemma set_res_shape : forall ss o f s', In s' (set_res ss o f) ->
  exists s, In s ss /\ s_owner s' = s_owner s /\ s_aid s' = s_aid s /\ (s_res s' = s_res s \/ s_res s' = Some f).
Proof.
  induction ss as [|h t IH]; intros o f s' H; cbn [set_res] in H; [destruct H|].
  destruct (owner_eqb (s_owner h) o).
  - destruct H as [H|H].
    + subst s'. exists h. cbn. split; [left; reflexivity|]. repeat split. right; reflexivity.
    + exists s'. split; [right; exact H|]. repeat split. left; reflexivity.
  - destruct H as [H|H].
    + subst s'. exists h. split; [left; reflexivity|]. repeat split. left; reflexivity.
    + destruct (IH o f s' H) as (s & Hs & R). exists s. split; [right; exact Hs | exact R].
Qed.

Lemma set_res_spec : forall ss o f sl,
  NoDup (map s_owner ss) -> In sl ss -> s_owner sl = o ->
  forall s', In s' (set_res ss o f) <-> (In s' ss /\ s_owner s' <> o) \/ s' = mkSlot o (s_aid sl) (Some f).
Proof.
  induction ss as [|h t IH]; intros o f sl ND Hsl Ho s'; [destruct Hsl|].
  cbn [map] in ND. inversion ND as [|? ? Hn ND']; subst.
  cbn [set_res]. destruct (owner_eqb (s_owner h) (s_owner sl)) eqn:E.
  - apply owner_eqb_eq in E.
    assert (sl = h) as ->.
    { destruct Hsl as [Hsl|Hsl]; [congruence|]. exfalso. apply Hn. rewrite E. apply in_map, Hsl. }
    split.
    + intros [H|H]; [right; congruence|]. left. split; [right; exact H|].
      intros E'. apply Hn. rewrite <- E'. apply in_map, H.
    + intros [[[H|H] Hne]|H].
      * subst s'. contradiction.
      * right; exact H.
      * left. congruence.
  - apply owner_eqb_neq in E.
    destruct Hsl as [Hsl|Hsl]; [subst; contradiction|].
    specialize (IH (s_owner sl) f sl ND' Hsl eq_refl s'). split.
    + intros [H|H]; [subst s'; left; split; [left; reflexivity | exact E]|].
      apply IH in H. destruct H as [[H Hne]|H]; [left; split; [right; exact H | exact Hne] | right; exact H].
    + intros [[[H|H] Hne]|H].
      * left; exact H.
      * right. apply IH. left. split; assumption.
      * right. apply IH. right; exact H.
Qed.

(* The common part of analyze_unit and analyze_standard_package: a non-analysed slot gets a result whose own entry
   is its new local arena and whose other entries are current *)
Lemma set_res_coh : forall ss n o f sl,
  NoDup (map own_id ss) -> bounds ss n -> NoDup (map s_owner ss) -> res_cur ss -> libs_ok ss ->
  In sl ss -> s_owner sl = o -> s_res sl = None ->
  (exists la, fa_find f (own_id sl) = Some la /\ la_id la = own_id sl) ->
  (forall a x, fa_find f a = Some x -> a <> own_id sl -> cur ss a x) ->
  NoDup (map own_id (set_res ss o f)) /\ bounds (set_res ss o f) n /\ NoDup (map s_owner (set_res ss o f)) /\
  res_cur (set_res ss o f) /\ libs_ok (set_res ss o f) /\
  In (mkSlot o (s_aid sl) (Some f)) (set_res ss o f) /\
  (forall s, In s ss -> s_owner s <> o -> In s (set_res ss o f)).
Proof.
  intros ss n o f sl ND (B1 & B2 & B3 & B4) NO RC (LP1 & LP2) Hsl Ho Hres (la & Hla & Hlaid) Hoth.
  pose proof (set_res_spec ss o f sl NO Hsl Ho) as SP.
  set (new := mkSlot o (s_aid sl) (Some f)) in *.
  assert (Hnewid : own_id new = own_id sl).
  { apply own_id_ext; cbn [new s_owner s_aid]; [symmetry; exact Ho | reflexivity]. }
  assert (Hnew : In new (set_res ss o f)) by (apply SP; right; reflexivity).
  assert (Hkeep : forall s, In s ss -> s_owner s <> o -> In s (set_res ss o f)).
  { intros s Hs Hne. apply SP. left. split; assumption. }
  (* an arena that is current before is not the one of the slot being analysed, and stays current *)
  assert (Hcur : forall a x, cur ss a x -> a <> own_id sl /\ cur (set_res ss o f) a x).
  { intros a x (t & Ht & H1 & H2).
    assert (Hne : t <> sl).
    { intros ->. unfold own_arena in H2. rewrite Hres in H2. discriminate. }
    split.
    - intros E. apply Hne. apply (NoDup_map_inj own_id ss ND); [exact Ht | exact Hsl | congruence].
    - exists t. split; [|split; assumption]. apply Hkeep; [exact Ht|].
      intros E. apply Hne. apply (NoDup_map_inj s_owner ss NO); [exact Ht | exact Hsl | congruence]. }
  split; [rewrite set_res_own_id; exact ND|].
  split.
  { unfold bounds. split; [|split; [|split; [|exact B4]]].
    - intros s' Hs'. destruct (set_res_shape _ _ _ _ Hs') as (s & Hs & E1 & E2 & _).
      rewrite (own_id_ext s' s E1 E2). apply B1, Hs.
    - intros s' Hs'. destruct (set_res_shape _ _ _ _ Hs') as (s & Hs & E1 & E2 & _).
      rewrite E2. apply B2, Hs.
    - intros s' Hs' Hn. destruct (set_res_shape _ _ _ _ Hs') as (s & Hs & E1 & E2 & _).
      rewrite E2. apply B3; [exact Hs | rewrite <- E1; exact Hn]. }
  split; [rewrite set_res_owner; exact NO|].
  split.
  { intros s' g Hs' Hg. apply SP in Hs'. destruct Hs' as [[Hs' Hne]|Hs'].
    - destruct (RC s' g Hs' Hg) as [H1 H2]. split; [exact H1|].
      intros a x Ha. apply Hcur, H2, Ha.
    - subst s'. cbn [new s_res] in Hg. inversion Hg; subst g. rewrite Hnewid.
      split; [exists la; split; assumption|].
      intros a x Ha. destruct (N.eq_dec a (own_id sl)) as [E|E].
      + subst a. assert (x = la) by congruence. subst x.
        exists new. split; [exact Hnew|]. split; [exact Hnewid|].
        unfold own_arena. cbn [new s_res]. rewrite Hnewid. exact Hla.
      + apply Hcur. apply Hoth; assumption. }
  split; [|split; [exact Hnew | exact Hkeep]].
  split.
  - intros s' l k Hs' Hown. destruct (set_res_shape _ _ _ _ Hs') as (s & Hs & E1 & _).
    destruct (LP1 s l k Hs) as (t & Ht & Hto); [congruence|].
    assert (Hin : In (OLib l) (map s_owner (set_res ss o f))).
    { rewrite set_res_owner. rewrite <- Hto. apply in_map, Ht. }
    apply in_map_iff in Hin. destruct Hin as (t' & Et' & Ht'). exists t'. split; assumption.
  - intros s' l Hs' Hown. destruct (set_res_shape _ _ _ _ Hs') as (s & Hs & E1 & _ & [E3|E3]).
    + rewrite E3. apply (LP2 s l Hs). congruence.
    + rewrite E3. discriminate.
Qed.

(* ---------------------------------------------------------------------------------------------- *)
(* analyze_unit, run_steps                                                                        *)
(* ---------------------------------------------------------------------------------------------- *)
Lemma src_arena_cur : forall r s f,
  coh (r_slots r) (r_next_id r) (r_std r) -> src_arena r s = Some f ->
  forall a x, fa_find f a = Some x -> cur (r_slots r) a x.
Proof.
  intros r s f (ND & B & NO & RC & SC & LP) H a x Ha. destruct s as [|o]; cbn [src_arena] in H.
  - inversion H; subst f. unfold std_ok in SC. destruct (r_std r) as [f0|].
    + destruct SC as (s & Hs & _ & Hr). exact (proj2 (RC s f0 Hs Hr) a x Ha).
    + cbn [fa_find] in Ha. discriminate.
  - destruct (find_slot (r_slots r) o) as [sl|] eqn:E; [|discriminate].
    destruct (find_slot_In _ _ _ E) as [Hs _]. exact (proj2 (RC sl f Hs H) a x Ha).
Qed.

Lemma link_srcs_cur : forall r, coh (r_slots r) (r_next_id r) (r_std r) ->
  forall srcs acc refs, link_srcs r acc srcs = Some refs ->
  (forall a x, fa_find acc a = Some x -> cur (r_slots r) a x) ->
  forall a x, fa_find refs a = Some x -> cur (r_slots r) a x.
Proof.
  intros r C. induction srcs as [|s t IH]; intros acc refs H Hacc; cbn [link_srcs] in H.
  - inversion H; subst; exact Hacc.
  - destruct (src_arena r s) as [f|] eqn:E; [|discriminate]. apply (IH _ _ H).
    intros a x Ha. rewrite fa_find_link in Ha. destruct (fa_find acc a) as [y|] eqn:Ea.
    + inversion Ha; subst. apply Hacc, Ea.
    + exact (src_arena_cur r s f C E a x Ha).
Qed.

Lemma analyze_unit_coh : forall r o srcs items r',
  coh (r_slots r) (r_next_id r) (r_std r) -> analyze_unit r o srcs items = Some r' ->
  coh (r_slots r') (r_next_id r') (r_std r').
Proof.
  intros r o srcs items r' C H. unfold analyze_unit in H.
  destruct (find_slot (r_slots r) o) as [sl|] eqn:EF; [|discriminate].
  destruct (s_res sl) as [f0|] eqn:ER; [discriminate|].
  destruct (owner_eqb o std_unit) eqn:EO; [discriminate|].
  destruct (link_srcs r [] srcs) as [refs|] eqn:EL; [|discriminate].
  inversion H; subst r'; clear H. cbn [r_slots r_next_id r_std].
  assert (Hrefs : forall a x, fa_find refs a = Some x -> cur (r_slots r) a x).
  { apply (link_srcs_cur r C srcs [] refs EL). intros a x Ha. cbn [fa_find] in Ha. discriminate. }
  destruct C as (ND & B & NO & RC & SC & LP).
  destruct (find_slot_In _ _ _ EF) as [Hsl Ho].
  assert (Hid : own_id sl = s_aid sl).
  { apply own_id_nonstd. rewrite Ho. apply owner_eqb_neq, EO. }
  set (la := mkLA (s_aid sl) (r_next_ver r) items).
  destruct (set_res_coh (r_slots r) (r_next_id r) o (finalize refs la) sl ND B NO RC LP Hsl Ho ER)
    as (A1 & A2 & A3 & A4 & A5 & A6 & A7).
  - exists la. unfold finalize. rewrite fa_find_insert, Hid. cbn [la_id la]. rewrite N.eqb_refl.
    split; reflexivity.
  - intros a x Ha Hne. unfold finalize in Ha. rewrite fa_find_insert in Ha. cbn [la_id la] in Ha.
    destruct (s_aid sl =? a) eqn:E.
    + apply N.eqb_eq in E. congruence.
    + apply Hrefs, Ha.
  - unfold coh. split; [exact A1|]. split; [exact A2|]. split; [exact A3|]. split; [exact A4|].
    split; [|exact A5].
    unfold std_ok in *. destruct (r_std r) as [g|]; [|exact I].
    destruct SC as (s & Hs & H1 & H2). exists s. split; [|split; assumption].
    apply A7; [exact Hs|]. rewrite H1. intros E. rewrite <- E, owner_eqb_refl in EO. discriminate.
Qed.

Lemma run_steps_coh : forall sched r r',
  coh (r_slots r) (r_next_id r) (r_std r) -> run_steps r sched = Some r' ->
  coh (r_slots r') (r_next_id r') (r_std r').
Proof.
  induction sched as [|[[o srcs] items] t IH]; intros r r' C H; cbn [run_steps run_step] in H.
  - inversion H; subst; exact C.
  - destruct (analyze_unit r o srcs items) as [r1|] eqn:E; [|discriminate].
    apply (IH r1 r'); [|exact H]. exact (analyze_unit_coh r o srcs items r1 C E).
Qed.

(* ---------------------------------------------------------------------------------------------- *)
(* analyze_standard                                                                               *)
(* ---------------------------------------------------------------------------------------------- *)
(* the state after the edits and the reset: the cached standard arena may be stale, but then the standard unit
   is waiting to be analysed *)
Definition pre (ss : list slot) (n : N) (std : option final_arena) : Prop :=
  NoDup (map own_id ss) /\ bounds ss n /\ NoDup (map s_owner ss) /\ res_cur ss /\
  (std = None \/ (exists s, In s ss /\ s_owner s = std_unit /\ s_res s = None) \/ std_ok ss std) /\
  libs_ok ss.

Lemma pre_noop : forall ss n std,
  pre ss n std ->
  ~ (exists lib sl libf, find_slot ss (OLib std_lib) = Some lib /\ find_slot ss std_unit = Some sl /\
                          s_res sl = None /\ s_res lib = Some libf) ->
  coh ss n std.
Proof.
  intros ss n std (ND & B & NO & RC & PS & LP) Hno.
  unfold coh. split; [exact ND|]. split; [exact B|]. split; [exact NO|]. split; [exact RC|].
  split; [|exact LP].
  destruct PS as [PS|[PS|PS]]; [subst std; exact I | | exact PS].
  exfalso. apply Hno. destruct PS as (s & Hs & Ho & Hr).
  destruct LP as [LP1 LP2].
  destruct (LP1 s 0 0 Hs Ho) as (t & Ht & Hto).
  pose proof (LP2 t 0 Ht Hto) as Hnn.
  destruct (s_res t) as [libf|] eqn:Et; [|congruence].
  exists t, s, libf.
  split; [apply find_slot_unique; assumption|].
  split; [apply find_slot_unique; assumption|].
  split; assumption.
Qed.

Lemma analyze_standard_coh : forall r items,
  pre (r_slots r) (r_next_id r) (r_std r) ->
  coh (r_slots (analyze_standard r items)) (r_next_id (analyze_standard r items)) (r_std (analyze_standard r items)).
Proof.
  intros r items P. unfold analyze_standard.
  destruct (find_slot (r_slots r) (OLib std_lib)) as [lib|] eqn:EL;
    [|apply pre_noop; [exact P | intros (a & b & c & H1 & H2 & H3 & H4); congruence]].
  destruct (find_slot (r_slots r) std_unit) as [sl|] eqn:ES;
    [|apply pre_noop; [exact P | intros (a & b & c & H1 & H2 & H3 & H4); congruence]].
  destruct (s_res sl) as [f0|] eqn:ER;
    [apply pre_noop; [exact P | intros (a & b & c & H1 & H2 & H3 & H4); congruence]|].
  destruct (s_res lib) as [libf|] eqn:ELR;
    [|apply pre_noop; [exact P | intros (a & b & c & H1 & H2 & H3 & H4); congruence]].
  cbn [r_slots r_next_id r_std].
  destruct P as (ND & B & NO & RC & _ & LP).
  destruct (find_slot_In _ _ _ ES) as [Hsl Ho].
  destruct (find_slot_In _ _ _ EL) as [Hlib Hlo].
  assert (Hid : own_id sl = 0) by (apply own_id_std, Ho).
  set (la := mkLA 0 (r_next_ver r) items).
  destruct (set_res_coh (r_slots r) (r_next_id r) std_unit (finalize (link [] libf) la) sl ND B NO RC LP Hsl Ho ER)
    as (A1 & A2 & A3 & A4 & A5 & A6 & A7).
  - exists la. unfold finalize. rewrite fa_find_insert, Hid. cbn [la_id la]. rewrite N.eqb_refl.
    split; reflexivity.
  - intros a x Ha Hne. unfold finalize in Ha. rewrite fa_find_insert in Ha. cbn [la_id la] in Ha.
    destruct (0 =? a) eqn:E.
    + apply N.eqb_eq in E. congruence.
    + rewrite fa_find_link in Ha. cbn [fa_find] in Ha. exact (proj2 (RC lib libf Hlib ELR) a x Ha).
  - unfold coh. split; [exact A1|]. split; [exact A2|]. split; [exact A3|]. split; [exact A4|].
    split; [|exact A5].
    unfold std_ok. eexists. split; [exact A6|]. split; reflexivity.
Qed.

(* ---------------------------------------------------------------------------------------------- *)
(* The edits: remove_unit, add_unit, reset                                                        *)
(* ---------------------------------------------------------------------------------------------- *)
Lemma remove_slot_In : forall ss o s, In s (remove_slot ss o) <-> In s ss /\ s_owner s <> o.
Proof.
  induction ss as [|h t IH]; intros o s; cbn [remove_slot].
  - split; [intros [] | intros [[] _]].
  - destruct (owner_eqb (s_owner h) o) eqn:E.
    + apply owner_eqb_eq in E. rewrite IH. split.
      * intros [H1 H2]. split; [right; exact H1 | exact H2].
      * intros [[H1|H1] H2]; [subst; contradiction | split; assumption].
    + apply owner_eqb_neq in E. cbn [In]. rewrite IH. split.
      * intros [H|[H1 H2]]; [subst; split; [left; reflexivity | exact E] | split; [right; exact H1 | exact H2]].
      * intros [[H1|H1] H2]; [left; exact H1 | right; split; assumption].
Qed.

Lemma remove_slot_NoDup : forall {B} (g : slot -> B) ss o,
  NoDup (map g ss) -> NoDup (map g (remove_slot ss o)).
Proof.
  intros B g; induction ss as [|h t IH]; intros o ND; cbn [remove_slot map]; [constructor|].
  cbn [map] in ND. inversion ND as [|? ? Hn ND']; subst.
  destruct (owner_eqb (s_owner h) o); [apply IH, ND'|].
  cbn [map]. constructor; [|apply IH, ND'].
  intros Hin. apply Hn. apply in_map_iff in Hin. destruct Hin as (u & E & Hu).
  apply remove_slot_In in Hu. rewrite <- E. apply in_map, (proj1 Hu).
Qed.

Definition I3 (r : root) : Prop :=
  NoDup (map own_id (r_slots r)) /\ bounds (r_slots r) (r_next_id r) /\ NoDup (map s_owner (r_slots r)).

Lemma remove_unit_I3 : forall r o, I3 r -> I3 (remove_unit r o).
Proof.
  intros r o (ND & (B1 & B2 & B3 & B4) & NO). unfold I3, remove_unit; cbn [r_slots r_next_id].
  split; [apply remove_slot_NoDup, ND|]. split; [|apply remove_slot_NoDup, NO].
  unfold bounds. split; [|split; [|split; [|exact B4]]].
  - intros s Hs. apply remove_slot_In in Hs. apply B1, Hs.
  - intros s Hs. apply remove_slot_In in Hs. apply B2, Hs.
  - intros s Hs. apply remove_slot_In in Hs. apply B3, Hs.
Qed.

Lemma add_unit_I3 : forall r o, I3 r -> I3 (add_unit r o).
Proof.
  intros r o (ND & (B1 & B2 & B3 & B4) & NO). unfold I3, add_unit; cbn [r_slots r_next_id].
  set (new := mkSlot o (r_next_id r) None).
  assert (Hnid : own_id new = if owner_eqb o std_unit then 0 else r_next_id r) by reflexivity.
  split; [|split].
  - rewrite map_app. cbn [map]. apply NoDup_snoc; [apply remove_slot_NoDup, ND|].
    intros H. apply in_map_iff in H. destruct H as (u & E & Hu).
    apply remove_slot_In in Hu. destruct Hu as [Hu Hne]. rewrite Hnid in E.
    destruct (owner_eqb o std_unit) eqn:EO.
    + apply owner_eqb_eq in EO. subst o. rewrite (own_id_nonstd u Hne) in E.
      specialize (B3 u Hu (proj2 (owner_eqb_neq _ _) Hne)). lia.
    + specialize (B1 u Hu). lia.
  - unfold bounds. split; [|split; [|split; [|lia]]].
    + intros s Hs. apply in_app_or in Hs. destruct Hs as [Hs|[Hs|[]]].
      * apply remove_slot_In in Hs. specialize (B1 s (proj1 Hs)). lia.
      * subst s. rewrite Hnid. destruct (owner_eqb o std_unit); lia.
    + intros s Hs. apply in_app_or in Hs. destruct Hs as [Hs|[Hs|[]]].
      * apply remove_slot_In in Hs. specialize (B2 s (proj1 Hs)). lia.
      * subst s. cbn [new s_aid]. lia.
    + intros s Hs Hn. apply in_app_or in Hs. destruct Hs as [Hs|[Hs|[]]].
      * apply remove_slot_In in Hs. apply B3; [exact (proj1 Hs) | exact Hn].
      * subst s. cbn [new s_aid]. lia.
  - rewrite map_app. cbn [map]. apply NoDup_snoc; [apply remove_slot_NoDup, NO|].
    intros H. apply in_map_iff in H. destruct H as (u & E & Hu).
    apply remove_slot_In in Hu. destruct Hu as [_ Hne]. apply Hne. exact E.
Qed.

Lemma rem_fold_spec : forall removed r s,
  In s (r_slots (fold_left remove_unit removed r)) <-> In s (r_slots r) /\ ~ In (s_owner s) removed.
Proof.
  induction removed as [|o t IH]; intros r s; cbn [fold_left].
  - split; [intros H; split; [exact H | intros []] | intros [H _]; exact H].
  - rewrite IH. change (r_slots (remove_unit r o)) with (remove_slot (r_slots r) o).
    rewrite remove_slot_In. cbn [In]. split.
    + intros [[H1 H2] H3]. split; [exact H1|]. intros [H|H]; [apply H2; symmetry; exact H | exact (H3 H)].
    + intros [H1 H2]. split; [split; [exact H1|] |].
      * intros E. apply H2. left. symmetry; exact E.
      * intros H. apply H2. right; exact H.
Qed.

Lemma rem_fold_std : forall removed r, r_std (fold_left remove_unit removed r) = r_std r.
Proof. induction removed as [|o t IH]; intros r; cbn [fold_left]; [reflexivity | rewrite IH; reflexivity]. Qed.

Lemma add_fold_std : forall added r, r_std (fold_left add_unit added r) = r_std r.
Proof. induction added as [|o t IH]; intros r; cbn [fold_left]; [reflexivity | rewrite IH; reflexivity]. Qed.

Lemma add_fold_spec1 : forall added r s, In s (r_slots (fold_left add_unit added r)) ->
  (In s (r_slots r) /\ ~ In (s_owner s) added) \/ (s_res s = None /\ In (s_owner s) added).
Proof.
  induction added as [|o t IH]; intros r s H; cbn [fold_left] in H.
  - left. split; [exact H | intros []].
  - apply IH in H. destruct H as [[H Hn]|[H1 H2]].
    + change (r_slots (add_unit r o)) with (remove_slot (r_slots r) o ++ [mkSlot o (r_next_id r) None]) in H.
      apply in_app_or in H. destruct H as [H|[H|[]]].
      * apply remove_slot_In in H. destruct H as [H Hne]. left. split; [exact H|].
        intros [E|E]; [apply Hne; symmetry; exact E | exact (Hn E)].
      * subst s. right. cbn [s_res s_owner]. split; [reflexivity | left; reflexivity].
    + right. split; [exact H1 | right; exact H2].
Qed.

Lemma add_fold_spec2 : forall added r s,
  In s (r_slots r) -> ~ In (s_owner s) added -> In s (r_slots (fold_left add_unit added r)).
Proof.
  induction added as [|o t IH]; intros r s H Hn; cbn [fold_left]; [exact H|].
  apply IH.
  - change (r_slots (add_unit r o)) with (remove_slot (r_slots r) o ++ [mkSlot o (r_next_id r) None]).
    apply in_or_app. left. apply remove_slot_In. split; [exact H|].
    intros E; apply Hn; left; symmetry; exact E.
  - intros E; apply Hn; right; exact E.
Qed.

Lemma add_fold_spec3 : forall added r o, In o added ->
  exists s, In s (r_slots (fold_left add_unit added r)) /\ s_owner s = o.
Proof.
  induction added as [|o0 t IH]; intros r o H; [destruct H|]. cbn [fold_left].
  destruct (in_dec owner_eq_dec o t) as [Hin|Hnin]; [apply IH, Hin|].
  destruct H as [H|H]; [subst o0|contradiction].
  exists (mkSlot o (r_next_id r) None). split; [|reflexivity].
  apply add_fold_spec2; [|exact Hnin].
  change (r_slots (add_unit r o)) with (remove_slot (r_slots r) o ++ [mkSlot o (r_next_id r) None]).
  apply in_or_app; right; left; reflexivity.
Qed.

Lemma reset_slot_cases : forall d s,
  (reset_slot d s = s /\ (is_unit (s_owner s) = false \/ ~ In (s_owner s) d)) \/
  (reset_slot d s = mkSlot (s_owner s) (s_aid s) None /\ In (s_owner s) d).
Proof.
  intros d s. unfold reset_slot. destruct (s_owner s) as [l|l k] eqn:E.
  - left. split; [reflexivity | left; reflexivity].
  - destruct (mem_owner (OUnit l k) d) eqn:M.
    + right. split; [reflexivity | apply mem_owner_In, M].
    + left. split; [reflexivity | right; apply mem_owner_nIn, M].
Qed.

Lemma reset_slot_owner : forall d s, s_owner (reset_slot d s) = s_owner s.
Proof. intros d s. destruct (reset_slot_cases d s) as [[E _]|[E _]]; rewrite E; reflexivity. Qed.

Lemma reset_slot_aid : forall d s, s_aid (reset_slot d s) = s_aid s.
Proof. intros d s. destruct (reset_slot_cases d s) as [[E _]|[E _]]; rewrite E; reflexivity. Qed.

Lemma reset_slot_own_id : forall d s, own_id (reset_slot d s) = own_id s.
Proof. intros d s. apply own_id_ext; [apply reset_slot_owner | apply reset_slot_aid]. Qed.

Lemma reset_slot_id : forall d s, ~ In (s_owner s) d -> reset_slot d s = s.
Proof.
  intros d s H. destruct (reset_slot_cases d s) as [[E _]|[_ E]]; [exact E | contradiction].
Qed.

(* after the edits and the reset of a closed set, everything except the standard cache is coherent *)
Lemma edits_pre : forall r removed added d,
  coherent r -> edits_wf r removed added d -> uses_closed r (d ++ removed ++ added) -> std_kept r removed added ->
  pre (r_slots (reset (apply_edits r removed added) d))
      (r_next_id (reset (apply_edits r removed added) d))
      (r_std (reset (apply_edits r removed added) d)).
Proof.
  intros r removed added d C (W1 & W2 & W3 & W4) UC SK.
  apply coherent_coh in C. destruct C as (ND & B & NO & RC & SC & LP1 & LP2).
  unfold apply_edits.
  set (r1 := fold_left remove_unit removed r). set (rE := fold_left add_unit added r1).
  assert (I1 : I3 r1).
  { apply fold_left_inv; [apply remove_unit_I3 | split; [exact ND | split; [exact B | exact NO]]]. }
  assert (IE : I3 rE) by (apply fold_left_inv; [apply add_unit_I3 | exact I1]).
  assert (FE1 : forall s, In s (r_slots rE) ->
            (In s (r_slots r) /\ ~ In (s_owner s) removed /\ ~ In (s_owner s) added) \/
            (s_res s = None /\ In (s_owner s) added)).
  { intros s Hs. apply add_fold_spec1 in Hs. destruct Hs as [[Hs Hn]|Hs]; [left|right; exact Hs].
    apply rem_fold_spec in Hs. destruct Hs as [Hs Hr]. split; [exact Hs | split; assumption]. }
  assert (FE2 : forall s, In s (r_slots r) -> ~ In (s_owner s) removed -> ~ In (s_owner s) added ->
            In s (r_slots rE)).
  { intros s Hs Hr Ha. apply add_fold_spec2; [|exact Ha]. apply rem_fold_spec. split; assumption. }
  assert (FE3 : forall o, In o added -> exists s, In s (r_slots rE) /\ s_owner s = o)
    by (intros o Ho; apply add_fold_spec3, Ho).
  assert (Estd : r_std rE = r_std r).
  { unfold rE. rewrite add_fold_std. unfold r1. apply rem_fold_std. }
  cbn [reset r_slots r_next_id r_std].
  set (ss2 := map (reset_slot d) (r_slots rE)).
  assert (Dn : forall o, ~ In o (d ++ removed ++ added) <-> ~ In o d /\ ~ In o removed /\ ~ In o added).
  { intros o. rewrite !in_app_iff. tauto. }
  assert (Gd : forall o, is_unit o = false -> ~ In o d).
  { intros o Hu Hin. rewrite (forallb_is_unit d o W3 Hin) in Hu. discriminate. }
  assert (Gr : forall o, is_unit o = false -> ~ In o removed).
  { intros o Hu Hin. rewrite (forallb_is_unit removed o W1 Hin) in Hu. discriminate. }
  assert (Ga : forall o, is_unit o = false -> ~ In o added).
  { intros o Hu Hin. rewrite (forallb_is_unit added o W2 Hin) in Hu. discriminate. }
  assert (G1 : forall s', In s' ss2 ->
            s_res s' = None \/ (In s' (r_slots r) /\ ~ In (s_owner s') (d ++ removed ++ added))).
  { intros s' Hs'. apply in_map_iff in Hs'. destruct Hs' as (s & E & Hs). subst s'.
    destruct (reset_slot_cases d s) as [[E Hc]|[E _]]; rewrite E; [|left; reflexivity].
    destruct (FE1 s Hs) as [(H0 & Hr & Ha)|[Hn _]]; [|left; exact Hn].
    right. split; [exact H0|]. apply Dn. split; [|split; assumption].
    destruct Hc as [Hc|Hc]; [apply Gd, Hc | exact Hc]. }
  assert (G2 : forall s, In s (r_slots r) -> ~ In (s_owner s) (d ++ removed ++ added) -> In s ss2).
  { intros s Hs Hn. apply Dn in Hn. destruct Hn as (Hd & Hr & Ha). apply in_map_iff.
    exists s. split; [apply reset_slot_id, Hd | apply FE2; assumption]. }
  assert (G3 : forall s, In s (r_slots rE) -> exists s', In s' ss2 /\ s_owner s' = s_owner s).
  { intros s Hs. exists (reset_slot d s). split; [apply in_map, Hs | apply reset_slot_owner]. }
  assert (Eown : map own_id ss2 = map own_id (r_slots rE)).
  { unfold ss2. rewrite map_map. apply map_ext. apply reset_slot_own_id. }
  assert (Eowner : map s_owner ss2 = map s_owner (r_slots rE)).
  { unfold ss2. rewrite map_map. apply map_ext. apply reset_slot_owner. }
  destruct IE as (NDE & (BE1 & BE2 & BE3 & BE4) & NOE).
  unfold pre. split; [rewrite Eown; exact NDE|]. split.
  { unfold bounds. split; [|split; [|split; [|exact BE4]]].
    - intros s' Hs'. apply in_map_iff in Hs'. destruct Hs' as (s & E & Hs). subst s'.
      rewrite reset_slot_own_id. apply BE1, Hs.
    - intros s' Hs'. apply in_map_iff in Hs'. destruct Hs' as (s & E & Hs). subst s'.
      rewrite reset_slot_aid. apply BE2, Hs.
    - intros s' Hs' Hn. apply in_map_iff in Hs'. destruct Hs' as (s & E & Hs). subst s'.
      rewrite reset_slot_aid. rewrite reset_slot_owner in Hn. apply BE3; assumption. }
  split; [rewrite Eowner; exact NOE|].
  split.
  { intros s' f Hs' Hf. destruct (G1 s' Hs') as [Hn|[H0 HD]]; [congruence|].
    destruct (RC s' f H0 Hf) as [R1 R2]. split; [exact R1|].
    intros a la Ha. destruct (R2 a la Ha) as (t & Ht & T1 & T2).
    exists t. split; [|split; assumption].
    apply G2; [exact Ht|]. apply mem_owner_nIn.
    apply (UC s' f t H0 Hf); [apply mem_owner_nIn, HD | exact Ht |].
    unfold mentions. rewrite T1, Ha. reflexivity. }
  split.
  { rewrite Estd. unfold std_ok in SC. destruct (r_std r) as [f0|] eqn:ES; [|left; reflexivity]. right.
    destruct SC as (s0 & Hs0 & Ho0 & Hr0).
    destruct (in_dec owner_eq_dec std_unit (d ++ removed ++ added)) as [HD|HD].
    - left.
      assert (Hex : exists s', In s' ss2 /\ s_owner s' = std_unit).
      { destruct (in_dec owner_eq_dec std_unit added) as [Ha|Ha].
        - destruct (FE3 _ Ha) as (s & Hs & Ho). destruct (G3 s Hs) as (s' & Hs' & Ho').
          exists s'. split; [exact Hs' | congruence].
        - assert (Hr : ~ In std_unit removed).
          { destruct SK as [SK|[SK|SK]];
              [congruence | apply mem_owner_nIn, SK | apply mem_owner_In in SK; contradiction]. }
          destruct (G3 s0) as (s' & Hs' & Ho').
          { apply FE2; [exact Hs0 | rewrite Ho0; exact Hr | rewrite Ho0; exact Ha]. }
          exists s'. split; [exact Hs' | congruence]. }
      destruct Hex as (s' & Hs' & Ho'). exists s'. split; [exact Hs'|]. split; [exact Ho'|].
      destruct (G1 s' Hs') as [Hn|[_ HD']]; [exact Hn|]. rewrite Ho' in HD'. contradiction.
    - right. unfold std_ok. exists s0. split; [apply G2; [exact Hs0 | rewrite Ho0; exact HD] | split; assumption]. }
  split.
  - intros s' l k Hs' Ho'. apply in_map_iff in Hs'. destruct Hs' as (s & E & Hs). subst s'.
    rewrite reset_slot_owner in Ho'.
    assert (Hlib : exists t, In t (r_slots r) /\ s_owner t = OLib l).
    { destruct (FE1 s Hs) as [(H0 & _)|[_ Ha]].
      - exact (LP1 s l k H0 Ho').
      - rewrite Ho' in Ha. specialize (W4 l k Ha).
        destruct (find_slot (r_slots r) (OLib l)) as [t|] eqn:EF; [|congruence].
        exists t. apply find_slot_In, EF. }
    destruct Hlib as (t & Ht & Hto). exists t. split; [|exact Hto].
    apply G2; [exact Ht|]. apply Dn. rewrite Hto.
    split; [apply Gd; reflexivity | split; [apply Gr; reflexivity | apply Ga; reflexivity]].
  - intros s' l Hs' Ho'. apply in_map_iff in Hs'. destruct Hs' as (s & E & Hs). subst s'.
    rewrite reset_slot_owner in Ho'.
    destruct (reset_slot_cases d s) as [[E _]|[_ Hin]].
    + rewrite E. destruct (FE1 s Hs) as [(H0 & _)|[_ Ha]].
      * exact (LP2 s l H0 Ho').
      * exfalso. rewrite Ho' in Ha. exact (Ga (OLib l) eq_refl Ha).
    + exfalso. rewrite Ho' in Hin. exact (Gd (OLib l) eq_refl Hin).
Qed.

(* ---------------------------------------------------------------------------------------------- *)
(* The statements                                                                                 *)
(* ---------------------------------------------------------------------------------------------- *)
Lemma In_results : forall ss f, In f (results ss) <-> exists s, In s ss /\ s_res s = Some f.
Proof.
  induction ss as [|h t IH]; intros f; cbn [results].
  - split; [intros [] | intros (s & [] & _)].
  - destruct (s_res h) as [g|] eqn:E.
    + cbn [In]. rewrite IH. split.
      * intros [H|(s & Hs & Hr)]; [subst; exists h; split; [left; reflexivity | exact E]|].
        exists s. split; [right; exact Hs | exact Hr].
      * intros (s & [Hs|Hs] & Hr); [left; congruence | right; exists s; split; assumption].
    + rewrite IH. split.
      * intros (s & Hs & Hr). exists s. split; [right; exact Hs | exact Hr].
      * intros (s & [Hs|Hs] & Hr); [congruence | exists s; split; assumption].
Qed.

Lemma In_rebuild_sources : forall r f, coherent r ->
  (In f (rebuild_sources r) <-> exists s, In s (r_slots r) /\ s_res s = Some f).
Proof.
  intros r f C. unfold rebuild_sources. rewrite in_app_iff, In_results.
  split; [|intros H; right; exact H].
  intros [H|H]; [|exact H].
  destruct C as (_ & _ & _ & SC & _). unfold std_cache_current in SC.
  destruct (r_std r) as [g|]; [|destruct H].
  destruct H as [H|[]]. subst g. destruct SC as (s & Hs & _ & Hr). exists s. split; assumption.
Qed.

Lemma coherent_all_agree : forall r, coherent r -> all_agree (rebuild_sources r).
Proof.
  intros r C f g Hf Hg a x y Hx Hy.
  apply (In_rebuild_sources r f C) in Hf. apply (In_rebuild_sources r g C) in Hg.
  destruct Hf as (s & Hs & Hsr). destruct Hg as (t & Ht & Htr).
  destruct C as (_ & _ & RC & _).
  pose proof (proj2 (RC s f Hs Hsr) a x Hx) as H1.
  pose proof (proj2 (RC t g Ht Htr) a y Hy) as H2. congruence.
Qed.

Lemma coherent_rebuild_with : forall r fs, coherent r -> coherent (rebuild_with r fs).
Proof. intros r fs C. apply coherent_coh in C. apply coherent_coh. exact C. Qed.

Lemma analyze_inner_coherent : forall r removed added d std_items sched r1,
  coherent r -> edits_wf r removed added d -> uses_closed r (d ++ removed ++ added) -> std_kept r removed added ->
  run_steps (analyze_standard (reset (apply_edits r removed added) d) std_items) sched = Some r1 ->
  coherent r1.
Proof.
  intros r removed added d std_items sched r1 C WF UC SK E.
  apply coherent_coh. refine (run_steps_coh sched _ r1 _ E).
  apply analyze_standard_coh. apply edits_pre; assumption.
Qed.

Lemma analyze_coherent : forall r removed added d std_items sched r',
  coherent r -> edits_wf r removed added d -> uses_closed r (d ++ removed ++ added) -> std_kept r removed added ->
  analyze r removed added d std_items sched = Some r' -> coherent r'.
Proof.
  intros r removed added d std_items sched r' C WF UC SK H. unfold analyze in H.
  destruct (run_steps (analyze_standard (reset (apply_edits r removed added) d) std_items) sched)
    as [r1|] eqn:E; [|discriminate].
  inversion H; subst r'; clear H. unfold rebuild. apply coherent_rebuild_with.
  exact (analyze_inner_coherent r removed added d std_items sched r1 C WF UC SK E).
Qed.

Lemma rebuild_closed : forall r, coherent r ->
  forall s f, In s (r_slots r) -> s_res s = Some f ->
  forall a la, fa_find f a = Some la ->
    fa_find (r_arenas (rebuild r)) a = Some la /\ current (rebuild r) a = Some la.
Proof.
  intros r C s f Hs Hf a la Ha. split.
  - cbn [rebuild rebuild_with r_arenas].
    apply (link_all_agree _ f); [apply coherent_all_agree, C | | exact Ha].
    apply (In_rebuild_sources r f C). exists s. split; assumption.
  - destruct C as (_ & _ & RC & _). exact (proj2 (RC s f Hs Hf) a la Ha).
Qed.

(* the main statement *)
Lemma arena_closed : forall r removed added d std_items sched r',
  coherent r -> edits_wf r removed added d -> uses_closed r (d ++ removed ++ added) -> std_kept r removed added ->
  analyze r removed added d std_items sched = Some r' ->
  forall s f, In s (r_slots r') -> s_res s = Some f ->
  forall a la, fa_find f a = Some la ->
    fa_find (r_arenas r') a = Some la /\ current r' a = Some la.
Proof.
  intros r removed added d std_items sched r' C WF UC SK H. unfold analyze in H.
  destruct (run_steps (analyze_standard (reset (apply_edits r removed added) d) std_items) sched)
    as [r1|] eqn:E; [|discriminate].
  inversion H; subst r'; clear H.
  pose proof (analyze_inner_coherent r removed added d std_items sched r1 C WF UC SK E) as C1.
  intros s f Hs Hf a la Ha. exact (rebuild_closed r1 C1 s f Hs Hf a la Ha).
Qed.

Lemma get_total_on_linked : forall r removed added d std_items sched r',
  coherent r -> edits_wf r removed added d -> uses_closed r (d ++ removed ++ added) -> std_kept r removed added ->
  analyze r removed added d std_items sched = Some r' ->
  forall s f e x, In s (r_slots r') -> s_res s = Some f -> fa_get f e = Some x ->
    fa_get (r_arenas r') e = Some x /\ fa_is_valid (r_arenas r') e = true.
Proof.
  intros r removed added d std_items sched r' C WF UC SK H s f e x Hs Hf Hg.
  assert (G : fa_get (r_arenas r') e = Some x).
  { unfold fa_get in *. destruct (fa_find f (fst e)) as [la|] eqn:E; [|discriminate].
    destruct (arena_closed r removed added d std_items sched r' C WF UC SK H s f Hs Hf (fst e) la E) as [H1 _].
    rewrite H1. exact Hg. }
  split; [exact G|]. apply fa_is_valid_get. rewrite G. discriminate.
Qed.

(* any link order / repetitions in the rebuild loop give the same root arena *)
Lemma rebuild_any_order : forall r fs, coherent r ->
  (forall f, In f fs <-> In f (rebuild_sources r)) ->
  forall a, fa_find (link_all fs) a = fa_find (link_all (rebuild_sources r)) a.
Proof.
  intros r fs C Heq a. pose proof (coherent_all_agree r C) as AG.
  destruct (fa_find (link_all fs) a) as [x|] eqn:E.
  - destruct (link_all_sound _ _ _ E) as (f & Hf & Hx). symmetry.
    apply (link_all_agree _ f); [exact AG | apply Heq, Hf | exact Hx].
  - destruct (fa_find (link_all (rebuild_sources r)) a) as [y|] eqn:E2; [|reflexivity].
    destruct (link_all_sound _ _ _ E2) as (f & Hf & Hy).
    rewrite fa_find_link_all in E. apply Heq in Hf.
    rewrite (first_find_none _ _ E f Hf) in Hy. discriminate.
Qed.

(* every arena the root knows after the rebuild is a current one (nothing stale survives) *)
Lemma root_arenas_current : forall r a la, coherent r ->
  fa_find (r_arenas (rebuild r)) a = Some la -> current r a = Some la.
Proof.
  intros r a la C H. cbn [rebuild rebuild_with r_arenas] in H.
  destruct (link_all_sound _ _ _ H) as (f & Hf & Hx).
  apply (In_rebuild_sources r f C) in Hf. destruct Hf as (s & Hs & Hr).
  destruct C as (_ & _ & RC & _). exact (proj2 (RC s f Hs Hr) a la Hx).
Qed.

(* the executable closure yields a set satisfying the closure hypothesis *)
Lemma users_step_incl : forall r d, incl d (users_step r d).
Proof. intros r d o Ho. unfold users_step. apply in_or_app. left; exact Ho. Qed.

Lemma users_step_fix_closed : forall r d,
  length (users_step r d) = length d -> uses_closed r d.
Proof.
  intros r d HL. unfold users_step in HL. rewrite app_length, map_length in HL.
  match type of HL with (_ + length ?l = _)%nat => assert (HF : l = []) end.
  { match goal with |- ?l = [] => destruct l as [|x t] eqn:El; [reflexivity|] end.
    cbn [length] in HL. lia. }
  intros s f t Hs Hf Hm Ht Hment.
  pose proof (filter_nil _ _ HF s Hs) as Hp. cbv beta in Hp.
  rewrite Hm, Hf in Hp. cbn [negb andb] in Hp.
  destruct (mem_owner (s_owner t) d) eqn:Emt; [|reflexivity].
  exfalso. assert (Hex : existsb (fun t0 => mem_owner (s_owner t0) d && mentions f (own_id t0)) (r_slots r) = true).
  { apply existsb_exists. exists t. split; [exact Ht|]. rewrite Emt, Hment. reflexivity. }
  congruence.
Qed.

Lemma users_closure_closed : forall fuel r d d',
  users_closure fuel r d = Some d' -> incl d d' /\ uses_closed r d'.
Proof.
  induction fuel as [|n IH]; intros r d d' H; cbn [users_closure] in H; [discriminate|].
  destruct (Nat.eqb (length (users_step r d)) (length d)) eqn:E.
  - inversion H; subst d'. apply PeanoNat.Nat.eqb_eq in E. split; [apply incl_refl | apply users_step_fix_closed, E].
  - destruct (IH r _ d' H) as [H1 H2]. split; [|exact H2].
    eapply incl_tran; [apply users_step_incl | exact H1].
Qed.

(* reachable states *)
Inductive reachable : root -> Prop :=
| R_empty : reachable empty_root
| R_lib : forall r l x, reachable r -> reachable (ensure_library r l x)
| R_analyze : forall r removed added d std_items sched r',
    reachable r -> edits_wf r removed added d -> uses_closed r (d ++ removed ++ added) -> std_kept r removed added ->
    analyze r removed added d std_items sched = Some r' -> reachable r'.

Lemma reachable_coherent : forall r, reachable r -> coherent r.
Proof.
  intros r H; induction H as [|r l x H IH|r removed added d std_items sched r' H IH WF UC SK HA].
  - apply coherent_empty.
  - apply coherent_ensure_library, IH.
  - exact (analyze_coherent r removed added d std_items sched r' IH WF UC SK HA).
Qed.
