(* Kernel/ConcBase.v — basic facts about the model Kernel/Conc.v: list update lemmas, the
   equivalence of the executable successor function with the inductive step relation, and
   the structural invariant of all reachable states (for the old and the repaired code). *)
From Coq Require Import List Arith Bool Lia Relations.
Import ListNotations.
From RH Require Import Kernel.Conc.

Lemma upd_length : forall A (l : list A) i x, length (upd l i x) = length l.
Proof.
  intros A l. induction l as [|y r IH]; intros [|i] x; cbn [upd length]; auto.
Qed.
Lemma nth_upd_eq : forall A (l : list A) i x d, i < length l -> nth i (upd l i x) d = x.
Proof.
  intros A l. induction l as [|y r IH]; intros [|i] x d H; cbn [upd length nth] in *; try lia; auto.
  apply IH. lia.
Qed.
Lemma nth_upd_neq : forall A (l : list A) i j x d, i <> j -> nth j (upd l i x) d = nth j l d.
Proof.
  intros A l. induction l as [|y r IH]; intros [|i] [|j] x d H; cbn [upd nth]; auto; try congruence.
Qed.
Lemma nth_error_upd_eq : forall A (l : list A) i x, i < length l -> nth_error (upd l i x) i = Some x.
Proof.
  intros A l. induction l as [|y r IH]; intros [|i] x H; cbn [upd length nth_error] in *; try lia; auto.
  apply IH. lia.
Qed.
Lemma nth_error_upd_neq : forall A (l : list A) i j x, i <> j -> nth_error (upd l i x) j = nth_error l j.
Proof.
  intros A l. induction l as [|y r IH]; intros [|i] [|j] x H; cbn [upd nth_error]; auto; try congruence.
Qed.
Lemma upd_ge : forall A (l : list A) i x, length l <= i -> upd l i x = l.
Proof.
  intros A l. induction l as [|y r IH]; intros [|i] x H; cbn [upd length] in *; auto; try lia.
  f_equal. apply IH. lia.
Qed.
Lemma mem_In : forall x l, mem x l = true <-> In x l.
Proof.
  intros x l. unfold mem. rewrite existsb_exists. split.
  - intros [y [Hy He]]. apply Nat.eqb_eq in He. subst. exact Hy.
  - intros H. exists x. split; [exact H | apply Nat.eqb_refl].
Qed.

(* users_of after `add_user us v user` *)
Lemma add_user_length : forall us v user, length (add_user us v user) = length us.
Proof.
  intros us v user. unfold add_user. destruct (mem user (nth v us [])); [reflexivity | apply upd_length].
Qed.
Lemma add_user_In : forall us v user w x, v < length us ->
  (In x (nth w (add_user us v user) []) <-> In x (nth w us []) \/ (w = v /\ x = user)).
Proof.
  intros us v user w x Hv. unfold add_user.
  destruct (mem user (nth v us [])) eqn:E.
  - split; [auto|]. intros [H|[-> ->]]; [exact H | apply mem_In; exact E].
  - destruct (Nat.eq_dec v w) as [<-|Hn].
    + rewrite nth_upd_eq by exact Hv. cbn [In]. split.
      * intros [H|H]; [right; auto | left; exact H].
      * intros [H|[_ H]]; [right; exact H | left; auto].
    + rewrite nth_upd_neq by exact Hn. split; [auto|].
      intros [H|[H _]]; [exact H | congruence].
Qed.

(* ---------------------------------------------------------------------------------- *)
(* succs <-> Step *)

Ltac single H := cbn [In] in H; destruct H as [H|[]]; subst.

Lemma step_thread_Step : forall deps cbo s t s',
  In s' (step_thread deps cbo s t) -> Step deps cbo s s'.
Proof.
  intros deps cbo s t s' H. unfold step_thread in H.
  destruct (nth_error (threads s) t) as [[job stack]|] eqn:Hth; [|contradiction].
  cbn [t_stack t_job] in H.
  destruct stack as [|fr rest].
  - destruct job as [|v sw|v sw].
    + apply in_map_iff in H. destruct H as [u [Hs Hu]]. subst s'.
      apply nodup_In in Hu. eapply SPick; eassumption.
    + destruct (lock_of s v) eqn:Hl; [single H | contradiction | single H].
      * eapply SJobReadVacant; eassumption.
      * eapply SJobReadDone; eassumption.
    + destruct (lock_of s v) eqn:Hl; [single H | contradiction | single H].
      * eapply SJobWriteVacant; eassumption.
      * eapply SJobWriteDone; eassumption.
  - destruct (f_want fr) as [|v sw|v sw] eqn:Hw.
    + destruct (cur_req deps fr) as [[v sw]|] eqn:Hc.
      * destruct (mem v (f_uses fr)) eqn:Hm.
        { single H. eapply SCacheHit; eassumption. }
        cbv zeta in H.
        destruct (closes_cycle (add_user (users s) v (f_unit fr)) (f_unit fr) v) eqn:Hcc.
        { destruct sw; single H.
          - eapply SRegisterCircSwallow; eassumption.
          - eapply SRegisterCircAbort; eassumption. }
        single H. eapply SRegisterOk; eassumption.
      * single H. eapply SFinish; eassumption.
    + destruct (lock_of s v) eqn:Hl; [single H | contradiction | single H].
      * eapply SReadVacant; eassumption.
      * eapply SReadDone; eassumption.
    + destruct (lock_of s v) eqn:Hl; [single H | contradiction | single H].
      * eapply SWriteVacant; eassumption.
      * eapply SWriteDone; eassumption.
Qed.

Lemma Step_step_thread : forall deps cbo s s',
  Step deps cbo s s' -> exists t, t < length (threads s) /\ In s' (step_thread deps cbo s t).
Proof.
  intros deps cbo s s' H.
  inversion H as
    [t u Hth Hu | t v sw Hth Hl | t v sw c Hth Hl | t v sw Hth Hl | t v sw c Hth Hl
    | t job fr rest v sw Hth Hw Hl | t job fr rest v sw c Hth Hw Hl
    | t job fr rest v sw Hth Hw Hl | t job fr rest v sw c Hth Hw Hl
    | t job fr rest Hth Hw Hc | t job fr rest v sw Hth Hw Hc Hm
    | t job fr rest v sw Hth Hw Hc Hm Hcc | t job fr rest v Hth Hw Hc Hm Hcc
    | t job fr rest v Hth Hw Hc Hm Hcc ]; subst;
    exists t; (split; [apply nth_error_Some; congruence|]);
    unfold step_thread; rewrite Hth; cbn [t_stack t_job];
    try rewrite Hw; try rewrite Hl; try rewrite Hc; try rewrite Hm; cbv zeta; try rewrite Hcc;
    try (left; reflexivity).
  apply in_map_iff. exists u. split; [reflexivity|]. apply nodup_In. exact Hu.
Qed.

Lemma succs_iff_Step : forall deps cbo s s', In s' (succs deps cbo s) <-> Step deps cbo s s'.
Proof.
  intros deps cbo s s'. unfold succs. rewrite in_flat_map. split.
  - intros [t [_ H]]. eapply step_thread_Step; exact H.
  - intros H. apply Step_step_thread in H. destruct H as [t [Ht H]].
    exists t. split; [apply in_seq; lia | exact H].
Qed.

Lemma reach_trans : forall deps cbo s0 s1 s2, reach deps cbo s0 s1 -> reach deps cbo s1 s2 -> reach deps cbo s0 s2.
Proof.
  intros deps cbo s0 s1 s2 H1 H2. induction H2 as [|s s' H2 IH Hs]; [exact H1|].
  eapply reach_step; eassumption.
Qed.
Lemma reach_in_reach : forall deps cbo s0 k s, reach_in deps cbo s0 k s -> reach deps cbo s0 s.
Proof.
  intros deps cbo s0 k s H. induction H as [|k s s' H IH Hs]; [apply reach_refl|].
  eapply reach_step; eassumption.
Qed.
Lemma reach_reach_in : forall deps cbo s0 s, reach deps cbo s0 s -> exists k, reach_in deps cbo s0 k s.
Proof.
  intros deps cbo s0 s H. induction H as [|s s' H [k IH] Hs].
  - exists 0. apply reach_in_0.
  - exists (S k). eapply reach_in_S; eassumption.
Qed.

(* structural invariant *)
Record base_inv (deps : list (list req)) (T : nat) (s : state) : Prop := {
  bi_locks : length (locks s) = length deps;
  bi_users : length (users s) = length deps;
  bi_threads : length (threads s) = T;
  bi_todo : forall u, In u (todo s) -> u < length deps;
  bi_job : forall t th v, nth_error (threads s) t = Some th ->
             want_target (t_job th) = Some v -> v < length deps;
  bi_frame_unit : forall t th fr, nth_error (threads s) t = Some th -> In fr (t_stack th) ->
             f_unit fr < length deps;
  (* a pending acquisition is the current request of the frame *)
  bi_want_req : forall t th fr v sw, nth_error (threads s) t = Some th -> In fr (t_stack th) ->
             (f_want fr = WRead v sw \/ f_want fr = WWrite v sw) -> cur_req deps fr = Some (v, sw);
  (* registered edges are requests of the static graph *)
  bi_users_dep : forall v u, In u (nth v (users s) []) -> dep_edge deps u v /\ u < length deps /\ v < length deps;
  (* lock ownership: a unit is write-locked by t exactly while a frame of t analyses it *)
  bi_frame_lock : forall t th fr, nth_error (threads s) t = Some th -> In fr (t_stack th) ->
             lock_of s (f_unit fr) = Writing t;
  bi_lock_frame : forall v t, v < length deps -> lock_of s v = Writing t ->
             exists th fr, nth_error (threads s) t = Some th /\ In fr (t_stack th) /\ f_unit fr = v;
  bi_nodup : forall t th, nth_error (threads s) t = Some th -> NoDup (map f_unit (t_stack th));
  (* a thread with frames is processing a par_iter item *)
  bi_job_stack : forall t th, nth_error (threads s) t = Some th -> t_stack th <> [] ->
             exists v sw, t_job th = WRead v sw
}.

Lemma base_inv_init : forall deps T td, todo_ok (length deps) td ->
  base_inv deps T (init_todo (length deps) T td).
Proof.
  intros deps T td Htd. unfold init_todo.
  assert (Hthr : forall t th, nth_error (repeat (mkThread WNone []) T) t = Some th -> th = mkThread WNone []).
  { intros t th H. apply nth_error_In in H. apply repeat_spec in H. exact H. }
  constructor; cbn [locks users threads todo].
  - apply repeat_length.
  - apply repeat_length.
  - apply repeat_length.
  - intros u Hu. apply Htd. exact Hu.
  - intros t th v H Hw. apply Hthr in H. subst th. discriminate Hw.
  - intros t th fr H Hin. apply Hthr in H. subst th. contradiction Hin.
  - intros t th fr v sw H Hin. apply Hthr in H. subst th. contradiction Hin.
  - intros v u H. rewrite nth_repeat in H. contradiction H.
  - intros t th fr H Hin. apply Hthr in H. subst th. contradiction Hin.
  - intros v t Hv H. unfold lock_of in H. cbn [locks] in H. rewrite nth_repeat in H. discriminate H.
  - intros t th H. apply Hthr in H. subst th. constructor.
  - intros t th H Hne. apply Hthr in H. subst th. contradiction Hne. reflexivity.
Qed.

(* ---------------------------------------------------------------------------------- *)
(* preservation of the invariant: the lock/stack part through an abstraction of a step
   (which units the stack of the moving thread analyses, how the lock vector changes) *)

Lemma nth_error_upd_inv : forall A (l : list A) i x j y,
  nth_error (upd l i x) j = Some y -> (i = j /\ y = x) \/ (i <> j /\ nth_error l j = Some y).
Proof.
  intros A l i x j y H. destruct (Nat.eq_dec i j) as [->|Hn].
  - left. split; [reflexivity|]. destruct (lt_dec j (length l)) as [Hlt|Hge].
    + rewrite nth_error_upd_eq in H by exact Hlt. congruence.
    + rewrite upd_ge in H by lia. assert (nth_error l j <> None) as Hs by congruence.
      apply nth_error_Some in Hs. lia.
  - right. rewrite nth_error_upd_neq in H by exact Hn. auto.
Qed.

Lemma lock_of_same : forall s s' v, locks s' = locks s -> lock_of s' v = lock_of s v.
Proof. intros s s' v H. unfold lock_of. rewrite H. reflexivity. Qed.
Lemma lock_of_upd_eq : forall s s' v x, locks s' = upd (locks s) v x -> v < length (locks s) ->
  lock_of s' v = x.
Proof. intros s s' v x H Hv. unfold lock_of. rewrite H. apply nth_upd_eq. exact Hv. Qed.
Lemma lock_of_upd_neq : forall s s' v w x, locks s' = upd (locks s) v x -> v <> w ->
  lock_of s' w = lock_of s w.
Proof. intros s s' v w x H Hn. unfold lock_of. rewrite H. apply nth_upd_neq. exact Hn. Qed.

Lemma cur_req_In : forall deps fr v sw, cur_req deps fr = Some (v, sw) -> In (v, sw) (nth (f_unit fr) deps []).
Proof. intros deps fr v sw H. unfold cur_req, unit_reqs in H. apply nth_error_In in H. exact H. Qed.
Lemma cur_req_lt : forall deps fr v sw, wf_deps deps -> cur_req deps fr = Some (v, sw) -> v < length deps.
Proof. intros deps fr v sw Hwf H. apply cur_req_In in H. eapply Hwf. exact H. Qed.

Definition units (th : thread) : list nat := map f_unit (t_stack th).

Lemma in_units : forall th u, In u (units th) <-> exists fr, In fr (t_stack th) /\ f_unit fr = u.
Proof.
  intros th u. unfold units. rewrite in_map_iff.
  split; intros [fr [A B]]; exists fr; auto.
Qed.

Inductive shape (deps : list (list req)) (s s' : state) : Prop :=
| shape_same : forall t th th', nth_error (threads s) t = Some th -> threads s' = upd (threads s) t th' ->
    locks s' = locks s -> units th' = units th -> shape deps s s'
| shape_push : forall t th th' v, nth_error (threads s) t = Some th -> threads s' = upd (threads s) t th' ->
    v < length deps -> lock_of s v = Vacant -> locks s' = upd (locks s) v (Writing t) ->
    units th' = v :: units th -> shape deps s s'
| shape_pop : forall t th th' v c, nth_error (threads s) t = Some th -> threads s' = upd (threads s) t th' ->
    locks s' = upd (locks s) v (Done c) -> units th = v :: units th' -> shape deps s s'.

Lemma step_shape : forall deps cbo T s s', wf_deps deps -> base_inv deps T s -> Step deps cbo s s' ->
  shape deps s s'.
Proof.
  intros deps cbo T s s' Hwf Hinv H.
  inversion H as
    [t u Hth Hu | t v sw Hth Hl | t v sw c Hth Hl | t v sw Hth Hl | t v sw c Hth Hl
    | t job fr rest v sw Hth Hw Hl | t job fr rest v sw c Hth Hw Hl
    | t job fr rest v sw Hth Hw Hl | t job fr rest v sw c Hth Hw Hl
    | t job fr rest Hth Hw Hc | t job fr rest v sw Hth Hw Hc Hm
    | t job fr rest v sw Hth Hw Hc Hm Hcc | t job fr rest v Hth Hw Hc Hm Hcc
    | t job fr rest v Hth Hw Hc Hm Hcc ]; subst;
    unfold resolve, abort_frame, push_frame, set_thread;
    try (destruct (is_circ c && negb sw));
    first [ solve [eapply shape_same; [exact Hth | reflexivity | reflexivity | reflexivity]]
          | solve [eapply shape_pop; [exact Hth | reflexivity | reflexivity | reflexivity]]
          | eapply shape_push; [exact Hth | reflexivity | | exact Hl | reflexivity | reflexivity] ].
  - eapply (bi_job _ _ _ Hinv); [exact Hth | reflexivity].
  - eapply cur_req_lt; [exact Hwf|].
    eapply (bi_want_req _ _ _ Hinv); [exact Hth | left; reflexivity | right; exact Hw].
Qed.

Record unit_inv (deps : list (list req)) (s : state) : Prop := {
  ui_locks : length (locks s) = length deps;
  ui_unit : forall t th u, nth_error (threads s) t = Some th -> In u (units th) -> u < length deps;
  ui_frame_lock : forall t th u, nth_error (threads s) t = Some th -> In u (units th) ->
             lock_of s u = Writing t;
  ui_lock_frame : forall v t, v < length deps -> lock_of s v = Writing t ->
             exists th, nth_error (threads s) t = Some th /\ In v (units th);
  ui_nodup : forall t th, nth_error (threads s) t = Some th -> NoDup (units th)
}.

Lemma base_unit_inv : forall deps T s, base_inv deps T s -> unit_inv deps s.
Proof.
  intros deps T s Hinv. constructor.
  - exact (bi_locks _ _ _ Hinv).
  - intros t th u H Hin. apply in_units in Hin. destruct Hin as [fr [Hin <-]].
    eapply (bi_frame_unit _ _ _ Hinv); eassumption.
  - intros t th u H Hin. apply in_units in Hin. destruct Hin as [fr [Hin <-]].
    eapply (bi_frame_lock _ _ _ Hinv); eassumption.
  - intros v t Hv H. destruct (bi_lock_frame _ _ _ Hinv v t Hv H) as [th [fr [A [B C]]]].
    exists th. split; [exact A|]. apply in_units. exists fr. auto.
  - intros t th H. exact (bi_nodup _ _ _ Hinv t th H).
Qed.

Ltac upd_cases H Hthr Hn :=
  rewrite Hthr in H; apply nth_error_upd_inv in H; destruct H as [[<- ->]|[Hn H]].

Lemma unit_inv_shape : forall deps s s', unit_inv deps s -> shape deps s s' -> unit_inv deps s'.
Proof.
  intros deps s s' [HL HU HFL HLF HND] Hsh.
  destruct Hsh as [t th th' Hth Hthr Hlk Hun | t th th' v Hth Hthr Hv Hvac Hlk Hun
                  | t th th' v c Hth Hthr Hlk Hun].
  - (* same units, same locks *)
    constructor.
    + rewrite Hlk. exact HL.
    + intros t0 th0 u H Hin. upd_cases H Hthr Hn.
      * rewrite Hun in Hin. eapply HU; eassumption.
      * eapply HU; eassumption.
    + intros t0 th0 u H Hin. rewrite (lock_of_same _ _ _ Hlk). upd_cases H Hthr Hn.
      * rewrite Hun in Hin. eapply HFL; eassumption.
      * eapply HFL; eassumption.
    + intros w t0 Hw H. rewrite (lock_of_same _ _ _ Hlk) in H.
      destruct (HLF w t0 Hw H) as [th0 [H0 Hin]]. rewrite Hthr.
      destruct (Nat.eq_dec t t0) as [<-|Hn].
      * exists th'. split; [apply nth_error_upd_eq; apply nth_error_Some; congruence|].
        rewrite Hun. congruence.
      * exists th0. rewrite nth_error_upd_neq by exact Hn. auto.
    + intros t0 th0 H. upd_cases H Hthr Hn.
      * rewrite Hun. eapply HND; eassumption.
      * eapply HND; eassumption.
  - (* push v *)
    assert (Hvl : v < length (locks s)) by (rewrite HL; exact Hv).
    assert (Hnv : forall t0 th0 u, nth_error (threads s) t0 = Some th0 -> In u (units th0) -> v <> u).
    { intros t0 th0 u H Hin ->. rewrite (HFL _ _ _ H Hin) in Hvac. discriminate Hvac. }
    constructor.
    + rewrite Hlk, upd_length. exact HL.
    + intros t0 th0 u H Hin. upd_cases H Hthr Hn.
      * rewrite Hun in Hin. destruct Hin as [<-|Hin]; [exact Hv | eapply HU; eassumption].
      * eapply HU; eassumption.
    + intros t0 th0 u H Hin. upd_cases H Hthr Hn.
      * rewrite Hun in Hin. destruct Hin as [<-|Hin].
        { apply (lock_of_upd_eq _ _ _ _ Hlk Hvl). }
        rewrite (lock_of_upd_neq _ _ _ _ _ Hlk (Hnv _ _ _ Hth Hin)). eapply HFL; eassumption.
      * rewrite (lock_of_upd_neq _ _ _ _ _ Hlk (Hnv _ _ _ H Hin)). eapply HFL; eassumption.
    + intros w t0 Hw H. rewrite Hthr. destruct (Nat.eq_dec v w) as [<-|Hvw].
      * rewrite (lock_of_upd_eq _ _ _ _ Hlk Hvl) in H. injection H as <-.
        exists th'. split; [apply nth_error_upd_eq; apply nth_error_Some; congruence|].
        rewrite Hun. left. reflexivity.
      * rewrite (lock_of_upd_neq _ _ _ _ _ Hlk Hvw) in H.
        destruct (HLF w t0 Hw H) as [th0 [H0 Hin]].
        destruct (Nat.eq_dec t t0) as [<-|Hn].
        { exists th'. split; [apply nth_error_upd_eq; apply nth_error_Some; congruence|].
          rewrite Hun. right. congruence. }
        exists th0. rewrite nth_error_upd_neq by exact Hn. auto.
    + intros t0 th0 H. upd_cases H Hthr Hn.
      * rewrite Hun. constructor; [|eapply HND; eassumption].
        intros Hin. exact (Hnv _ _ _ Hth Hin eq_refl).
      * eapply HND; eassumption.
  - (* pop v *)
    assert (Hvin : In v (units th)) by (rewrite Hun; left; reflexivity).
    assert (Hvl : v < length (locks s)) by (rewrite HL; eapply HU; eassumption).
    assert (Hvt : lock_of s v = Writing t) by (eapply HFL; eassumption).
    assert (Hnd : NoDup (v :: units th')) by (rewrite <- Hun; eapply HND; eassumption).
    inversion Hnd as [|v0 l0 Hnin Hnd']; subst v0 l0.
    assert (Hsub : forall u, In u (units th') -> In u (units th)) by (intros u Hu; rewrite Hun; right; exact Hu).
    constructor.
    + rewrite Hlk, upd_length. exact HL.
    + intros t0 th0 u H Hin. upd_cases H Hthr Hn.
      * eapply HU; [exact Hth | apply Hsub; exact Hin].
      * eapply HU; eassumption.
    + intros t0 th0 u H Hin. upd_cases H Hthr Hn.
      * assert (v <> u) as Hvu by (intros ->; exact (Hnin Hin)).
        rewrite (lock_of_upd_neq _ _ _ _ _ Hlk Hvu). eapply HFL; [exact Hth | apply Hsub; exact Hin].
      * assert (v <> u) as Hvu.
        { intros ->. rewrite (HFL _ _ _ H Hin) in Hvt. congruence. }
        rewrite (lock_of_upd_neq _ _ _ _ _ Hlk Hvu). eapply HFL; eassumption.
    + intros w t0 Hw H. rewrite Hthr. destruct (Nat.eq_dec v w) as [<-|Hvw].
      * rewrite (lock_of_upd_eq _ _ _ _ Hlk Hvl) in H. discriminate H.
      * rewrite (lock_of_upd_neq _ _ _ _ _ Hlk Hvw) in H.
        destruct (HLF w t0 Hw H) as [th0 [H0 Hin]].
        destruct (Nat.eq_dec t t0) as [<-|Hn].
        { exists th'. split; [apply nth_error_upd_eq; apply nth_error_Some; congruence|].
          assert (th0 = th) by congruence. subst th0. rewrite Hun in Hin.
          destruct Hin as [Hin|Hin]; [congruence | exact Hin]. }
        exists th0. rewrite nth_error_upd_neq by exact Hn. auto.
    + intros t0 th0 H. upd_cases H Hthr Hn.
      * exact Hnd'.
      * eapply HND; eassumption.
Qed.

(* the remaining fields: case analysis on the step *)
Ltac inv_step H :=
  let t := fresh "t" in let u := fresh "u" in let v := fresh "v" in let sw := fresh "sw" in
  let c := fresh "c" in let job := fresh "job" in let fr := fresh "fr" in let rest := fresh "rest" in
  let Hth := fresh "Hth" in let Hu := fresh "Hu" in let Hl := fresh "Hl" in let Hw := fresh "Hw" in
  let Hc := fresh "Hc" in let Hm := fresh "Hm" in let Hcc := fresh "Hcc" in
  inversion H as
    [t u Hth Hu | t v sw Hth Hl | t v sw c Hth Hl | t v sw Hth Hl | t v sw c Hth Hl
    | t job fr rest v sw Hth Hw Hl | t job fr rest v sw c Hth Hw Hl
    | t job fr rest v sw Hth Hw Hl | t job fr rest v sw c Hth Hw Hl
    | t job fr rest Hth Hw Hc | t job fr rest v sw Hth Hw Hc Hm
    | t job fr rest v sw Hth Hw Hc Hm Hcc | t job fr rest v Hth Hw Hc Hm Hcc
    | t job fr rest v Hth Hw Hc Hm Hcc ]; subst;
  unfold resolve, abort_frame, push_frame, set_thread;
  try match goal with
      | |- context [is_circ ?c0 && negb ?sw0] => destruct (is_circ c0 && negb sw0)
      end;
  cbn [locks users threads todo].

Lemma threads_length_shape : forall deps s s', shape deps s s' -> length (threads s') = length (threads s).
Proof.
  intros deps s s' Hsh.
  destruct Hsh as [t th th' Hth Hthr Hlk Hun | t th th' v Hth Hthr Hv Hvac Hlk Hun
                  | t th th' v c Hth Hthr Hlk Hun]; rewrite Hthr; apply upd_length.
Qed.

Lemma users_length_step : forall deps cbo T s s', base_inv deps T s -> Step deps cbo s s' ->
  length (users s') = length deps.
Proof.
  intros deps cbo T s s' Hinv H. inv_step H; try rewrite add_user_length; exact (bi_users _ _ _ Hinv).
Qed.

Lemma todo_step : forall deps cbo T s s', base_inv deps T s -> Step deps cbo s s' ->
  forall u, In u (todo s') -> u < length deps.
Proof.
  intros deps cbo T s s' Hinv H. inv_step H; try exact (bi_todo _ _ _ Hinv).
  intros u0 Hin. apply in_remove in Hin. apply (bi_todo _ _ _ Hinv). tauto.
Qed.

Lemma job_step : forall deps cbo T s s', base_inv deps T s -> Step deps cbo s s' ->
  forall t th v, nth_error (threads s') t = Some th -> want_target (t_job th) = Some v -> v < length deps.
Proof.
  intros deps cbo T s s' Hinv H. inv_step H;
  intros t0 th0 v0 H0 Hw0; apply nth_error_upd_inv in H0; destruct H0 as [[<- ->]|[Hn H0]];
  try (eapply (bi_job _ _ _ Hinv); eassumption);
  cbn [t_job want_target] in Hw0; try discriminate Hw0;
  try (eapply (bi_job _ _ _ Hinv); [eassumption | exact Hw0]).
  injection Hw0 as <-. apply (bi_todo _ _ _ Hinv). assumption.
Qed.

Lemma want_req_step : forall deps cbo T s s', base_inv deps T s -> Step deps cbo s s' ->
  forall t th fr v sw, nth_error (threads s') t = Some th -> In fr (t_stack th) ->
    (f_want fr = WRead v sw \/ f_want fr = WWrite v sw) -> cur_req deps fr = Some (v, sw).
Proof.
  intros deps cbo T s s' Hinv H. inv_step H;
  intros t0 th0 fr0 v0 sw0 H0 Hin0 Hw0; apply nth_error_upd_inv in H0; destruct H0 as [[<- ->]|[Hn H0]];
  try (eapply (bi_want_req _ _ _ Hinv); eassumption);
  cbn [t_stack In] in Hin0; try contradiction Hin0;
  repeat (let Hf := fresh "Hf" in destruct Hin0 as [Hf|Hin0]; [subst fr0|]);
  try contradiction Hin0;
  try (eapply (bi_want_req _ _ _ Hinv); [eassumption | right; exact Hin0 | exact Hw0]);
  try (eapply (bi_want_req _ _ _ Hinv); [eassumption | exact Hin0 | exact Hw0]);
  unfold set_want, next_frame, new_frame in Hw0 |- *; cbn [f_want] in Hw0;
  (destruct Hw0 as [Hw0|Hw0]; try discriminate Hw0);
  try (injection Hw0 as Hv0 Hsw0; subst v0 sw0);
  match goal with
  | Hc : cur_req deps ?fr = Some (?v, ?sw) |- _ => exact Hc
  | Hth : nth_error (threads s) _ = Some (mkThread _ (?fr :: _)), Hw : f_want ?fr = _ |- _ =>
      first [ exact (bi_want_req _ _ _ Hinv _ _ fr _ _ Hth (or_introl eq_refl) (or_introl Hw))
            | exact (bi_want_req _ _ _ Hinv _ _ fr _ _ Hth (or_introl eq_refl) (or_intror Hw)) ]
  end.
Qed.

Lemma users_dep_new : forall deps T s t job fr rest v sw, wf_deps deps -> base_inv deps T s ->
  nth_error (threads s) t = Some (mkThread job (fr :: rest)) -> cur_req deps fr = Some (v, sw) ->
  forall v0 u0, In u0 (nth v0 (add_user (users s) v (f_unit fr)) []) ->
    dep_edge deps u0 v0 /\ u0 < length deps /\ v0 < length deps.
Proof.
  intros deps T s t job fr rest v sw Hwf Hinv Hth Hc v0 u0 Hin.
  assert (Hv : v < length deps) by (eapply cur_req_lt; eassumption).
  apply add_user_In in Hin; [|rewrite (bi_users _ _ _ Hinv); exact Hv].
  destruct Hin as [Hin|[-> ->]]; [apply (bi_users_dep _ _ _ Hinv); exact Hin|].
  split; [|split].
  - exists sw. apply cur_req_In. exact Hc.
  - eapply (bi_frame_unit _ _ _ Hinv); [exact Hth | left; reflexivity].
  - exact Hv.
Qed.

Lemma users_dep_step : forall deps cbo T s s', wf_deps deps -> base_inv deps T s -> Step deps cbo s s' ->
  forall v u, In u (nth v (users s') []) -> dep_edge deps u v /\ u < length deps /\ v < length deps.
Proof.
  intros deps cbo T s s' Hwf Hinv H. inv_step H; try exact (bi_users_dep _ _ _ Hinv);
  eapply users_dep_new; eassumption.
Qed.

Lemma job_stack_step : forall deps cbo T s s', base_inv deps T s -> Step deps cbo s s' ->
  forall t th, nth_error (threads s') t = Some th -> t_stack th <> [] -> exists v sw, t_job th = WRead v sw.
Proof.
  intros deps cbo T s s' Hinv H. inv_step H;
  intros t0 th0 H0 Hne; apply nth_error_upd_inv in H0; destruct H0 as [[<- ->]|[Hn H0]];
  try (eapply (bi_job_stack _ _ _ Hinv); eassumption);
  cbn [t_stack t_job] in *;
  first [ solve [exfalso; apply Hne; reflexivity]
        | solve [eexists; eexists; reflexivity]
        | match goal with
          | Hth : nth_error (threads s) _ = Some _ |- _ =>
              refine (bi_job_stack _ _ _ Hinv _ _ Hth _); cbn [t_stack]; discriminate
          end ].
Qed.

Lemma base_inv_step : forall deps cbo T s s', wf_deps deps ->
  base_inv deps T s -> Step deps cbo s s' -> base_inv deps T s'.
Proof.
  intros deps cbo T s s' Hwf Hinv H.
  assert (Hsh : shape deps s s') by (eapply step_shape; eassumption).
  assert (Hui : unit_inv deps s') by (eapply unit_inv_shape; [eapply base_unit_inv; exact Hinv | exact Hsh]).
  destruct Hui as [HL HU HFL HLF HND].
  constructor.
  - exact HL.
  - eapply users_length_step; eassumption.
  - rewrite (threads_length_shape _ _ _ Hsh). exact (bi_threads _ _ _ Hinv).
  - eapply todo_step; eassumption.
  - eapply job_step; eassumption.
  - intros t th fr Hth Hin. eapply HU; [exact Hth|]. apply in_units. exists fr. auto.
  - eapply want_req_step; eassumption.
  - eapply users_dep_step; eassumption.
  - intros t th fr Hth Hin. eapply HFL; [exact Hth|]. apply in_units. exists fr. auto.
  - intros v t Hv Hl. destruct (HLF v t Hv Hl) as [th [Hth Hin]].
    apply in_units in Hin. destruct Hin as [fr [Hin Hfu]]. exists th, fr. auto.
  - intros t th Hth. exact (HND t th Hth).
  - eapply job_stack_step; eassumption.
Qed.

Lemma base_inv_reach : forall deps cbo T td s, wf_deps deps -> todo_ok (length deps) td ->
  reach deps cbo (init_todo (length deps) T td) s -> base_inv deps T s.
Proof.
  intros deps cbo T td s Hwf Htd H. induction H as [|s s' H IH Hs].
  - apply base_inv_init. exact Htd.
  - apply succs_iff_Step in Hs. eapply base_inv_step; eassumption.
Qed.

(* targets of pending acquisitions exist *)
Lemma want_target_lt : forall deps T s t th v, wf_deps deps -> base_inv deps T s ->
  nth_error (threads s) t = Some th -> want_target (cur_want th) = Some v -> v < length deps.
Proof.
  intros deps T s t th v Hwf Hinv Hth Hw. unfold cur_want in Hw.
  destruct (t_stack th) as [|fr rest] eqn:Hst.
  - eapply (bi_job _ _ _ Hinv); eassumption.
  - assert (Hin : In fr (t_stack th)) by (rewrite Hst; left; reflexivity).
    destruct (f_want fr) as [|v0 sw0|v0 sw0] eqn:Hfw; cbn [want_target] in Hw; try discriminate Hw;
    injection Hw as ->; apply (cur_req_lt deps fr v sw0 Hwf).
    + exact (bi_want_req _ _ _ Hinv t th fr v sw0 Hth Hin (or_introl Hfw)).
    + exact (bi_want_req _ _ _ Hinv t th fr v sw0 Hth Hin (or_intror Hfw)).
Qed.
