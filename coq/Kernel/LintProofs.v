(* Kernel/LintProofs.v — the unused-declaration lint cache after `lint_update` holds, for every
   key, the diagnostics of the current family (pruning by `analyzed_units`, incl. the rule of
   commit f646103). *)
From Coq Require Import List NArith Arith Bool Lia.
Import ListNotations.
From RH Require Import Kernel.World Kernel.Reset Kernel.Incr Kernel.Inv
  Kernel.ClosureProofs Kernel.DenProofs Kernel.BatchProofs.
Open Scope N_scope.

Lemma lkey_eqb_true : forall a b, lkey_eqb a b = true <-> a = b.
Proof.
  intros [a1 a2] [b1 b2]; unfold lkey_eqb; cbn [fst snd].
  rewrite andb_true_iff, !N.eqb_eq; split; [intros [-> ->]; reflexivity | intros H; inversion H; auto].
Qed.
Lemma lkey_eqb_refl : forall a, lkey_eqb a a = true.
Proof. intros; apply lkey_eqb_true; reflexivity. Qed.
Lemma lkey_eqb_false : forall a b, lkey_eqb a b = false <-> a <> b.
Proof.
  intros a b; rewrite <- lkey_eqb_true; destruct (lkey_eqb a b); split; congruence.
Qed.

Lemma lint_get_nohas : forall C k, lint_has C k = false -> lint_get C k = [].
Proof.
  induction C as [|[k' v] C IH]; intros k H; cbn [lint_get]; [reflexivity|].
  unfold lint_has in H; cbn [existsb fst] in H. apply orb_false_iff in H; destruct H as [H1 H2].
  rewrite H1; apply IH; exact H2.
Qed.

Lemma lint_get_filter : forall (f : lkey -> bool) C k,
  lint_get (filter (fun e => f (fst e)) C) k = if f k then lint_get C k else [].
Proof.
  intros f; induction C as [|[k' v] C IH]; intros k; cbn [filter lint_get fst].
  - destruct (f k); reflexivity.
  - destruct (f k') eqn:Hf; cbn [lint_get].
    + destruct (lkey_eqb k' k) eqn:He; [apply lkey_eqb_true in He; subst; rewrite Hf; reflexivity | apply IH].
    + destruct (lkey_eqb k' k) eqn:He; [apply lkey_eqb_true in He; subst; rewrite IH, Hf; reflexivity | apply IH].
Qed.

Lemma lint_has_filter : forall (f : lkey -> bool) C k,
  lint_has (filter (fun e => f (fst e)) C) k = f k && lint_has C k.
Proof.
  intros f; induction C as [|[k' v] C IH]; intros k; unfold lint_has in *; cbn [filter existsb fst].
  - rewrite andb_false_r; reflexivity.
  - destruct (f k') eqn:Hf; cbn [existsb fst]; rewrite IH.
    + destruct (lkey_eqb k' k) eqn:He; cbn [orb]; [apply lkey_eqb_true in He; subst; rewrite Hf; reflexivity | reflexivity].
    + destruct (lkey_eqb k' k) eqn:He; cbn [orb]; [apply lkey_eqb_true in He; subst; rewrite Hf; reflexivity | reflexivity].
Qed.

Lemma lint_get_app_one : forall C k' v k,
  lint_get (C ++ [(k', v)]) k = if lint_has C k then lint_get C k else if lkey_eqb k' k then v else [].
Proof.
  induction C as [|[k0 v0] C IH]; intros k' v k; cbn [app lint_get].
  - unfold lint_has; cbn [existsb]. reflexivity.
  - unfold lint_has; cbn [existsb fst]. destruct (lkey_eqb k0 k); cbn [orb]; [reflexivity | apply IH].
Qed.

Lemma lint_has_app_one : forall C k' v k, lint_has (C ++ [(k', v)]) k = lint_has C k || lkey_eqb k' k.
Proof.
  intros C k' v k; unfold lint_has; rewrite existsb_app; cbn [existsb fst]; rewrite orb_false_r; reflexivity.
Qed.

Section LintFold.
  Variable lintf : list (uid * entry) -> lintval.
  Variable W : world.
  Variable m : list (uid * entry).

  Let ins (C : list (lkey * lintval)) (x : uid) :=
    if lint_has C (ukey x) then C else C ++ [(ukey x, lintf (family W m (ukey x)))].

  Lemma lint_fold_get : forall analyzed C k,
    lint_get (fold_left ins analyzed C) k =
    if lint_has C k then lint_get C k
    else if existsb (fun x => lkey_eqb (ukey x) k) analyzed then lintf (family W m k) else [].
  Proof.
    induction analyzed as [|x an IH]; intros C k; cbn [fold_left existsb].
    - destruct (lint_has C k) eqn:Hh; [reflexivity | apply lint_get_nohas; assumption].
    - rewrite IH. unfold ins. destruct (lint_has C (ukey x)) eqn:Hx.
      + destruct (lint_has C k) eqn:Hk; [reflexivity|].
        destruct (lkey_eqb (ukey x) k) eqn:He; [apply lkey_eqb_true in He; congruence | reflexivity].
      + rewrite lint_has_app_one, lint_get_app_one.
        destruct (lint_has C k) eqn:Hk; cbn [orb]; [reflexivity|].
        destruct (lkey_eqb (ukey x) k) eqn:He; cbn [orb]; [|reflexivity].
        apply lkey_eqb_true in He; subst k; reflexivity.
  Qed.
End LintFold.

Lemma lint_update_get : forall lintf C W m analyzed k,
  lint_get (lint_update lintf C W m analyzed) k =
  if existsb (fun x => lkey_eqb (ukey x) k) analyzed then lintf (family W m k)
  else if has_primary W k then lint_get C k else [].
Proof.
  intros lintf C W m analyzed k; unfold lint_update.
  rewrite lint_fold_get.
  rewrite (lint_has_filter (fun k0 => has_primary W k0)).
  rewrite (lint_has_filter (fun k0 => negb (existsb (fun x => lkey_eqb (ukey x) k0) analyzed))).
  rewrite (lint_get_filter (fun k0 => has_primary W k0)).
  rewrite (lint_get_filter (fun k0 => negb (existsb (fun x => lkey_eqb (ukey x) k0) analyzed))).
  destruct (existsb (fun x => lkey_eqb (ukey x) k) analyzed) eqn:Hex; cbn [negb andb].
  - rewrite andb_false_r; reflexivity.
  - destruct (has_primary W k) eqn:Hp; cbn [andb]; [|reflexivity].
    destruct (lint_has C k) eqn:Hh; [reflexivity | symmetry; apply lint_get_nohas; assumption].
Qed.

Lemma family_app : forall W1 W2 m k, family (W1 ++ W2) m k = family W1 m k ++ family W2 m k.
Proof. intros; unfold family; apply flat_map_app. Qed.

Lemma family_In : forall W m k x e, In (x, e) (family W m k) ->
  In x (unit_ids W) /\ ukey x = k /\ memo_get m x = Some e.
Proof.
  intros W m k x e H; unfold family in H; apply in_flat_map in H; destruct H as [[y p] [Hin Hx]].
  cbn [fst] in Hx. destruct (lkey_eqb (ukey y) k) eqn:He; [|destruct Hx].
  destruct (memo_get m y) as [r|] eqn:Hm; [|destruct Hx]. destruct Hx as [Hx|[]]; inversion Hx; subst.
  split; [apply unit_ids_In; eauto | split; [apply lkey_eqb_true; assumption | assumption]].
Qed.

Lemma family_none : forall W m k, (forall x, In x (unit_ids W) -> ukey x <> k) -> family W m k = [].
Proof.
  induction W as [|[x p] W IH]; intros m k H; [reflexivity|].
  unfold family; cbn [flat_map fst].
  replace (lkey_eqb (ukey x) k) with false
    by (symmetry; apply lkey_eqb_false; apply H; left; reflexivity).
  cbn [app]. apply IH; intros y Hy; apply H; right; assumption.
Qed.

Lemma family_ext : forall W m1 m2 k,
  (forall x, In x (unit_ids W) -> ukey x = k -> memo_get m1 x = memo_get m2 x) ->
  family W m1 k = family W m2 k.
Proof.
  induction W as [|[x p] W IH]; intros m1 m2 k H; [reflexivity|].
  unfold family; cbn [flat_map fst]. f_equal.
  - destruct (lkey_eqb (ukey x) k) eqn:He; [|reflexivity]. apply lkey_eqb_true in He.
    rewrite (H x (or_introl eq_refl) He); reflexivity.
  - apply IH; intros y Hy; apply H; right; assumption.
Qed.

Lemma family_filter_keep : forall (f : uid * prog -> bool) W m k,
  (forall e, In e W -> ukey (fst e) = k -> f e = true) -> family (filter f W) m k = family W m k.
Proof.
  intros f; induction W as [|[x p] W IH]; intros m k H; [reflexivity|].
  cbn [filter]. destruct (f (x, p)) eqn:Hf.
  - unfold family; cbn [flat_map fst]. f_equal. apply IH; intros e He; apply H; right; assumption.
  - unfold family at 2; cbn [flat_map fst].
    replace (lkey_eqb (ukey x) k) with false.
    + cbn [app]. apply IH; intros e He; apply H; right; assumption.
    + symmetry; apply lkey_eqb_false; intros Hk.
      rewrite (H (x, p) (or_introl eq_refl) Hk) in Hf; discriminate.
Qed.

Lemma is_primary_slot : forall x, is_primary x = true -> u_slot x = mkSlot (fst (ukey x)) (snd (ukey x)) None.
Proof.
  intros [l k] H; unfold is_primary in H; cbn [u_key] in H.
  destruct k as [pk n|sk p n]; [reflexivity | discriminate].
Qed.

Lemma has_primary_wf : forall W x p, wf_world W -> In (x, p) W -> is_primary x = true -> has_primary W (ukey x) = true.
Proof.
  intros W x p Hwf Hin Hp; unfold has_primary. rewrite <- (is_primary_slot x Hp).
  rewrite (get_slot_wf _ _ _ Hwf Hin); reflexivity.
Qed.

Section LintStep.
  Variable lintf : list (uid * entry) -> lintval.
  Hypothesis Hok : lint_ok lintf.
  Variables Wo Wn N : world.
  Variables mo mn : list (uid * entry).
  Variables ad rm analyzed : list uid.
  Variable C : list (lkey * lintval).
  Hypothesis Hwfo : wf_world Wo.
  Hypothesis Hwfn : wf_world Wn.
  Hypothesis HWn : Wn = filter (not_in rm) Wo ++ N.
  Hypothesis Had : forall x, In x ad <-> In x (unit_ids N).
  Hypothesis Hold : lint_good lintf Wo mo C.
  Hypothesis L3 : forall x, In x ad -> In x analyzed.
  Hypothesis L4 : forall x, In x (unit_ids Wn) -> ~ In x analyzed -> memo_get mn x = memo_get mo x.
  Hypothesis L5 : forall x, In x rm -> ~ In x ad -> is_primary x = false ->
    has_primary Wn (ukey x) = true -> exists w, In w analyzed /\ ukey w = ukey x.

  Theorem lint_step : lint_good lintf Wn mn (lint_update lintf C Wn mn analyzed).
  Proof.
    intros k. rewrite lint_update_get.
    destruct (existsb (fun x => lkey_eqb (ukey x) k) analyzed) eqn:Hex; [reflexivity|].
    assert (Hnk : forall x, In x analyzed -> ukey x <> k).
    { intros x Hx Hk. assert (Hc : existsb (fun x => lkey_eqb (ukey x) k) analyzed = true).
      { apply existsb_exists; exists x; split; [assumption | apply lkey_eqb_true; assumption]. }
      congruence. }
    destruct (has_primary Wn k) eqn:Hp.
    - (* the family is unchanged *)
      rewrite (Hold k). f_equal.
      rewrite HWn, family_app.
      rewrite (family_none N mn k), app_nil_r.
      2:{ intros x Hx; apply Hnk; apply L3; apply Had; assumption. }
      assert (Hkeep : forall e, In e Wo -> ukey (fst e) = k -> not_in rm e = true).
      { intros [x p] Hin Hk; cbn [fst] in Hk. unfold not_in; cbn [fst].
        apply negb_true_iff; apply mem_uid_false; intros Hrm.
        assert (Hnad : ~ In x ad) by (intros Hc; apply (Hnk x (L3 x Hc)); assumption).
        destruct (is_primary x) eqn:Hpx.
        - (* a removed primary: the primary of the key in the new world is a new unit *)
          unfold has_primary in Hp.
          destruct (get_slot Wn (mkSlot (fst k) (snd k) None)) as [[w q]|] eqn:Hg; [|discriminate].
          destruct (get_slot_In _ _ _ _ Hg) as [Hinw Hsw].
          rewrite HWn in Hinw; apply in_app_or in Hinw; destruct Hinw as [Hinw|Hinw].
          + apply filter_In in Hinw; destruct Hinw as [Hinw Hf].
            pose proof (get_slot_wf _ _ _ Hwfo Hinw) as G1.
            pose proof (get_slot_wf _ _ _ Hwfo Hin) as G2.
            rewrite (is_primary_slot x Hpx), Hk in G2. rewrite Hsw, G2 in G1.
            inversion G1; subst w. unfold not_in in Hf; cbn [fst] in Hf.
            apply negb_true_iff in Hf; apply mem_uid_false in Hf; contradiction.
          + assert (Hwad : In w ad) by (apply Had; apply unit_ids_In; eauto).
            apply (Hnk w (L3 w Hwad)).
            destruct w as [lw kw]; unfold u_slot in Hsw; cbn [u_lib u_key] in Hsw.
            destruct kw as [pk n|sk pn n]; inversion Hsw as [[H1 H2]].
            unfold ukey, u_prim, u_slot; cbn [u_lib u_key s_prim].
            symmetry; apply surjective_pairing.
        - destruct (L5 x Hrm Hnad Hpx) as [w [Hw Hkw]]; [rewrite Hk; assumption|].
          apply (Hnk w Hw); congruence. }
      rewrite (family_filter_keep (not_in rm) Wo mn k Hkeep).
      apply family_ext. intros x Hx Hk. symmetry. apply L4.
      + apply unit_ids_In in Hx; destruct Hx as [p Hin]. apply unit_ids_In; exists p.
        rewrite HWn; apply in_or_app; left; apply filter_In; split; [assumption | apply (Hkeep (x, p) Hin Hk)].
      + intros Hc; apply (Hnk x Hc); assumption.
    - (* no primary unit: nothing is reported *)
      symmetry; apply Hok. intros [x e] Hin; cbn [fst].
      destruct (family_In _ _ _ _ _ Hin) as [Hx [Hk _]].
      destruct (is_primary x) eqn:Hpx; [|reflexivity]. exfalso.
      apply unit_ids_In in Hx; destruct Hx as [p Hp'].
      rewrite <- Hk, (has_primary_wf _ _ _ Hwfn Hp' Hpx) in Hp; discriminate.
  Qed.
End LintStep.
