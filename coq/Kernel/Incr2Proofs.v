(* Kernel/Incr2Proofs.v — incremental = fresh for ALL worlds (circular dependencies included)
   when the analyses propagate circular-dependency errors; both runs compute the static
   reference `ref` of every unit. *)
From Coq Require Import List NArith Arith Bool Lia.
Import ListNotations.
From RH Require Import Kernel.World Kernel.Reset Kernel.Incr Kernel.Inv Kernel.Ref
  Kernel.ClosureProofs Kernel.DenProofs Kernel.SimProofs Kernel.BatchProofs Kernel.ResetProofs
  Kernel.LintProofs Kernel.IncrProofs Kernel.RefProofs Kernel.Sim2Proofs Kernel.Reset2Proofs.
Open Scope N_scope.

(* the state between two analyses, any world *)
Record quiescent2 (lintf : list (uid * entry) -> lintval) (W : world) (S : st) : Prop := mkQ2 {
  q2_units : units S = W;
  q2_added : added S = [];
  q2_removed : removed S = [];
  q2_wf : wf_world W;
  q2_prop : prop_world W;
  q2_good : good2 W (sast S);
  q2_total : total W (sast S);
  q2_lint : lint_good lintf W (a_memo (sast S)) (lintc S)
}.

Theorem analyse_step2 : forall lintf Wo S b,
  lint_ok lintf -> quiescent2 lintf Wo S -> prop_world (world_after Wo b) ->
  exists S', analyse lintf (apply_batch S b) = Ok S' /\ quiescent2 lintf (world_after Wo b) S'.
Proof.
  intros lintf Wo S b Hlok [Hu Ha Hr Hwfo HPo HA Htot Hlint] HPn.
  destruct (apply_batch_spec S b Wo Hwfo Hu Ha Hr) as [N [B1 [B2 [B3 [B4 [B5 [B6 [B7 B8]]]]]]]].
  set (S1 := apply_batch S b) in *.
  set (Wn := world_after Wo b) in *.
  rewrite B8 in B1, B2.
  unfold analyse, analyse_gen, prepare, analyzed_units.
  destruct (reset_gen_total true (a_maps (sast S1)) (added S1) (removed S1)) as [rr [Hrr Hall]].
  rewrite Hrr. cbv beta iota zeta. rewrite B8.
  assert (Hrr' : reset (a_maps (sast S)) (added S1) (removed S1) = Some rr) by (rewrite <- B5; exact Hrr).
  pose proof (reset_good2 Wo Wn N (sast S) (added S1) (removed S1) rr Hwfo B2 HPo HPn HA Htot B1 B3 B4 Hrr'
                (a_memo (sast S1)) B6) as Hgood.
  unfold memo_after in Hgood.
  set (memo1 := filter (fun e => negb (mem_slot (u_slot (fst e)) (map u_slot (rr_all rr)))) (a_memo (sast S1))) in *.
  set (todo := filter (fun x => match memo_get memo1 x with Some _ => false | None => true end) (unit_ids Wn)).
  destruct (analyse_units_sim2 Wn HPn B2 todo (mkAst memo1 (rr_maps rr)) Hgood) as [A' [Hrun [HA' [Hext Hdone]]]].
  { intros x Hx; apply todo_In in Hx; apply Hx. }
  rewrite Hrun. eexists; split; [reflexivity|].
  assert (Hsurv : forall x e, memo_get memo1 x = Some e ->
            ~ In x (rr_all rr) /\ memo_get (a_memo (sast S)) x = Some e).
  { intros x e Hx.
    exact (memo_after_get (sast S) (removed S1) rr (a_memo (sast S1)) B6 x e Hx). }
  constructor; cbn [units added removed sast lintc]; try reflexivity; try assumption.
  - intros x Hx. destruct (memo_get memo1 x) as [e|] eqn:Hm.
    + rewrite (x_memo _ _ Hext x e Hm); discriminate.
    + apply Hdone; apply todo_In; auto.
  - rewrite B7.
    apply (lint_step lintf Hlok Wo Wn N (a_memo (sast S)) (a_memo A') (added S1) (removed S1)
             (f3_extra Wn (rr_removed rr) todo) (lintc S) Hwfo B2 B1 B3 Hlint).
    + intros x Hx. apply f3_extra_incl. apply todo_In. split.
      * apply B3 in Hx. apply unit_ids_In in Hx; destruct Hx as [p Hp].
        apply unit_ids_In; exists p. rewrite B1; apply in_or_app; right; assumption.
      * destruct (memo_get memo1 x) as [e|] eqn:Hm; [|reflexivity]. exfalso.
        destruct (Hsurv x e Hm) as [Hn _]. apply Hn.
        apply Hall. apply reach_init. unfold affected_seed.
        apply in_or_app; left; apply in_or_app; left; assumption.
    + intros x Hx Hn.
      assert (Hnt : ~ In x todo) by (intros Hc; apply Hn; apply f3_extra_incl; assumption).
      destruct (memo_get memo1 x) as [e|] eqn:Hm.
      * rewrite (x_memo _ _ Hext x e Hm). symmetry; apply (Hsurv x e Hm).
      * exfalso; apply Hnt; apply todo_In; auto.
    + intros x Hxr Hxa Hps Hhp. unfold has_primary in Hhp.
      destruct (get_slot Wn (mkSlot (fst (ukey x)) (snd (ukey x)) None)) as [[w p]|] eqn:Hg; [|discriminate].
      exists w; split.
      * apply (f3_extra_spec Wn (rr_removed rr) todo x w p); [| assumption | exact Hg].
        apply (rr_removed_spec (sast S) (added S1) (removed S1) rr Hrr'). auto.
      * destruct (get_slot_In _ _ _ _ Hg) as [_ Hs].
        destruct w as [lw kw]; unfold u_slot in Hs; cbn [u_lib u_key] in Hs.
        destruct kw as [pk n|sk pn n]; inversion Hs as [[H1 H2]].
        unfold ukey at 1, u_prim, u_slot; cbn [u_lib u_key s_prim].
        symmetry; apply surjective_pairing.
Qed.

Lemma quiescent2_empty : forall lintf, lint_ok lintf -> quiescent2 lintf [] empty_st.
Proof.
  intros lintf Hok; constructor; cbn [empty_st units added removed sast lintc a_memo]; try reflexivity.
  - constructor.
  - intros u p [].
  - constructor; cbn [a_memo a_maps empty_maps users_of memo_get].
    + intros x e H; discriminate.
    + intros a b [].
    + intros x e H; discriminate.
  - intros x [].
  - intros k; cbn [lint_get family flat_map]. symmetry; apply Hok. intros x [].
Qed.

Lemma fresh_quiescent2 : forall lintf W, lint_ok lintf -> wf_world W -> prop_world W ->
  exists F, fresh lintf W = Ok F /\ quiescent2 lintf W F.
Proof.
  intros lintf W Hok Hwf HP.
  destruct (analyse_step2 lintf [] empty_st ([], W) Hok (quiescent2_empty lintf Hok)) as [F [HF HQ]].
  - rewrite world_after_empty; assumption.
  - rewrite world_after_empty in HQ by assumption. exists F; split; [exact HF | exact HQ].
Qed.

(* a quiescent state holds exactly the reference results *)
Lemma quiescent2_ref : forall lintf W S, quiescent2 lintf W S ->
  forall x, memo_get (a_memo (sast S)) x = ref W x.
Proof.
  intros lintf W S [U _ _ Hwf _ G T _] x.
  destruct (memo_get (a_memo (sast S)) x) as [e|] eqn:Hm.
  - symmetry; exact (g2_memo _ _ G x e Hm).
  - destruct (ref W x) as [e|] eqn:Hr; [|reflexivity]. exfalso.
    destruct (ref_present _ _ _ Hr) as [p [_ Hin]].
    apply (T x); [apply unit_ids_In; eauto | assumption].
Qed.

Lemma quiescent2_unique : forall lintf W S1 S2, quiescent2 lintf W S1 -> quiescent2 lintf W S2 ->
  units S1 = units S2 /\
  (forall x, memo_get (a_memo (sast S1)) x = memo_get (a_memo (sast S2)) x) /\
  (forall k, lint_get (lintc S1) k = lint_get (lintc S2) k).
Proof.
  intros lintf W S1 S2 Q1 Q2.
  assert (Hmemo : forall x, memo_get (a_memo (sast S1)) x = memo_get (a_memo (sast S2)) x).
  { intros x; rewrite (quiescent2_ref _ _ _ Q1 x), (quiescent2_ref _ _ _ Q2 x); reflexivity. }
  split; [rewrite (q2_units _ _ _ Q1), (q2_units _ _ _ Q2); reflexivity|]. split; [exact Hmemo|].
  intros k; rewrite (q2_lint _ _ _ Q1 k), (q2_lint _ _ _ Q2 k). f_equal.
  apply family_ext; intros x _ _; apply Hmemo.
Qed.

Lemma run_history_quiescent2 : forall lintf h W S, lint_ok lintf -> quiescent2 lintf W S -> worlds_prop W h ->
  exists S', run_history (analyse lintf) S h = Ok S' /\ quiescent2 lintf (fold_left world_after h W) S'.
Proof.
  intros lintf; induction h as [|b h IH]; intros W S Hok HQ Hcl; cbn [run_history fold_left].
  - exists S; split; [reflexivity | assumption].
  - destruct Hcl as [Hc1 Hc2].
    destruct (analyse_step2 lintf W S b Hok HQ Hc1) as [S1 [H1 Q1]]. rewrite H1.
    apply IH; assumption.
Qed.

Lemma worlds_prop_app : forall h1 h2 W, worlds_prop W (h1 ++ h2) -> worlds_prop W h1.
Proof.
  induction h1 as [|b h1 IH]; intros h2 W H; cbn [worlds_prop app] in *; [exact I|].
  destruct H as [H1 H2]; split; [assumption | eapply IH; eassumption].
Qed.

(* C01_incremental_eq_fresh_all_worlds *)
Theorem incremental_eq_fresh_all_worlds : forall lintf W0 h,
  lint_ok lintf -> wf_world W0 -> prop_world W0 -> worlds_prop W0 h ->
  forall n, exists S0 S F,
    fresh lintf W0 = Ok S0 /\
    run_history (analyse lintf) S0 (firstn n h) = Ok S /\
    fresh lintf (fold_left world_after (firstn n h) W0) = Ok F /\
    units S = units F /\
    (forall x, memo_get (a_memo (sast S)) x = memo_get (a_memo (sast F)) x) /\
    (forall k, lint_get (lintc S) k = lint_get (lintc F) k) /\
    (forall x, memo_get (a_memo (sast S)) x = ref (fold_left world_after (firstn n h) W0) x).
Proof.
  intros lintf W0 h Hok Hwf HP Hh n.
  assert (Hh' : worlds_prop W0 (firstn n h)).
  { rewrite <- (firstn_skipn n h) in Hh. eapply worlds_prop_app; eassumption. }
  destruct (fresh_quiescent2 lintf W0 Hok Hwf HP) as [S0 [HS0 Q0]].
  destruct (run_history_quiescent2 lintf (firstn n h) W0 S0 Hok Q0 Hh') as [S [HS QS]].
  destruct (fresh_quiescent2 lintf _ Hok (q2_wf _ _ _ QS) (q2_prop _ _ _ QS)) as [F [HF QF]].
  exists S0, S, F. split; [assumption|]. split; [assumption|]. split; [assumption|].
  destruct (quiescent2_unique lintf _ S F QS QF) as [H1 [H2 H3]].
  split; [assumption|]. split; [assumption|]. split; [assumption|].
  exact (quiescent2_ref _ _ _ QS).
Qed.

(* C01_no_spurious_cycle_all_worlds: a unit of the incremental run carries the circular flag
   iff its reads reach a cycle (the reference semantics `den` is undefined for it), which is
   also exactly when the fresh run flags it *)
Theorem circular_iff_bad : forall lintf W S, quiescent2 lintf W S ->
  forall x e, memo_get (a_memo (sast S)) x = Some e ->
    (r_circ (fst e) = true <-> den (length W) W x = None).
Proof.
  intros lintf W S Q x e Hx. rewrite (quiescent2_ref _ _ _ Q x) in Hx.
  pose proof (q2_prop _ _ _ Q) as HP. split.
  - intros Hc. destruct (den (length W) W x) as [e'|] eqn:Hd; [|reflexivity]. exfalso.
    rewrite (good_ref W HP _ _ _ Hd) in Hx; inversion Hx; subst e'.
    destruct (good_unflagged W HP _ _ _ Hd) as [Hf _]. congruence.
  - intros Hd. exact (bad_flagged W HP x e Hx Hd).
Qed.

Theorem no_spurious_cycle_all_worlds : forall lintf W0 h S0 S,
  lint_ok lintf -> wf_world W0 -> prop_world W0 -> worlds_prop W0 h ->
  fresh lintf W0 = Ok S0 -> run_history (analyse lintf) S0 h = Ok S ->
  forall x e, memo_get (a_memo (sast S)) x = Some e ->
    (r_circ (fst e) = true <-> den (length (fold_left world_after h W0)) (fold_left world_after h W0) x = None).
Proof.
  intros lintf W0 h S0 S Hok Hwf HP Hh HS0 HS x e Hx.
  destruct (fresh_quiescent2 lintf W0 Hok Hwf HP) as [S0' [HS0' Q0]].
  rewrite HS0 in HS0'; inversion HS0'; subst S0'.
  destruct (run_history_quiescent2 lintf h W0 S0 Hok Q0 Hh) as [S' [HS' QS]].
  rewrite HS in HS'; inversion HS'; subst S'.
  exact (circular_iff_bad lintf _ S QS x e Hx).
Qed.

(* C01_reset_covers_changed_reads for all worlds: a unit whose reference result is not the
   same after a batch of updates is in the reset set *)
Theorem reset_covers_changed_reads2 : forall lintf Wo S b,
  quiescent2 lintf Wo S -> prop_world (world_after Wo b) ->
  exists rr, reset (a_maps (sast (apply_batch S b))) (added (apply_batch S b)) (removed (apply_batch S b)) = Some rr /\
    forall x, ref (world_after Wo b) x <> ref Wo x -> In x (rr_all rr).
Proof.
  intros lintf Wo S b [Hu Ha Hr Hwfo HPo HA Htot Hlint] HPn.
  destruct (apply_batch_spec S b Wo Hwfo Hu Ha Hr) as [N [B1 [B2 [B3 [B4 [B5 [B6 [B7 B8]]]]]]]].
  set (S1 := apply_batch S b) in *. rewrite B8 in B1, B2.
  destruct (reset_gen_total true (a_maps (sast S1)) (added S1) (removed S1)) as [rr [Hrr Hall]].
  exists rr; split; [exact Hrr|].
  intros x Hne. destruct (in_dec uid_eq_dec x (rr_all rr)) as [Hin|Hnin]; [assumption|]. exfalso.
  apply Hne. rewrite B5 in Hrr.
  exact (stable2 Wo (world_after Wo b) N (sast S) (added S1) (removed S1) rr Hwfo B2 HPo HPn HA Htot B1 B3 B4 Hrr x Hnin).
Qed.
