(* Kernel/C03Search.v — a small self-contained model of the Search/Searcher protocol of
   vhdl_lang/src/ast/search.rs and of the cursor searchers used by the editor queries
   (ItemAtCursor, FindAllReferences, SemanticTokenCollector, FindAllUnresolved).
   Definitions only; proofs in Kernel/C03SearchProofs.v.  (coq/Search/ of C08 is a separate, richer model.)

   A traversal `impl Search for X { fn search(&self, ctx, searcher) -> SearchResult }` is a FRAME: a sequence of
   events, each guarded by `return_if_finished!` (searcher callbacks) or `return_if_found!` (nested frames):
     - a callback that answers Finished(r) ends the frame with r,
     - a nested frame that ends with Found ends the enclosing frame with Found; NotFound lets it continue.
   The searchers call `DesignRoot::get_ent(id)` = `FinalArena::get`, which PANICS on an id the root arena
   does not know: modelled by `get : entity_id -> option einfo` with None = panic = outcome Crash. *)
From Coq Require Import List NArith Bool.
Import ListNotations.
From RH Require Import Kernel.Arena.
Open Scope N_scope.

(* Position: (line, character), any u32 pair — also outside every text *)
Definition pos := (N * N)%type.
Definition pos_leb (a b : pos) : bool :=
  (fst a <? fst b) || ((fst a =? fst b) && (snd a <=? snd b)).

Record span := mkSpan { sp_file : N; sp_start : pos; sp_end : pos }.

(* what the searchers read of an entity: its declaration position *)
Record einfo := mkInfo { e_decl_pos : option span }.

Inductive ev :=
| Ref (p : span) (r : option entity_id)                 (* search_pos_with_ref / search_ident_ref / search_designator_ref *)
| Decl (r : option entity_id) (end_pos : option span)   (* search_decl: the declared entity, position of the end identifier *)
| WithPos (p : span)                                    (* search_with_pos *)
| Frame (body : list ev).                               (* a nested `search` call *)

(* SearchState *)
Inductive sstate := NotFinished | Finished (found : bool).

(* a searcher = state + three callbacks; None = panic inside the callback *)
Record searcher (S : Type) := mkSearcher {
  on_ref : S -> span -> option entity_id -> option (S * sstate);
  on_decl : S -> option entity_id -> option span -> option (S * sstate);
  on_with_pos : S -> span -> option (S * sstate)
}.
Arguments on_ref {S}. Arguments on_decl {S}. Arguments on_with_pos {S}.

(* outcome of a frame: the searcher state and the SearchResult, or a panic *)
Inductive outcome (S : Type) := Crash | Done (s : S) (found : bool).
Arguments Crash {S}. Arguments Done {S}.

Section Walk.
  Context {S : Type} (sr : searcher S).

  Definition callback (s : S) (e : ev) : option (S * sstate) :=
    match e with
    | Ref p r => on_ref sr s p r
    | Decl r ep => on_decl sr s r ep
    | WithPos p => on_with_pos sr s p
    | Frame _ => Some (s, NotFinished)
    end.

  (* effect of one event on the enclosing frame *)
  Inductive step := SCrash | SStop (s : S) (found : bool) | SGo (s : S).

  (* run one event; a nested frame runs its whole body (nested recursion over the event tree) *)
  Fixpoint walk_ev (s : S) (e : ev) {struct e} : step :=
    match e with
    | Frame b =>
        match (fix go (s : S) (l : list ev) {struct l} : outcome S :=
                 match l with
                 | [] => Done s false
                 | x :: t => match walk_ev s x with
                             | SCrash => Crash
                             | SStop s' r => Done s' r            (* return_if_finished! / return_if_found! *)
                             | SGo s' => go s' t
                             end
                 end) s b with
        | Crash => SCrash
        | Done s' true => SStop s' true                          (* return_if_found! *)
        | Done s' false => SGo s'
        end
    | _ =>
        match callback s e with
        | None => SCrash
        | Some (s', Finished r) => SStop s' r                    (* return_if_finished! *)
        | Some (s', NotFinished) => SGo s'
        end
    end.

  (* a frame = the body of one `search` function *)
  Fixpoint walk_frame (s : S) (body : list ev) {struct body} : outcome S :=
    match body with
    | [] => Done s false
    | x :: t => match walk_ev s x with
                | SCrash => Crash
                | SStop s' r => Done s' r
                | SGo s' => walk_frame s' t
                end
    end.
End Walk.

(* ---------------------------------------------------------------------------------------------- *)
(* the searchers                                                                                  *)
(* ---------------------------------------------------------------------------------------------- *)
Section Searchers.
  Variable get : entity_id -> option einfo.

  (* ItemAtCursor::is_inside: pos.start() <= cursor && cursor <= pos.end() *)
  Definition inside (cursor : pos) (p : span) : bool :=
    pos_leb (sp_start p) cursor && pos_leb cursor (sp_end p).

  (* ItemAtCursor; state = result : Option<(SrcPos, EntRef)> *)
  Definition iac_state := option (span * entity_id).

  Definition iac (cursor : pos) : searcher iac_state :=
    mkSearcher iac_state
      (fun s p r =>
         if inside cursor p then
           match r with
           | Some id => match get id with
                        | Some _ => Some (Some (p, id), Finished true)
                        | None => None                                  (* get_ent panics *)
                        end
           | None => Some (s, Finished false)
           end
         else Some (s, NotFinished))
      (fun s r ep =>
         match r with
         | Some id =>
             match get id with
             | None => None
             | Some inf =>
                 match (match e_decl_pos inf with
                        | Some dp => if inside cursor dp then Some dp else None
                        | None => None
                        end) with
                 | Some dp => Some (Some (dp, id), Finished true)
                 | None =>
                     match ep with
                     | Some e => if inside cursor e then Some (Some (e, id), Finished true)
                                 else Some (s, NotFinished)
                     | None => Some (s, NotFinished)
                     end
                 end
             end
         | None => Some (s, NotFinished)
         end)
      (fun s p => if inside cursor p then Some (s, NotFinished) else Some (s, Finished false)).

  (* FindAllReferences; `is_reference` is abstract (a total relation on the two entities) *)
  Variable is_reference : entity_id -> entity_id -> bool.

  Definition far (target : entity_id) : searcher (list span) :=
    mkSearcher (list span)
      (fun s p r =>
         match r with
         | Some id => match get id with
                      | None => None
                      | Some _ => Some (if is_reference target id then s ++ [p] else s, NotFinished)
                      end
         | None => Some (s, NotFinished)
         end)
      (fun s r ep =>
         match r with
         | Some id =>
             match get id with
             | None => None
             | Some inf =>
                 if is_reference target id then
                   Some (s ++ (match e_decl_pos inf with Some dp => [dp] | None => [] end)
                           ++ (match ep with Some e => [e] | None => [] end), NotFinished)
                 else Some (s, NotFinished)
             end
         | None => Some (s, NotFinished)
         end)
      (fun s _ => Some (s, NotFinished)).

  (* SemanticTokenCollector for the file `file` *)
  Definition stc (file : N) : searcher (list (span * entity_id)) :=
    mkSearcher (list (span * entity_id))
      (fun s p r =>
         match r with
         | Some id => match get id with None => None | Some _ => Some (s ++ [(p, id)], NotFinished) end
         | None => Some (s, NotFinished)
         end)
      (fun s r _ =>
         match r with
         | Some id =>
             match get id with
             | None => None
             | Some inf =>
                 match e_decl_pos inf with
                 | Some dp => Some (if sp_file dp =? file then s ++ [(dp, id)] else s, NotFinished)
                 | None => Some (s, NotFinished)
                 end
             end
         | None => Some (s, NotFinished)
         end)
      (fun s _ => Some (s, NotFinished)).

  (* FindAllUnresolved: never looks an entity up *)
  Definition fau : searcher (N * list span) :=
    mkSearcher (N * list span)
      (fun s p r => Some ((fst s + 1, match r with None => snd s ++ [p] | Some _ => snd s end), NotFinished))
      (fun s _ _ => Some (s, NotFinished))
      (fun s _ => Some (s, NotFinished)).
End Searchers.

(* ---------------------------------------------------------------------------------------------- *)
(* what "occurs in the tree" means                                                                *)
(* ---------------------------------------------------------------------------------------------- *)
Fixpoint ids_ev (e : ev) : list entity_id :=
  match e with
  | Ref _ (Some id) => [id]
  | Decl (Some id) _ => [id]
  | Frame b => flat_map ids_ev b
  | _ => []
  end.
Definition ids_of (body : list ev) : list entity_id := flat_map ids_ev body.

(* the positions written in the tree itself *)
Fixpoint spans_ev (e : ev) : list span :=
  match e with
  | Ref p _ => [p]
  | Decl _ (Some ep) => [ep]
  | Frame b => flat_map spans_ev b
  | _ => []
  end.
Definition spans_of (body : list ev) : list span := flat_map spans_ev body.

(* a position is "from the tree" if it is written in the tree or is the declaration position of an entity whose id
   is written in the tree (and which `get` resolves) *)
Definition from_tree (get : entity_id -> option einfo) (body : list ev) (p : span) : Prop :=
  In p (spans_of body) \/
  exists id inf, In id (ids_of body) /\ get id = Some inf /\ e_decl_pos inf = Some p.

Definition ids_resolved (get : entity_id -> option einfo) (body : list ev) : Prop :=
  forall id, In id (ids_of body) -> get id <> None.
