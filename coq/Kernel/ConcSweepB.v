(* Kernel/ConcSweepB.v — thorough-tier finite sweep (about 3 minutes of vm_compute): all 625
   request graphs with 4 units and request lists of at most 1 entry, 2 workers, every
   interleaving. *)
From Coq Require Import List Arith Bool.
Import ListNotations.
From RH Require Import Kernel.Conc Kernel.ConcProofs.

Lemma sweep_4_1_2 : sweep 200000 2 (graphs 4 1) = true.
Proof. vm_compute. reflexivity. Qed.

Theorem finite_sweep_4_1_2 : forall deps, small_graph 4 1 deps ->
  forall s, reach deps false (init (length deps) 2) s ->
    stuck deps false s = false /\ (final s = true -> locks s = seq_result deps false 200000).
Proof. intros deps H. exact (sweep_sound 200000 2 4 1 deps sweep_4_1_2 H). Qed.
