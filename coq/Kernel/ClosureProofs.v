(* Kernel/ClosureProofs.v — `get_all_affected` never runs out of fuel and computes exactly the
   set of transitive users; boolean reflection lemmas for World.v / Reset.v. *)
From Coq Require Import List NArith Arith Bool Lia.
Import ListNotations.
From RH Require Import Kernel.World Kernel.Reset Kernel.Incr Kernel.Inv.
Open Scope N_scope.

Lemma uid_eqb_true : forall a b, uid_eqb a b = true <-> a = b.
Proof. intros a b; unfold uid_eqb; destruct (uid_eq_dec a b); split; congruence. Qed.
Lemma uid_eqb_refl : forall a, uid_eqb a a = true.
Proof. intros a; apply uid_eqb_true; reflexivity. Qed.
Lemma uid_eqb_false : forall a b, uid_eqb a b = false <-> a <> b.
Proof. intros a b; unfold uid_eqb; destruct (uid_eq_dec a b); split; congruence. Qed.
Lemma slot_eqb_true : forall a b, slot_eqb a b = true <-> a = b.
Proof. intros a b; unfold slot_eqb; destruct (slot_eq_dec a b); split; congruence. Qed.
Lemma slot_eqb_refl : forall a, slot_eqb a a = true.
Proof. intros a; apply slot_eqb_true; reflexivity. Qed.
Lemma slot_eqb_false : forall a b, slot_eqb a b = false <-> a <> b.
Proof. intros a b; unfold slot_eqb; destruct (slot_eq_dec a b); split; congruence. Qed.

Lemma mem_uid_In : forall x l, mem_uid x l = true <-> In x l.
Proof.
  intros x l; unfold mem_uid; rewrite existsb_exists; split.
  - intros [y [Hy He]]; apply uid_eqb_true in He; subst; assumption.
  - intros H; exists x; split; [assumption | apply uid_eqb_refl].
Qed.
Lemma mem_uid_false : forall x l, mem_uid x l = false <-> ~ In x l.
Proof.
  intros x l; rewrite <- mem_uid_In; destruct (mem_uid x l); split; congruence.
Qed.
Lemma mem_slot_In : forall x l, mem_slot x l = true <-> In x l.
Proof.
  intros x l; unfold mem_slot; rewrite existsb_exists; split.
  - intros [y [Hy He]]; apply slot_eqb_true in He; subst; assumption.
  - intros H; exists x; split; [assumption | apply slot_eqb_refl].
Qed.
Lemma mem_lib_In : forall x l, mem_lib x l = true <-> In x l.
Proof.
  intros x l; unfold mem_lib; rewrite existsb_exists; split.
  - intros [y [Hy He]]; apply N.eqb_eq in He; subst; assumption.
  - intros H; exists x; split; [assumption | apply N.eqb_refl].
Qed.

Lemma add_uid_In : forall x y l, In y (add_uid x l) <-> y = x \/ In y l.
Proof.
  intros x y l; unfold add_uid; destruct (mem_uid x l) eqn:Hm.
  - apply mem_uid_In in Hm; split; [auto | intros [->|H]; assumption].
  - cbn [In]; split; intros [H|H]; auto.
Qed.

Lemma edge_eqb_true : forall a b, edge_eqb a b = true <-> a = b.
Proof.
  intros [a1 a2] [b1 b2]; unfold edge_eqb; cbn [fst snd].
  rewrite andb_true_iff, !uid_eqb_true; split; [intros [-> ->]; reflexivity | intros H; inversion H; auto].
Qed.
Lemma lpair_eqb_true : forall a b, lpair_eqb a b = true <-> a = b.
Proof.
  intros [a1 a2] [b1 b2]; unfold lpair_eqb; cbn [fst snd].
  rewrite andb_true_iff, N.eqb_eq, uid_eqb_true; split; [intros [-> ->]; reflexivity | intros H; inversion H; auto].
Qed.
Lemma mpair_eqb_true : forall a b, mpair_eqb a b = true <-> a = b.
Proof.
  intros [a1 a2] [b1 b2]; unfold mpair_eqb; cbn [fst snd].
  rewrite andb_true_iff, slot_eqb_true, uid_eqb_true; split; [intros [-> ->]; reflexivity | intros H; inversion H; auto].
Qed.

Lemma add_edge_In : forall e e' l, In e' (add_edge e l) <-> e' = e \/ In e' l.
Proof.
  intros e e' l; unfold add_edge; destruct (existsb (edge_eqb e) l) eqn:Hm.
  - apply existsb_exists in Hm; destruct Hm as [y [Hy He]]; apply edge_eqb_true in He; subst y.
    split; [auto | intros [->|H]; assumption].
  - cbn [In]; split; intros [H|H]; auto.
Qed.
Lemma add_lpair_In : forall e e' l, In e' (add_lpair e l) <-> e' = e \/ In e' l.
Proof.
  intros e e' l; unfold add_lpair; destruct (existsb (lpair_eqb e) l) eqn:Hm.
  - apply existsb_exists in Hm; destruct Hm as [y [Hy He]]; apply lpair_eqb_true in He; subst y.
    split; [auto | intros [->|H]; assumption].
  - cbn [In]; split; intros [H|H]; auto.
Qed.
Lemma add_mpair_In : forall e e' l, In e' (add_mpair e l) <-> e' = e \/ In e' l.
Proof.
  intros e e' l; unfold add_mpair; destruct (existsb (mpair_eqb e) l) eqn:Hm.
  - apply existsb_exists in Hm; destruct Hm as [y [Hy He]]; apply mpair_eqb_true in He; subst y.
    split; [auto | intros [->|H]; assumption].
  - cbn [In]; split; intros [H|H]; auto.
Qed.

Lemma users_of_unit_In : forall E v x, In x (users_of_unit E v) <-> In (v, x) E.
Proof.
  intros E v x; unfold users_of_unit; rewrite in_map_iff; split.
  - intros [[a b] [Hb Hin]]; cbn [snd] in Hb; subst b.
    apply filter_In in Hin; destruct Hin as [Hin He]; cbn [fst] in He.
    apply uid_eqb_true in He; subst a; assumption.
  - intros H; exists (v, x); split; [reflexivity|].
    apply filter_In; split; [assumption | cbn [fst]; apply uid_eqb_refl].
Qed.

(* ------------------------------------------------------------------------------------ *)
(* one `for new_user in users` loop *)
Lemma fold_visit_user_spec : forall ys a nx,
  (forall x, In x (fst (fold_left visit_user ys (a, nx))) <-> In x a \/ In x ys) /\
  (forall x, In x (snd (fold_left visit_user ys (a, nx))) <-> In x nx \/ (In x ys /\ ~ In x a)).
Proof.
  induction ys as [|y ys IH]; intros a nx; cbn [fold_left].
  - cbn [fst snd In]; split; intros x; tauto.
  - replace (visit_user (a, nx) y) with (if mem_uid y a then (a, nx) else (y :: a, y :: nx)) by reflexivity.
    destruct (mem_uid y a) eqn:Hm.
    + apply mem_uid_In in Hm.
      destruct (IH a nx) as [H1 H2]; split; intros x.
      * rewrite H1; cbn [In]; split; [tauto | intros [H|[H|H]]; subst; tauto].
      * rewrite H2; cbn [In]; split; [tauto |].
        intros [H|[[H|H] Hn]]; [tauto | subst; tauto | tauto].
    + apply mem_uid_false in Hm.
      destruct (IH (y :: a) (y :: nx)) as [H1 H2]; split; intros x.
      * rewrite H1; cbn [In]; tauto.
      * rewrite H2; cbn [In].
        destruct (uid_eq_dec y x) as [->|Hne]; [tauto|]. tauto.
Qed.

Lemma visit_spec : forall E a nx u,
  (forall x, In x (fst (visit E (a, nx) u)) <-> x = u \/ In x a \/ In (u, x) E) /\
  (forall x, In x (snd (visit E (a, nx) u)) <-> In x nx \/ (In (u, x) E /\ x <> u /\ ~ In x a)).
Proof.
  intros E a nx u; unfold visit; cbn [fst snd].
  destruct (fold_visit_user_spec (users_of_unit E u) (add_uid u a) nx) as [H1 H2].
  split; intros x.
  - rewrite H1, add_uid_In, users_of_unit_In; tauto.
  - rewrite H2, add_uid_In, users_of_unit_In; tauto.
Qed.

Lemma fold_visit_spec : forall E front a nx,
  (forall x, In x (fst (fold_left (visit E) front (a, nx))) <-> In x a \/ In x front \/ exists u, In u front /\ In (u, x) E) /\
  (forall x, In x (snd (fold_left (visit E) front (a, nx))) -> In x nx \/ (~ In x a /\ exists u, In u front /\ In (u, x) E)) /\
  (forall x, ~ In x a -> ~ In x front -> (exists u, In u front /\ In (u, x) E) -> In x (snd (fold_left (visit E) front (a, nx)))) /\
  incl nx (snd (fold_left (visit E) front (a, nx))).
Proof.
  intros E; induction front as [|u0 front IH]; intros a nx; cbn [fold_left].
  - cbn [fst snd In]; repeat split.
    + intros H; auto.
    + intros [H|[[]|[u [[] _]]]]; assumption.
    + intros x H; auto.
    + intros x _ _ [u [[] _]].
    + intros x H; exact H.
  - destruct (visit E (a, nx) u0) as [a1 nx1] eqn:Hv.
    pose proof (visit_spec E a nx u0) as Hs; rewrite Hv in Hs; cbn [fst snd] in Hs.
    destruct Hs as [Ha1 Hnx1].
    destruct (IH a1 nx1) as [F1 [F2 [F3 F4]]].
    split; [|split; [|split]].
    + intros x; rewrite F1, Ha1; cbn [In]; split.
      * intros [[H|[H|H]]|[H|[u [Hu He]]]]; subst; eauto 6.
      * intros [H|[[H|H]|[u [[H|H] He]]]]; subst; eauto 6.
    + intros x Hx; apply F2 in Hx; destruct Hx as [Hx|[Hn [u [Hu He]]]].
      * apply Hnx1 in Hx; destruct Hx as [Hx|[He [Hne Hn]]]; [left; assumption|].
        right; split; [assumption | exists u0; split; [left; reflexivity | assumption]].
      * right; split.
        -- intros Hc; apply Hn; apply Ha1; auto.
        -- exists u; split; [right; assumption | assumption].
    + intros x Hna Hnf [u [Hu He]].
      destruct (mem_uid x a1) eqn:Hm.
      * apply mem_uid_In in Hm; apply Ha1 in Hm.
        destruct Hm as [Hm|[Hm|Hm]].
        -- subst x; exfalso; apply Hnf; left; reflexivity.
        -- exfalso; auto.
        -- apply F4; apply Hnx1; right; split; [assumption|]; split; [|assumption].
           intros ->; apply Hnf; left; reflexivity.
      * apply mem_uid_false in Hm.
        destruct Hu as [Hu|Hu].
        -- subst u; exfalso; apply Hm; apply Ha1; auto.
        -- apply F3; [assumption | intros Hc; apply Hnf; right; assumption | exists u; auto].
    + intros x Hx; apply F4; apply Hnx1; left; assumption.
Qed.

(* measure: users of edges that are not yet in `all` *)
Definition mu (E : list (uid * uid)) (all : list uid) : nat :=
  length (filter (fun y => negb (mem_uid y all)) (map snd E)).

Lemma filter_length_lt : forall (A : Type) (p p' : A -> bool) (l : list A),
  (forall y, p' y = true -> p y = true) ->
  (exists y, In y l /\ p y = true /\ p' y = false) ->
  (length (filter p' l) < length (filter p l))%nat.
Proof.
  intros A p p' l Himp; induction l as [|z l IH]; intros [y [Hy [Hp Hp']]].
  - destruct Hy.
  - assert (Hle : forall l0 : list A, (length (filter p' l0) <= length (filter p l0))%nat).
    { induction l0 as [|w l0 IH0]; cbn [filter length]; [lia|].
      destruct (p' w) eqn:E1.
      - rewrite (Himp w E1); cbn [length]; lia.
      - destruct (p w); cbn [length]; lia. }
    cbn [filter]. destruct Hy as [Hy|Hy].
    + subst z; rewrite Hp, Hp'; cbn [length]. specialize (Hle l); lia.
    + assert (IH' : (length (filter p' l) < length (filter p l))%nat)
        by (apply IH; exists y; auto).
      destruct (p' z) eqn:E1.
      * rewrite (Himp z E1); cbn [length]; lia.
      * destruct (p z); cbn [length]; lia.
Qed.

Lemma mu_le : forall E all, (mu E all <= length E)%nat.
Proof.
  intros E all; unfold mu.
  assert (H : forall (l : list uid) p, (length (filter p l) <= length l)%nat).
  { induction l as [|z l IHl]; intros p; cbn [filter length]; [lia|].
    destruct (p z); cbn [length]; specialize (IHl p); lia. }
  etransitivity; [apply H|]. rewrite map_length; lia.
Qed.

Lemma gaa_spec : forall f E init front all,
  (forall x, In x all -> reach E init x) ->
  (forall x, In x front -> reach E init x) ->
  (forall v x, In v all -> ~ In v front -> In (v, x) E -> In x all) ->
  (forall x, In x init -> In x all \/ In x front) ->
  (front = [] \/ (mu E all < f)%nat) ->
  exists R, gaa f E front all = Some R /\ (forall x, In x R <-> reach E init x).
Proof.
  induction f as [|f IH]; intros E init front all Hall Hfront Hclosed Hinit Hfuel.
  - destruct Hfuel as [->|Hlt]; [|lia].
    cbn [gaa]. exists all; split; [reflexivity|].
    intros x; split; [apply Hall|].
    intros Hr; induction Hr as [x Hx | v x Hr IHr He].
    + destruct (Hinit x Hx) as [H|[]]; assumption.
    + apply (Hclosed v x IHr); [intros [] | assumption].
  - destruct front as [|u0 front'].
    + cbn [gaa]. exists all; split; [reflexivity|].
      intros x; split; [apply Hall|].
      intros Hr; induction Hr as [x Hx | v x Hr IHr He].
      * destruct (Hinit x Hx) as [H|[]]; assumption.
      * apply (Hclosed v x IHr); [intros [] | assumption].
    + set (front := u0 :: front') in *.
      cbn [gaa]. fold front.
      destruct (fold_visit_spec E front all []) as [F1 [F2 [F3 F4]]].
      set (r := fold_left (visit E) front (all, [])) in *.
      assert (Hreach_all' : forall x, In x (fst r) -> reach E init x).
      { intros x Hx; apply F1 in Hx; destruct Hx as [Hx|[Hx|[u [Hu He]]]].
        - apply Hall; assumption.
        - apply Hfront; assumption.
        - apply reach_step with u; [apply Hfront; assumption | assumption]. }
      assert (Hnext_in : forall x, In x (snd r) -> In x (fst r) /\ ~ In x all /\ In x (map snd E)).
      { intros x Hx; apply F2 in Hx; destruct Hx as [[]|[Hn [u [Hu He]]]].
        split; [apply F1; right; right; exists u; auto | split; [assumption|]].
        apply in_map_iff; exists (u, x); auto. }
      apply IH.
      * exact Hreach_all'.
      * intros x Hx; apply Hreach_all'; apply Hnext_in; assumption.
      * intros v x Hv Hnn He.
        apply F1 in Hv. apply F1.
        destruct (mem_uid v front) eqn:Hvf.
        -- apply mem_uid_In in Hvf; right; right; exists v; auto.
        -- apply mem_uid_false in Hvf.
           destruct Hv as [Hv|[Hv|[u [Hu Hue]]]].
           ++ left; apply (Hclosed v x Hv Hvf He).
           ++ exfalso; auto.
           ++ destruct (mem_uid v all) eqn:Hva.
              ** apply mem_uid_In in Hva; left; apply (Hclosed v x Hva Hvf He).
              ** apply mem_uid_false in Hva. exfalso; apply Hnn.
                 apply F3; [assumption | assumption | exists u; auto].
      * intros x Hx; left; apply F1. destruct (Hinit x Hx) as [H|H]; auto.
      * destruct (snd r) as [|y next'] eqn:Hnext; [left; reflexivity | right].
        destruct Hfuel as [Hf|Hf]; [discriminate Hf|].
        assert (Hy : In y (y :: next')) by (left; reflexivity).
        destruct (Hnext_in y Hy) as [Hy1 [Hy2 Hy3]].
        assert (Hlt : (mu E (fst r) < mu E all)%nat).
        { unfold mu; apply filter_length_lt.
          - intros z Hz; apply negb_true_iff in Hz; apply negb_true_iff.
            apply mem_uid_false in Hz; apply mem_uid_false.
            intros Hc; apply Hz; apply F1; left; assumption.
          - exists y; split; [assumption|]; split.
            + apply negb_true_iff; apply mem_uid_false; assumption.
            + apply negb_false_iff; apply mem_uid_In; assumption. }
        lia.
Qed.

Theorem get_all_affected_spec : forall E init,
  exists R, get_all_affected E init = Some R /\ (forall x, In x R <-> reach E init x).
Proof.
  intros E init; unfold get_all_affected.
  apply gaa_spec.
  - intros x [].
  - intros x Hx; apply reach_init; assumption.
  - intros v x [].
  - intros x Hx; right; assumption.
  - right. pose proof (mu_le E []); lia.
Qed.

Lemma reach_closed : forall E init v x, reach E init v -> In (v, x) E -> reach E init x.
Proof. intros; eapply reach_step; eauto. Qed.

Lemma reach_mono_init : forall E i1 i2 x, incl i1 i2 -> reach E i1 x -> reach E i2 x.
Proof.
  intros E i1 i2 x Hi Hr; induction Hr as [x Hx | v x Hr IHr He].
  - apply reach_init; apply Hi; assumption.
  - eapply reach_step; eauto.
Qed.

Lemma reach_mono_edges : forall E1 E2 i x, incl E1 E2 -> reach E1 i x -> reach E2 i x.
Proof.
  intros E1 E2 i x Hi Hr; induction Hr as [x Hx | v x Hr IHr He].
  - apply reach_init; assumption.
  - eapply reach_step; [eassumption | apply Hi; assumption].
Qed.

Lemma make_use_of_spec : forall M user unit,
  exists all, make_use_of M user unit
              = Some (mkMaps (add_edge (unit, user) (users_of M)) (users_all M) (missing M),
                      negb (mem_uid unit all))
          /\ (forall x, In x all <-> reach (add_edge (unit, user) (users_of M)) [user] x).
Proof.
  intros M user unit; unfold make_use_of.
  destruct (get_all_affected_spec (add_edge (unit, user) (users_of M)) [user]) as [R [HR Hs]].
  rewrite HR; exists R; split; [reflexivity | assumption].
Qed.

Lemma reset_gen_total : forall fixed M added removed,
  exists rr, reset_gen fixed M added removed = Some rr
          /\ (forall x, In x (rr_all rr) <-> reach (users_of M) (affected_seed M added removed) x).
Proof.
  intros fixed M added removed; unfold reset_gen.
  destruct (get_all_affected_spec (users_of M) (affected_seed M added removed)) as [R [HR Hs]].
  rewrite HR; eexists; split; [reflexivity | cbn [rr_all]; assumption].
Qed.
