(* Kernel/Reset2Proofs.v — `DesignRoot::reset` is sound in ANY world (propagating analyses):
   a unit outside the reset set has the same reference result `ref` in the new world, and the
   analysis state after `reset` satisfies `good2` for the new world. *)
From Coq Require Import List NArith Arith Bool Lia.
Import ListNotations.
From RH Require Import Kernel.World Kernel.Reset Kernel.Incr Kernel.Inv Kernel.Ref
  Kernel.ClosureProofs Kernel.DenProofs Kernel.SimProofs Kernel.BatchProofs Kernel.ResetProofs
  Kernel.RefProofs Kernel.Sim2Proofs.
Open Scope N_scope.

(* ---- list lemmas about use_all_in_library loops ---- *)
Lemma den_all_proc_le : forall g1 g2 L, getd_le g1 g2 -> incl (den_all_proc g1 L) (den_all_proc g2 L).
Proof.
  intros g1 g2; induction L as [|v L IH]; intros Hle x Hx; cbn [den_all_proc] in *; [destruct Hx|].
  assert (Hhd : In v (match g2 v with Some r => if r_circ r then [v] else v :: den_all_proc g2 L | None => [v] end)).
  { destruct (g2 v) as [r|]; [destruct (r_circ r)|]; left; reflexivity. }
  destruct (g1 v) as [r|] eqn:Hg.
  - rewrite (Hle _ _ Hg). destruct (r_circ r); [exact Hx|].
    destruct Hx as [<-|Hx]; [left; reflexivity | right; apply IH; assumption].
  - destruct Hx as [<-|[]]; exact Hhd.
Qed.

(* a loop that does not run to the end only depends on the units it touches: they may be
   followed by anything, and units it does not touch may be dropped *)
Lemma den_all_survive : forall (k : uid -> bool) gdo gdn X Lo acc,
  (forall v, In v (den_all_proc gdo Lo) -> k v = true /\ gdn v = gdo v) ->
  (forall r, den_all gdo Lo acc <> Some (r, true)) ->
  den_all gdn (filter k Lo ++ X) acc = den_all gdo Lo acc.
Proof.
  intros k gdo gdn X; induction Lo as [|v Lo IH]; intros acc Hp Hstop.
  - exfalso; apply (Hstop (rev acc)); reflexivity.
  - cbn [den_all_proc] in Hp. cbn [filter].
    assert (Hv : k v = true /\ gdn v = gdo v).
    { apply Hp. destruct (gdo v) as [r|]; [destruct (r_circ r)|]; left; reflexivity. }
    destruct Hv as [Hk Hg]. rewrite Hk. cbn [app den_all]. rewrite Hg.
    destruct (gdo v) as [r|] eqn:Hgo; [|reflexivity].
    destruct (r_circ r) eqn:Hc; [reflexivity|].
    apply IH.
    + intros w Hw; apply Hp; right; assumption.
    + intros r' Hr'. apply (Hstop r'). cbn [den_all]. rewrite Hgo, Hc. exact Hr'.
Qed.

Lemma den_all_false_length : forall gd L acc r, den_all gd L acc = Some (r, false) ->
  (S (length r - length acc) <= length L)%nat.
Proof.
  intros gd; induction L as [|v L IH]; intros acc r H; cbn [den_all] in H; [discriminate|].
  destruct (gd v) as [rv|]; [|discriminate]. destruct (r_circ rv).
  - inversion H; subst. rewrite rev_length, Nat.sub_diag. cbn [length]; lia.
  - pose proof (den_all_length _ _ _ _ _ H) as Hl. apply IH in H. cbn [length] in *. lia.
Qed.

Lemma firstn_filter_app : forall (k : uid -> bool) n L X,
  (forall x, In x (firstn n L) -> k x = true) -> (n <= length L)%nat ->
  firstn n (filter k L ++ X) = firstn n L.
Proof.
  intros k; induction n as [|n IH]; intros L X Hk Hn; [reflexivity|].
  destruct L as [|a L]; [cbn [length] in Hn; lia|].
  cbn [firstn filter] in *. rewrite (Hk a (or_introl eq_refl)). cbn [app firstn]. f_equal.
  apply IH; [intros x Hx; apply Hk; right; assumption | cbn [length] in Hn; lia].
Qed.

Lemma primaries_filter : forall rm W l,
  primaries (filter (not_in rm) W) l = filter (fun v => negb (mem_uid v rm)) (primaries W l).
Proof.
  intros rm; induction W as [|[v p] W IH]; intros l; [reflexivity|].
  unfold primaries in *; cbn [filter fst]. unfold not_in at 1; cbn [fst].
  destruct (negb (mem_uid v rm)) eqn:Hk; cbn [filter fst].
  - destruct (is_primary v && (u_lib v =? l)); cbn [map filter fst]; [rewrite Hk|]; rewrite IH; reflexivity.
  - destruct (is_primary v && (u_lib v =? l)); cbn [map filter fst]; [rewrite Hk|]; rewrite IH; reflexivity.
Qed.

Section Reset2.
  Variables Wo Wn N : world.
  Variable A : ast.
  Variables ad rm : list uid.
  Variable rr : reset_result.
  Hypothesis Hwfo : wf_world Wo.
  Hypothesis Hwfn : wf_world Wn.
  Hypothesis HPo : prop_world Wo.
  Hypothesis HPn : prop_world Wn.
  Hypothesis HA : good2 Wo A.
  Hypothesis Htot : total Wo A.
  Hypothesis HWn : Wn = filter (not_in rm) Wo ++ N.
  Hypothesis Had : forall x, In x ad <-> In x (unit_ids N).
  Hypothesis Hrm : forall x, In x rm -> In x (unit_ids Wo).
  Hypothesis Hrr : reset (a_maps A) ad rm = Some rr.

  Let M := a_maps A.
  Let all := rr_all rr.

  Lemma closed2 : forall v x, In (v, x) (users_of M) -> ~ In x all -> ~ In v all.
  Proof. intros v x He Hx Hv; apply Hx; exact (all_closed A ad rm rr Hrr v x Hv He). Qed.

  Lemma not_rm2 : forall v, ~ In v all -> ~ In v rm.
  Proof. intros v Hv; exact (proj1 (not_all_not_rm A ad rm rr Hrr v Hv)). Qed.

  Lemma primaries_Wn : forall l,
    primaries Wn l = filter (fun v => negb (mem_uid v rm)) (primaries Wo l) ++ primaries N l.
  Proof. intros l; rewrite HWn, primaries_app, primaries_filter; reflexivity. Qed.

  (* the entry of a unit of the old world *)
  Lemma old_entry2 : forall x e, ref Wo x = Some e ->
    memo_get (a_memo A) x = Some e /\ Forall (reg_event2 Wo M x) (snd e).
  Proof.
    intros x e Hr. destruct (ref_present _ _ _ Hr) as [p [_ Hin]].
    assert (Hx : In x (unit_ids Wo)) by (apply unit_ids_In; eauto).
    pose proof (Htot x Hx) as Hm. destruct (memo_get (a_memo A) x) as [e'|] eqn:He'; [|congruence].
    pose proof (g2_memo _ _ HA x e' He') as Hr'. rewrite Hr in Hr'; inversion Hr'; subst e'.
    split; [reflexivity | apply (g2_reg _ _ HA x e He')].
  Qed.

  (* one answer: new world / new callback against old world / old callback *)
  Lemma answer_eq2 : forall gdo gdn x q a,
    getd_le gdo (oracle Wo) -> (forall v, ~ In v all -> gdn v = gdo v) ->
    ~ In x all -> den_answer Wo (oracle Wo) x q = Some a -> reg_event2 Wo M x (q, a) ->
    den_answer Wn gdn x q = den_answer Wo gdo x q.
  Proof.
    intros gdo gdn x q a Hle Heq Hx Href [Hru Hrk].
    destruct q as [s|l|]; cbn [den_answer] in *.
    - cbn [ev_reads] in Hru. destruct (get_slot Wo s) as [[v p]|] eqn:Hs.
      + assert (Hv : ~ In v all) by (apply (closed2 v x); [apply Hru; left; reflexivity | assumption]).
        rewrite (K1' Wo Wn N rm Hwfn HWn _ _ _ Hs (not_rm2 v Hv)), (Heq v Hv); reflexivity.
      + inversion Href; subst a.
        destruct (get_slot Wn s) as [[w p]|] eqn:Hsn; [|reflexivity]. exfalso.
        destruct (get_slot_In _ _ _ _ Hsn) as [Hin Hsw].
        destruct (rm_not_in_old_slot Wo Wn N ad rm Hwfo HWn Had Hrm s w p Hs Hin Hsw) as [Hwad Hwrm].
        apply Hx. apply (seed_all A ad rm rr Hrr). apply (seed_missing A ad rm w x Hwad Hwrm).
        rewrite Hsw; exact Hrk.
    - destruct (l =? u_lib x) eqn:Hl; [reflexivity|].
      destruct (den_all (oracle Wo) (primaries Wo l) []) as [[vs b]|] eqn:Hd; [|discriminate].
      pose proof (den_all_proc_spec _ _ _ _ _ Hd) as Hproc. cbn [length] in Hproc. rewrite Nat.sub_0_r in Hproc.
      assert (Hreads : forall v, In v (den_all_proc (oracle Wo) (primaries Wo l)) -> ~ In v all).
      { intros v Hv. apply (closed2 v x); [|assumption]. apply Hru.
        destruct b; inversion Href; subst a; cbn [ev_reads]; rewrite Hproc in Hv; [|assumption].
        destruct (den_all_complete _ _ _ _ Hd) as [Hvs _]. cbn [rev app] in Hvs.
        rewrite Hvs, map_map; cbn [fst]; rewrite map_id; assumption. }
      destruct b.
      + (* the loop ran to the end: the library has the same primary units *)
        inversion Href; subst a; clear Href. rewrite Hproc in Hreads.
        assert (Hprim : primaries Wn l = primaries Wo l).
        { apply (primaries_stable Wo Wn N ad rm HWn Had).
          - intros v Hv; apply not_rm2; apply Hreads; assumption.
          - intros w Hwad Hwp Hwl.
            assert (Hwrm : ~ In w rm).
            { intros Hc. assert (Hw : In w (primaries Wo l)) by (apply primaries_In; auto).
              exact (not_rm2 w (Hreads w Hw) Hc). }
            apply Hx. apply (seed_all A ad rm rr Hrr). apply (seed_liball A ad rm w x); [right; auto|].
            rewrite Hwl; exact Hrk. }
        rewrite Hprim.
        rewrite (den_all_ext_on gdn gdo (primaries Wo l) []); [reflexivity|].
        intros v Hv; apply Heq; apply Hreads; assumption.
      + (* the loop left early: only the units it touched matter *)
        rewrite primaries_Wn.
        rewrite (den_all_survive (fun v => negb (mem_uid v rm)) gdo gdn (primaries N l) (primaries Wo l) []); [reflexivity| |].
        * intros v Hv.
          assert (Hva : ~ In v all) by (apply Hreads; eapply den_all_proc_le; eassumption).
          split; [apply negb_true_iff; apply mem_uid_false; apply not_rm2; assumption | apply Heq; assumption].
        * intros r Hr. rewrite (den_all_le _ _ _ _ _ Hle Hr) in Hd; discriminate.
    - rewrite (has_body_stable Wo Wn N A ad rm rr Hwfo Hwfn HWn Had Hrm Hrr x Hx); reflexivity.
  Qed.

  Lemma run_eq2 : forall gdo gdn x e,
    getd_le gdo (oracle Wo) -> (forall v, ~ In v all -> gdn v = gdo v) ->
    ~ In x all -> Forall (reg_event2 Wo M x) (snd e) ->
    forall p tr, den_run Wo (oracle Wo) x p tr = Some e ->
    den_run Wn gdn x p tr = den_run Wo gdo x p tr.
  Proof.
    intros gdo gdn x e Hle Heq Hx Hreg; induction p as [c t|q k IH]; intros tr Hden; cbn [den_run] in *; [reflexivity|].
    destruct (den_answer Wo (oracle Wo) x q) as [a|] eqn:Ha; [|discriminate].
    assert (Hev : reg_event2 Wo M x (q, a)).
    { destruct (den_run_prefix _ _ _ _ _ _ Hden) as [rest Hrest].
      rewrite Forall_forall in Hreg; apply Hreg.
      replace (snd e) with (rev ((q, a) :: tr) ++ rest).
      apply in_or_app; left; cbn [rev]; apply in_or_app; right; left; reflexivity. }
    rewrite (answer_eq2 gdo gdn x q a Hle Heq Hx Ha Hev).
    destruct (den_answer Wo gdo x q) as [a'|] eqn:Ha'; [|reflexivity].
    rewrite (den_answer_le _ _ _ _ _ _ Hle Ha') in Ha; inversion Ha; subst a'.
    apply IH; assumption.
  Qed.

  (* units outside the reset set: same `den` with every fuel ... *)
  Lemma absent_stays : forall v, ~ In v all -> ~ In v (unit_ids Wo) -> ~ In v (unit_ids Wn).
  Proof.
    intros v Hv Hno Hn. apply unit_ids_In in Hn; destruct Hn as [p Hp].
    destruct (K3 Wo Wn N ad rm HWn Had v p Hp) as [[Hin _]|Hin].
    - apply Hno; apply unit_ids_In; eauto.
    - apply Hv. apply (seed_all A ad rm rr Hrr). unfold affected_seed.
      apply in_or_app; left; apply in_or_app; left; assumption.
  Qed.

  Lemma den_eq2 : forall g v, ~ In v all -> den g Wn v = den g Wo v.
  Proof.
    induction g as [|g IH]; intros v Hv; [reflexivity|].
    destruct (in_dec uid_eq_dec v (unit_ids Wo)) as [Hin|Hnin].
    - apply unit_ids_In in Hin; destruct Hin as [p Hp].
      pose proof (get_slot_wf _ _ _ Hwfo Hp) as Hs.
      destruct (ref_total Wo v p Hs) as [e Hr].
      destruct (old_entry2 v e Hr) as [_ Hreg].
      rewrite !den_S, Hs, (K1' Wo Wn N rm Hwfn HWn _ _ _ Hs (not_rm2 v Hv)), uid_eqb_refl.
      unfold ref in Hr; rewrite Hs, uid_eqb_refl in Hr.
      apply (run_eq2 (getd_of g Wo) (getd_of g Wn) v e); try assumption.
      + apply getd_le_oracle; assumption.
      + intros w Hw; unfold getd_of; rewrite (IH w Hw); reflexivity.
    - assert (Ho : den (S g) Wo v = None).
      { destruct (den (S g) Wo v) as [e|] eqn:Hd; [|reflexivity]. exfalso; apply Hnin.
        destruct (den_present _ _ _ _ Hd) as [p [_ Hp]]; apply unit_ids_In; eauto. }
      assert (Hn : den (S g) Wn v = None).
      { destruct (den (S g) Wn v) as [e|] eqn:Hd; [|reflexivity]. exfalso.
        apply (absent_stays v Hv Hnin). destruct (den_present _ _ _ _ Hd) as [p [_ Hp]]; apply unit_ids_In; eauto. }
      congruence.
  Qed.

  (* ... hence the same oracle answer ... *)
  Lemma oracle_eq2 : forall v, ~ In v all -> oracle Wn v = oracle Wo v.
  Proof.
    intros v Hv; unfold oracle. rewrite (den_eq2 (length Wn) v Hv).
    destruct (den (length Wn) Wo v) as [e|] eqn:Hd.
    - rewrite (den_bound Wo HPo _ _ _ Hd); reflexivity.
    - destruct (den (length Wo) Wo v) as [e|] eqn:Hd2; [|reflexivity]. exfalso.
      rewrite <- (den_eq2 (length Wo) v Hv) in Hd2.
      pose proof (den_bound Wn HPn _ _ _ Hd2) as Hb. rewrite (den_eq2 (length Wn) v Hv) in Hb. congruence.
  Qed.

  (* ... and the same reference result: C01_reset_covers_changed_reads for all worlds *)
  Theorem stable2 : forall x, ~ In x all -> ref Wn x = ref Wo x.
  Proof.
    intros x Hx.
    destruct (in_dec uid_eq_dec x (unit_ids Wo)) as [Hin|Hnin].
    - apply unit_ids_In in Hin; destruct Hin as [p Hp].
      pose proof (get_slot_wf _ _ _ Hwfo Hp) as Hs.
      destruct (ref_total Wo x p Hs) as [e Hr].
      destruct (old_entry2 x e Hr) as [_ Hreg].
      unfold ref at 1 2. rewrite Hs, (K1' Wo Wn N rm Hwfn HWn _ _ _ Hs (not_rm2 x Hx)), uid_eqb_refl.
      unfold ref in Hr; rewrite Hs, uid_eqb_refl in Hr.
      apply (run_eq2 (oracle Wo) (oracle Wn) x e); try assumption.
      + intros v r Hvr; exact Hvr.
      + exact oracle_eq2.
    - assert (Ho : ref Wo x = None).
      { destruct (ref Wo x) as [e|] eqn:Hd; [|reflexivity]. exfalso; apply Hnin.
        destruct (ref_present _ _ _ Hd) as [p [_ Hp]]; apply unit_ids_In; eauto. }
      assert (Hn : ref Wn x = None).
      { destruct (ref Wn x) as [e|] eqn:Hd; [|reflexivity]. exfalso.
        apply (absent_stays x Hx Hnin). destruct (ref_present _ _ _ Hd) as [p [_ Hp]]; apply unit_ids_In; eauto. }
      congruence.
  Qed.

  (* the registered reads of a surviving unit are the same units in the new world *)
  Lemma ev_reads_stable : forall x q a, ~ In x all ->
    den_answer Wo (oracle Wo) x q = Some a -> reg_event2 Wo M x (q, a) ->
    ev_reads Wn (q, a) = ev_reads Wo (q, a).
  Proof.
    intros x q a Hx Href [Hru Hrk]. destruct q as [s|l|]; cbn [den_answer] in Href; cbn [ev_reads] in *.
    - destruct (get_slot Wo s) as [[v p]|] eqn:Hs.
      + assert (Hv : ~ In v all) by (apply (closed2 v x); [apply Hru; left; reflexivity | assumption]).
        rewrite (K1' Wo Wn N rm Hwfn HWn _ _ _ Hs (not_rm2 v Hv)); reflexivity.
      + inversion Href; subst a.
        destruct (get_slot Wn s) as [[w p]|] eqn:Hsn; [|reflexivity]. exfalso.
        destruct (get_slot_In _ _ _ _ Hsn) as [Hin Hsw].
        destruct (rm_not_in_old_slot Wo Wn N ad rm Hwfo HWn Had Hrm s w p Hs Hin Hsw) as [Hwad Hwrm].
        apply Hx. apply (seed_all A ad rm rr Hrr). apply (seed_missing A ad rm w x Hwad Hwrm).
        rewrite Hsw; exact Hrk.
    - destruct (l =? u_lib x); [inversion Href; reflexivity|].
      destruct (den_all (oracle Wo) (primaries Wo l) []) as [[vs b]|] eqn:Hd; [|discriminate].
      destruct b; inversion Href; subst a; [reflexivity|].
      pose proof (den_all_false_length _ _ _ _ Hd) as Hlen. cbn [length] in Hlen. rewrite Nat.sub_0_r in Hlen.
      rewrite primaries_Wn. apply firstn_filter_app; [|assumption].
      intros v Hv. apply negb_true_iff; apply mem_uid_false; apply not_rm2.
      apply (closed2 v x); [apply Hru; assumption | assumption].
    - inversion Href; reflexivity.
  Qed.

  Lemma trace_reads_stable : forall x e, ~ In x all -> ref Wo x = Some e ->
    forall ev, In ev (snd e) -> ev_reads Wn ev = ev_reads Wo ev.
  Proof.
    intros x e Hx Hr [q a] Hin.
    destruct (old_entry2 x e Hr) as [_ Hreg].
    destruct (ref_present _ _ _ Hr) as [p [Hs _]].
    unfold ref in Hr; rewrite Hs, uid_eqb_refl in Hr.
    pose proof (den_run_events _ _ _ _ _ _ Hr (Forall_nil _)) as Hev.
    rewrite Forall_forall in Hev, Hreg.
    apply (ev_reads_stable x q a Hx (Hev _ Hin) (Hreg _ Hin)).
  Qed.

  (* ---- the state after reset ---- *)
  Variable m1 : list (uid * entry).
  Hypothesis Hm1 : forall x, memo_get m1 x = if mem_uid x rm then None else memo_get (a_memo A) x.

  Theorem reset_good2 : good2 Wn (mkAst (memo_after rr m1) (rr_maps rr)).
  Proof.
    constructor; cbn [a_memo a_maps].
    - intros x e Hx. destruct (memo_after_get A rm rr m1 Hm1 x e Hx) as [Hna Hm].
      rewrite (stable2 x Hna). exact (g2_memo _ _ HA x e Hm).
    - intros a b Hab. apply (rr_maps_users A ad rm rr Hrr) in Hab; destruct Hab as [Hab [_ Hb]].
      destruct (g2_edges _ _ HA a b Hab) as [e [Hr Hin]].
      exists e; split; [rewrite (stable2 b Hb); exact Hr|].
      unfold trace_reads in *. apply in_flat_map in Hin; destruct Hin as [ev [Hev Hin]].
      apply in_flat_map; exists ev; split; [assumption|].
      rewrite (trace_reads_stable b e Hb Hr ev Hev); assumption.
    - intros x e Hx. destruct (memo_after_get A rm rr m1 Hm1 x e Hx) as [Hna Hm].
      pose proof (g2_reg _ _ HA x e Hm) as Hreg. pose proof (g2_memo _ _ HA x e Hm) as Hr.
      rewrite Forall_forall in *. intros ev Hev. destruct (Hreg ev Hev) as [Hu Hk]. split.
      + intros v Hv. rewrite (trace_reads_stable x e Hna Hr ev Hev) in Hv.
        apply (rr_maps_users A ad rm rr Hrr). split; [apply Hu; assumption|]. split; [|assumption].
        intros Hc. apply (rr_removed_spec A ad rm rr Hrr) in Hc.
        apply (closed2 v x (Hu v Hv) Hna). apply (seed_all A ad rm rr Hrr). unfold affected_seed.
        apply in_or_app; left; apply in_or_app; right; tauto.
      + destruct ev as [q a]; destruct q as [s|l|]; destruct a; try exact I.
        * apply (rr_maps_missing A ad rm rr Hrr); [assumption | apply not_rm2; assumption | assumption].
        * apply (rr_maps_all A ad rm rr Hrr); [assumption | apply not_rm2; assumption | assumption].
  Qed.
End Reset2.
