(* Kernel/ConcMeasure.v — the termination measure of Kernel/Conc.v decreases with every step;
   bounded run length; progress implies that a final state is reachable. *)
From Coq Require Import List Arith Bool Lia Relations Wf_nat.
Import ListNotations.
From RH Require Import Kernel.Conc Kernel.ConcBase.

(* ---------------------------------------------------------------------------------- *)
(* list helpers *)

Lemma remove_length_le : forall (u : nat) l, length (remove Nat.eq_dec u l) <= length l.
Proof.
  intros u l. induction l as [|a l IH]; cbn [remove length].
  - lia.
  - destruct (Nat.eq_dec u a); cbn [length]; lia.
Qed.

Lemma remove_length_lt : forall (u : nat) l, In u l -> length (remove Nat.eq_dec u l) < length l.
Proof.
  intros u l. induction l as [|a l IH]; intros Hin.
  - destruct Hin.
  - cbn [remove length]. destruct (Nat.eq_dec u a) as [E|NE].
    + pose proof (remove_length_le u l). lia.
    + cbn [length]. destruct Hin as [E|Hin]; [congruence|]. specialize (IH Hin). lia.
Qed.

Lemma skipn_length_nth_error : forall A (l : list A) i x,
  nth_error l i = Some x -> length (skipn i l) = S (length (skipn (S i) l)).
Proof.
  intros A l. induction l as [|a l IH]; intros i x H.
  - destruct i; discriminate H.
  - destruct i as [|i].
    + reflexivity.
    + cbn [nth_error] in H. specialize (IH i x H).
      change (skipn (S i) (a :: l)) with (skipn i l).
      change (skipn (S (S i)) (a :: l)) with (skipn (S i) l). exact IH.
Qed.

(* ---------------------------------------------------------------------------------- *)
(* weights *)

Lemma vacant_weight_upd_vacant : forall deps ls i v x,
  v < length ls -> nth v ls Vacant = Vacant -> x <> Vacant ->
  vacant_weight deps i ls = vacant_weight deps i (upd ls v x) + (4 * length (unit_reqs deps (i + v)) + 6).
Proof.
  intros deps ls. induction ls as [|l ls IH]; intros i v x Hlt Hn Hx.
  - cbn [length] in Hlt. lia.
  - destruct v as [|v].
    + cbn [nth] in Hn. subst l. cbn [upd vacant_weight].
      replace (i + 0) with i by lia.
      destruct x; [congruence| |]; lia.
    + cbn [nth] in Hn. cbn [length] in Hlt. cbn [upd vacant_weight].
      rewrite (IH (S i) v x) by (assumption || lia).
      replace (S i + v) with (i + S v) by lia. lia.
Qed.

Lemma vacant_weight_upd_same : forall deps ls i v x,
  nth v ls Vacant <> Vacant -> x <> Vacant ->
  vacant_weight deps i (upd ls v x) = vacant_weight deps i ls.
Proof.
  intros deps ls. induction ls as [|l ls IH]; intros i v x Hn Hx.
  - reflexivity.
  - destruct v as [|v].
    + cbn [nth] in Hn. cbn [upd vacant_weight].
      destruct l; [congruence| |]; (destruct x; [congruence| |]; reflexivity).
    + cbn [nth] in Hn. cbn [upd vacant_weight]. rewrite (IH (S i) v x) by assumption. reflexivity.
Qed.

Lemma threads_weight_upd : forall deps ths t th th',
  nth_error ths t = Some th ->
  list_sum (map (thread_weight deps) (upd ths t th')) + thread_weight deps th
  = list_sum (map (thread_weight deps) ths) + thread_weight deps th'.
Proof.
  intros deps ths. induction ths as [|a ths IH]; intros t th th' H.
  - destruct t; discriminate H.
  - destruct t as [|t].
    + cbn [nth_error] in H. inversion H; subst a.
      cbn [upd map list_sum fold_right]. lia.
    + cbn [nth_error] in H. specialize (IH t th th' H).
      cbn [upd map list_sum fold_right].
      change (fold_right Nat.add 0) with list_sum. lia.
Qed.

Definition rem_reqs (deps : list (list req)) (fr : frame) : nat :=
  length (skipn (f_idx fr) (unit_reqs deps (f_unit fr))).

Lemma frame_weight_eq : forall deps fr,
  frame_weight deps fr = 4 * rem_reqs deps fr + want_weight (f_want fr) + 1.
Proof. reflexivity. Qed.

Lemma frame_weight_set_want : forall deps fr w,
  frame_weight deps (set_want fr w) = 4 * rem_reqs deps fr + want_weight w + 1.
Proof. reflexivity. Qed.

Lemma frame_weight_mk : forall deps fr us w,
  frame_weight deps (mkFrame (f_unit fr) (f_idx fr) us w) = 4 * rem_reqs deps fr + want_weight w + 1.
Proof. reflexivity. Qed.

Lemma frame_weight_new : forall deps v,
  frame_weight deps (new_frame v) = 4 * length (unit_reqs deps v) + 4.
Proof.
  intros deps v. unfold frame_weight, new_frame. cbn [f_unit f_idx f_want want_weight skipn]. lia.
Qed.

Lemma frame_weight_next : forall deps fr us r,
  cur_req deps fr = Some r -> frame_weight deps (next_frame fr us) = 4 * rem_reqs deps fr.
Proof.
  intros deps fr us r H. unfold cur_req in H.
  unfold frame_weight, next_frame, rem_reqs. cbn [f_unit f_idx f_want want_weight].
  rewrite (skipn_length_nth_error _ _ _ _ H). lia.
Qed.

Lemma thread_weight_mk : forall deps job st,
  thread_weight deps (mkThread job st) = job_weight job + list_sum (map (frame_weight deps) st).
Proof. reflexivity. Qed.

Lemma list_sum_cons : forall a l, list_sum (a :: l) = a + list_sum l.
Proof. reflexivity. Qed.

(* ---------------------------------------------------------------------------------- *)

Lemma step_measure_inv : forall deps cbo T s s', wf_deps deps -> base_inv deps T s ->
  Step deps cbo s s' -> measure deps s' < measure deps s.
Proof.
  intros deps cbo T s s' Hwf Hinv Hstep.
  assert (Htgt : forall t th v, nth_error (threads s) t = Some th ->
                   want_target (cur_want th) = Some v -> v < length (locks s)).
  { intros t th v H1 H2. rewrite (bi_locks _ _ _ Hinv).
    exact (want_target_lt deps T s t th v Hwf Hinv H1 H2). }
  assert (Hreq : forall t job fr rest v sw, nth_error (threads s) t = Some (mkThread job (fr :: rest)) ->
                   (f_want fr = WRead v sw \/ f_want fr = WWrite v sw) -> cur_req deps fr = Some (v, sw)).
  { intros t job fr rest v sw H1 H2.
    apply (bi_want_req _ _ _ Hinv t _ fr v sw H1); [left; reflexivity | exact H2]. }
  assert (Hlock : forall t job fr rest, nth_error (threads s) t = Some (mkThread job (fr :: rest)) ->
                   nth (f_unit fr) (locks s) Vacant <> Vacant).
  { intros t job fr rest H1.
    pose proof (bi_frame_lock _ _ _ Hinv t _ fr H1 (or_introl eq_refl)) as HL.
    unfold lock_of in HL. rewrite HL. discriminate. }
  unfold measure.
  inversion Hstep as
    [ t u Hth Hu
    | t v sw Hth Hl
    | t v sw c Hth Hl
    | t v sw Hth Hl
    | t v sw c Hth Hl
    | t job fr rest v sw Hth Hw Hl
    | t job fr rest v sw c Hth Hw Hl
    | t job fr rest v sw Hth Hw Hl
    | t job fr rest v sw c Hth Hw Hl
    | t job fr rest Hth Hw Hc
    | t job fr rest v sw Hth Hw Hc Hm
    | t job fr rest v sw Hth Hw Hc Hm Hcl
    | t job fr rest v Hth Hw Hc Hm Hcl
    | t job fr rest v Hth Hw Hc Hm Hcl ]; subst s'.
  - (* SPick *)
    cbn [locks threads todo].
    pose proof (threads_weight_upd deps _ _ _ (mkThread (WRead u true) []) Hth) as E.
    rewrite !thread_weight_mk in E. cbn [job_weight map list_sum fold_right] in E.
    pose proof (remove_length_lt u (todo s) Hu). lia.
  - (* SJobReadVacant *)
    cbn [set_thread locks threads todo].
    pose proof (threads_weight_upd deps _ _ _ (mkThread (WWrite v sw) []) Hth) as E.
    rewrite !thread_weight_mk in E. cbn [job_weight map list_sum fold_right] in E. lia.
  - (* SJobReadDone *)
    cbn [set_thread locks threads todo].
    pose proof (threads_weight_upd deps _ _ _ (mkThread WNone []) Hth) as E.
    rewrite !thread_weight_mk in E. cbn [job_weight map list_sum fold_right] in E. lia.
  - (* SJobWriteVacant *)
    cbn [push_frame locks threads todo].
    pose proof (threads_weight_upd deps _ _ _ (mkThread (WRead v sw) [new_frame v]) Hth) as E.
    rewrite !thread_weight_mk in E. cbn [job_weight map] in E.
    rewrite !list_sum_cons, frame_weight_new in E. cbn [list_sum fold_right] in E.
    assert (Hv : v < length (locks s)) by (apply (Htgt t _ v Hth); reflexivity).
    pose proof (vacant_weight_upd_vacant deps (locks s) 0 v (Writing t) Hv Hl) as EV.
    cbn [Nat.add] in EV. rewrite EV by discriminate. lia.
  - (* SJobWriteDone *)
    cbn [set_thread locks threads todo].
    pose proof (threads_weight_upd deps _ _ _ (mkThread WNone []) Hth) as E.
    rewrite !thread_weight_mk in E. cbn [job_weight map list_sum fold_right] in E. lia.
  - (* SReadVacant *)
    cbn [set_thread locks threads todo].
    pose proof (threads_weight_upd deps _ _ _ (mkThread job (set_want fr (WWrite v sw) :: rest)) Hth) as E.
    rewrite !thread_weight_mk in E. cbn [map] in E.
    rewrite !list_sum_cons, frame_weight_set_want, frame_weight_eq, Hw in E.
    cbn [want_weight] in E. lia.
  - (* SReadDone *)
    pose proof (Hreq t job fr rest v sw Hth (or_introl Hw)) as Hc.
    unfold resolve. destruct (is_circ c && negb sw) eqn:Hcs.
    + cbn [abort_frame locks threads todo].
      pose proof (threads_weight_upd deps _ _ _ (mkThread job rest) Hth) as E.
      rewrite !thread_weight_mk in E. cbn [map] in E.
      rewrite !list_sum_cons, frame_weight_eq in E.
      rewrite vacant_weight_upd_same by (first [exact (Hlock t job fr rest Hth) | discriminate]).
      lia.
    + cbn [set_thread locks threads todo].
      pose proof (threads_weight_upd deps _ _ _ (mkThread job (next_frame fr (f_uses fr) :: rest)) Hth) as E.
      rewrite !thread_weight_mk in E. cbn [map] in E.
      rewrite !list_sum_cons, (frame_weight_next _ _ _ _ Hc), frame_weight_eq, Hw in E.
      cbn [want_weight] in E. lia.
  - (* SWriteVacant *)
    cbn [push_frame locks threads todo].
    pose proof (threads_weight_upd deps _ _ _
                  (mkThread job (new_frame v :: set_want fr (WRead v sw) :: rest)) Hth) as E.
    rewrite !thread_weight_mk in E. cbn [map] in E.
    rewrite !list_sum_cons, frame_weight_new, frame_weight_set_want, frame_weight_eq, Hw in E.
    cbn [want_weight] in E.
    assert (Hv : v < length (locks s)).
    { apply (Htgt t _ v Hth). unfold cur_want. cbn [t_stack]. rewrite Hw. reflexivity. }
    pose proof (vacant_weight_upd_vacant deps (locks s) 0 v (Writing t) Hv Hl) as EV.
    cbn [Nat.add] in EV. rewrite EV by discriminate. lia.
  - (* SWriteDone *)
    pose proof (Hreq t job fr rest v sw Hth (or_intror Hw)) as Hc.
    unfold resolve. destruct (is_circ c && negb sw) eqn:Hcs.
    + cbn [abort_frame locks threads todo].
      pose proof (threads_weight_upd deps _ _ _ (mkThread job rest) Hth) as E.
      rewrite !thread_weight_mk in E. cbn [map] in E.
      rewrite !list_sum_cons, frame_weight_eq in E.
      rewrite vacant_weight_upd_same by (first [exact (Hlock t job fr rest Hth) | discriminate]).
      lia.
    + cbn [set_thread locks threads todo].
      pose proof (threads_weight_upd deps _ _ _ (mkThread job (next_frame fr (f_uses fr) :: rest)) Hth) as E.
      rewrite !thread_weight_mk in E. cbn [map] in E.
      rewrite !list_sum_cons, (frame_weight_next _ _ _ _ Hc), frame_weight_eq, Hw in E.
      cbn [want_weight] in E. lia.
  - (* SFinish *)
    cbn [locks threads todo].
    pose proof (threads_weight_upd deps _ _ _ (mkThread job rest) Hth) as E.
    rewrite !thread_weight_mk in E. cbn [map] in E.
    rewrite !list_sum_cons, frame_weight_eq in E.
    rewrite vacant_weight_upd_same by (first [exact (Hlock t job fr rest Hth) | discriminate]).
    lia.
  - (* SCacheHit *)
    cbn [set_thread locks threads todo].
    pose proof (threads_weight_upd deps _ _ _ (mkThread job (set_want fr (WRead v sw) :: rest)) Hth) as E.
    rewrite !thread_weight_mk in E. cbn [map] in E.
    rewrite !list_sum_cons, frame_weight_set_want, frame_weight_eq, Hw in E.
    cbn [want_weight] in E. lia.
  - (* SRegisterOk *)
    cbn [locks threads todo].
    pose proof (threads_weight_upd deps _ _ _
      (mkThread job (mkFrame (f_unit fr) (f_idx fr) (v :: f_uses fr) (WRead v sw) :: rest)) Hth) as E.
    rewrite !thread_weight_mk in E. cbn [map] in E.
    rewrite !list_sum_cons, frame_weight_mk, frame_weight_eq, Hw in E.
    cbn [want_weight] in E. lia.
  - (* SRegisterCircSwallow *)
    cbn [locks threads todo].
    pose proof (threads_weight_upd deps _ _ _
      (mkThread job (next_frame fr (if cbo then v :: f_uses fr else f_uses fr) :: rest)) Hth) as E.
    rewrite !thread_weight_mk in E. cbn [map] in E.
    rewrite !list_sum_cons, (frame_weight_next _ _ _ _ Hc), frame_weight_eq, Hw in E.
    cbn [want_weight] in E. lia.
  - (* SRegisterCircAbort *)
    cbn [abort_frame locks threads todo].
    pose proof (threads_weight_upd deps _ _ _ (mkThread job rest) Hth) as E.
    rewrite !thread_weight_mk in E. cbn [map] in E.
    rewrite !list_sum_cons, frame_weight_eq in E.
    rewrite vacant_weight_upd_same by (first [exact (Hlock t job fr rest Hth) | discriminate]).
    lia.
Qed.

Theorem step_measure : forall deps cbo T td s s', wf_deps deps -> todo_ok (length deps) td ->
  reach deps cbo (init_todo (length deps) T td) s -> In s' (succs deps cbo s) -> measure deps s' < measure deps s.
Proof.
  intros deps cbo T td s s' Hwf Htd Hr Hin.
  apply (step_measure_inv deps cbo T s s' Hwf).
  - exact (base_inv_reach deps cbo T td s Hwf Htd Hr).
  - apply succs_iff_Step. exact Hin.
Qed.

Theorem run_length_bounded : forall deps cbo T td k s, wf_deps deps -> todo_ok (length deps) td ->
  reach_in deps cbo (init_todo (length deps) T td) k s ->
  k + measure deps s <= measure deps (init_todo (length deps) T td).
Proof.
  intros deps cbo T td k s Hwf Htd Hr.
  induction Hr as [|k s s' Hr IH Hin].
  - lia.
  - pose proof (step_measure deps cbo T td s s' Hwf Htd (reach_in_reach _ _ _ _ _ Hr) Hin). lia.
Qed.

Lemma reach_prepend : forall deps cbo s s1 s',
  In s1 (succs deps cbo s) -> reach deps cbo s1 s' -> reach deps cbo s s'.
Proof.
  intros deps cbo s s1 s' Hin Hr.
  apply (reach_trans deps cbo s s1 s'); [|exact Hr].
  apply (reach_step deps cbo s s s1); [apply reach_refl | exact Hin].
Qed.

Theorem eventually_final_from_progress : forall deps cbo s0,
  (forall s s', reach deps cbo s0 s -> In s' (succs deps cbo s) -> measure deps s' < measure deps s) ->
  (forall s, reach deps cbo s0 s -> final s = false -> succs deps cbo s <> []) ->
  forall s, reach deps cbo s0 s -> exists s', reach deps cbo s s' /\ final s' = true.
Proof.
  intros deps cbo s0 Hdec Hprog s.
  remember (measure deps s) as n eqn:Hn. revert s Hn.
  induction n as [n IH] using lt_wf_ind. intros s Hn Hr.
  destruct (final s) eqn:Hf.
  - exists s. split; [apply reach_refl | exact Hf].
  - pose proof (Hprog s Hr Hf) as Hne.
    destruct (succs deps cbo s) as [|s1 l] eqn:Hs; [congruence|].
    assert (Hin : In s1 (succs deps cbo s)) by (rewrite Hs; left; reflexivity).
    pose proof (Hdec s s1 Hr Hin) as Hlt.
    assert (Hr1 : reach deps cbo s0 s1) by (exact (reach_step deps cbo s0 s s1 Hr Hin)).
    destruct (IH (measure deps s1) ltac:(lia) s1 eq_refl Hr1) as [s' [Hr' Hf']].
    exists s'. split; [|exact Hf'].
    exact (reach_prepend deps cbo s s1 s' Hin Hr').
Qed.
