(* Kernel/BatchProofs.v — what a batch of source updates (removals, then additions) does to
   the libraries: the new world, the `added` / `removed` sets and the memo table. *)
From Coq Require Import List NArith Arith Bool Lia.
Import ListNotations.
From RH Require Import Kernel.World Kernel.Reset Kernel.Incr Kernel.Inv Kernel.ClosureProofs Kernel.DenProofs.
Open Scope N_scope.

Lemma mem_uid_add_uid : forall y x l, mem_uid y (add_uid x l) = uid_eqb y x || mem_uid y l.
Proof.
  intros y x l.
  destruct (mem_uid y (add_uid x l)) eqn:H1.
  - apply mem_uid_In in H1; apply add_uid_In in H1; symmetry; apply orb_true_iff.
    destruct H1 as [->|H1]; [left; apply uid_eqb_refl | right; apply mem_uid_In; assumption].
  - symmetry; apply orb_false_iff. apply mem_uid_false in H1. split.
    + apply uid_eqb_false; intros ->; apply H1; apply add_uid_In; left; reflexivity.
    + apply mem_uid_false; intros H; apply H1; apply add_uid_In; right; assumption.
Qed.

Lemma filter_filter : forall (A : Type) (f g : A -> bool) (l : list A),
  filter f (filter g l) = filter (fun x => g x && f x) l.
Proof.
  intros A f g; induction l as [|a l IH]; cbn [filter]; [reflexivity|].
  destruct (g a); cbn [filter andb]; [destruct (f a); rewrite IH; reflexivity | assumption].
Qed.

Lemma filter_id : forall (A : Type) (f : A -> bool) (l : list A),
  (forall x, In x l -> f x = true) -> filter f l = l.
Proof.
  intros A f; induction l as [|a l IH]; intros H; cbn [filter]; [reflexivity|].
  rewrite (H a (or_introl eq_refl)), IH; [reflexivity | intros x Hx; apply H; right; assumption].
Qed.

Lemma NoDup_map_filter : forall (A B : Type) (g : A -> B) (f : A -> bool) (l : list A),
  NoDup (map g l) -> NoDup (map g (filter f l)).
Proof.
  intros A B g f; induction l as [|a l IH]; intros H; cbn [filter map] in *; [constructor|].
  apply NoDup_cons_iff in H; destruct H as [Hn H].
  destruct (f a); cbn [map]; [|apply IH; assumption].
  constructor; [|apply IH; assumption].
  intros Hin; apply Hn. apply in_map_iff in Hin; destruct Hin as [x [Hx Hin]].
  apply filter_In in Hin; destruct Hin as [Hin _]. apply in_map_iff; eauto.
Qed.

Lemma wf_filter : forall W f, wf_world W -> wf_world (filter f W).
Proof. intros W f H; unfold wf_world, slots_of in *; apply NoDup_map_filter; assumption. Qed.

Lemma wf_app_one : forall W x p, wf_world W -> get_slot W (u_slot x) = None -> wf_world (W ++ [(x, p)]).
Proof.
  intros W x p Hwf Hg; unfold wf_world, slots_of in *. rewrite map_app; cbn [map fst].
  apply get_slot_None in Hg; unfold slots_of in Hg.
  assert (H : forall (l : list slot) s, NoDup l -> ~ In s l -> NoDup (l ++ [s])).
  { induction l as [|a l IH]; intros s Hn Hs; cbn [app]; [constructor; [intros []|constructor]|].
    apply NoDup_cons_iff in Hn; destruct Hn as [Ha Hn]. constructor.
    - intros Hin; apply in_app_or in Hin; destruct Hin as [Hin|[Hin|[]]]; [auto | subst; apply Hs; left; reflexivity].
    - apply IH; [assumption | intros Hin; apply Hs; right; assumption]. }
  apply H; assumption.
Qed.

Lemma memo_get_filter : forall (f : uid -> bool) m x,
  memo_get (filter (fun e => f (fst e)) m) x = if f x then memo_get m x else None.
Proof.
  intros f; induction m as [|[v e] m IH]; intros x; cbn [filter memo_get fst].
  - destruct (f x); reflexivity.
  - destruct (f v) eqn:Hf; cbn [memo_get].
    + destruct (uid_eqb v x) eqn:He; [apply uid_eqb_true in He; subst; rewrite Hf; reflexivity | apply IH].
    + destruct (uid_eqb v x) eqn:He; [apply uid_eqb_true in He; subst; rewrite IH, Hf; reflexivity | apply IH].
Qed.

Lemma remove_unit_absent : forall W x, ~ In x (unit_ids W) -> remove_unit W x = W.
Proof.
  intros W x H; unfold remove_unit; apply filter_id; intros [v p] Hin; cbn [fst].
  apply negb_true_iff; apply uid_eqb_false; intros ->. apply H; apply unit_ids_In; eauto.
Qed.

Lemma present_false_absent : forall W x, wf_world W -> present W x = false -> ~ In x (unit_ids W).
Proof.
  intros W x Hwf Hp Hin; apply unit_ids_In in Hin; destruct Hin as [p Hin].
  rewrite (In_present _ _ _ Hwf Hin) in Hp; discriminate.
Qed.

(* ------------------------------------------------------------------------------------ *)
(* the removal phase *)
Definition not_in (rm : list uid) (e : uid * prog) : bool := negb (mem_uid (fst e) rm).

Lemma fold_remove_spec : forall rem S Wo A,
  wf_world Wo ->
  units S = filter (not_in (removed S)) Wo ->
  (forall x, In x (removed S) -> In x (unit_ids Wo)) ->
  a_maps (sast S) = a_maps A ->
  (forall x, memo_get (a_memo (sast S)) x = if mem_uid x (removed S) then None else memo_get (a_memo A) x) ->
  let S' := fold_left st_remove rem S in
  units S' = filter (not_in (removed S')) Wo /\
  (forall x, In x (removed S') -> In x (unit_ids Wo)) /\
  a_maps (sast S') = a_maps A /\
  (forall x, memo_get (a_memo (sast S')) x = if mem_uid x (removed S') then None else memo_get (a_memo A) x) /\
  added S' = added S /\ lintc S' = lintc S /\
  units S' = fold_left remove_unit rem (units S) /\
  incl (removed S) (removed S').
Proof.
  induction rem as [|x rem IH]; intros S Wo A Hwf Hu Hr Hm Hmemo; cbv zeta; cbn [fold_left].
  - repeat split; auto using incl_refl.
  - assert (Hwf' : wf_world (units S)) by (rewrite Hu; apply wf_filter; assumption).
    destruct (present (units S) x) eqn:Hp.
    + set (S1 := mkSt (remove_unit (units S) x) (added S) (add_uid x (removed S)) (drop_memo (sast S) x) (lintc S)).
      assert (Hs : st_remove S x = S1) by (unfold st_remove; rewrite Hp; reflexivity). rewrite Hs.
      assert (Hu1 : units S1 = filter (not_in (removed S1)) Wo).
      { cbn [S1 units removed]. unfold remove_unit. rewrite Hu, filter_filter.
        apply filter_ext; intros [v p]; unfold not_in; cbn [fst].
        rewrite mem_uid_add_uid, negb_orb, andb_comm; reflexivity. }
      destruct (present_In _ _ Hp) as [p [Hin _]].
      assert (Hr1 : forall y, In y (removed S1) -> In y (unit_ids Wo)).
      { cbn [S1 removed]; intros y Hy; apply add_uid_In in Hy; destruct Hy as [->|Hy]; [|apply Hr; assumption].
        rewrite Hu in Hin; apply filter_In in Hin; destruct Hin as [Hin _]. apply unit_ids_In; eauto. }
      assert (Hmemo1 : forall y, memo_get (a_memo (sast S1)) y
                = if mem_uid y (removed S1) then None else memo_get (a_memo A) y).
      { intros y; cbn [S1 sast removed drop_memo a_memo].
        rewrite (memo_get_filter (fun v => negb (uid_eqb v x)) (a_memo (sast S)) y).
        rewrite mem_uid_add_uid, Hmemo.
        destruct (uid_eqb y x) eqn:He; cbn [negb orb]; reflexivity. }
      destruct (IH S1 Wo A Hwf Hu1 Hr1 Hm Hmemo1) as [H1 [H2 [H3 [H4 [H5 [H6 [H7 H8]]]]]]].
      repeat split; try assumption.
      intros y Hy; apply H8; cbn [S1 removed]; apply add_uid_In; right; assumption.
    + assert (Hs : st_remove S x = S) by (unfold st_remove; rewrite Hp; reflexivity). rewrite Hs.
      destruct (IH S Wo A Hwf Hu Hr Hm Hmemo) as [H1 [H2 [H3 [H4 [H5 [H6 [H7 H8]]]]]]].
      repeat split; try assumption.
      rewrite remove_unit_absent; [assumption | apply present_false_absent; assumption].
Qed.

(* ------------------------------------------------------------------------------------ *)
(* the addition phase *)
Lemma st_add_units : forall S xp, units (st_add S xp) = add_unit (units S) (fst xp) (snd xp).
Proof.
  intros S [x p]; unfold st_add, add_unit; cbn [fst snd].
  destruct (get_slot (units S) (u_slot x)); reflexivity.
Qed.

Lemma fold_add_spec : forall adds S Wm N,
  units S = Wm ++ N -> wf_world (units S) ->
  (forall x, In x (added S) <-> In x (unit_ids N)) ->
  let S' := fold_left st_add adds S in
  exists N', units S' = Wm ++ N' /\ wf_world (units S') /\
    (forall x, In x (added S') <-> In x (unit_ids N')) /\
    removed S' = removed S /\ sast S' = sast S /\ lintc S' = lintc S /\
    units S' = fold_left (fun W xp => add_unit W (fst xp) (snd xp)) adds (units S).
Proof.
  induction adds as [|[x p] adds IH]; intros S Wm N Hu Hwf Ha; cbv zeta; cbn [fold_left].
  - exists N; repeat split; try assumption; apply Ha.
  - rewrite <- (st_add_units S (x, p)).
    destruct (get_slot (units S) (u_slot x)) as [o|] eqn:Hg.
    + assert (Hs : st_add S (x, p) = S) by (unfold st_add; cbn [fst]; rewrite Hg; reflexivity). rewrite Hs.
      apply (IH S Wm N Hu Hwf Ha).
    + set (S1 := mkSt (units S ++ [(x, p)]) (add_uid x (added S)) (removed S) (sast S) (lintc S)).
      assert (Hs : st_add S (x, p) = S1) by (unfold st_add; cbn [fst]; rewrite Hg; reflexivity). rewrite Hs.
      destruct (IH S1 Wm (N ++ [(x, p)])) as [N' [H1 [H2 [H3 [H4 [H5 [H6 H7]]]]]]].
      * cbn [S1 units]; rewrite Hu, app_assoc; reflexivity.
      * cbn [S1 units]; apply wf_app_one; assumption.
      * intros y; cbn [S1 added]. rewrite add_uid_In. unfold unit_ids. rewrite map_app, in_app_iff.
        cbn [map fst In]. rewrite (Ha y). unfold unit_ids.
        split; [intros [->|H]; auto | intros [H|[H|[]]]; auto].
      * exists N'; repeat split; try assumption; apply H3.
Qed.

(* ------------------------------------------------------------------------------------ *)
(* a whole batch, starting from a state whose added / removed sets are empty *)
Lemma apply_batch_spec : forall S b Wo,
  wf_world Wo -> units S = Wo -> added S = [] -> removed S = [] ->
  let S1 := apply_batch S b in
  exists N,
    units S1 = filter (not_in (removed S1)) Wo ++ N /\
    wf_world (units S1) /\
    (forall x, In x (added S1) <-> In x (unit_ids N)) /\
    (forall x, In x (removed S1) -> In x (unit_ids Wo)) /\
    a_maps (sast S1) = a_maps (sast S) /\
    (forall x, memo_get (a_memo (sast S1)) x
               = if mem_uid x (removed S1) then None else memo_get (a_memo (sast S)) x) /\
    lintc S1 = lintc S /\
    units S1 = world_after Wo b.
Proof.
  intros S [rem adds] Wo Hwf Hu Ha Hr; cbv zeta; unfold apply_batch, world_after; cbn [fst snd].
  destruct (fold_remove_spec rem S Wo (sast S) Hwf) as [H1 [H2 [H3 [H4 [H5 [H6 [H7 H8]]]]]]].
  - rewrite Hr, Hu; symmetry; apply filter_id; intros e _; reflexivity.
  - rewrite Hr; intros x [].
  - reflexivity.
  - intros x; rewrite Hr; reflexivity.
  - set (Sm := fold_left st_remove rem S) in *.
    destruct (fold_add_spec adds Sm (units Sm) []) as [N [G1 [G2 [G3 [G4 [G5 [G6 G7]]]]]]].
    + rewrite app_nil_r; reflexivity.
    + rewrite H1; apply wf_filter; assumption.
    + intros x; rewrite H5, Ha; cbn [unit_ids map]; tauto.
    + exists N. rewrite G4, G5, G6.
      split; [rewrite G1, H1; reflexivity|]. split; [assumption|]. split; [assumption|].
      split; [assumption|]. split; [assumption|]. split; [assumption|]. split; [assumption|].
      rewrite G7, H7, Hu; reflexivity.
Qed.
