(* Kernel/C03SearchProofs.v — proofs about the Search/Searcher protocol model of Kernel/C03Search.v:
   the traversal never panics when every id written in the tree is resolved by `get` (for every cursor),
   an unresolved id that is reached does panic, and every position a searcher returns comes from the tree.
   Everything is closed with Qed; no assumptions. *)
From Coq Require Import List NArith Bool Lia.
Import ListNotations.
From RH Require Import Kernel.Arena Kernel.C03Search.
Open Scope N_scope.

(* ---------------------------------------------------------------------------------------------- *)
(* induction principle for the nested inductive `ev`                                              *)
(* ---------------------------------------------------------------------------------------------- *)
Section EvInd.
  Variable P : ev -> Prop.
  Hypothesis HRef : forall p r, P (Ref p r).
  Hypothesis HDecl : forall r ep, P (Decl r ep).
  Hypothesis HWithPos : forall p, P (WithPos p).
  Hypothesis HFrame : forall b, Forall P b -> P (Frame b).

  Fixpoint ev_ind' (e : ev) : P e :=
    match e with
    | Ref p r => HRef p r
    | Decl r ep => HDecl r ep
    | WithPos p => HWithPos p
    | Frame b =>
        HFrame b ((fix go (l : list ev) : Forall P l :=
                     match l with
                     | [] => Forall_nil P
                     | x :: t => Forall_cons x (ev_ind' x) (go t)
                     end) b)
    end.
End EvInd.

(* ---------------------------------------------------------------------------------------------- *)
(* generic facts about walk_ev / walk_frame                                                       *)
(* ---------------------------------------------------------------------------------------------- *)
Lemma walk_ev_frame_gen : forall S (sr : searcher S) b s,
  walk_ev sr s (Frame b) = match walk_frame sr s b with
                           | Crash => @SCrash S
                           | Done s' true => @SStop S s' true
                           | Done s' false => @SGo S s'
                           end.
Proof.
  intros S sr b.
  induction b as [|x t IH]; intros s.
  - reflexivity.
  - cbn [walk_ev walk_frame].
    destruct (walk_ev sr s x) as [|s1 r1|s1] eqn:E.
    + reflexivity.
    + reflexivity.
    + exact (IH s1).
Qed.

(* the leaf events: walk_ev is the callback *)
Lemma walk_ev_leaf : forall S (sr : searcher S) s e,
  (forall b, e <> Frame b) ->
  walk_ev sr s e = match callback sr s e with
                   | None => SCrash
                   | Some (s', Finished r) => SStop s' r
                   | Some (s', NotFinished) => SGo s'
                   end.
Proof.
  intros S sr s e Hnf.
  destruct e as [p r|r ep|p|b]; try reflexivity.
  exfalso. exact (Hnf b eq_refl).
Qed.

Section Generic.
  Context {S : Type} (sr : searcher S).

  (* a predicate on events that is inherited by the events of a nested frame *)
  Variable P : ev -> Prop.
  Hypothesis P_hered : forall b, P (Frame b) -> forall x, In x b -> P x.

  (* --- no crash --- *)
  Lemma walk_frame_nocrash_of_ev : forall b,
    Forall (fun x => forall s, walk_ev sr s x <> SCrash) b ->
    forall s, walk_frame sr s b <> Crash.
  Proof.
    intros b Hb.
    induction Hb as [|x t Hx Ht IH]; intros s.
    - cbn [walk_frame]. discriminate.
    - cbn [walk_frame].
      destruct (walk_ev sr s x) as [|s1 r1|s1] eqn:E.
      + exfalso. exact (Hx s E).
      + discriminate.
      + apply IH.
  Qed.

  Hypothesis cb_total : forall e s, P e -> callback sr s e <> None.

  Lemma walk_ev_nocrash : forall e, P e -> forall s, walk_ev sr s e <> SCrash.
  Proof.
    intros e.
    induction e as [p r|r ep|p|b IHb] using ev_ind'; intros HP s.
    - rewrite walk_ev_leaf by discriminate.
      destruct (callback sr s (Ref p r)) as [[s' [|f]]|] eqn:E; try discriminate.
      exfalso. exact (cb_total _ _ HP E).
    - rewrite walk_ev_leaf by discriminate.
      destruct (callback sr s (Decl r ep)) as [[s' [|f]]|] eqn:E; try discriminate.
      exfalso. exact (cb_total _ _ HP E).
    - rewrite walk_ev_leaf by discriminate.
      destruct (callback sr s (WithPos p)) as [[s' [|f]]|] eqn:E; try discriminate.
      exfalso. exact (cb_total _ _ HP E).
    - rewrite walk_ev_frame_gen.
      assert (Hnc : walk_frame sr s b <> Crash).
      { apply walk_frame_nocrash_of_ev.
        rewrite Forall_forall in IHb |- *.
        intros x Hx s0. apply IHb; [exact Hx|]. exact (P_hered b HP x Hx). }
      destruct (walk_frame sr s b) as [|s' [|]] eqn:E; try discriminate.
      exfalso. apply Hnc. reflexivity.
  Qed.

  Lemma walk_frame_nocrash : forall body, (forall x, In x body -> P x) ->
    forall s, walk_frame sr s body <> Crash.
  Proof.
    intros body Hbody.
    apply walk_frame_nocrash_of_ev.
    rewrite Forall_forall. intros x Hx s. apply walk_ev_nocrash. exact (Hbody x Hx).
  Qed.
End Generic.

Section GenericRel.
  Context {S : Type} (sr : searcher S).
  Variable P : ev -> Prop.
  Hypothesis P_hered : forall b, P (Frame b) -> forall x, In x b -> P x.

  (* R s s' r: the state s' and the result r reachable from s; a frame/event that lets the traversal continue
     corresponds to r = false *)
  Variable R : S -> S -> bool -> Prop.
  Hypothesis R_refl : forall s, R s s false.
  Hypothesis R_trans : forall s s1 s2 r, R s s1 false -> R s1 s2 r -> R s s2 r.
  Hypothesis R_cb : forall e s s' st, P e -> callback sr s e = Some (s', st) ->
    match st with NotFinished => R s s' false | Finished r => R s s' r end.

  Definition evR (s : S) (st : @step S) : Prop :=
    match st with SCrash => True | SStop s' r => R s s' r | SGo s' => R s s' false end.
  Definition frR (s : S) (o : outcome S) : Prop :=
    match o with Crash => True | Done s' r => R s s' r end.

  Lemma walk_frame_R_of_ev : forall b,
    Forall (fun x => forall s, evR s (walk_ev sr s x)) b ->
    forall s, frR s (walk_frame sr s b).
  Proof.
    intros b Hb.
    induction Hb as [|x t Hx Ht IH]; intros s.
    - cbn [walk_frame frR]. apply R_refl.
    - cbn [walk_frame].
      pose proof (Hx s) as Hxs.
      destruct (walk_ev sr s x) as [|s1 r1|s1] eqn:E.
      + exact I.
      + exact Hxs.
      + cbn [evR] in Hxs.
        pose proof (IH s1) as IH1.
        destruct (walk_frame sr s1 t) as [|s2 r2] eqn:E2.
        * exact I.
        * cbn [frR] in IH1 |- *. exact (R_trans _ _ _ _ Hxs IH1).
  Qed.

  Lemma walk_ev_R : forall e, P e -> forall s, evR s (walk_ev sr s e).
  Proof.
    intros e.
    induction e as [p r|r ep|p|b IHb] using ev_ind'; intros HP s.
    - rewrite walk_ev_leaf by discriminate.
      destruct (callback sr s (Ref p r)) as [[s' [|f]]|] eqn:E; cbn [evR]; try exact I;
        exact (R_cb _ _ _ _ HP E).
    - rewrite walk_ev_leaf by discriminate.
      destruct (callback sr s (Decl r ep)) as [[s' [|f]]|] eqn:E; cbn [evR]; try exact I;
        exact (R_cb _ _ _ _ HP E).
    - rewrite walk_ev_leaf by discriminate.
      destruct (callback sr s (WithPos p)) as [[s' [|f]]|] eqn:E; cbn [evR]; try exact I;
        exact (R_cb _ _ _ _ HP E).
    - rewrite walk_ev_frame_gen.
      assert (HR : frR s (walk_frame sr s b)).
      { apply walk_frame_R_of_ev.
        rewrite Forall_forall in IHb |- *.
        intros x Hx s0. apply IHb; [exact Hx|]. exact (P_hered b HP x Hx). }
      destruct (walk_frame sr s b) as [|s' [|]] eqn:E; cbn [evR frR] in *; auto.
  Qed.

  Lemma walk_frame_R : forall body, (forall x, In x body -> P x) ->
    forall s s' r, walk_frame sr s body = Done s' r -> R s s' r.
  Proof.
    intros body Hbody s s' r Hw.
    assert (HR : frR s (walk_frame sr s body)).
    { apply walk_frame_R_of_ev.
      rewrite Forall_forall. intros x Hx s0. apply walk_ev_R. exact (Hbody x Hx). }
    rewrite Hw in HR. exact HR.
  Qed.
End GenericRel.

(* ---------------------------------------------------------------------------------------------- *)
(* "the event is part of the tree `body`"                                                         *)
(* ---------------------------------------------------------------------------------------------- *)
Definition within (body : list ev) (e : ev) : Prop :=
  incl (ids_ev e) (ids_of body) /\ incl (spans_ev e) (spans_of body).

Lemma within_hered : forall body b, within body (Frame b) -> forall x, In x b -> within body x.
Proof.
  intros body b [Hi Hs] x Hx. split.
  - intros id Hid. apply Hi. cbn [ids_ev]. apply in_flat_map. exists x. split; assumption.
  - intros p Hp. apply Hs. cbn [spans_ev]. apply in_flat_map. exists x. split; assumption.
Qed.

Lemma within_body : forall body x, In x body -> within body x.
Proof.
  intros body x Hx. split.
  - intros id Hid. unfold ids_of. apply in_flat_map. exists x. split; assumption.
  - intros p Hp. unfold spans_of. apply in_flat_map. exists x. split; assumption.
Qed.

Lemma within_ref_id : forall body p id, within body (Ref p (Some id)) -> In id (ids_of body).
Proof. intros body p id [Hi _]. apply Hi. cbn [ids_ev]. left. reflexivity. Qed.

Lemma within_ref_span : forall body p r, within body (Ref p r) -> In p (spans_of body).
Proof. intros body p r [_ Hs]. apply Hs. cbn [spans_ev]. left. reflexivity. Qed.

Lemma within_decl_id : forall body id ep, within body (Decl (Some id) ep) -> In id (ids_of body).
Proof. intros body id ep [Hi _]. apply Hi. cbn [ids_ev]. left. reflexivity. Qed.

Lemma within_decl_span : forall body r e, within body (Decl r (Some e)) -> In e (spans_of body).
Proof. intros body r e [_ Hs]. apply Hs. cbn [spans_ev]. left. reflexivity. Qed.

Section S.
  Variable get : entity_id -> option einfo.
  Variable is_reference : entity_id -> entity_id -> bool.

  (* unfolding of a nested frame *)
  Lemma walk_ev_frame : forall S (sr : searcher S) s b,
    walk_ev sr s (Frame b) = match walk_frame sr s b with
                             | Crash => @SCrash S | Done s' true => @SStop S s' true | Done s' false => @SGo S s' end.
  Proof. intros S sr s b. apply walk_ev_frame_gen. Qed.

  (* generic totality: callbacks that never panic on resolved ids => the traversal never panics *)
  Definition callbacks_total {S} (sr : searcher S) (body : list ev) : Prop :=
    forall s, (forall p r, (match r with Some id => In id (ids_of body) | None => True end) -> on_ref sr s p r <> None) /\
              (forall r ep, (match r with Some id => In id (ids_of body) | None => True end) -> on_decl sr s r ep <> None) /\
              (forall p, on_with_pos sr s p <> None).

  Lemma walk_total : forall S (sr : searcher S) body, callbacks_total sr body -> forall s, walk_frame sr s body <> Crash.
  Proof.
    intros S sr body Hct.
    apply (walk_frame_nocrash sr (within body) (within_hered body)).
    - intros e s He.
      destruct (Hct s) as [Href [Hdecl Hwp]].
      destruct e as [p r|r ep|p|b]; cbn [callback].
      + apply Href. destruct r as [id|]; [|exact I]. exact (within_ref_id _ _ _ He).
      + apply Hdecl. destruct r as [id|]; [|exact I]. exact (within_decl_id _ _ _ He).
      + apply Hwp.
      + discriminate.
    - apply within_body.
  Qed.

  (* the four searchers: total for EVERY cursor (any pair of naturals, inside or outside any text) *)
  Lemma iac_total : forall body cursor s, ids_resolved get body -> walk_frame (iac get cursor) s body <> Crash.
  Proof.
    intros body cursor s Hres. apply walk_total.
    intros s0. repeat split.
    - intros p r Hr. cbn [iac on_ref].
      destruct (inside cursor p); [|discriminate].
      destruct r as [id|]; [|discriminate].
      destruct (get id) as [inf|] eqn:E; [discriminate|].
      exfalso. exact (Hres id Hr E).
    - intros r ep Hr. cbn [iac on_decl].
      destruct r as [id|]; [|discriminate].
      destruct (get id) as [inf|] eqn:E; [|exfalso; exact (Hres id Hr E)].
      destruct (e_decl_pos inf) as [dp|].
      + destruct (inside cursor dp); [discriminate|].
        destruct ep as [e|]; [|discriminate]. destruct (inside cursor e); discriminate.
      + destruct ep as [e|]; [|discriminate]. destruct (inside cursor e); discriminate.
    - intros p. cbn [iac on_with_pos]. destruct (inside cursor p); discriminate.
  Qed.

  Lemma far_total : forall body target s, ids_resolved get body -> walk_frame (far get is_reference target) s body <> Crash.
  Proof.
    intros body target s Hres. apply walk_total.
    intros s0. repeat split.
    - intros p r Hr. cbn [far on_ref].
      destruct r as [id|]; [|discriminate].
      destruct (get id) as [inf|] eqn:E; [discriminate|].
      exfalso. exact (Hres id Hr E).
    - intros r ep Hr. cbn [far on_decl].
      destruct r as [id|]; [|discriminate].
      destruct (get id) as [inf|] eqn:E; [|exfalso; exact (Hres id Hr E)].
      destruct (is_reference target id); discriminate.
    - intros p. cbn [far on_with_pos]. discriminate.
  Qed.

  Lemma stc_total : forall body file s, ids_resolved get body -> walk_frame (stc get file) s body <> Crash.
  Proof.
    intros body file s Hres. apply walk_total.
    intros s0. repeat split.
    - intros p r Hr. cbn [stc on_ref].
      destruct r as [id|]; [|discriminate].
      destruct (get id) as [inf|] eqn:E; [discriminate|].
      exfalso. exact (Hres id Hr E).
    - intros r ep Hr. cbn [stc on_decl].
      destruct r as [id|]; [|discriminate].
      destruct (get id) as [inf|] eqn:E; [|exfalso; exact (Hres id Hr E)].
      destruct (e_decl_pos inf) as [dp|]; discriminate.
    - intros p. cbn [stc on_with_pos]. discriminate.
  Qed.

  Lemma fau_total : forall body s, walk_frame fau s body <> Crash.
  Proof.
    intros body s. apply walk_total.
    intros s0. repeat split.
    - intros p r _. cbn [fau on_ref]. discriminate.
    - intros r ep _. cbn [fau on_decl]. discriminate.
    - intros p. cbn [fau on_with_pos]. discriminate.
  Qed.

  (* and an unresolved id that the traversal reaches does crash: the hypothesis is needed *)
  Lemma iac_crash_example : forall id p cursor, get id = None -> inside cursor p = true ->
    walk_frame (iac get cursor) None [Ref p (Some id)] = Crash.
  Proof.
    intros id p cursor Hg Hin.
    cbn [walk_frame walk_ev callback iac on_ref].
    rewrite Hin, Hg. reflexivity.
  Qed.

  (* --- ItemAtCursor: the state changes exactly when the result is Found --- *)
  Definition iacR (body : list ev) (cursor : pos) (s s' : iac_state) (r : bool) : Prop :=
    if r then exists p id, s' = Some (p, id) /\ from_tree get body p /\ In id (ids_of body) /\ inside cursor p = true
    else s' = s.

  Lemma iacR_cb : forall body cursor e s s' st, within body e ->
    callback (iac get cursor) s e = Some (s', st) ->
    match st with NotFinished => iacR body cursor s s' false | Finished r => iacR body cursor s s' r end.
  Proof.
    intros body cursor e s s' st He Hcb.
    destruct e as [p r|r ep|p|b]; cbn [callback iac on_ref on_decl on_with_pos] in Hcb.
    - destruct (inside cursor p) eqn:Ein.
      + destruct r as [id|].
        * destruct (get id) as [inf|] eqn:Eg; [|discriminate].
          injection Hcb as <- <-. cbn [iacR].
          exists p, id. repeat split.
          -- left. exact (within_ref_span _ _ _ He).
          -- exact (within_ref_id _ _ _ He).
          -- exact Ein.
        * injection Hcb as <- <-. reflexivity.
      + injection Hcb as <- <-. reflexivity.
    - destruct r as [id|].
      + destruct (get id) as [inf|] eqn:Eg; [|discriminate].
        assert (Hep : match ep with
                      | Some e => if inside cursor e then Some (Some (e, id), Finished true)
                                  else Some (s, NotFinished)
                      | None => Some (s, NotFinished)
                      end = Some (s', st) ->
                      match st with NotFinished => iacR body cursor s s' false
                                  | Finished r => iacR body cursor s s' r end).
        { intros H. destruct ep as [e|].
          - destruct (inside cursor e) eqn:Ein.
            + injection H as <- <-. cbn [iacR]. exists e, id. repeat split.
              * left. exact (within_decl_span _ _ _ He).
              * exact (within_decl_id _ _ _ He).
              * exact Ein.
            + injection H as <- <-. reflexivity.
          - injection H as <- <-. reflexivity. }
        destruct (e_decl_pos inf) as [dp|] eqn:Edp.
        * destruct (inside cursor dp) eqn:Ein.
          -- injection Hcb as <- <-. cbn [iacR]. exists dp, id. repeat split.
             ++ right. exists id, inf. repeat split; try assumption.
                exact (within_decl_id _ _ _ He).
             ++ exact (within_decl_id _ _ _ He).
             ++ exact Ein.
          -- exact (Hep Hcb).
        * exact (Hep Hcb).
      + injection Hcb as <- <-. reflexivity.
    - destruct (inside cursor p); injection Hcb as <- <-; reflexivity.
    - injection Hcb as <- <-. reflexivity.
  Qed.

  Lemma iac_walk_R : forall body cursor s s' r,
    walk_frame (iac get cursor) s body = Done s' r -> iacR body cursor s s' r.
  Proof.
    intros body cursor s s' r Hw.
    apply (walk_frame_R (iac get cursor) (within body) (within_hered body) (iacR body cursor)) with (body := body).
    - intros s0. reflexivity.
    - intros s0 s1 s2 r0 H1 H2. cbn [iacR] in H1. subst s1. exact H2.
    - intros e s0 s0' st He Hcb. exact (iacR_cb body cursor e s0 s0' st He Hcb).
    - apply within_body.
    - exact Hw.
  Qed.

  (* every position returned occurs in the tree (or is the declaration position of an entity named in the tree) *)
  Lemma iac_positions : forall body cursor p id b,
    walk_frame (iac get cursor) None body = Done (Some (p, id)) b ->
    from_tree get body p /\ In id (ids_of body) /\ inside cursor p = true /\ b = true.
  Proof.
    intros body cursor p id b Hw.
    apply iac_walk_R in Hw.
    destruct b; cbn [iacR] in Hw.
    - destruct Hw as [p' [id' [Heq [Hft [Hin Hins]]]]].
      injection Heq as -> ->. repeat split; assumption.
    - discriminate.
  Qed.

  Lemma iac_found_iff : forall body cursor st b,
    walk_frame (iac get cursor) None body = Done st b -> (b = true <-> st <> None).
  Proof.
    intros body cursor st b Hw.
    apply iac_walk_R in Hw.
    destruct b; cbn [iacR] in Hw.
    - destruct Hw as [p' [id' [Heq _]]]. subst st. split; [discriminate|reflexivity].
    - subst st. split; [discriminate|]. intros H. exfalso. apply H. reflexivity.
  Qed.

  (* --- FindAllReferences --- *)
  Definition farR (body : list ev) (s s' : list span) (r : bool) : Prop :=
    exists l, s' = s ++ l /\ forall p, In p l -> from_tree get body p.

  Lemma farR_refl : forall body s r, farR body s s r.
  Proof. intros body s r. exists []. split; [symmetry; apply app_nil_r|]. intros p []. Qed.

  Lemma far_walk_R : forall body target s s' r,
    walk_frame (far get is_reference target) s body = Done s' r -> farR body s s' r.
  Proof.
    intros body target s s' r Hw.
    apply (walk_frame_R (far get is_reference target) (within body) (within_hered body) (farR body)) with (body := body).
    - intros s0. apply farR_refl.
    - intros s0 s1 s2 r0 [l1 [E1 H1]] [l2 [E2 H2]].
      exists (l1 ++ l2). split.
      + rewrite E2, E1. symmetry. apply app_assoc.
      + intros p Hp. apply in_app_or in Hp. destruct Hp as [Hp|Hp]; [exact (H1 p Hp)|exact (H2 p Hp)].
    - intros e s0 s0' st He Hcb.
      assert (HR : farR body s0 s0' false).
      { destruct e as [p r0|r0 ep|p|b]; cbn [callback far on_ref on_decl on_with_pos] in Hcb.
        - destruct r0 as [id|].
          + destruct (get id) as [inf|] eqn:Eg; [|discriminate].
            injection Hcb as <- <-.
            destruct (is_reference target id); [|apply farR_refl].
            exists [p]. split; [reflexivity|].
            intros q [<-|[]]. left. exact (within_ref_span _ _ _ He).
          + injection Hcb as <- <-. apply farR_refl.
        - destruct r0 as [id|].
          + destruct (get id) as [inf|] eqn:Eg; [|discriminate].
            destruct (is_reference target id).
            * injection Hcb as <- <-.
              exists ((match e_decl_pos inf with Some dp => [dp] | None => [] end)
                        ++ (match ep with Some e => [e] | None => [] end)).
              split; [reflexivity|].
              intros q Hq. apply in_app_or in Hq. destruct Hq as [Hq|Hq].
              -- destruct (e_decl_pos inf) as [dp|] eqn:Edp; [|destruct Hq].
                 destruct Hq as [<-|[]].
                 right. exists id, inf. repeat split; try assumption.
                 exact (within_decl_id _ _ _ He).
              -- destruct ep as [e|]; [|destruct Hq].
                 destruct Hq as [<-|[]].
                 left. exact (within_decl_span _ _ _ He).
            * injection Hcb as <- <-. apply farR_refl.
          + injection Hcb as <- <-. apply farR_refl.
        - injection Hcb as <- <-. apply farR_refl.
        - injection Hcb as <- <-. apply farR_refl. }
      destruct st; exact HR.
    - apply within_body.
    - exact Hw.
  Qed.

  Lemma far_positions : forall body target l b,
    walk_frame (far get is_reference target) [] body = Done l b -> forall p, In p l -> from_tree get body p.
  Proof.
    intros body target l b Hw p Hp.
    apply far_walk_R in Hw. destruct Hw as [l' [E H]].
    cbn [app] in E. subst l'. exact (H p Hp).
  Qed.

  (* --- SemanticTokenCollector --- *)
  Definition stcR (body : list ev) (s s' : list (span * entity_id)) (r : bool) : Prop :=
    exists l, s' = s ++ l /\ forall p id, In (p, id) l -> from_tree get body p /\ In id (ids_of body).

  Lemma stcR_refl : forall body s r, stcR body s s r.
  Proof. intros body s r. exists []. split; [symmetry; apply app_nil_r|]. intros p id []. Qed.

  Lemma stc_walk_R : forall body file s s' r,
    walk_frame (stc get file) s body = Done s' r -> stcR body s s' r.
  Proof.
    intros body file s s' r Hw.
    apply (walk_frame_R (stc get file) (within body) (within_hered body) (stcR body)) with (body := body).
    - intros s0. apply stcR_refl.
    - intros s0 s1 s2 r0 [l1 [E1 H1]] [l2 [E2 H2]].
      exists (l1 ++ l2). split.
      + rewrite E2, E1. symmetry. apply app_assoc.
      + intros p id Hp. apply in_app_or in Hp. destruct Hp as [Hp|Hp]; [exact (H1 p id Hp)|exact (H2 p id Hp)].
    - intros e s0 s0' st He Hcb.
      assert (HR : stcR body s0 s0' false).
      { destruct e as [p r0|r0 ep|p|b]; cbn [callback stc on_ref on_decl on_with_pos] in Hcb.
        - destruct r0 as [id|].
          + destruct (get id) as [inf|] eqn:Eg; [|discriminate].
            injection Hcb as <- <-.
            exists [(p, id)]. split; [reflexivity|].
            intros q qid [Hq|[]]. injection Hq as <- <-. split.
            * left. exact (within_ref_span _ _ _ He).
            * exact (within_ref_id _ _ _ He).
          + injection Hcb as <- <-. apply stcR_refl.
        - destruct r0 as [id|].
          + destruct (get id) as [inf|] eqn:Eg; [|discriminate].
            destruct (e_decl_pos inf) as [dp|] eqn:Edp.
            * injection Hcb as <- <-.
              destruct (sp_file dp =? file); [|apply stcR_refl].
              exists [(dp, id)]. split; [reflexivity|].
              intros q qid [Hq|[]]. injection Hq as <- <-. split.
              -- right. exists id, inf. repeat split; try assumption.
                 exact (within_decl_id _ _ _ He).
              -- exact (within_decl_id _ _ _ He).
            * injection Hcb as <- <-. apply stcR_refl.
          + injection Hcb as <- <-. apply stcR_refl.
        - injection Hcb as <- <-. apply stcR_refl.
        - injection Hcb as <- <-. apply stcR_refl. }
      destruct st; exact HR.
    - apply within_body.
    - exact Hw.
  Qed.

  Lemma stc_positions : forall body file l b,
    walk_frame (stc get file) [] body = Done l b ->
    forall p id, In (p, id) l -> from_tree get body p /\ In id (ids_of body).
  Proof.
    intros body file l b Hw p id Hp.
    apply stc_walk_R in Hw. destruct Hw as [l' [E H]].
    cbn [app] in E. subst l'. exact (H p id Hp).
  Qed.

  (* --- FindAllUnresolved --- *)
  Definition fauR (body : list ev) (s s' : N * list span) (r : bool) : Prop :=
    exists l, snd s' = snd s ++ l /\ forall p, In p l -> In p (spans_of body).

  Lemma fauR_refl : forall body s r, fauR body s s r.
  Proof. intros body s r. exists []. split; [symmetry; apply app_nil_r|]. intros p []. Qed.

  Lemma fau_walk_R : forall body s s' r,
    walk_frame fau s body = Done s' r -> fauR body s s' r.
  Proof.
    intros body s s' r Hw.
    apply (walk_frame_R fau (within body) (within_hered body) (fauR body)) with (body := body).
    - intros s0. apply fauR_refl.
    - intros s0 s1 s2 r0 [l1 [E1 H1]] [l2 [E2 H2]].
      exists (l1 ++ l2). split.
      + rewrite E2, E1. symmetry. apply app_assoc.
      + intros p Hp. apply in_app_or in Hp. destruct Hp as [Hp|Hp]; [exact (H1 p Hp)|exact (H2 p Hp)].
    - intros e s0 s0' st He Hcb.
      assert (HR : fauR body s0 s0' false).
      { destruct e as [p r0|r0 ep|p|b]; cbn [callback fau on_ref on_decl on_with_pos] in Hcb.
        - injection Hcb as <- <-.
          destruct r0 as [id|].
          + exists []. split; [cbn [snd]; symmetry; apply app_nil_r|]. intros q [].
          + exists [p]. split; [reflexivity|].
            intros q [<-|[]]. exact (within_ref_span _ _ _ He).
        - injection Hcb as <- <-. apply fauR_refl.
        - injection Hcb as <- <-. apply fauR_refl.
        - injection Hcb as <- <-. apply fauR_refl. }
      destruct st; exact HR.
    - apply within_body.
    - exact Hw.
  Qed.

  Lemma fau_positions : forall body n l b,
    walk_frame fau (0, []) body = Done (n, l) b -> forall p, In p l -> In p (spans_of body).
  Proof.
    intros body n l b Hw p Hp.
    apply fau_walk_R in Hw. destruct Hw as [l' [E H]].
    cbn [snd app] in E. subst l'. exact (H p Hp).
  Qed.
End S.
