(* Kernel/ConcDeadlock.v — the repaired code (cbo = false) never deadlocks: in every reachable,
   non-final state some thread can take a step; no thread ever waits for a lock held by a
   frame of its own stack.  For both versions of the code: locks move monotonically
   Vacant -> Writing -> Done, a unit is write-locked exactly by the thread analysing it, and
   in a final state every unit is Done. *)
From Coq Require Import List Arith Bool Lia Relations.
Import ListNotations.
From RH Require Import Kernel.Conc Kernel.ConcBase Kernel.ConcClosure.

(* ---------------------------------------------------------------------------------- *)
(* relations *)

Lemma ct_incl : forall (A : Type) (R1 R2 : A -> A -> Prop),
  (forall x y, R1 x y -> clos_trans A R2 x y) ->
  forall x y, clos_trans A R1 x y -> clos_trans A R2 x y.
Proof.
  intros A R1 R2 Hinc x y H. induction H as [x y H | x y z H1 IH1 H2 IH2].
  - apply Hinc; exact H.
  - eapply t_trans; eassumption.
Qed.

Lemma ct_crt : forall (A : Type) (R : A -> A -> Prop) x y,
  clos_trans A R x y -> clos_refl_trans A R x y.
Proof.
  intros A R x y H. induction H as [x y H | x y z H1 IH1 H2 IH2].
  - apply rt_step; exact H.
  - eapply rt_trans; eassumption.
Qed.

Lemma ct_crt_ct : forall (A : Type) (R : A -> A -> Prop) y z,
  clos_refl_trans A R y z -> forall x, clos_trans A R x y -> clos_trans A R x z.
Proof.
  intros A R y z H. induction H as [y z H | y | y w z H1 IH1 H2 IH2]; intros x Hx.
  - eapply t_trans; [exact Hx | apply t_step; exact H].
  - exact Hx.
  - apply IH2. apply IH1. exact Hx.
Qed.

Lemma crt_rev : forall (A : Type) (R1 R2 : A -> A -> Prop),
  (forall x y, R1 x y -> R2 y x) ->
  forall x y, clos_refl_trans A R1 x y -> clos_refl_trans A R2 y x.
Proof.
  intros A R1 R2 Hinc x y H. induction H as [x y H | x | x y z H1 IH1 H2 IH2].
  - apply rt_step. apply Hinc. exact H.
  - apply rt_refl.
  - eapply rt_trans; eassumption.
Qed.

(* adding one pair (a, b) to an acyclic relation in which a is not reachable from b *)
Lemma ct_add_pair : forall (Rr R' : nat -> nat -> Prop) a b,
  ~ clos_refl_trans nat Rr b a ->
  (forall x y, R' x y -> Rr x y \/ (x = a /\ y = b)) ->
  forall x y, clos_trans nat R' x y ->
    clos_trans nat Rr x y \/ (clos_refl_trans nat Rr x a /\ clos_refl_trans nat Rr b y).
Proof.
  intros Rr R' a b Hnba Hinc x y H.
  induction H as [x y H | x y z H1 IH1 H2 IH2].
  - destruct (Hinc x y H) as [Hr | [Hx Hy]].
    + left. apply t_step. exact Hr.
    + right. subst. split; apply rt_refl.
  - destruct IH1 as [L1 | [A1 B1]]; destruct IH2 as [L2 | [A2 B2]].
    + left. eapply t_trans; eassumption.
    + right. split; [| exact B2]. eapply rt_trans; [apply ct_crt; exact L1 | exact A2].
    + right. split; [exact A1 |]. eapply rt_trans; [exact B1 | apply ct_crt; exact L2].
    + exfalso. apply Hnba. eapply rt_trans; [exact B1 | exact A2].
Qed.

Lemma acyc_add_pair : forall (Rr R' : nat -> nat -> Prop) a b,
  (forall x, ~ clos_trans nat Rr x x) ->
  ~ clos_refl_trans nat Rr b a ->
  (forall x y, R' x y -> Rr x y \/ (x = a /\ y = b)) ->
  forall x, ~ clos_trans nat R' x x.
Proof.
  intros Rr R' a b Hac Hnba Hinc x Hc.
  destruct (ct_add_pair Rr R' a b Hnba Hinc x x Hc) as [L | [A B]].
  - exact (Hac x L).
  - apply Hnba. eapply rt_trans; eassumption.
Qed.

(* a finite graph in which every node has a successor contains a cycle *)
Lemma finite_cycle : forall n (L : list nat) (W : nat -> nat -> Prop),
  length L <= n -> L <> [] ->
  (forall x, In x L -> exists y, In y L /\ W x y) ->
  exists x, In x L /\ clos_trans nat W x x.
Proof.
  induction n as [| n IH]; intros L W Hlen Hne Hsucc.
  - destruct L as [| x L0]; [congruence | cbn in Hlen; lia].
  - destruct L as [| x L0]; [congruence |].
    destruct (Hsucc x (or_introl eq_refl)) as [y' [Hy'in Hxy']].
    destruct (Nat.eq_dec y' x) as [E | NE].
    + subst y'. exists x. split; [left; reflexivity | apply t_step; exact Hxy'].
    + set (L' := remove Nat.eq_dec x L0).
      assert (Hy'L' : In y' L').
      { apply in_in_remove; [exact NE |]. destruct Hy'in as [E | Hin]; [congruence | exact Hin]. }
      set (W' := fun z y => W z y \/ (W z x /\ W x y)).
      destruct (IH L' W') as [z [HzL' Hzz]].
      * pose proof (remove_length_le Nat.eq_dec L0 x) as Hl. cbn in Hlen. unfold L'. lia.
      * intro E. rewrite E in Hy'L'. exact Hy'L'.
      * intros z HzL'. apply in_remove in HzL'. destruct HzL' as [HzL0 Hzx].
        destruct (Hsucc z (or_intror HzL0)) as [y [Hyin Hzy]].
        destruct (Nat.eq_dec y x) as [E | NEy].
        -- subst y. exists y'. split; [exact Hy'L' |]. right. split; assumption.
        -- exists y. split.
           ++ apply in_in_remove; [exact NEy |]. destruct Hyin as [E | Hin]; [congruence | exact Hin].
           ++ left. exact Hzy.
      * exists z. split.
        -- right. apply in_remove in HzL'. exact (proj1 HzL').
        -- revert Hzz. apply ct_incl. intros p q [Hpq | [Hpx Hxq]].
           ++ apply t_step; exact Hpq.
           ++ eapply t_trans; apply t_step; eassumption.
Qed.

(* ---------------------------------------------------------------------------------- *)
(* list helpers *)

Lemma nth_error_lt : forall A (l : list A) i x, nth_error l i = Some x -> i < length l.
Proof. intros A l i x H. apply nth_error_Some. congruence. Qed.

Lemma NoDup_app_intro : forall (A : Type) (l1 l2 : list A),
  NoDup l1 -> NoDup l2 -> (forall x, In x l1 -> ~ In x l2) -> NoDup (l1 ++ l2).
Proof.
  intros A l1 l2 H1 H2 Hd. induction H1 as [| x l1 Hx H1 IH]; cbn.
  - exact H2.
  - constructor.
    + intro Hin. apply in_app_or in Hin. destruct Hin as [Hin | Hin].
      * exact (Hx Hin).
      * exact (Hd x (or_introl eq_refl) Hin).
    + apply IH. intros y Hy. apply Hd. right. exact Hy.
Qed.

Lemma nth_error_repeat : forall A (x : A) n i y, nth_error (repeat x n) i = Some y -> y = x.
Proof.
  intros A x n i y H. apply nth_error_In in H. apply repeat_spec in H. exact H.
Qed.

Lemma dl_cur_req_lt : forall deps fr v sw, wf_deps deps -> cur_req deps fr = Some (v, sw) -> v < length deps.
Proof.
  intros deps fr v sw Hwf H. unfold cur_req, unit_reqs in H. apply nth_error_In in H.
  exact (Hwf _ _ _ H).
Qed.

(* ---------------------------------------------------------------------------------- *)
(* invariants of the repaired code (cbo = false) *)

(* (I5) the target of a pending acquisition is in the `uses` cache of the frame *)
Definition wiu (fr : frame) : Prop := forall v, want_target (f_want fr) = Some v -> In v (f_uses fr).

(* (I3) a frame below another one waits for the unit of the frame above it *)
Fixpoint chain (st : list frame) : Prop :=
  match st with
  | [] => True
  | child :: rest =>
      match rest with
      | [] => True
      | parent :: _ => exists sw, f_want parent = WRead (f_unit child) sw
      end /\ chain rest
  end.

Definition stack_ok (st : list frame) : Prop := Forall wiu st /\ chain st.

Definition all_ok (s : state) : Prop :=
  forall t th, nth_error (threads s) t = Some th -> stack_ok (t_stack th).

(* unit x has unit v in the `uses` cache of its (live) frame *)
Definition R (s : state) (x v : nat) : Prop :=
  exists t th fr, nth_error (threads s) t = Some th /\ In fr (t_stack th) /\ f_unit fr = x /\ In v (f_uses fr).

Record inv2 (s : state) : Prop := {
  i_ok : all_ok s;
  i_sub : forall x v, R s x v -> user_rel (users s) v x;
  i_acyc : forall x, ~ clos_trans nat (R s) x x
}.

(* what a step does to the stack of the stepping thread *)
Inductive stk_step (us' : list (list nat)) : list frame -> list frame -> Prop :=
| ss_same : forall st, stk_step us' st st
| ss_pop : forall fr rest, stk_step us' (fr :: rest) rest
| ss_mod : forall fr fr' rest, f_unit fr' = f_unit fr -> f_uses fr' = f_uses fr ->
    (forall v, want_target (f_want fr') = Some v -> want_target (f_want fr) = Some v \/ In v (f_uses fr)) ->
    stk_step us' (fr :: rest) (fr' :: rest)
| ss_push0 : forall v, stk_step us' [] [new_frame v]
| ss_push : forall fr rest v sw, f_want fr = WWrite v sw ->
    stk_step us' (fr :: rest) (new_frame v :: set_want fr (WRead v sw) :: rest)
| ss_reg : forall fr rest v sw, user_rel us' v (f_unit fr) -> closes_cycle us' (f_unit fr) v = false ->
    stk_step us' (fr :: rest) (mkFrame (f_unit fr) (f_idx fr) (v :: f_uses fr) (WRead v sw) :: rest).

Lemma user_rel_add_mono : forall us v u a b, v < length us ->
  user_rel us a b -> user_rel (add_user us v u) a b.
Proof.
  intros us v u a b Hv H. unfold user_rel in *. apply add_user_In; [exact Hv | left; exact H].
Qed.

Lemma user_rel_add_new : forall us v u, v < length us -> user_rel (add_user us v u) v u.
Proof.
  intros us v u Hv. unfold user_rel. apply add_user_In; [exact Hv | right; split; reflexivity].
Qed.

Lemma stk_step_shape : forall deps T s s', wf_deps deps -> base_inv deps T s -> Step deps false s s' ->
  exists t job st job' st',
    nth_error (threads s) t = Some (mkThread job st) /\
    threads s' = upd (threads s) t (mkThread job' st') /\
    (forall a b, user_rel (users s) a b -> user_rel (users s') a b) /\
    stk_step (users s') st st'.
Proof.
  intros deps T s s' Hwf Hbi Hstep.
  assert (Hlt : forall fr v sw, cur_req deps fr = Some (v, sw) -> v < length (users s)).
  { intros fr v sw H. rewrite (bi_users _ _ _ Hbi). eapply dl_cur_req_lt; eassumption. }
  inversion Hstep as
    [ t u Hn Hu | t v sw Hn Hl | t v sw c Hn Hl | t v sw Hn Hl | t v sw c Hn Hl
    | t job fr rest v sw Hn Hw Hl | t job fr rest v sw c Hn Hw Hl
    | t job fr rest v sw Hn Hw Hl | t job fr rest v sw c Hn Hw Hl
    | t job fr rest Hn Hw Hc | t job fr rest v sw Hn Hw Hc Hm
    | t job fr rest v sw Hn Hw Hc Hm Hcc | t job fr rest v Hn Hw Hc Hm Hcc
    | t job fr rest v Hn Hw Hc Hm Hcc ]; subst s';
    try (progress unfold resolve; destruct (is_circ c && negb sw));
    cbn [locks users threads todo set_thread push_frame abort_frame];
    do 5 eexists; (split; [exact Hn |]); (split; [reflexivity |]).
  - split; [auto | apply ss_same].
  - split; [auto | apply ss_same].
  - split; [auto | apply ss_same].
  - split; [auto | apply ss_push0].
  - split; [auto | apply ss_same].
  - split; [auto |]. apply ss_mod; [reflexivity | reflexivity |].
    cbn. intros v0 Hv0. left. rewrite Hw. exact Hv0.
  - split; [auto | apply ss_pop].
  - split; [auto |]. apply ss_mod; [reflexivity | reflexivity |]. cbn. intros v0 Hv0. discriminate.
  - split; [auto |]. apply ss_push. exact Hw.
  - split; [auto | apply ss_pop].
  - split; [auto |]. apply ss_mod; [reflexivity | reflexivity |]. cbn. intros v0 Hv0. discriminate.
  - split; [auto | apply ss_pop].
  - split; [auto |]. apply ss_mod; [reflexivity | reflexivity |].
    cbn. intros v0 Hv0. right. apply mem_In. congruence.
  - split.
    + intros a b. apply user_rel_add_mono. eapply Hlt; exact Hc.
    + apply ss_reg; [| exact Hcc]. apply user_rel_add_new. eapply Hlt; exact Hc.
  - split.
    + intros a b. apply user_rel_add_mono. eapply Hlt; exact Hc.
    + apply ss_mod; [reflexivity | reflexivity |]. cbn. intros v0 Hv0. discriminate.
  - split.
    + intros a b. apply user_rel_add_mono. eapply Hlt; exact Hc.
    + apply ss_pop.
Qed.

Lemma wiu_new_frame : forall v, wiu (new_frame v).
Proof. intros v v0 H. cbn in H. discriminate. Qed.

Lemma stk_step_ok : forall us' st st', stk_step us' st st' -> stack_ok st -> stack_ok st'.
Proof.
  intros us' st st' H [HF HC].
  destruct H as [st | fr rest | fr fr' rest Hu Hus Hw | v | fr rest v sw Hw | fr rest v sw Hur Hcc].
  - split; assumption.
  - split; [exact (Forall_inv_tail HF) | exact (proj2 HC)].
  - split.
    + constructor; [| exact (Forall_inv_tail HF)].
      intros v Hv. rewrite Hus. destruct (Hw v Hv) as [H | H]; [| exact H].
      exact (Forall_inv HF v H).
    + cbn [chain] in *. rewrite Hu. exact HC.
  - split.
    + constructor; [apply wiu_new_frame | constructor].
    + cbn. split; exact I.
  - split.
    + constructor; [apply wiu_new_frame |].
      constructor; [| exact (Forall_inv_tail HF)].
      intros v0 Hv0. cbn in Hv0. injection Hv0 as <-. cbn.
      apply (Forall_inv HF). rewrite Hw. reflexivity.
    + cbn [chain] in *. split.
      * exists sw. reflexivity.
      * exact HC.
  - split.
    + constructor; [| exact (Forall_inv_tail HF)].
      intros v0 Hv0. cbn in Hv0. injection Hv0 as <-. cbn. left. reflexivity.
    + cbn [chain] in *. exact HC.
Qed.

Lemma R_upd : forall (P : nat -> nat -> Prop) s s' t th th',
  nth_error (threads s) t = Some th ->
  threads s' = upd (threads s) t th' ->
  (forall fr' v, In fr' (t_stack th') -> In v (f_uses fr') ->
     (exists fr, In fr (t_stack th) /\ f_unit fr = f_unit fr' /\ In v (f_uses fr)) \/ P (f_unit fr') v) ->
  forall x v, R s' x v -> R s x v \/ P x v.
Proof.
  intros P s s' t th th' Hn Hthr Hfr x v [t0 [th0 [fr0 [Hn0 [Hin [Hu Hv]]]]]].
  rewrite Hthr in Hn0. destruct (Nat.eq_dec t t0) as [E | NE].
  - subst t0. rewrite nth_error_upd_eq in Hn0 by (eapply nth_error_lt; exact Hn).
    injection Hn0 as <-. subst x.
    destruct (Hfr fr0 v Hin Hv) as [[fr [Hfin [Hfu Hfv]]] | HP].
    + left. exists t, th, fr. repeat split; assumption.
    + right. exact HP.
  - rewrite nth_error_upd_neq in Hn0 by exact NE.
    left. exists t0, th0, fr0. repeat split; assumption.
Qed.

Lemma R_step : forall s s' t job st job' st' us',
  nth_error (threads s) t = Some (mkThread job st) ->
  threads s' = upd (threads s) t (mkThread job' st') ->
  stk_step us' st st' ->
  (forall x v, R s' x v -> R s x v) \/
  (exists a b, closes_cycle us' a b = false /\ user_rel us' b a /\
               forall x v, R s' x v -> R s x v \/ (x = a /\ v = b)).
Proof.
  intros s s' t job st job' st' us' Hn Hthr H.
  destruct H as [st | fr rest | fr fr' rest Hu Hus Hw | v | fr rest v sw Hw | fr rest v sw Hur Hcc].
  - left. intros x v HR.
    destruct (R_upd (fun _ _ => False) _ _ _ _ _ Hn Hthr) with (x := x) (v := v) as [H | []]; [| exact HR | exact H].
    cbn [t_stack]. intros fr' v0 Hin Hv0. left. exists fr'. auto.
  - left. intros x v HR.
    destruct (R_upd (fun _ _ => False) _ _ _ _ _ Hn Hthr) with (x := x) (v := v) as [H | []]; [| exact HR | exact H].
    cbn [t_stack]. intros fr' v0 Hin Hv0. left. exists fr'. split; [right; exact Hin | auto].
  - left. intros x v HR.
    destruct (R_upd (fun _ _ => False) _ _ _ _ _ Hn Hthr) with (x := x) (v := v) as [H | []]; [| exact HR | exact H].
    cbn [t_stack]. intros fr0 v0 Hin Hv0. left. destruct Hin as [E | Hin].
    + subst fr0. exists fr. split; [left; reflexivity |]. split; [auto |]. rewrite <- Hus. exact Hv0.
    + exists fr0. split; [right; exact Hin | auto].
  - left. intros x v0 HR.
    destruct (R_upd (fun _ _ => False) _ _ _ _ _ Hn Hthr) with (x := x) (v := v0) as [H | []]; [| exact HR | exact H].
    cbn [t_stack]. intros fr0 v1 Hin Hv1. destruct Hin as [E | []]. subst fr0. cbn in Hv1. destruct Hv1.
  - left. intros x v0 HR.
    destruct (R_upd (fun _ _ => False) _ _ _ _ _ Hn Hthr) with (x := x) (v := v0) as [H | []]; [| exact HR | exact H].
    cbn [t_stack]. intros fr0 v1 Hin Hv1. left. destruct Hin as [E | [E | Hin]].
    + subst fr0. cbn in Hv1. destruct Hv1.
    + subst fr0. exists fr. split; [left; reflexivity |]. split; [reflexivity | exact Hv1].
    + exists fr0. split; [right; exact Hin | auto].
  - right. exists (f_unit fr), v. split; [exact Hcc |]. split; [exact Hur |].
    intros x v0 HR.
    apply (R_upd (fun x v0 => x = f_unit fr /\ v0 = v) _ _ _ _ _ Hn Hthr); [| exact HR].
    cbn [t_stack]. intros fr0 v1 Hin Hv1. destruct Hin as [E | Hin].
    + subst fr0. cbn in Hv1. cbn [f_unit]. destruct Hv1 as [E | Hv1].
      * right. split; [reflexivity | symmetry; exact E].
      * left. exists fr. split; [left; reflexivity |]. split; [reflexivity | exact Hv1].
    + left. exists fr0. split; [right; exact Hin | auto].
Qed.

Lemma inv2_step : forall deps T s s', wf_deps deps ->
  base_inv deps T s -> base_inv deps T s' -> inv2 s -> Step deps false s s' -> inv2 s'.
Proof.
  intros deps T s s' Hwf Hbi Hbi' [Hok Hsub Hac] Hstep.
  destruct (stk_step_shape deps T s s' Hwf Hbi Hstep) as [t [job [st [job' [st' [Hn [Hthr [Hmono Hss]]]]]]]].
  pose proof (R_step s s' t job st job' st' (users s') Hn Hthr Hss) as HR.
  split.
  - intros t0 th0 Hn0. rewrite Hthr in Hn0. destruct (Nat.eq_dec t t0) as [E | NE].
    + subst t0. rewrite nth_error_upd_eq in Hn0 by (eapply nth_error_lt; exact Hn).
      injection Hn0 as <-. cbn [t_stack]. eapply stk_step_ok; [exact Hss |].
      exact (Hok t _ Hn).
    + rewrite nth_error_upd_neq in Hn0 by exact NE. exact (Hok t0 th0 Hn0).
  - intros x v HRxv. destruct HR as [HR | [a [b [Hcc [Hur HR]]]]].
    + apply Hmono. apply Hsub. apply HR. exact HRxv.
    + destruct (HR x v HRxv) as [H | [Ex Ev]].
      * apply Hmono. apply Hsub. exact H.
      * subst. exact Hur.
  - destruct HR as [HR | [a [b [Hcc [Hur HR]]]]].
    + intros x Hc. apply (Hac x). revert Hc. apply ct_incl. intros p q Hpq. apply t_step. apply HR. exact Hpq.
    + apply (acyc_add_pair (R s) (R s') a b Hac); [| exact HR].
      intro Hba.
      assert (Hrev : clos_refl_trans nat (user_rel (users s')) a b).
      { revert Hba. apply crt_rev. intros p q Hpq. apply Hmono. apply Hsub. exact Hpq. }
      assert (Hwfu : users_wf (users s')).
      { intros p q Hpq. unfold user_rel in Hpq. rewrite (bi_users _ _ _ Hbi').
        destruct (bi_users_dep _ _ _ Hbi' p q Hpq) as [_ [Hq Hp]]. split; assumption. }
      assert (Ha : a < length (users s')).
      { exact (proj2 (Hwfu b a Hur)). }
      apply (closes_cycle_spec (users s') a b Hwfu Ha) in Hrev. congruence.
Qed.

Lemma inv2_init : forall n T td, inv2 (init_todo n T td).
Proof.
  intros n T td. split.
  - intros t th Hn. cbn in Hn. apply nth_error_repeat in Hn. subst th. cbn. split; [constructor | exact I].
  - intros x v [t [th [fr [Hn [Hin _]]]]]. cbn in Hn. apply nth_error_repeat in Hn. subst th. destruct Hin.
  - intros x Hc.
    assert (Hno : forall a b, ~ R (init_todo n T td) a b).
    { intros a b [t [th [fr [Hn [Hin _]]]]]. cbn in Hn. apply nth_error_repeat in Hn. subst th. destruct Hin. }
    induction Hc as [a b H | a b c H1 IH1 H2 IH2].
    + exact (Hno a b H).
    + exact IH1.
Qed.

Lemma inv2_reach : forall deps T td s, wf_deps deps -> todo_ok (length deps) td ->
  reach deps false (init_todo (length deps) T td) s -> inv2 s.
Proof.
  intros deps T td s Hwf Htd Hr. induction Hr as [| s s' Hr IH Hin].
  - apply inv2_init.
  - apply succs_iff_Step in Hin.
    assert (Hbi : base_inv deps T s) by (eapply base_inv_reach; eassumption).
    eapply inv2_step; [exact Hwf | exact Hbi | | exact IH | exact Hin].
    eapply base_inv_step; eassumption.
Qed.

(* ---------------------------------------------------------------------------------- *)
(* the wait-for graph of threads maps into the graph R of units *)

Definition topu (s : state) (t : nat) : nat :=
  match nth_error (threads s) t with
  | Some th => match t_stack th with fr :: _ => f_unit fr | [] => 0 end
  | None => 0
  end.

(* thread t (with a non-empty stack) waits for a lock held by thread t' *)
Definition W (s : state) (t t' : nat) : Prop :=
  exists th fr rest v, nth_error (threads s) t = Some th /\ t_stack th = fr :: rest /\
    want_target (f_want fr) = Some v /\ lock_of s v = Writing t'.

Lemma chain_path : forall (Rr : nat -> nat -> Prop) st,
  (forall fr v, In fr st -> In v (f_uses fr) -> Rr (f_unit fr) v) ->
  stack_ok st -> forall h rest, st = h :: rest ->
  forall fr, In fr st -> clos_refl_trans nat Rr (f_unit fr) (f_unit h).
Proof.
  intros Rr st. induction st as [| h0 st IH]; intros HR [HF HC] h rest E fr Hin.
  - discriminate.
  - injection E as -> ->. destruct Hin as [<- | Hin].
    + apply rt_refl.
    + destruct rest as [| p rest2]; [destruct Hin |].
      cbn [chain] in HC. destruct HC as [[sw Hsw] HC2].
      assert (Hp : clos_refl_trans nat Rr (f_unit fr) (f_unit p)).
      { apply (IH (fun fr0 v Hi Hv => HR fr0 v (or_intror Hi) Hv)
                  (conj (Forall_inv_tail HF) HC2) p rest2 eq_refl fr Hin). }
      eapply rt_trans; [exact Hp |]. apply rt_step.
      apply HR; [right; left; reflexivity |].
      apply (Forall_inv (Forall_inv_tail HF)). rewrite Hsw. reflexivity.
Qed.

Lemma W_R : forall deps T s t t', wf_deps deps -> base_inv deps T s -> inv2 s ->
  W s t t' -> clos_trans nat (R s) (topu s t) (topu s t').
Proof.
  intros deps T s t t' Hwf Hbi [Hok Hsub Hac] [th [fr [rest [v [Hn [Hst [Hw Hl]]]]]]].
  assert (Hv : v < length deps).
  { eapply want_target_lt; [exact Hwf | exact Hbi | exact Hn |]. unfold cur_want. rewrite Hst. exact Hw. }
  destruct (bi_lock_frame _ _ _ Hbi v t' Hv Hl) as [th' [fr' [Hn' [Hin' Hu']]]].
  destruct (t_stack th') as [| h rest'] eqn:Hst'; [destruct Hin' |].
  assert (Et : topu s t = f_unit fr) by (unfold topu; rewrite Hn, Hst; reflexivity).
  assert (Et' : topu s t' = f_unit h) by (unfold topu; rewrite Hn', Hst'; reflexivity).
  rewrite Et, Et'.
  assert (H1 : R s (f_unit fr) v).
  { exists t, th, fr. split; [exact Hn |]. split; [rewrite Hst; left; reflexivity |].
    split; [reflexivity |]. pose proof (Hok t th Hn) as [HF _]. rewrite Hst in HF.
    exact (Forall_inv HF v Hw). }
  assert (H2 : clos_refl_trans nat (R s) v (f_unit h)).
  { rewrite <- Hu'. apply (chain_path (R s) (h :: rest')) with (rest := rest'); [| | reflexivity | exact Hin'].
    - intros fr0 v0 Hi Hv0. exists t', th', fr0. rewrite Hst'. repeat split; assumption.
    - rewrite <- Hst'. exact (Hok t' th' Hn'). }
  eapply ct_crt_ct; [exact H2 | apply t_step; exact H1].
Qed.

Lemma W_ct_R : forall deps T s, wf_deps deps -> base_inv deps T s -> inv2 s ->
  forall t t', clos_trans nat (W s) t t' -> clos_trans nat (R s) (topu s t) (topu s t').
Proof.
  intros deps T s Hwf Hbi Hi t t' H. induction H as [t t' H | t t1 t' H1 IH1 H2 IH2].
  - eapply W_R; eassumption.
  - eapply t_trans; eassumption.
Qed.

Theorem never_self_blocked : forall deps T td s t, wf_deps deps -> todo_ok (length deps) td ->
  reach deps false (init_todo (length deps) T td) s -> self_blocked s t = false.
Proof.
  intros deps T td s t Hwf Htd Hr.
  assert (Hbi : base_inv deps T s) by (eapply base_inv_reach; eassumption).
  assert (Hi : inv2 s) by (eapply inv2_reach; eassumption).
  unfold self_blocked.
  destruct (nth_error (threads s) t) as [th |] eqn:Hn; [| reflexivity].
  destruct (want_target (cur_want th)) as [v |] eqn:Hw; [| reflexivity].
  destruct (lock_of s v) as [| t' |] eqn:Hl; [reflexivity | | reflexivity].
  apply Nat.eqb_neq. intro E. subst t'.
  assert (Hv : v < length deps) by (eapply want_target_lt; eassumption).
  unfold cur_want in Hw. destruct (t_stack th) as [| fr rest] eqn:Hst.
  - destruct (bi_lock_frame _ _ _ Hbi v t Hv Hl) as [th' [fr' [Hn' [Hin' _]]]].
    rewrite Hn in Hn'. injection Hn' as <-. rewrite Hst in Hin'. destruct Hin'.
  - apply (i_acyc s Hi (topu s t)). eapply W_R; [exact Hwf | exact Hbi | exact Hi |].
    exists th, fr, rest, v. repeat split; assumption.
Qed.

(* ---------------------------------------------------------------------------------- *)
(* progress *)

Definition has_stack (s : state) (t : nat) : bool :=
  match nth_error (threads s) t with
  | Some th => match t_stack th with [] => false | _ :: _ => true end
  | None => false
  end.

(* a thread with frames that cannot step waits for a write-locked unit *)
Lemma blocked_stack : forall deps s t th fr rest, (forall s', ~ Step deps false s s') ->
  nth_error (threads s) t = Some th -> t_stack th = fr :: rest ->
  exists v t', want_target (f_want fr) = Some v /\ lock_of s v = Writing t'.
Proof.
  intros deps s t [job st] fr rest Hno Hn Hst. cbn in Hst. subst st.
  destruct (f_want fr) as [| v sw | v sw] eqn:Hw.
  - exfalso. destruct (cur_req deps fr) as [[v sw] |] eqn:Hc.
    + destruct (mem v (f_uses fr)) eqn:Hm.
      * eapply Hno. eapply SCacheHit; eassumption.
      * destruct (closes_cycle (add_user (users s) v (f_unit fr)) (f_unit fr) v) eqn:Hcc.
        -- destruct sw.
           ++ eapply Hno. eapply SRegisterCircSwallow; eassumption.
           ++ eapply Hno. eapply SRegisterCircAbort; eassumption.
        -- eapply Hno. eapply SRegisterOk; eassumption.
    + eapply Hno. eapply SFinish; eassumption.
  - destruct (lock_of s v) as [| t' | c] eqn:Hl.
    + exfalso. eapply Hno. eapply SReadVacant; eassumption.
    + exists v, t'. split; [reflexivity | exact Hl].
    + exfalso. eapply Hno. eapply SReadDone; eassumption.
  - destruct (lock_of s v) as [| t' | c] eqn:Hl.
    + exfalso. eapply Hno. eapply SWriteVacant; eassumption.
    + exists v, t'. split; [reflexivity | exact Hl].
    + exfalso. eapply Hno. eapply SWriteDone; eassumption.
Qed.

(* a thread without frames that cannot step is idle with nothing left to pick, or waits *)
Lemma blocked_job : forall deps s t th, (forall s', ~ Step deps false s s') ->
  nth_error (threads s) t = Some th -> t_stack th = [] ->
  (t_job th = WNone /\ todo s = []) \/
  exists v t', want_target (t_job th) = Some v /\ lock_of s v = Writing t'.
Proof.
  intros deps s t [job st] Hno Hn Hst. cbn in Hst. subst st. cbn [t_job].
  destruct job as [| v sw | v sw].
  - left. split; [reflexivity |]. destruct (todo s) as [| u td'] eqn:Htd; [reflexivity |].
    exfalso. eapply Hno. eapply SPick with (u := u); [exact Hn | rewrite Htd; left; reflexivity].
  - right. destruct (lock_of s v) as [| t' | c] eqn:Hl.
    + exfalso. eapply Hno. eapply SJobReadVacant; eassumption.
    + exists v, t'. split; [reflexivity | exact Hl].
    + exfalso. eapply Hno. eapply SJobReadDone; eassumption.
  - right. destruct (lock_of s v) as [| t' | c] eqn:Hl.
    + exfalso. eapply Hno. eapply SJobWriteVacant; eassumption.
    + exists v, t'. split; [reflexivity | exact Hl].
    + exfalso. eapply Hno. eapply SJobWriteDone; eassumption.
Qed.

Theorem deadlock_free : forall deps T td s, wf_deps deps -> todo_ok (length deps) td -> 1 <= T ->
  reach deps false (init_todo (length deps) T td) s -> final s = false -> succs deps false s <> [].
Proof.
  intros deps T td s Hwf Htd HT Hr Hfin Hsucc.
  assert (Hbi : base_inv deps T s) by (eapply base_inv_reach; eassumption).
  assert (Hi : inv2 s) by (eapply inv2_reach; eassumption).
  assert (Hno : forall s', ~ Step deps false s s').
  { intros s' Hs. apply succs_iff_Step in Hs. rewrite Hsucc in Hs. destruct Hs. }
  remember (filter (has_stack s) (seq 0 T)) as L eqn:EL.
  assert (HL : forall t, In t L <-> has_stack s t = true).
  { intro t. rewrite EL, filter_In, in_seq. split; [tauto |]. intro H. split; [| exact H].
    unfold has_stack in H. destruct (nth_error (threads s) t) as [th |] eqn:Hn; [| discriminate].
    apply nth_error_lt in Hn. rewrite (bi_threads _ _ _ Hbi) in Hn. lia. }
  clear EL. destruct L as [| t0 L0].
  - (* no thread has a frame *)
    assert (Hemp : forall t th, nth_error (threads s) t = Some th -> t_stack th = []).
    { intros t th Hn. destruct (t_stack th) as [| fr rest] eqn:Hst; [reflexivity |]. exfalso.
      apply (proj2 (HL t)). unfold has_stack. rewrite Hn, Hst. reflexivity. }
    assert (Hidle : forall t th, nth_error (threads s) t = Some th -> t_job th = WNone /\ todo s = []).
    { intros t th Hn.
      destruct (blocked_job deps s t th Hno Hn (Hemp t th Hn)) as [H | [v [t' [Hw Hl]]]]; [exact H |].
      exfalso. assert (Hv : v < length deps) by (eapply (bi_job _ _ _ Hbi); eassumption).
      destruct (bi_lock_frame _ _ _ Hbi v t' Hv Hl) as [th' [fr' [Hn' [Hin' _]]]].
      rewrite (Hemp t' th' Hn') in Hin'. destruct Hin'. }
    unfold final in Hfin. apply andb_false_iff in Hfin. destruct Hfin as [Hf | Hf].
    + assert (Ht : forallb idle (threads s) = true).
      { apply forallb_forall. intros th Hin. apply In_nth_error in Hin. destruct Hin as [t Hn].
        destruct (Hidle t th Hn) as [Hj _]. unfold idle. rewrite Hj, (Hemp t th Hn). reflexivity. }
      congruence.
    + destruct (nth_error (threads s) 0) as [th |] eqn:Hn0.
      * destruct (Hidle 0 th Hn0) as [_ Htodo]. rewrite Htodo in Hf. discriminate.
      * apply nth_error_None in Hn0. rewrite (bi_threads _ _ _ Hbi) in Hn0. lia.
  - (* every thread with a frame waits for another one: a cycle *)
    destruct (finite_cycle (length (t0 :: L0)) (t0 :: L0) (W s)) as [x [Hx Hcyc]];
      [lia | discriminate | |].
    + intros t Ht. apply HL in Ht. unfold has_stack in Ht.
      destruct (nth_error (threads s) t) as [th |] eqn:Hn; [| discriminate].
      destruct (t_stack th) as [| fr rest] eqn:Hst; [discriminate |].
      destruct (blocked_stack deps s t th fr rest Hno Hn Hst) as [v [t' [Hw Hl]]].
      exists t'. split.
      * apply HL.
        assert (Hv : v < length deps).
        { eapply want_target_lt; [exact Hwf | exact Hbi | exact Hn |]. unfold cur_want. rewrite Hst. exact Hw. }
        destruct (bi_lock_frame _ _ _ Hbi v t' Hv Hl) as [th' [fr' [Hn' [Hin' _]]]].
        unfold has_stack. rewrite Hn'. destruct (t_stack th'); [destruct Hin' | reflexivity].
      * exists th, fr, rest, v. repeat split; assumption.
    + apply (i_acyc s Hi (topu s x)). eapply W_ct_R; eassumption.
Qed.

(* ---------------------------------------------------------------------------------- *)
(* both versions of the code: lock discipline *)

Lemma lock_step_upd : forall l x y u,
  lock_step (nth x l Vacant) y -> lock_step (nth u l Vacant) (nth u (upd l x y) Vacant).
Proof.
  intros l x y u H. destruct (Nat.eq_dec x u) as [E | NE].
  - subst u. destruct (lt_dec x (length l)) as [Hlt | Hge].
    + rewrite nth_upd_eq by exact Hlt. exact H.
    + rewrite upd_ge by lia. left. reflexivity.
  - rewrite nth_upd_neq by exact NE. left. reflexivity.
Qed.

Theorem lock_monotone : forall deps cbo T td s s' u, wf_deps deps -> todo_ok (length deps) td ->
  reach deps cbo (init_todo (length deps) T td) s -> In s' (succs deps cbo s) ->
  lock_step (lock_of s u) (lock_of s' u).
Proof.
  intros deps cbo T td s s' u Hwf Htd Hr Hin.
  assert (Hbi : base_inv deps T s) by (eapply base_inv_reach; eassumption).
  apply succs_iff_Step in Hin.
  assert (Hfl : forall t job fr rest, nth_error (threads s) t = Some (mkThread job (fr :: rest)) ->
                  nth (f_unit fr) (locks s) Vacant = Writing t).
  { intros t job fr rest Hn. apply (bi_frame_lock _ _ _ Hbi t _ fr Hn). left. reflexivity. }
  unfold lock_of in *.
  inversion Hin as
    [ t u0 Hn Hu | t v sw Hn Hl | t v sw c Hn Hl | t v sw Hn Hl | t v sw c Hn Hl
    | t job fr rest v sw Hn Hw Hl | t job fr rest v sw c Hn Hw Hl
    | t job fr rest v sw Hn Hw Hl | t job fr rest v sw c Hn Hw Hl
    | t job fr rest Hn Hw Hc | t job fr rest v sw Hn Hw Hc Hm
    | t job fr rest v sw Hn Hw Hc Hm Hcc | t job fr rest v Hn Hw Hc Hm Hcc
    | t job fr rest v Hn Hw Hc Hm Hcc ]; subst s';
    try (progress unfold resolve; destruct (is_circ c && negb sw));
    cbn [locks users threads todo set_thread push_frame abort_frame];
    try (left; reflexivity);
    apply lock_step_upd;
    first [ unfold lock_of in Hl; rewrite Hl; right; left; split; [reflexivity | eexists; reflexivity]
          | rewrite (Hfl _ _ _ _ Hn); right; right; do 2 eexists; split; reflexivity ].
Qed.

Lemma NoDup_flat_stacks : forall (ths : list thread),
  (forall t th, nth_error ths t = Some th -> NoDup (map f_unit (t_stack th))) ->
  (forall t t' th th' fr fr', nth_error ths t = Some th -> nth_error ths t' = Some th' ->
     In fr (t_stack th) -> In fr' (t_stack th') -> f_unit fr = f_unit fr' -> t = t') ->
  NoDup (map f_unit (flat_map t_stack ths)).
Proof.
  induction ths as [| th ths IH]; intros H1 H2.
  - constructor.
  - cbn [flat_map]. rewrite map_app. apply NoDup_app_intro.
    + exact (H1 0 th eq_refl).
    + apply IH.
      * intros t th0 Hn. exact (H1 (S t) th0 Hn).
      * intros t t' th0 th0' fr fr' Hn Hn' Hi Hi' E.
        pose proof (H2 (S t) (S t') th0 th0' fr fr' Hn Hn' Hi Hi' E) as HS. lia.
    + intros x Hx Hx'. apply in_map_iff in Hx. destruct Hx as [fr [Efr Hfr]].
      apply in_map_iff in Hx'. destruct Hx' as [fr' [Efr' Hfr']].
      apply in_flat_map in Hfr'. destruct Hfr' as [th' [Hth' Hfr']].
      apply In_nth_error in Hth'. destruct Hth' as [t' Hn'].
      assert (HS : 0 = S t').
      { apply (H2 0 (S t') th th' fr fr'); [reflexivity | exact Hn' | exact Hfr | exact Hfr' | congruence]. }
      discriminate.
Qed.

Theorem unique_holder : forall deps cbo T td s, wf_deps deps -> todo_ok (length deps) td ->
  reach deps cbo (init_todo (length deps) T td) s ->
  NoDup (map f_unit (all_frames s)) /\
  (forall u t, u < length deps -> (lock_of s u = Writing t <-> exists th fr, nth_error (threads s) t = Some th /\ In fr (t_stack th) /\ f_unit fr = u)).
Proof.
  intros deps cbo T td s Hwf Htd Hr.
  assert (Hbi : base_inv deps T s) by (eapply base_inv_reach; eassumption).
  split.
  - unfold all_frames. apply NoDup_flat_stacks.
    + intros t th Hn. exact (bi_nodup _ _ _ Hbi t th Hn).
    + intros t t' th th' fr fr' Hn Hn' Hi Hi' E.
      pose proof (bi_frame_lock _ _ _ Hbi t th fr Hn Hi) as L1.
      pose proof (bi_frame_lock _ _ _ Hbi t' th' fr' Hn' Hi') as L2.
      rewrite E in L1. rewrite L1 in L2. injection L2 as ->. reflexivity.
  - intros u t Hu. split.
    + intro Hl. exact (bi_lock_frame _ _ _ Hbi u t Hu Hl).
    + intros [th [fr [Hn [Hi E]]]]. rewrite <- E. exact (bi_frame_lock _ _ _ Hbi t th fr Hn Hi).
Qed.

(* ---------------------------------------------------------------------------------- *)
(* a Vacant unit is still to be handed out, or is the item some worker is acquiring *)

Definition vac_inv (n : nat) (s : state) : Prop :=
  forall u, u < n -> lock_of s u = Vacant ->
    In u (todo s) \/ exists t th, nth_error (threads s) t = Some th /\ want_target (t_job th) = Some u.

Lemma lock_upd_vacant : forall l x y u, nth u (upd l x y) Vacant = Vacant -> y <> Vacant ->
  nth u l Vacant = Vacant.
Proof.
  intros l x y u H Hy. destruct (Nat.eq_dec x u) as [E | NE].
  - subst u. destruct (lt_dec x (length l)) as [Hlt | Hge].
    + rewrite nth_upd_eq in H by exact Hlt. congruence.
    + rewrite upd_ge in H by lia. exact H.
  - rewrite nth_upd_neq in H by exact NE. exact H.
Qed.

Lemma vac_step_gen : forall n s s' t th th',
  vac_inv n s ->
  nth_error (threads s) t = Some th -> threads s' = upd (threads s) t th' ->
  (forall u, nth u (locks s') Vacant = Vacant -> nth u (locks s) Vacant = Vacant) ->
  (forall u, nth u (locks s) Vacant = Vacant -> In u (todo s) ->
     In u (todo s') \/ want_target (t_job th') = Some u) ->
  (forall u, nth u (locks s) Vacant = Vacant -> want_target (t_job th) = Some u ->
     want_target (t_job th') = Some u) ->
  vac_inv n s'.
Proof.
  intros n s s' t th th' HV Hn Hthr Hlk Htd Hjob u Hu Hl'.
  pose proof (nth_error_lt _ _ _ _ Hn) as Hlt.
  unfold lock_of in Hl'. pose proof (Hlk u Hl') as Hl.
  destruct (HV u Hu Hl) as [Hin | [t0 [th0 [Hn0 Hw0]]]].
  - destruct (Htd u Hl Hin) as [H | H].
    + left. exact H.
    + right. exists t, th'. split; [| exact H]. rewrite Hthr. apply nth_error_upd_eq. exact Hlt.
  - right. destruct (Nat.eq_dec t t0) as [E | NE].
    + subst t0. rewrite Hn in Hn0. injection Hn0 as <-. exists t, th'. split.
      * rewrite Hthr. apply nth_error_upd_eq. exact Hlt.
      * apply Hjob; assumption.
    + exists t0, th0. split; [| exact Hw0]. rewrite Hthr. rewrite nth_error_upd_neq by exact NE. exact Hn0.
Qed.

Lemma vac_inv_step : forall deps cbo s s', vac_inv (length deps) s -> Step deps cbo s s' ->
  vac_inv (length deps) s'.
Proof.
  intros deps cbo s s' HV Hstep.
  inversion Hstep as
    [ t u0 Hn Hu | t v sw Hn Hl | t v sw c Hn Hl | t v sw Hn Hl | t v sw c Hn Hl
    | t job fr rest v sw Hn Hw Hl | t job fr rest v sw c Hn Hw Hl
    | t job fr rest v sw Hn Hw Hl | t job fr rest v sw c Hn Hw Hl
    | t job fr rest Hn Hw Hc | t job fr rest v sw Hn Hw Hc Hm
    | t job fr rest v sw Hn Hw Hc Hm Hcc | t job fr rest v Hn Hw Hc Hm Hcc
    | t job fr rest v Hn Hw Hc Hm Hcc ]; subst s';
    try (progress unfold resolve; destruct (is_circ c && negb sw));
    unfold set_thread, push_frame, abort_frame;
    (eapply vac_step_gen with (t := t); [exact HV | exact Hn | reflexivity | | |]);
    cbn [locks users threads todo t_job want_target];
    try (intros x Hx; exact Hx);
    try (intros x Hx; eapply lock_upd_vacant; [exact Hx | discriminate]);
    try (intros x Hx Hx'; left; exact Hx');
    try (intros x Hx Hx'; exact Hx');
    try (intros x Hx Hx'; injection Hx' as <-; unfold lock_of in Hl; congruence).
  (* SPick *)
  1: intros x Hx Hx'; destruct (Nat.eq_dec x u0) as [E | NE].
  - right. subst x. reflexivity.
  - left. apply in_in_remove; assumption.
  - intros x _ Hx. discriminate.
Qed.

Lemma vac_inv_reach : forall deps cbo T td s, todo_ok (length deps) td ->
  reach deps cbo (init_todo (length deps) T td) s -> vac_inv (length deps) s.
Proof.
  intros deps cbo T td s Htd Hr. induction Hr as [| s s' Hr IH Hin].
  - intros u Hu _. left. cbn. apply Htd. exact Hu.
  - apply succs_iff_Step in Hin. eapply vac_inv_step; eassumption.
Qed.

Theorem final_all_done : forall deps cbo T td s, wf_deps deps -> todo_ok (length deps) td ->
  reach deps cbo (init_todo (length deps) T td) s -> final s = true ->
  forall u, u < length deps -> exists c, lock_of s u = Done c.
Proof.
  intros deps cbo T td s Hwf Htd Hr Hfin u Hu.
  assert (Hbi : base_inv deps T s) by (eapply base_inv_reach; eassumption).
  assert (HV : vac_inv (length deps) s) by (eapply vac_inv_reach; eassumption).
  unfold final in Hfin. apply andb_true_iff in Hfin. destruct Hfin as [Hidle Htodo].
  assert (Hth : forall t th, nth_error (threads s) t = Some th -> t_job th = WNone /\ t_stack th = []).
  { intros t th Hn. apply nth_error_In in Hn.
    pose proof (proj1 (forallb_forall idle (threads s)) Hidle th Hn) as Hi.
    unfold idle in Hi. destruct (t_job th); [| discriminate | discriminate].
    destruct (t_stack th); [| discriminate]. split; reflexivity. }
  destruct (lock_of s u) as [| t | c] eqn:Hl.
  - exfalso. destruct (HV u Hu Hl) as [Hin | [t [th [Hn Hw]]]].
    + destruct (todo s); [destruct Hin | discriminate].
    + destruct (Hth t th Hn) as [Hj _]. rewrite Hj in Hw. discriminate.
  - exfalso. destruct (bi_lock_frame _ _ _ Hbi u t Hu Hl) as [th [fr [Hn [Hi _]]]].
    destruct (Hth t th Hn) as [_ Hs]. rewrite Hs in Hi. destruct Hi.
  - exists c. reflexivity.
Qed.
