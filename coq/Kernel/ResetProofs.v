(* Kernel/ResetProofs.v — `DesignRoot::reset` is sound: a unit that is not reset has the same
   reference result in the new world (every recorded read, transitively, answers as before),
   and the analysis state after `reset` satisfies the invariant `good` for the new world. *)
From Coq Require Import List NArith Arith Bool Lia.
Import ListNotations.
From RH Require Import Kernel.World Kernel.Reset Kernel.Incr Kernel.Inv
  Kernel.ClosureProofs Kernel.DenProofs Kernel.SimProofs Kernel.BatchProofs.
Open Scope N_scope.

Lemma diff_uids_In : forall x a b, In x (diff_uids a b) <-> In x a /\ ~ In x b.
Proof.
  intros x a b; unfold diff_uids; rewrite filter_In, negb_true_iff, mem_uid_false; tauto.
Qed.

Lemma den_all_ext_on : forall g1 g2 vs acc, (forall v, In v vs -> g1 v = g2 v) ->
  den_all g1 vs acc = den_all g2 vs acc.
Proof.
  intros g1 g2; induction vs as [|v vs IH]; intros acc H; cbn [den_all]; [reflexivity|].
  rewrite <- (H v (or_introl eq_refl)). destruct (g1 v) as [r|]; [|reflexivity].
  destruct (r_circ r); [reflexivity|]. apply IH; intros w Hw; apply H; right; assumption.
Qed.

Lemma is_package_self : forall x, is_package x = true -> package_of x = x.
Proof.
  intros [l k] H; unfold is_package in H; cbn [u_key] in H.
  destruct k as [pk n|sk p n]; [|discriminate]. destruct pk; try discriminate.
  reflexivity.
Qed.

Lemma body_package : forall w x, is_package x = true -> u_slot w = body_slot x -> package_of w = x.
Proof.
  intros [lw kw] [lx kx] Hp Hs; unfold is_package in Hp; cbn [u_key] in Hp.
  destruct kx as [pk n|sk p n]; [|discriminate]. destruct pk; try discriminate.
  unfold body_slot, u_slot, package_of, u_prim, u_slot in *; cbn [u_lib u_key s_prim] in *.
  destruct kw as [pk' n'|sk' p' n']; inversion Hs; subst; reflexivity.
Qed.

Lemma has_body_true : forall W x, has_body W x = true <->
  is_package x = true /\ exists w p, get_slot W (body_slot x) = Some (w, p) /\ is_package_body w = true.
Proof.
  intros W x; unfold has_body; rewrite andb_true_iff.
  destruct (get_slot W (body_slot x)) as [[w p]|]; split.
  - intros [H1 H2]; split; [assumption | eauto].
  - intros [H1 [w' [p' [Heq Hb]]]]; inversion Heq; subst; auto.
  - intros [_ H]; discriminate.
  - intros [_ [w' [p' [Heq _]]]]; discriminate.
Qed.

Section Reset.
  Variables Wo Wn N : world.
  Variable A : ast.
  Variables ad rm : list uid.
  Variable rr : reset_result.
  Hypothesis Hwfo : wf_world Wo.
  Hypothesis Hwfn : wf_world Wn.
  Hypothesis Hclo : clean Wo.
  Hypothesis HA : good Wo A.
  Hypothesis Htot : total Wo A.
  Hypothesis HWn : Wn = filter (not_in rm) Wo ++ N.
  Hypothesis Had : forall x, In x ad <-> In x (unit_ids N).
  Hypothesis Hrm : forall x, In x rm -> In x (unit_ids Wo).
  Hypothesis Hrr : reset (a_maps A) ad rm = Some rr.

  Let M := a_maps A.
  Let seed := affected_seed M ad rm.
  Let all := rr_all rr.

  Lemma all_reach : forall x, In x all <-> reach (users_of M) seed x.
  Proof.
    intros x. destruct (reset_gen_total true M ad rm) as [rr' [Hr' Hs]].
    unfold reset in Hrr; fold M in Hrr. rewrite Hrr in Hr'; inversion Hr'; subst rr'. apply Hs.
  Qed.

  Lemma seed_all : forall x, In x seed -> In x all.
  Proof. intros x H; apply all_reach; apply reach_init; assumption. Qed.

  Lemma all_closed : forall v x, In v all -> In (v, x) (users_of M) -> In x all.
  Proof. intros v x Hv He; apply all_reach; eapply reach_step; [apply all_reach|]; eassumption. Qed.

  Lemma seed_changed : forall x, In x ad \/ In x rm -> In x seed.
  Proof.
    intros x H; unfold seed, affected_seed. apply in_or_app; left. apply in_or_app; tauto.
  Qed.

  Definition net_changed (x : uid) : Prop := (In x rm /\ ~ In x ad) \/ (In x ad /\ ~ In x rm).

  Lemma in_removed' : forall x, In x (diff_uids rm (filter (fun y => mem_uid y ad) rm)) <-> In x rm /\ ~ In x ad.
  Proof.
    intros x; rewrite diff_uids_In, filter_In, mem_uid_In; tauto.
  Qed.
  Lemma in_added' : forall x, In x (diff_uids ad (filter (fun y => mem_uid y ad) rm)) <-> In x ad /\ ~ In x rm.
  Proof.
    intros x; rewrite diff_uids_In, filter_In, mem_uid_In; tauto.
  Qed.

  Lemma seed_liball : forall x y, net_changed x -> In (u_lib x, y) (users_all M) -> In y seed.
  Proof.
    intros x y Hx Hy; unfold seed, affected_seed.
    apply in_or_app; right. apply in_or_app; left.
    apply in_flat_map; exists x; split.
    - apply in_or_app; destruct Hx as [Hx|Hx]; [left; apply in_removed' | right; apply in_added']; assumption.
    - apply in_map_iff; exists (u_lib x, y); split; [reflexivity|].
      apply filter_In; split; [assumption | cbn [fst]; apply N.eqb_refl].
  Qed.

  Lemma seed_missing : forall w y, In w ad -> ~ In w rm -> In (u_slot w, y) (missing M) -> In y seed.
  Proof.
    intros w y Hw Hn Hy; unfold seed, affected_seed.
    apply in_or_app; right. apply in_or_app; right. apply in_or_app; left.
    apply in_flat_map; exists (u_slot w, y); split; [assumption|]. cbn [fst snd].
    replace (existsb _ _) with true; [left; reflexivity|].
    symmetry; apply existsb_exists; exists w; split; [apply in_added'; auto | apply slot_eqb_refl].
  Qed.

  Lemma seed_body : forall w, net_changed w -> is_package_body w = true -> In (package_of w) seed.
  Proof.
    intros w Hw Hb; unfold seed, affected_seed.
    apply in_or_app; right. apply in_or_app; right. apply in_or_app; right.
    apply in_flat_map; exists w; split.
    - apply in_or_app; destruct Hw as [Hw|Hw]; [right; apply in_removed' | left; apply in_added']; assumption.
    - rewrite Hb; left; reflexivity.
  Qed.

  Lemma not_all_not_rm : forall x, ~ In x all -> ~ In x rm /\ ~ In x ad.
  Proof. intros x H; split; intros Hc; apply H; apply seed_all; apply seed_changed; auto. Qed.

  (* ---- the two worlds ---- *)
  Lemma K1 : forall x p, In (x, p) Wo -> ~ In x rm -> In (x, p) Wn.
  Proof.
    intros x p Hin Hn; rewrite HWn; apply in_or_app; left; apply filter_In; split; [assumption|].
    unfold not_in; cbn [fst]; apply negb_true_iff; apply mem_uid_false; assumption.
  Qed.

  Lemma K1' : forall s x p, get_slot Wo s = Some (x, p) -> ~ In x rm -> get_slot Wn s = Some (x, p).
  Proof.
    intros s x p Hg Hn. destruct (get_slot_In _ _ _ _ Hg) as [Hin Hs]. subst s.
    apply get_slot_wf; [assumption | apply K1; assumption].
  Qed.

  Lemma K3 : forall w p, In (w, p) Wn -> (In (w, p) Wo /\ ~ In w rm) \/ In w ad.
  Proof.
    intros w p Hin; rewrite HWn in Hin; apply in_app_or in Hin; destruct Hin as [Hin|Hin].
    - apply filter_In in Hin; destruct Hin as [Hin Hf]; left; split; [assumption|].
      unfold not_in in Hf; cbn [fst] in Hf; apply negb_true_iff in Hf; apply mem_uid_false; assumption.
    - right; apply Had; apply unit_ids_In; eauto.
  Qed.

  Lemma ad_in_Wn : forall w, In w ad -> exists p, In (w, p) Wn.
  Proof.
    intros w Hw; apply Had in Hw; apply unit_ids_In in Hw; destruct Hw as [p Hp].
    exists p; rewrite HWn; apply in_or_app; right; assumption.
  Qed.

  Lemma rm_not_in_old_slot : forall s w p, get_slot Wo s = None -> In (w, p) Wn -> u_slot w = s ->
    In w ad /\ ~ In w rm.
  Proof.
    intros s w p Hg Hin Hs.
    assert (Hnot : ~ In w (unit_ids Wo)).
    { intros Hc; apply unit_ids_In in Hc; destruct Hc as [q Hq].
      rewrite <- Hs, (get_slot_wf _ _ _ Hwfo Hq) in Hg; discriminate. }
    split.
    - destruct (K3 _ _ Hin) as [[Hc _]|Hc]; [exfalso; apply Hnot; apply unit_ids_In; eauto | assumption].
    - intros Hc; apply Hnot; apply Hrm; assumption.
  Qed.

  Lemma primaries_app : forall W1 W2 l, primaries (W1 ++ W2) l = primaries W1 l ++ primaries W2 l.
  Proof. intros; unfold primaries; rewrite filter_app, map_app; reflexivity. Qed.

  Lemma primaries_filter_id : forall (f : uid * prog -> bool) W l,
    (forall e, In e W -> is_primary (fst e) = true -> u_lib (fst e) = l -> f e = true) ->
    primaries (filter f W) l = primaries W l.
  Proof.
    intros f W l H; unfold primaries. f_equal. rewrite filter_filter.
    induction W as [|e W IH]; cbn [filter]; [reflexivity|].
    destruct (is_primary (fst e) && (u_lib (fst e) =? l)) eqn:Hc.
    - apply andb_true_iff in Hc; destruct Hc as [Hc1 Hc2]; apply N.eqb_eq in Hc2.
      rewrite (H e (or_introl eq_refl) Hc1 Hc2). cbn [andb]. f_equal.
      apply IH; intros e' He'; apply H; right; assumption.
    - rewrite andb_false_r. apply IH; intros e' He'; apply H; right; assumption.
  Qed.

  Lemma primaries_none : forall W l,
    (forall w, In w (unit_ids W) -> is_primary w = true -> u_lib w = l -> False) -> primaries W l = [].
  Proof.
    induction W as [|[w p] W IH]; intros l H; [reflexivity|].
    unfold primaries; cbn [filter fst].
    destruct (is_primary w && (u_lib w =? l)) eqn:Hc.
    - apply andb_true_iff in Hc; destruct Hc as [Hc1 Hc2]; apply N.eqb_eq in Hc2.
      exfalso; apply (H w); [left; reflexivity | assumption | assumption].
    - apply IH; intros w' Hw'; apply H; right; assumption.
  Qed.

  Lemma primaries_stable : forall l,
    (forall v, In v (primaries Wo l) -> ~ In v rm) ->
    (forall w, In w ad -> is_primary w = true -> u_lib w = l -> False) ->
    primaries Wn l = primaries Wo l.
  Proof.
    intros l H1 H2. rewrite HWn, primaries_app.
    rewrite (primaries_none N l), app_nil_r.
    - apply primaries_filter_id. intros [v p] Hin Hp Hl; cbn [fst] in *.
      unfold not_in; cbn [fst]; apply negb_true_iff; apply mem_uid_false.
      apply H1. apply primaries_In; split; [apply unit_ids_In; eauto | auto].
    - intros w Hw; apply H2; apply Had; assumption.
  Qed.

  (* ---- the reference entry of a unit that is analysed in the old state ---- *)
  Lemma old_entry : forall g x e, den g Wo x = Some e ->
    memo_get (a_memo A) x = Some e /\ Forall (reg_event M x) (snd e).
  Proof.
    intros g x e Hd. destruct (den_present _ _ _ _ Hd) as [p [_ Hin]].
    assert (Hx : In x (unit_ids Wo)) by (apply unit_ids_In; eauto).
    pose proof (Htot x Hx) as Hm. destruct (memo_get (a_memo A) x) as [e'|] eqn:He'; [|congruence].
    destruct (g_memo _ _ HA x e' He') as [g' Hd'].
    assert (e' = e) by (eapply den_det; eassumption). subst e'.
    split; [reflexivity | apply (g_reg _ _ HA x e He')].
  Qed.

  Lemma has_body_stable : forall x, ~ In x all -> has_body Wn x = has_body Wo x.
  Proof.
    intros x Hx.
    destruct (has_body Wo x) eqn:Ho; destruct (has_body Wn x) eqn:Hn; try reflexivity; exfalso.
    - (* body disappeared *)
      apply has_body_true in Ho; destruct Ho as [Hp [w [p [Hg Hb]]]].
      destruct (get_slot_In _ _ _ _ Hg) as [Hin Hs].
      assert (Hwrm : In w rm).
      { destruct (in_dec uid_eq_dec w rm) as [H|H]; [assumption|]. exfalso.
        pose proof (K1' _ _ _ Hg H) as Hg'.
        assert (Hc : has_body Wn x = true) by (apply has_body_true; eauto). congruence. }
      assert (Hwad : ~ In w ad).
      { intros Hc. destruct (ad_in_Wn w Hc) as [p' Hp'].
        pose proof (get_slot_wf _ _ _ Hwfn Hp') as Hg'. rewrite Hs in Hg'.
        assert (Hc' : has_body Wn x = true) by (apply has_body_true; eauto). congruence. }
      apply Hx; apply seed_all. rewrite <- (body_package w x Hp Hs).
      apply seed_body; [left; auto | assumption].
    - (* body appeared *)
      apply has_body_true in Hn; destruct Hn as [Hp [w [p [Hg Hb]]]].
      destruct (get_slot_In _ _ _ _ Hg) as [Hin Hs].
      assert (Hnew : In w ad /\ ~ In w rm).
      { destruct (K3 _ _ Hin) as [[Hino Hnrm]|Hwad].
        - exfalso. pose proof (get_slot_wf _ _ _ Hwfo Hino) as Hg'. rewrite Hs in Hg'.
          assert (Hc : has_body Wo x = true) by (apply has_body_true; eauto). congruence.
        - split; [assumption|]. intros Hc. apply Hrm in Hc; apply unit_ids_In in Hc; destruct Hc as [q Hq].
          pose proof (get_slot_wf _ _ _ Hwfo Hq) as Hg'. rewrite Hs in Hg'.
          assert (Hc : has_body Wo x = true) by (apply has_body_true; eauto). congruence. }
      apply Hx; apply seed_all. rewrite <- (body_package w x Hp Hs).
      apply seed_body; [right; assumption | assumption].
  Qed.

  Lemma answer_stable : forall g x q a,
    (forall v ev, den g Wo v = Some ev -> ~ In v all -> den g Wn v = Some ev) ->
    ~ In x all -> reg_event M x (q, a) ->
    den_answer Wo (getd_of g Wo) x q = Some a ->
    den_answer Wn (getd_of g Wn) x q = Some a.
  Proof.
    intros g x q a IHg Hx [Hru Hrk] Hden.
    assert (Hget : forall v rv, getd_of g Wo v = Some rv -> ~ In v all -> getd_of g Wn v = Some rv).
    { intros v rv Hv Hnv; unfold getd_of in *. destruct (den g Wo v) as [ev|] eqn:Hd; [|discriminate].
      rewrite (IHg v ev Hd Hnv); assumption. }
    destruct q as [s|l|]; cbn [den_answer] in *.
    - destruct (get_slot Wo s) as [[v p]|] eqn:Hs.
      + destruct (getd_of g Wo v) as [rv|] eqn:Hg; [|discriminate].
        assert (Hcirc : r_circ rv = false) by (eapply clean_getd_circ; eassumption).
        rewrite Hcirc in Hden; inversion Hden; subst a; clear Hden.
        assert (Hv : ~ In v all).
        { intros Hc; apply Hx; apply (all_closed v x Hc). apply Hru; left; reflexivity. }
        rewrite (K1' _ _ _ Hs (proj1 (not_all_not_rm v Hv))), (Hget v rv Hg Hv), Hcirc; reflexivity.
      + inversion Hden; subst a; clear Hden.
        destruct (get_slot Wn s) as [[w p]|] eqn:Hsn; [|reflexivity]. exfalso.
        destruct (get_slot_In _ _ _ _ Hsn) as [Hin Hsw].
        destruct (rm_not_in_old_slot s w p Hs Hin Hsw) as [Hwad Hwrm].
        apply Hx; apply seed_all; apply (seed_missing w x Hwad Hwrm). rewrite Hsw; exact Hrk.
    - destruct (l =? u_lib x) eqn:Hl; [assumption|].
      destruct (den_all (getd_of g Wo) (primaries Wo l) []) as [[vs b]|] eqn:Hd; [|discriminate].
      assert (Hb : b = true).
      { eapply den_all_clean_true; [|eassumption]. intros v rv Hv; eapply clean_getd_circ; eassumption. }
      subst b. inversion Hden; subst a; clear Hden.
      destruct (den_all_complete _ _ _ _ Hd) as [Hvs Hallp]. cbn [rev app] in Hvs.
      assert (Hfst : map fst vs = primaries Wo l).
      { rewrite Hvs, map_map; cbn [fst]; apply map_id. }
      cbn [snd answer_units] in Hru. rewrite Hfst in Hru.
      assert (Hpv : forall v, In v (primaries Wo l) -> ~ In v all).
      { intros v Hv Hc; apply Hx; apply (all_closed v x Hc); apply Hru; assumption. }
      assert (Hprim : primaries Wn l = primaries Wo l).
      { apply primaries_stable.
        - intros v Hv; apply (not_all_not_rm v (Hpv v Hv)).
        - intros w Hwad Hwp Hwl.
          assert (Hwrm : ~ In w rm).
          { intros Hc. assert (Hw : In w (primaries Wo l)) by (apply primaries_In; auto).
            apply (proj1 (not_all_not_rm w (Hpv w Hw))); assumption. }
          apply Hx; apply seed_all; apply (seed_liball w x); [right; auto | rewrite Hwl; exact Hrk]. }
      rewrite Hprim.
      rewrite (den_all_ext_on (getd_of g Wn) (getd_of g Wo) (primaries Wo l) []), Hd; [reflexivity|].
      intros v Hv. destruct (Hallp v Hv) as [rv [Hrv _]]. rewrite Hrv. apply Hget; [assumption | apply Hpv; assumption].
    - rewrite has_body_stable; assumption.
  Qed.

  Lemma run_stable : forall g x e,
    (forall v ev, den g Wo v = Some ev -> ~ In v all -> den g Wn v = Some ev) ->
    ~ In x all -> Forall (reg_event M x) (snd e) ->
    forall p tr, den_run Wo (getd_of g Wo) x p tr = Some e -> den_run Wn (getd_of g Wn) x p tr = Some e.
  Proof.
    intros g x e IHg Hx Hreg; induction p as [c t|q k IH]; intros tr Hden; cbn [den_run] in *; [assumption|].
    destruct (den_answer Wo (getd_of g Wo) x q) as [a|] eqn:Ha; [|discriminate].
    assert (Hev : reg_event M x (q, a)).
    { destruct (den_run_prefix _ _ _ _ _ _ Hden) as [rest Hrest].
      rewrite Forall_forall in Hreg; apply Hreg.
      replace (snd e) with (rev ((q, a) :: tr) ++ rest).
      apply in_or_app; left; cbn [rev]; apply in_or_app; right; left; reflexivity. }
    rewrite (answer_stable g x q a IHg Hx Hev Ha). apply IH; assumption.
  Qed.

  (* C01_reset_covers_changed_reads, contrapositive: a unit outside the reset set has the
     same reference result in the new world *)
  Theorem stable : forall g x e, den g Wo x = Some e -> ~ In x all -> den g Wn x = Some e.
  Proof.
    induction g as [|g IH]; intros x e Hd Hx; [discriminate|].
    destruct (old_entry _ _ _ Hd) as [_ Hreg].
    rewrite den_S in *.
    destruct (get_slot Wo (u_slot x)) as [[x' p]|] eqn:Hs; [|discriminate].
    destruct (uid_eqb x' x) eqn:He; [|discriminate]. apply uid_eqb_true in He; subst x'.
    rewrite (K1' _ _ _ Hs (proj1 (not_all_not_rm x Hx))), uid_eqb_refl.
    apply (run_stable g x e IH Hx Hreg); assumption.
  Qed.

  (* ---- the state after reset ---- *)
  Variable m1 : list (uid * entry).     (* the memo table after the removals *)
  Hypothesis Hm1 : forall x, memo_get m1 x = if mem_uid x rm then None else memo_get (a_memo A) x.

  Definition memo_after : list (uid * entry) :=
    filter (fun e => negb (mem_slot (u_slot (fst e)) (map u_slot all))) m1.

  Lemma memo_after_get : forall x e, memo_get memo_after x = Some e ->
    ~ In x all /\ memo_get (a_memo A) x = Some e.
  Proof.
    intros x e H; unfold memo_after in H.
    rewrite (memo_get_filter (fun v => negb (mem_slot (u_slot v) (map u_slot all))) m1 x) in H.
    destruct (mem_slot (u_slot x) (map u_slot all)) eqn:Hm; cbn [negb] in H; [discriminate|].
    split.
    - intros Hc. assert (Ht : mem_slot (u_slot x) (map u_slot all) = true).
      { apply mem_slot_In; apply in_map; assumption. }
      congruence.
    - rewrite Hm1 in H. destruct (mem_uid x rm); [discriminate | assumption].
  Qed.

  Lemma rr_maps_users : forall a b, In (a, b) (users_of (rr_maps rr)) <->
    In (a, b) (users_of M) /\ ~ In a (rr_removed rr) /\ ~ In b all.
  Proof.
    intros a b. unfold reset, reset_gen in Hrr; fold M in Hrr.
    destruct (get_all_affected (users_of M) (affected_seed M ad rm)) as [al|] eqn:Hg; [|discriminate].
    inversion Hrr; subst rr; clear Hrr. cbn [rr_maps rr_removed users_of].
    unfold all; cbn [rr_all].
    rewrite !filter_In; cbn [fst snd]. rewrite !negb_true_iff, !mem_uid_false. tauto.
  Qed.

  Lemma rr_maps_all : forall l b, In (l, b) (users_all M) -> ~ In b rm -> ~ In b all ->
    In (l, b) (users_all (rr_maps rr)).
  Proof.
    intros l b Hin Hb1 Hb2. unfold reset, reset_gen in Hrr; fold M in Hrr.
    destruct (get_all_affected (users_of M) (affected_seed M ad rm)) as [al|] eqn:Hg; [|discriminate].
    inversion Hrr; subst rr; clear Hrr. cbn [rr_maps users_all].
    unfold all in Hb2; cbn [rr_all] in Hb2.
    apply filter_In; split; [apply filter_In; split; [assumption|] |]; cbn [fst snd].
    - apply negb_true_iff; apply andb_false_iff; left; apply mem_uid_false.
      intros Hc; apply diff_uids_In in Hc; tauto.
    - apply negb_true_iff; apply mem_uid_false; assumption.
  Qed.

  Lemma rr_maps_missing : forall s b, In (s, b) (missing M) -> ~ In b rm -> ~ In b all ->
    In (s, b) (missing (rr_maps rr)).
  Proof.
    intros s b Hin Hb1 Hb2. unfold reset, reset_gen in Hrr; fold M in Hrr.
    destruct (get_all_affected (users_of M) (affected_seed M ad rm)) as [al|] eqn:Hg; [|discriminate].
    inversion Hrr; subst rr; clear Hrr. cbn [rr_maps missing].
    unfold all in Hb2; cbn [rr_all] in Hb2.
    apply filter_In; split; [apply filter_In; split; [assumption|] |]; cbn [fst snd].
    - apply negb_true_iff; apply mem_uid_false. intros Hc; apply diff_uids_In in Hc; tauto.
    - apply negb_true_iff; apply mem_uid_false; assumption.
  Qed.

  Lemma rr_removed_spec : forall x, In x (rr_removed rr) <-> In x rm /\ ~ In x ad.
  Proof.
    intros x. unfold reset, reset_gen in Hrr; fold M in Hrr.
    destruct (get_all_affected (users_of M) (affected_seed M ad rm)) as [al|] eqn:Hg; [|discriminate].
    inversion Hrr; subst rr; clear Hrr. cbn [rr_removed]. apply in_removed'.
  Qed.

  Theorem reset_good : good Wn (mkAst memo_after (rr_maps rr)).
  Proof.
    constructor; cbn [a_memo a_maps].
    - intros x e Hx. destruct (memo_after_get x e Hx) as [Hna Hm].
      destruct (g_memo _ _ HA x e Hm) as [g Hd]. exists g; apply stable; assumption.
    - intros a b Hab. apply rr_maps_users in Hab; destruct Hab as [Hab [_ Hb]].
      destruct (g_edges _ _ HA a b Hab) as [g [e [Hd Hin]]].
      exists g, e; split; [apply stable; assumption | assumption].
    - intros x e Hx. destruct (memo_after_get x e Hx) as [Hna Hm].
      pose proof (g_reg _ _ HA x e Hm) as Hreg.
      eapply Forall_impl; [|exact Hreg]. intros [q a] [Hu Hk]. split.
      + intros v Hv. apply rr_maps_users. split; [apply Hu; assumption|]. split; [|assumption].
        intros Hc. apply rr_removed_spec in Hc. apply Hna. apply (all_closed v x).
        * apply seed_all; apply seed_changed; tauto.
        * apply Hu; assumption.
      + destruct q as [s|l|]; destruct a; try exact I.
        * apply rr_maps_missing; [assumption | apply (not_all_not_rm x Hna) | assumption].
        * apply rr_maps_all; [assumption | apply (not_all_not_rm x Hna) | assumption].
  Qed.
End Reset.
