(* Kernel/Reset.v — the dependency bookkeeping of `DesignRoot` (definitions only, no proofs).

   Anchor: vhdl_lang/src/analysis/root.rs
     users_of             : unit            => set(users)      list of (unit, user)
     users_of_library_all : library name    => set(users)      list of (library, user)
     missing_unit         : (lib,prim,sec)  => set(users)      list of (slot, user)
   A map to sets is modelled as the list of its (key, member) pairs without repetition; the
   `retain(.. !is_empty())` of the Rust code is invisible in this representation.

   fn get_all_affected    `gaa` (the worklist loop, one `while` iteration per unit of fuel)
   fn make_use_of         insert the edge, then the cycle test by the same closure
   fn make_use_of_library_all / make_use_of_missing_unit
   fn reset               verbatim; `reset_gen true` is the code after commit 24ed74b (finding
                          F2 repaired), `reset_gen false` = `reset_old` the code before it. *)
From Coq Require Import List NArith Arith Bool.
Import ListNotations.
From RH Require Import Kernel.World.
Open Scope N_scope.

Record maps := mkMaps {
  users_of : list (uid * uid);            (* (unit, user): `user` depends on `unit` *)
  users_all : list (lib * uid);           (* (library, user): `user` has `use library.all` *)
  missing : list (slot * uid)             (* (slot, user): `user` looked the slot up in vain *)
}.
Definition empty_maps : maps := mkMaps [] [] [].

Definition edge_eqb (a b : uid * uid) : bool := uid_eqb (fst a) (fst b) && uid_eqb (snd a) (snd b).
Definition lpair_eqb (a b : lib * uid) : bool := (fst a =? fst b) && uid_eqb (snd a) (snd b).
Definition mpair_eqb (a b : slot * uid) : bool := slot_eqb (fst a) (fst b) && uid_eqb (snd a) (snd b).

(* HashSet::insert *)
Definition add_uid (x : uid) (l : list uid) : list uid := if mem_uid x l then l else x :: l.
Definition add_edge (e : uid * uid) (l : list (uid * uid)) := if existsb (edge_eqb e) l then l else e :: l.
Definition add_lpair (e : lib * uid) (l : list (lib * uid)) := if existsb (lpair_eqb e) l then l else e :: l.
Definition add_mpair (e : slot * uid) (l : list (slot * uid)) := if existsb (mpair_eqb e) l then l else e :: l.

(* users_of.get(v) *)
Definition users_of_unit (E : list (uid * uid)) (v : uid) : list uid :=
  map snd (filter (fun e => uid_eqb (fst e) v) E).

(* the body of `for user in affected.drain()`:
     all_affected.insert(user);
     for new_user in users_of[user] { if all_affected.insert(new_user) { next_affected.insert(new_user) } } *)
Definition visit_user (acc : list uid * list uid) (y : uid) : list uid * list uid :=
  if mem_uid y (fst acc) then acc else (y :: fst acc, y :: snd acc).
Definition visit (E : list (uid * uid)) (acc : list uid * list uid) (user : uid) : list uid * list uid :=
  fold_left visit_user (users_of_unit E user) (add_uid user (fst acc), snd acc).

(* `while !affected.is_empty()`; None = out of fuel *)
Fixpoint gaa (fuel : nat) (E : list (uid * uid)) (affected all : list uid) : option (list uid) :=
  match affected with
  | [] => Some all
  | _ :: _ =>
      match fuel with
      | O => None
      | S f => let r := fold_left (visit E) affected (all, []) in gaa f E (snd r) (fst r)
      end
  end.

(* every productive iteration after the first adds a unit that is the user of some edge *)
Definition get_all_affected (E : list (uid * uid)) (affected : list uid) : option (list uid) :=
  gaa (S (length E)) E affected [].

(* DesignRoot::make_use_of(user, unit): Some (maps', ok); ok = false is the
   CircularDependencyError.  The edge stays registered in both cases. *)
Definition make_use_of (M : maps) (user unit : uid) : option (maps * bool) :=
  let E := add_edge (unit, user) (users_of M) in
  match get_all_affected E [user] with
  | None => None
  | Some all => Some (mkMaps E (users_all M) (missing M), negb (mem_uid unit all))
  end.

Definition make_use_of_library_all (M : maps) (user : uid) (l : lib) : maps :=
  mkMaps (users_of M) (add_lpair (l, user) (users_all M)) (missing M).

Definition make_use_of_missing_unit (M : maps) (user : uid) (s : slot) : maps :=
  mkMaps (users_of M) (users_all M) (add_mpair (s, user) (missing M)).

(* ---------------------------------------------------------------------------------------- *)
(* DesignRoot::reset.  `added` / `removed` are the sets drained from the libraries. *)
Definition diff_uids (a b : list uid) : list uid := filter (fun x => negb (mem_uid x b)) a.

Record reset_result := mkReset {
  rr_maps : maps;                 (* the maps after the clean-up *)
  rr_all : list uid;              (* all_affected: the units whose analysis state is cleared *)
  rr_removed : list uid           (* the return value: removed \ changed *)
}.

Definition affected_seed (M : maps) (added removed : list uid) : list uid :=
  let affected0 := added ++ removed in
  let changed := filter (fun x => mem_uid x added) removed in
  let removed' := diff_uids removed changed in
  let added' := diff_uids added changed in
  (* Add affected users which do 'use library.all' *)
  let a1 := flat_map (fun x => map snd (filter (fun e => fst e =? u_lib x) (users_all M))) (removed' ++ added') in
  (* users of a missing unit name that was added *)
  let a2 := flat_map (fun e => if existsb (fun a => slot_eqb (u_slot a) (fst e)) added' then [snd e] else [])
                     (missing M) in
  (* Affect packages which have got body removed or added *)
  let a3 := flat_map (fun x => if is_package_body x then [package_of x] else [])
                     (added' ++ removed') in
  affected0 ++ a1 ++ a2 ++ a3.

Definition reset_gen (fixed : bool) (M : maps) (added removed : list uid) : option reset_result :=
  let changed := filter (fun x => mem_uid x added) removed in
  let removed' := diff_uids removed changed in
  match get_all_affected (users_of M) (affected_seed M added removed) with
  | None => None
  | Some all =>
      (* Clean-up after removed units *)
      let U1 := filter (fun e => negb (mem_uid (fst e) removed')) (users_of M) in
      let L1 := filter (fun e => negb (mem_uid (snd e) removed' && (fst e =? u_lib (snd e)))) (users_all M) in
      let M1 := filter (fun e => negb (mem_uid (snd e) removed')) (missing M) in
      (* 24ed74b: the units which will be re-analyzed register what they make use of anew *)
      let keep {A} (e : A * uid) := if fixed then negb (mem_uid (snd e) all) else true in
      Some (mkReset (mkMaps (filter keep U1) (filter keep L1) (filter keep M1)) all removed')
  end.

Definition reset := reset_gen true.
Definition reset_old := reset_gen false.
