(* Kernel/ConcSweepA.v — thorough-tier finite sweep (about 2 minutes of vm_compute): all 2197
   request graphs with 3 units and request lists of at most 2 entries, 2 workers, every
   interleaving. *)
From Coq Require Import List Arith Bool.
Import ListNotations.
From RH Require Import Kernel.Conc Kernel.ConcProofs.

Lemma sweep_3_2_2 : sweep 200000 2 (graphs 3 2) = true.
Proof. vm_compute. reflexivity. Qed.

Theorem finite_sweep_3_2_2 : forall deps, small_graph 3 2 deps ->
  forall s, reach deps false (init (length deps) 2) s ->
    stuck deps false s = false /\ (final s = true -> locks s = seq_result deps false 200000).
Proof. intros deps H. exact (sweep_sound 200000 2 3 2 deps sweep_3_2_2 H). Qed.
