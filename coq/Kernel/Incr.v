(* Kernel/Incr.v — incremental analysis of a design root: memo table, nested analysis with
   dependency registration, `DesignRoot::analyze`, the lint cache, edit histories and the
   from-scratch run (definitions only, no proofs).

   Anchors:
     vhdl_lang/src/analysis/analyze.rs   AnalyzeContext::{make_use_of, make_use_of_library_all,
                                         make_use_of_missing_unit, get_analysis, get_primary_unit,
                                         get_secondary_unit, use_all_in_library, has_package_body}
                                         with its three per-unit caches `uses`, `missing_unit`,
                                         `uses_library_all`
     vhdl_lang/src/analysis/root.rs      DesignRoot::{get_analysis, analyze_unit, reset_affected,
                                         analyze}, Library::{remove_source, add_design_unit}
     vhdl_lang/src/analysis/lock.rs      AnalysisLock: a unit is Vacant (no memo entry) or analysed;
                                         entering a unit that is being analysed further down the
                                         same stack would block for ever = outcome `Deadlock`
     vhdl_lang/src/project.rs            Project::{update_source, analyse}
     vhdl_lang/src/lint/dead_code.rs     UnusedDeclarationsLinter (cache keyed by library, primary)

   The model is sequential: the units that need analysis are analysed in world order, a unit
   that is read and not yet analysed is analysed on the spot (nested), exactly what one rayon
   worker does.  (Schedules of several workers are property C04, Kernel/Conc.v.) *)
From Coq Require Import List NArith Arith Bool.
Import ListNotations.
From RH Require Import Kernel.World Kernel.Reset.
Open Scope N_scope.

Inductive outcome (A : Type) :=
| Ok (a : A)
| OutOfFuel          (* the fuel of a loop did not suffice (excluded by the totality theorems) *)
| Deadlock           (* write lock of a unit requested while the same thread analyses it *)
| Crash.             (* a unit id that is not in the library (`unwrap` on None) *)
Arguments Ok {A} a.
Arguments OutOfFuel {A}.
Arguments Deadlock {A}.
Arguments Crash {A}.

(* analysis state of the design root: results of analysed units + dependency maps *)
Record ast := mkAst { a_memo : list (uid * entry); a_maps : maps }.

Fixpoint memo_get (m : list (uid * entry)) (u : uid) : option entry :=
  match m with
  | [] => None
  | (v, e) :: m' => if uid_eqb v u then Some e else memo_get m' u
  end.
Definition memo_set (A : ast) (u : uid) (e : entry) : ast := mkAst ((u, e) :: a_memo A) (a_maps A).
Definition set_maps (A : ast) (M : maps) : ast := mkAst (a_memo A) M.

(* the three caches of one AnalyzeContext *)
Record ctx := mkCtx { c_uses : list uid; c_missing : list slot; c_liball : list lib }.
Definition empty_ctx : ctx := mkCtx [] [] [].

Section Unit.
  Variable W : world.
  (* DesignRoot::get_analysis for another unit: its result, analysing it first if necessary *)
  Variable get : ast -> uid -> outcome (ast * result).
  Variable u : uid.     (* current_unit *)

  (* AnalyzeContext::get_analysis(unit v) = make_use_of(v)?; root.get_analysis(v).
     Result None = the CircularDependencyError of make_use_of; `Some r` with the circular flag of
     `r` set is turned into the same error by the callers below (`has_circular_dependency`). *)
  Definition use_unit (A : ast) (c : ctx) (v : uid) : outcome (ast * ctx * option result) :=
    if mem_uid v (c_uses c) then
      match get A v with
      | Ok (A', r) => Ok (A', c, Some r)
      | OutOfFuel => OutOfFuel | Deadlock => Deadlock | Crash => Crash
      end
    else
      match make_use_of (a_maps A) u v with
      | None => OutOfFuel
      | Some (M', false) => Ok (set_maps A M', c, None)
      | Some (M', true) =>
          match get (set_maps A M') v with
          | Ok (A', r) => Ok (A', mkCtx (v :: c_uses c) (c_missing c) (c_liball c), Some r)
          | OutOfFuel => OutOfFuel | Deadlock => Deadlock | Crash => Crash
          end
      end.

  (* the loop of use_all_in_library over the primary units of the library; the flag tells
     whether it ran to the end (then the library is registered) or left with `?` *)
  Fixpoint all_loop (vs : list uid) (A : ast) (c : ctx) (acc : list (uid * result))
    : outcome (ast * ctx * list (uid * result) * bool) :=
    match vs with
    | [] => Ok (A, c, rev acc, true)
    | v :: vs' =>
        match use_unit A c v with
        | Ok (A', c', None) => Ok (A', c', rev acc, false)
        | Ok (A', c', Some r) =>
            if r_circ r then Ok (A', c', rev acc, false)
            else all_loop vs' A' c' ((v, r) :: acc)
        | OutOfFuel => OutOfFuel | Deadlock => Deadlock | Crash => Crash
        end
    end.

  Definition register_missing (A : ast) (c : ctx) (s : slot) : ast * ctx :=
    if mem_slot s (c_missing c) then (A, c)
    else (set_maps A (make_use_of_missing_unit (a_maps A) u s),
          mkCtx (c_uses c) (s :: c_missing c) (c_liball c)).

  Definition register_liball (A : ast) (c : ctx) (l : lib) : ast * ctx :=
    if mem_lib l (c_liball c) then (A, c)
    else (set_maps A (make_use_of_library_all (a_maps A) u l),
          mkCtx (c_uses c) (c_missing c) (l :: c_liball c)).

  Definition answer_query (A : ast) (c : ctx) (q : query) : outcome (ast * ctx * answer) :=
    match q with
    | QUnit s =>
        match get_slot W s with
        | None => let (A', c') := register_missing A c s in Ok (A', c', AMissing)
        | Some (v, _) =>
            match use_unit A c v with
            | Ok (A', c', None) => Ok (A', c', ACycle)
            | Ok (A', c', Some r) => Ok (A', c', if r_circ r then ACycle else AUnit v r)
            | OutOfFuel => OutOfFuel | Deadlock => Deadlock | Crash => Crash
            end
        end
    | QLibAll l =>
        if l =? u_lib u then Ok (A, c, AOwnLib)
        else
          match all_loop (primaries W l) A c [] with
          | Ok (A', c', vs, true) => let (A'', c'') := register_liball A' c' l in Ok (A'', c'', AAll vs)
          | Ok (A', c', vs, false) => Ok (A', c', AAllErr vs)
          | OutOfFuel => OutOfFuel | Deadlock => Deadlock | Crash => Crash
          end
    | QHasBody => Ok (A, c, ABool (has_body W u))
    end.

  (* analyze_unit: run the analysis of the current unit to its end *)
  Fixpoint run (p : prog) (A : ast) (c : ctx) (tr : trace) : outcome (ast * entry) :=
    match p with
    | Done circ tag => Ok (A, (Res circ tag, rev tr))
    | Ask q k =>
        match answer_query A c q with
        | Ok (A', c', a) => run (k a) A' c' ((q, a) :: tr)
        | OutOfFuel => OutOfFuel | Deadlock => Deadlock | Crash => Crash
        end
    end.
End Unit.

(* DesignRoot::get_analysis(v): `stk` = the units under analysis on this thread *)
Fixpoint get_analysis (fuel : nat) (W : world) (stk : list uid) (A : ast) (v : uid)
  : outcome (ast * result) :=
  match memo_get (a_memo A) v with
  | Some e => Ok (A, fst e)
  | None =>
      if mem_uid v stk then Deadlock
      else
        match fuel with
        | O => OutOfFuel
        | S f =>
            match get_slot W (u_slot v) with
            | None => Crash
            | Some (v', p) =>
                if uid_eqb v' v then
                  match run W (get_analysis f W (v :: stk)) v p A empty_ctx [] with
                  | Ok (A', e) => Ok (memo_set A' v e, fst e)
                  | OutOfFuel => OutOfFuel | Deadlock => Deadlock | Crash => Crash
                  end
                else Crash
            end
        end
  end.

(* `units.par_iter().for_each(|id| get_analysis(get_unit(id)))`, one worker, world order *)
Fixpoint analyse_units (W : world) (us : list uid) (A : ast) : outcome ast :=
  match us with
  | [] => Ok A
  | v :: us' =>
      match get_analysis (S (length W)) W [] A v with
      | Ok (A', _) => analyse_units W us' A'
      | OutOfFuel => OutOfFuel | Deadlock => Deadlock | Crash => Crash
      end
  end.

(* ---------------------------------------------------------------------------------------- *)
(* the unused-declaration lint cache: (library, primary name) => diagnostics                  *)
Definition lkey := (lib * name)%type.
Definition lkey_eqb (a b : lkey) : bool := (fst a =? fst b) && (snd a =? snd b).
Definition ukey (x : uid) : lkey := (u_lib x, u_prim x).
Definition lintval := list N.

Fixpoint lint_get (c : list (lkey * lintval)) (k : lkey) : lintval :=
  match c with
  | [] => []
  | (k', v) :: c' => if lkey_eqb k' k then v else lint_get c' k
  end.
Definition lint_has (c : list (lkey * lintval)) (k : lkey) : bool := existsb (fun e => lkey_eqb (fst e) k) c.

(* the primary unit and all secondary units of that name, with their analysis results:
   what `find_unused_declarations` searches *)
Definition family (W : world) (m : list (uid * entry)) (k : lkey) : list (uid * entry) :=
  flat_map (fun e => if lkey_eqb (ukey (fst e)) k
                     then match memo_get m (fst e) with Some r => [(fst e, r)] | None => [] end
                     else []) W.
(* library.primary_unit(name).is_some() *)
Definition has_primary (W : world) (k : lkey) : bool :=
  match get_slot W (mkSlot (fst k) (snd k) None) with Some _ => true | None => false end.

Section Lint.
  (* the diagnostics of one family: a function of the analysed units it consists of *)
  Variable lintf : list (uid * entry) -> lintval.

  Definition lint_update (C : list (lkey * lintval)) (W : world) (m : list (uid * entry))
             (analyzed : list uid) : list (lkey * lintval) :=
    (* Prune diagnostics that need to be re-computed *)
    let C1 := filter (fun e => negb (existsb (fun x => lkey_eqb (ukey x) (fst e)) analyzed)) C in
    (* Prune diagnostics for units that no longer exist *)
    let C2 := filter (fun e => has_primary W (fst e)) C1 in
    fold_left (fun C x => if lint_has C (ukey x) then C else C ++ [(ukey x, lintf (family W m (ukey x)))])
              analyzed C2.
End Lint.

(* ---------------------------------------------------------------------------------------- *)
(* the project: libraries (world + added/removed), analysis state, lint cache                 *)
Record st := mkSt {
  units : world;
  added : list uid;
  removed : list uid;
  sast : ast;
  lintc : list (lkey * lintval)
}.

Definition drop_memo (A : ast) (x : uid) : ast :=
  mkAst (filter (fun e => negb (uid_eqb (fst e) x)) (a_memo A)) (a_maps A).

(* Library::remove_source, one unit: the LockedUnit (with its result) is dropped *)
Definition st_remove (S : st) (x : uid) : st :=
  if present (units S) x
  then mkSt (remove_unit (units S) x) (added S) (add_uid x (removed S)) (drop_memo (sast S) x) (lintc S)
  else S.
(* Library::add_design_unit: a new LockedUnit without result, or parked as duplicate *)
Definition st_add (S : st) (xp : uid * prog) : st :=
  match get_slot (units S) (u_slot (fst xp)) with
  | Some _ => S
  | None => mkSt (units S ++ [xp]) (add_uid (fst xp) (added S)) (removed S) (sast S) (lintc S)
  end.

Section Analyse.
  Variable fixedF2 : bool.     (* commit 24ed74b present *)
  Variable fixedF3 : bool.     (* commit f646103 present *)
  Variable lintf : list (uid * entry) -> lintval.

  (* f646103: the still-existing primary unit of every removed secondary unit *)
  Definition f3_extra (W : world) (removed' : list uid) (todo : list uid) : list uid :=
    fold_left (fun acc x =>
                 if is_primary x then acc
                 else match get_slot W (mkSlot (u_lib x) (u_prim x) None) with
                      | Some (w, _) => if mem_uid w acc then acc else acc ++ [w]
                      | None => acc
                      end) removed' todo.

  (* the first half of DesignRoot::analyze: `reset` (with reset_affected) and the list of the
     units that are not analysed *)
  Definition prepare (S : st) : option (reset_result * list (uid * entry) * list uid) :=
    match reset_gen fixedF2 (a_maps (sast S)) (added S) (removed S) with
    | None => None
    | Some rr =>
        (* reset_affected: `get_unit(unit_id)` looks the unit up by library and key, so the unit
           that lives in the slot of an affected id loses its result, whatever its kind *)
        let memo1 := filter (fun e => negb (mem_slot (u_slot (fst e)) (map u_slot (rr_all rr))))
                            (a_memo (sast S)) in
        let todo := filter (fun x => match memo_get memo1 x with Some _ => false | None => true end)
                           (unit_ids (units S)) in
        Some (rr, memo1, todo)
    end.

  (* the return value of DesignRoot::analyze *)
  Definition analyzed_units (W : world) (rr : reset_result) (todo : list uid) : list uid :=
    if fixedF3 then f3_extra W (rr_removed rr) todo else todo.

  (* DesignRoot::analyze followed by the linter, as in Project::analyse *)
  Definition analyse_gen (S : st) : outcome st :=
    match prepare S with
    | None => OutOfFuel
    | Some (rr, memo1, todo) =>
        match analyse_units (units S) todo (mkAst memo1 (rr_maps rr)) with
        | Ok A =>
            Ok (mkSt (units S) [] [] A
                     (lint_update lintf (lintc S) (units S) (a_memo A) (analyzed_units (units S) rr todo)))
        | OutOfFuel => OutOfFuel | Deadlock => Deadlock | Crash => Crash
        end
    end.
End Analyse.

Definition analyse := analyse_gen true true.
Definition analyse_old_F2 := analyse_gen false true.
Definition analyse_old_F3 := analyse_gen true false.

(* one step of an edit history = one batch of source updates followed by Project::analyse:
   the units of the updated files are removed (update_source), then the units of the new
   contents -- and re-admitted duplicates -- are added. *)
Definition batch := (list uid * list (uid * prog))%type.
Definition apply_batch (S : st) (b : batch) : st :=
  fold_left st_add (snd b) (fold_left st_remove (fst b) S).

Definition empty_st : st := mkSt [] [] [] (mkAst [] empty_maps) [].

Section History.
  Variable an : st -> outcome st.
  Fixpoint run_history (S : st) (h : list batch) : outcome st :=
    match h with
    | [] => Ok S
    | b :: h' =>
        match an (apply_batch S b) with
        | Ok S' => run_history S' h'
        | OutOfFuel => OutOfFuel | Deadlock => Deadlock | Crash => Crash
        end
    end.
End History.

(* a project freshly loaded from the world W and analysed once *)
Definition fresh (lintf : list (uid * entry) -> lintval) (W : world) : outcome st :=
  analyse lintf (fold_left st_add W empty_st).

(* the world a history leads to, without any bookkeeping *)
Definition world_after (W : world) (b : batch) : world :=
  fold_left (fun W xp => add_unit W (fst xp) (snd xp)) (snd b) (fold_left remove_unit (fst b) W).
