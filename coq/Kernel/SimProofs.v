(* Kernel/SimProofs.v — in a clean world the analysis with dependency registration computes
   the reference result of every unit it touches, never finds a cycle, never deadlocks, never
   runs out of fuel, and keeps the invariant `good`. *)
From Coq Require Import List NArith Arith Bool Lia.
Import ListNotations.
From RH Require Import Kernel.World Kernel.Reset Kernel.Incr Kernel.Inv Kernel.ClosureProofs Kernel.DenProofs.
Open Scope N_scope.

(* ------------------------------------------------------------------------------------ *)
(* small facts about ext / good / registration *)
Lemma ext_refl : forall A, ext A A.
Proof. intros A; constructor; auto using incl_refl. Qed.

Lemma ext_trans : forall A B C, ext A B -> ext B C -> ext A C.
Proof.
  intros A B C [m1 u1 l1 s1] [m2 u2 l2 s2]; constructor; eauto using incl_tran.
Qed.

Record maps_incl (M M' : maps) : Prop := mkMapsIncl {
  mi_users : incl (users_of M) (users_of M');
  mi_all : incl (users_all M) (users_all M');
  mi_missing : incl (missing M) (missing M')
}.

Lemma reg_event_mono : forall M M' x ev, maps_incl M M' -> reg_event M x ev -> reg_event M' x ev.
Proof.
  intros M M' x [q a] [iu il im] [H1 H2]; split.
  - intros v Hv; apply iu; apply H1; assumption.
  - destruct q as [s|l|]; destruct a; try exact I; [apply im | apply il]; assumption.
Qed.

Lemma ext_maps_incl : forall A A', ext A A' -> maps_incl (a_maps A) (a_maps A').
Proof. intros A A' [m u l s]; constructor; assumption. Qed.

Lemma Forall_reg_mono : forall M M' x tr, maps_incl M M' ->
  Forall (reg_event M x) tr -> Forall (reg_event M' x) tr.
Proof.
  intros M M' x tr Hi H; eapply Forall_impl; [|eassumption].
  intros ev Hev; eapply reg_event_mono; eassumption.
Qed.

(* replacing the maps by bigger ones whose new edges are justified keeps `good` *)
Lemma good_set_maps : forall W A M',
  good W A -> maps_incl (a_maps A) M' ->
  (forall a b, In (a, b) (users_of M') -> In (a, b) (users_of (a_maps A)) \/
               exists g e, den g W b = Some e /\ In a (trace_units (snd e))) ->
  good W (set_maps A M') /\ ext A (set_maps A M').
Proof.
  intros W A M' [gm ge gr] Hi Hnew; split.
  - constructor; cbn [set_maps a_memo a_maps].
    + exact gm.
    + intros a b Hab; destruct (Hnew a b Hab) as [H|H]; [apply ge; assumption | assumption].
    + intros x e Hx; eapply Forall_reg_mono; [eassumption | apply gr; assumption].
  - destruct Hi as [iu il im]; constructor; cbn [set_maps a_memo a_maps]; auto.
Qed.

Ltac splits := repeat match goal with |- _ /\ _ => split end.

Definition ctx_ok (A : ast) (u : uid) (c : ctx) : Prop :=
  (forall w, In w (c_uses c) -> In (w, u) (users_of (a_maps A))) /\
  (forall s, In s (c_missing c) -> In (s, u) (missing (a_maps A))) /\
  (forall l, In l (c_liball c) -> In (l, u) (users_all (a_maps A))).

Lemma ctx_ok_ext : forall A A' u c, ext A A' -> ctx_ok A u c -> ctx_ok A' u c.
Proof.
  intros A A' u c [m iu il im] [H1 [H2 H3]]; unfold ctx_ok; splits; intros; auto.
Qed.

Lemma memo_get_set_same : forall A v e, memo_get (a_memo (memo_set A v e)) v = Some e.
Proof. intros; cbn [memo_set a_memo memo_get]; rewrite uid_eqb_refl; reflexivity. Qed.

Lemma memo_get_set_other : forall A v e x, x <> v ->
  memo_get (a_memo (memo_set A v e)) x = memo_get (a_memo A) x.
Proof.
  intros A v e x Hne; cbn [memo_set a_memo memo_get].
  destruct (uid_eqb v x) eqn:He; [apply uid_eqb_true in He; congruence | reflexivity].
Qed.

Definition resd (g : nat) (W : world) (v : uid) : result :=
  match getd_of g W v with Some rv => rv | None => Res false 0 end.

Lemma den_all_clean_true : forall gd vs acc r b,
  (forall v rv, gd v = Some rv -> r_circ rv = false) ->
  den_all gd vs acc = Some (r, b) -> b = true.
Proof.
  intros gd; induction vs as [|v vs IH]; intros acc r b Hc H; cbn [den_all] in H.
  - inversion H; reflexivity.
  - destruct (gd v) as [rv|] eqn:Hg; [|discriminate].
    rewrite (Hc _ _ Hg) in H. eapply IH; eassumption.
Qed.

(* ------------------------------------------------------------------------------------ *)
Section OneUnit.
  Variable W : world.
  Hypothesis Hclean : clean W.
  Variable u : uid.                 (* the unit being analysed *)
  Variable gu : nat.
  Variable eu : entry.              (* its reference result *)
  Hypothesis Hdu : den gu W u = Some eu.
  Variable g0 : nat.                (* fuel with which the units it reads have reference results *)
  Variable get : ast -> uid -> outcome (ast * result).
  Hypothesis Hget : forall w ew A, den g0 W w = Some ew -> good W A -> sub W w u ->
    exists A', get A w = Ok (A', fst ew) /\ memo_get (a_memo A') w = Some ew /\ good W A' /\ ext A A'.

  Lemma edges_sub : forall A, good W A -> forall v y, In (v, y) (users_of (a_maps A)) -> sub W v y.
  Proof.
    intros A [gm ge gr] v y Hvy. destruct (ge v y Hvy) as [g [e [Hd Hin]]].
    eapply den_reads_sub; eassumption.
  Qed.

  Lemma use_unit_sim : forall A c v ev,
    den g0 W v = Some ev -> In v (trace_units (snd eu)) ->
    good W A -> ctx_ok A u c ->
    exists A' c', use_unit get u A c v = Ok (A', c', Some (fst ev))
      /\ good W A' /\ ext A A' /\ ctx_ok A' u c' /\ In (v, u) (users_of (a_maps A'))
      /\ c_missing c' = c_missing c /\ c_liball c' = c_liball c.
  Proof.
    intros A c v ev Hdv Hin HA Hc.
    assert (Hsub : sub W v u) by (eapply den_reads_sub; eassumption).
    unfold use_unit. destruct (mem_uid v (c_uses c)) eqn:Hm.
    - apply mem_uid_In in Hm.
      destruct (Hget v ev A Hdv HA Hsub) as [A' [Hg [Hmemo [HA' Hext]]]].
      rewrite Hg. exists A', c. split; [reflexivity|].
      assert (Hc' : ctx_ok A' u c) by (eapply ctx_ok_ext; eassumption).
      splits; try assumption; try reflexivity.
      destruct Hext as [_ iu _ _]; apply iu. destruct Hc as [H1 _]; apply H1; assumption.
    - destruct (make_use_of_spec (a_maps A) u v) as [all [Hmu Hall]]. rewrite Hmu.
      set (E' := add_edge (v, u) (users_of (a_maps A))) in *.
      assert (HE' : forall a b, In (a, b) E' -> sub W a b).
      { intros a b Hab; apply add_edge_In in Hab; destruct Hab as [Hab|Hab].
        - inversion Hab; subst; assumption.
        - eapply edges_sub; eassumption. }
      assert (Hnot : mem_uid v all = false).
      { apply mem_uid_false; intros Hv; apply Hall in Hv.
        assert (Hdu' : den gu W u <> None) by (rewrite Hdu; discriminate).
        destruct (reach_sub W E' u v HE' Hv) as [Heq|Hs].
        - subst v; exact (sub_irrefl W u gu Hdu' Hsub).
        - exact (sub_irrefl W u gu Hdu' (sub_trans _ _ _ _ Hs Hsub)). }
      rewrite Hnot; cbn [negb].
      set (M' := mkMaps E' (users_all (a_maps A)) (missing (a_maps A))).
      assert (Hincl : maps_incl (a_maps A) M').
      { constructor; cbn [M' users_of users_all missing]; try apply incl_refl.
        intros e He; apply add_edge_In; right; assumption. }
      destruct (good_set_maps W A M' HA Hincl) as [HA1 Hext1].
      { intros a b Hab; cbn [M' users_of] in Hab; apply add_edge_In in Hab; destruct Hab as [Hab|Hab].
        - inversion Hab; subst; right; eauto.
        - left; assumption. }
      destruct (Hget v ev (set_maps A M') Hdv HA1 Hsub) as [A' [Hg [Hmemo [HA' Hext]]]].
      rewrite Hg. eexists A', _; split; [reflexivity|].
      assert (Hext' : ext A A') by (eapply ext_trans; eassumption).
      assert (Hvu : In (v, u) (users_of (a_maps A'))).
      { destruct Hext as [_ iu _ _]; apply iu; cbn [set_maps a_maps M' users_of].
        apply add_edge_In; left; reflexivity. }
      splits; try assumption; try reflexivity.
      unfold ctx_ok; cbn [c_uses c_missing c_liball]; splits.
      + intros w [Hw|Hw]; [subst; assumption|].
        destruct Hext' as [_ iu _ _]; apply iu; destruct Hc as [H1 _]; apply H1; assumption.
      + intros s Hs; destruct Hext' as [_ _ _ im]; apply im; destruct Hc as [_ [H2 _]]; apply H2; assumption.
      + intros l Hl; destruct Hext' as [_ _ il _]; apply il; destruct Hc as [_ [_ H3]]; apply H3; assumption.
  Qed.

  Lemma all_loop_sim : forall vs A c acc,
    (forall v, In v vs -> exists ev, den g0 W v = Some ev /\ In v (trace_units (snd eu))) ->
    good W A -> ctx_ok A u c ->
    exists A' c', all_loop get u vs A c acc
                  = Ok (A', c', rev acc ++ map (fun v => (v, resd g0 W v)) vs, true)
      /\ good W A' /\ ext A A' /\ ctx_ok A' u c'
      /\ (forall v, In v vs -> In (v, u) (users_of (a_maps A')))
      /\ c_missing c' = c_missing c /\ c_liball c' = c_liball c.
  Proof.
    induction vs as [|v vs IH]; intros A c acc Hvs HA Hc; cbn [all_loop].
    - exists A, c; cbn [map]; rewrite app_nil_r.
      split; [reflexivity|]. split; [assumption|]. split; [apply ext_refl|]. split; [assumption|].
      split; [intros v []|]. split; reflexivity.
    - destruct (Hvs v (or_introl eq_refl)) as [ev [Hdv Hin]].
      destruct (use_unit_sim A c v ev Hdv Hin HA Hc) as [A1 [c1 [Hu [HA1 [Hext1 [Hc1 [Hvu [Hm1 Hl1]]]]]]]].
      rewrite Hu.
      assert (Hcirc : r_circ (fst ev) = false) by (eapply clean_den_circ; eassumption).
      rewrite Hcirc.
      destruct (IH A1 c1 ((v, fst ev) :: acc)) as [A' [c' [Hl [HA' [Hext' [Hc' [Hvs' [Hm' Hl']]]]]]]]; auto.
      { intros w Hw; apply Hvs; right; assumption. }
      rewrite Hl. exists A', c'; split.
      + cbn [rev map]. rewrite <- app_assoc. cbn [app].
        unfold resd at 2, getd_of. rewrite Hdv. reflexivity.
      + split; [assumption|]. split; [eapply ext_trans; eassumption|]. split; [assumption|].
        split; [|split; congruence].
        intros w [Hw|Hw]; [subst w; destruct Hext' as [_ iu _ _]; apply iu; assumption | apply Hvs'; assumption].
  Qed.

  Lemma answer_sim : forall A c q a,
    den_answer W (getd_of g0 W) u q = Some a ->
    (forall v, In v (answer_units a) -> In v (trace_units (snd eu))) ->
    good W A -> ctx_ok A u c ->
    exists A' c', answer_query W get u A c q = Ok (A', c', a)
      /\ good W A' /\ ext A A' /\ ctx_ok A' u c' /\ reg_event (a_maps A') u (q, a).
  Proof.
    intros A c q a Hden Hunits HA Hc. destruct q as [s|l|]; cbn [den_answer answer_query] in *.
    - destruct (get_slot W s) as [[v p]|] eqn:Hs.
      + destruct (getd_of g0 W v) as [rv|] eqn:Hg; [|discriminate].
        assert (Hcirc : r_circ rv = false) by (eapply clean_getd_circ; eassumption).
        rewrite Hcirc in Hden; inversion Hden; subst a; clear Hden.
        unfold getd_of in Hg. destruct (den g0 W v) as [ev|] eqn:Hdv; [|discriminate].
        inversion Hg; subst rv; clear Hg.
        assert (Hin : In v (trace_units (snd eu))) by (apply Hunits; left; reflexivity).
        destruct (use_unit_sim A c v ev Hdv Hin HA Hc) as [A1 [c1 [Hu [HA1 [Hext1 [Hc1 [Hvu _]]]]]]].
        rewrite Hu, Hcirc. exists A1, c1.
        split; [reflexivity|]. split; [assumption|]. split; [assumption|]. split; [assumption|].
        split; [|exact I]. cbn [snd answer_units]. intros w [Hw|[]]; subst; assumption.
      + inversion Hden; subst a; clear Hden.
        unfold register_missing. destruct (mem_slot s (c_missing c)) eqn:Hm.
        * apply mem_slot_In in Hm. exists A, c.
          split; [reflexivity|]. split; [assumption|]. split; [apply ext_refl|]. split; [assumption|].
          split; [intros v [] | destruct Hc as [_ [H2 _]]; apply H2; assumption].
        * set (M' := make_use_of_missing_unit (a_maps A) u s).
          assert (Hincl : maps_incl (a_maps A) M').
          { constructor; cbn [M' make_use_of_missing_unit users_of users_all missing]; try apply incl_refl.
            intros e He; apply add_mpair_In; right; assumption. }
          destruct (good_set_maps W A M' HA Hincl) as [HA1 Hext1].
          { intros x y Hxy; left; exact Hxy. }
          assert (Hnew : In (s, u) (missing (a_maps (set_maps A M')))).
          { cbn [set_maps a_maps M' make_use_of_missing_unit missing]. apply add_mpair_In; left; reflexivity. }
          eexists _, _. split; [reflexivity|]. split; [assumption|]. split; [assumption|]. split.
          -- pose proof (ctx_ok_ext _ _ _ _ Hext1 Hc) as [H1 [H2 H3]].
             unfold ctx_ok; cbn [c_uses c_missing c_liball]. split; [assumption|]. split; [|assumption].
             intros s' [Hs'|Hs']; [subst s'; assumption | apply H2; assumption].
          -- split; [intros v [] | assumption].
    - destruct (l =? u_lib u) eqn:Hl.
      + inversion Hden; subst a. exists A, c.
        split; [reflexivity|]. split; [assumption|]. split; [apply ext_refl|]. split; [assumption|].
        split; [intros v [] | exact I].
      + destruct (den_all (getd_of g0 W) (primaries W l) []) as [[vs b]|] eqn:Hd; [|discriminate].
        assert (Hb : b = true).
        { eapply den_all_clean_true; [|eassumption].
          intros v rv Hv; eapply clean_getd_circ; eassumption. }
        subst b. inversion Hden; subst a; clear Hden.
        destruct (den_all_complete _ _ _ _ Hd) as [Hvs Hall]. cbn [rev app] in Hvs.
        assert (Hvs' : vs = map (fun v => (v, resd g0 W v)) (primaries W l)).
        { rewrite Hvs; apply map_ext; intros v; unfold resd; reflexivity. }
        assert (Hfst : map fst vs = primaries W l).
        { rewrite Hvs', map_map; cbn [fst]; apply map_id. }
        assert (Hpre : forall v, In v (primaries W l) ->
                  exists ev, den g0 W v = Some ev /\ In v (trace_units (snd eu))).
        { intros v Hv. destruct (Hall v Hv) as [rv [Hrv _]]. unfold getd_of in Hrv.
          destruct (den g0 W v) as [ev|] eqn:Hdv; [|discriminate].
          exists ev; split; [reflexivity|]. apply Hunits. cbn [answer_units].
          rewrite Hfst; assumption. }
        destruct (all_loop_sim (primaries W l) A c [] Hpre HA Hc)
          as [A1 [c1 [Hloop [HA1 [Hext1 [Hc1 [Hedges [Hm1 Hl1]]]]]]]].
        rewrite Hloop. cbn [rev app]. rewrite <- Hvs'.
        unfold register_liball. destruct (mem_lib l (c_liball c1)) eqn:Hm.
        * apply mem_lib_In in Hm. exists A1, c1.
          split; [reflexivity|]. split; [assumption|]. split; [assumption|]. split; [assumption|].
          split.
          -- cbn [snd answer_units]. rewrite Hfst. exact Hedges.
          -- destruct Hc1 as [_ [_ H3]]; apply H3; assumption.
        * set (M' := make_use_of_library_all (a_maps A1) u l).
          assert (Hincl : maps_incl (a_maps A1) M').
          { constructor; cbn [M' make_use_of_library_all users_of users_all missing]; try apply incl_refl.
            intros e He; apply add_lpair_In; right; assumption. }
          destruct (good_set_maps W A1 M' HA1 Hincl) as [HA2 Hext2].
          { intros x y Hxy; left; exact Hxy. }
          assert (Hnew : In (l, u) (users_all (a_maps (set_maps A1 M')))).
          { cbn [set_maps a_maps M' make_use_of_library_all users_all]. apply add_lpair_In; left; reflexivity. }
          eexists _, _. split; [reflexivity|]. split; [assumption|].
          split; [eapply ext_trans; eassumption|]. split.
          -- pose proof (ctx_ok_ext _ _ _ _ Hext2 Hc1) as [H1 [H2 H3]].
             unfold ctx_ok; cbn [c_uses c_missing c_liball]. split; [assumption|]. split; [assumption|].
             intros l' [Hl'|Hl']; [subst l'; assumption | apply H3; assumption].
          -- split; [|assumption]. cbn [snd answer_units]. rewrite Hfst.
             intros v Hv; destruct Hext2 as [_ iu _ _]; apply iu; apply Hedges; assumption.
    - inversion Hden; subst a. exists A, c.
      split; [reflexivity|]. split; [assumption|]. split; [apply ext_refl|]. split; [assumption|].
      split; [intros v [] | exact I].
  Qed.

  Lemma run_sim : forall p A c tr,
    den_run W (getd_of g0 W) u p tr = Some eu ->
    good W A -> ctx_ok A u c -> Forall (reg_event (a_maps A) u) tr ->
    exists A', run W get u p A c tr = Ok (A', eu)
      /\ good W A' /\ ext A A' /\ Forall (reg_event (a_maps A') u) (snd eu).
  Proof.
    induction p as [circ tag|q k IH]; intros A c tr Hden HA Hc Hreg; cbn [den_run run] in *.
    - inversion Hden; subst eu. exists A; splits; auto using ext_refl.
      cbn [snd]. apply Forall_rev; assumption.
    - destruct (den_answer W (getd_of g0 W) u q) as [a|] eqn:Ha; [|discriminate].
      assert (Hunits : forall v, In v (answer_units a) -> In v (trace_units (snd eu))).
      { intros v Hv. destruct (den_run_prefix _ _ _ _ _ _ Hden) as [rest Hrest].
        rewrite Hrest. unfold trace_units. rewrite in_flat_map.
        exists (q, a); split; [|assumption].
        apply in_or_app; left. cbn [rev]. apply in_or_app; right; left; reflexivity. }
      destruct (answer_sim A c q a Ha Hunits HA Hc) as [A1 [c1 [Hans [HA1 [Hext1 [Hc1 Hreg1]]]]]].
      rewrite Hans.
      destruct (IH a A1 c1 ((q, a) :: tr) Hden HA1 Hc1) as [A' [Hrun [HA' [Hext' Hreg']]]].
      { constructor; [assumption|]. eapply Forall_reg_mono; [apply ext_maps_incl|]; eassumption. }
      exists A'; splits; try assumption. eapply ext_trans; eassumption.
  Qed.
End OneUnit.

(* ------------------------------------------------------------------------------------ *)
Theorem get_analysis_sim : forall W, clean W ->
  forall g v ev, den g W v = Some ev ->
  forall f stk A, (g <= f)%nat -> good W A -> (forall x, In x stk -> sub W v x) ->
  exists A', get_analysis f W stk A v = Ok (A', fst ev)
    /\ memo_get (a_memo A') v = Some ev /\ good W A' /\ ext A A'.
Proof.
  intros W Hclean; induction g as [|g IH]; intros v ev Hd f stk A Hle HA Hstk; [discriminate|].
  destruct f as [|f]; [lia|].
  cbn [get_analysis].
  destruct (memo_get (a_memo A) v) as [e|] eqn:Hm.
  - destruct (g_memo _ _ HA v e Hm) as [g' Hd'].
    assert (e = ev) by (eapply den_det; eassumption). subst e.
    exists A. split; [reflexivity|]. split; [assumption|]. split; [assumption | apply ext_refl].
  - assert (Hdv : den (S g) W v <> None) by (rewrite Hd; discriminate).
    assert (Hns : mem_uid v stk = false).
    { apply mem_uid_false; intros Hin. exact (sub_irrefl W v (S g) Hdv (Hstk v Hin)). }
    rewrite Hns.
    pose proof Hd as Hd2. rewrite den_S in Hd2.
    destruct (get_slot W (u_slot v)) as [[v' p]|] eqn:Hs; [|discriminate].
    destruct (uid_eqb v' v) eqn:He; [|discriminate].
    assert (Hget : forall w ew A0, den g W w = Some ew -> good W A0 -> sub W w v ->
              exists A', get_analysis f W (v :: stk) A0 w = Ok (A', fst ew)
                /\ memo_get (a_memo A') w = Some ew /\ good W A' /\ ext A0 A').
    { intros w ew A0 Hdw HA0 Hsub. apply IH; [assumption | lia | assumption |].
      intros x [Hx|Hx]; [subst; assumption | eapply sub_trans; [eassumption | apply Hstk; assumption]]. }
    destruct (run_sim W Hclean v (S g) ev Hd g (get_analysis f W (v :: stk)) Hget p A empty_ctx [] Hd2 HA)
      as [A' [Hrun [HA' [Hext Hreg]]]].
    { unfold ctx_ok; cbn [empty_ctx c_uses c_missing c_liball]; splits; intros x []. }
    { constructor. }
    rewrite Hrun. exists (memo_set A' v ev); split; [reflexivity|]. split; [apply memo_get_set_same|].
    assert (Hm' : forall x e, memo_get (a_memo A) x = Some e -> x <> v) by (intros x e Hx ->; congruence).
    split.
    + destruct HA' as [gm ge gr]. constructor.
      * intros x e Hx. destruct (uid_eq_dec x v) as [->|Hne].
        -- rewrite memo_get_set_same in Hx; inversion Hx; subst; eauto.
        -- rewrite memo_get_set_other in Hx by assumption. apply gm; assumption.
      * exact ge.
      * intros x e Hx. destruct (uid_eq_dec x v) as [->|Hne].
        -- rewrite memo_get_set_same in Hx; inversion Hx; subst; exact Hreg.
        -- rewrite memo_get_set_other in Hx by assumption. apply gr; assumption.
    + destruct Hext as [xm xu xl xs]; constructor; cbn [memo_set a_maps]; try assumption.
      intros x e Hx. rewrite memo_get_set_other by (eapply Hm'; eassumption). apply xm; assumption.
Qed.

(* the loop over the units that need analysis *)
Theorem analyse_units_sim : forall W, clean W ->
  forall us A, good W A -> (forall x, In x us -> In x (unit_ids W)) ->
  exists A', analyse_units W us A = Ok A' /\ good W A' /\ ext A A'
    /\ forall x, In x us -> memo_get (a_memo A') x <> None.
Proof.
  intros W Hclean; induction us as [|v us IH]; intros A HA Hus; cbn [analyse_units].
  - exists A; splits; auto using ext_refl.
  - destruct (clean_unit_den W v Hclean (Hus v (or_introl eq_refl))) as [ev [Hd _]].
    destruct (get_analysis_sim W Hclean (length W) v ev Hd (S (length W)) [] A) as [A1 [Hg [Hm [HA1 Hext1]]]];
      [lia | assumption | intros x [] |].
    rewrite Hg.
    destruct (IH A1 HA1) as [A' [Hrec [HA' [Hext' Hall]]]]; [intros x Hx; apply Hus; right; assumption|].
    exists A'; splits; try assumption.
    + eapply ext_trans; eassumption.
    + intros x [Hx|Hx]; [subst x | apply Hall; assumption].
      destruct Hext' as [xm _ _ _]. rewrite (xm _ _ Hm); discriminate.
Qed.
