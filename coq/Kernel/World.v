(* Kernel/World.v — identifiers, design units, worlds and the abstract analysis of a unit
   (definitions only, no proofs).

   Anchors: vhdl_lang/src/ast/any_design_unit.rs (`UnitKey`, `UnitId`, `AnyKind`),
   vhdl_lang/src/analysis/root.rs (`Library::units`, `get_library_units`, `primary_units`),
   vhdl_lang/src/analysis/analyze.rs (`AnalyzeContext`'s read API).

   * `slot`  = library name + `UnitKey` (the key of `Library::units`): at most one design unit
     lives in a slot.
   * `uid`   = `UnitId` = library + kind + key (entity `foo` and package `foo` are different
     ids in the same slot).
   * `world` = the contents of all `Library::units` maps: a list of (uid, body) with pairwise
     different slots.  The list order stands for the (arbitrary but fixed) iteration order of
     the hash maps.
   * the body of a unit is its *analysis*, abstractly: a strategy tree `prog` that asks queries
     about the library state and finally returns a result.  The next query and the result are
     functions of the answers received so far -- this is the locality assumption about the
     15 kLoC of semantic analysis, built into the type.  The queries are exactly the read API
     of `AnalyzeContext`:
       QUnit s    get_primary_unit / get_secondary_unit (+ get_analysis when the unit exists,
                  make_use_of_missing_unit when it does not)
       QLibAll l  use_all_in_library
       QHasBody   has_package_body (of the current unit)
     An answer carries the result of the unit that was read; the result of a unit is an opaque
     tag plus the `has_circular_dependency` flag.  Beside the result the model keeps the trace of
     (query, answer) pairs of the run ("what was seen for every request"), so that a stale read
     is visible in the memo table. *)
From Coq Require Import List NArith Arith Bool.
Import ListNotations.
Open Scope N_scope.

Definition lib := N.
Definition name := N.

Inductive pkind := PEntity | PConfiguration | PPackage | PPackageInstance | PContext.   (* PrimaryKind *)
Inductive skind := SArchitecture | SPackageBody.                                        (* SecondaryKind *)

(* kind and `UnitKey` of a `UnitId` in one: `UnitId::primary` / `UnitId::secondary` are the only
   constructors, so the kind always fits the shape of the key *)
Inductive ukey :=
| KPrimary (k : pkind) (n : name)
| KSecondary (k : skind) (prim n : name).

Record slot := mkSlot { s_lib : lib; s_prim : name; s_sec : option name }.
Record uid := mkUid { u_lib : lib; u_key : ukey }.

Definition u_slot (u : uid) : slot :=
  match u_key u with
  | KPrimary _ n => mkSlot (u_lib u) n None
  | KSecondary _ p n => mkSlot (u_lib u) p (Some n)
  end.
Definition u_prim (u : uid) : name := s_prim (u_slot u).
Definition is_primary (u : uid) : bool :=
  match u_key u with KPrimary _ _ => true | KSecondary _ _ _ => false end.
(* the unit is `UnitId::package(..)` of itself *)
Definition is_package (u : uid) : bool :=
  match u_key u with KPrimary PPackage _ => true | _ => false end.
Definition is_package_body (u : uid) : bool :=
  match u_key u with KSecondary SPackageBody _ _ => true | _ => false end.

Definition slot_eq_dec : forall a b : slot, {a = b} + {a <> b}.
Proof. repeat decide equality. Defined.
Definition uid_eq_dec : forall a b : uid, {a = b} + {a <> b}.
Proof. repeat decide equality. Defined.

Definition slot_eqb (a b : slot) : bool := if slot_eq_dec a b then true else false.
Definition uid_eqb (a b : uid) : bool := if uid_eq_dec a b then true else false.
Definition mem_uid (x : uid) (l : list uid) : bool := existsb (uid_eqb x) l.
Definition mem_slot (x : slot) (l : list slot) : bool := existsb (slot_eqb x) l.
Definition mem_lib (x : lib) (l : list lib) : bool := existsb (N.eqb x) l.

(* `UnitId::package(library_name, primary_name)` *)
Definition package_of (u : uid) : uid := mkUid (u_lib u) (KPrimary PPackage (u_prim u)).
(* the slot `UnitKey::Secondary(name, name)` that `get_package_body` looks at *)
Definition body_slot (u : uid) : slot := mkSlot (u_lib u) (u_prim u) (Some (u_prim u)).

(* ---------------------------------------------------------------------------------------- *)
(* results, queries, answers, programs                                                        *)
Inductive result := Res (circ : bool) (tag : N).
Definition r_circ (r : result) : bool := match r with Res c _ => c end.
Definition r_tag (r : result) : N := match r with Res _ t => t end.

Inductive query := QUnit (s : slot) | QLibAll (l : lib) | QHasBody.

Inductive answer :=
| AMissing                               (* no unit in the slot; the name is registered as missing *)
| ACycle                                 (* AnalyzeContext::get_analysis returned Err: `make_use_of` found a
                                            cycle, or the unit read has the circular-dependency flag (the
                                            two cases yield the same CircularDependencyError(use_pos)) *)
| AUnit (u : uid) (r : result)           (* the unit in the slot and its analysis result (flag not set) *)
| AOwnLib                                (* `use work.all`: nothing is read *)
| AAll (l : list (uid * result))         (* all primary units of the library, all without error *)
| AAllErr (l : list (uid * result))      (* use_all_in_library left early with `?`; what was seen before *)
| ABool (b : bool).

Definition event := (query * answer)%type.
Definition trace := list event.

Inductive prog :=
| Done (circ : bool) (tag : N)
| Ask (q : query) (k : answer -> prog).

(* a memo table entry: the analysis result and the reads it was computed from *)
Definition entry := (result * trace)%type.

(* units named in an answer / in a trace: the units whose result was read *)
Definition answer_units (a : answer) : list uid :=
  match a with
  | AUnit u _ => [u]
  | AAll l => map fst l
  | AAllErr l => map fst l
  | _ => []
  end.
Definition trace_units (t : trace) : list uid := flat_map (fun e => answer_units (snd e)) t.

(* ---------------------------------------------------------------------------------------- *)
(* worlds                                                                                     *)
Definition world := list (uid * prog).

Fixpoint get_slot (W : world) (s : slot) : option (uid * prog) :=
  match W with
  | [] => None
  | (u, p) :: W' => if slot_eqb (u_slot u) s then Some (u, p) else get_slot W' s
  end.

Definition present (W : world) (u : uid) : bool :=
  match get_slot W (u_slot u) with Some (v, _) => uid_eqb v u | None => false end.

Definition unit_ids (W : world) : list uid := map fst W.

(* `library.units.values()` filtered by `AnyKind::Primary` *)
Definition primaries (W : world) (l : lib) : list uid :=
  map fst (filter (fun e => is_primary (fst e) && (u_lib (fst e) =? l)) W).

(* `AnalyzeContext::has_package_body` for the unit `u` (only called while analysing a package
   declaration, `analyze_package`): the slot Secondary(name, name) holds a package body *)
Definition has_body (W : world) (u : uid) : bool :=
  is_package u &&
  match get_slot W (body_slot u) with
  | Some (v, _) => is_package_body v
  | None => false
  end.

(* `Library::remove_source` for one unit / `Library::add_design_unit` into a vacant slot.
   (An occupied slot leaves the map unchanged: the unit is parked in `duplicates`.) *)
Definition remove_unit (W : world) (u : uid) : world :=
  filter (fun e => negb (uid_eqb (fst e) u)) W.
Definition add_unit (W : world) (u : uid) (p : prog) : world :=
  match get_slot W (u_slot u) with Some _ => W | None => W ++ [(u, p)] end.

Definition slots_of (W : world) : list slot := map (fun e => u_slot (fst e)) W.
Definition wf_world (W : world) : Prop := NoDup (slots_of W).

(* ---------------------------------------------------------------------------------------- *)
(* reference semantics of a world ("from scratch", no bookkeeping): the result of a unit is
   obtained by running its program against the results of the units it reads.  `den` needs one
   unit of fuel per nesting level; it is undefined (None) exactly when the reads are circular. *)
Section Den.
  Variable W : world.
  Variable getd : uid -> option result.   (* result of another unit *)
  Variable u : uid.                       (* the unit being analysed *)

  Fixpoint den_all (vs : list uid) (acc : list (uid * result)) : option (list (uid * result) * bool) :=
    match vs with
    | [] => Some (rev acc, true)
    | v :: vs' =>
        match getd v with
        | None => None
        | Some r => if r_circ r then Some (rev acc, false) else den_all vs' ((v, r) :: acc)
        end
    end.

  Definition den_answer (q : query) : option answer :=
    match q with
    | QUnit s =>
        match get_slot W s with
        | None => Some AMissing
        | Some (v, _) =>
            match getd v with
            | Some r => Some (if r_circ r then ACycle else AUnit v r)
            | None => None
            end
        end
    | QLibAll l =>
        if l =? u_lib u then Some AOwnLib
        else match den_all (primaries W l) [] with
             | Some (vs, true) => Some (AAll vs)
             | Some (vs, false) => Some (AAllErr vs)
             | None => None
             end
    | QHasBody => Some (ABool (has_body W u))
    end.

  Fixpoint den_run (p : prog) (tr : trace) : option entry :=
    match p with
    | Done c t => Some (Res c t, rev tr)
    | Ask q k =>
        match den_answer q with
        | Some a => den_run (k a) ((q, a) :: tr)
        | None => None
        end
    end.
End Den.

Fixpoint den (fuel : nat) (W : world) (v : uid) : option entry :=
  match fuel with
  | O => None
  | S f =>
      match get_slot W (u_slot v) with
      | Some (v', p) =>
          if uid_eqb v' v
          then den_run W (fun x => match den f W x with Some e => Some (fst e) | None => None end) v p []
          else None
      | None => None
      end
  end.

(* a world without circular dependencies in which no unit ends with the circular-dependency
   flag: every unit has a reference result.  (In the implementation the flag is only ever set
   because `make_use_of` found a cycle, directly or in a unit that was read.) *)
Definition clean_unit (W : world) (u : uid) : bool :=
  match den (length W) W u with Some e => negb (r_circ (fst e)) | None => false end.
Definition cleanb (W : world) : bool := forallb (clean_unit W) (unit_ids W).
Definition clean (W : world) : Prop := cleanb W = true.
