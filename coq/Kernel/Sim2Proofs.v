(* Kernel/Sim2Proofs.v — for propagating analyses the analysis with dependency registration
   computes the reference result `ref` of every unit it touches in ANY world (circular
   dependencies included), never deadlocks, never runs out of fuel, and keeps `good2`. *)
From Coq Require Import List NArith Arith Bool Lia.
Import ListNotations.
From RH Require Import Kernel.World Kernel.Reset Kernel.Incr Kernel.Inv Kernel.Ref
  Kernel.ClosureProofs Kernel.DenProofs Kernel.SimProofs Kernel.ResetProofs Kernel.RefProofs.
Open Scope N_scope.

Lemma reg_event2_mono : forall W M M' x ev, maps_incl M M' -> reg_event2 W M x ev -> reg_event2 W M' x ev.
Proof.
  intros W M M' x [q a] [iu il im] [H1 H2]; split.
  - intros v Hv; apply iu; apply H1; assumption.
  - destruct q as [s|l|]; destruct a; try exact I; [apply im | apply il]; assumption.
Qed.

Lemma Forall_reg2_mono : forall W M M' x tr, maps_incl M M' ->
  Forall (reg_event2 W M x) tr -> Forall (reg_event2 W M' x) tr.
Proof.
  intros W M M' x tr Hi H; eapply Forall_impl; [|eassumption].
  intros ev Hev; eapply reg_event2_mono; eassumption.
Qed.

Lemma good2_set_maps : forall W A M',
  good2 W A -> maps_incl (a_maps A) M' ->
  (forall a b, In (a, b) (users_of M') -> In (a, b) (users_of (a_maps A)) \/ real_edge W a b) ->
  good2 W (set_maps A M') /\ ext A (set_maps A M').
Proof.
  intros W A M' [gm ge gr] Hi Hnew; split.
  - constructor; cbn [set_maps a_memo a_maps].
    + exact gm.
    + intros a b Hab; destruct (Hnew a b Hab) as [H|H]; [apply ge; assumption | exact H].
    + intros x e Hx; eapply Forall_reg2_mono; [eassumption | apply gr; assumption].
  - destruct Hi as [iu il im]; constructor; cbn [set_maps a_memo a_maps]; auto.
Qed.

(* the units under analysis: each is a registered user of the one above it *)
Fixpoint chain (E : list (uid * uid)) (l : list uid) : Prop :=
  match l with
  | y :: ((x :: _) as r) => In (y, x) E /\ chain E r
  | _ => True
  end.

Lemma chain_mono : forall E E' l, incl E E' -> chain E l -> chain E' l.
Proof.
  intros E E' l Hi; induction l as [|y [|x r] IH]; intros H; cbn [chain] in *; auto.
  destruct H as [H1 H2]; split; [apply Hi; assumption | apply IH; assumption].
Qed.

Lemma chain_reach : forall E l u, chain E (u :: l) -> forall x, In x (u :: l) -> reach E [u] x.
Proof.
  intros E l; induction l as [|y l IH]; intros u H x Hx.
  - destruct Hx as [<-|[]]; apply reach_init; left; reflexivity.
  - destruct Hx as [<-|Hx]; [apply reach_init; left; reflexivity|].
    cbn [chain] in H; destruct H as [H1 H2].
    assert (Hy : reach E [y] x) by (apply IH; assumption).
    clear - H1 Hy. induction Hy as [x Hx | v x Hr IHr He].
    + destruct Hx as [<-|[]]. eapply reach_step; [apply reach_init; left; reflexivity | assumption].
    + eapply reach_step; eassumption.
Qed.

(* the units a use_all_in_library loop touches *)
Fixpoint den_all_proc (gd : uid -> option result) (vs : list uid) : list uid :=
  match vs with
  | [] => []
  | v :: vs' => match gd v with
                | Some r => if r_circ r then [v] else v :: den_all_proc gd vs'
                | None => [v]
                end
  end.

Lemma den_all_length : forall gd vs acc r b, den_all gd vs acc = Some (r, b) -> (length acc <= length r)%nat.
Proof.
  intros gd; induction vs as [|v vs IH]; intros acc r b H; cbn [den_all] in H.
  - inversion H; subst; rewrite rev_length; lia.
  - destruct (gd v) as [rv|]; [|discriminate]. destruct (r_circ rv).
    + inversion H; subst; rewrite rev_length; lia.
    + apply IH in H; cbn [length] in H; lia.
Qed.

Lemma den_all_proc_spec : forall gd vs acc r b, den_all gd vs acc = Some (r, b) ->
  den_all_proc gd vs = if b then vs else firstn (S (length r - length acc)) vs.
Proof.
  intros gd; induction vs as [|v vs IH]; intros acc r b H; cbn [den_all den_all_proc] in *.
  - inversion H; subst; reflexivity.
  - destruct (gd v) as [rv|]; [|discriminate]. destruct (r_circ rv).
    + inversion H; subst. rewrite rev_length, Nat.sub_diag. reflexivity.
    + pose proof (den_all_length _ _ _ _ _ H) as Hl. cbn [length] in Hl.
      rewrite (IH _ _ _ H). destruct b; [reflexivity|]. cbn [length].
      replace (S (length r - length acc)) with (S (S (length r - S (length acc)))) by lia.
      reflexivity.
Qed.

Lemma in_firstn : forall (A : Type) n (l : list A) x, In x (firstn n l) -> In x l.
Proof.
  intros A; induction n as [|n IH]; intros l x H; [destruct H|].
  destruct l as [|a l]; [destruct H|]. cbn [firstn] in H. destruct H as [H|H]; [left; assumption | right; apply IH; assumption].
Qed.

Definition ctx_ok2 (A : ast) (u : uid) (c : ctx) : Prop :=
  ctx_ok A u c /\ forall w, In w (c_uses c) -> memo_get (a_memo A) w <> None.

Lemma ctx_ok2_ext : forall A A' u c, ext A A' -> ctx_ok2 A u c -> ctx_ok2 A' u c.
Proof.
  intros A A' u c Hext [H1 H2]; split; [eapply ctx_ok_ext; eassumption|].
  intros w Hw. specialize (H2 w Hw). destruct (memo_get (a_memo A) w) as [e|] eqn:He; [|congruence].
  rewrite (x_memo _ _ Hext w e He); discriminate.
Qed.

(* how the outcome of AnalyzeContext::get_analysis relates to what the oracle says *)
Definition agrees (W : world) (v : uid) (ro : option result) : Prop :=
  exists r, oracle W v = Some r /\
    match ro with
    | None => r_circ r = true
    | Some r' => r_circ r' = r_circ r /\ (r_circ r = false -> r' = r)
    end.

Section OneUnit2.
  Variable W : world.
  Hypothesis HW : prop_world W.
  Hypothesis Hwf : wf_world W.
  Variable u : uid.
  Variable eu : entry.
  Hypothesis Hru : ref W u = Some eu.
  Variable stk : list uid.
  Variable A0 : ast.
  Hypothesis Hchain : chain (users_of (a_maps A0)) (u :: stk).
  Variable get : ast -> uid -> outcome (ast * result).
  Hypothesis Hget : forall w ew A, ref W w = Some ew -> good2 W A -> ext A0 A ->
    In (w, u) (users_of (a_maps A)) -> (memo_get (a_memo A) w = None -> ~ In w (u :: stk)) ->
    exists A', get A w = Ok (A', fst ew) /\ memo_get (a_memo A') w = Some ew /\ good2 W A' /\ ext A A'.

  Lemma edges_real : forall A, good2 W A -> forall a b, In (a, b) (users_of (a_maps A)) -> real_edge W a b.
  Proof. intros A HA a b Hab; exact (g2_edges _ _ HA a b Hab). Qed.

  Lemma use_unit_sim2 : forall A c v ev,
    ref W v = Some ev -> In v (trace_reads W (snd eu)) ->
    good2 W A -> ext A0 A -> ctx_ok2 A u c ->
    exists A' c' ro, use_unit get u A c v = Ok (A', c', ro)
      /\ good2 W A' /\ ext A A' /\ ctx_ok2 A' u c' /\ In (v, u) (users_of (a_maps A'))
      /\ c_missing c' = c_missing c /\ c_liball c' = c_liball c /\ agrees W v ro.
  Proof.
    intros A c v ev Hrv Hin HA Hext0 [Hc Hcm].
    assert (Hreal : real_edge W v u) by (exists eu; auto).
    destruct (oracle_total W v) as [rv Hov].
    unfold use_unit. destruct (mem_uid v (c_uses c)) eqn:Hm.
    - apply mem_uid_In in Hm.
      assert (Hvu : In (v, u) (users_of (a_maps A))) by (destruct Hc as [H1 _]; apply H1; assumption).
      destruct (Hget v ev A Hrv HA Hext0 Hvu) as [A' [Hg [Hmemo [HA' Hext]]]].
      { intros Hn; exfalso; exact (Hcm v Hm Hn). }
      rewrite Hg. exists A', c, (Some (fst ev)). split; [reflexivity|].
      assert (Hc' : ctx_ok2 A' u c) by (eapply ctx_ok2_ext; [eassumption | split; assumption]).
      splits; try assumption; try reflexivity.
      + apply (x_users _ _ Hext); assumption.
      + exists rv; split; [assumption|]. destruct (oracle_ref W HW v ev rv Hrv Hov) as [H1 H2].
        split; [symmetry; assumption | intros Hf; symmetry; apply H2; assumption].
    - destruct (make_use_of_spec (a_maps A) u v) as [all [Hmu Hall]]. rewrite Hmu.
      set (E' := add_edge (v, u) (users_of (a_maps A))) in *.
      assert (HE' : forall a b, In (a, b) E' -> real_edge W a b).
      { intros a b Hab; apply add_edge_In in Hab; destruct Hab as [Hab|Hab].
        - inversion Hab; subst; assumption.
        - eapply edges_real; eassumption. }
      set (M' := mkMaps E' (users_all (a_maps A)) (missing (a_maps A))).
      assert (Hincl : maps_incl (a_maps A) M').
      { constructor; cbn [M' users_of users_all missing]; try apply incl_refl.
        intros e He; apply add_edge_In; right; assumption. }
      destruct (good2_set_maps W A M' HA Hincl) as [HA1 Hext1].
      { intros a b Hab; cbn [M' users_of] in Hab; apply add_edge_In in Hab; destruct Hab as [Hab|Hab].
        - inversion Hab; subst; right; assumption.
        - left; assumption. }
      assert (Hvu1 : In (v, u) (users_of (a_maps (set_maps A M')))).
      { cbn [set_maps a_maps M' users_of]; apply add_edge_In; left; reflexivity. }
      assert (Hc1 : ctx_ok2 (set_maps A M') u c) by (eapply ctx_ok2_ext; [eassumption | split; assumption]).
      destruct (mem_uid v all) eqn:Hcyc; cbn [negb].
      + (* make_use_of reports a cycle: the unit is bad *)
        apply mem_uid_In in Hcyc; apply Hall in Hcyc.
        exists (set_maps A M'), c, None. split; [reflexivity|].
        splits; try assumption; try reflexivity.
        exists rv; split; [assumption|].
        destruct (den (length W) W v) as [e|] eqn:Hdv.
        * exfalso.
          assert (Hgv : den (length W) W v <> None) by (rewrite Hdv; discriminate).
          destruct (reach_good W E' u v HW HE' Hcyc Hgv) as [Hgu Hor].
          destruct (den (length W) W u) as [eu'|] eqn:Hdu; [|congruence].
          destruct (real_edge_good W HW v u _ eu' Hreal Hdu) as [Hs _].
          assert (Hgu' : den (length W) W u <> None) by (rewrite Hdu; discriminate).
          destruct Hor as [Heq|Hs'].
          -- rewrite Heq in Hs. exact (sub_irrefl W u _ Hgu' Hs).
          -- exact (sub_irrefl W u _ Hgu' (sub_trans _ _ _ _ Hs' Hs)).
        * rewrite (oracle_bad W v Hdv) in Hov; inversion Hov; reflexivity.
      + (* no cycle: the unit is not under analysis *)
        apply mem_uid_false in Hcyc.
        assert (Hext01 : ext A0 (set_maps A M')) by (eapply ext_trans; eassumption).
        destruct (Hget v ev (set_maps A M') Hrv HA1 Hext01 Hvu1) as [A' [Hg [Hmemo [HA' Hext]]]].
        { intros _ Hin'. apply Hcyc. apply Hall.
          apply (chain_reach E' stk u); [|assumption].
          eapply chain_mono; [|exact Hchain]. intros e He. apply add_edge_In; right.
          apply (x_users _ _ Hext0); assumption. }
        rewrite Hg. eexists A', _, (Some (fst ev)). split; [reflexivity|].
        assert (Hext' : ext A A') by (eapply ext_trans; eassumption).
        assert (Hvu : In (v, u) (users_of (a_maps A'))) by (apply (x_users _ _ Hext); assumption).
        destruct (ctx_ok2_ext _ _ _ _ Hext Hc1) as [[K1 [K2 K3]] K4].
        splits; try assumption; try reflexivity.
        * split.
          -- unfold ctx_ok; cbn [c_uses c_missing c_liball]; splits; try assumption.
             intros w [Hw|Hw]; [subst; assumption | apply K1; assumption].
          -- cbn [c_uses]; intros w [Hw|Hw]; [subst w; rewrite Hmemo; discriminate | apply K4; assumption].
        * exists rv; split; [assumption|]. destruct (oracle_ref W HW v ev rv Hrv Hov) as [H1 H2].
          split; [symmetry; assumption | intros Hf; symmetry; apply H2; assumption].
  Qed.

  Lemma all_loop_sim2 : forall vs A c acc r b,
    den_all (oracle W) vs acc = Some (r, b) ->
    (forall v, In v (den_all_proc (oracle W) vs) -> In v (trace_reads W (snd eu)) /\ exists ev, ref W v = Some ev) ->
    good2 W A -> ext A0 A -> ctx_ok2 A u c ->
    exists A' c', all_loop get u vs A c acc = Ok (A', c', r, b)
      /\ good2 W A' /\ ext A A' /\ ctx_ok2 A' u c'
      /\ (forall v, In v (den_all_proc (oracle W) vs) -> In (v, u) (users_of (a_maps A')))
      /\ c_missing c' = c_missing c /\ c_liball c' = c_liball c.
  Proof.
    induction vs as [|v vs IH]; intros A c acc r b Hd Hvs HA Hext0 Hc; cbn [all_loop den_all den_all_proc] in *.
    - inversion Hd; subst. exists A, c.
      split; [reflexivity|]. split; [assumption|]. split; [apply ext_refl|]. split; [assumption|].
      split; [intros v []|]. split; reflexivity.
    - destruct (oracle W v) as [rv|] eqn:Hov; [|discriminate].
      assert (Hv : In v (trace_reads W (snd eu)) /\ exists ev, ref W v = Some ev).
      { apply Hvs. destruct (r_circ rv); left; reflexivity. }
      destruct Hv as [Hin [ev Hrv]].
      destruct (use_unit_sim2 A c v ev Hrv Hin HA Hext0 Hc)
        as [A1 [c1 [ro [Hu [HA1 [Hext1 [Hc1 [Hvu [Hm1 [Hl1 [rv' [Hov' Hag]]]]]]]]]]]].
      rewrite Hov in Hov'; inversion Hov'; subst rv'. rewrite Hu.
      destruct (r_circ rv) eqn:Hcv.
      + inversion Hd; subst r b.
        exists A1, c1. split.
        * destruct ro as [r'|]; [destruct Hag as [Hag _]; rewrite Hag; reflexivity | reflexivity].
        * split; [assumption|]. split; [assumption|]. split; [assumption|].
          split; [intros w [<-|[]]; assumption|]. split; assumption.
      + destruct ro as [r'|]; [|discriminate Hag]. destruct Hag as [Hag1 Hag2].
        rewrite Hag1. rewrite (Hag2 eq_refl).
        destruct (IH A1 c1 ((v, rv) :: acc) r b Hd) as [A' [c' [Hl [HA' [Hext' [Hc' [Hvs' [Hm' Hl']]]]]]]]; auto.
        { intros w Hw; apply Hvs; right; assumption. }
        { eapply ext_trans; eassumption. }
        rewrite Hl. exists A', c'. split; [reflexivity|].
        split; [assumption|]. split; [eapply ext_trans; eassumption|]. split; [assumption|].
        split; [|split; congruence].
        intros w [<-|Hw]; [apply (x_users _ _ Hext'); assumption | apply Hvs'; assumption].
  Qed.

  Lemma answer_sim2 : forall A c q a,
    den_answer W (oracle W) u q = Some a ->
    (forall v, In v (ev_reads W (q, a)) -> In v (trace_reads W (snd eu))) ->
    good2 W A -> ext A0 A -> ctx_ok2 A u c ->
    exists A' c', answer_query W get u A c q = Ok (A', c', a)
      /\ good2 W A' /\ ext A A' /\ ctx_ok2 A' u c' /\ reg_event2 W (a_maps A') u (q, a).
  Proof.
    intros A c q a Hden Hreads HA Hext0 Hc. destruct q as [s|l|]; cbn [den_answer answer_query] in *.
    - destruct (get_slot W s) as [[v p]|] eqn:Hs.
      + destruct (oracle W v) as [rv|] eqn:Hov; [|discriminate].
        inversion Hden; subst a; clear Hden.
        destruct (get_slot_In _ _ _ _ Hs) as [Hinw Hsv].
        assert (Hsv' : get_slot W (u_slot v) = Some (v, p)) by (rewrite Hsv; exact Hs).
        destruct (ref_total W v p Hsv') as [ev Hrv].
        assert (Hin : In v (trace_reads W (snd eu))).
        { apply Hreads. cbn [ev_reads]. rewrite Hs. left; reflexivity. }
        destruct (use_unit_sim2 A c v ev Hrv Hin HA Hext0 Hc)
          as [A1 [c1 [ro [Hu [HA1 [Hext1 [Hc1 [Hvu [_ [_ [rv' [Hov' Hag]]]]]]]]]]]].
        rewrite Hov in Hov'; inversion Hov'; subst rv'. rewrite Hu.
        exists A1, c1. split.
        * destruct ro as [r'|].
          -- destruct Hag as [Hag1 Hag2]. rewrite Hag1. destruct (r_circ rv) eqn:Hcv; [reflexivity|].
             rewrite (Hag2 eq_refl); reflexivity.
          -- rewrite Hag; reflexivity.
        * split; [assumption|]. split; [assumption|]. split; [assumption|].
          split.
          -- cbn [ev_reads]. rewrite Hs. intros w [<-|[]]; assumption.
          -- destruct (r_circ rv); exact I.
      + inversion Hden; subst a; clear Hden.
        unfold register_missing. destruct (mem_slot s (c_missing c)) eqn:Hm.
        * apply mem_slot_In in Hm. exists A, c.
          split; [reflexivity|]. split; [assumption|]. split; [apply ext_refl|]. split; [assumption|].
          split; [cbn [ev_reads]; rewrite Hs; intros v [] | destruct Hc as [[_ [H2 _]] _]; apply H2; assumption].
        * set (M' := make_use_of_missing_unit (a_maps A) u s).
          assert (Hincl : maps_incl (a_maps A) M').
          { constructor; cbn [M' make_use_of_missing_unit users_of users_all missing]; try apply incl_refl.
            intros e He; apply add_mpair_In; right; assumption. }
          destruct (good2_set_maps W A M' HA Hincl) as [HA1 Hext1].
          { intros x y Hxy; left; exact Hxy. }
          assert (Hnew : In (s, u) (missing (a_maps (set_maps A M')))).
          { cbn [set_maps a_maps M' make_use_of_missing_unit missing]. apply add_mpair_In; left; reflexivity. }
          eexists _, _. split; [reflexivity|]. split; [assumption|]. split; [assumption|]. split.
          -- destruct (ctx_ok2_ext _ _ _ _ Hext1 Hc) as [[H1 [H2 H3]] H4].
             split; [|exact H4].
             unfold ctx_ok; cbn [c_uses c_missing c_liball]. split; [assumption|]. split; [|assumption].
             intros s' [Hs'|Hs']; [subst s'; assumption | apply H2; assumption].
          -- split; [cbn [ev_reads]; rewrite Hs; intros v [] | assumption].
    - destruct (l =? u_lib u) eqn:Hl.
      + inversion Hden; subst a. exists A, c.
        split; [reflexivity|]. split; [assumption|]. split; [apply ext_refl|]. split; [assumption|].
        split; [intros v [] | exact I].
      + destruct (den_all (oracle W) (primaries W l) []) as [[vs b]|] eqn:Hd; [|discriminate].
        pose proof (den_all_proc_spec _ _ _ _ _ Hd) as Hproc. cbn [length] in Hproc. rewrite Nat.sub_0_r in Hproc.
        assert (Hfst : b = true -> map fst vs = primaries W l).
        { intros ->. destruct (den_all_complete _ _ _ _ Hd) as [Hvs _]. cbn [rev app] in Hvs.
          rewrite Hvs, map_map; cbn [fst]; apply map_id. }
        assert (Hrd : ev_reads W (QLibAll l, a) = den_all_proc (oracle W) (primaries W l)).
        { destruct b; inversion Hden; subst a; cbn [ev_reads]; rewrite Hproc; [apply Hfst; reflexivity | reflexivity]. }
        assert (Hpre : forall v, In v (den_all_proc (oracle W) (primaries W l)) ->
                  In v (trace_reads W (snd eu)) /\ exists ev, ref W v = Some ev).
        { intros v Hv. split; [apply Hreads; rewrite Hrd; assumption|].
          assert (Hvp : In v (primaries W l)).
          { destruct b; rewrite Hproc in Hv; [assumption | eapply in_firstn; eassumption]. }
          apply primaries_In in Hvp; destruct Hvp as [Hvu _]. apply unit_ids_In in Hvu; destruct Hvu as [p Hp].
          apply (ref_total W v p). apply get_slot_wf; assumption. }
        destruct (all_loop_sim2 (primaries W l) A c [] vs b Hd Hpre HA Hext0 Hc)
          as [A1 [c1 [Hloop [HA1 [Hext1 [Hc1 [Hedges [Hm1 Hl1]]]]]]]].
        rewrite Hloop. rewrite <- Hrd in Hedges.
        destruct b; inversion Hden; subst a; clear Hden.
        * unfold register_liball. destruct (mem_lib l (c_liball c1)) eqn:Hm.
          -- apply mem_lib_In in Hm. exists A1, c1.
             split; [reflexivity|]. split; [assumption|]. split; [assumption|]. split; [assumption|].
             split; [exact Hedges | destruct Hc1 as [[_ [_ H3]] _]; apply H3; assumption].
          -- set (M' := make_use_of_library_all (a_maps A1) u l).
             assert (Hincl : maps_incl (a_maps A1) M').
             { constructor; cbn [M' make_use_of_library_all users_of users_all missing]; try apply incl_refl.
               intros e He; apply add_lpair_In; right; assumption. }
             destruct (good2_set_maps W A1 M' HA1 Hincl) as [HA2 Hext2].
             { intros x y Hxy; left; exact Hxy. }
             assert (Hnew : In (l, u) (users_all (a_maps (set_maps A1 M')))).
             { cbn [set_maps a_maps M' make_use_of_library_all users_all]. apply add_lpair_In; left; reflexivity. }
             eexists _, _. split; [reflexivity|]. split; [assumption|].
             split; [eapply ext_trans; eassumption|]. split.
             ++ destruct (ctx_ok2_ext _ _ _ _ Hext2 Hc1) as [[H1 [H2 H3]] H4].
                split; [|exact H4].
                unfold ctx_ok; cbn [c_uses c_missing c_liball]. split; [assumption|]. split; [assumption|].
                intros l' [Hl'|Hl']; [subst l'; assumption | apply H3; assumption].
             ++ split; [|assumption]. intros v Hv; apply (x_users _ _ Hext2); apply Hedges; assumption.
        * exists A1, c1.
          split; [reflexivity|]. split; [assumption|]. split; [assumption|]. split; [assumption|].
          split; [exact Hedges | exact I].
    - inversion Hden; subst a. exists A, c.
      split; [reflexivity|]. split; [assumption|]. split; [apply ext_refl|]. split; [assumption|].
      split; [intros v [] | exact I].
  Qed.

  Lemma run_sim2 : forall p A c tr,
    den_run W (oracle W) u p tr = Some eu ->
    good2 W A -> ext A0 A -> ctx_ok2 A u c -> Forall (reg_event2 W (a_maps A) u) tr ->
    exists A', run W get u p A c tr = Ok (A', eu)
      /\ good2 W A' /\ ext A A' /\ Forall (reg_event2 W (a_maps A') u) (snd eu).
  Proof.
    induction p as [circ tag|q k IH]; intros A c tr Hden HA Hext0 Hc Hreg; cbn [den_run run] in *.
    - inversion Hden; subst eu. exists A.
      split; [reflexivity|]. split; [assumption|]. split; [apply ext_refl|].
      cbn [snd]. apply Forall_rev; assumption.
    - destruct (den_answer W (oracle W) u q) as [a|] eqn:Ha; [|discriminate].
      assert (Hreads : forall v, In v (ev_reads W (q, a)) -> In v (trace_reads W (snd eu))).
      { intros v Hv. destruct (den_run_prefix _ _ _ _ _ _ Hden) as [rest Hrest].
        rewrite Hrest. unfold trace_reads. rewrite in_flat_map.
        exists (q, a); split; [|assumption].
        apply in_or_app; left. cbn [rev]. apply in_or_app; right; left; reflexivity. }
      destruct (answer_sim2 A c q a Ha Hreads HA Hext0 Hc) as [A1 [c1 [Hans [HA1 [Hext1 [Hc1 Hreg1]]]]]].
      rewrite Hans.
      destruct (IH a A1 c1 ((q, a) :: tr) Hden HA1) as [A' [Hrun [HA' [Hext' Hreg']]]].
      { eapply ext_trans; eassumption. }
      { assumption. }
      { constructor; [assumption|]. eapply Forall_reg2_mono; [apply ext_maps_incl|]; eassumption. }
      exists A'. split; [assumption|]. split; [assumption|]. split; [eapply ext_trans; eassumption | assumption].
  Qed.
End OneUnit2.

(* ------------------------------------------------------------------------------------ *)
Theorem get_analysis_sim2 : forall W, prop_world W -> wf_world W ->
  forall f stk A v ev, ref W v = Some ev -> good2 W A ->
  NoDup stk -> incl stk (unit_ids W) -> chain (users_of (a_maps A)) (v :: stk) ->
  (memo_get (a_memo A) v = None -> ~ In v stk) -> (length W < f + length stk)%nat ->
  exists A', get_analysis f W stk A v = Ok (A', fst ev)
    /\ memo_get (a_memo A') v = Some ev /\ good2 W A' /\ ext A A'.
Proof.
  intros W HW Hwf; induction f as [|f IH]; intros stk A v ev Hr HA Hnd Hincl Hch Hns Hfuel.
  - (* no fuel: only possible when v is already analysed *)
    cbn [get_analysis]. destruct (memo_get (a_memo A) v) as [e|] eqn:Hm.
    + rewrite (g2_memo _ _ HA v e Hm) in Hr; inversion Hr; subst e.
      exists A. split; [reflexivity|]. split; [assumption|]. split; [assumption | apply ext_refl].
    + exfalso. destruct (ref_present W v ev Hr) as [p [_ Hin]].
      assert (Hl : (length (v :: stk) <= length (unit_ids W))%nat).
      { apply NoDup_incl_length; [constructor; [apply Hns; reflexivity | assumption]|].
        intros x [<-|Hx]; [apply unit_ids_In; eauto | apply Hincl; assumption]. }
      unfold unit_ids in Hl; rewrite map_length in Hl; cbn [length] in Hl. lia.
  - cbn [get_analysis]. destruct (memo_get (a_memo A) v) as [e|] eqn:Hm.
    + rewrite (g2_memo _ _ HA v e Hm) in Hr; inversion Hr; subst e.
      exists A. split; [reflexivity|]. split; [assumption|]. split; [assumption | apply ext_refl].
    + assert (Hnin : ~ In v stk) by (apply Hns; reflexivity).
      replace (mem_uid v stk) with false by (symmetry; apply mem_uid_false; assumption).
      pose proof Hr as Hr2. unfold ref in Hr2.
      destruct (get_slot W (u_slot v)) as [[v' p]|] eqn:Hs; [|discriminate].
      destruct (uid_eqb v' v) eqn:He; [|discriminate].
      assert (Hvin : In v (unit_ids W)).
      { apply uid_eqb_true in He; subst v'. apply unit_ids_In; exists p; apply (get_slot_In _ _ _ _ Hs). }
      assert (Hget : forall w ew A1, ref W w = Some ew -> good2 W A1 -> ext A A1 ->
                In (w, v) (users_of (a_maps A1)) -> (memo_get (a_memo A1) w = None -> ~ In w (v :: stk)) ->
                exists A', get_analysis f W (v :: stk) A1 w = Ok (A', fst ew)
                  /\ memo_get (a_memo A') w = Some ew /\ good2 W A' /\ ext A1 A').
      { intros w ew A1 Hrw HA1 Hext1 Hwv Hnw. apply IH; try assumption.
        - constructor; assumption.
        - intros x [<-|Hx]; [assumption | apply Hincl; assumption].
        - change (In (w, v) (users_of (a_maps A1)) /\ chain (users_of (a_maps A1)) (v :: stk)).
          split; [assumption|]. eapply chain_mono; [apply (x_users _ _ Hext1) | exact Hch].
        - cbn [length]; lia. }
      destruct (run_sim2 W HW Hwf v ev Hr stk A Hch (get_analysis f W (v :: stk)) Hget p A empty_ctx [] Hr2 HA (ext_refl A))
        as [A' [Hrun [HA' [Hext Hreg]]]].
      { split; [unfold ctx_ok|]; cbn [empty_ctx c_uses c_missing c_liball]; [splits|]; intros x []. }
      { constructor. }
      rewrite Hrun. exists (memo_set A' v ev); split; [reflexivity|]. split; [apply memo_get_set_same|].
      assert (Hm' : forall x e, memo_get (a_memo A) x = Some e -> x <> v) by (intros x e Hx ->; congruence).
      split.
      * destruct HA' as [gm ge gr]. constructor.
        -- intros x e Hx. destruct (uid_eq_dec x v) as [->|Hne].
           ++ rewrite memo_get_set_same in Hx; inversion Hx; subst; assumption.
           ++ rewrite memo_get_set_other in Hx by assumption. apply gm; assumption.
        -- exact ge.
        -- intros x e Hx. destruct (uid_eq_dec x v) as [->|Hne].
           ++ rewrite memo_get_set_same in Hx; inversion Hx; subst; exact Hreg.
           ++ rewrite memo_get_set_other in Hx by assumption. apply gr; assumption.
      * destruct Hext as [xm xu xl xs]; constructor; cbn [memo_set a_maps]; try assumption.
        intros x e Hx. rewrite memo_get_set_other by (eapply Hm'; eassumption). apply xm; assumption.
Qed.

Theorem analyse_units_sim2 : forall W, prop_world W -> wf_world W ->
  forall us A, good2 W A -> (forall x, In x us -> In x (unit_ids W)) ->
  exists A', analyse_units W us A = Ok A' /\ good2 W A' /\ ext A A'
    /\ forall x, In x us -> memo_get (a_memo A') x <> None.
Proof.
  intros W HW Hwf; induction us as [|v us IH]; intros A HA Hus; cbn [analyse_units].
  - exists A. split; [reflexivity|]. split; [assumption|]. split; [apply ext_refl | intros x []].
  - assert (Hv : In v (unit_ids W)) by (apply Hus; left; reflexivity).
    apply unit_ids_In in Hv; destruct Hv as [p Hp].
    destruct (ref_total W v p (get_slot_wf _ _ _ Hwf Hp)) as [ev Hr].
    destruct (get_analysis_sim2 W HW Hwf (S (length W)) [] A v ev Hr HA) as [A1 [Hg [Hm [HA1 Hext1]]]].
    + constructor.
    + intros x [].
    + cbn [chain]; exact I.
    + intros _ [].
    + cbn [length]; lia.
    + rewrite Hg.
      destruct (IH A1 HA1) as [A' [Hrec [HA' [Hext' Hall]]]]; [intros x Hx; apply Hus; right; assumption|].
      exists A'. split; [assumption|]. split; [assumption|]. split; [eapply ext_trans; eassumption|].
      intros x [Hx|Hx]; [subst x | apply Hall; assumption].
      rewrite (x_memo _ _ Hext' v ev Hm); discriminate.
Qed.
