From Coq Require Import List Arith Bool Lia.
Import ListNotations.
From RH Require Import Kernel.Conc.

(* completeness of the finite enumerations at the end of Kernel/Conc.v *)

Lemma lists_exact_complete : forall n k (l : list req), length l = k ->
  Forall (fun r : req => fst r < n /\ snd r = false) l -> In l (lists_exact n k).
Proof.
  intros n k; induction k as [|k IH]; intros l Hlen HF.
  - destruct l as [|r l']; [left; reflexivity | discriminate Hlen].
  - destruct l as [|[a sw] l']; [discriminate Hlen|].
    cbn [length] in Hlen. injection Hlen as Hlen.
    pose proof (Forall_inv HF) as Hhd. pose proof (Forall_inv_tail HF) as Htl.
    cbn [fst snd] in Hhd. destruct Hhd as [Ha Hsw]. subst sw.
    cbn [lists_exact]. apply in_flat_map. exists a. split.
    + apply in_seq. lia.
    + apply in_map. apply IH; assumption.
Qed.

Lemma lists_upto_complete : forall n k (l : list req), length l <= k ->
  Forall (fun r : req => fst r < n /\ snd r = false) l -> In l (lists_upto n k).
Proof.
  intros n k l Hlen HF. unfold lists_upto. apply in_flat_map.
  exists (length l). split.
  - apply in_seq. lia.
  - apply lists_exact_complete; [reflexivity | assumption].
Qed.

Lemma graphs_over_complete : forall opts m (g : list (list req)), length g = m ->
  Forall (fun l => In l opts) g -> In g (graphs_over opts m).
Proof.
  intros opts m; induction m as [|m IH]; intros g Hlen HF.
  - destruct g as [|l g']; [left; reflexivity | discriminate Hlen].
  - destruct g as [|l g']; [discriminate Hlen|].
    cbn [length] in Hlen. injection Hlen as Hlen.
    pose proof (Forall_inv HF) as Hhd. pose proof (Forall_inv_tail HF) as Htl.
    cbn [graphs_over]. apply in_flat_map. exists l. split.
    + exact Hhd.
    + apply in_map. apply IH; assumption.
Qed.

Theorem graphs_complete : forall n k deps, small_graph n k deps -> In deps (graphs n k).
Proof.
  intros n k deps [Hlen HF]. unfold graphs.
  apply graphs_over_complete; [exact Hlen|].
  eapply Forall_impl; [|exact HF].
  intros l [Hl Hr]. cbv beta. apply lists_upto_complete; assumption.
Qed.
