(* Kernel/ConcConfl.v — the result of every finished unit (`Done c`) of the repaired code
   (cbo = false) is determined by the static request graph alone, whatever the interleaving:
   c is the index of the first request of the unit whose target reaches a request cycle. *)
From Coq Require Import List Arith Bool Lia Relations.
Import ListNotations.
From RH Require Import Kernel.Conc Kernel.ConcBase Kernel.ConcClosure.

Lemma nth_error_Some_lt : forall A (l : list A) j x, nth_error l j = Some x -> j < length l.
Proof.
  intros A l j x H. apply nth_error_Some. rewrite H. discriminate.
Qed.

(* ---------------------------------------------------------------------------------- *)
(* relation facts *)

Lemma rt_rev : forall (R S : nat -> nat -> Prop), (forall x y, R x y -> S y x) ->
  forall a b, clos_refl_trans nat R a b -> clos_refl_trans nat S b a.
Proof.
  intros R S HRS a b Hr. induction Hr as [x y Hxy | x | x y z _ IH1 _ IH2].
  - apply rt_step. apply HRS. exact Hxy.
  - apply rt_refl.
  - apply rt_trans with y; assumption.
Qed.

Lemma rt_t_t : forall (R : nat -> nat -> Prop) x y z,
  clos_refl_trans nat R x y -> clos_trans nat R y z -> clos_trans nat R x z.
Proof.
  intros R x y z Hr. revert z. induction Hr as [x y Hxy | x | x y w _ IH1 _ IH2]; intros z Ht.
  - apply t_trans with y; [apply t_step; exact Hxy | exact Ht].
  - exact Ht.
  - apply IH1. apply IH2. exact Ht.
Qed.

Lemma rt_close : forall (R : nat -> nat -> Prop) v a,
  clos_refl_trans nat R v a -> R a v -> clos_trans nat R v v.
Proof.
  intros R v a Hr Hav. apply rt_t_t with a; [exact Hr | apply t_step; exact Hav].
Qed.

Lemma t_first : forall (R : nat -> nat -> Prop) x y,
  clos_trans nat R x y -> exists z, R x z /\ clos_refl_trans nat R z y.
Proof.
  intros R x y Ht. induction Ht as [x y Hxy | x y z _ IH1 _ IH2].
  - exists y. split; [exact Hxy | apply rt_refl].
  - destruct IH1 as [w [Hxw Hwy]]. destruct IH2 as [w' [Hyw' Hw'z]].
    exists w. split; [exact Hxw|].
    apply rt_trans with y; [exact Hwy|].
    apply rt_trans with w'; [apply rt_step; exact Hyw' | exact Hw'z].
Qed.

Lemma rt_first : forall (R : nat -> nat -> Prop) x y,
  clos_refl_trans nat R x y -> x = y \/ exists z, R x z /\ clos_refl_trans nat R z y.
Proof.
  intros R x y Hr. apply clos_rt_rt1n in Hr. destruct Hr as [| z y Hxz Hzy].
  - left. reflexivity.
  - right. exists z. split; [exact Hxz | apply clos_rt1n_rt; exact Hzy].
Qed.

(* ---------------------------------------------------------------------------------- *)
(* graph facts *)

(* G1 *)
Lemma bad_step : forall deps u v, dep_edge deps u v -> bad deps v -> bad deps u.
Proof.
  intros deps u v He [c [Hr Hc]]. exists c. split; [|exact Hc].
  apply rt_trans with v; [apply rt_step; exact He | exact Hr].
Qed.

(* G2 *)
Lemma cycle_bad : forall deps v, clos_trans nat (dep_edge deps) v v -> bad deps v.
Proof.
  intros deps v Hc. exists v. split; [apply rt_refl | exact Hc].
Qed.

(* G5 *)
Lemma not_bad_of_targets : forall deps v,
  (forall w sw, In (w, sw) (nth v deps []) -> ~ bad deps w) -> ~ bad deps v.
Proof.
  intros deps v H [c [Hr Hc]]. apply rt_first in Hr.
  destruct Hr as [Heq | [w [Hvw Hwc]]].
  - subst c. destruct (t_first _ _ _ Hc) as [z [[sw Hin] Hzv]].
    apply (H z sw Hin). exists v. split; [exact Hzv | exact Hc].
  - destruct Hvw as [sw Hin]. apply (H w sw Hin).
    exists c. split; [exact Hwc | exact Hc].
Qed.

(* G4: a failing cycle test means the target is bad *)
Lemma test_fail_bad : forall deps T s a v sw, wf_deps deps -> base_inv deps T s ->
  In (v, sw) (nth a deps []) ->
  closes_cycle (add_user (users s) v a) a v = true -> bad deps v.
Proof.
  intros deps T s a v sw Hwf Hbi Hin Hcc.
  assert (Hv : v < length deps) by exact (Hwf a v sw Hin).
  unfold closes_cycle in Hcc. apply cc_mem_In in Hcc. apply closure_sound in Hcc.
  destruct Hcc as [y [Hy Hr]]. destruct Hy as [Hy | []]. subst y.
  assert (Hrev : forall x y, user_rel (add_user (users s) v a) x y -> dep_edge deps y x).
  { intros x y Hxy. unfold user_rel in Hxy.
    apply add_user_In in Hxy; [|rewrite (bi_users _ _ _ Hbi); exact Hv].
    destruct Hxy as [Hold | [Hx Hy]].
    - apply (bi_users_dep _ _ _ Hbi). exact Hold.
    - subst x y. exists sw. exact Hin. }
  apply (rt_rev _ (dep_edge deps) Hrev) in Hr.
  apply cycle_bad. apply rt_close with a; [exact Hr | exists sw; exact Hin].
Qed.

(* ---------------------------------------------------------------------------------- *)
(* the invariant *)

Definition frame_ok (deps : list (list req)) (fr : frame) : Prop :=
  forall j w sw, j < f_idx fr -> nth_error (unit_reqs deps (f_unit fr)) j = Some (w, sw) ->
                 ~ bad deps w.
Definition frames_ok (deps : list (list req)) (ths : list thread) : Prop :=
  forall t th fr, nth_error ths t = Some th -> In fr (t_stack th) -> frame_ok deps fr.
Definition done_ok (deps : list (list req)) (ls : list lockst) : Prop :=
  forall u c, u < length deps -> nth u ls Vacant = Done c -> circ_spec deps u c.
Definition J (deps : list (list req)) (s : state) : Prop :=
  done_ok deps (locks s) /\ frames_ok deps (threads s).

Lemma frames_ok_upd : forall deps ths t th',
  frames_ok deps ths -> (forall fr, In fr (t_stack th') -> frame_ok deps fr) ->
  frames_ok deps (upd ths t th').
Proof.
  intros deps ths t th' Hold Hnew t0 th0 fr Hnth Hin.
  destruct (Nat.eq_dec t t0) as [He | Hne].
  - subst t0. destruct (lt_dec t (length ths)) as [Hlt | Hge].
    + rewrite nth_error_upd_eq in Hnth by exact Hlt.
      inversion Hnth; subst th0. apply Hnew. exact Hin.
    + rewrite upd_ge in Hnth by lia. exact (Hold t th0 fr Hnth Hin).
  - rewrite nth_error_upd_neq in Hnth by exact Hne. exact (Hold t0 th0 fr Hnth Hin).
Qed.

Lemma done_ok_upd : forall deps ls a l,
  done_ok deps ls -> (forall c, l = Done c -> circ_spec deps a c) ->
  done_ok deps (upd ls a l).
Proof.
  intros deps ls a l Hold Hnew u c Hu Hnth.
  destruct (Nat.eq_dec a u) as [He | Hne].
  - subst u. destruct (lt_dec a (length ls)) as [Hlt | Hge].
    + rewrite nth_upd_eq in Hnth by exact Hlt. apply Hnew. exact Hnth.
    + rewrite upd_ge in Hnth by lia. exact (Hold a c Hu Hnth).
  - rewrite nth_upd_neq in Hnth by exact Hne. exact (Hold u c Hu Hnth).
Qed.

Lemma frame_ok_same : forall deps fr fr',
  f_unit fr' = f_unit fr -> f_idx fr' = f_idx fr -> frame_ok deps fr -> frame_ok deps fr'.
Proof.
  intros deps fr fr' Hu Hi Hok j w sw Hj Hn. rewrite Hu in Hn. rewrite Hi in Hj.
  exact (Hok j w sw Hj Hn).
Qed.

Lemma frame_ok_new : forall deps v, frame_ok deps (new_frame v).
Proof.
  intros deps v j w sw Hj _. cbn [new_frame f_idx] in Hj. lia.
Qed.

Lemma frame_ok_next : forall deps fr uses v sw,
  frame_ok deps fr -> cur_req deps fr = Some (v, sw) -> ~ bad deps v ->
  frame_ok deps (next_frame fr uses).
Proof.
  intros deps fr uses v sw Hok Hcur Hnb j w sw' Hj Hn.
  cbn [next_frame f_idx f_unit] in Hj, Hn.
  destruct (Nat.eq_dec j (f_idx fr)) as [He | Hne].
  - subst j. unfold cur_req in Hcur. rewrite Hcur in Hn. inversion Hn; subst w sw'. exact Hnb.
  - apply (Hok j w sw'); [lia | exact Hn].
Qed.

(* the unit of a frame whose current request targets a bad unit *)
Lemma abort_spec : forall deps fr v sw,
  frame_ok deps fr -> cur_req deps fr = Some (v, sw) -> bad deps v ->
  circ_spec deps (f_unit fr) (Some (f_idx fr)).
Proof.
  intros deps fr v sw Hok Hcur Hbad. cbn [circ_spec].
  exists v, sw. split; [exact Hcur|]. split; [exact Hbad|].
  intros j w sw' Hj Hn. exact (Hok j w sw' Hj Hn).
Qed.

Lemma finish_spec : forall deps fr,
  frame_ok deps fr -> cur_req deps fr = None -> circ_spec deps (f_unit fr) None.
Proof.
  intros deps fr Hok Hcur. cbn [circ_spec]. intros v sw Hin.
  unfold cur_req in Hcur. apply nth_error_None in Hcur.
  apply In_nth_error in Hin. destruct Hin as [j Hj].
  assert (Hlt : j < length (nth (f_unit fr) deps [])).
  { exact (nth_error_Some_lt _ _ _ _ Hj). }
  apply (Hok j v sw); [unfold unit_reqs in Hcur; lia | exact Hj].
Qed.

Lemma cf_cur_req_In : forall deps fr v sw, cur_req deps fr = Some (v, sw) ->
  In (v, sw) (nth (f_unit fr) deps []).
Proof.
  intros deps fr v sw Hcur. unfold cur_req, unit_reqs in Hcur.
  apply nth_error_In in Hcur. exact Hcur.
Qed.

Lemma In_rest : forall deps (ths : list thread) t job (fr : frame) rest,
  frames_ok deps ths -> nth_error ths t = Some (mkThread job (fr :: rest)) ->
  forall fr', In fr' (fr :: rest) -> frame_ok deps fr'.
Proof.
  intros deps ths t job fr rest Hok Hnth fr' Hin.
  apply (Hok t (mkThread job (fr :: rest)) fr' Hnth). cbn [t_stack]. exact Hin.
Qed.

Lemma resolve_J : forall deps T s t job fr rest v sw c,
  wf_deps deps -> swallow_safe deps -> base_inv deps T s -> J deps s ->
  nth_error (threads s) t = Some (mkThread job (fr :: rest)) ->
  cur_req deps fr = Some (v, sw) -> lock_of s v = Done c ->
  J deps (resolve s t job fr rest c sw).
Proof.
  intros deps T s t job fr rest v sw c Hwf Hss Hbi [HJ1 HJ2] Hnth Hcur Hlock.
  assert (Hin : In (v, sw) (nth (f_unit fr) deps [])) by (apply cf_cur_req_In; exact Hcur).
  assert (Hv : v < length deps) by exact (Hwf _ _ _ Hin).
  assert (Hspec : circ_spec deps v c) by exact (HJ1 v c Hv Hlock).
  assert (Hfrs : forall fr', In fr' (fr :: rest) -> frame_ok deps fr')
    by exact (In_rest deps _ t job fr rest HJ2 Hnth).
  assert (Hfr : frame_ok deps fr) by (apply Hfrs; left; reflexivity).
  unfold resolve. destruct (is_circ c && negb sw) eqn:E.
  - apply andb_true_iff in E. destruct E as [E1 E2].
    destruct c as [k|]; [|discriminate E1]. destruct sw; [discriminate E2|].
    assert (Hbad : bad deps v).
    { cbn [circ_spec] in Hspec. destruct Hspec as [w [sw' [Hn [Hb _]]]].
      apply bad_step with w; [|exact Hb]. exists sw'. apply nth_error_In in Hn. exact Hn. }
    unfold J, abort_frame. cbn [locks threads]. split.
    + apply done_ok_upd; [exact HJ1|]. intros c0 Hc0. inversion Hc0; subst c0.
      apply abort_spec with v false; assumption.
    + apply frames_ok_upd; [exact HJ2|]. cbn [t_stack]. intros fr' Hin'.
      apply Hfrs. right. exact Hin'.
  - assert (Hnb : ~ bad deps v).
    { destruct c as [k|].
      - cbn [is_circ andb] in E. destruct sw; [|discriminate E].
        exact (Hss (f_unit fr) v Hin).
      - apply not_bad_of_targets. exact Hspec. }
    unfold J, set_thread. cbn [locks threads]. split; [exact HJ1|].
    apply frames_ok_upd; [exact HJ2|]. cbn [t_stack]. intros fr' [Heq | Hin'].
    + subst fr'. apply frame_ok_next with v sw; assumption.
    + apply Hfrs. right. exact Hin'.
Qed.

Lemma J_step : forall deps T s s', wf_deps deps -> swallow_safe deps ->
  base_inv deps T s -> J deps s -> Step deps false s s' -> J deps s'.
Proof.
  intros deps T s s' Hwf Hss Hbi HJ Hstep.
  inversion Hstep as
    [ t u Hnth Htd
    | t v sw Hnth Hlock
    | t v sw c Hnth Hlock
    | t v sw Hnth Hlock
    | t v sw c Hnth Hlock
    | t job fr rest v sw Hnth Hwant Hlock
    | t job fr rest v sw c Hnth Hwant Hlock
    | t job fr rest v sw Hnth Hwant Hlock
    | t job fr rest v sw c Hnth Hwant Hlock
    | t job fr rest Hnth Hwant Hcur
    | t job fr rest v sw Hnth Hwant Hcur Hmem
    | t job fr rest v sw Hnth Hwant Hcur Hmem Hcc
    | t job fr rest v Hnth Hwant Hcur Hmem Hcc
    | t job fr rest v Hnth Hwant Hcur Hmem Hcc ]; subst s'.
  - (* SPick *)
    destruct HJ as [HJ1 HJ2]. unfold J. cbn [locks threads]. split; [exact HJ1|].
    apply frames_ok_upd; [exact HJ2|]. cbn [t_stack]. intros fr' [].
  - destruct HJ as [HJ1 HJ2]. unfold J, set_thread. cbn [locks threads]. split; [exact HJ1|].
    apply frames_ok_upd; [exact HJ2|]. cbn [t_stack]. intros fr' [].
  - destruct HJ as [HJ1 HJ2]. unfold J, set_thread. cbn [locks threads]. split; [exact HJ1|].
    apply frames_ok_upd; [exact HJ2|]. cbn [t_stack]. intros fr' [].
  - (* SJobWriteVacant *)
    destruct HJ as [HJ1 HJ2]. unfold J, push_frame. cbn [locks threads]. split.
    + apply done_ok_upd; [exact HJ1|]. intros c Hc. discriminate Hc.
    + apply frames_ok_upd; [exact HJ2|]. cbn [t_stack]. intros fr' [Heq | []].
      subst fr'. apply frame_ok_new.
  - destruct HJ as [HJ1 HJ2]. unfold J, set_thread. cbn [locks threads]. split; [exact HJ1|].
    apply frames_ok_upd; [exact HJ2|]. cbn [t_stack]. intros fr' [].
  - (* SReadVacant *)
    destruct HJ as [HJ1 HJ2].
    assert (Hfrs := In_rest deps _ t job fr rest HJ2 Hnth).
    unfold J, set_thread. cbn [locks threads]. split; [exact HJ1|].
    apply frames_ok_upd; [exact HJ2|]. cbn [t_stack]. intros fr' [Heq | Hin'].
    + subst fr'. apply frame_ok_same with fr; [reflexivity | reflexivity |].
      apply Hfrs. left. reflexivity.
    + apply Hfrs. right. exact Hin'.
  - (* SReadDone *)
    apply resolve_J with T v; try assumption.
    apply (bi_want_req _ _ _ Hbi t (mkThread job (fr :: rest)) fr v sw Hnth);
      [left; reflexivity | left; exact Hwant].
  - (* SWriteVacant *)
    destruct HJ as [HJ1 HJ2].
    assert (Hfrs := In_rest deps _ t job fr rest HJ2 Hnth).
    unfold J, push_frame. cbn [locks threads]. split.
    + apply done_ok_upd; [exact HJ1|]. intros c Hc. discriminate Hc.
    + apply frames_ok_upd; [exact HJ2|]. cbn [t_stack]. intros fr' [Heq | [Heq | Hin']].
      * subst fr'. apply frame_ok_new.
      * subst fr'. apply frame_ok_same with fr; [reflexivity | reflexivity |].
        apply Hfrs. left. reflexivity.
      * apply Hfrs. right. exact Hin'.
  - (* SWriteDone *)
    apply resolve_J with T v; try assumption.
    apply (bi_want_req _ _ _ Hbi t (mkThread job (fr :: rest)) fr v sw Hnth);
      [left; reflexivity | right; exact Hwant].
  - (* SFinish *)
    destruct HJ as [HJ1 HJ2].
    assert (Hfrs := In_rest deps _ t job fr rest HJ2 Hnth).
    unfold J. cbn [locks threads]. split.
    + apply done_ok_upd; [exact HJ1|]. intros c Hc. inversion Hc; subst c.
      apply finish_spec; [|exact Hcur]. apply Hfrs. left. reflexivity.
    + apply frames_ok_upd; [exact HJ2|]. cbn [t_stack]. intros fr' Hin'.
      apply Hfrs. right. exact Hin'.
  - (* SCacheHit *)
    destruct HJ as [HJ1 HJ2].
    assert (Hfrs := In_rest deps _ t job fr rest HJ2 Hnth).
    unfold J, set_thread. cbn [locks threads]. split; [exact HJ1|].
    apply frames_ok_upd; [exact HJ2|]. cbn [t_stack]. intros fr' [Heq | Hin'].
    + subst fr'. apply frame_ok_same with fr; [reflexivity | reflexivity |].
      apply Hfrs. left. reflexivity.
    + apply Hfrs. right. exact Hin'.
  - (* SRegisterOk *)
    destruct HJ as [HJ1 HJ2].
    assert (Hfrs := In_rest deps _ t job fr rest HJ2 Hnth).
    unfold J. cbn [locks threads]. split; [exact HJ1|].
    apply frames_ok_upd; [exact HJ2|]. cbn [t_stack]. intros fr' [Heq | Hin'].
    + subst fr'. apply frame_ok_same with fr; [reflexivity | reflexivity |].
      apply Hfrs. left. reflexivity.
    + apply Hfrs. right. exact Hin'.
  - (* SRegisterCircSwallow: impossible *)
    exfalso.
    assert (Hin : In (v, true) (nth (f_unit fr) deps [])) by (apply cf_cur_req_In; exact Hcur).
    apply (Hss (f_unit fr) v Hin).
    apply test_fail_bad with T s (f_unit fr) true; assumption.
  - (* SRegisterCircAbort *)
    destruct HJ as [HJ1 HJ2].
    assert (Hfrs := In_rest deps _ t job fr rest HJ2 Hnth).
    assert (Hin : In (v, false) (nth (f_unit fr) deps [])) by (apply cf_cur_req_In; exact Hcur).
    assert (Hbad : bad deps v) by (apply test_fail_bad with T s (f_unit fr) false; assumption).
    unfold J, abort_frame. cbn [locks threads]. split.
    + apply done_ok_upd; [exact HJ1|]. intros c Hc. inversion Hc; subst c.
      apply abort_spec with v false; [|exact Hcur | exact Hbad].
      apply Hfrs. left. reflexivity.
    + apply frames_ok_upd; [exact HJ2|]. cbn [t_stack]. intros fr' Hin'.
      apply Hfrs. right. exact Hin'.
Qed.

Lemma J_init : forall deps T td, J deps (init_todo (length deps) T td).
Proof.
  intros deps T td. unfold J, init_todo. cbn [locks threads]. split.
  - intros u c _ Hn. rewrite nth_repeat in Hn. discriminate Hn.
  - intros t th fr Hn Hin. apply nth_error_In in Hn. apply repeat_spec in Hn. subst th.
    cbn [t_stack] in Hin. destruct Hin.
Qed.

Lemma J_reach : forall deps T td s, wf_deps deps -> todo_ok (length deps) td ->
  swallow_safe deps -> reach deps false (init_todo (length deps) T td) s -> J deps s.
Proof.
  intros deps T td s Hwf Htd Hss Hr. induction Hr as [| s s' Hr IH Hin].
  - apply J_init.
  - apply J_step with T s; try assumption.
    + exact (base_inv_reach deps false T td s Hwf Htd Hr).
    + apply succs_iff_Step. exact Hin.
Qed.

(* ---------------------------------------------------------------------------------- *)
(* main statements *)

Theorem done_circ_spec : forall deps T td s u c, wf_deps deps -> todo_ok (length deps) td -> swallow_safe deps ->
  reach deps false (init_todo (length deps) T td) s -> u < length deps -> lock_of s u = Done c -> circ_spec deps u c.
Proof.
  intros deps T td s u c Hwf Htd Hss Hr Hu Hlock.
  destruct (J_reach deps T td s Hwf Htd Hss Hr) as [HJ1 _].
  exact (HJ1 u c Hu Hlock).
Qed.

Theorem circ_spec_unique : forall deps u c1 c2, circ_spec deps u c1 -> circ_spec deps u c2 -> c1 = c2.
Proof.
  intros deps u c1 c2 H1 H2.
  destruct c1 as [i|]; destruct c2 as [j|]; cbn [circ_spec] in H1, H2.
  - destruct H1 as [v1 [sw1 [Hn1 [Hb1 He1]]]]. destruct H2 as [v2 [sw2 [Hn2 [Hb2 He2]]]].
    destruct (Nat.lt_trichotomy i j) as [Hlt | [Heq | Hgt]].
    + exfalso. exact (He2 i v1 sw1 Hlt Hn1 Hb1).
    + subst j. reflexivity.
    + exfalso. exact (He1 j v2 sw2 Hgt Hn2 Hb2).
  - exfalso. destruct H1 as [v1 [sw1 [Hn1 [Hb1 _]]]].
    apply nth_error_In in Hn1. exact (H2 v1 sw1 Hn1 Hb1).
  - exfalso. destruct H2 as [v2 [sw2 [Hn2 [Hb2 _]]]].
    apply nth_error_In in Hn2. exact (H1 v2 sw2 Hn2 Hb2).
  - reflexivity.
Qed.

Theorem acyclic_not_bad : forall deps v, acyclic_deps deps -> ~ bad deps v.
Proof.
  intros deps v Hac [c [_ Hc]]. exact (Hac c Hc).
Qed.

Theorem acyclic_swallow_safe : forall deps, acyclic_deps deps -> swallow_safe deps.
Proof.
  intros deps Hac u v _. apply acyclic_not_bad. exact Hac.
Qed.

Theorem done_acyclic : forall deps T td s u c, wf_deps deps -> todo_ok (length deps) td -> acyclic_deps deps ->
  reach deps false (init_todo (length deps) T td) s -> u < length deps -> lock_of s u = Done c -> c = None.
Proof.
  intros deps T td s u c Hwf Htd Hac Hr Hu Hlock.
  assert (Hspec : circ_spec deps u c).
  { apply done_circ_spec with T td s; try assumption. apply acyclic_swallow_safe. exact Hac. }
  destruct c as [i|]; [|reflexivity].
  exfalso. cbn [circ_spec] in Hspec. destruct Hspec as [v [sw [_ [Hb _]]]].
  exact (acyclic_not_bad deps v Hac Hb).
Qed.
