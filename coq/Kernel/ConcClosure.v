(* Kernel/ConcClosure.v — the cycle test of `DesignRoot::make_use_of` (`closure`,
   `closes_cycle` of Kernel/Conc.v) computes reachability in the users_of graph. *)
From Coq Require Import List Arith Bool Lia Relations.
Import ListNotations.
From RH Require Import Kernel.Conc.

(* b is registered as a user of a *)
Definition user_rel (us : list (list nat)) (a b : nat) : Prop := In b (nth a us []).
Definition users_wf (us : list (list nat)) : Prop :=
  forall a b, user_rel us a b -> a < length us /\ b < length us.

Lemma cc_mem_In : forall x l, mem x l = true <-> In x l.
Proof.
  intros x l. unfold mem. rewrite existsb_exists. split.
  - intros [y [Hy He]]. apply Nat.eqb_eq in He. subst y. exact Hy.
  - intros Hx. exists x. split; [exact Hx | apply Nat.eqb_refl].
Qed.

Lemma expand_In : forall us seen x,
  In x (expand us seen) <-> In x seen \/ exists y, In y seen /\ user_rel us y x.
Proof.
  intros us seen x. unfold expand, user_rel.
  rewrite nodup_In, in_app_iff, in_flat_map. reflexivity.
Qed.

Lemma closure_sound : forall k us seen x, In x (closure k us seen) ->
  exists y, In y seen /\ clos_refl_trans nat (user_rel us) y x.
Proof.
  induction k as [|k IH]; intros us seen x Hx.
  - cbn [closure] in Hx. exists x. split; [exact Hx | apply rt_refl].
  - cbn [closure] in Hx. apply IH in Hx. destruct Hx as [y [Hy Hr]].
    apply expand_In in Hy. destruct Hy as [Hy | [z [Hz Hzy]]].
    + exists y. split; assumption.
    + exists z. split; [exact Hz|].
      apply rt_trans with y; [apply rt_step; exact Hzy | exact Hr].
Qed.

Definition closed (us : list (list nat)) (l : list nat) : Prop :=
  forall a b, In a l -> user_rel us a b -> In b l.

Lemma expand_incl : forall us l, incl l (expand us l).
Proof. intros us l x Hx. apply expand_In. left. exact Hx. Qed.

Lemma expand_NoDup : forall us l, NoDup (expand us l).
Proof. intros us l. unfold expand. apply NoDup_nodup. Qed.

Lemma closed_expand_incl : forall us l, closed us l -> incl (expand us l) l.
Proof.
  intros us l Hc x Hx. apply expand_In in Hx. destruct Hx as [Hx | [y [Hy Hr]]].
  - exact Hx.
  - exact (Hc y x Hy Hr).
Qed.

Lemma closed_closure_same : forall us k l, closed us l ->
  forall x, In x (closure k us l) <-> In x l.
Proof.
  intros us. induction k as [|k IH]; intros l Hc x.
  - cbn [closure]. reflexivity.
  - cbn [closure].
    assert (Hc' : closed us (expand us l)).
    { intros a b Ha Hr. apply expand_incl.
      apply (closed_expand_incl us l Hc) in Ha. exact (Hc a b Ha Hr). }
    rewrite (IH (expand us l) Hc' x). split.
    + apply closed_expand_incl. exact Hc.
    + apply expand_incl.
Qed.

Lemma closed_closure : forall us k l, closed us l -> closed us (closure k us l).
Proof.
  intros us k l Hc a b Ha Hr.
  apply (closed_closure_same us k l Hc). apply (closed_closure_same us k l Hc) in Ha.
  exact (Hc a b Ha Hr).
Qed.

Lemma closed_reach : forall us l, closed us l ->
  forall a b, clos_refl_trans nat (user_rel us) a b -> In a l -> In b l.
Proof.
  intros us l Hc a b Hr. apply clos_rt_rt1n in Hr.
  induction Hr as [a | a y b Hay Hyb IH]; intros Ha.
  - exact Ha.
  - apply IH. exact (Hc a y Ha Hay).
Qed.

Lemma closure_invariant : forall us, users_wf us ->
  forall k l, NoDup l -> (forall x, In x l -> x < length us) ->
    NoDup (closure k us l) /\
    (forall x, In x (closure k us l) -> x < length us) /\
    incl l (closure k us l) /\
    (closed us (closure k us l) \/ length l + k <= length (closure k us l)).
Proof.
  intros us Hwf. induction k as [|k IH]; intros l Hnd Hb.
  - cbn [closure]. split; [exact Hnd|]. split; [exact Hb|]. split; [apply incl_refl|].
    right. lia.
  - cbn [closure].
    assert (Hnd' : NoDup (expand us l)) by apply expand_NoDup.
    assert (Hb' : forall x, In x (expand us l) -> x < length us).
    { intros x Hx. apply expand_In in Hx. destruct Hx as [Hx | [y [Hy Hr]]].
      - apply Hb. exact Hx.
      - apply (Hwf y x Hr). }
    destruct (IH (expand us l) Hnd' Hb') as [H1 [H2 [H3 H4]]].
    split; [exact H1|]. split; [exact H2|]. split.
    { apply incl_tran with (expand us l); [apply expand_incl | exact H3]. }
    destruct H4 as [H4 | H4]; [left; exact H4|].
    destruct (le_lt_dec (length (expand us l)) (length l)) as [Hle | Hlt].
    + left. apply closed_closure.
      assert (Hinc : incl (expand us l) l).
      { apply NoDup_length_incl; [exact Hnd | exact Hle | apply expand_incl]. }
      intros a b Ha Hr. apply expand_In. right. exists a. split; [|exact Hr].
      apply Hinc. exact Ha.
    + right. lia.
Qed.

Lemma bounded_NoDup_length : forall n l, NoDup l -> (forall x, In x l -> x < n) -> length l <= n.
Proof.
  intros n l Hnd Hb. rewrite <- (seq_length n 0).
  apply NoDup_incl_length; [exact Hnd|].
  intros x Hx. apply in_seq. specialize (Hb x Hx). lia.
Qed.

Lemma closes_cycle_spec : forall us user target, users_wf us -> user < length us ->
  (closes_cycle us user target = true <-> clos_refl_trans nat (user_rel us) user target).
Proof.
  intros us user target Hwf Hu. unfold closes_cycle. rewrite cc_mem_In. split.
  - intros Hin. apply closure_sound in Hin. destruct Hin as [y [Hy Hr]].
    destruct Hy as [Hy | []]. subst y. exact Hr.
  - intros Hr.
    assert (Hnd : NoDup [user]).
    { constructor; [intros []| constructor]. }
    assert (Hb : forall x, In x [user] -> x < length us).
    { intros x [Hx | []]. subst x. exact Hu. }
    destruct (closure_invariant us Hwf (length us) [user] Hnd Hb) as [H1 [H2 [H3 H4]]].
    assert (Hlen := bounded_NoDup_length (length us) _ H1 H2).
    destruct H4 as [H4 | H4].
    + apply (closed_reach us _ H4 user target Hr). apply H3. left. reflexivity.
    + cbn [length] in H4. lia.
Qed.
