(* Kernel/Incr2Examples.v — non-vacuity of the all-worlds theorem (the programs of the sweep
   propagate errors; a history over worlds with circular dependencies satisfies its
   hypotheses) and the reason for its hypothesis `propagating`: with analyses that discard a
   circular-dependency error the result of a cycle depends on where the cycle is entered, and
   the incremental run differs from the fresh one. *)
From Coq Require Import List NArith Arith Bool Lia.
Import ListNotations.
From RH Require Import Kernel.World Kernel.Reset Kernel.Incr Kernel.Inv Kernel.Ref Kernel.IncrSweep.
Open Scope N_scope.

Lemma sprog_propagating : forall reqs tag, propagating (sprog tag reqs).
Proof.
  induction reqs as [|q reqs IH]; intros tag; cbn [sprog propagating]; [reflexivity|].
  intros a; destruct a; cbn [err_answer is_err]; try apply IH; eexists; reflexivity.
Qed.

(* a world with two cycles: p0 <-> e1 and q0 -> (use lib 0 .all) -> p0 -> q0 *)
Definition W_cyc : world :=
  [(p0, sprog 1 [QUnit (u_slot e1); QUnit (u_slot q0)]);
   (e1, sprog 2 [QHasBody; QUnit (u_slot p0)]);
   (q0, sprog 3 [QLibAll 0]);
   (ar, sprog 4 [QUnit (u_slot e1)]);
   (bd, sprog 5 [QUnit (u_slot p0)])].
Definition h_cyc : list batch :=
  [ ([ar], [(ar, sprog 6 [QUnit (mkSlot 0 9 None)])]);          (* a user of the cycle stops using it *)
    ([e1], [(e1, sprog 7 [])]);                                   (* one cycle is broken *)
    ([q0], []);                                                   (* the other one disappears *)
    ([], [(q0, sprog 8 [QUnit (u_slot p0)])]);                    (* and comes back *)
    ([e1; bd], [(e1, sprog 9 [QUnit (u_slot p0)])]) ].            (* both are back *)

Ltac prop_world_tac :=
  let u := fresh in let p := fresh in let H := fresh in
  intros u p H; unfold W_cyc, h_cyc, world_after, remove_unit, add_unit in H;
  cbn [In fold_left fst snd filter get_slot app] in H;
  repeat (destruct H as [H|H]; [let Hp := fresh in pose proof (f_equal snd H) as Hp; cbn [snd] in Hp; rewrite <- Hp; apply sprog_propagating|]); destruct H.

Lemma all_worlds_hyps_satisfiable :
  wf_world W_cyc /\ prop_world W_cyc /\ worlds_prop W_cyc h_cyc /\
  cleanb W_cyc = false /\ cleanb (fold_left world_after h_cyc W_cyc) = false /\
  cleanb (fold_left world_after (firstn 3 h_cyc) W_cyc) = true /\
  agrees_with_fresh analyse all_uids all_keys W_cyc h_cyc = true.
Proof.
  split.
  { unfold wf_world; cbn. repeat (constructor; [cbn; intuition discriminate|]). constructor. }
  split; [prop_world_tac|].
  split.
  { cbn [worlds_prop h_cyc]. repeat split; prop_world_tac. }
  repeat split; vm_compute; reflexivity.
Qed.

(* ---- analyses that discard the error ---- *)
Fixpoint wprog (tag : N) (reqs : list query) : prog :=
  match reqs with
  | [] => Done false tag
  | q :: r => Ask q (fun a => wprog (tag * 1009 + code a) r)
  end.

Definition cz := pkg 0 7.
(* c uses b; a and b use each other; all three discard circular-dependency errors *)
Definition W_sw : world :=
  [(cz, wprog 1 [QUnit (u_slot e1)]); (p0, wprog 2 [QUnit (u_slot e1)]); (e1, wprog 3 [QUnit (u_slot p0)])].
Definition h_sw : list batch := [([cz], [(cz, wprog 4 [])])].

(* fresh of the first world enters the cycle at e1 (through cz), fresh of the second world at
   p0; the incremental run keeps the results of p0 and e1 (correctly not reset: nothing they
   read has changed) and so differs from the fresh run *)
Lemma discarding_errors_breaks_equality :
  wf_world W_sw /\
  memo_of (start analyse W_sw h_sw) p0 <> memo_of (fresh lintf0 (fold_left world_after h_sw W_sw)) p0 /\
  (exists tr, option_map snd (memo_of (start analyse W_sw h_sw) p0) = Some tr /\ In (QUnit (u_slot e1), ACycle) tr) /\
  (exists tr, option_map snd (memo_of (fresh lintf0 (fold_left world_after h_sw W_sw)) p0) = Some tr /\
              ~ In (QUnit (u_slot e1), ACycle) tr) /\
  ~ prop_world W_sw.
Proof.
  split.
  { unfold wf_world; cbn. repeat (constructor; [cbn; intuition discriminate|]). constructor. }
  split; [vm_compute; discriminate|].
  split; [eexists; split; [vm_compute; reflexivity | vm_compute; auto]|].
  split.
  { eexists; split; [vm_compute; reflexivity|]. vm_compute. intros [H|[]]; discriminate H. }
  intros H. specialize (H cz _ (or_introl eq_refl)). cbn [wprog propagating] in H.
  specialize (H ACycle). cbn [err_answer] in H. destruct H as [t Ht]. discriminate Ht.
Qed.
