(* Kernel/IncrProofs.v — one analysis step re-establishes the invariant; any history of
   batches leads to the memo table and lint cache of a project freshly loaded from the final
   world (clean worlds); the pre-fix code is refuted by the witnesses of findings F2 and F3. *)
From Coq Require Import List NArith Arith Bool Lia.
Import ListNotations.
From RH Require Import Kernel.World Kernel.Reset Kernel.Incr Kernel.Inv
  Kernel.ClosureProofs Kernel.DenProofs Kernel.SimProofs Kernel.BatchProofs Kernel.ResetProofs
  Kernel.LintProofs.
Open Scope N_scope.

(* the state between two analyses *)
Record quiescent (lintf : list (uid * entry) -> lintval) (W : world) (S : st) : Prop := mkQ {
  q_units : units S = W;
  q_added : added S = [];
  q_removed : removed S = [];
  q_wf : wf_world W;
  q_clean : clean W;
  q_good : good W (sast S);
  q_total : total W (sast S);
  q_lint : lint_good lintf W (a_memo (sast S)) (lintc S)
}.

Lemma f3_extra_incl : forall W rem todo x, In x todo -> In x (f3_extra W rem todo).
Proof.
  intros W; induction rem as [|r rem IH]; intros todo x Hx; unfold f3_extra in *; cbn [fold_left]; [assumption|].
  apply IH. destruct (is_primary r); [assumption|].
  destruct (get_slot W (mkSlot (u_lib r) (u_prim r) None)) as [[w p]|]; [|assumption].
  destruct (mem_uid w todo); [assumption | apply in_or_app; left; assumption].
Qed.

Lemma f3_extra_spec : forall W rem todo x w p, In x rem -> is_primary x = false ->
  get_slot W (mkSlot (u_lib x) (u_prim x) None) = Some (w, p) -> In w (f3_extra W rem todo).
Proof.
  intros W; induction rem as [|r rem IH]; intros todo x w p Hx Hp Hg; [destruct Hx|].
  unfold f3_extra in *; cbn [fold_left]. destruct Hx as [->|Hx].
  - rewrite Hp, Hg. apply f3_extra_incl.
    destruct (mem_uid w todo) eqn:Hm; [apply mem_uid_In; assumption | apply in_or_app; right; left; reflexivity].
  - eapply IH; eassumption.
Qed.

Lemma todo_In : forall m W x,
  In x (filter (fun x => match memo_get m x with Some _ => false | None => true end) (unit_ids W))
  <-> In x (unit_ids W) /\ memo_get m x = None.
Proof.
  intros m W x; rewrite filter_In. destruct (memo_get m x); split; intros [H1 H2]; split; auto; discriminate.
Qed.

Theorem analyse_step : forall lintf Wo S b,
  lint_ok lintf -> quiescent lintf Wo S -> clean (world_after Wo b) ->
  exists S', analyse lintf (apply_batch S b) = Ok S' /\ quiescent lintf (world_after Wo b) S'.
Proof.
  intros lintf Wo S b Hlok [Hu Ha Hr Hwfo Hclo HA Htot Hlint] Hcln.
  destruct (apply_batch_spec S b Wo Hwfo Hu Ha Hr) as [N [B1 [B2 [B3 [B4 [B5 [B6 [B7 B8]]]]]]]].
  set (S1 := apply_batch S b) in *.
  set (Wn := world_after Wo b) in *.
  rewrite B8 in B1, B2.
  unfold analyse, analyse_gen, prepare, analyzed_units.
  destruct (reset_gen_total true (a_maps (sast S1)) (added S1) (removed S1)) as [rr [Hrr Hall]].
  rewrite Hrr. cbv beta iota zeta. rewrite B8.
  assert (Hrr' : reset (a_maps (sast S)) (added S1) (removed S1) = Some rr) by (rewrite <- B5; exact Hrr).
  pose proof (reset_good Wo Wn N (sast S) (added S1) (removed S1) rr Hwfo B2 Hclo HA Htot B1 B3 B4 Hrr'
                (a_memo (sast S1)) B6) as Hgood.
  unfold memo_after in Hgood.
  set (memo1 := filter (fun e => negb (mem_slot (u_slot (fst e)) (map u_slot (rr_all rr)))) (a_memo (sast S1))) in *.
  set (todo := filter (fun x => match memo_get memo1 x with Some _ => false | None => true end) (unit_ids Wn)).
  destruct (analyse_units_sim Wn Hcln todo (mkAst memo1 (rr_maps rr)) Hgood) as [A' [Hrun [HA' [Hext Hdone]]]].
  { intros x Hx; apply todo_In in Hx; apply Hx. }
  rewrite Hrun. eexists; split; [reflexivity|].
  assert (Hsurv : forall x e, memo_get memo1 x = Some e ->
            ~ In x (rr_all rr) /\ memo_get (a_memo (sast S)) x = Some e).
  { intros x e Hx.
    exact (memo_after_get (sast S) (removed S1) rr (a_memo (sast S1)) B6 x e Hx). }
  constructor; cbn [units added removed sast lintc]; try reflexivity; try assumption.
  - (* total *)
    intros x Hx. destruct (memo_get memo1 x) as [e|] eqn:Hm.
    + rewrite (x_memo _ _ Hext x e Hm); discriminate.
    + apply Hdone; apply todo_In; auto.
  - (* lint cache *)
    rewrite B7.
    apply (lint_step lintf Hlok Wo Wn N (a_memo (sast S)) (a_memo A') (added S1) (removed S1)
             (f3_extra Wn (rr_removed rr) todo) (lintc S) Hwfo B2 B1 B3 Hlint).
    + (* new units are analysed *)
      intros x Hx. apply f3_extra_incl. apply todo_In. split.
      * apply B3 in Hx. apply unit_ids_In in Hx; destruct Hx as [p Hp].
        apply unit_ids_In; exists p. rewrite B1; apply in_or_app; right; assumption.
      * destruct (memo_get memo1 x) as [e|] eqn:Hm; [|reflexivity]. exfalso.
        destruct (Hsurv x e Hm) as [Hn _]. apply Hn.
        apply Hall. apply reach_init. unfold affected_seed.
        apply in_or_app; left; apply in_or_app; left; assumption.
    + (* units that are not analysed keep their entry *)
      intros x Hx Hn.
      assert (Hnt : ~ In x todo) by (intros Hc; apply Hn; apply f3_extra_incl; assumption).
      destruct (memo_get memo1 x) as [e|] eqn:Hm.
      * rewrite (x_memo _ _ Hext x e Hm). symmetry; apply (Hsurv x e Hm).
      * exfalso; apply Hnt; apply todo_In; auto.
    + (* the f646103 rule *)
      intros x Hxr Hxa Hps Hhp. unfold has_primary in Hhp.
      destruct (get_slot Wn (mkSlot (fst (ukey x)) (snd (ukey x)) None)) as [[w p]|] eqn:Hg; [|discriminate].
      exists w; split.
      * apply (f3_extra_spec Wn (rr_removed rr) todo x w p); [| assumption | exact Hg].
        apply (rr_removed_spec (sast S) (added S1) (removed S1) rr Hrr').
        auto.
      * destruct (get_slot_In _ _ _ _ Hg) as [_ Hs].
        destruct w as [lw kw]; unfold u_slot in Hs; cbn [u_lib u_key] in Hs.
        destruct kw as [pk n|sk pn n]; inversion Hs as [[H1 H2]].
        unfold ukey at 1, u_prim, u_slot; cbn [u_lib u_key s_prim].
        symmetry; apply surjective_pairing.
Qed.

(* ------------------------------------------------------------------------------------ *)
(* fresh = one step from the empty project *)
Lemma quiescent_empty : forall lintf, lint_ok lintf -> quiescent lintf [] empty_st.
Proof.
  intros lintf Hok; constructor; cbn [empty_st units added removed sast lintc a_memo]; try reflexivity.
  - constructor.
  - constructor; cbn [a_memo a_maps empty_maps users_of memo_get].
    + intros x e H; discriminate.
    + intros a b [].
    + intros x e H; discriminate.
  - intros x [].
  - intros k; cbn [lint_get family flat_map]. symmetry; apply Hok. intros x [].
Qed.

Lemma fold_add_unit_app : forall W2 W1, wf_world (W1 ++ W2) ->
  fold_left (fun W xp => add_unit W (fst xp) (snd xp)) W2 W1 = W1 ++ W2.
Proof.
  induction W2 as [|[x p] W2 IH]; intros W1 Hwf; cbn [fold_left fst snd]; [rewrite app_nil_r; reflexivity|].
  assert (Hg : get_slot W1 (u_slot x) = None).
  { apply get_slot_None. unfold wf_world, slots_of in Hwf. rewrite map_app in Hwf. cbn [map fst] in Hwf.
    apply NoDup_remove_2 in Hwf. intros Hc; apply Hwf; apply in_or_app; left; assumption. }
  unfold add_unit at 2. rewrite Hg.
  rewrite IH; [rewrite <- app_assoc; reflexivity | rewrite <- app_assoc; assumption].
Qed.

Lemma world_after_empty : forall W, wf_world W -> world_after [] ([], W) = W.
Proof.
  intros W Hwf; unfold world_after; cbn [fst snd fold_left]. apply (fold_add_unit_app W []); assumption.
Qed.

Lemma fresh_quiescent : forall lintf W, lint_ok lintf -> wf_world W -> clean W ->
  exists F, fresh lintf W = Ok F /\ quiescent lintf W F.
Proof.
  intros lintf W Hok Hwf Hcl.
  destruct (analyse_step lintf [] empty_st ([], W) Hok (quiescent_empty lintf Hok)) as [F [HF HQ]].
  - rewrite world_after_empty; assumption.
  - rewrite world_after_empty in HQ by assumption. exists F; split; [exact HF | exact HQ].
Qed.

(* two quiescent states of the same world agree on everything observable *)
Lemma quiescent_unique : forall lintf W S1 S2, quiescent lintf W S1 -> quiescent lintf W S2 ->
  units S1 = units S2 /\
  (forall x, memo_get (a_memo (sast S1)) x = memo_get (a_memo (sast S2)) x) /\
  (forall k, lint_get (lintc S1) k = lint_get (lintc S2) k).
Proof.
  intros lintf W S1 S2 [U1 _ _ _ _ G1 T1 L1] [U2 _ _ _ _ G2 T2 L2].
  assert (Hm : forall A B, good W A -> total W A -> good W B -> total W B ->
                forall x e, memo_get (a_memo A) x = Some e -> memo_get (a_memo B) x = Some e).
  { intros A B GA TA GB TB x e Hx. destruct (g_memo _ _ GA x e Hx) as [g Hd].
    destruct (den_present _ _ _ _ Hd) as [p [_ Hin]].
    assert (Hxw : In x (unit_ids W)) by (apply unit_ids_In; eauto).
    pose proof (TB x Hxw) as Hb. destruct (memo_get (a_memo B) x) as [e'|] eqn:He'; [|congruence].
    destruct (g_memo _ _ GB x e' He') as [g' Hd']. f_equal; eapply den_det; eassumption. }
  assert (Hmemo : forall x, memo_get (a_memo (sast S1)) x = memo_get (a_memo (sast S2)) x).
  { intros x. destruct (memo_get (a_memo (sast S1)) x) as [e|] eqn:H1.
    - symmetry; eapply (Hm (sast S1) (sast S2)); eassumption.
    - destruct (memo_get (a_memo (sast S2)) x) as [e|] eqn:H2; [|reflexivity].
      rewrite (Hm (sast S2) (sast S1) G2 T2 G1 T1 x e H2) in H1; discriminate. }
  split; [congruence|]. split; [exact Hmemo|].
  intros k; rewrite (L1 k), (L2 k). f_equal. apply family_ext; intros x _ _; apply Hmemo.
Qed.

Lemma run_history_quiescent : forall lintf h W S, lint_ok lintf -> quiescent lintf W S -> worlds_clean W h ->
  exists S', run_history (analyse lintf) S h = Ok S' /\ quiescent lintf (fold_left world_after h W) S'.
Proof.
  intros lintf; induction h as [|b h IH]; intros W S Hok HQ Hcl; cbn [run_history fold_left].
  - exists S; split; [reflexivity | assumption].
  - destruct Hcl as [Hc1 Hc2].
    destruct (analyse_step lintf W S b Hok HQ Hc1) as [S1 [H1 Q1]]. rewrite H1.
    apply IH; assumption.
Qed.

(* C01_incremental_eq_fresh *)
Theorem incremental_eq_fresh : forall lintf W0 h,
  lint_ok lintf -> wf_world W0 -> clean W0 -> worlds_clean W0 h ->
  exists S0 S F,
    fresh lintf W0 = Ok S0 /\
    run_history (analyse lintf) S0 h = Ok S /\
    fresh lintf (fold_left world_after h W0) = Ok F /\
    units S = units F /\
    (forall x, memo_get (a_memo (sast S)) x = memo_get (a_memo (sast F)) x) /\
    (forall k, lint_get (lintc S) k = lint_get (lintc F) k).
Proof.
  intros lintf W0 h Hok Hwf Hcl Hh.
  destruct (fresh_quiescent lintf W0 Hok Hwf Hcl) as [S0 [HS0 Q0]].
  destruct (run_history_quiescent lintf h W0 S0 Hok Q0 Hh) as [S [HS QS]].
  destruct (fresh_quiescent lintf (fold_left world_after h W0) Hok (q_wf _ _ _ QS) (q_clean _ _ _ QS)) as [F [HF QF]].
  exists S0, S, F. split; [assumption|]. split; [assumption|]. split; [assumption|].
  exact (quiescent_unique lintf _ S F QS QF).
Qed.

Lemma worlds_clean_app : forall h1 h2 W, worlds_clean W (h1 ++ h2) -> worlds_clean W h1.
Proof.
  induction h1 as [|b h1 IH]; intros h2 W H; cbn [worlds_clean app] in *; [exact I|].
  destruct H as [H1 H2]; split; [assumption | eapply IH; eassumption].
Qed.

(* ... at every Analyse step of the history *)
Theorem incremental_eq_fresh_every_step : forall lintf W0 h,
  lint_ok lintf -> wf_world W0 -> clean W0 -> worlds_clean W0 h ->
  forall n, exists S0 S F,
    fresh lintf W0 = Ok S0 /\
    run_history (analyse lintf) S0 (firstn n h) = Ok S /\
    fresh lintf (fold_left world_after (firstn n h) W0) = Ok F /\
    units S = units F /\
    (forall x, memo_get (a_memo (sast S)) x = memo_get (a_memo (sast F)) x) /\
    (forall k, lint_get (lintc S) k = lint_get (lintc F) k).
Proof.
  intros lintf W0 h Hok Hwf Hcl Hh n. apply incremental_eq_fresh; try assumption.
  rewrite <- (firstn_skipn n h) in Hh. eapply worlds_clean_app; eassumption.
Qed.

(* C01_reset_covers_changed_reads: whenever the reference result of an analysed unit is not
   the same in the world after a batch of updates -- i.e. one of its recorded reads,
   transitively, answers differently -- `reset` clears the unit.  `reset` itself is total. *)
Theorem reset_covers_changed_reads : forall lintf Wo S b,
  quiescent lintf Wo S ->
  exists rr, reset (a_maps (sast (apply_batch S b))) (added (apply_batch S b)) (removed (apply_batch S b)) = Some rr /\
    forall g x e, den g Wo x = Some e -> den g (world_after Wo b) x <> Some e -> In x (rr_all rr).
Proof.
  intros lintf Wo S b [Hu Ha Hr Hwfo Hclo HA Htot Hlint].
  destruct (apply_batch_spec S b Wo Hwfo Hu Ha Hr) as [N [B1 [B2 [B3 [B4 [B5 [B6 [B7 B8]]]]]]]].
  set (S1 := apply_batch S b) in *. rewrite B8 in B1, B2.
  destruct (reset_gen_total true (a_maps (sast S1)) (added S1) (removed S1)) as [rr [Hrr Hall]].
  exists rr; split; [exact Hrr|].
  intros g x e Hd Hne. destruct (in_dec uid_eq_dec x (rr_all rr)) as [Hin|Hnin]; [assumption|]. exfalso.
  apply Hne. rewrite B5 in Hrr.
  exact (stable Wo (world_after Wo b) N (sast S) (added S1) (removed S1) rr Hwfo B2 Hclo HA Htot B1 B3 B4 Hrr g x e Hd Hnin).
Qed.

(* in a clean world the reference run never sees a circular dependency error *)
Definition no_cycle_event (ev : event) : Prop :=
  snd ev <> ACycle /\ forall l, snd ev <> AAllErr l.

Lemma den_answer_no_cycle : forall W g u q a, clean W ->
  den_answer W (getd_of g W) u q = Some a -> no_cycle_event (q, a).
Proof.
  intros W g u q a Hc H; destruct q as [s|l|]; cbn [den_answer] in H.
  - destruct (get_slot W s) as [[v p]|]; [|inversion H; split; [discriminate | intros; discriminate]].
    destruct (getd_of g W v) as [rv|] eqn:Hg; [|discriminate].
    rewrite (clean_getd_circ _ _ _ _ Hc Hg) in H. inversion H; split; [discriminate | intros; discriminate].
  - destruct (l =? u_lib u); [inversion H; split; [discriminate | intros; discriminate]|].
    destruct (den_all (getd_of g W) (primaries W l) []) as [[vs b]|] eqn:Hd; [|discriminate].
    assert (b = true).
    { eapply den_all_clean_true; [|eassumption]. intros v rv Hv; eapply clean_getd_circ; eassumption. }
    subst b; inversion H; split; [discriminate | intros; discriminate].
  - inversion H; split; [discriminate | intros; discriminate].
Qed.

Lemma den_run_no_cycle : forall W g u, clean W -> forall p tr e,
  den_run W (getd_of g W) u p tr = Some e -> Forall no_cycle_event tr -> Forall no_cycle_event (snd e).
Proof.
  intros W g u Hc; induction p as [c t|q k IH]; intros tr e H Htr; cbn [den_run] in H.
  - inversion H; subst; cbn [snd]. apply Forall_rev; assumption.
  - destruct (den_answer W (getd_of g W) u q) as [a|] eqn:Ha; [|discriminate].
    eapply IH; [eassumption|]. constructor; [eapply den_answer_no_cycle; eassumption | assumption].
Qed.

Lemma den_no_cycle : forall W g u e, clean W -> den g W u = Some e ->
  r_circ (fst e) = false /\ Forall no_cycle_event (snd e).
Proof.
  intros W g u e Hc H; split; [eapply clean_den_circ; eassumption|].
  destruct g as [|g]; [discriminate|]. rewrite den_S in H.
  destruct (get_slot W (u_slot u)) as [[v p]|]; [|discriminate].
  destruct (uid_eqb v u); [|discriminate].
  eapply den_run_no_cycle; [eassumption | eassumption | constructor].
Qed.

(* C01_no_spurious_cycle: the incremental run never reports a circular dependency in a
   clean world (the fresh run does not either) *)
Theorem no_spurious_cycle : forall lintf W0 h S0 S,
  lint_ok lintf -> wf_world W0 -> clean W0 -> worlds_clean W0 h ->
  fresh lintf W0 = Ok S0 -> run_history (analyse lintf) S0 h = Ok S ->
  forall x e, memo_get (a_memo (sast S)) x = Some e ->
    r_circ (fst e) = false /\ Forall no_cycle_event (snd e).
Proof.
  intros lintf W0 h S0 S Hok Hwf Hcl Hh HS0 HS x e Hx.
  destruct (fresh_quiescent lintf W0 Hok Hwf Hcl) as [S0' [HS0' Q0]].
  rewrite HS0 in HS0'; inversion HS0'; subst S0'.
  destruct (run_history_quiescent lintf h W0 S0 Hok Q0 Hh) as [S' [HS' QS]].
  rewrite HS in HS'; inversion HS'; subst S'.
  destruct (g_memo _ _ (q_good _ _ _ QS) x e Hx) as [g Hd].
  eapply den_no_cycle; [exact (q_clean _ _ _ QS) | eassumption].
Qed.
