(* Kernel/ConcCoarse.v — a seeded variant of the protocol of Kernel/Conc.v: the per-unit `uses`
   cache of AnalyzeContext is keyed by a projection `ck` of the unit identity (e.g. the UnitKey
   = names without library and kind) instead of the full UnitId.  Two units with the same key then
   share one cache entry: for the second one no edge is registered and no cycle test is made.
   With `ck` = identity this is exactly `step_thread` (step_thread_ck_id); with a non-injective
   `ck` a stuck state is reachable (uses_cache_coarse_key_refuted). *)
From Coq Require Import List Arith Bool.
Import ListNotations.
From RH Require Import Kernel.Conc.

Section Coarse.
Variable deps : list (list req).
Variable cbo : bool.
Variable ck : nat -> nat.

Definition cache_hit (v : nat) (uses : list nat) : bool := mem (ck v) (map ck uses).

Definition step_thread_ck (s : state) (t : nat) : list state :=
  match nth_error (threads s) t with
  | None => []
  | Some th =>
    match t_stack th with
    | [] =>
      match t_job th with
      | WNone =>
          map (fun u => mkState (locks s) (users s) (upd (threads s) t (mkThread (WRead u true) []))
                                (remove Nat.eq_dec u (todo s)))
              (nodup Nat.eq_dec (todo s))
      | WRead v sw =>
          match lock_of s v with
          | Vacant => [set_thread s t (mkThread (WWrite v sw) [])]
          | Writing _ => []
          | Done _ => [set_thread s t (mkThread WNone [])]
          end
      | WWrite v sw =>
          match lock_of s v with
          | Vacant => [push_frame s t (WRead v sw) [] v]
          | Writing _ => []
          | Done _ => [set_thread s t (mkThread WNone [])]
          end
      end
    | fr :: rest =>
      let job := t_job th in
      match f_want fr with
      | WRead v sw =>
          match lock_of s v with
          | Vacant => [set_thread s t (mkThread job (set_want fr (WWrite v sw) :: rest))]
          | Writing _ => []
          | Done c => [resolve s t job fr rest c sw]
          end
      | WWrite v sw =>
          match lock_of s v with
          | Vacant => [push_frame s t job (set_want fr (WRead v sw) :: rest) v]
          | Writing _ => []
          | Done c => [resolve s t job fr rest c sw]
          end
      | WNone =>
          match cur_req deps fr with
          | None =>
              [mkState (upd (locks s) (f_unit fr) (Done None)) (users s)
                       (upd (threads s) t (mkThread job rest)) (todo s)]
          | Some (v, sw) =>
              if cache_hit v (f_uses fr) then
                [set_thread s t (mkThread job (set_want fr (WRead v sw) :: rest))]
              else
                let us' := add_user (users s) v (f_unit fr) in
                if closes_cycle us' (f_unit fr) v then
                  if sw then
                    [mkState (locks s) us'
                       (upd (threads s) t
                          (mkThread job (next_frame fr (if cbo then v :: f_uses fr else f_uses fr) :: rest)))
                       (todo s)]
                  else [abort_frame s us' t job fr rest]
                else
                  [mkState (locks s) us'
                     (upd (threads s) t
                        (mkThread job (mkFrame (f_unit fr) (f_idx fr) (v :: f_uses fr) (WRead v sw) :: rest)))
                     (todo s)]
          end
      end
    end
  end.

Definition succs_ck (s : state) : list state :=
  flat_map (step_thread_ck s) (seq 0 (length (threads s))).
Definition stuck_ck (s : state) : bool :=
  negb (final s) && match succs_ck s with [] => true | _ => false end.
Inductive reach_ck (s0 : state) : state -> Prop :=
| reach_ck_refl : reach_ck s0 s0
| reach_ck_step : forall s s', reach_ck s0 s -> In s' (succs_ck s) -> reach_ck s0 s'.
Fixpoint follow_ck (s : state) (choices : list nat) : option state :=
  match choices with
  | [] => Some s
  | c :: r => match nth_error (succs_ck s) c with Some s' => follow_ck s' r | None => None end
  end.
Fixpoint find_stuck_path_ck (fuel : nat) (s : state) : option (list nat) :=
  match fuel with
  | O => None
  | S f =>
    if stuck_ck s then Some []
    else
      (fix try (i : nat) (ss : list state) : option (list nat) :=
         match ss with
         | [] => None
         | s' :: r => match find_stuck_path_ck f s' with
                      | Some p => Some (i :: p)
                      | None => try (S i) r
                      end
         end) 0 (succs_ck s)
  end.

Lemma follow_ck_reach : forall choices s0 s s', reach_ck s0 s -> follow_ck s choices = Some s' -> reach_ck s0 s'.
Proof.
  induction choices as [ | c r IH]; intros s0 s s' Hr Hf; cbn [follow_ck] in Hf.
  - injection Hf as Hf. subst s'. exact Hr.
  - destruct (nth_error (succs_ck s) c) as [s1 | ] eqn:E; [ | discriminate].
    apply (IH s0 s1 s'); [ | exact Hf].
    apply reach_ck_step with s; [exact Hr | apply nth_error_In with c; exact E].
Qed.
End Coarse.

(* the full unit identity as key: the variant is the model *)
Lemma step_thread_ck_id : forall deps cbo s t, step_thread_ck deps cbo (fun x => x) s t = step_thread deps cbo s t.
Proof.
  intros deps cbo s t. unfold step_thread_ck, step_thread, cache_hit.
  destruct (nth_error (threads s) t) as [th | ]; [ | reflexivity].
  destruct (t_stack th) as [ | fr rest]; [reflexivity | ].
  destruct (f_want fr); try reflexivity.
  destruct (cur_req deps fr) as [[v sw] | ]; [ | reflexivity].
  rewrite map_id. reflexivity.
Qed.

Lemma succs_ck_id : forall deps cbo s, succs_ck deps cbo (fun x => x) s = succs deps cbo s.
Proof.
  intros deps cbo s. unfold succs_ck, succs.
  apply flat_map_ext. intro t. apply step_thread_ck_id.
Qed.

(* witness: unit 0 = lib1.pkg, 1 = lib2.util, 2 = lib1.util; key = the name: units 1 and 2 collide.
   pkg uses lib2.util then lib1.util; lib1.util uses pkg.  One worker, today's code otherwise. *)
Definition deps_homonym : list (list req) := [[(1, false); (2, false)]; []; [(0, false)]].
Definition name_key (u : nat) : nat := match u with 0 => 0 | _ => 1 end.

Theorem uses_cache_coarse_key_refuted :
  exists s, reach_ck deps_homonym false name_key (init 3 1) s /\ stuck_ck deps_homonym false name_key s = true
            /\ self_blocked s 0 = true.
Proof.
  destruct (find_stuck_path_ck deps_homonym false name_key 60 (init 3 1)) as [p | ] eqn:Ep; [ | vm_compute in Ep; discriminate].
  destruct (follow_ck deps_homonym false name_key (init 3 1) p) as [s | ] eqn:E; [ | vm_compute in Ep; injection Ep as Ep; subst p; vm_compute in E; discriminate].
  exists s. split; [eapply follow_ck_reach; [apply reach_ck_refl | exact E] | ].
  vm_compute in Ep. injection Ep as Ep. subst p.
  vm_compute in E. injection E as E. subst s.
  split; vm_compute; reflexivity.
Qed.
