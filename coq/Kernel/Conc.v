(* Kernel/Conc.v — small-step interleaving semantics of the parallel phase of
   `DesignRoot::analyze` (vhdl_lang/src/analysis/root.rs), definitions only.

   What is modelled (anchors):
   * analysis/lock.rs `AnalysisLock`: per-unit lock state `Vacant | Writing tid | Done circ`.
     `entry()` = `get()` (read; `None` while the result is missing) followed by `state.write()`
     and the re-check of `result.is_some()`; both `read()` and `write()` block while another
     guard of the writer kind is held.  The two halves are separate steps (`WRead`, `WWrite`),
     so that every interleaving between the fast path and the write acquisition exists in the
     model.  A `ReadGuard` is never held across another acquisition (the three callers in
     analyze.rs drop `data` before the next request), hence `Done` units are freely readable.
   * root.rs `analyze`: `units.par_iter().for_each(|id| get_analysis(get_unit(id)))`: an idle
     worker takes any remaining id (`Pick`), runs it to completion, takes the next.
   * root.rs `get_analysis`/`analyze_unit`: `Vacant` => nested analysis on the same thread
     (a new frame on the thread's stack), `finish` + `downgrade` => `Done`.
   * root.rs `make_use_of`: edge insertion into the shared `users_of` and the cycle test
     (`get_all_affected`) under one write lock = one atomic step (`Register`).  A failing
     edge stays in `users_of`.
   * analyze.rs `AnalyzeContext::make_use_of`: per-unit `uses` cache consulted before the
     shared map; `get_analysis`: a `Done` unit with `has_circular_dependency` yields a circular
     error at the position of the use.
   * who discards a circular error (a request carries that `swallow` flag):
     - design_unit.rs `analyze_use_clause` (`let _ = name_resolve`) for a use clause that is not
       a selected name — until fix 052b116 (finding F16/F26); since then such a request propagates;
     - subprogram.rs `resolve_signature` (the Unknown error of an earlier type mark of a
       signature hides the circular error of a later one) and `subprogram_specification`
       (invalid formals hide the circular error of the return type): still present.
   * `cbo` (cache before outcome) = true is the code before commit 6e7f4e9 (finding F4): the
     unit was entered into `uses` before the outcome of the registration was known.

   A unit's behaviour is its list of requests (target unit, swallow flag), issued in order
   until the first circular error that is not swallowed.  The result of a unit is
   `Done None` or `Done (Some i)`: i = index of the request that got the circular error, i.e.
   the position of the unit's CircularDependency diagnostic. *)
From Coq Require Import List Arith Bool Lia PArith FMapPositive Relations.
Import ListNotations.

Definition req := (nat * bool)%type.   (* target unit, swallow *)

Inductive lockst := Vacant | Writing (t : nat) | Done (circ : option nat).

(* what a frame (or a worker at top level) is waiting for:
   WRead v  : about to call `get()` on unit v (read lock)
   WWrite v : `get()` returned None; about to call `state.write()` and re-check *)
Inductive want := WNone | WRead (v : nat) (sw : bool) | WWrite (v : nat) (sw : bool).

(* one activation of `analyze_unit`: the unit, the index of its current request, the
   `uses` cache of its AnalyzeContext, the pending acquisition *)
Record frame := mkFrame { f_unit : nat; f_idx : nat; f_uses : list nat; f_want : want }.

(* a rayon worker: the par_iter item it is processing (`t_job`) and its call stack (top first) *)
Record thread := mkThread { t_job : want; t_stack : list frame }.

Record state := mkState {
  locks : list lockst;
  users : list (list nat);        (* users[v] = units registered as users of v (`users_of`) *)
  threads : list thread;
  todo : list nat                 (* par_iter items not yet handed out *)
}.

(* ---------------------------------------------------------------------------------- *)
(* list helpers *)

Fixpoint upd {A} (l : list A) (i : nat) (x : A) : list A :=
  match l, i with
  | [], _ => []
  | _ :: r, O => x :: r
  | y :: r, S j => y :: upd r j x
  end.

Definition mem (x : nat) (l : list nat) : bool := existsb (Nat.eqb x) l.

(* `get_all_affected(users_of, {start})`: the set of transitive users; one round adds the
   users of everything seen so far; `length us` rounds reach the fixpoint (ConcProofs) *)
Definition expand (us : list (list nat)) (seen : list nat) : list nat :=
  nodup Nat.eq_dec (seen ++ flat_map (fun x => nth x us []) seen).
Fixpoint closure (fuel : nat) (us : list (list nat)) (seen : list nat) : list nat :=
  match fuel with
  | O => seen
  | S f => closure f us (expand us seen)
  end.
(* `all_affected.contains(unit_id)` after the edge user -> target has been inserted *)
Definition closes_cycle (us : list (list nat)) (user target : nat) : bool :=
  mem target (closure (length us) us [user]).

Definition add_user (us : list (list nat)) (v user : nat) : list (list nat) :=
  if mem user (nth v us []) then us else upd us v (user :: nth v us []).

Definition is_circ (c : option nat) : bool := match c with Some _ => true | None => false end.

(* ---------------------------------------------------------------------------------- *)
Section Sem.
Variable deps : list (list req).
Variable cbo : bool.

Definition unit_reqs (u : nat) : list req := nth u deps [].
Definition cur_req (fr : frame) : option req := nth_error (unit_reqs (f_unit fr)) (f_idx fr).
Definition lock_of (s : state) (v : nat) : lockst := nth v (locks s) Vacant.
Definition new_frame (v : nat) : frame := mkFrame v 0 [] WNone.
Definition set_want (fr : frame) (w : want) : frame := mkFrame (f_unit fr) (f_idx fr) (f_uses fr) w.
Definition next_frame (fr : frame) (uses : list nat) : frame :=
  mkFrame (f_unit fr) (S (f_idx fr)) uses WNone.

Definition set_thread (s : state) (t : nat) (th : thread) : state :=
  mkState (locks s) (users s) (upd (threads s) t th) (todo s).

(* the unit of frame `fr` ends with a circular error at its current request; frame popped *)
Definition abort_frame (s : state) (us : list (list nat)) (t : nat) (job : want) (fr : frame)
           (rest : list frame) : state :=
  mkState (upd (locks s) (f_unit fr) (Done (Some (f_idx fr)))) us
          (upd (threads s) t (mkThread job rest)) (todo s).

(* the current request of `fr` obtained the target's result `c` *)
Definition resolve (s : state) (t : nat) (job : want) (fr : frame) (rest : list frame)
           (c : option nat) (sw : bool) : state :=
  if is_circ c && negb sw then abort_frame s (users s) t job fr rest
  else set_thread s t (mkThread job (next_frame fr (f_uses fr) :: rest)).

(* lock v taken for writing by thread t: nested analysis, the caller re-reads on return *)
Definition push_frame (s : state) (t : nat) (job : want) (stack : list frame) (v : nat) : state :=
  mkState (upd (locks s) v (Writing t)) (users s)
          (upd (threads s) t (mkThread job (new_frame v :: stack))) (todo s).

(* all successor states of thread t *)
Definition step_thread (s : state) (t : nat) : list state :=
  match nth_error (threads s) t with
  | None => []
  | Some th =>
    match t_stack th with
    | [] =>
      match t_job th with
      | WNone =>       (* Pick *)
          map (fun u => mkState (locks s) (users s) (upd (threads s) t (mkThread (WRead u true) []))
                                (remove Nat.eq_dec u (todo s)))
              (nodup Nat.eq_dec (todo s))
      | WRead v sw =>
          match lock_of s v with
          | Vacant => [set_thread s t (mkThread (WWrite v sw) [])]
          | Writing _ => []
          | Done _ => [set_thread s t (mkThread WNone [])]
          end
      | WWrite v sw =>
          match lock_of s v with
          | Vacant => [push_frame s t (WRead v sw) [] v]
          | Writing _ => []
          | Done _ => [set_thread s t (mkThread WNone [])]
          end
      end
    | fr :: rest =>
      let job := t_job th in
      match f_want fr with
      | WRead v sw =>
          match lock_of s v with
          | Vacant => [set_thread s t (mkThread job (set_want fr (WWrite v sw) :: rest))]
          | Writing _ => []          (* foreign writer: blocked; own frame: blocked forever *)
          | Done c => [resolve s t job fr rest c sw]
          end
      | WWrite v sw =>
          match lock_of s v with
          | Vacant => [push_frame s t job (set_want fr (WRead v sw) :: rest) v]
          | Writing _ => []
          | Done c => [resolve s t job fr rest c sw]
          end
      | WNone =>
          match cur_req fr with
          | None =>    (* Finish *)
              [mkState (upd (locks s) (f_unit fr) (Done None)) (users s)
                       (upd (threads s) t (mkThread job rest)) (todo s)]
          | Some (v, sw) =>   (* Register *)
              if mem v (f_uses fr) then
                [set_thread s t (mkThread job (set_want fr (WRead v sw) :: rest))]
              else
                let us' := add_user (users s) v (f_unit fr) in
                if closes_cycle us' (f_unit fr) v then
                  if sw then
                    [mkState (locks s) us'
                       (upd (threads s) t
                          (mkThread job (next_frame fr (if cbo then v :: f_uses fr else f_uses fr) :: rest)))
                       (todo s)]
                  else [abort_frame s us' t job fr rest]
                else
                  [mkState (locks s) us'
                     (upd (threads s) t
                        (mkThread job (mkFrame (f_unit fr) (f_idx fr) (v :: f_uses fr) (WRead v sw) :: rest)))
                     (todo s)]
          end
      end
    end
  end.

Definition succs (s : state) : list state :=
  flat_map (step_thread s) (seq 0 (length (threads s))).

Definition idle (th : thread) : bool :=
  match t_job th, t_stack th with WNone, [] => true | _, _ => false end.
Definition final (s : state) : bool :=
  forallb idle (threads s) && match todo s with [] => true | _ => false end.
Definition is_done (l : lockst) : bool := match l with Done _ => true | _ => false end.
Definition all_done (s : state) : bool := forallb is_done (locks s).
Definition stuck (s : state) : bool :=
  negb (final s) && match succs s with [] => true | _ => false end.

(* the pending acquisition of thread th *)
Definition cur_want (th : thread) : want :=
  match t_stack th with [] => t_job th | fr :: _ => f_want fr end.
Definition want_target (w : want) : option nat :=
  match w with WNone => None | WRead v _ => Some v | WWrite v _ => Some v end.
(* thread t waits for a lock that a frame of its own stack holds: never released *)
Definition self_blocked (s : state) (t : nat) : bool :=
  match nth_error (threads s) t with
  | None => false
  | Some th =>
    match want_target (cur_want th) with
    | None => false
    | Some v => match lock_of s v with Writing t' => Nat.eqb t t' | _ => false end
    end
  end.

Inductive reach (s0 : state) : state -> Prop :=
| reach_refl : reach s0 s0
| reach_step : forall s s', reach s0 s -> In s' (succs s) -> reach s0 s'.

(* the same steps as an inductive relation with one constructor per case (for proofs);
   ConcProofs.succs_iff_Step : In s' (succs s) <-> Step s s' *)
Inductive Step (s : state) : state -> Prop :=
| SPick : forall t u,
    nth_error (threads s) t = Some (mkThread WNone []) -> In u (todo s) ->
    Step s (mkState (locks s) (users s) (upd (threads s) t (mkThread (WRead u true) []))
                    (remove Nat.eq_dec u (todo s)))
| SJobReadVacant : forall t v sw,
    nth_error (threads s) t = Some (mkThread (WRead v sw) []) -> lock_of s v = Vacant ->
    Step s (set_thread s t (mkThread (WWrite v sw) []))
| SJobReadDone : forall t v sw c,
    nth_error (threads s) t = Some (mkThread (WRead v sw) []) -> lock_of s v = Done c ->
    Step s (set_thread s t (mkThread WNone []))
| SJobWriteVacant : forall t v sw,
    nth_error (threads s) t = Some (mkThread (WWrite v sw) []) -> lock_of s v = Vacant ->
    Step s (push_frame s t (WRead v sw) [] v)
| SJobWriteDone : forall t v sw c,
    nth_error (threads s) t = Some (mkThread (WWrite v sw) []) -> lock_of s v = Done c ->
    Step s (set_thread s t (mkThread WNone []))
| SReadVacant : forall t job fr rest v sw,
    nth_error (threads s) t = Some (mkThread job (fr :: rest)) -> f_want fr = WRead v sw ->
    lock_of s v = Vacant ->
    Step s (set_thread s t (mkThread job (set_want fr (WWrite v sw) :: rest)))
| SReadDone : forall t job fr rest v sw c,
    nth_error (threads s) t = Some (mkThread job (fr :: rest)) -> f_want fr = WRead v sw ->
    lock_of s v = Done c ->
    Step s (resolve s t job fr rest c sw)
| SWriteVacant : forall t job fr rest v sw,
    nth_error (threads s) t = Some (mkThread job (fr :: rest)) -> f_want fr = WWrite v sw ->
    lock_of s v = Vacant ->
    Step s (push_frame s t job (set_want fr (WRead v sw) :: rest) v)
| SWriteDone : forall t job fr rest v sw c,
    nth_error (threads s) t = Some (mkThread job (fr :: rest)) -> f_want fr = WWrite v sw ->
    lock_of s v = Done c ->
    Step s (resolve s t job fr rest c sw)
| SFinish : forall t job fr rest,
    nth_error (threads s) t = Some (mkThread job (fr :: rest)) -> f_want fr = WNone ->
    cur_req fr = None ->
    Step s (mkState (upd (locks s) (f_unit fr) (Done None)) (users s)
                    (upd (threads s) t (mkThread job rest)) (todo s))
| SCacheHit : forall t job fr rest v sw,
    nth_error (threads s) t = Some (mkThread job (fr :: rest)) -> f_want fr = WNone ->
    cur_req fr = Some (v, sw) -> mem v (f_uses fr) = true ->
    Step s (set_thread s t (mkThread job (set_want fr (WRead v sw) :: rest)))
| SRegisterOk : forall t job fr rest v sw,
    nth_error (threads s) t = Some (mkThread job (fr :: rest)) -> f_want fr = WNone ->
    cur_req fr = Some (v, sw) -> mem v (f_uses fr) = false ->
    closes_cycle (add_user (users s) v (f_unit fr)) (f_unit fr) v = false ->
    Step s (mkState (locks s) (add_user (users s) v (f_unit fr))
              (upd (threads s) t
                 (mkThread job (mkFrame (f_unit fr) (f_idx fr) (v :: f_uses fr) (WRead v sw) :: rest)))
              (todo s))
| SRegisterCircSwallow : forall t job fr rest v,
    nth_error (threads s) t = Some (mkThread job (fr :: rest)) -> f_want fr = WNone ->
    cur_req fr = Some (v, true) -> mem v (f_uses fr) = false ->
    closes_cycle (add_user (users s) v (f_unit fr)) (f_unit fr) v = true ->
    Step s (mkState (locks s) (add_user (users s) v (f_unit fr))
              (upd (threads s) t
                 (mkThread job (next_frame fr (if cbo then v :: f_uses fr else f_uses fr) :: rest)))
              (todo s))
| SRegisterCircAbort : forall t job fr rest v,
    nth_error (threads s) t = Some (mkThread job (fr :: rest)) -> f_want fr = WNone ->
    cur_req fr = Some (v, false) -> mem v (f_uses fr) = false ->
    closes_cycle (add_user (users s) v (f_unit fr)) (f_unit fr) v = true ->
    Step s (abort_frame s (add_user (users s) v (f_unit fr)) t job fr rest).

(* termination measure (ConcProofs.step_measure): every step decreases it *)
Definition want_weight (w : want) : nat := match w with WNone => 3 | WRead _ _ => 2 | WWrite _ _ => 1 end.
Definition job_weight (w : want) : nat := match w with WNone => 0 | WRead _ _ => 2 | WWrite _ _ => 1 end.
Definition frame_weight (fr : frame) : nat :=
  4 * length (skipn (f_idx fr) (unit_reqs (f_unit fr))) + want_weight (f_want fr) + 1.
Definition thread_weight (th : thread) : nat :=
  job_weight (t_job th) + list_sum (map frame_weight (t_stack th)).
Fixpoint vacant_weight (i : nat) (ls : list lockst) : nat :=
  match ls with
  | [] => 0
  | l :: r => (match l with Vacant => 4 * length (unit_reqs i) + 6 | _ => 0 end) + vacant_weight (S i) r
  end.
Definition measure (s : state) : nat :=
  vacant_weight 0 (locks s) + list_sum (map thread_weight (threads s)) + 3 * length (todo s).

(* deterministic scheduler: always the first successor (with one thread: the units in the
   order of `todo`, each with its nested analyses) *)
Fixpoint run_first (fuel : nat) (s : state) : state :=
  match fuel with
  | O => s
  | S f => match succs s with [] => s | s' :: _ => run_first f s' end
  end.

End Sem.

Definition init_todo (n nthreads : nat) (td : list nat) : state :=
  mkState (repeat Vacant n) (repeat [] n) (repeat (mkThread WNone []) nthreads) td.
Definition init (n nthreads : nat) : state := init_todo n nthreads (seq 0 n).

(* every request targets an existing unit *)
Definition wf_deps (deps : list (list req)) : Prop :=
  forall u v sw, In (v, sw) (nth u deps []) -> v < length deps.
Definition wf_depsb (deps : list (list req)) : bool :=
  forallb (fun rs => forallb (fun r => fst r <? length deps) rs) deps.

(* static request graph *)
Definition dep_edge (deps : list (list req)) (u v : nat) : Prop := exists sw, In (v, sw) (nth u deps []).

(* the par_iter item list: every unit of the project (in any order) *)
Definition todo_ok (n : nat) (td : list nat) : Prop := forall u, In u td <-> u < n.

(* number of steps of a run *)
Inductive reach_in (deps : list (list req)) (cbo : bool) (s0 : state) : nat -> state -> Prop :=
| reach_in_0 : reach_in deps cbo s0 0 s0
| reach_in_S : forall k s s', reach_in deps cbo s0 k s -> In s' (succs deps cbo s) ->
                              reach_in deps cbo s0 (S k) s'.

Definition all_frames (s : state) : list frame := flat_map t_stack (threads s).

(* a lock only ever moves Vacant -> Writing t -> Done c *)
Definition lock_step (a b : lockst) : Prop :=
  a = b \/ (a = Vacant /\ exists t, b = Writing t) \/ (exists t c, a = Writing t /\ b = Done c).

(* specification of the circular-dependency flags in terms of the static request graph *)
Definition acyclic_deps (deps : list (list req)) : Prop :=
  forall u, ~ Relation_Operators.clos_trans nat (dep_edge deps) u u.
(* v lies on, or reaches, a request cycle *)
Definition bad (deps : list (list req)) (v : nat) : Prop :=
  exists c, Relation_Operators.clos_refl_trans nat (dep_edge deps) v c
            /\ Relation_Operators.clos_trans nat (dep_edge deps) c c.
(* no request whose circular error would be discarded can see one *)
Definition swallow_safe (deps : list (list req)) : Prop :=
  forall u v, In (v, true) (nth u deps []) -> ~ bad deps v.
(* no request discards a circular error *)
Definition no_swallow (deps : list (list req)) : Prop :=
  forall u v sw, In (v, sw) (nth u deps []) -> sw = false.
(* the result of unit u: the index of its first request whose target is bad, if any *)
Definition circ_spec (deps : list (list req)) (u : nat) (c : option nat) : Prop :=
  match c with
  | None => forall v sw, In (v, sw) (nth u deps []) -> ~ bad deps v
  | Some i => exists v sw, nth_error (nth u deps []) i = Some (v, sw) /\ bad deps v
              /\ forall j w sw', j < i -> nth_error (nth u deps []) j = Some (w, sw') -> ~ bad deps w
  end.

(* ---------------------------------------------------------------------------------- *)
(* boolean equality of states (used by the finite sweeps) *)
Definition opt_eqb (a b : option nat) : bool :=
  match a, b with Some x, Some y => Nat.eqb x y | None, None => true | _, _ => false end.
Definition lock_eqb (a b : lockst) : bool :=
  match a, b with
  | Vacant, Vacant => true
  | Writing x, Writing y => Nat.eqb x y
  | Done x, Done y => opt_eqb x y
  | _, _ => false
  end.
Fixpoint list_eqb {A} (eqb : A -> A -> bool) (a b : list A) : bool :=
  match a, b with
  | [], [] => true
  | x :: a', y :: b' => eqb x y && list_eqb eqb a' b'
  | _, _ => false
  end.
Definition want_eqb (a b : want) : bool :=
  match a, b with
  | WNone, WNone => true
  | WRead v s, WRead v' s' => Nat.eqb v v' && Bool.eqb s s'
  | WWrite v s, WWrite v' s' => Nat.eqb v v' && Bool.eqb s s'
  | _, _ => false
  end.
Definition frame_eqb (a b : frame) : bool :=
  Nat.eqb (f_unit a) (f_unit b) && Nat.eqb (f_idx a) (f_idx b)
  && list_eqb Nat.eqb (f_uses a) (f_uses b) && want_eqb (f_want a) (f_want b).
Definition thread_eqb (a b : thread) : bool :=
  want_eqb (t_job a) (t_job b) && list_eqb frame_eqb (t_stack a) (t_stack b).
Definition state_eqb (a b : state) : bool :=
  list_eqb lock_eqb (locks a) (locks b) && list_eqb (list_eqb Nat.eqb) (users a) (users b)
  && list_eqb thread_eqb (threads a) (threads b) && list_eqb Nat.eqb (todo a) (todo b).

(* ---------------------------------------------------------------------------------- *)
(* finite exploration: an untrusted worklist search collects a candidate set of states
   (keyed by a hash; a collision makes the search fail, never succeed wrongly), and a
   checker verifies that the set contains the initial state and is closed under `succs`
   (ConcProofs.closed_sound: then it contains every reachable state). *)
Definition digits_of_want (w : want) : list nat :=
  match w with
  | WNone => [0]
  | WRead v sw => [1; v; if sw then 1 else 0]
  | WWrite v sw => [2; v; if sw then 1 else 0]
  end.
Definition digits_of_list (l : list nat) : list nat := length l :: l.
Definition digits_of_frame (f : frame) : list nat :=
  f_unit f :: f_idx f :: digits_of_list (f_uses f) ++ digits_of_want (f_want f).
Definition digits_of_lock (l : lockst) : list nat :=
  match l with Vacant => [0] | Writing t => [1; t] | Done None => [2] | Done (Some i) => [3; i] end.
Definition digits_of_state (s : state) : list nat :=
  flat_map digits_of_lock (locks s)
  ++ flat_map digits_of_list (users s)
  ++ flat_map (fun th => digits_of_want (t_job th) ++ length (t_stack th) :: flat_map digits_of_frame (t_stack th))
              (threads s)
  ++ digits_of_list (todo s).
(* self-delimiting unary code of each digit, consed onto the key: O(1) per unit of digit *)
Definition hash_state (s : state) : positive :=
  fold_left (fun acc d => Nat.iter d xI (xO acc)) (digits_of_state s) 1%positive.

Definition sset := PositiveMap.t state.
Definition smem (s : state) (m : sset) : bool :=
  match PositiveMap.find (hash_state s) m with Some s' => state_eqb s s' | None => false end.

Section Explore.
Variable deps : list (list req).
Variable cbo : bool.

(* worklist search; None = out of fuel or hash collision *)
Fixpoint collect (fuel : nat) (work : list state) (seen : sset) : option sset :=
  match fuel with
  | O => None
  | S f =>
    match work with
    | [] => Some seen
    | s :: rest =>
      let h := hash_state s in
      match PositiveMap.find h seen with
      | Some s' => if state_eqb s s' then collect f rest seen else None
      | None => collect f (succs deps cbo s ++ rest) (PositiveMap.add h s seen)
      end
    end
  end.

(* one verification pass over the candidate set: it contains s0, every successor of a member
   is a member, no member is stuck, every final member has the lock vector `expect` *)
Definition good_state (expect : list lockst) (m : sset) (s : state) : bool :=
  let ss := succs deps cbo s in
  forallb (fun s' => smem s' m) ss
  && (if final s then list_eqb lock_eqb (locks s) expect
      else match ss with [] => false | _ => true end).
Definition closed_good (s0 : state) (expect : list lockst) (m : sset) : bool :=
  smem s0 m && forallb (fun kv => good_state expect m (snd kv)) (PositiveMap.elements m).

(* all interleavings from s0: no stuck state, and every final state has the lock vector `expect` *)
Definition check_all (fuel : nat) (s0 : state) (expect : list lockst) : bool :=
  match collect fuel [s0] (PositiveMap.empty state) with
  | None => false
  | Some m => closed_good s0 expect m
  end.

(* some reachable state is stuck (witness search for the refutation lemmas) *)
Fixpoint find_stuck (fuel : nat) (s : state) : bool :=
  match fuel with
  | O => false
  | S f => stuck deps cbo s || existsb (find_stuck f) (succs deps cbo s)
  end.
(* a run given by the index of the successor taken at each step (witnesses of the refutations) *)
Fixpoint follow (s : state) (choices : list nat) : option state :=
  match choices with
  | [] => Some s
  | c :: r => match nth_error (succs deps cbo s) c with Some s' => follow s' r | None => None end
  end.

(* depth-first search for such a run into a stuck state *)
Fixpoint find_stuck_path (fuel : nat) (s : state) : option (list nat) :=
  match fuel with
  | O => None
  | S f =>
    if stuck deps cbo s then Some []
    else
      (fix try (i : nat) (ss : list state) : option (list nat) :=
         match ss with
         | [] => None
         | s' :: r => match find_stuck_path f s' with
                      | Some p => Some (i :: p)
                      | None => try (S i) r
                      end
         end) 0 (succs deps cbo s)
  end.
End Explore.

(* the confluence check of one request graph: the expected vector is the one of the
   deterministic one-thread run *)
Definition seq_result (deps : list (list req)) (cbo : bool) (fuel : nat) : list lockst :=
  locks (run_first deps cbo fuel (init (length deps) 1)).
Definition confluent_graph (fuel nthreads : nat) (deps : list (list req)) : bool :=
  check_all deps false fuel (init (length deps) nthreads) (seq_result deps false fuel).

(* ---------------------------------------------------------------------------------- *)
(* enumeration of all small request graphs without discarded errors (finite sweeps) *)
Fixpoint lists_exact (n k : nat) : list (list req) :=
  match k with
  | O => [[]]
  | S k' => flat_map (fun a => map (cons (a, false)) (lists_exact n k')) (seq 0 n)
  end.
Definition lists_upto (n k : nat) : list (list req) := flat_map (lists_exact n) (seq 0 (S k)).
Fixpoint graphs_over (opts : list (list req)) (m : nat) : list (list (list req)) :=
  match m with
  | O => [[]]
  | S m' => flat_map (fun l => map (cons l) (graphs_over opts m')) opts
  end.
(* all graphs with n units whose request lists have at most k entries *)
Definition graphs (n k : nat) : list (list (list req)) := graphs_over (lists_upto n k) n.
Definition small_graph (n k : nat) (deps : list (list req)) : Prop :=
  length deps = n /\
  Forall (fun l => length l <= k /\ Forall (fun r : req => fst r < n /\ snd r = false) l) deps.
Definition sweep (fuel nthreads : nat) (gs : list (list (list req))) : bool :=
  forallb (confluent_graph fuel nthreads) gs.
