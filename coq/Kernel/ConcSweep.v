(* Soundness of the finite sweeps of Kernel/Conc.v: the checker `closed_good` run after the
   untrusted search `collect` guarantees that the candidate set contains every reachable state. *)
From Coq Require Import List Arith Bool Lia FMapPositive.
From RH Require Import Kernel.Conc Kernel.ConcBase.
Import ListNotations.

Lemma list_eqb_eq : forall A (eqb : A -> A -> bool), (forall x y, eqb x y = true -> x = y) ->
  forall a b, list_eqb eqb a b = true -> a = b.
Proof.
  intros A eqb Heq a. induction a as [|x a IH]; intros [|y b] H; cbn [list_eqb] in H;
    try reflexivity; try discriminate.
  apply andb_true_iff in H. destruct H as [H1 H2]. f_equal; [apply Heq; exact H1 | apply IH; exact H2].
Qed.

Lemma nat_eqb_eq : forall x y, Nat.eqb x y = true -> x = y.
Proof. intros x y H. apply Nat.eqb_eq. exact H. Qed.

Lemma opt_eqb_eq : forall a b, opt_eqb a b = true -> a = b.
Proof.
  intros [x|] [y|] H; cbn [opt_eqb] in H; try reflexivity; try discriminate.
  f_equal. apply nat_eqb_eq. exact H.
Qed.

Lemma lock_eqb_eq : forall a b, lock_eqb a b = true -> a = b.
Proof.
  intros [|x|x] [|y|y] H; cbn [lock_eqb] in H; try reflexivity; try discriminate; f_equal.
  - apply nat_eqb_eq. exact H.
  - apply opt_eqb_eq. exact H.
Qed.

Lemma want_eqb_eq : forall a b, want_eqb a b = true -> a = b.
Proof.
  intros [|v s|v s] [|v' s'|v' s'] H; cbn [want_eqb] in H; try reflexivity; try discriminate;
    apply andb_true_iff in H; destruct H as [H1 H2];
    apply nat_eqb_eq in H1; apply Bool.eqb_prop in H2; subst; reflexivity.
Qed.

Lemma frame_eqb_eq : forall a b, frame_eqb a b = true -> a = b.
Proof.
  intros [u i us w] [u' i' us' w'] H. unfold frame_eqb in H. cbn [f_unit f_idx f_uses f_want] in H.
  apply andb_true_iff in H. destruct H as [H H4].
  apply andb_true_iff in H. destruct H as [H H3].
  apply andb_true_iff in H. destruct H as [H1 H2].
  apply nat_eqb_eq in H1. apply nat_eqb_eq in H2.
  apply (list_eqb_eq _ _ nat_eqb_eq) in H3. apply want_eqb_eq in H4. subst. reflexivity.
Qed.

Lemma thread_eqb_eq : forall a b, thread_eqb a b = true -> a = b.
Proof.
  intros [j st] [j' st'] H. unfold thread_eqb in H. cbn [t_job t_stack] in H.
  apply andb_true_iff in H. destruct H as [H1 H2].
  apply want_eqb_eq in H1. apply (list_eqb_eq _ _ frame_eqb_eq) in H2. subst. reflexivity.
Qed.

Lemma state_eqb_eq : forall a b, state_eqb a b = true -> a = b.
Proof.
  intros [l u th td] [l' u' th' td'] H. unfold state_eqb in H. cbn [locks users threads todo] in H.
  apply andb_true_iff in H. destruct H as [H H4].
  apply andb_true_iff in H. destruct H as [H H3].
  apply andb_true_iff in H. destruct H as [H1 H2].
  apply (list_eqb_eq _ _ lock_eqb_eq) in H1.
  apply (list_eqb_eq _ _ (list_eqb_eq _ _ nat_eqb_eq)) in H2.
  apply (list_eqb_eq _ _ thread_eqb_eq) in H3.
  apply (list_eqb_eq _ _ nat_eqb_eq) in H4. subst. reflexivity.
Qed.

Lemma smem_find : forall s m, smem s m = true -> exists k, PositiveMap.find k m = Some s.
Proof.
  intros s m H. unfold smem in H. exists (hash_state s).
  destruct (PositiveMap.find (hash_state s) m) as [s'|] eqn:E; [|discriminate].
  apply state_eqb_eq in H. subst s'. reflexivity.
Qed.

(* a set accepted by the checker contains every reachable state *)
Lemma closed_sound : forall deps cbo s0 expect m, closed_good deps cbo s0 expect m = true ->
  forall s, reach deps cbo s0 s -> smem s m = true /\ good_state deps cbo expect m s = true.
Proof.
  intros deps cbo s0 expect m H. unfold closed_good in H.
  apply andb_true_iff in H. destruct H as [H0 Hall].
  assert (Hgood : forall s, smem s m = true -> good_state deps cbo expect m s = true).
  { intros s Hs. destruct (smem_find _ _ Hs) as [k Hk].
    apply PositiveMap.elements_correct in Hk.
    exact (proj1 (forallb_forall _ _) Hall (k, s) Hk). }
  assert (Hmem : forall s, reach deps cbo s0 s -> smem s m = true).
  { intros s Hr. induction Hr as [|s s' Hr IH Hin]; [exact H0|].
    pose proof (Hgood _ IH) as Hg. unfold good_state in Hg.
    apply andb_true_iff in Hg. destruct Hg as [Hg _].
    exact (proj1 (forallb_forall _ _) Hg s' Hin). }
  intros s Hr. split; [apply Hmem; exact Hr | apply Hgood; apply Hmem; exact Hr].
Qed.

Theorem check_all_sound : forall deps cbo fuel s0 expect, check_all deps cbo fuel s0 expect = true ->
  forall s, reach deps cbo s0 s -> stuck deps cbo s = false /\ (final s = true -> locks s = expect).
Proof.
  intros deps cbo fuel s0 expect H s Hr. unfold check_all in H.
  destruct (collect deps cbo fuel [s0] (PositiveMap.empty state)) as [m|]; [|discriminate].
  destruct (closed_sound _ _ _ _ _ H s Hr) as [_ Hg]. unfold good_state in Hg.
  apply andb_true_iff in Hg. destruct Hg as [_ Hg]. unfold stuck.
  destruct (final s) eqn:Ef.
  - split; [reflexivity|]. intros _. apply (list_eqb_eq _ _ lock_eqb_eq). exact Hg.
  - split; [|discriminate]. destruct (succs deps cbo s); [discriminate|reflexivity].
Qed.

Theorem confluent_graph_sound : forall fuel T deps, confluent_graph fuel T deps = true ->
  forall s, reach deps false (init (length deps) T) s ->
    stuck deps false s = false /\ (final s = true -> locks s = seq_result deps false fuel).
Proof.
  intros fuel T deps H. unfold confluent_graph in H. exact (check_all_sound _ _ _ _ _ H).
Qed.

Lemma follow_reach : forall deps cbo choices s0 s s', reach deps cbo s0 s ->
  follow deps cbo s choices = Some s' -> reach deps cbo s0 s'.
Proof.
  intros deps cbo choices s0. induction choices as [|c r IH]; intros s s' Hr Hf; cbn [follow] in Hf.
  - injection Hf as Hf. subst s'. exact Hr.
  - destruct (nth_error (succs deps cbo s) c) as [s1|] eqn:E; [|discriminate].
    apply (IH s1 s'); [|exact Hf]. apply (reach_step _ _ _ s s1 Hr). apply (nth_error_In _ _ E).
Qed.
