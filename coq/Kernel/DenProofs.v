(* Kernel/DenProofs.v — basic facts about worlds and the reference semantics `den`:
   slot lookup, monotonicity and determinism in the fuel, traces, the read order `sub`. *)
From Coq Require Import List NArith Arith Bool Lia.
Import ListNotations.
From RH Require Import Kernel.World Kernel.Reset Kernel.Incr Kernel.Inv Kernel.ClosureProofs.
Open Scope N_scope.

(* ------------------------------------------------------------------------------------ *)
(* slot lookup *)
Lemma get_slot_In : forall W s u p, get_slot W s = Some (u, p) -> In (u, p) W /\ u_slot u = s.
Proof.
  induction W as [|[v q] W IH]; intros s u p H; cbn [get_slot] in H; [discriminate|].
  destruct (slot_eqb (u_slot v) s) eqn:He.
  - inversion H; subst; split; [left; reflexivity | apply slot_eqb_true; assumption].
  - destruct (IH _ _ _ H) as [H1 H2]; split; [right; assumption | assumption].
Qed.

Lemma get_slot_None : forall W s, get_slot W s = None <-> ~ In s (slots_of W).
Proof.
  induction W as [|[v q] W IH]; intros s; cbn [get_slot slots_of map fst In].
  - tauto.
  - destruct (slot_eqb (u_slot v) s) eqn:He.
    + apply slot_eqb_true in He; split; [discriminate | intros H; exfalso; apply H; left; assumption].
    + apply slot_eqb_false in He. rewrite IH. unfold slots_of. tauto.
Qed.

Lemma get_slot_wf : forall W u p, wf_world W -> In (u, p) W -> get_slot W (u_slot u) = Some (u, p).
Proof.
  induction W as [|[v q] W IH]; intros u p Hwf Hin; [destruct Hin|].
  unfold wf_world in Hwf; cbn [slots_of map fst] in Hwf.
  apply NoDup_cons_iff in Hwf; destruct Hwf as [Hnin Hwf].
  cbn [get_slot]. destruct Hin as [Hin|Hin].
  - inversion Hin; subst; rewrite slot_eqb_refl; reflexivity.
  - destruct (slot_eqb (u_slot v) (u_slot u)) eqn:He.
    + apply slot_eqb_true in He. exfalso; apply Hnin; rewrite He.
      unfold slots_of; apply in_map_iff; exists (u, p); auto.
    + apply IH; assumption.
Qed.

Lemma present_In : forall W u, present W u = true -> exists p, In (u, p) W /\ get_slot W (u_slot u) = Some (u, p).
Proof.
  intros W u H; unfold present in H.
  destruct (get_slot W (u_slot u)) as [[v p]|] eqn:Hg; [|discriminate].
  apply uid_eqb_true in H; subst v. exists p; split; [apply (get_slot_In _ _ _ _ Hg) | reflexivity].
Qed.

Lemma In_present : forall W u p, wf_world W -> In (u, p) W -> present W u = true.
Proof.
  intros W u p Hwf Hin; unfold present; rewrite (get_slot_wf _ _ _ Hwf Hin); apply uid_eqb_refl.
Qed.

Lemma unit_ids_In : forall W u, In u (unit_ids W) <-> exists p, In (u, p) W.
Proof.
  intros W u; unfold unit_ids; rewrite in_map_iff; split.
  - intros [[v p] [Hv Hin]]; cbn [fst] in Hv; subst; eauto.
  - intros [p Hin]; exists (u, p); auto.
Qed.

Lemma primaries_In : forall W l v, In v (primaries W l) <-> In v (unit_ids W) /\ is_primary v = true /\ u_lib v = l.
Proof.
  intros W l v; unfold primaries; rewrite in_map_iff; split.
  - intros [[w p] [Hw Hin]]; cbn [fst] in Hw; subst w.
    apply filter_In in Hin; destruct Hin as [Hin Hc]; cbn [fst] in Hc.
    apply andb_true_iff in Hc; destruct Hc as [Hc1 Hc2]; apply N.eqb_eq in Hc2.
    split; [apply unit_ids_In; eauto | auto].
  - intros [Hin [Hp Hl]]; apply unit_ids_In in Hin; destruct Hin as [p Hin].
    exists (v, p); split; [reflexivity|]. apply filter_In; split; [assumption|].
    cbn [fst]; rewrite Hp; cbn [andb]; apply N.eqb_eq; assumption.
Qed.

(* ------------------------------------------------------------------------------------ *)
(* den: the callback only matters through its values *)
Definition getd_of (g : nat) (W : world) (x : uid) : option result :=
  match den g W x with Some e => Some (fst e) | None => None end.

Lemma den_S : forall g W v,
  den (S g) W v =
  match get_slot W (u_slot v) with
  | Some (v', p) => if uid_eqb v' v then den_run W (getd_of g W) v p [] else None
  | None => None
  end.
Proof. reflexivity. Qed.

Definition getd_le (g1 g2 : uid -> option result) : Prop :=
  forall x r, g1 x = Some r -> g2 x = Some r.

Lemma den_all_le : forall g1 g2 vs acc r, getd_le g1 g2 ->
  den_all g1 vs acc = Some r -> den_all g2 vs acc = Some r.
Proof.
  intros g1 g2; induction vs as [|v vs IH]; intros acc r Hle H; cbn [den_all] in *; [assumption|].
  destruct (g1 v) as [rv|] eqn:Hg; [|discriminate].
  rewrite (Hle _ _ Hg). destruct (r_circ rv); [assumption | apply IH; assumption].
Qed.

Lemma den_answer_le : forall W g1 g2 u q a, getd_le g1 g2 ->
  den_answer W g1 u q = Some a -> den_answer W g2 u q = Some a.
Proof.
  intros W g1 g2 u q a Hle H; destruct q as [s|l|]; cbn [den_answer] in *.
  - destruct (get_slot W s) as [[v p]|]; [|assumption].
    destruct (g1 v) as [rv|] eqn:Hg; [|discriminate]. rewrite (Hle _ _ Hg); assumption.
  - destruct (l =? u_lib u); [assumption|].
    destruct (den_all g1 (primaries W l) []) as [[vs b]|] eqn:Hd; [|discriminate].
    rewrite (den_all_le _ _ _ _ _ Hle Hd); assumption.
  - assumption.
Qed.

Lemma den_run_le : forall W g1 g2 u p tr e, getd_le g1 g2 ->
  den_run W g1 u p tr = Some e -> den_run W g2 u p tr = Some e.
Proof.
  intros W g1 g2 u; induction p as [c t|q k IH]; intros tr e Hle H; cbn [den_run] in *; [assumption|].
  destruct (den_answer W g1 u q) as [a|] eqn:Ha; [|discriminate].
  rewrite (den_answer_le _ _ _ _ _ _ Hle Ha). apply IH; assumption.
Qed.

Lemma den_mono_S : forall g W v e, den g W v = Some e -> den (S g) W v = Some e.
Proof.
  induction g as [|g IH]; intros W v e H; [discriminate|].
  rewrite den_S in *.
  destruct (get_slot W (u_slot v)) as [[v' p]|]; [|discriminate].
  destruct (uid_eqb v' v); [|discriminate].
  eapply den_run_le; [|eassumption].
  intros x r Hx; unfold getd_of in *.
  destruct (den g W x) as [ex|] eqn:Hd; [|discriminate].
  rewrite (IH _ _ _ Hd); assumption.
Qed.

Lemma den_mono : forall g g' W v e, (g <= g')%nat -> den g W v = Some e -> den g' W v = Some e.
Proof.
  intros g g' W v e Hle H; induction Hle as [|g' Hle IH]; [assumption | apply den_mono_S; assumption].
Qed.

Lemma den_det : forall g g' W v e e', den g W v = Some e -> den g' W v = Some e' -> e = e'.
Proof.
  intros g g' W v e e' H H'.
  pose proof (den_mono g (Nat.max g g') W v e (Nat.le_max_l _ _) H) as H1.
  pose proof (den_mono g' (Nat.max g g') W v e' (Nat.le_max_r _ _) H') as H2.
  congruence.
Qed.

Lemma den_None_mono : forall g g' W v, (g <= g')%nat -> den g' W v = None -> den g W v = None.
Proof.
  intros g g' W v Hle H. destruct (den g W v) as [e|] eqn:Hd; [|reflexivity].
  rewrite (den_mono _ _ _ _ _ Hle Hd) in H; discriminate.
Qed.

Lemma den_present : forall g W v e, den g W v = Some e ->
  exists p, get_slot W (u_slot v) = Some (v, p) /\ In (v, p) W.
Proof.
  intros [|g] W v e H; [discriminate|]. rewrite den_S in H.
  destruct (get_slot W (u_slot v)) as [[v' p]|] eqn:Hg; [|discriminate].
  destruct (uid_eqb v' v) eqn:He; [|discriminate]. apply uid_eqb_true in He; subst v'.
  exists p; split; [reflexivity | apply (get_slot_In _ _ _ _ Hg)].
Qed.

(* ------------------------------------------------------------------------------------ *)
(* traces *)
Lemma den_run_prefix : forall W gd u p tr e, den_run W gd u p tr = Some e ->
  exists rest, snd e = rev tr ++ rest.
Proof.
  intros W gd u; induction p as [c t|q k IH]; intros tr e H; cbn [den_run] in H.
  - inversion H; subst; cbn [snd]. exists []; rewrite app_nil_r; reflexivity.
  - destruct (den_answer W gd u q) as [a|]; [|discriminate].
    destruct (IH _ _ _ H) as [rest Hr]. cbn [rev] in Hr. rewrite <- app_assoc in Hr.
    eexists; eassumption.
Qed.

Lemma den_all_units : forall gd vs acc r b, den_all gd vs acc = Some (r, b) ->
  forall v, In v (map fst r) -> In v (map fst acc) \/ (In v vs /\ exists rv, gd v = Some rv /\ r_circ rv = false).
Proof.
  intros gd; induction vs as [|v0 vs IH]; intros acc r b H v Hv; cbn [den_all] in H.
  - inversion H; subst. rewrite map_rev in Hv; apply in_rev in Hv; left; assumption.
  - destruct (gd v0) as [r0|] eqn:Hg; [|discriminate].
    destruct (r_circ r0) eqn:Hc.
    + inversion H; subst. rewrite map_rev in Hv; apply in_rev in Hv; left; assumption.
    + destruct (IH _ _ _ H v Hv) as [Hin|[Hin Hex]].
      * cbn [map fst In] in Hin; destruct Hin as [Hin|Hin].
        -- subst v0; right; split; [left; reflexivity | eauto].
        -- left; assumption.
      * right; split; [right; assumption | assumption].
Qed.

Lemma den_all_complete : forall gd vs acc r, den_all gd vs acc = Some (r, true) ->
  r = rev acc ++ map (fun v => (v, match gd v with Some rv => rv | None => Res false 0 end)) vs
  /\ forall v, In v vs -> exists rv, gd v = Some rv /\ r_circ rv = false.
Proof.
  intros gd; induction vs as [|v0 vs IH]; intros acc r H; cbn [den_all] in H.
  - inversion H; subst; cbn [map]; rewrite app_nil_r; split; [reflexivity | intros v []].
  - destruct (gd v0) as [r0|] eqn:Hg; [|discriminate].
    destruct (r_circ r0) eqn:Hc; [discriminate|].
    destruct (IH _ _ H) as [Hr Hall]; split.
    + rewrite Hr; cbn [rev map]; rewrite Hg, <- app_assoc; reflexivity.
    + intros v [Hv|Hv]; [subst; eauto | apply Hall; assumption].
Qed.

Lemma den_answer_units : forall W gd u q a, den_answer W gd u q = Some a ->
  forall v, In v (answer_units a) -> exists rv, gd v = Some rv.
Proof.
  intros W gd u q a H v Hv; destruct q as [s|l|]; cbn [den_answer] in H.
  - destruct (get_slot W s) as [[w p]|]; [|inversion H; subst; destruct Hv].
    destruct (gd w) as [rw|] eqn:Hg; [|discriminate].
    inversion H; subst. destruct (r_circ rw); cbn [answer_units In] in Hv; [destruct Hv|].
    destruct Hv as [Hv|[]]; subst; eauto.
  - destruct (l =? u_lib u); [inversion H; subst; destruct Hv|].
    destruct (den_all gd (primaries W l) []) as [[vs b]|] eqn:Hd; [|discriminate].
    assert (Hv' : In v (map fst vs)) by (destruct b; inversion H; subst; exact Hv).
    destruct (den_all_units _ _ _ _ _ Hd v Hv') as [[]|[_ [rv [Hrv _]]]]; eauto.
  - inversion H; subst; destruct Hv.
Qed.

Lemma den_run_units : forall W gd u p tr e, den_run W gd u p tr = Some e ->
  forall v, In v (trace_units (snd e)) -> In v (trace_units tr) \/ exists rv, gd v = Some rv.
Proof.
  intros W gd u; induction p as [c t|q k IH]; intros tr e H v Hv; cbn [den_run] in H.
  - inversion H; subst; cbn [snd] in Hv. left.
    unfold trace_units in *; rewrite in_flat_map in *.
    destruct Hv as [ev [Hev Hin]]; exists ev; split; [apply in_rev; assumption | assumption].
  - destruct (den_answer W gd u q) as [a|] eqn:Ha; [|discriminate].
    destruct (IH _ _ _ H v Hv) as [Hin|Hex]; [|right; assumption].
    unfold trace_units in Hin; cbn [flat_map snd] in Hin. apply in_app_or in Hin.
    destruct Hin as [Hin|Hin]; [right; eapply den_answer_units; eassumption | left; assumption].
Qed.

(* a unit named in the reference trace of b has a reference result with less fuel *)
Lemma den_reads_fuel : forall g W b e a, den (S g) W b = Some e -> In a (trace_units (snd e)) ->
  den g W a <> None.
Proof.
  intros g W b e a H Ha. rewrite den_S in H.
  destruct (get_slot W (u_slot b)) as [[v' p]|]; [|discriminate].
  destruct (uid_eqb v' b); [|discriminate].
  destruct (den_run_units _ _ _ _ _ _ H a Ha) as [[]|[rv Hrv]].
  unfold getd_of in Hrv. destruct (den g W a); [discriminate | discriminate].
Qed.

Lemma den_reads_sub : forall g W b e a, den g W b = Some e -> In a (trace_units (snd e)) -> sub W a b.
Proof.
  intros g W b e a H Ha g1 Hg1.
  destruct g1 as [|g1]; [exfalso; apply Hg1; reflexivity|].
  destruct (den (S g1) W b) as [e1|] eqn:Hd; [|exfalso; apply Hg1; reflexivity].
  assert (e1 = e) by (eapply den_det; eassumption). subst e1.
  exists g1; split; [lia | eapply den_reads_fuel; eassumption].
Qed.

Lemma sub_trans : forall W a b c, sub W a b -> sub W b c -> sub W a c.
Proof.
  intros W a b c Hab Hbc g Hg.
  destruct (Hbc g Hg) as [g1 [Hlt1 Hg1]]. destruct (Hab g1 Hg1) as [g2 [Hlt2 Hg2]].
  exists g2; split; [lia | assumption].
Qed.

Lemma sub_irrefl : forall W a g, den g W a <> None -> ~ sub W a a.
Proof.
  intros W a g; induction g as [g IH] using lt_wf_ind; intros Hg Hs.
  destruct (Hs g Hg) as [g' [Hlt Hg']]. exact (IH g' Hlt Hg' Hs).
Qed.

(* units reachable from b through edges that respect the read order are b or above b *)
Lemma reach_sub : forall W E b x,
  (forall v y, In (v, y) E -> sub W v y) -> reach E [b] x -> x = b \/ sub W b x.
Proof.
  intros W E b x HE Hr; induction Hr as [x Hx | v x Hr IH He].
  - destruct Hx as [Hx|[]]; left; auto.
  - right. destruct IH as [->|IH]; [apply HE; assumption | eapply sub_trans; [eassumption | apply HE; assumption]].
Qed.

(* ------------------------------------------------------------------------------------ *)
(* clean worlds *)
Lemma clean_unit_den : forall W u, clean W -> In u (unit_ids W) ->
  exists e, den (length W) W u = Some e /\ r_circ (fst e) = false.
Proof.
  intros W u Hc Hu; unfold clean, cleanb in Hc. rewrite forallb_forall in Hc.
  specialize (Hc u Hu); unfold clean_unit in Hc.
  destruct (den (length W) W u) as [e|]; [|discriminate].
  exists e; split; [reflexivity | apply negb_true_iff; assumption].
Qed.

Lemma clean_den_circ : forall W g u e, clean W -> den g W u = Some e -> r_circ (fst e) = false.
Proof.
  intros W g u e Hc H.
  destruct (den_present _ _ _ _ H) as [p [_ Hin]].
  assert (Hu : In u (unit_ids W)) by (apply unit_ids_In; eauto).
  destruct (clean_unit_den W u Hc Hu) as [e' [He' Hc']].
  assert (e' = e) by (eapply den_det; eassumption). subst; assumption.
Qed.

Lemma clean_getd_circ : forall W g x r, clean W -> getd_of g W x = Some r -> r_circ r = false.
Proof.
  intros W g x r Hc H; unfold getd_of in H.
  destruct (den g W x) as [e|] eqn:Hd; [|discriminate]. inversion H; subst.
  eapply clean_den_circ; eassumption.
Qed.
