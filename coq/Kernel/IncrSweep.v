(* Kernel/IncrSweep.v — concrete programs, the witnesses of findings F2 and F3 on the pre-fix
   model, non-vacuity examples and a small-scope sweep (cyclic worlds included) of
   "incremental = fresh" by vm_compute. *)
From Coq Require Import List NArith Arith Bool Lia.
Import ListNotations.
From RH Require Import Kernel.World Kernel.Reset Kernel.Incr Kernel.Inv.
Open Scope N_scope.

(* ---- programs with a static request list whose result embeds what was seen ---- *)
Definition code (a : answer) : N :=
  match a with
  | AMissing => 1 | ACycle => 2
  | AUnit _ (Res c t) => 3 + 8 * (2 * t + (if c then 1 else 0))
  | AOwnLib => 4
  | AAll l => 5 + 8 * fold_left (fun acc e => acc * 101 + r_tag (snd e) + 1) l 0
  | AAllErr l => 6 + 8 * fold_left (fun acc e => acc * 101 + r_tag (snd e) + 1) l 0
  | ABool b => if b then 7 else 0
  end.
Definition is_err (a : answer) : bool :=
  match a with ACycle => true | AAllErr _ => true | _ => false end.
(* the analysis stops with the circular-dependency flag at the first error answer *)
Fixpoint sprog (tag : N) (reqs : list query) : prog :=
  match reqs with
  | [] => Done false tag
  | q :: r => Ask q (fun a => if is_err a then Done true (tag * 1009 + code a) else sprog (tag * 1009 + code a) r)
  end.

(* lint diagnostics of a family: the tags of its members, nothing without a primary unit *)
Definition lintf0 (f : list (uid * entry)) : lintval :=
  if existsb (fun e => is_primary (fst e)) f then map (fun e => r_tag (fst (snd e))) f else [].

Definition result_eq_dec : forall a b : result, {a = b} + {a <> b}.
Proof. repeat decide equality. Defined.
Definition answer_eq_dec : forall a b : answer, {a = b} + {a <> b}.
Proof. repeat decide equality. Defined.
Definition entry_eq_dec : forall a b : option entry, {a = b} + {a <> b}.
Proof. repeat decide equality. Defined.
Definition lintval_eq_dec : forall a b : lintval, {a = b} + {a <> b}.
Proof. repeat decide equality. Defined.

(* the observation compared between the incremental and the fresh project *)
Definition st_agree (us : list uid) (ks : list lkey) (s1 s2 : st) : bool :=
  forallb (fun u => if entry_eq_dec (memo_get (a_memo (sast s1)) u) (memo_get (a_memo (sast s2)) u) then true else false) us
  && forallb (fun k => if lintval_eq_dec (lint_get (lintc s1) k) (lint_get (lintc s2) k) then true else false) ks.

Section Agree.
  Variable an : (list (uid * entry) -> lintval) -> st -> outcome st.
  Variable us : list uid.
  Variable ks : list lkey.
  (* after every step of the history the incremental state agrees with the fresh one *)
  Fixpoint agree_history (W : world) (s : st) (h : list batch) : bool :=
    match h with
    | [] => true
    | b :: h' =>
        let W' := world_after W b in
        match an lintf0 (apply_batch s b), fresh lintf0 W' with
        | Ok s', Ok f => st_agree us ks s' f && agree_history W' s' h'
        | _, _ => false
        end
    end.
  Definition agrees_with_fresh (W : world) (h : list batch) : bool :=
    match fresh lintf0 W with Ok s => agree_history W s h | _ => false end.
End Agree.

(* ---- the units of the examples: two libraries, a package with body, entity + architecture ---- *)
Definition pkg (l n : N) : uid := mkUid l (KPrimary PPackage n).
Definition p0 := pkg 0 0.
Definition e1 := mkUid 0 (KPrimary PEntity 1).
Definition q0 := pkg 1 0.
Definition bd := mkUid 0 (KSecondary SPackageBody 0 0).
Definition ar := mkUid 0 (KSecondary SArchitecture 1 5).
Definition all_uids : list uid := [p0; e1; q0; bd; ar].
Definition all_keys : list lkey := [(0, 0); (0, 1); (1, 0)].

(* ---- finding F2: a uses b; a is edited to use nothing; b is edited to use a ---- *)
Definition W_F2 : world := [(p0, sprog 10 [QUnit (u_slot e1)]); (e1, sprog 20 [])].
Definition h_F2 : list batch :=
  [([p0], [(p0, sprog 11 [])]); ([e1], [(e1, sprog 21 [QUnit (u_slot p0)])])].

(* ---- finding F3: entity + architecture; the architecture is removed ---- *)
Definition W_F3 : world := [(e1, sprog 10 []); (ar, sprog 20 [QUnit (u_slot e1)])].
Definition h_F3 : list batch := [([ar], [])].

(* ---- a non-trivial clean world: use library.all, a missing unit, a package with body ---- *)
Definition W_ex : world :=
  [(p0, sprog 1 [QHasBody; QUnit (u_slot q0)]);
   (bd, sprog 2 [QUnit (u_slot p0)]);
   (e1, sprog 3 [QLibAll 1; QUnit (mkSlot 1 7 None)]);
   (ar, sprog 4 [QUnit (u_slot e1); QUnit (u_slot p0)]);
   (q0, sprog 5 [])].
Definition h_ex : list batch :=
  [ ([bd], []);                                                   (* the package body disappears *)
    ([], [(pkg 1 7, sprog 6 [])]);                                (* the missing unit appears *)
    ([q0], [(q0, sprog 7 [QUnit (mkSlot 1 7 None)])]);            (* a unit of the used library changes *)
    ([ar; e1], [(e1, sprog 8 []); (bd, sprog 9 [QUnit (u_slot p0)])]) ].

(* ---- the small scope ---- *)
Definition reqs_lib0 : list (list query) :=
  [ []; [QUnit (u_slot p0)]; [QUnit (u_slot e1)]; [QUnit (u_slot q0)]; [QLibAll 1]; [QHasBody];
    [QUnit (u_slot e1); QUnit (u_slot q0)]; [QHasBody; QUnit (u_slot e1)] ].
Definition reqs_lib1 : list (list query) := [ []; [QUnit (u_slot p0)]; [QLibAll 0]; [QUnit (u_slot e1)] ].
Definition reqs_bd : list (list query) := [ [QUnit (u_slot p0)] ].
Definition reqs_ar : list (list query) := [ [QUnit (u_slot e1)]; [QUnit (u_slot e1); QUnit (u_slot p0)] ].
Definition variants (tag : N) (u : uid) (rs : list (list query)) : list (option (uid * prog)) :=
  None :: map (fun r => Some (u, sprog tag r)) rs.
Definition mkworld (l : list (option (uid * prog))) : world :=
  flat_map (fun o => match o with Some x => [x] | None => [] end) l.
(* every combination of: p0 absent or one of 8 bodies, e1 absent or one of 5, q0 absent or one
   of 4, the package body of p0 absent/present, the architecture of e1 absent or one of 2 *)
Definition small_worlds : list world :=
  flat_map (fun a => flat_map (fun b => flat_map (fun c => flat_map (fun d =>
     map (fun e => mkworld [a; b; c; d; e]) (variants 5 ar reqs_ar)) (variants 4 bd reqs_bd))
     (variants 3 q0 reqs_lib1)) (variants 2 e1 (firstn 5 reqs_lib0))) (variants 1 p0 reqs_lib0).
(* every removal of one unit and every replacement / addition of one unit by any variant *)
Definition edits (tag : N) : list batch :=
  flat_map (fun ur => ([fst ur], []) :: map (fun r => ([fst ur], [(fst ur, sprog tag r)])) (snd ur))
    [(p0, reqs_lib0); (e1, firstn 5 reqs_lib0); (q0, reqs_lib1); (bd, reqs_bd); (ar, reqs_ar)].
Definition every (k : nat) (l : list world) : list world :=
  map (fun i => nth (i * k) l []) (seq 0 (length l / k)).

(* ------------------------------------------------------------------------------------ *)
Lemma lintf0_ok : lint_ok lintf0.
Proof.
  intros f Hf; unfold lintf0.
  replace (existsb (fun e => is_primary (fst e)) f) with false; [reflexivity|].
  symmetry; apply not_true_is_false; intros Hc; apply existsb_exists in Hc.
  destruct Hc as [x [Hx Hp]]. rewrite (Hf x Hx) in Hp; discriminate.
Qed.

Definition memo_of (o : outcome st) (x : uid) : option entry :=
  match o with Ok s => memo_get (a_memo (sast s)) x | _ => None end.
Definition lint_of (o : outcome st) (k : lkey) : lintval :=
  match o with Ok s => lint_get (lintc s) k | _ => [] end.
Definition start (an : (list (uid * entry) -> lintval) -> st -> outcome st) (W : world) (h : list batch) : outcome st :=
  match fresh lintf0 W with Ok s => run_history (an lintf0) s h | _ => Crash end.

(* F2 on the model of the code before commit 24ed74b: both worlds of the history are clean,
   the fresh analysis of the final world gives e1 a result without circular dependency, the
   incremental one reports a circular dependency; the repaired model agrees with fresh. *)
Lemma no_spurious_cycle_old_refuted :
  clean W_F2 /\ worlds_clean W_F2 h_F2 /\
  (exists e, memo_of (fresh lintf0 (fold_left world_after h_F2 W_F2)) e1 = Some e /\ r_circ (fst e) = false) /\
  (exists e, memo_of (start analyse_old_F2 W_F2 h_F2) e1 = Some e /\ r_circ (fst e) = true
             /\ In (QUnit (u_slot p0), ACycle) (snd e)) /\
  memo_of (start analyse W_F2 h_F2) e1 = memo_of (fresh lintf0 (fold_left world_after h_F2 W_F2)) e1.
Proof.
  split; [vm_compute; reflexivity|]. split; [vm_compute; auto|].
  split; [eexists; split; vm_compute; reflexivity|].
  split; [eexists; split; [vm_compute; reflexivity | split; [vm_compute; reflexivity | vm_compute; auto]]|].
  vm_compute; reflexivity.
Qed.

(* F3 on the model of the code before commit f646103: the lint cache keeps the diagnostics of
   the removed architecture *)
Lemma lint_cache_old_refuted :
  clean W_F3 /\ worlds_clean W_F3 h_F3 /\
  lint_of (start analyse_old_F3 W_F3 h_F3) (0, 1) <> lint_of (fresh lintf0 (fold_left world_after h_F3 W_F3)) (0, 1) /\
  lint_of (start analyse W_F3 h_F3) (0, 1) = lint_of (fresh lintf0 (fold_left world_after h_F3 W_F3)) (0, 1).
Proof.
  split; [vm_compute; reflexivity|]. split; [vm_compute; auto|].
  split; [vm_compute; discriminate | vm_compute; reflexivity].
Qed.

(* with a design-unit name defined twice the surviving unit depends on the arrival order:
   the side condition of the property is needed *)
Lemma duplicates_excluded_is_needed :
  let W1 := [(p0, sprog 1 []); (mkUid 0 (KPrimary PEntity 0), sprog 2 [])] in
  let W2 := [(mkUid 0 (KPrimary PEntity 0), sprog 2 []); (p0, sprog 1 [])] in
  ~ wf_world W1 /\ memo_of (fresh lintf0 W1) p0 <> memo_of (fresh lintf0 W2) p0.
Proof.
  split.
  - intros H; unfold wf_world in H; cbn in H. apply NoDup_cons_iff in H; destruct H as [H _].
    apply H; left; reflexivity.
  - vm_compute; discriminate.
Qed.

Lemma wf_W_ex : wf_world W_ex.
Proof.
  unfold wf_world; cbn. repeat (constructor; [cbn; intuition discriminate|]). constructor.
Qed.

(* the hypotheses of the general theorem are satisfiable by a non-trivial history, and the
   state it starts from records reads of all four kinds: a unit, a missing name, `use
   library.all`, has-body *)
Definition ex_state : st := match fresh lintf0 W_ex with Ok s => s | _ => empty_st end.
Lemma inv_reachable :
  wf_world W_ex /\ clean W_ex /\ worlds_clean W_ex h_ex /\
  agrees_with_fresh analyse all_uids all_keys W_ex h_ex = true /\
  fresh lintf0 W_ex = Ok ex_state /\
  existsb (edge_eqb (q0, p0)) (users_of (a_maps (sast ex_state))) = true /\
  existsb (lpair_eqb (1, e1)) (users_all (a_maps (sast ex_state))) = true /\
  existsb (mpair_eqb (mkSlot 1 7 None, e1)) (missing (a_maps (sast ex_state))) = true /\
  option_map snd (memo_get (a_memo (sast ex_state)) p0)
    = Some [(QHasBody, ABool true); (QUnit (u_slot q0), AUnit q0 (Res false 5))].
Proof.
  split; [exact wf_W_ex|]. split; [vm_compute; reflexivity|].
  split; [vm_compute; repeat split|].
  repeat split; vm_compute; reflexivity.
Qed.

(* ---- the sweep: 1620 worlds (870 of them with circular dependencies) x 25 edits, and every
   53rd world x 25 x 25 ---- *)
Lemma small_scope_size :
  (length small_worlds = 1620 /\ length (edits 7) = 25 /\ length (every 53 small_worlds) = 30 /\
   length (filter (fun W => negb (cleanb W)) small_worlds) = 870)%nat.
Proof. vm_compute. repeat split. Qed.

Lemma sweep_one_step :
  forallb (fun W => forallb (fun b1 => agrees_with_fresh analyse all_uids all_keys W [b1]) (edits 7)) small_worlds = true.
Proof. vm_cast_no_check (eq_refl true). Qed.

Lemma sweep_two_steps :
  forallb (fun W => forallb (fun b1 => forallb (fun b2 =>
     agrees_with_fresh analyse all_uids all_keys W [b1; b2]) (edits 8)) (edits 7)) (every 53 small_worlds) = true.
Proof. vm_cast_no_check (eq_refl true). Qed.

(* the pre-fix models fail on the same scope *)
Lemma sweep_old_fails :
  existsb (fun W => existsb (fun b1 => negb (agrees_with_fresh analyse_old_F3 all_uids all_keys W [b1])) (edits 7))
          (every 53 small_worlds) = true /\
  existsb (fun W => existsb (fun b1 => existsb (fun b2 =>
     negb (agrees_with_fresh analyse_old_F2 all_uids all_keys W [b1; b2])) (edits 8)) (edits 7))
          (firstn 3 (every 53 small_worlds)) = true.
Proof. split; vm_compute; reflexivity. Qed.
