(* Kernel/Ref.v — reference semantics for ALL worlds, circular dependencies included
   (definitions only, no proofs).

   `den` (World.v) is undefined for a unit whose reads are circular.  For analyses that
   propagate a circular-dependency error (`propagating`: the analysis of a unit ends with the
   circular flag as soon as one of its reads answers with the error, and never sets the flag
   otherwise -- what `?` does everywhere in vhdl_lang/src/analysis except the one place that
   discards the error, design_unit.rs `analyze_use_clause` for a use clause that is not a
   selected name) the result of every unit is determined statically:

     - a unit is *good* when `den` is defined for it (its reads never reach a cycle);
     - the reference run of any unit answers a read of a good unit with that unit's `den`
       result and a read of a bad unit with the circular-dependency error (`oracle`);
     - so a bad unit ends at its first read of a bad unit, with the reads seen before.

   `ref W u` is that run.  It is the analogue for this model of C04's static characterisation
   of the result vector (the position of the first request that lies on or reaches a cycle). *)
From Coq Require Import List NArith Arith Bool.
Import ListNotations.
From RH Require Import Kernel.World Kernel.Reset Kernel.Incr Kernel.Inv.
Open Scope N_scope.

Definition err_answer (a : answer) : bool :=
  match a with ACycle => true | AAllErr _ => true | _ => false end.

(* the analysis stops with the flag at an error answer and only then *)
Fixpoint propagating (p : prog) : Prop :=
  match p with
  | Done c _ => c = false
  | Ask q k => forall a, if err_answer a then exists t, k a = Done true t else propagating (k a)
  end.

Definition prop_world (W : world) : Prop := forall u p, In (u, p) W -> propagating p.

Definition goodb (W : world) (v : uid) : bool :=
  match den (length W) W v with Some _ => true | None => false end.

(* what a read of unit v yields: its reference result when it is good, else a result that
   carries the circular flag (the reader only sees the flag) *)
Definition oracle (W : world) (v : uid) : option result :=
  match den (length W) W v with Some e => Some (fst e) | None => Some (Res true 0) end.

Definition ref (W : world) (u : uid) : option entry :=
  match get_slot W (u_slot u) with
  | Some (u', p) => if uid_eqb u' u then den_run W (oracle W) u p [] else None
  | None => None
  end.

(* the units for which a run registers a `users_of` edge at an event: also the unit whose
   read failed (make_use_of inserts the edge before the cycle test, and a unit that is read
   and turns out to carry the flag has been registered as well) *)
Definition ev_reads (W : world) (ev : event) : list uid :=
  match ev with
  | (QUnit s, _) => match get_slot W s with Some (v, _) => [v] | None => [] end
  | (QLibAll l, AAll vs) => map fst vs
  | (QLibAll l, AAllErr vs) => firstn (S (length vs)) (primaries W l)
  | _ => []
  end.
Definition trace_reads (W : world) (t : trace) : list uid := flat_map (ev_reads W) t.

(* the read `ev` of unit x is recorded in the dependency maps *)
Definition reg_event2 (W : world) (M : maps) (x : uid) (ev : event) : Prop :=
  (forall v, In v (ev_reads W ev) -> In (v, x) (users_of M)) /\
  match ev with
  | (QUnit s, AMissing) => In (s, x) (missing M)
  | (QLibAll l, AAll _) => In (l, x) (users_all M)
  | _ => True
  end.

(* the invariant of the analysis state for arbitrary worlds *)
Record good2 (W : world) (A : ast) : Prop := mkGood2 {
  g2_memo : forall x e, memo_get (a_memo A) x = Some e -> ref W x = Some e;
  g2_edges : forall a b, In (a, b) (users_of (a_maps A)) ->
             exists e, ref W b = Some e /\ In a (trace_reads W (snd e));
  g2_reg : forall x e, memo_get (a_memo A) x = Some e -> Forall (reg_event2 W (a_maps A) x) (snd e)
}.

(* all worlds of a history consist of propagating analyses *)
Fixpoint worlds_prop (W : world) (h : list batch) : Prop :=
  match h with
  | [] => True
  | b :: h' => prop_world (world_after W b) /\ worlds_prop (world_after W b) h'
  end.
